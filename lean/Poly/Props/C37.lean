import Poly.Proofs.Pool
/-!
# C37 — Transaction pool bookkeeping is consistent under concurrency

Sequential part: `Poly.Model.Pool` models `TXPool` (txnpool/common/transaction_pool.go); every method holds the
pool's RWMutex over its whole body, so a concurrent history is a sequence of these operations. The theorems hold
for every operation sequence, every hash type, and every iteration order of the Go map (`order`).

Server part: `Srv` with `AStep` / `RStep` / `FStep` model the bookkeeping of txnpool/proc by counts; theorems hold for
every interleaving of the modelled steps. The capacity bound is proved for the admission fragment
(`capacity_respected_admission`, after the `fix:` that counts pending transactions in the capacity test). For the
whole server the bound demanded by the property is stated in full (`CapacityRespected`) and is *refuted* for the
model: block verification ignores the capacity (`block_verification_unbounded`) and the re-verification after a
saved block opens a window in which the test sees an empty pool (`reverify_window_breaks_bound`).
-/
namespace Poly.Props.C37
open Poly.Model.Pool

section
variable {H : Type} [DecidableEq H]

/-- The pool never holds two entries with the same hash, after any sequence of operations. -/
theorem no_duplicate_hash (ops : List (Op H)) : (keys (run ops)).Nodup := by
  unfold run; exact foldl_step_nodup ops (by simp [keys])

/-- `AddTxList` refines insertion into a finite map: it answers `false` exactly when the hash is present and then
changes nothing; otherwise the new entry is found under its hash and every other lookup is unchanged. -/
theorem add_refines_map (p : Pool H) (e : Entry H) :
    (add p e).2 = !has p e.hash ∧
    ∀ h, find? (add p e).1 h =
      if has p e.hash then find? p h else if h = e.hash then some e else find? p h := by
  unfold add
  by_cases hh : has p e.hash = true
  · simp [hh]
  · have hn : has p e.hash = false := by simpa using hh
    simp only [hn, Bool.false_eq_true, ↓reduceIte, Bool.not_false, true_and]
    intro h
    simp only [find?, List.find?_append]
    by_cases he : h = e.hash
    · subst he
      have : List.find? (fun x => x.hash == e.hash) p = none := (find?_none_iff p e.hash).2 ((has_false_iff p _).1 hn)
      simp [this]
    · have : (e.hash == h) = false := by simpa using fun h' => he h'.symm
      simp [he, this]

/-- `DelTxList` refines deletion from a finite map. -/
theorem del_refines_map (p : Pool H) (h : H) :
    (del p h).2 = has p h ∧
    ∀ k, find? (del p h).1 k = if k = h then none else find? p k := by
  have key : ∀ k, find? (erase p h) k = if k = h then none else find? p k := by
    intro k
    by_cases hk : k = h
    · subst hk; simp only [↓reduceIte]
      rw [find?_none_iff, ← has_false_iff]; exact not_has_erase p k
    · simp only [hk, ↓reduceIte, find?, erase, List.find?_filter]
      congr 1; funext x
      by_cases hx : x.hash = k
      · have : x.hash ≠ h := fun h' => hk (hx ▸ h')
        simp [hx, hk]
      · simp [hx]
  unfold del
  by_cases hh : has p h = true
  · simp only [hh, ↓reduceIte, true_and]; exact key
  · have hn : has p h = false := by simpa using hh
    simp only [hn, Bool.false_eq_true, ↓reduceIte, true_and]
    intro k; have hk := key k; rw [erase_of_not_has p h hn] at hk; exact hk

/-- `CleanTransactionList` removes exactly the transactions of the committed block: afterwards a hash is found
iff it was found before and is not in the block, with the same entry. -/
theorem remove_exactly_included (p : Pool H) (hs : List H) (h : H) :
    find? (clean p hs) h = if h ∈ hs then none else find? p h := by
  rw [clean_eq_filter]
  simp only [find?, List.find?_filter]
  by_cases hm : h ∈ hs
  · simp only [hm, ↓reduceIte, List.find?_eq_none]
    intro x _
    by_cases hx : x.hash = h
    · simp [hx, hm]
    · simp [hx]
  · simp only [hm, ↓reduceIte]
    congr 1; funext x
    by_cases hx : x.hash = h
    · simp [hx, hm]
    · simp [hx]

/-- the pool only shrinks under clean, and by exactly the included entries -/
theorem clean_size (p : Pool H) (hs : List H) :
    (clean p hs).length + (p.filter (fun e => hs.contains e.hash)).length = p.length := by
  rw [clean_eq_filter]
  induction p with
  | nil => simp
  | cons a t ih =>
    simp only [List.filter_cons]
    by_cases ha : hs.contains a.hash = true
    · simp only [ha, Bool.not_true, Bool.false_eq_true, ↓reduceIte, List.length_cons]; omega
    · have ha' : hs.contains a.hash = false := by simpa using ha
      simp only [ha', Bool.not_false, Bool.false_eq_true, ↓reduceIte, List.length_cons]; omega

/-- `GetTxPool` hands consensus at most the configured number of entries (`maxTx` when `byCount` is set and
`maxTx > 0`), never more than the pool holds, each of them a pool entry verified at or after the requested height,
no hash twice; and as many as possible: `min count (#eligible)`. For every iteration order of the map. -/
theorem getTxPool_bounds (p order : Pool H) (hperm : List.Perm order p) (hnd : (keys p).Nodup)
    (byCount : Bool) (height maxTx : Nat) :
    let r := getTxPool p order byCount height maxTx
    r.1.length ≤ getCount p byCount maxTx ∧
    getCount p byCount maxTx ≤ p.length ∧
    (byCount = true → 0 < maxTx → r.1.length ≤ maxTx) ∧
    (∀ e ∈ r.1, e ∈ p ∧ fresh height e = true) ∧
    (keys r.1).Nodup ∧
    r.1.length = min (getCount p byCount maxTx) (p.filter (fresh height)).length := by
  intro r
  have hlen : r.1.length = min (getCount p byCount maxTx) (p.filter (fresh height)).length := by
    by_cases hp : p = []
    · subst hp
      have : order = [] := List.Perm.eq_nil hperm
      subst this
      simp [r, getTxPool, scan]
    · have hpos := getCount_pos p byCount maxTx hp
      have := scan_fst_length height (getCount p byCount maxTx) order 0 hpos
      simp only [Nat.sub_zero] at this
      rw [(hperm.filter (fresh height)).length_eq] at this
      exact this
  have hsub : r.1.Sublist order := scan_fst_sublist _ _ _ _
  refine ⟨by omega, getCount_le_length p byCount maxTx, ?_, ?_, ?_, hlen⟩
  · intro hb hm; subst hb
    have := getCount_le_max p maxTx hm
    omega
  · intro e he
    exact ⟨hperm.subset (hsub.subset he), scan_fst_fresh _ _ _ _ e he⟩
  · have : (keys order).Nodup := (hperm.map _).nodup_iff.2 hnd
    exact this.sublist (keys_sublist hsub)

/-- Older entries are reported for re-verification: everything in the second result is a pool entry whose stateful
verification is below the requested height, no hash twice; and whenever the loop was not cut short by the count
(fewer entries handed out than `count`), *every* such entry of the pool is reported. -/
theorem stale_reported (p order : Pool H) (hperm : List.Perm order p) (hnd : (keys p).Nodup)
    (byCount : Bool) (height maxTx : Nat) :
    let r := getTxPool p order byCount height maxTx
    (∀ e ∈ r.2, e ∈ p ∧ fresh height e = false) ∧
    (keys r.2).Nodup ∧
    (r.1.length < getCount p byCount maxTx → List.Perm r.2 (p.filter (fun e => !fresh height e))) := by
  intro r
  have hsub : r.2.Sublist order := scan_snd_sublist _ _ _ _
  refine ⟨?_, ?_, ?_⟩
  · intro e he
    exact ⟨hperm.subset (hsub.subset he), scan_snd_stale _ _ _ _ e he⟩
  · have : (keys order).Nodup := (hperm.map _).nodup_iff.2 hnd
    exact this.sublist (keys_sublist hsub)
  · intro hlt
    have hlt' : (scan height (getCount p byCount maxTx) order 0).1.length + 0 < getCount p byCount maxTx := hlt
    have := scan_snd_complete height (getCount p byCount maxTx) order 0 hlt'
    show List.Perm (scan height (getCount p byCount maxTx) order 0).2 _
    rw [this]
    exact hperm.filter _

/-- `Remain` hands back every entry and leaves the pool empty. -/
theorem remain_returns_all (p order : Pool H) (hperm : List.Perm order p) :
    (remain p order).1 = [] ∧ List.Perm (remain p order).2 (keys p) := by
  exact ⟨rfl, hperm.map _⟩

/-- `GetUnverifiedTxs` on the (duplicate-free) transactions of a block: the pool loses exactly the block's entries
whose stateful verification is older than the requested height, and every transaction is classified against the
pool as it was before the call — absent: unverified; stale: old (re-verify); otherwise verified with the height and
result of its first stateful validation. -/
theorem getUnverified_classifies (p : Pool H) (txs : List H) (height : Nat) (hp : (keys p).Nodup)
    (ht : txs.Nodup) :
    getUnverified p txs height =
      (p.filter (fun e => !(txs.contains e.hash && !fresh height e)),
       txs.foldl (fun r t => classify height p t r) ⟨[], [], []⟩) :=
  getUnverified_fold height p txs p ⟨[], [], []⟩ hp (fun _ _ => rfl) ht

/-- `GetUnverifiedTxs` never adds entries: the pool afterwards is a sub-list of the pool before. -/
theorem getUnverified_shrinks (p : Pool H) (txs : List H) (height : Nat) :
    (getUnverified p txs height).1.Sublist p := getUnverified_sublist p txs height

/-! ### Worker level: answer order and the height raised by consensus -/

/-- Whatever order the validators answer in, an entry enters the pool only with a result of BOTH validators. -/
theorem answer_adds_only_complete (s : WState H) (k h : Nat) (e : Entry H) (he : e ∈ (s.answer k h).pool) :
    e ∈ s.pool ∨ (hasKind e.attrs 0 = true ∧ hasKind e.attrs 1 = true) := by
  unfold WState.answer at he
  simp only at he
  rcases mem_foldl_add _ _ e he with h1 | ⟨p, hp, rfl⟩
  · exact Or.inl h1
  · right
    have := (List.mem_filter.1 hp).2
    simpa using this

/-- A stateful answer obtained below the height last requested by consensus is never recorded. -/
theorem answer_below_height_not_recorded (srvHeight h : Nat) (attrs : List Attr) (hlt : h < srvHeight) :
    recordAnswer srvHeight 1 h attrs = attrs := by
  simp [recordAnswer, hlt]

/-- Every entry handed to consensus for height `h` is a pool entry all of whose stateful results were obtained at
or after `h`; entries with an older stateful result are not handed out (they leave the pool for re-verification
when met). For every iteration order of the map. -/
theorem handed_out_verified_at_height (s : WState H) (order : Pool H) (hperm : List.Perm order s.pool)
    (hnd : (keys s.pool).Nodup) (byCount : Bool) (height maxTx : Nat) :
    (∀ e ∈ (s.getTx order byCount height maxTx).2,
        e ∈ s.pool ∧ ∀ a ∈ e.attrs, a.stateful = true → height ≤ a.height) ∧
    (s.getTx order byCount height maxTx).1.height = height := by
  refine ⟨?_, rfl⟩
  intro e he
  have hb := (getTxPool_bounds s.pool order hperm hnd byCount height maxTx).2.2.2.1 e he
  refine ⟨hb.1, ?_⟩
  intro a ha hs
  have hf := hb.2
  unfold fresh at hf
  have := List.all_eq_true.1 hf a ha
  simp [hs] at this
  exact this

end

/-! ### Server level (counts) -/

/-- The pool never grows beyond its capacity — for the admission fragment (capacity test with its two separate
reads, slot, worker completion, failures, duplicates, clean-up of included transactions), for every interleaving
of the steps. In-flight transactions are bounded by the slots: `flying + landed + slots ≤ MAX_LIMITATION`. -/
theorem capacity_respected_admission (C L : Nat) (s : Srv) (hr : Reach (AStep C L) (Srv.init L) s) :
    s.pool ≤ C ∧ s.pool + s.flying ≤ C ∧ s.flying + s.landed + s.slots ≤ L := by
  obtain ⟨_, _, h1, h2, _⟩ := AInv_reach hr
  refine ⟨by omega, by omega, by omega⟩

/-- The bound the property demands for the whole server: the pool never grows beyond its capacity, whatever the
pool server does (admission, re-verification after saved blocks, stale entries, block verification).
Stated in full; NOT provable for the model of the code — see the two refutations below. -/
def CapacityRespected (C L : Nat) : Prop :=
  ∀ s, Reach (FStep C L) (Srv.init L) s → s.pool ≤ C

/-- the same without block verification -/
def CapacityRespectedWithoutBlocks (C L : Nat) : Prop :=
  ∀ s, Reach (RStep C L) (Srv.init L) s → s.pool ≤ C

/-- Block verification ignores the capacity: `verifyBlock` sends every transaction of a proposed block that is not
in the pool to the workers, and each is added when verified. Any size is reachable. -/
theorem block_verification_unbounded (C L : Nat) (n : Nat) :
    ∃ s, Reach (FStep C L) (Srv.init L) s ∧ s.pool = n := by
  have s1 : FStep C L (Srv.init L) { Srv.init L with other := (Srv.init L).other + n } := FStep.block _ n
  obtain ⟨sl', hr⟩ := back_many (C := C) (L := L) 0 n 0 L
  refine ⟨_, (Reach.init.step _ _ (by simpa [Srv.init] using s1)).trans (hr.mono (fun a b h => FStep.re a b h)), ?_⟩
  simp

theorem capacity_not_respected (C L : Nat) : ¬ CapacityRespected C L := by
  intro h
  obtain ⟨s, hr, hs⟩ := block_verification_unbounded C L (C + 1)
  have := h s hr
  omega

/-- The re-verification window: `Remain()` empties the pool before the transactions are registered as pending, so a
capacity test in between sees neither; a full pool plus one admitted transaction is reachable without any block
verification (fill to `C`; `Remain`; one transaction passes the test and takes a slot; all are re-queued and come
back; the admitted one lands). -/
theorem reverify_window_breaks_bound (C L : Nat) (hC : 0 < C) (hL : 0 < L) :
    ∃ s, Reach (RStep C L) (Srv.init L) s ∧ s.pool = C + 1 := by
  have r1 : Reach (RStep C L) (Srv.init L) ⟨C, 0, 0, 0, 0, L, none, false⟩ :=
    (reach_fill (C := C) (L := L) hL C (Nat.le_refl C)).mono (fun a b h => RStep.adm a b h)
  have s2 : RStep C L ⟨C, 0, 0, 0, 0, L, none, false⟩ ⟨0, 0, 0, 0, C, L, none, false⟩ := by
    simpa using RStep.remain (C := C) (L := L) ⟨C, 0, 0, 0, 0, L, none, false⟩
  have s3 : RStep C L ⟨0, 0, 0, 0, C, L, none, false⟩ ⟨0, 0, 0, 0, C, L, some 0, false⟩ :=
    RStep.adm _ _ (AStep.snapshot _ rfl rfl)
  have s4 : RStep C L ⟨0, 0, 0, 0, C, L, some 0, false⟩ ⟨0, 0, 0, 0, C, L, none, true⟩ :=
    RStep.adm _ _ (AStep.checkOk _ 0 rfl (by simpa using hC))
  have s5 : RStep C L ⟨0, 0, 0, 0, C, L, none, true⟩ ⟨0, 1, 0, 0, C, L - 1, none, false⟩ :=
    RStep.adm _ _ (AStep.take _ rfl hL)
  have r6 : Reach (RStep C L) ⟨0, 1, 0, 0, C, L - 1, none, false⟩ ⟨0, 1, 0, C, 0, L - 1, none, false⟩ := by
    simpa using requeue_many (C := C) (L := L) 0 C 0 1 (L - 1) false
  obtain ⟨sl', r7⟩ := back_many (C := C) (L := L) 0 C 1 (L - 1)
  have s8 : RStep C L ⟨0 + C, 1, 0, 0, 0, sl', none, false⟩ ⟨0 + C + 1, 0, 1, 0, 0, sl', none, false⟩ :=
    RStep.adm _ _ (AStep.land _ (by simp))
  refine ⟨_, (((((r1.step _ _ s2).step _ _ s3).step _ _ s4).step _ _ s5).trans r6 |>.trans r7).step _ _ s8, ?_⟩
  simp

theorem capacity_not_respected_without_blocks (C L : Nat) (hC : 0 < C) (hL : 0 < L) :
    ¬ CapacityRespectedWithoutBlocks C L := by
  intro h
  obtain ⟨s, hr, hs⟩ := reverify_window_breaks_bound C L hC hL
  have := h s hr
  omega

/-- The macro-steps executed by the driver against the real server are runs of the step relation (so everything
proved for all interleavings covers them): each executable step is an instance of its rule. -/
theorem executable_steps_sound (C L : Nat) (s t : Srv) :
    (doSnapshot s = some t → AStep C L s t) ∧ (doCheck C s = some t → AStep C L s t) ∧
    (doTake s = some t → AStep C L s t) ∧ (doLand s = some t → AStep C L s t) ∧
    (doRelease L s = some t → AStep C L s t) ∧ (doRemain s = some t → RStep C L s t) ∧
    (doRequeue s = some t → RStep C L s t) ∧ (doBack L s = some t → RStep C L s t) ∧
    (∀ k, doBlock k s = some t → FStep C L s t) := by
  refine ⟨?_, ?_, ?_, ?_, ?_, ?_, ?_, ?_, ?_⟩
  · intro h; unfold doSnapshot at h; split at h
    · rename_i hg; injection h with h; subst h; exact AStep.snapshot _ hg.1 hg.2
    · cases h
  · intro h; unfold doCheck at h
    split at h
    · rename_i q hq
      split at h
      · rename_i hlt; injection h with h; subst h; exact AStep.checkOk _ q hq hlt
      · rename_i hlt; injection h with h; subst h; exact AStep.checkFull _ q hq hlt
    · cases h
  · intro h; unfold doTake at h; split at h
    · rename_i hg; injection h with h; subst h; exact AStep.take _ hg.1 hg.2
    · cases h
  · intro h; unfold doLand at h; split at h
    · rename_i hg; injection h with h; subst h; exact AStep.land _ hg
    · cases h
  · intro h; unfold doRelease at h; split at h
    · rename_i hg; injection h with h; subst h; exact AStep.release _ hg
    · cases h
  · intro h; unfold doRemain at h; injection h with h; subst h; exact RStep.remain _
  · intro h; unfold doRequeue at h; split at h
    · rename_i hg; injection h with h; subst h; exact RStep.requeue _ hg
    · cases h
  · intro h; unfold doBack at h; split at h
    · rename_i hg; injection h with h; subst h; exact RStep.back _ hg
    · cases h
  · intro k h; unfold doBlock at h; injection h with h; subst h; exact FStep.block _ k

/-- Every macro-step the driver executes against the real server is a run of the step relation. -/
theorem macro_steps_are_runs (C L : Nat) (s : Srv) :
    Reach (FStep C L) s (submitOne C s) ∧ Reach (FStep C L) s (completeOne L s) ∧
    (∀ k, Reach (FStep C L) s (submitHeld C k s)) ∧ Reach (FStep C L) s (releaseAll L s) ∧
    (∀ n, Reach (FStep C L) s (fill C L n s)) ∧ Reach (FStep C L) s (reverifyAll s) ∧
    Reach (FStep C L) s (backAll L s) ∧ (∀ k, Reach (FStep C L) s (blockVerified L k s)) := by
  have a2f : ∀ a b, AStep C L a b → FStep C L a b := fun a b h => FStep.re a b (RStep.adm a b h)
  have r2f : ∀ a b, RStep C L a b → FStep C L a b := fun a b h => FStep.re a b h
  have hSnap : ∀ s, Reach (FStep C L) s (orStay doSnapshot s) :=
    orStay_reach _ (fun s t h => a2f s t ((executable_steps_sound C L s t).1 h))
  have hCheck : ∀ s, Reach (FStep C L) s (orStay (doCheck C) s) :=
    orStay_reach _ (fun s t h => a2f s t ((executable_steps_sound C L s t).2.1 h))
  have hTake : ∀ s, Reach (FStep C L) s (orStay doTake s) :=
    orStay_reach _ (fun s t h => a2f s t ((executable_steps_sound C L s t).2.2.1 h))
  have hLand : ∀ s, Reach (FStep C L) s (orStay doLand s) :=
    orStay_reach _ (fun s t h => a2f s t ((executable_steps_sound C L s t).2.2.2.1 h))
  have hRel : ∀ s, Reach (FStep C L) s (orStay (doRelease L) s) :=
    orStay_reach _ (fun s t h => a2f s t ((executable_steps_sound C L s t).2.2.2.2.1 h))
  have hRemain : ∀ s, Reach (FStep C L) s (orStay doRemain s) :=
    orStay_reach _ (fun s t h => r2f s t ((executable_steps_sound C L s t).2.2.2.2.2.1 h))
  have hReq : ∀ s, Reach (FStep C L) s (orStay doRequeue s) :=
    orStay_reach _ (fun s t h => r2f s t ((executable_steps_sound C L s t).2.2.2.2.2.2.1 h))
  have hBack : ∀ s, Reach (FStep C L) s (orStay (doBack L) s) :=
    orStay_reach _ (fun s t h => r2f s t ((executable_steps_sound C L s t).2.2.2.2.2.2.2.1 h))
  have hBlock : ∀ k s, Reach (FStep C L) s (orStay (doBlock k) s) := fun k =>
    orStay_reach _ (fun s t h => (executable_steps_sound C L s t).2.2.2.2.2.2.2.2 k h)
  have hSub : ∀ s, Reach (FStep C L) s (submitOne C s) := fun s =>
    ((hSnap s).trans (hCheck _)).trans (hTake _)
  have hComp : ∀ s, Reach (FStep C L) s (completeOne L s) := fun s =>
    ((hLand s).trans (hRel _)).trans (hTake _)
  have hBackAll : ∀ s, Reach (FStep C L) s (backAll L s) := fun s => iter_reach _ hBack _ s
  refine ⟨hSub s, hComp s, fun k => iter_reach _ hSub k s, iter_reach _ hComp _ s,
    fun n => iter_reach _ (fun t => (hSub t).trans (hComp _)) n s, ?_, hBackAll s, fun k => ?_⟩
  · unfold reverifyAll
    exact (hRemain s).trans (iter_reach _ hReq _ _)
  · unfold blockVerified
    exact (hBlock k s).trans (hBackAll _)

/-! ### Non-vacuity -/

example : (run [Op.add ⟨"a", [⟨3, 0, 0⟩, ⟨3, 1, 0⟩]⟩, Op.add ⟨"a", []⟩, Op.add ⟨"b", [⟨1, 1, 0⟩]⟩] : Pool String).length = 2 := by
  decide

example :
    let p : Pool String := [⟨"a", [⟨3, 1, 0⟩]⟩, ⟨"b", [⟨1, 1, 0⟩]⟩, ⟨"c", [⟨5, 1, 0⟩]⟩]
    getTxPool p p true 2 1 = ([⟨"a", [⟨3, 1, 0⟩]⟩], []) ∧
    getTxPool p p true 2 5 = ([⟨"a", [⟨3, 1, 0⟩]⟩, ⟨"c", [⟨5, 1, 0⟩]⟩], [⟨"b", [⟨1, 1, 0⟩]⟩]) := by
  decide

example : ∃ s, Reach (RStep 3 2) (Srv.init 2) s ∧ s.pool = 4 := reverify_window_breaks_bound 3 2 (by omega) (by omega)

example : (fill 3 2 5 (Srv.init 2)).pool = 3 ∧ (releaseAll 2 (submitHeld 3 2 (fill 3 2 2 (Srv.init 2)))).pool = 3 := by
  decide

end Poly.Props.C37
