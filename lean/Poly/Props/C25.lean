import Poly.Proofs.GovVotes
import Poly.Spec.Quorum
/-!
# C25 — Vote-based approvals fire exactly once at two thirds

Model: `voteStep` / `voteCore` (consensus_vote/utils.go CheckVotes: released flag, membership of the voter, count of the
stored voters that are current consensus members, add-if-new, generated threshold, latch) and `sigStep` / `sigCore`
(signature_manager/utils.go CheckSigns, `shouldEmit = ¬status`), used by the `vote` and `sig` transactions of
`Poly.Model.Gov`. `voteRun` / `sigRun` run the code's ledger over an arbitrary sequence of votes, each with the list of
consensus addresses in force at that moment (so validator-set changes between votes are arbitrary); `voteSpec` /
`sigSpec` are the property's reading. Consensus address lists are duplicate free (pool invariant C34 plus: different
keys have different addresses).
-/
namespace Poly.Props.C25
open Poly.Model.Gov
open Poly.Spec.Quorum
open Poly.Generated.Thresholds

/-- The thresholds of both ledgers are ceil(2N/3) (on the definitions generated from the Go source). -/
theorem thresholds_are_ceil_two_thirds (num N : Nat) :
    (vote_CheckVotes0 (num : Int) (N : Int) = true ↔ thrG N ≤ num) ∧
    (sigmgr_CheckSigns1 (num : Int) (N : Int) = true ↔ thrG N ≤ num) ∧
    (sigmgr_CheckSigns0 (num : Int) (N : Int) = true ↔ ¬ thrG N ≤ num) ∧ IsCeilTwoThirds N (thrG N) := by
  refine ⟨vthr_iff num N, sthr_iff num N, ?_, ?_⟩
  · unfold sigmgr_CheckSigns0 thrG
    rw [Int.tdiv_eq_ediv_of_nonneg (by omega)]; simp; omega
  · unfold IsCeilTwoThirds thrG
    exact ⟨by omega, fun j hj => by omega⟩

/-- Only current consensus validators may vote: a vote on an open entry by anybody else is rejected, by a member accepted. -/
theorem outsider_rejected (voters cons : List Addr) (a : Addr) :
    (voteStep (false, voters) cons a = none ↔ a ∉ cons) ∧ (∀ sg st sigs, sigStep (st, sigs) cons a sg = none ↔ a ∉ cons) := by
  constructor
  · unfold voteStep
    by_cases h : cons.contains a = true
    · have : a ∈ cons := by simpa using h
      simp [h, this]
    · have h' : cons.contains a = false := by simpa using h
      have : a ∉ cons := by simpa using h'
      simp [h', this]
  · intro sg st sigs
    unfold sigStep
    by_cases h : cons.contains a = true
    · have : a ∈ cons := by simpa using h
      simp [h, this]
    · have h' : cons.contains a = false := by simpa using h
      have : a ∉ cons := by simpa using h'
      simp [h', this]

/-- Each validator counts once: a repeated vote leaves the voter list and the count as they are. -/
theorem repeat_counts_once (voters cons : List Addr) (a : Addr) (h : a ∈ voters) :
    (voteCore voters cons a).1 = voters ∧ approvedBy cons (voters ++ [a]) = approvedBy cons voters := by
  constructor
  · unfold voteCore; simp [h]
  · exact countIn_append_old cons voters a h

/-- All vote histories: for every sequence of votes (validators, repeat voters, outsiders) and every sequence of
consensus sets, the code rejects exactly the non-members and releases at exactly the first vote at which the distinct
current validators among the accepted voters reach ceil(2N/3) (`voteSpec`). -/
theorem fires_at_first_quorum (evs : List (Addr × List Addr)) (hnd : ∀ e ∈ evs, e.2.Nodup) :
    voteRun (false, []) evs = voteSpec false [] evs :=
  voteRun_eq_spec (false, []) [] evs hnd (fun _ => Iff.rfl)

/-- Released at most once in every history. -/
theorem fires_once (evs : List (Addr × List Addr)) (hnd : ∀ e ∈ evs, e.2.Nodup) :
    countTrue (voteRun (false, []) evs) ≤ 1 := by
  rw [fires_at_first_quorum evs hnd]; exact voteSpec_once _ _ _

/-- Signature ledger: the quorum event is emitted at exactly the first signature at which the distinct current
validators among the signers reach ceil(2N/3), in every history (`sigSpec`); signatures keep being collected afterwards. -/
theorem emits_at_first_quorum (evs : List (Addr × Bytes × List Addr)) (hnd : ∀ e ∈ evs, e.2.2.Nodup) :
    sigRun (false, []) evs = sigSpec false [] evs :=
  sigRun_eq_spec (false, []) [] evs hnd (by intro x; simp)

/-- The quorum event is emitted at most once in every history. -/
theorem emit_once (evs : List (Addr × Bytes × List Addr)) (hnd : ∀ e ∈ evs, e.2.2.Nodup) :
    countTrue (sigRun (false, []) evs) ≤ 1 := by
  rw [emits_at_first_quorum evs hnd]; exact sigSpec_once _ _ _

/-- The `vote` transaction is `voteStep` on the stored entry with the consensus addresses of the current view; a
released entry ignores the vote (nothing is written, nothing released). -/
theorem vote_transaction (H : Bytes → Bytes) (s : State) (id : Bytes) (a : Addr) (gv : GovView) (pool : List PeerItem)
    (cons : List Addr) (hcp : curPool s = some (gv, pool)) (hca : consAddrs s pool = some cons) :
    ((voteEntry s id).1 = true → exec H s (.vote id a) = .ok { st := s, ret := "0", events := [] }) ∧
    ((voteEntry s id).1 = false →
      match voteStep (voteEntry s id) cons a with
      | none => exec H s (.vote id a) = .error .err
      | some (info, released) =>
        exec H s (.vote id a) = .ok { st := { s with votes := alPut s.votes id info }, ret := if released then "1" else "0", events := [] }) := by
  unfold voteEntry
  constructor
  · intro h; simp [exec, plan, h, runPlan]
  · intro h
    cases hv : voteStep ((alGet s.votes id).getD (false, [])) cons a with
    | none => simp [exec, plan, h, hcp, hca, hv]
    | some r => obtain ⟨info, released⟩ := r; simp [exec, plan, h, hcp, hca, hv, runPlan]

/-- No other transaction touches a vote ledger entry. -/
theorem other_transactions_dont_vote (H : Bytes → Bytes) (s : State) (op : Op) (id : Bytes) (h : ∀ a, op ≠ .vote id a)
    (hd : ∀ sg r c cc k, op ≠ .deposit sg r c id cc k)
    (hf : ∀ sg a chain view fee, op = .fee sg a chain view fee →
      strBytes "updateFee" ++ u64le chain ++ u64le (feeRound s a chain view fee).fv ≠ id) :
    voteEntry (step H s op) id = voteEntry s id := by
  unfold voteEntry; rw [votes_sigs_frame H s op id h hd hf]

/-- The vote handler (VoteHandler.MakeDepositProposal) and the vote phase of ripple_handler.MakeDepositProposal hand a source transaction on only when the relayer signed, is a
current consensus validator, and its vote is the one that releases the ledger entry (first quorum); a transaction
already marked done, or a payload that does not decode, is refused (and the vote reverted). -/
theorem deposit_released_only_at_quorum (H : Bytes → Bytes) (s : State) (sg : List Addr) (relayer : Addr) (chain : Nat)
    (id : Bytes) (ccid : Option Bytes) (cont : Bool) (o : Out) (h : exec H s (.deposit sg relayer chain id ccid cont) = .ok o)
    (hr : o.ret = "1") :
    witness sg relayer = true ∧ (voteEntry s id).1 = false ∧
    ∃ gv pool cons info c, curPool s = some (gv, pool) ∧ consAddrs s pool = some cons ∧
      voteStep (voteEntry s id) cons relayer = some (info, true) ∧ ccid = some c ∧ (chain, c) ∉ s.doneTx ∧ cont = true ∧
      o.st = { s with votes := alPut s.votes id info, doneTx := s.doneTx ++ [(chain, c)] } := by
  unfold voteEntry
  cases hp : plan H s (.deposit sg relayer chain id ccid cont) with
  | error e => simp [exec, hp] at h
  | ok p =>
    simp only [exec, hp] at h
    simp only [plan] at hp
    repeat' split at hp
    all_goals try (cases hp; done)
    all_goals (injection hp with hp; subst hp; simp only [runPlan] at h; injection h with h; subst h)
    all_goals try (simp at hr; done)
    rename_i hw hst _ gv pool hcp _ cons hca _ info hvs _ c hdone hcont
    refine ⟨by simpa using hw, by simpa using hst, gv, pool, cons, info, c, hcp, hca, hvs, rfl, by simpa using hdone, by simpa using hcont, rfl⟩

/-- Fee proposals (side_chain_manager.UpdateFee, another caller of CheckVotes): a proposal needs the witness of its
address and the current fee view; a new fee (five times the median of the view's proposals) is installed, and the view
advanced, only by the vote that releases the ledger entry "updateFee" ‖ chain ‖ view, i.e. at the first quorum of
distinct current validators; every other accepted proposal only records itself. -/
theorem fee_installed_only_at_quorum (H : Bytes → Bytes) (s : State) (sg : List Addr) (a : Addr) (chain view fee : Nat)
    (o : Out) (h : exec H s (.fee sg a chain view fee) = .ok o) :
    witness sg a = true ∧ ((alGet s.fees chain).getD (0, 0)).1 = view ∧
    (o.st.fees = (feeRound s a chain view fee).fees ∨
     ∃ gv pool cons vinfo, curPool s = some (gv, pool) ∧ consAddrs s pool = some cons ∧
       voteStep (voteEntry s (strBytes "updateFee" ++ u64le chain ++ u64le (feeRound s a chain view fee).fv)) cons a = some (vinfo, true) ∧
       o.st.fees = alPut (feeRound s a chain view fee).fees chain
         ((feeRound s a chain view fee).fv + 1, medianFee ((feeRound s a chain view fee).entries.map (·.2)))) := by
  unfold voteEntry
  cases hp : plan H s (.fee sg a chain view fee) with
  | error e => simp [exec, hp] at h
  | ok p =>
    simp only [exec, hp] at h
    simp only [plan] at hp
    repeat' split at hp
    all_goals try (cases hp; done)
    all_goals (injection hp with hp; subst hp; simp only [runPlan] at h; injection h with h; subst h)
    all_goals (refine ⟨by simpa using ‹¬(!witness sg a) = true›, by simpa using ‹¬((alGet s.fees chain).getD (0, 0)).1 ≠ view›, ?_⟩)
    all_goals first
      | (left; rfl)
      | (right; exact ⟨_, _, _, _, ‹curPool s = some _›, ‹consAddrs s _ = some _›, ‹voteStep _ _ a = some _›, rfl⟩)

/-- Non-vacuity (tests on literals): 4 validators; an outsider is rejected, a repeat does not count, the third distinct
validator releases, the fourth comes too late. -/
example :
    let v : Nat → Addr := fun n => List.replicate 20 (UInt8.ofNat n)
    let cons := [v 1, v 2, v 3, v 4]
    voteRun (false, []) [(v 1, cons), (v 9, cons), (v 1, cons), (v 2, cons), (v 3, cons), (v 4, cons)] =
      [some false, none, some false, some false, some true, some false] ∧
    sigRun (false, []) [(v 1, [1], cons), (v 2, [2], cons), (v 3, [3], cons), (v 4, [4], cons)] =
      [some false, some false, some true, some false] := by decide

end Poly.Props.C25
