import Poly.Proofs.LedgerQuorum
import Poly.Proofs.Ledger
/-!
# C14 — Blocks need a signature quorum of the validators in force

Model: `Poly.Model.Ledger.verifyHeader` (VBFT branch of `LedgerStoreImp.verifyHeader`), `verifyMulti`
(`signature.VerifyMultiSignature`), the two tracked validator sets and their hand-over in `AddHeader`,
`AddBlock`, `SubmitBlock` and at restart. The required number `threshold` is built from the threshold
expressions *generated from the Go source* (`Poly.Generated.Thresholds`). Signature verification and decoding
are arbitrary functions (`Params.verify`, `Params.decode`): every statement holds for every signature scheme.
-/
namespace Poly.Props.C14
open Poly.Model.Ledger Poly.Generated.Thresholds

/-- **Acceptance needs a quorum.** If `verifyHeader` accepts a non-genesis header against the set in force, there
are at least `threshold` pairwise different validators of that set, each listed as bookkeeper of the header and each
with a listed signature that verifies over the header hash under its key. -/
theorem accept_needs_quorum (p : Params) (s : State) (hd : Header) (set set' : List Key) (h0 : hd.height ≠ 0)
    (h : verifyHeader p s hd set = .ok set') :
    ∃ S : List Key, S.Nodup ∧
      (∀ k ∈ S, k ∈ set ∧ k ∈ hd.bookkeepers ∧ ∃ sig ∈ hd.sigs, p.verify k hd.hash sig = true) ∧
      threshold p (headerHeight s.mem) set.length ≤ (S.length : Int) := by
  obtain ⟨-, hcb, ⟨mask, hvm⟩, -⟩ := verifyHeader_ok p s hd set set' h0 h
  obtain ⟨hn, hmem⟩ := checkBookkeepers_ok set hd.bookkeepers [] hcb
  obtain ⟨hl, hsub, hver⟩ := verifyMulti_ok p hd.hash hd.bookkeepers _ hd.sigs mask hvm
  refine ⟨picked hd.bookkeepers mask, hsub.nodup hn, ?_, ?_⟩
  · intro k hk
    have hkb := hsub.subset hk
    exact ⟨(hmem k hkb).1, hkb, hver k hk⟩
  · rw [hl]; omega

/-- **The required number is the one the property names**: `N − ⌊6N/7⌋` where the legacy rule applies (network id
other than main net, or current header height ≤ 20 000 000), `N − ⌊(N−1)/3⌋` otherwise — for every `N`. This is a
statement about the definitions regenerated from `ledger_store.go` on every run. -/
theorem m_formula (p : Params) (hh N : Nat) :
    threshold p hh N =
      if p.netId ≠ 1 ∨ hh ≤ 20000000 then ((N - 6 * N / 7 : Nat) : Int) else ((N - (N - 1) / 3 : Nat) : Int) := by
  unfold threshold needFix ledger_verifyHeader_needFix0 ledger_verifyHeader_m0 ledger_verifyHeader_m1 mainNetId
  by_cases h1 : p.netId ≠ 1
  · have : (1 : Int) ≠ p.netId := fun e => h1 e.symm
    simp only [h1, true_or, if_true, decide_true, Bool.true_or, this, ne_eq, not_false_eq_true]
    rw [Int.tdiv_eq_ediv_of_nonneg (by omega)]; omega
  · have e : p.netId = 1 := by simpa using h1
    by_cases h2 : hh ≤ 20000000
    · have : ((hh : Int) ≤ 20000000) := by omega
      simp only [e, h2, or_true, if_true, this, decide_true, Bool.or_true]
      rw [Int.tdiv_eq_ediv_of_nonneg (by omega)]; omega
    · have : ¬ ((hh : Int) ≤ 20000000) := by omega
      simp only [e, h2, this, ne_eq, not_true_eq_false, decide_false, Bool.or_self, or_self, if_false,
        Bool.false_eq_true]
      rcases N with _ | n
      · decide
      · rw [Int.tdiv_eq_ediv_of_nonneg (by omega)]; omega

/-- For at least one validator the required number is at least one and at most `N`: a quorum exists and cannot
be empty. -/
theorem m_bounds (p : Params) (hh N : Nat) (hN : 1 ≤ N) : 1 ≤ threshold p hh N ∧ threshold p hh N ≤ N := by
  rw [m_formula]
  split <;> constructor <;> omega

/-- **Duplicated or foreign bookkeepers are refused**: a header that lists a key outside the set in force, or the
same key twice, is never accepted. -/
theorem dup_or_foreign_rejected (p : Params) (s : State) (hd : Header) (set : List Key) (h0 : hd.height ≠ 0)
    (hbad : (∃ k ∈ hd.bookkeepers, k ∉ set) ∨ ¬ hd.bookkeepers.Nodup) :
    ∀ set', verifyHeader p s hd set ≠ .ok set' := by
  intro set' h
  obtain ⟨-, hcb, -, -⟩ := verifyHeader_ok p s hd set set' h0 h
  obtain ⟨hn, hmem⟩ := checkBookkeepers_ok set hd.bookkeepers [] hcb
  rcases hbad with ⟨k, hk, hns⟩ | hnd
  · exact hns (hmem k hk).1
  · exact hnd hn

/-- **Soundness of the greedy multi-signature check** (`VerifyMultiSignature`): acceptance exhibits `m` different
key positions, each with one of the listed signatures verifying under the key at that position. -/
theorem multisig_sound (p : Params) (h : Hash) (keys : List Key) (m : Int) (sigs : List Sig) (mask : List Bool)
    (hm : verifyMulti p h keys m sigs = .ok mask) :
    (picked keys mask).length = m.toNat ∧ (picked keys mask).Sublist keys ∧
    ∀ k ∈ picked keys mask, ∃ sig ∈ sigs, p.verify k h sig = true :=
  verifyMulti_ok p h keys m sigs mask hm

/-- **Completeness of the greedy multi-signature check** under the hypothesis "one listed key per signature": if
the list holds at least `m` signatures, each of the first `m` decodes and verifies under exactly one listed key, and
these keys are pairwise different, `VerifyMultiSignature` accepts (the greedy choice never blocks a later match). -/
theorem multisig_complete (p : Params) (h : Hash) (keys : List Key) (m : Int) (sigs : List Sig) (signer : Sig → Key)
    (hlen : m ≤ (sigs.length : Int))
    (hsig : ∀ sig ∈ sigs.take m.toNat, p.decode sig = true ∧ signer sig ∈ keys ∧
      p.verify (signer sig) h sig = true ∧ ∀ k ∈ keys, p.verify k h sig = true → k = signer sig)
    (hinj : ((sigs.take m.toNat).map signer).Nodup) :
    ∃ mask, verifyMulti p h keys m sigs = .ok mask :=
  verifyMulti_complete p h keys m sigs signer hlen hsig hinj

/-- Too few signatures are refused before any is looked at. -/
theorem few_signatures_rejected (p : Params) (h : Hash) (keys : List Key) (m : Int) (sigs : List Sig)
    (hlt : (sigs.length : Int) < m) : verifyMulti p h keys m sigs = .error .fewsigs := by
  simp [verifyMulti, hlt]

/-- **The set only changes through an announced configuration**: `verifyHeader` returns the set it was given, unless
the accepted header carries a new chain configuration, whose (deduplicated) peer list it then returns. -/
theorem set_changes_only_on_config (p : Params) (s : State) (hd : Header) (set set' : List Key)
    (h : verifyHeader p s hd set = .ok set') :
    set' = set ∨ ∃ c, hd.newCfg = some c ∧ set' = dedupKeys c := by
  by_cases h0 : hd.height = 0
  · simp [verifyHeader, h0] at h; exact Or.inl h.symm
  · obtain ⟨-, -, -, e, -⟩ := verifyHeader_ok p s hd set set' h0 h
    cases hc : hd.newCfg with
    | none => rw [hc] at e; exact Or.inl e
    | some c => rw [hc] at e; exact Or.inr ⟨c, rfl, e⟩

/-- **A header whose consensus payload does not decode is never accepted** (non-genesis), however well it is
signed; `VbftBlock` is consulted after the signature check, so the announced configuration of an accepted header is
always the decoded one. -/
theorem malformed_payload_rejected (p : Params) (s : State) (hd : Header) (set : List Key) (h0 : hd.height ≠ 0)
    (hbad : hd.payloadOk = false) : ∀ set', verifyHeader p s hd set ≠ .ok set' := by
  intro set' h
  obtain ⟨-, -, -, -, hp⟩ := verifyHeader_ok p s hd set set' h0 h
  rw [hbad] at hp
  cases hp

/-- The genesis header is exempt: height 0 is accepted as is and leaves the set alone. -/
theorem genesis_exempt (p : Params) (s : State) (hd : Header) (set : List Key) (h0 : hd.height = 0) :
    verifyHeader p s hd set = .ok set := by
  simp [verifyHeader, h0]

/-- **Blocks: the set in force changes only when a block is committed that announces it.** If `AddBlock` succeeds
and the set tracked for blocks differs afterwards, the block was committed at the next height, was accepted with a
quorum of the previous set, and announces exactly the new set. -/
theorem block_set_changes_only_on_commit (p : Params) (s s' : State) (b : Block) (root : Hash)
    (h : addBlock p s b root = .ok s') (hne : s'.mem.peersB ≠ s.mem.peersB) :
    b.header.height = s.mem.currHeight + 1 ∧ s'.mem.currHeight = b.header.height ∧ s'.mem.currHash = b.header.hash ∧
    (∃ c, b.header.newCfg = some c ∧ s'.mem.peersB = dedupKeys c) ∧
    (∃ set', verifyHeader p s b.header s.mem.peersB = .ok set') := by
  unfold addBlock at h
  split at h
  · injection h with h; subst h; exact absurd rfl hne
  · split at h
    · cases h
    · rename_i hle hnn
      split at h
      · cases h
      · rename_i set hv
        simp only at h
        split at h
        · cases h
        · split at h
          · cases h
          · rename_i s1 hsub
            injection h with h
            subst h
            obtain ⟨e, -⟩ := submitBlock_eq p s s1 b _ hsub
            subst e
            have hp : (installPeers (submitted p s b (executeBlock p s b).1) b set).mem.peersB = set := rfl
            rw [hp] at hne
            refine ⟨by omega, rfl, rfl, ?_, ⟨set, hv⟩⟩
            rcases set_changes_only_on_config p s b.header s.mem.peersB set hv with e | ⟨c, hc, e⟩
            · exact absurd e hne
            · exact ⟨c, hc, by rw [hp]; exact e⟩

/-- **Headers: the set tracked for headers changes in `AddHeader` only by an accepted, announcing header.** -/
theorem header_set_changes_only_on_accept (p : Params) (s s' : State) (hd : Header)
    (h : addHeader p s hd = .ok s') (hne : s'.mem.peersH ≠ s.mem.peersH) :
    hd.height = headerHeight s.mem + 1 ∧ (∃ c, hd.newCfg = some c ∧ s'.mem.peersH = dedupKeys c) ∧
    s'.mem.peersB = s.mem.peersB := by
  unfold addHeader at h
  split at h
  · cases h
  · rename_i hh
    split at h
    · cases h
    · rename_i set hv
      injection h with h
      subst h
      have hp : (setIndex { s.mem with peersH := set, cache := cacheAdd s.mem.cache hd } hd.height hd.hash).peersH = set := rfl
      simp only [hp] at hne ⊢
      refine ⟨by omega, ?_, rfl⟩
      rcases set_changes_only_on_config p s hd s.mem.peersH set hv with e | ⟨c, hc, e⟩
      · exact absurd e hne
      · exact ⟨c, hc, e⟩

/-- **An accepted block carries a quorum of the set in force for blocks** (ledger level, `AddBlock`): whenever a
block is committed, at least `threshold` different validators of the set tracked for blocks signed its hash. -/
theorem committed_block_has_quorum (p : Params) (s s' : State) (b : Block) (root : Hash)
    (h : addBlock p s b root = .ok s') (hc : s'.mem.currHeight ≠ s.mem.currHeight) :
    ∃ S : List Key, S.Nodup ∧
      (∀ k ∈ S, k ∈ s.mem.peersB ∧ k ∈ b.header.bookkeepers ∧ ∃ sig ∈ b.header.sigs, p.verify k b.header.hash sig = true) ∧
      threshold p (headerHeight s.mem) s.mem.peersB.length ≤ (S.length : Int) := by
  unfold addBlock at h
  split at h
  · injection h with h; subst h; exact absurd rfl hc
  · split at h
    · cases h
    · rename_i hle hnn
      split at h
      · cases h
      · rename_i set hv
        exact accept_needs_quorum p s b.header s.mem.peersB set (by omega) hv

/-- An accepted header carries a quorum of the set tracked for headers (`AddHeader`). -/
theorem accepted_header_has_quorum (p : Params) (s s' : State) (hd : Header) (h : addHeader p s hd = .ok s') :
    ∃ S : List Key, S.Nodup ∧
      (∀ k ∈ S, k ∈ s.mem.peersH ∧ k ∈ hd.bookkeepers ∧ ∃ sig ∈ hd.sigs, p.verify k hd.hash sig = true) ∧
      threshold p (headerHeight s.mem) s.mem.peersH.length ≤ (S.length : Int) := by
  unfold addHeader at h
  split at h
  · cases h
  · rename_i hh
    split at h
    · cases h
    · rename_i set hv
      exact accept_needs_quorum p s hd s.mem.peersH set (by omega) hv

/-- When a committed block is also the newest header (no header is ahead), the set tracked for headers follows the
set tracked for blocks (the repaired hand-over); otherwise it is left alone. -/
theorem header_set_follows_block (s : State) (b : Block) (set : List Key) :
    (installPeers s b set).mem.peersB = set ∧
    (installPeers s b set).mem.peersH = (if headerHeight s.mem = b.header.height then set else s.mem.peersH) :=
  ⟨rfl, rfl⟩

/-- After a restart both sets are the configuration found through the current block's header (its own announcement,
or the one of the block named by `LastConfigBlockNum`), without duplicates. -/
theorem restart_sets (s t : State) (h : withPeers s = .ok t) :
    t.mem.peersH = t.mem.peersB ∧ t.mem.peersB.Nodup ∧ loadPeers s.dur s.mem = .ok t.mem.peersB := by
  unfold withPeers at h
  split at h
  · cases h
  · rename_i set hl
    injection h with h
    subst h
    exact ⟨rfl, loadPeers_nodup _ _ _ hl, hl⟩

/-! ### Non-vacuity: a seven-validator ledger on the main net accepts a header signed by one validator (legacy rule,
`7 − ⌊42/7⌋ = 1`), refuses it unsigned, refuses a duplicated and a foreign bookkeeper -/
section Example

def p1 : Params :=
  { H := fun b => b.take 4, verify := fun k _ sig => sig == [k.toUInt8], decode := fun sig => sig != [255],
    exec := fun _ _ => { writeSet := [], changeHash := [1], crossHashes := [], notifies := [] },
    netId := 1, batch := 2000, eventLog := false }
def g1 : Block := { header := { height := 0, hash := [7], prev := zeroHash, timestamp := 10, blockRoot := [], bookkeepers := [],
                                sigs := [], newCfg := some [0, 1, 2, 3, 4, 5, 6], lastCfg := 0 }, txs := [] }
def s1 : State := match initLedger p1 g1 with | .ok s => s | .error _ => ⟨Durable.empty, emptyMem⟩
def hdr1 (bks : List Key) (sigs : List Sig) : Header :=
  { height := 1, hash := [8], prev := [7], timestamp := 11, blockRoot := [], bookkeepers := bks, sigs := sigs,
    newCfg := some [5, 6, 7], lastCfg := 0 }

def verdict : Except Err (List Key) → Option Err × List Key
  | .ok l => (none, l)
  | .error e => (some e, [])

example : s1.mem.peersB = [0, 1, 2, 3, 4, 5, 6] ∧ threshold p1 (headerHeight s1.mem) 7 = 1 ∧
    verdict (verifyHeader p1 s1 (hdr1 [3] [[3]]) s1.mem.peersB) = (none, [5, 6, 7]) ∧
    verdict (verifyHeader p1 s1 (hdr1 [3] []) s1.mem.peersB) = (some .fewsigs, []) ∧
    verdict (verifyHeader p1 s1 (hdr1 [] []) s1.mem.peersB) = (some .fewkeys, []) ∧
    verdict (verifyHeader p1 s1 (hdr1 [3, 3] [[3], [3]]) s1.mem.peersB) = (some .pubkey, []) ∧
    verdict (verifyHeader p1 s1 (hdr1 [9] [[9]]) s1.mem.peersB) = (some .pubkey, []) ∧
    verdict (verifyHeader p1 s1 (hdr1 [3] [[4]]) s1.mem.peersB) = (some .multisig, []) := by decide

end Example

end Poly.Props.C14
