import Poly.Proofs.LedgerRestart
/-!
# C12 — Ledger recovers exactly after a crash at any persistence point

Model: `Poly.Model.Ledger` (three durable stores, hash file, in-memory state; `submitBlock` = batch fills + the
commits block → event → state; crash point `k` = number of completed commits; `reopen` = `NewLedgerStore` +
`InitLedgerStoreWithGenesisBlock` with `recoverStore` as written in the repaired code).
All statements hold for every hash function, every signature scheme, every deterministic `executeBlock`
(`Params.exec`, an arbitrary function of the committed contract state and the block), every batch size and every
ledger reachable from a first start by any history of submissions, header deliveries, restarts and crashes.
`crashD p s b k` is the durable state left when the process stops at crash point `k` while persisting `b`.
-/
namespace Poly.Props.C12
open Poly.Model.Ledger

/-- **Crash behind the first commit (k = 1, 2, 3).** The restarted ledger is *identical* (stores, hash file, memory)
to a restart after the complete, uncrashed submission of the block. -/
theorem recovery_exact_committed (p : Params) (g : Block) (hg : g.header.height = 0) (s : State) (hr : Reach p g s)
    (b : Block) (hh : b.header.height = s.mem.currHeight + 1) (k : Nat) (h1 : 1 ≤ k) (h3 : k ≤ 3) :
    reopen p g (crashD p s b k) = reopen p g (submitted p s b (p.exec s.dur.states.kv b)).dur :=
  reopen_crash_ge1 p g s b k (reach_synced p g hg s hr) hh h1 h3

/-- **Crash before the first commit (k = 0).** The block is lost as a whole: the restarted ledger is the restart of
the ledger before the submission; only the hash file keeps the appended tail, which lies behind the write position. -/
theorem recovery_exact_lost (p : Params) (g : Block) (hg : g.header.height = 0) (s : State) (hr : Reach p g s) (b : Block) :
    reopen p g (crashD p s b 0) = (reopen p g s.dur).map (withFileLen (crashD p s b 0).fileLen) :=
  reopen_crash0 p g s b (reach_synced p g hg s hr)

/-- **Any sequence of crashes.** After a crash behind the first commit of `submitBlock`, every following start may
itself stop inside `recoverStore` (before the event commit, between the event and the state commit, after the state
commit), any number of times: the stores are then again in one of the crash states of the original submission
(`crashD … j`, 1 ≤ j ≤ 3), and the first start that runs to completion yields exactly the ledger of a restart after the
complete submission. -/
theorem recovery_exact_any_crash_sequence (p : Params) (g : Block) (hg : g.header.height = 0) (s : State)
    (hr : Reach p g s) (b : Block) (hh : b.header.height = s.mem.currHeight + 1) (d : Durable)
    (hc : CrashChain p g s b d) :
    (∃ j, 1 ≤ j ∧ j ≤ 3 ∧ d = crashD p s b j) ∧
    reopen p g d = reopen p g (submitted p s b (p.exec s.dur.states.kv b)).dur :=
  ⟨crashChain_form p g s b d (reach_synced p g hg s hr) hh hc,
   reopen_crashChain p g s b d (reach_synced p g hg s hr) hh hc⟩

/-- On a consistent ledger (in particular after a crash before the first commit, or after the last one) a restart
replays nothing, so it cannot stop inside `recoverStore`. -/
theorem no_recovery_crash_without_gap (p : Params) (g : Block) (hg : g.header.height = 0) (s : State)
    (hr : Reach p g s) (b : Block) (r : Nat) :
    reopenCrash p g s.dur r = none ∧ reopenCrash p g (crashD p s b 0) r = none :=
  ⟨reopenCrash_synced p g s _ r (reach_synced p g hg s hr) (sameStores_self s (reach_synced p g hg s hr)),
   reopenCrash_synced p g s _ r (reach_synced p g hg s hr) (crashD0_same p s b (reach_synced p g hg s hr))⟩

/-- The crash states of the model are those of `submitBlock`: point 3 is the durable state of the completed call. -/
theorem crash_point_3_is_submitted (p : Params) (s s' : State) (b : Block)
    (h : submitBlock p s b (p.exec s.dur.states.kv b) = .ok s') : s'.dur = crashD p s b 3 := by
  rw [(submitBlock_eq p s s' b _ h).1]; rfl

/-- **Both heights agree after any crash and restart**, the block store and the state store name the same block,
and it is the old tip (k = 0) or the submitted block (k ≥ 1); memory and stores are consistent again. -/
theorem heights_agree_after_recovery (p : Params) (g : Block) (hg : g.header.height = 0) (s t : State) (hr : Reach p g s)
    (b : Block) (hh : b.header.height = s.mem.currHeight + 1) (k : Nat) (h3 : k ≤ 3)
    (h : reopen p g (crashD p s b k) = .ok t) :
    t.dur.blocks.current = some (t.mem.currHash, t.mem.currHeight) ∧
    t.dur.states.current = some (t.mem.currHash, t.mem.currHeight) ∧
    (t.mem.currHash, t.mem.currHeight) = (if k = 0 then (s.mem.currHash, s.mem.currHeight) else (b.header.hash, b.header.height)) := by
  have hs := reach_synced p g hg s hr
  by_cases h0 : k = 0
  · subst h0
    obtain ⟨-, hst, e1, e2⟩ := reopen_synced_ok p g s t _ hs (crashD0_same p s b hs) h
    exact ⟨hst.blocksCur, hst.statesCur, by simp [e1, e2]⟩
  · rw [reopen_crash_ge1 p g s b k hs hh (by omega) h3, ← submitted_dur] at h
    have hs3 := submitted_synced_next p s b (p.exec s.dur.states.kv b) hs hh
    obtain ⟨-, hst, e1, e2⟩ := reopen_synced_ok p g _ t _ hs3 (sameStores_self _ hs3) h
    refine ⟨hst.blocksCur, hst.statesCur, ?_⟩
    simp only [h0, if_false, e1, e2]
    rfl

/-- **No block is applied twice or skipped.** After a crash and restart the state store is the store before the
submission (k = 0) or that store with the block's state batch committed exactly once (k ≥ 1); the same holds for
the two accumulators. -/
theorem no_double_apply_no_skip (p : Params) (g : Block) (hg : g.header.height = 0) (s t : State) (hr : Reach p g s)
    (b : Block) (hh : b.header.height = s.mem.currHeight + 1) (k : Nat) (h3 : k ≤ 3)
    (h : reopen p g (crashD p s b k) = .ok t) :
    t.dur.states = (if k = 0 then s.dur.states
      else s.dur.states.commit (stateBatch p s.mem.stateTree s.mem.blockTree b (p.exec s.dur.states.kv b))) ∧
    t.mem.blockTree = (if k = 0 then s.mem.blockTree else s.mem.blockTree ++ [b.header.prev]) ∧
    t.mem.stateTree = (if k = 0 then s.mem.stateTree else s.mem.stateTree ++ [(p.exec s.dur.states.kv b).changeHash]) := by
  have hs := reach_synced p g hg s hr
  by_cases h0 : k = 0
  · subst h0
    obtain ⟨hd, hst, -, -⟩ := reopen_synced_ok p g s t _ hs (crashD0_same p s b hs) h
    have e1 := hst.blockTree
    have e2 := hst.stateTree
    rw [hd] at e1 e2
    have f1 := hs.blockTree
    have f2 := hs.stateTree
    simp only [crashD, persisted] at e1 e2
    simp only [if_true]
    refine ⟨by rw [hd]; rfl, ?_, ?_⟩
    · simp at e1; rw [f1] at e1; exact (Option.some.inj e1).symm
    · simp at e2; rw [f2] at e2; exact (Option.some.inj e2).symm
  · rw [reopen_crash_ge1 p g s b k hs hh (by omega) h3, ← submitted_dur] at h
    have hs3 := submitted_synced_next p s b (p.exec s.dur.states.kv b) hs hh
    obtain ⟨hd, hst, -, -⟩ := reopen_synced_ok p g _ t _ hs3 (sameStores_self _ hs3) h
    have e1 := hst.blockTree
    have e2 := hst.stateTree
    have f1 := hs3.blockTree
    have f2 := hs3.stateTree
    rw [hd] at e1 e2
    rw [e1] at f1
    rw [e2] at f2
    have hne : b.header.height ≠ 0 := by omega
    simp only [h0, if_false]
    refine ⟨by rw [hd]; simp [submitted, persisted, fillAll], ?_, ?_⟩
    · have := Option.some.inj f1
      rw [this]; simp [submitted, fillAll, fillMem, newBlockTree]
    · have := Option.some.inj f2
      rw [this]; simp [submitted, fillAll, fillMem, newStateTree, hne]

/-- **The next block is accepted exactly as without the crash (k ≥ 1)**: whatever is submitted after the restart
gets the same verdict and leads to the same ledger as on the restarted uncrashed twin. -/
theorem next_block_same_committed (p : Params) (g : Block) (hg : g.header.height = 0) (s : State) (hr : Reach p g s)
    (b : Block) (hh : b.header.height = s.mem.currHeight + 1) (k : Nat) (h1 : 1 ≤ k) (h3 : k ≤ 3) (b' : Block) (root : Hash) :
    (reopen p g (crashD p s b k)).bind (fun t => addBlock p t b' root) =
    (reopen p g (submitted p s b (p.exec s.dur.states.kv b)).dur).bind (fun t => addBlock p t b' root) := by
  rw [recovery_exact_committed p g hg s hr b hh k h1 h3]

/-- **The next block is accepted exactly as without the crash (k = 0)**: same verdict as on the restarted ledger
that never saw the lost block, same resulting ledger up to the length of the hash file. -/
theorem next_block_same_lost (p : Params) (g : Block) (hg : g.header.height = 0) (s t : State) (hr : Reach p g s)
    (b : Block) (h : reopen p g s.dur = .ok t) (b' : Block) (root : Hash) :
    ∃ fl', (reopen p g (crashD p s b 0)).bind (fun t => addBlock p t b' root) =
      (addBlock p t b' root).map (withFileLen fl') := by
  rw [recovery_exact_lost p g hg s hr b, h]
  exact addBlock_withFileLen p t b' root _

/-- **A plain restart changes nothing durable** and yields a consistent ledger at the same block. -/
theorem restart_keeps_everything (p : Params) (g : Block) (hg : g.header.height = 0) (s t : State) (hr : Reach p g s)
    (h : reopen p g s.dur = .ok t) :
    t.dur = s.dur ∧ t.mem.currHeight = s.mem.currHeight ∧ t.mem.currHash = s.mem.currHash ∧
    t.mem.blockTree = s.mem.blockTree ∧ t.mem.stateTree = s.mem.stateTree := by
  have hs := reach_synced p g hg s hr
  obtain ⟨hd, hst, e1, e2⟩ := reopen_synced_ok p g s t _ hs (sameStores_self s hs) h
  have a1 := hst.blockTree
  have a2 := hst.stateTree
  rw [hd, hs.blockTree] at a1
  rw [hd, hs.stateTree] at a2
  exact ⟨hd, e1, e2, (Option.some.inj a1).symm, (Option.some.inj a2).symm⟩

/-- **A restart of a reachable ledger succeeds.** On every ledger reached by a history of first start, submissions,
header deliveries, restarts and crashes (no two different blocks / headers with the same hash, no all-zero block hash —
`NoColl`), `NewLedgerStore` + `InitLedgerStoreWithGenesisBlock` runs to completion: the accumulator sizes match the
state height, the hash file is long enough, the version key and the genesis block are there, `loadHeaderIndexList`
finds a non-zero block hash for every height between the stored header-index batches (`HEADER_INDEX_BATCH_SIZE` each;
any batch size) and the tip, `recoverStore` has nothing to replay — and the validator sets load, *provided* the tip
header's consensus payload decodes and announces a configuration or names, in `LastConfigBlockNum`, a committed height
whose header does (`TipCfgSound`; the ledger never checks that field, the consensus layer that signs headers does). -/
theorem restart_succeeds (p : Params) (g : Block) (hg : g.header.height = 0) (hnz : g.header.hash ≠ zeroHash)
    (s : State) (hr : ReachV p g s) (hcfg : TipCfgSound s) : ∃ t, reopen p g s.dur = .ok t :=
  reachV_restart_succeeds p g hg hnz s hr hcfg

/-- What `loadHeaderIndexList` relies on holds on every such ledger: every height up to the tip has a non-zero block
hash; the stored header-index batches are exactly the block hashes of the heights they cover and never reach beyond
the tip; the in-memory header index agrees with the block store on committed heights, its keys are `0 … count-1`, and
the header height is at least the block height. -/
theorem header_index_consistent (p : Params) (g : Block) (hg : g.header.height = 0) (hnz : g.header.hash ≠ zeroHash)
    (s : State) (hr : ReachV p g s) :
    (∀ i h, s.dur.blocks.hashAt i = some h → h ≠ zeroHash) ∧
    s.mem.storedIndexCount = s.dur.blocks.indexList.length ∧
    (∀ j, j < s.dur.blocks.indexList.length → s.dur.blocks.indexList[j]? = s.dur.blocks.hashAt j) ∧
    s.dur.blocks.indexList.length ≤ s.mem.currHeight + 1 ∧
    (∀ j, j ≤ s.mem.currHeight → s.mem.headerIndex j = s.dur.blocks.hashAt j) ∧
    (∀ j, (s.mem.headerIndex j).isSome ↔ j < s.mem.headerCount) ∧
    s.mem.currHeight + 1 ≤ s.mem.headerCount := by
  have hi := reachV_indexInv p g hg hnz s hr
  exact ⟨hi.nonzero, hi.storedLen, hi.listIdx, hi.listLen, hi.memIdx, hi.keys, hi.ahead⟩

/-- **Invariant of every reachable ledger** (any history including crashes): block store, state store and memory
name the same current block, both accumulators have height + 1 leaves and are the persisted ones, the hash file
is at least as long as the persisted accumulator needs — so `NewStateStore` never reports an inconsistency. -/
theorem reachable_consistent (p : Params) (g : Block) (hg : g.header.height = 0) (s : State) (hr : Reach p g s) :
    Synced s ∧ openState s.dur = .ok (s.mem.blockTree, s.mem.stateTree, s.mem.filePos) := by
  have hs := reach_synced p g hg s hr
  exact ⟨hs, openState_synced s s.dur hs (sameStores_self s hs)⟩

/-- After a crash at any point the consistency checks of `NewStateStore` pass (tree sizes match the state height,
the hash file is long enough). -/
theorem crash_state_opens (p : Params) (g : Block) (hg : g.header.height = 0) (s : State) (hr : Reach p g s)
    (b : Block) (hh : b.header.height = s.mem.currHeight + 1) (k : Nat) (h3 : k ≤ 3) :
    ∃ r, openState (crashD p s b k) = .ok r := by
  have hs := reach_synced p g hg s hr
  by_cases hk : k < 3
  · exact ⟨_, openState_crash_lt p s b k hs hk⟩
  · have : k = 3 := by omega
    subst this
    exact ⟨_, openState_crash3 p s b hs hh⟩

/-- **A crash during the very first start is harmless** (with the repaired `StateStore.ClearAll`): whatever point of
the genesis block's persistence was reached (nothing, block store, + event store, + state store — the version key is
written last), the second start on the same directory yields exactly the ledger of an undisturbed first start. -/
theorem first_start_crash_harmless (p : Params) (g : Block) (hg : g.header.height = 0) (k : Nat) :
    reopen p g (firstCrashD p g k) = initLedger p g :=
  reopen_firstCrash p g k hg

/-- **Any unfinished first start restarts clean** — also after several interrupted attempts: a directory without
version key whose state store passes the `NewStateStore` checks and whose hash file holds at most the genesis append,
whatever subset of the three stores an interrupted attempt (or an interrupted `ClearAll` of a later attempt) left
behind, starts exactly like an empty directory. -/
theorem unfinished_first_start_restarts_clean (p : Params) (g : Block) (d : Durable) (hv : d.blocks.version = false)
    (ho : ∃ r, openState d = .ok r) (hf : d.fileLen ≤ appendCount 0) : reopen p g d = initLedger p g :=
  reopen_unfinished_first_start p g d hv ho hf

/-- The event store is idempotent to re-saving a block's batch (the reason the event commit precedes the state
commit in `submitBlock`). -/
theorem event_resave_idempotent (db : EventDB) (ws : List EWrite) : (db.commit ws).commit ws = db.commit ws :=
  EventDB.commit_idem db ws

/-! ### Non-vacuity: a concrete reachable ledger, an accepted block, successful restarts at every crash point -/
section Example

def p0 : Params :=
  { H := fun b => b.take 4, verify := fun k _ sig => sig == [k.toUInt8], decode := fun _ => true,
    exec := fun kv b => { writeSet := [([b.header.height.toUInt8], [1])], changeHash := [b.header.height.toUInt8],
                          crossHashes := [], notifies := b.txs.map fun t => (t.hash, (kv [0]).isNone) },
    netId := 2, batch := 2000, eventLog := true }
def g0 : Block := { header := { height := 0, hash := [7], prev := zeroHash, timestamp := 10, blockRoot := [], bookkeepers := [],
                                sigs := [], newCfg := some [0, 1, 2, 3], lastCfg := 0 }, txs := [⟨[9], []⟩] }
def okS : Except Err State → Bool | .ok _ => true | .error _ => false
def s0 : State := match initLedger p0 g0 with | .ok s => s | .error _ => ⟨Durable.empty, emptyMem⟩
def b1 : Block := { header := { height := 1, hash := [8], prev := [7], timestamp := 11,
                                blockRoot := treeRoot p0 (s0.mem.blockTree ++ [[7]]), bookkeepers := [2], sigs := [[2]],
                                newCfg := none, lastCfg := 0 }, txs := [⟨[5], [1]⟩] }

private theorem init_ok : initLedger p0 g0 = .ok s0 := by
  have h : okS (initLedger p0 g0) = true := by decide
  unfold s0
  cases h' : initLedger p0 g0 with
  | ok s => rfl
  | error e => rw [h'] at h; cases h

/-- the hypotheses of the C12 theorems are satisfiable: a reachable ledger, a block the ledger accepts, and a
restart that succeeds at every crash point -/
example : Reach p0 g0 s0 ∧ g0.header.height = 0 ∧ b1.header.height = s0.mem.currHeight + 1 ∧
    okS (addBlock p0 s0 b1 (executeBlock p0 s0 b1).2) = true ∧
    (∀ k, k ≤ 3 → okS (reopen p0 g0 (crashD p0 s0 b1 k)) = true) := by
  refine ⟨Reach.init init_ok, rfl, by decide, by decide, ?_⟩
  intro k hk
  have : k = 0 ∨ k = 1 ∨ k = 2 ∨ k = 3 := by omega
  rcases this with rfl | rfl | rfl | rfl <;> decide

end Example

end Poly.Props.C12
