import Poly.Proofs.KeyShape
import Poly.Generated.KeyShapes
/-!
# C17 — Contract storage is confined and its keys are unambiguous

`Poly.Generated.KeyShapes` is regenerated from the Go source on every run (translator `extract/keyshapes`): per
native contract the table of shapes of every `utils.ConcatKey(contract, f1 … fn)` site. The theorems below hold
for **all** argument byte strings that fit the shapes (`Valid`): the finite table is checked by the kernel
(`decide`) and lifted by the soundness theorems of the decision procedures.
-/
namespace Poly.Props.C17
open Poly.Model.KeyShape Poly.Generated.KeyShapes

/-- Soundness of the injectivity test, for all arguments: a key of a shape with at most one field of unknown
width determines every argument. -/
theorem selfInjective_sound_all (s : Shape) (a b : List Bytes) (hs : selfInjective s = true)
    (ha : Valid s a) (hb : Valid s b) (heq : render a = render b) : a = b :=
  selfInjective_sound hs ha hb heq

/-- Soundness of the disjointness test, for all arguments. -/
theorem disjoint_sound_all (s t : Shape) (a b : List Bytes) (hd : disjoint s t = true)
    (ha : Valid s a) (hb : Valid t b) : render a ≠ render b :=
  disjoint_sound hd ha hb

/-- `utils.ConcatKey` is the contract address followed by the fields in order. -/
theorem concatKey_layout (c : Bytes) (args : List Bytes) : concatKey c args = c ++ args.flatten :=
  concatKey_eq c args

/-- The generated tables pass the table test (kernel computation over the table regenerated from the source). -/
theorem generated_tables_ok : (contracts.all fun c => tableOK c.2.2) = true := by decide +kernel

/-- **Keys are unambiguous within each contract.** For every native contract, any two key constructions of the
source and any arguments: if the keys are equal then the arguments are equal and the two constructions belong to
one record family (same literals, same fields). -/
theorem keys_unambiguous (name : String) (addr : Bytes) (tbl : List Shape) (hc : (name, addr, tbl) ∈ contracts)
    (s t : Shape) (hs : s ∈ tbl) (ht : t ∈ tbl) (a b : List Bytes) (ha : Valid s a) (hb : Valid t b)
    (heq : concatKey addr a = concatKey addr b) : sameFamily s t = true ∧ a = b := by
  have hok : tableOK tbl = true := by
    have := generated_tables_ok
    simp only [List.all_eq_true] at this
    exact this _ hc
  rw [concatKey_eq, concatKey_eq] at heq
  exact tableOK_sound hok hs ht ha hb (List.append_cancel_left heq)

/-- Contract addresses are 20 bytes and pairwise different (kernel computation over the generated table). -/
theorem contract_addresses_distinct :
    (contracts.all fun c => c.2.1.length == 20 && contracts.all fun d => c.1 == d.1 || c.2.1 != d.2.1) = true := by
  decide +kernel

/-- **Keys of different contracts differ**, whatever the fields. -/
theorem contract_prefix (n₁ n₂ : String) (a₁ a₂ : Bytes) (t₁ t₂ : List Shape)
    (h₁ : (n₁, a₁, t₁) ∈ contracts) (h₂ : (n₂, a₂, t₂) ∈ contracts) (hne : n₁ ≠ n₂)
    (x y : List Bytes) : concatKey a₁ x ≠ concatKey a₂ y := by
  have h := contract_addresses_distinct
  simp only [List.all_eq_true, Bool.and_eq_true, Bool.or_eq_true, beq_iff_eq, bne_iff_ne, ne_eq] at h
  obtain ⟨l1, hd⟩ := h _ h₁
  obtain ⟨l2, _⟩ := h _ h₂
  have hd' := hd _ h₂
  simp only at l1 l2 hd'
  intro heq
  rw [concatKey_eq, concatKey_eq] at heq
  have := (List.append_inj heq (by omega)).1
  rcases hd' with h | h
  · exact hne h
  · exact h this

/-- **Confinement (cache).** Whatever sequence of puts and deletes a contract performs, with whatever keys, every
key in the transaction's write buffer starts with the storage prefix byte. -/
theorem cache_keys_prefixed (ops : List CacheOp) :
    ∀ kv ∈ cacheRun storagePrefix ops, kv.1.head? = some storagePrefix :=
  cacheRun_keys storagePrefix ops

/-- **Confinement (commit).** Committing a transaction's write buffer leaves every key of the block overlay that
does not start with the storage prefix untouched — in particular every ledger bookkeeping key. -/
theorem commit_confined (ops : List CacheOp) (backend : Store) (k : Bytes) (hk : k.head? ≠ some storagePrefix) :
    (commit (cacheRun storagePrefix ops) backend).get k = backend.get k := by
  apply commit_get_other
  intro kv hkv heq
  exact hk (heq ▸ cacheRun_keys storagePrefix ops kv hkv)

/-- The storage prefix is none of the ledger's other data-entry prefixes (generated from
`core/store/common/data_entry_prefix.go`). -/
theorem storage_prefix_not_bookkeeping : ∀ p ∈ ledgerPrefixes, p.2 ≠ storagePrefix := by decide +kernel

/-- Every private `put/get/delete` of `CacheDB` is called with the constant `ST_STORAGE` (generated facts). -/
theorem cache_prefix_args_are_storage :
    cachePrefixArgs.length = 3 ∧ ∀ p ∈ cachePrefixArgs, p.2 = toString storagePrefix.toNat := by decide +kernel

/-- Every key handed to the store under `native/` is built by `utils.ConcatKey` (generated facts: the translator
follows local variables, key-returning helpers and helpers that pass a key parameter on). -/
theorem all_store_keys_from_concatKey : unresolvedKeySites = [] := by decide

/-- Every key field is one value written raw: no field is a variable assigned in several different ways (e.g. raw
for short values, hashed for long ones) or a truncation of a value — such a field would map different logical
parameters to the same field bytes, below the level the shape theorems speak about (generated facts). -/
theorem fields_written_raw : ambiguousFields = [] := by decide

/-- No key (or anything else) under `native/` is built by appending to a package-level slice with spare capacity,
directly or through a helper that appends to its parameter: such results share one backing array and change under
concurrent native executions (generated facts; slices declared by a composite literal have no spare capacity). -/
theorem no_shared_backing_arrays : packageSliceAppends = [] := by decide

/-- No package under `native/` other than `native/storage` imports a ledger store package. -/
theorem no_direct_store_access : directStoreImports = [] := by decide

/-- The tables are not empty: there is something to check. -/
theorem tables_nonempty : contracts.length ≥ 7 ∧ nSites ≥ 250 ∧ (contracts.all fun c => c.2.2.length ≥ 1) = true := by
  decide +kernel

/-- Non-vacuity: a concrete valid argument list for the shape `lit ‖ fixed 8 ‖ var` (e.g. `doneTx ‖ chain ‖ id`). -/
example : Valid [.lit [100, 111, 110, 101, 84, 120], .fixed 8, .var]
    [[100, 111, 110, 101, 84, 120], [2, 0, 0, 0, 0, 0, 0, 0], [1, 2, 3]] :=
  Valid.cons rfl (Valid.cons rfl (Valid.cons trivial Valid.nil))

/-- Test: the decision procedures reject what they must: `a ‖ var` vs `ab ‖ var` collide (`a‖"bX"` = `ab‖"X"`),
and a shape with two fields of unknown width is not injective. -/
example : disjoint [.lit [97], .var] [.lit [97, 98], .var] = false ∧ selfInjective [.var, .fixed 8, .var] = false ∧
    render [[97], [98, 88]] = render [[97, 98], [88]] := by decide

end Poly.Props.C17
