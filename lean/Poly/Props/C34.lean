import Poly.Proofs.GovInit
/-!
# C34 — Validator pool invariants hold across epochs

Model: the node-manager part of `Poly.Model.Gov` (InitConfig, RegisterCandidate, UnRegisterCandidate, ApproveCandidate,
QuitNode, BlackNode, WhiteNode, CommitDpos, UpdateConfig, executeCommitDpos) together with all other governance
transactions. `itemKey it` = the public key a pool entry stands for (decoded bytes of its key string; registration
admits only the canonical serialization of a key, so different byte strings are different keys). `PoolInv s`: the pool
of the current view has at least four active members, pairwise different keys, every entry carries the index recorded
for its key, no pending candidacy is for a key in the pool; the index table is injective and below the next free index.
All statements hold for every hash function and every history.
-/
namespace Poly.Props.C34
open Poly.Model.Gov

/-- A pool of at least four validators with pairwise different keys, installed by `InitConfig` on a fresh node manager,
satisfies the invariants. -/
theorem initial_pool_invariants (s : State) (mbcv : Nat) (peers : List Peer) (o : Out)
    (h : initConfig s mbcv peers = .ok (.done o)) (hp : s.pidx = []) (ha : s.apply = [])
    (h4 : 4 ≤ peers.length) (hkeys : (peers.map peerKey).Nodup) : PoolInv o.st ∧ ApplyCanon o.st :=
  init_establishes s mbcv peers o h hp ha h4 hkeys

/-- The invariants survive every transaction, hence every history (register / unregister / approve / quit / black /
white / commit-epoch / update-config by owners, validators and outsiders, interleaved with all other governance
transactions). -/
theorem invariants_over_histories (H : Bytes → Bytes) (s : State) (ops : List Op) (h : PoolInv s) (hc : ApplyCanon s) :
    PoolInv (run H s ops) ∧ ApplyCanon (run H s ops) := PoolInv_run H s ops h hc

/-- Never fewer than four active (candidate or consensus) members. -/
theorem inv_min_four (H : Bytes → Bytes) (s : State) (ops : List Op) (h : PoolInv s) (hc : ApplyCanon s) :
    ∃ gv pool, curPool (run H s ops) = some (gv, pool) ∧ 4 ≤ activeCount pool := by
  obtain ⟨gv, pool, hcp, hok, _⟩ := (PoolInv_run H s ops h hc).1
  exact ⟨gv, pool, hcp, hok.four⟩

/-- No public key occupies two pool entries. -/
theorem inv_unique_pubkey (H : Bytes → Bytes) (s : State) (ops : List Op) (h : PoolInv s) (hc : ApplyCanon s) :
    ∃ gv pool, curPool (run H s ops) = some (gv, pool) ∧ (pool.map itemKey).Nodup ∧ ∀ it ∈ pool, (itemKey it).isSome := by
  obtain ⟨gv, pool, hcp, hok, _⟩ := (PoolInv_run H s ops h hc).1
  refine ⟨gv, pool, hcp, hok.keysNodup, ?_⟩
  intro it hit
  obtain ⟨kb, hk, _⟩ := hok.idx it hit
  rw [hk]; rfl

/-- Entries for distinct keys have distinct indices (equal indices only for the same key). -/
theorem inv_distinct_index (H : Bytes → Bytes) (s : State) (ops : List Op) (h : PoolInv s) (hc : ApplyCanon s) :
    ∃ gv pool, curPool (run H s ops) = some (gv, pool) ∧
      ∀ it1 ∈ pool, ∀ it2 ∈ pool, it1.index = it2.index → itemKey it1 = itemKey it2 := by
  obtain ⟨gv, pool, hcp, hok, hidx⟩ := (PoolInv_run H s ops h hc).1
  refine ⟨gv, pool, hcp, ?_⟩
  intro it1 h1 it2 h2 e
  obtain ⟨k1, hk1, hi1⟩ := hok.idx it1 h1
  obtain ⟨k2, hk2, hi2⟩ := hok.idx it2 h2
  rw [hk1, hk2, hidx.inj k1 k2 it1.index hi1 (by rw [e]; exact hi2)]

/-- Blacklisted keys cannot register, nor can keys that are in the pool or already applied. -/
theorem blacklisted_cannot_register (H : Bytes → Bytes) (s : State) (sg : List Addr) (pk : String) (a : Addr) (p : Plan)
    (h : plan H s (.reg sg pk a) = .ok p) :
    ∃ kb gv pool, decodePk pk = some kb ∧ alHas s.black kb = false ∧ alHas s.apply kb = false ∧
      curPool s = some (gv, pool) ∧ ∀ it ∈ pool, itemKey it ≠ some kb := by
  simp only [plan, registerCandidate] at h
  repeat' split at h
  all_goals try (cases h; done)
  rename_i _ _ _ kb hkb hbl hap _ gv pool hcp hany
  refine ⟨kb, gv, pool, hkb, by simpa using hbl, by simpa using hap, hcp, ?_⟩
  intro it hit hk
  apply hany
  simp only [List.any_eq_true]
  exact ⟨it, hit, by simp only [itemKey] at hk; simp [hk]⟩

/-- Epoch change: the view advances by exactly one, the height of the block is recorded, the new pool consists of
exactly the active members of the old one, every member is a consensus member, quitting and blacklisted members are gone. -/
theorem epoch_step (s s' : State) (h : executeCommitDpos s = .ok s') :
    ∃ gv pool, curPool s = some (gv, pool) ∧ s'.gv = some { view := gv.view + 1, height := s.height } ∧
      curPool s' = some ({ view := gv.view + 1, height := s.height },
        (pool.filter (fun it => it.status.active)).map (fun it => { it with status := Status.cons })) ∧
      (∀ it ∈ (pool.filter (fun it => it.status.active)).map (fun it => ({ it with status := Status.cons } : PeerItem)),
        it.status = Status.cons) := by
  obtain ⟨gv, pool, h1, _, h3, h4, _⟩ := commit_spec h
  refine ⟨gv, pool, h1, h3, h4, ?_⟩
  intro it hit
  obtain ⟨x, _, rfl⟩ := List.mem_map.1 hit
  rfl

/-- At most once per block: after an epoch change, a further one fails as long as the block height is the same. -/
theorem once_per_block (s s' t : State) (h : executeCommitDpos s = .ok s')
    (hgv : t.gv = s'.gv) (hh : t.height = s.height) : executeCommitDpos t = .error .err := by
  obtain ⟨gv, pool, _, _, h3, _, _⟩ := commit_spec h
  simp only [executeCommitDpos, curPool, hgv, h3]
  split
  · rfl
  · rename_i g p hm
    split at hm
    · cases hm
    · injection hm with hm; injection hm with hm1 hm2; subst hm1
      simp [hh]

/-- The epoch (governance view) changes only through CommitDpos, BlackNode or InitConfig (the latter only on a node
manager that was never initialised). -/
theorem epoch_changes_only_by_commit_or_black (H : Bytes → Bytes) (s : State) (op : Op)
    (hop : (∀ sg o, op ≠ .commit sg o) ∧ (∀ sg a pks, op ≠ .black sg a pks) ∧ (∀ m ps, op ≠ .init m ps)) :
    (step H s op).gv = s.gv := gv_frame H s op hop

/-- `InitConfig` does nothing on an initialised node manager. -/
theorem init_only_once (H : Bytes → Bytes) (s : State) (m : Nat) (ps : List Peer) (h : s.gv.isSome = true) :
    step H s (.init m ps) = s := by
  simp [step, exec, plan, initConfig, h]

/-- `CommitDpos` needs the operator's witness unless MaxBlockChangeView blocks have passed since the last change. -/
theorem commit_authorised (H : Bytes → Bytes) (s : State) (sg : List Addr) (operator : Addr) (p : Plan)
    (h : plan H s (.commit sg operator) = .ok p) :
    ∃ cfg gv, s.cfg = some cfg ∧ s.gv = some gv ∧
      (witness sg operator = true ∨ wrapSub32 s.height gv.height ≥ cfg.maxBlockChangeView) := by
  simp only [plan] at h
  repeat' split at h
  all_goals try (cases h; done)
  rename_i cfg gv hcfg hgv _ hw _ _ _
  refine ⟨cfg, gv, hcfg, hgv, ?_⟩
  by_cases hwit : witness sg operator = true
  · exact Or.inl hwit
  · right
    have hwf : witness sg operator = false := by simpa using hwit
    simp only [hwf, Bool.not_false, Bool.true_and, Bool.not_eq_true', decide_eq_false_iff_not] at hw
    exact Classical.not_not.1 hw

/-- Non-vacuity (tests on literals): five validators, one quits (four remain active, the fifth is refused), the epoch
change drops it and advances the view; a second change in the same block fails. -/
example :
    let v : Nat → Addr := fun n => List.replicate 20 (UInt8.ofNat n)
    let s0 : State := run id {} [.key [2] (v 1), .key [3] (v 2), .key [4] (v 3), .key [5] (v 4), .key [6] (v 5), .height 10,
      .init 3 [(1, "02", v 1), (2, "03", v 2), (3, "04", v 3), (4, "05", v 4), (5, "06", v 5)]]
    let s1 := run id s0 [.quit [v 5] "06" (v 5), .quit [v 4] "05" (v 4), .height 20, .commit [v 9] (v 8)]
    (s0.gv.map (·.view)) = some 1 ∧ (s1.gv.map (·.view)) = some 2 ∧
    ((curPool s1).map (fun p => p.2.length)) = some 4 ∧
    (step id s1 (.commit [v 9] (v 8))).gv = s1.gv := by decide

end Poly.Props.C34
