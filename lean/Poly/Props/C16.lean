import Poly.Proofs.Native
import Poly.Proofs.NativeWitness
import Poly.Proofs.NativeOrder
import Poly.Proofs.NativeCallGraph
import Poly.Generated.CallGraph
/-!
# C16 — Block execution is deterministic

(b) **No wall clock / random source reachable from contract entry points.** `Poly.Generated.CallGraph` is regenerated
from the Go source on every run by `extract/callgraph`: the over-approximated call graph of the whole module (every
function, method and package initialiser is a node; edges for static calls, interface dispatch to every implementing
module type, callbacks through external code, function values by signature), the entry points (every handler
registered through `NativeService.Register`, every method of every `HeaderSyncHandler` / `ChainHandler`
implementation, the block-execution path) and one *site* node per use of `time.Now/Since/Until/After/AfterFunc/NewTimer/
NewTicker/Tick/Sleep`, of a `math/rand` package-level function (other than the deterministic constructors) and of
anything in `crypto/rand`. The kernel re-checks that the claimed reachable set is closed under the edges and contains
the entries; `closed_sound` (proved once, for every graph) then gives: reachable ⇒ in the set.

The reachable sink sites are **exactly** `knownSites` below: eleven `time.Now()` reads in the header-sync handlers of
nine chains (future-block checks against the node's wall clock) — a genuine determinism defect recorded as known
findings (not safely fixable: replacing the clock by the block timestamp changes the validity of historical blocks).
Any other reachable site breaks `no_unknown_sink_reachable`.

(a) **Same block, same prior state ⇒ same result.** In the model `execBlock` is a function of (registry, committed
state, height, block timestamp, transactions); the content is the tie (the real `ExecuteBlock` equals the model on every
repetition, on fresh stores, under Go's randomised map iteration) plus the lemmas below that make the order-dependent
places explicit (iteration order of a Go map = an explicit permutation argument).
-/
namespace Poly.Props.C16
open Poly.Model.CallGraph
open Poly.Generated.CallGraph

/-- The use sites of forbidden sinks that are reachable from contract entry points (hand-written expectation;
each is a known finding of this property, keyed by exactly this string). -/
def knownSites : List String := [
  "native/service/header_sync/bsc.verifyHeader->time.Now#0",
  "native/service/header_sync/bytom.verifyHeader->time.Now#0",
  "native/service/header_sync/eth.(*ETHHandler).SyncBlockHeader->time.Now#0",
  "native/service/header_sync/eth.(*ETHHandler).SyncBlockHeader->time.Now#1",
  "native/service/header_sync/heco.verifyHeader->time.Now#0",
  "native/service/header_sync/hsc.verifyHeader->time.Now#0",
  "native/service/header_sync/msc.verifyHeader->time.Now#0",
  "native/service/header_sync/pixiechain.verifyHeader->time.Now#0",
  "native/service/header_sync/polygon.verifyHeader->time.Now#0",
  "native/service/header_sync/starcoin.(*Handler).SyncBlockHeader->time.Now#0",
  "native/service/header_sync/starcoin.(*Handler).SyncBlockHeader->time.Now#1"
]

/-- Reachable places that touch process-wide state (a package-level variable): reviewed on the unchanged tree, none can
make the result of a block depend on the history of the process. No reachable function ASSIGNS a package-level variable,
stores into one or deletes from one; what remains are method calls on package-level values:
constant big integers (`diffInTurn/diffNoTurn.Int64`), immutable tables (base58 alphabet, compiled regexp, the starcoin
consensus objects), sealed amino codecs (`Cdc`, `cdc`, `CryptoCodec`) and the RLP type cache `theTC` (memoised reflection
data, a function of Go types only), `sync.Pool`s of scratch buffers that are reset before use (`hasherPool`, `encbufPool`),
the event publisher (subscribers, not part of a result) and the read of the node's global ledger height in
`SideChain.Serialization` (fork switch; equals height-1 of the block being executed on a node). -/
def knownGlobalSites : List String := [
  "common.(*Address).ToBase58->call:github.com/itchyny/base58-go.BitcoinEncoding.Encode#0",
  "common.AddressFromBase58->call:github.com/itchyny/base58-go.BitcoinEncoding.Decode#0",
  "native/event.PushSmartCodeEvent->call:events.DefActorPublisher.Publish#0",
  "native/service/cross_chain_manager/cosmos.(*CosmosHandler).MakeDepositProposal->call:native/service/header_sync/cosmos.Cdc.UnmarshalBinaryBare#0",
  "native/service/cross_chain_manager/cosmos.(*CosmosHandler).MakeDepositProposal->call:native/service/header_sync/cosmos.Cdc.UnmarshalBinaryBare#1",
  "native/service/cross_chain_manager/cosmos.(*CosmosHandler).MakeDepositProposal->call:native/service/header_sync/cosmos.Cdc.UnmarshalBinaryBare#2",
  "native/service/governance/side_chain_manager.(*SideChain).Serialization->call:core/ledger.DefLedger.GetCurrentBlockHeight#0",
  "native/service/header_sync/bsc.(*Handler).SyncBlockHeader->call:native/service/header_sync/bsc.diffInTurn.Int64#0",
  "native/service/header_sync/bsc.(*Handler).SyncBlockHeader->call:native/service/header_sync/bsc.diffNoTurn.Int64#0",
  "native/service/header_sync/bytom.(*Handler).SyncBlockHeader->call:native/service/header_sync/bytom.diffInTurn.Int64#0",
  "native/service/header_sync/bytom.(*Handler).SyncBlockHeader->call:native/service/header_sync/bytom.diffNoTurn.Int64#0",
  "native/service/header_sync/cosmos.(*CosmosHandler).SyncBlockHeader->call:native/service/header_sync/cosmos.Cdc.UnmarshalBinaryBare#0",
  "native/service/header_sync/cosmos.(*CosmosHandler).SyncGenesisHeader->call:native/service/header_sync/cosmos.Cdc.UnmarshalBinaryBare#0",
  "native/service/header_sync/eth.rlpHash->call:native/service/header_sync/eth.hasherPool.Get#0",
  "native/service/header_sync/eth.rlpHash->call:native/service/header_sync/eth.hasherPool.Put#0",
  "native/service/header_sync/eth/rlp.(*encReader).Read->call:native/service/header_sync/eth/rlp.encbufPool.Put#0",
  "native/service/header_sync/eth/rlp.Encode->call:native/service/header_sync/eth/rlp.encbufPool.Get#0",
  "native/service/header_sync/eth/rlp.Encode->call:native/service/header_sync/eth/rlp.encbufPool.Put#0",
  "native/service/header_sync/eth/rlp.cachedWriter->call:native/service/header_sync/eth/rlp.theTC.info#0",
  "native/service/header_sync/eth/rlp.makeListDecoder->call:native/service/header_sync/eth/rlp.theTC.infoWhileGenerating#0",
  "native/service/header_sync/eth/rlp.makePtrDecoder->call:native/service/header_sync/eth/rlp.theTC.infoWhileGenerating#0",
  "native/service/header_sync/eth/rlp.makePtrWriter->call:native/service/header_sync/eth/rlp.theTC.infoWhileGenerating#0",
  "native/service/header_sync/eth/rlp.makeSliceWriter->call:native/service/header_sync/eth/rlp.theTC.infoWhileGenerating#0",
  "native/service/header_sync/eth/rlp.structFields->call:native/service/header_sync/eth/rlp.theTC.infoWhileGenerating#0",
  "native/service/header_sync/heco.(*Handler).SyncBlockHeader->call:native/service/header_sync/heco.diffInTurn.Int64#0",
  "native/service/header_sync/heco.(*Handler).SyncBlockHeader->call:native/service/header_sync/heco.diffNoTurn.Int64#0",
  "native/service/header_sync/hsc.(*Handler).SyncBlockHeader->call:native/service/header_sync/hsc.diffInTurn.Int64#0",
  "native/service/header_sync/hsc.(*Handler).SyncBlockHeader->call:native/service/header_sync/hsc.diffNoTurn.Int64#0",
  "native/service/header_sync/msc.verifySeal->call:native/service/header_sync/msc.diffInTurn.Int64#0",
  "native/service/header_sync/msc.verifySeal->call:native/service/header_sync/msc.diffNoTurn.Int64#0",
  "native/service/header_sync/okex/ethsecp256k1.(PrivKey).Bytes->call:native/service/header_sync/okex/ethsecp256k1.CryptoCodec.MustMarshalBinaryBare#0",
  "native/service/header_sync/okex/ethsecp256k1.(PubKey).Bytes->call:native/service/header_sync/okex/ethsecp256k1.CryptoCodec.MarshalBinaryBare#0",
  "native/service/header_sync/pixiechain.(*Handler).SyncBlockHeader->call:native/service/header_sync/pixiechain.diffInTurn.Int64#0",
  "native/service/header_sync/pixiechain.(*Handler).SyncBlockHeader->call:native/service/header_sync/pixiechain.diffNoTurn.Int64#0",
  "native/service/header_sync/polygon/types.(*Vote).SignBytes->call:native/service/header_sync/polygon/types.cdc.MarshalBinaryLengthPrefixed#0",
  "native/service/header_sync/polygon/types.cdcEncode->call:native/service/header_sync/polygon/types.cdc.MustMarshalBinaryBare#0",
  "native/service/header_sync/polygon/types/common.(*BitArray).UnmarshalJSON->call:native/service/header_sync/polygon/types/common.bitArrayJSONRegexp.FindStringSubmatch#0",
  "native/service/header_sync/polygon/types/common.(*BitArray).UnmarshalJSON->call:native/service/header_sync/polygon/types/common.bitArrayJSONRegexp.String#0",
  "native/service/header_sync/polygon/types/secp256k1.(PubKeySecp256k1).Bytes->call:native/service/header_sync/polygon/types/secp256k1.cdc.MarshalBinaryBare#0",
  "native/service/header_sync/starcoin.verifyHeaderDifficulty->call:native/service/header_sync/starcoin.argonConsensus.VerifyHeaderDifficulty#0",
  "native/service/header_sync/starcoin.verifyHeaderDifficulty->call:native/service/header_sync/starcoin.cryptonightConsensus.VerifyHeaderDifficulty#0",
  "native/service/header_sync/starcoin.verifyHeaderDifficulty->call:native/service/header_sync/starcoin.oldArgonConsensus.VerifyHeaderDifficulty#0"
]

/-- Reachable `go` statements and multi-way `select`s: none on the unchanged tree. -/
def knownGoroutineSites : List String := []

private theorem cert_closed : closed succ certificate = true := by decide +kernel
private theorem cert_entries : entriesIn entries certificate = true := by decide +kernel

/-- The translator's certificate is closed under the edges of the generated graph and contains every entry point
(kernel evaluation over the generated tables), hence contains every reachable node. -/
theorem certificate_contains_reachable : ∀ n, Reach succ entries n → certificate.testBit n = true :=
  closed_sound succ entries certificate cert_closed cert_entries

/-- Every forbidden sink site reachable from a contract entry point is one of the known sites. -/
theorem no_unknown_sink_reachable : ∀ s ∈ sinkSites, Reach succ entries s.1 → s.2 ∈ knownSites :=
  sinksKnown_sound succ entries certificate sinkSites knownSites cert_closed cert_entries (by decide +kernel)

/-- Conversely every known site is really reachable (a checked call path from an entry point is exhibited): the list is
exact, not merely an upper bound. -/
theorem known_sinks_reachable : ∀ k ∈ knownSites, ∃ s ∈ sinkSites, s.2 = k ∧ Reach succ entries s.1 :=
  coveredZip_sound succ entries sinkSites witnessPaths knownSites (by decide +kernel)

/-- Process-wide state: every reachable place that writes a package-level variable (assignment, element or field store,
delete, increment or decrement) or calls a method on one is in the reviewed list — in particular no handler keeps a memo, cache or
counter in a package-level variable that later executions could observe. -/
theorem no_unknown_global_write_reachable : ∀ s ∈ globalWriteSites, Reach succ entries s.1 → s.2 ∈ knownGlobalSites :=
  sinksKnown_sound succ entries certificate globalWriteSites knownGlobalSites cert_closed cert_entries (by decide +kernel)

theorem known_global_sites_reachable : ∀ k ∈ knownGlobalSites, ∃ s ∈ globalWriteSites, s.2 = k ∧ Reach succ entries s.1 :=
  coveredZip_sound succ entries globalWriteSites globalWitnessPaths knownGlobalSites (by decide +kernel)

/-- Scheduling: no `go` statement and no `select` over several channels is reachable from a contract entry point. -/
theorem no_unknown_goroutine_reachable : ∀ s ∈ goroutineSites, Reach succ entries s.1 → s.2 ∈ knownGoroutineSites :=
  sinksKnown_sound succ entries certificate goroutineSites knownGoroutineSites cert_closed cert_entries (by decide +kernel)

theorem known_goroutine_sites_reachable : ∀ k ∈ knownGoroutineSites, ∃ s ∈ goroutineSites, s.2 = k ∧ Reach succ entries s.1 :=
  coveredZip_sound succ entries goroutineSites goroutineWitnessPaths knownGoroutineSites (by decide +kernel)

open Poly.Model.Native

/-- Contracts read time only as the block timestamp: whatever ran before (any handler program, nested calls), the
values handed to a handler by `GetHeight` / `GetTime` are those of the block environment. -/
theorem observed_time_is_block_time (leafHash : Bytes → Hash) (reg : Registry) (env : BlockEnv) (bs : BlockState)
    (tx : Tx) (n : Nat) :
    (invokeF leafHash reg n (newService env bs tx)).2.time = env.time ∧
    (invokeF leafHash reg n (newService env bs tx)).2.height = env.height := by
  have h := invokeF_frame leafHash reg n (newService env bs tx)
  exact ⟨h.time, h.height⟩

/-- `GetTime`/`GetHeight` inside a program: the continuation receives the service's block values. -/
theorem blockInfo_reads_env (leafHash : Bytes → Hash) (inv : Inv) (f : Nat → Nat → Prog) (s : Svc) :
    runProg leafHash inv (.blockInfo f) s = runProg leafHash inv (f s.height s.time) s := rfl

/-- Events and cross hashes follow the transaction order only: the result of a block is the concatenation of the
results of any split of it, the second part starting from the overlay the first one left. -/
theorem result_follows_tx_order (leafHash : Bytes → Hash) (reg : Registry) (env : BlockEnv) (bs : BlockState)
    (pre post : List Tx) :
    (execTxs leafHash reg env bs (pre ++ post)).2 =
      (execTxs leafHash reg env bs pre).2 ++ (execTxs leafHash reg env (execTxs leafHash reg env bs pre).1 post).2 := by
  rw [execTxs_append]

/-- Handlers that range over a Go map, iteration order as an explicit argument: the consensus operator address
(`GetCurConOperator` → `AddressFromBookkeepers`) is the same for every iteration order of the peer pool, because the
collected keys are sorted before they are hashed (`hsort`: the sort is a function of the multiset of keys — true of a
comparison sort under a total order on serialized keys). -/
theorem operator_order_independent (sortKeys : List Bytes → List Bytes) (addrOfCode : Bytes → Addr)
    (hsort : ∀ l l' : List Bytes, List.Perm l l' → sortKeys l = sortKeys l')
    (peers peers' : List Peer) (h : List.Perm peers peers') :
    curConOperator sortKeys addrOfCode peers = curConOperator sortKeys addrOfCode peers' :=
  curConOperator_perm sortKeys addrOfCode hsort peers peers' h

/-- The approval count of `CheckConsensusSigns` (signed consensus peers, consensus peers) and hence its verdict do
not depend on the iteration order of the peer pool. -/
theorem consensus_sign_count_order_independent (signed : Bytes → Bool) (peers peers' : List Peer)
    (h : List.Perm peers peers') :
    signCount signed peers = signCount signed peers' ∧ quorumReached signed peers = quorumReached signed peers' := by
  have := signCount_perm signed peers peers' h
  exact ⟨this, by simp [quorumReached, this]⟩

section MapRanging
open Poly.Model.Order

/-- `for k, v := range src { dst[k] = v }` (RegisterAsset: asset and lock-proxy maps; RegisterRedeem and SetBtcTxParam:
the verified signatures): for every visiting order of `src` every key ends with the same value, and the map ends with
the same number of entries (the `len(bindSignInfo) >= m` test that decides whether the binding is installed). -/
theorem merge_range_order_independent {κ ν : Type} [DecidableEq κ] (dst src src' : List (κ × ν))
    (hn : (keys src).Nodup) (h : List.Perm src src') :
    (∀ x, mget (mergeRange dst src) x = mget (mergeRange dst src') x) ∧
    (mergeRange dst src).length = (mergeRange dst src').length :=
  ⟨mergeRange_order_independent dst src src' hn h, mergeRange_size_order_independent dst src src' hn h⟩

/-- Every stored record that holds a Go map (PeerPoolMap, FeeInfo, AssetBind, BindSignInfo, ConsensusSigns, …) is
written by collecting the entries in iteration order and stable-sorting them by key: with pairwise different keys under
a total order the written sequence is the same for every iteration order. -/
theorem record_serialisation_order_independent {α κ : Type} (key : α → κ) (le : κ → κ → Bool)
    (htot : ∀ a b, le a b || le b a) (htr : ∀ a b c, le a b → le b c → le a c) (hanti : ∀ a b, le a b → le b a → a = b)
    (visited visited' : List α) (hn : (visited.map key).Nodup) (h : List.Perm visited visited') :
    collectSorted (fun a b => le (key a) (key b)) visited = collectSorted (fun a b => le (key a) (key b)) visited' :=
  collectSorted_order_independent key le htot htr hanti visited visited' hn h

/-- `executeCommitDpos` (also run inside `BlackNode`): quitting and black-listed peers leave, the others become
consensus peers, whatever order the loop visits the pool in — the surviving entries are the same and the pool stored for
the new view is identical. (The loop emits no per-peer event in the code as written; an event emitted inside it would
be order dependent, which the `determ` stream watches for.) -/
theorem commitDpos_order_independent (le : List UInt8 → List UInt8 → Bool)
    (htot : ∀ a b, le a b || le b a) (htr : ∀ a b c, le a b → le b c → le a c) (hanti : ∀ a b, le a b → le b a → a = b)
    (visited visited' : List PeerItem) (hn : (visited.map (·.pubkey)).Nodup) (h : List.Perm visited visited') :
    List.Perm (commitPool visited) (commitPool visited') ∧
    collectSorted (fun a b => le a.pubkey b.pubkey) (commitPool visited) =
      collectSorted (fun a b => le a.pubkey b.pubkey) (commitPool visited') :=
  ⟨commitPool_perm visited visited' h, commitPool_stored_order_independent le htot htr hanti visited visited' hn h⟩

/-- The peer counts that `BlackNode` and `QuitNode` compare with MIN_PEER_NUM. -/
theorem active_count_order_independent (visited visited' : List PeerItem) (h : List.Perm visited visited') :
    activeCount visited = activeCount visited' := activeCount_perm visited visited' h

/-- `UpdateFee`: the proposals are collected from the FeeInfo map in iteration order, sorted, and five times their
median is installed: the same fee for every iteration order (also for the governance model's `medianFee`). -/
theorem fee_median_order_independent {κ : Type} (visited visited' : List (κ × Nat)) (h : List.Perm visited visited') :
    medianFee (feeValues visited) = medianFee (feeValues visited') ∧
    Poly.Model.Gov.medianFee (feeValues visited) = Poly.Model.Gov.medianFee (feeValues visited') :=
  ⟨medianFee_order_independent _ _ (h.map _), gov_medianFee_order_independent _ _ (h.map _)⟩

end MapRanging

/-- `hsort` is satisfiable: merge sort under a total, transitive, antisymmetric order is such a function. -/
example (le : Bytes → Bytes → Bool) (htot : ∀ a b, le a b || le b a) (htr : ∀ a b c, le a b → le b c → le a c)
    (hanti : ∀ a b, le a b → le b a → a = b) (l l' : List Bytes) (h : List.Perm l l') :
    l.mergeSort le = l'.mergeSort le := by
  apply List.Perm.eq_of_pairwise (le := fun a b => le a b = true)
  · intro a b _ _ h1 h2; exact hanti a b h1 h2
  · exact List.pairwise_mergeSort (fun a b c => htr a b c) (fun a b => by simpa using htot a b) l
  · exact List.pairwise_mergeSort (fun a b c => htr a b c) (fun a b => by simpa using htot a b) l'
  · exact ((List.mergeSort_perm l le).trans h).trans (List.mergeSort_perm l' le).symm

end Poly.Props.C16
