import Poly.Proofs.VBFTCount

/-!
# C41 — VBFT round decisions count distinct participants

Property theorems only. The model (`Poly.Model.VBFTCount`) mirrors the block pool bookkeeping
(newBlockProposal / newBlockEndorsement / addBlockEndorsementLocked / newBlockCommitment), endorseDone, commitDone,
getCommitConsensus and addSignaturesToBlockLocked. Every function that ranges over the Go map `EndorseSigs` takes
the iteration order of its keys as the argument `order`; the theorems hold for every duplicate-free order. The
commit threshold is the generated definition `Poly.Generated.Thresholds.vbft_getCommitConsensus0`.
-/
namespace Poly.Props.C41
open Poly.Model.VBFTCount Poly.Proofs.VBFTCount

/-- Over every sequence of proposal, endorsement and commit messages (repeats, equivocation, empty votes included)
    the records stay well formed: one record list per endorser, in it at most one non-empty entry per endorsed
    proposer and at most one empty entry; one commit message per committer; one proposal per proposer. Hence a
    participant contributes at most 1 to any proposer's count and at most 1 to the empty count. -/
theorem repeat_or_conflict_counts_once (msgs : List Msg) :
    let c := runMsgs msgs
    ((c.esigs.map (·.1)).Nodup ∧
      ∀ x ∈ c.esigs, (∀ p, (x.2.filter fun s => !s.forEmpty && s.proposer == p).length ≤ 1) ∧
        (x.2.filter (·.forEmpty)).length ≤ 1) ∧
    (c.commitMsgs.map (·.committer)).Nodup ∧ (c.proposals.map (·.proposer)).Nodup := by
  intro c
  have h := runMsgs_good msgs
  exact ⟨h.recs, h.committers, h.proposers⟩

/-- endorseDone, any history, any map order: an answer for proposer p (non-empty) exhibits more than C pairwise
    different endorsers each holding a non-empty entry for p; an answer "for empty" exhibits more than C pairwise
    different endorsers each holding an empty entry. -/
theorem endorsed_needs_gt_C_distinct (msgs : List Msg) (order : List Nat) (ho : order.Nodup) (C p : Nat) (fe : Bool)
    (h : endorseDone (runMsgs msgs) order C = some (p, fe)) :
    ∃ S : List Nat, S.Nodup ∧ C < S.length ∧
      ∀ e ∈ S, ∃ l, lookup (runMsgs msgs).esigs e = some l ∧
        ∃ s ∈ l, (if fe then s.forEmpty = true else (s.forEmpty = false ∧ s.proposer = p)) := by
  have hg := (runMsgs_good msgs).recs
  cases fe with
  | false =>
    obtain ⟨S, ⟨hn, hs⟩, hl⟩ := endorseDone_nonempty _ hg order ho C p h
    refine ⟨S, hn, hl, ?_⟩
    intro e he
    obtain ⟨l, hlk, s, hsl, hf⟩ := hs e he
    simp only [Bool.and_eq_true, Bool.not_eq_true', beq_iff_eq] at hf
    exact ⟨l, hlk, s, hsl, by simpa using hf⟩
  | true =>
    obtain ⟨S, ⟨hn, hs⟩, hl⟩ := endorseDone_empty _ hg order ho C p h
    refine ⟨S, hn, hl, ?_⟩
    intro e he
    obtain ⟨l, hlk, s, hsl, hf⟩ := hs e he
    exact ⟨l, hlk, s, hsl, by simpa using hf⟩

/-- getCommitConsensus: a decision for proposer p exhibits pairwise different participants, each the committer or a
    named endorser of a commit message for p, whose number + 1 reaches N - (N-1)/3 — the threshold being the
    expression extracted from node_utils.go (`vbft_getCommitConsensus0`). -/
theorem commit_messages_need_quorum_distinct (cms : List CommitMsg) (C N p : Nat) (e : Bool)
    (h : getCommitConsensus cms C N = some (p, e)) :
    ∃ S : List Nat, S.Nodup ∧
      (∀ x ∈ S, ∃ m ∈ cms, m.proposer = p ∧ (x = m.committer ∨ x ∈ m.endorsersSig.map (·.1))) ∧
      N - (N - 1) / 3 ≤ S.length + 1 ∧
      Poly.Generated.Thresholds.vbft_getCommitConsensus0 (S.length : Int) (N : Int) = true := by
  obtain ⟨S, h1, h2, h3⟩ := getCommitConsensus_spec cms C N p e h
  refine ⟨S, h1, ?_, h3, (thr_unfold _ N).mpr h3⟩
  intro x hx
  obtain ⟨m, hm, hp, hs⟩ := h2 x hx
  refine ⟨m, hm, hp, ?_⟩
  simpa [signersOf] using hs

/-- commitDone, any history, any map order, any endorser predicate, C < N < 2^32: a decision for proposer p rests
    either on the commit-message quorum above or on more than N-1-C pairwise different endorsers each holding a
    non-empty entry for p. -/
theorem committed_needs_quorum_distinct (msgs : List Msg) (order : List Nat) (ho : order.Nodup)
    (isEndorser : Nat → Bool) (C N p : Nat) (e : Bool) (hCN : C + 1 ≤ N) (hN : N < 4294967296)
    (h : commitDone (runMsgs msgs) order isEndorser C N = some (p, e)) :
    (∃ S : List Nat, S.Nodup ∧
      (∀ x ∈ S, ∃ m ∈ (runMsgs msgs).commitMsgs, m.proposer = p ∧ (x = m.committer ∨ x ∈ m.endorsersSig.map (·.1))) ∧
      N - (N - 1) / 3 ≤ S.length + 1) ∨
    (∃ S : List Nat, S.Nodup ∧ N - 1 - C < S.length ∧
      ∀ x ∈ S, ∃ l, lookup (runMsgs msgs).esigs x = some l ∧ ∃ s ∈ l, s.forEmpty = false ∧ s.proposer = p) := by
  rcases commitDone_spec _ (runMsgs_good msgs).recs order ho isEndorser C N p e hCN hN h with ⟨S, h1, h2, h3⟩ | ⟨S, ⟨hn, hs⟩, hl⟩
  · left
    refine ⟨S, h1, ?_, h3⟩
    intro x hx
    obtain ⟨m, hm, hp, hsx⟩ := h2 x hx
    exact ⟨m, hm, hp, by simpa [signersOf] using hsx⟩
  · right
    refine ⟨S, hn, hl, ?_⟩
    intro x hx
    obtain ⟨l, hlk, s, hsl, hf⟩ := hs x hx
    simp only [Bool.and_eq_true, Bool.not_eq_true', beq_iff_eq] at hf
    exact ⟨l, hlk, s, hsl, hf⟩

/-- The signatures put into a sealed header, any records, any map order: the proposer's own signature first; the
    participants are pairwise different; every further one is an endorser other than the proposer with a key in the
    peer pool, and the signature is that of one of its entries endorsing exactly this proposer with this empty flag. -/
theorem sealed_one_sig_per_participant (m : ESigs) (order : List Nat) (ho : order.Nodup) (hasKey : Nat → Bool)
    (proposer : Nat) (proposerSig : Bytes) (forEmpty : Bool) :
    let sigs := sealSignatures m order hasKey proposer proposerSig forEmpty
    (sigs.map (·.1)).Nodup ∧ sigs.head? = some (proposer, proposerSig) ∧
      ∀ x ∈ sigs.tail, x.1 ≠ proposer ∧ hasKey x.1 = true ∧
        ∃ l, lookup m x.1 = some l ∧ ∃ s ∈ l, s.proposer = proposer ∧ s.forEmpty = forEmpty ∧ s.sig = x.2 := by
  intro sigs
  obtain ⟨h1, h2, h3⟩ := sealSignatures_spec m order ho hasKey proposer proposerSig forEmpty
  refine ⟨h1, h2, ?_⟩
  intro x hx
  obtain ⟨a, _, c, d⟩ := h3 x hx
  exact ⟨a, c, d⟩

/-- Whether a round counts as endorsed / committed does not depend on the iteration order of the Go map (only which
    of several simultaneously qualifying proposers is reported can): for any two orders of the same keys the
    verdicts "done" of endorseDone and of commitDone agree. -/
theorem decision_independent_of_map_order (c : Cand) (o₁ o₂ : List Nat) (h : o₁.Perm o₂) (isEndorser : Nat → Bool)
    (C N : Nat) :
    (endorseDone c o₁ C).isSome = (endorseDone c o₂ C).isSome ∧
    (commitDone c o₁ isEndorser C N).isSome = (commitDone c o₂ isEndorser C N).isSome :=
  ⟨endorseDone_isSome_perm c o₁ o₂ h C, commitDone_isSome_perm c o₁ o₂ h isEndorser C N⟩

/-- Duplicate detection of newBlockProposal and newBlockCommitment after any history: a further proposal of a recorded
    proposer (commit of a recorded committer) never changes the records; it is answered `ok` when it repeats the
    recorded signature (block hash) and `dup` (errDupProposal / errDupCommit) when it conflicts with it. -/
theorem duplicate_messages_detected (msgs : List Msg) :
    let c := runMsgs msgs
    (∀ (p q : Proposal), q ∈ c.proposals → q.proposer = p.proposer →
      newBlockProposal c p = (c, if q.sig = p.sig then .ok else .dup)) ∧
    (∀ (m q : CommitMsg), q ∈ c.commitMsgs → q.committer = m.committer →
      newBlockCommitment c m = (c, if q.hash = m.hash then .ok else .dup)) := by
  intro c
  have h := runMsgs_good msgs
  exact ⟨fun p q hq hqp => newBlockProposal_dup c h.proposers p q hq hqp,
    fun m q hq hqm => newBlockCommitment_dup c h.committers m q hq hqm⟩

/-! ## Non-vacuity (tests by evaluation): N = 4, C = 1 -/

private def hist : List Msg :=
  [.proposal ⟨0, [1]⟩, .endorse 1 ⟨0, [2], false⟩, .endorse 1 ⟨0, [3], false⟩, .endorse 2 ⟨0, [4], false⟩,
   .commit ⟨1, 0, [9], false, [(2, [4]), (0, [1])], [5]⟩, .commit ⟨2, 0, [9], false, [], [6]⟩]

/-- the repeated endorsement of participant 1 is recorded once; three distinct endorsers reach C + 1 = 2 -/
example : (runMsgs hist).esigs.map (fun x => (x.1, x.2.length)) = [(0, 1), (1, 1), (2, 1)] ∧
    endorseDone (runMsgs hist) [0, 1, 2] 1 = some (0, false) ∧
    endorseDone (runMsgs hist) [2, 1, 0] 1 = some (0, false) := by decide

/-- two commit messages naming {1, 2, 0} give 3 + 1 >= 4 - 1: decided; one message from a single signer does not -/
example : getCommitConsensus (runMsgs hist).commitMsgs 1 4 = some (0, false) ∧
    getCommitConsensus [⟨2, 0, [9], false, [], [6]⟩] 1 4 = none ∧
    commitDone (runMsgs hist) [0, 1, 2] (fun _ => true) 1 4 = some (0, false) := by decide

end Poly.Props.C41
