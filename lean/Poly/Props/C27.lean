import Poly.Proofs.PoW
import Poly.Proofs.PoWBtc
import Poly.Proofs.BtcRetarget
/-!
# C27 — PoW light client keeps the heaviest valid chain

Model: `Poly.Model.PoW` (`syncHeader` = one header of `ETHHandler.SyncBlockHeader`, `restructChain` = `RestructChain`
as written, `syncCall` = one contract call, all-or-nothing). Header validity (difficulty rule, gas rules, seal: C28) is
an arbitrary predicate `valid header parent`; the header hash is a field. All theorems hold for every trust root `g`,
every validity predicate and every history `calls` of submitted header lists — arbitrary header trees, any order,
duplicates, orphans, invalid headers, forks at lower and higher heights.
-/
namespace Poly.Props.C27
open Poly.Model.PoW Poly.Proofs.PoW

variable {H R : Type} [DecidableEq H]

/-- Every stored header other than the trust root has its parent stored, a height one above its parent's and a total
difficulty equal to its parent's plus its own; and it passed the validity predicate against that parent. -/
theorem stored_inv (valid : Hdr H R → Hdr H R → Bool) (g : Hdr H R) (calls : List (List (Hdr H R)))
    (k : H) (e : Entry H R) (hk : (run valid g calls).index k = some e) (hne : k ≠ g.hash) :
    e.hdr.hash = k ∧
    ∃ pe, (run valid g calls).index e.hdr.parent = some pe ∧ e.hdr.number = pe.hdr.number + 1 ∧
      e.td = pe.td + e.hdr.difficulty ∧ valid e.hdr pe.hdr = true := by
  have inv := (run_inv valid g calls).1
  obtain ⟨pe, h1, h2, h3⟩ := inv.par k e hk hne
  obtain ⟨pe', h4, h5⟩ := run_allValid valid g calls k e hk hne
  rw [h1] at h4
  have : pe = pe' := Option.some.inj h4
  subst this
  exact ⟨inv.key k e hk, pe, h1, h2, h3, h5⟩

/-- The trust root stays stored with its own difficulty as total difficulty, and no other stored header is at or
below its height. -/
theorem trust_root_kept (valid : Hdr H R → Hdr H R → Bool) (g : Hdr H R) (calls : List (List (Hdr H R))) :
    (∃ e, (run valid g calls).index g.hash = some e ∧ e.hdr.number = g.number ∧ e.td = g.difficulty) ∧
    ∀ k e, (run valid g calls).index k = some e → g.number ≤ e.hdr.number ∧ (e.hdr.number = g.number → k = g.hash) :=
  ⟨(run_inv valid g calls).1.gen, (run_inv valid g calls).1.low⟩

/-- The canonical index is a gap-free, parent-linked chain of stored headers from the trust root to the head:
every height from the root's to the current one holds the hash of a stored header of that height, the root's height
holds the root, the header at height `n + 1` has the one at height `n` as parent, and nothing is indexed below the root. -/
theorem main_inv (valid : Hdr H R → Hdr H R → Bool) (g : Hdr H R) (calls : List (List (Hdr H R))) :
    let s := run valid g calls
    g.number ≤ s.cur ∧ s.main g.number = some g.hash ∧
    (∀ n, g.number ≤ n → n ≤ s.cur → ∃ e, s.main n = some e.hdr.hash ∧ s.index e.hdr.hash = some e ∧ e.hdr.number = n) ∧
    (∀ n k e, g.number ≤ n → n + 1 ≤ s.cur → s.main (n + 1) = some k → s.index k = some e → s.main n = some e.hdr.parent) ∧
    (∀ n, n < g.number → s.main n = none) := by
  have inv := (run_inv valid g calls).1
  exact ⟨inv.cur_ge, inv.main_g, inv.main_ok, inv.main_link, inv.main_low⟩

/-- The head (the header the index names at the current height) exists and its total difficulty is maximal among all
stored headers. -/
theorem head_heaviest (valid : Hdr H R → Hdr H R → Bool) (g : Hdr H R) (calls : List (List (Hdr H R))) :
    ∃ head, currentHeader (run valid g calls) = some head ∧
      ∀ k e, (run valid g calls).index k = some e → e.td ≤ head.td :=
  (run_inv valid g calls).2

/-- Re-submitting a known header changes nothing — as a single header and as a whole call. -/
theorem resubmit_noop (valid : Hdr H R → Hdr H R → Bool) (s : Store H R) (h : Hdr H R) (e : Entry H R)
    (hk : s.index h.hash = some e) :
    syncHeader valid s h = (s, .known) ∧ syncCall valid s [h] = (s, [.known]) := by
  have h1 : syncHeader valid s h = (s, .known) := by simp [syncHeader, hk]
  refine ⟨h1, ?_⟩
  simp [syncCall, syncCall.go, h1, Outcome.failed]

/-- A header that was stored by a call is known afterwards (so a second submission is the no-op above). -/
theorem stored_after_accept (valid : Hdr H R → Hdr H R → Bool) (s : Store H R) (h : Hdr H R)
    (ho : (syncHeader valid s h).2 = .appended ∨ (syncHeader valid s h).2 = .reorged ∨ (syncHeader valid s h).2 = .side) :
    ∃ e, (syncHeader valid s h).1.index h.hash = some e ∧ e.hdr.hash = h.hash := by
  rcases syncHeader_index valid s h with hi | ⟨pe, _, _, _, _, h5⟩
  · -- the index did not change: only possible for the outcomes known / failures
    exfalso
    unfold syncHeader at ho hi
    cases hk : s.index h.hash with
    | some _ => simp [hk] at ho
    | none =>
      cases hp : s.index h.parent with
      | none => simp [hk, hp] at ho
      | some pe =>
        simp only [hk, hp] at ho hi
        by_cases hnum : h.number ≠ pe.hdr.number + 1
        · simp [hnum] at ho
        · cases hv : valid h pe.hdr with
          | false => simp [hnum, hv] at ho
          | true =>
            simp only [hnum, hv, if_false, Bool.not_true, Bool.false_eq_true] at ho hi
            cases hc : currentHeader (setIndex s h.hash ⟨h, pe.td + h.difficulty⟩) with
            | none => simp [hc] at ho
            | some ce =>
              simp only [hc] at hi
              have hidx : (setIndex s h.hash ⟨h, pe.td + h.difficulty⟩).index = s.index := by
                rw [← hi]
                split
                · rfl
                · split
                  · exact (restruct_index _ _ _).symm
                  · rfl
              have := congrFun hidx h.hash
              rw [setIndex_index_eq, hk] at this
              cases this
  · rw [h5, setIndex_index_eq]; exact ⟨_, rfl, rfl⟩

/-- `RestructChain` terminates (structural recursion in the model) and, on every consistent store, never takes one of
its error exits: with `new` stored above the trust root, the result has `new` as head at its own height, an untouched
header index, and the structural invariant. -/
theorem restruct_total {g : Hdr H R} {s : Store H R} (inv : Inv0 g s) (head : Entry H R)
    (hcur : currentHeader s = some head) (new : Hdr H R) (hst : StoredHdr s new) (hgt : g.number < new.number) :
    Inv0 g (restructChain s head.hdr new) ∧ (restructChain s head.hdr new).index = s.index ∧
      (restructChain s head.hdr new).cur = new.number ∧ (restructChain s head.hdr new).main new.number = some new.hash :=
  restruct_spec inv head hcur new hst hgt

/-- A failed header leaves the store as it was at the start of the call (all-or-nothing). -/
theorem failed_call_noop (valid : Hdr H R → Hdr H R → Bool) (s : Store H R) (hs : List (Hdr H R))
    (hf : ∃ o, o ∈ (syncCall valid s hs).2 ∧ o.failed = true) : (syncCall valid s hs).1 = s := by
  obtain ⟨o, ho, hfo⟩ := hf
  have key : ∀ (hs : List (Hdr H R)) (cur : Store H R) (outs : List Outcome), (∀ x ∈ outs, x.failed = false) →
      (∃ o, o ∈ (syncCall.go valid s cur outs hs).2 ∧ o.failed = true) → (syncCall.go valid s cur outs hs).1 = s := by
    intro hs
    induction hs with
    | nil =>
      intro cur outs hall ⟨o, ho, hfo⟩
      simp only [syncCall.go, List.mem_reverse] at ho
      rw [hall o ho] at hfo; cases hfo
    | cons h rest ih =>
      intro cur outs hall hex
      simp only [syncCall.go] at hex ⊢
      split
      · rfl
      · rename_i hnf
        rw [if_neg hnf] at hex
        apply ih _ _ _ hex
        intro x hx
        simp only [List.mem_cons] at hx
        rcases hx with rfl | hx
        · simpa using hnf
        · exact hall x hx
  exact key hs s [] (by intro x hx; cases hx) ⟨o, ho, hfo⟩

/-! ## Non-vacuity: a concrete fork with a reorganisation to a lower height -/

private def mk (hash parent number difficulty : Nat) : Hdr Nat Unit := ⟨hash, parent, number, difficulty, ()⟩

/-- Trust root 0 at height 10; chain 1-2-3 (difficulty 5 each), then the fork 4 (child of 1, difficulty 20) takes over
at the lower height 12: current height 12, main chain 0-1-4, the stale entry at height 13 is still there but above the
head; resubmitting 3 is a no-op; then 5 (child of 3, difficulty 30) reorganises back: 0-1-2-3-5. -/
example :
    let s := run (fun _ _ => true) (mk 0 99 10 7) [[mk 1 0 11 5, mk 2 1 12 5], [mk 3 2 13 5], [mk 4 1 12 20], [mk 3 2 13 5]]
    s.cur = 12 ∧ s.main 12 = some 4 ∧ s.main 11 = some 1 ∧ s.main 13 = some 3 ∧
      (currentHeader s).map (·.td) = some 32 ∧ ((s.index 3).map (·.td)) = some 22 := by decide

example :
    let s := run (fun _ _ => true) (mk 0 99 10 7)
      [[mk 1 0 11 5, mk 2 1 12 5], [mk 3 2 13 5], [mk 4 1 12 20], [mk 5 3 14 30], [mk 6 9 15 1], [mk 7 4 14 1]]
    s.cur = 14 ∧ s.main 12 = some 2 ∧ s.main 13 = some 3 ∧ s.main 14 = some 5 ∧
      (currentHeader s).map (·.td) = some 52 ∧ (s.index 6).isNone ∧ (s.index 7).isNone := by decide

/-! ## Second instance: the Bitcoin light client (`header_sync/btc`) -/

end Poly.Props.C27

namespace Poly.Props.C27
open Poly.Model.PoWBtc Poly.Proofs.PoWBtc

variable {H R : Type} [DecidableEq H]

/-- Bitcoin variant, for every trust root (at any height), every `CheckHeader` verdict function and every history of
calls: every stored header other than the trust root has its parent stored, a height one above and a total work equal
to its parent's plus its own. -/
theorem btc_stored_inv (check : Hdr H R → Stored H R → Check) (g : Hdr H R) (gh : Nat) (calls : List (List (Hdr H R)))
    (k : H) (e : Stored H R) (hk : (run check g gh calls).headers k = some e) (hne : k ≠ g.hash) :
    e.hdr.hash = k ∧ ∃ pe, (run check g gh calls).headers e.hdr.prev = some pe ∧ e.height = pe.height + 1 ∧
      e.total = pe.total + e.hdr.work := by
  obtain ⟨b, inv, _⟩ := run_inv check g gh calls
  exact ⟨inv.key k e hk, inv.par k e hk hne⟩

/-- The height index is a gap-free, parent-linked chain of stored headers from the trust root to the best header; it
names the best header at the best height and has no entry below the trust root or above the best height (the entries
above a lower new tip are deleted). The best record is one of the stored headers. -/
theorem btc_index_inv (check : Hdr H R → Stored H R → Check) (g : Hdr H R) (gh : Nat) (calls : List (List (Hdr H R))) :
    let s := run check g gh calls
    ∃ b, s.best = some b ∧ s.headers b.hdr.hash = some b ∧ s.index gh = some g.hash ∧ s.index b.height = some b.hdr.hash ∧
      (∀ n, gh ≤ n → n ≤ b.height → ∃ e, s.index n = some e.hdr.hash ∧ s.headers e.hdr.hash = some e ∧ e.height = n) ∧
      (∀ n k e, gh ≤ n → n + 1 ≤ b.height → s.index (n + 1) = some k → s.headers k = some e → s.index n = some e.hdr.prev) ∧
      (∀ n, (n < gh ∨ b.height < n) → s.index n = none) := by
  obtain ⟨b, inv, _⟩ := run_inv check g gh calls
  exact ⟨b, inv.isBest, inv.bestStored, inv.idx_g, inv.idx_top, inv.idx_ok, inv.idx_link, inv.idx_out⟩

/-- The best header's total work is maximal among the stored headers. -/
theorem btc_best_heaviest (check : Hdr H R → Stored H R → Check) (g : Hdr H R) (gh : Nat) (calls : List (List (Hdr H R))) :
    ∃ b, (run check g gh calls).best = some b ∧ ∀ k e, (run check g gh calls).headers k = some e → e.total ≤ b.total := by
  obtain ⟨b, inv, hv⟩ := run_inv check g gh calls
  exact ⟨b, inv.isBest, hv⟩

/-- Re-submitting a known header changes nothing. -/
theorem btc_resubmit_noop (check : Hdr H R → Stored H R → Check) (s : Store H R) (h : Hdr H R) (e : Stored H R)
    (hk : s.headers h.hash = some e) :
    syncHeader check s h = (s, .known) ∧ syncCall check s [h] = (s, [.known]) := by
  have h1 : syncHeader check s h = (s, .known) := by simp [syncHeader, hk]
  refine ⟨h1, ?_⟩
  simp [syncCall, syncCall.go, h1, Outcome.failed]

/-- `GetCommonAncestor` terminates (structural recursion on a fuel that the heights bound) and never fails on a
consistent store: for a new header whose parent is stored it returns the new branch, top-down from the new header to
the child of a header of the old best chain. -/
theorem btc_common_ancestor_total {g : Hdr H R} {gh : Nat} {s : Store H R} {b : Stored H R} (inv : Inv0 g gh s b)
    (h : Hdr H R) (p : Stored H R) (hnew : s.headers h.hash = none) (hpar : s.headers h.prev = some p) :
    ∃ (L : List H) (fork : Stored H R), commonAncestor s h (p.height + 1) b = some L ∧
      L.length + fork.height = p.height + 1 ∧ L[0]? = some h.hash ∧
      s.index fork.height = some fork.hdr.hash ∧ gh ≤ fork.height ∧ fork.height ≤ b.height := by
  obtain ⟨L, x', h1, h2, _, h4, _, _, h7, h8, h9⟩ := commonAncestor_spec inv h p hnew hpar
  exact ⟨L, x', h1, h2, h4, h7, h8, h9⟩

/-- The difficulty rule behind the Bitcoin client's `CheckHeader` at a retarget block: `calcDiffAdjust` (nanosecond
arithmetic on `time.Time`) computes Bitcoin Core's `CalculateNextWorkRequired` (seconds): the old target scaled by the
epoch's duration clamped to [T/4, 4T], divided by T = 1 209 600 s, capped at the proof-of-work limit, in compact form —
for all timestamps, compact targets and limits. -/
theorem btc_retarget_eq_spec (startSec endSec endBits : Nat) (powLimit : Int) :
    Poly.Model.BtcRetarget.calcDiffAdjust startSec endSec endBits powLimit =
      Poly.Model.BtcRetarget.bigToCompact
        (Poly.Model.BtcRetarget.specNextTarget (Poly.Model.BtcRetarget.compactToBig endBits) startSec endSec powLimit) :=
  Poly.Proofs.BtcRetarget.calcDiffAdjust_eq_spec startSec endSec endBits powLimit

private def mkb (hash prev work : Nat) : Hdr Nat Unit := ⟨hash, prev, work, ()⟩

/-- Trust root 0 at height 7; chain 1-2-3 (work 2 each); the shorter branch 4 (child of 1, work 9) becomes the best
chain at the LOWER height 9 and the index entry at height 10 is deleted; then 5 (child of 3, work 20) wins back. -/
example :
    let s := run (fun _ _ => Check.ok) (mkb 0 99 1) 7 [[mkb 1 0 2, mkb 2 1 2], [mkb 3 2 2], [mkb 4 1 9]]
    (s.best.map (·.height)) = some 9 ∧ s.index 9 = some 4 ∧ s.index 8 = some 1 ∧ s.index 10 = none ∧
      (s.best.map (·.total)) = some 11 := by decide

example :
    let s := run (fun _ _ => Check.ok) (mkb 0 99 1) 7 [[mkb 1 0 2, mkb 2 1 2], [mkb 3 2 2], [mkb 4 1 9], [mkb 5 3 20], [mkb 6 77 1]]
    (s.best.map (·.height)) = some 11 ∧ s.index 9 = some 2 ∧ s.index 10 = some 3 ∧ s.index 11 = some 5 ∧
      (s.best.map (·.total)) = some 26 ∧ (s.headers 6).isNone := by decide

end Poly.Props.C27
