import Poly.Proofs.KVScan
import Poly.Proofs.KVLive
import Poly.Proofs.KVFail
/-!
# C10 — Layered state views agree with their backing store

Model: `Poly.Model.KVLayers` — `Store` (LevelDB as an ordered map + atomic batch), `Overlay` (block layer:
`overlaydb.OverlayDB`), `CacheDB` (transaction layer: `native/storage.CacheDB`, keys prefixed ST_STORAGE = 0x05),
`Join` (`overlaydb.JoinIter`, the algorithm with its flags).  A read returns `[]` for "absent" (Go `nil`).
Statements hold for all store contents, all buffers reachable by any history (`MemDB.WF`), all keys and values.
-/
namespace Poly.Props.C10
open Poly.Model.KV

/-- A read through the block layer returns the newest layer's answer: the overlay buffer if it knows the key
(a tombstone reads as absent), otherwise the store, otherwise absent. -/
theorem overlay_get_newest (o : Overlay) (k : Key) :
    o.get k = match lookup k o.mem.ents with
      | some v => v
      | none => match lookup k o.store.data with | some v => v | none => [] := o.get_eq k

/-- A read through the transaction layer: cache buffer, then overlay buffer, then store — all under the
ST_STORAGE-prefixed key. -/
theorem cache_get_newest (c : CacheDB) (o : Overlay) (k : Key) :
    c.get o k = match lookup (stStorage :: k) c.mem.ents with
      | some v => v
      | none => match lookup (stStorage :: k) o.mem.ents with
        | some v => v
        | none => match lookup (stStorage :: k) o.store.data with | some v => v | none => [] := by
  rw [c.get_eq o k, o.get_eq]
  cases lookup (stStorage :: k) c.mem.ents with
  | some v => rfl
  | none =>
    cases lookup (stStorage :: k) o.mem.ents with
    | some v => rfl
    | none => cases lookup (stStorage :: k) o.store.data <;> rfl

/-- Writes are read back and deleted keys read as absent, at both layers, whatever the layers below hold. -/
theorem write_then_read (o : Overlay) (c : CacheDB) (k : Key) (v : Val) :
    (o.put k v).get k = v ∧ (o.delete k).get k = [] ∧
    (c.put k v).get o k = v ∧ (c.delete k).get o k = [] := by
  refine ⟨?_, ?_, ?_, ?_⟩
  · rw [Overlay.get_eq]; simp [Overlay.put, put_ents', lookup_insert_self]
  · rw [Overlay.get_eq]; simp [Overlay.delete, MemDB.delete, put_ents', lookup_insert_self]
  · rw [CacheDB.get_eq]; simp [CacheDB.put, put_ents', lookup_insert_self]
  · rw [CacheDB.get_eq]; simp [CacheDB.delete, MemDB.delete, put_ents', lookup_insert_self]

/-- A write to one key does not change what another key reads (either layer). -/
theorem write_other_key (o : Overlay) (c : CacheDB) (k k' : Key) (v : Val) (h : k ≠ k') :
    (o.put k v).get k' = o.get k' ∧ (c.put k v).get o k' = c.get o k' := by
  constructor
  · rw [Overlay.get_eq, Overlay.get_eq]; simp [Overlay.put, put_ents', lookup_insert_ne v _ h]
  · have h' : stStorage :: k ≠ stStorage :: k' := by simpa using h
    rw [CacheDB.get_eq, CacheDB.get_eq]; simp [CacheDB.put, put_ents', lookup_insert_ne v _ h']

/-- Committing the block layer (`NewBatch; CommitTo; BatchCommit`) applies exactly its changes to the store:
every buffered key gets its buffered value, buffered tombstones are deleted, all other keys are untouched;
the store stays an ordered map and the batch is consumed. -/
theorem overlay_commit_applies_exactly (o : Overlay) (hm : o.mem.WF) (hs : Sorted o.store.data) :
    ∃ o', o.commitAll = some o' ∧ o'.mem = o.mem ∧ o'.store.batch = none ∧ Sorted o'.store.data ∧
      ∀ k, lookup k o'.store.data =
        match lookup k o.mem.ents with
        | some [] => none
        | some (b :: v) => some (b :: v)
        | none => lookup k o.store.data := by
  refine ⟨_, o.commitAll_eq, rfl, rfl, foldl_apply_sorted _ hs, ?_⟩
  intro k
  exact lookup_commit_fold _ hm.sorted hs k

/-- After the commit, the store alone (a fresh overlay over it) shows exactly what the overlay showed. -/
theorem overlay_commit_preserves_view (o : Overlay) (hm : o.mem.WF) (hs : Sorted o.store.data) (k : Key) :
    ∃ o', o.commitAll = some o' ∧ o'.reset.get k = o.get k ∧ o'.get k = o.get k := by
  obtain ⟨o', h1, h2, _, _, h5⟩ := overlay_commit_applies_exactly o hm hs
  refine ⟨o', h1, ?_, ?_⟩
  · rw [Overlay.get_eq, Overlay.get_eq]
    simp only [Overlay.reset, MemDB.reset, lookup, h5 k]
    cases h : lookup k o.mem.ents with
    | none => rfl
    | some v => cases v <;> rfl
  · rw [Overlay.get_eq, Overlay.get_eq, h2, h5 k]
    cases h : lookup k o.mem.ents with
    | none => rfl
    | some v => cases v <;> rfl

/-- `CommitTo` without `NewBatch` dereferences a nil batch as soon as there is one entry to write. -/
theorem overlay_commit_needs_batch (o : Overlay) (hb : o.store.batch = none) (hne : o.mem.ents ≠ []) :
    o.commitTo = none := by
  unfold Overlay.commitTo
  cases h : o.mem.ents with
  | nil => exact absurd h hne
  | cons e r => rw [foldlM_batchAdd_none _ hb]; rfl

/-- Committing the transaction layer applies exactly its changes to the block layer's buffer (tombstones
stay tombstones), never touches the store, and keeps the buffer well formed. -/
theorem cache_commit_applies_exactly (c : CacheDB) (o : Overlay) (hc : c.mem.WF) (ho : o.mem.WF) :
    (c.commit o).store = o.store ∧ (c.commit o).mem.WF ∧
    ∀ k, lookup k (c.commit o).mem.ents =
      match lookup k c.mem.ents with
      | some v => some v
      | none => lookup k o.mem.ents := by
  rw [cache_commit_eq]
  refine ⟨foldl_put_store _ _, foldl_put_wf _ _ ho, ?_⟩
  intro k
  rw [foldl_put_ents, lookup_applyOps, lastWrite_sorted hc.sorted]
  cases lookup k c.mem.ents <;> rfl

/-- After `Commit`, the block layer reads what the transaction layer read (for contract keys), and a reset
transaction layer over it reads the same. -/
theorem cache_commit_preserves_view (c : CacheDB) (o : Overlay) (hc : c.mem.WF) (ho : o.mem.WF) (k : Key) :
    (c.commit o).get (stStorage :: k) = c.get o k ∧ c.reset.get (c.commit o) k = c.get o k := by
  obtain ⟨h1, _, h3⟩ := cache_commit_applies_exactly c o hc ho
  have : (c.commit o).get (stStorage :: k) = c.get o k := by
    rw [CacheDB.get_eq, Overlay.get_eq, Overlay.get_eq, h1, h3]
    cases lookup (stStorage :: k) c.mem.ents <;> rfl
  refine ⟨this, ?_⟩
  rw [CacheDB.get_eq]; simpa [CacheDB.reset, MemDB.reset, lookup] using this

/-- Resetting a layer discards exactly its changes: reads fall through to the layer below. -/
theorem reset_discards (c : CacheDB) (o : Overlay) (k : Key) :
    o.reset.get k = (match lookup k o.store.data with | some v => v | none => []) ∧
    o.reset.store = o.store ∧
    c.reset.get o k = o.get (stStorage :: k) := by
  refine ⟨?_, rfl, ?_⟩
  · rw [Overlay.get_eq]; simp only [Overlay.reset, MemDB.reset, lookup]
    cases lookup k o.store.data <;> rfl
  · rw [CacheDB.get_eq]; simp [CacheDB.reset, MemDB.reset, lookup]

/-! ### Prefix scans: the join iterator -/

/-- The specification stream `merge newer older` is sorted and answers point reads like "newest layer that knows
the key" — so `liveMerge` (its entries with a non-empty value) is exactly "visible live keys, newest value,
byte order". -/
theorem merge_is_newest_wins (a b : Entries) (ha : Sorted a) (hb : Sorted b) (k : Key) :
    Sorted (merge a b) ∧
    lookup k (merge a b) = (match lookup k a with | some v => some v | none => lookup k b) :=
  ⟨merge_sorted ha hb, lookup_merge ha hb k⟩

/-- **joinIter_eq_merge.** `JoinIter` over any two iterators that behave as cursors over sorted streams `la`
(newer) and `lb` (older): `First` then `Next` until false yields exactly `liveMerge la lb` — keys of either
side, the newer value on equal keys, entries with an empty value (tombstones) dropped, ascending byte order.
Proved by induction over the run with the algorithm's control state (`keyOrigin`, `nextMemEnd`, `nextBackEnd`,
including the never-set-flag states that produce a nil key which the skip loop discards) as invariant; `N` is
the fuel of the skip loops, `n` the collection bound. -/
theorem joinIter_eq_merge {α β : Type} (A : Ops α) (B : Ops β) (RA : α → Entries → Prop) (RB : β → Entries → Prop)
    (hA : IsCursor A RA) (hB : IsCursor B RB) (a₀ : α) (b₀ : β) (la lb : Entries)
    (sa : Starts A RA a₀ la) (sb : Starts B RB b₀ lb) (N n : Nat) (hN : la.length + lb.length + 2 ≤ N)
    (hn : la.length + lb.length ≤ n) :
    collect (Join.ops A B N) n { mem := a₀, back := b₀ } = liveMerge la lb :=
  collect_cursor (join_isCursor hA hB N (by omega)) n _ _ (join_starts hA hB N a₀ b₀ la lb sa sb hN)
    (Nat.le_trans (length_liveMerge_le la lb) hn)

/-- …and the join is again such a cursor, so joins nest (CacheDB's iterator joins its buffer with the
overlay's JoinIter). -/
theorem joinIter_is_cursor {α β : Type} (A : Ops α) (B : Ops β) (RA : α → Entries → Prop) (RB : β → Entries → Prop)
    (hA : IsCursor A RA) (hB : IsCursor B RB) (N : Nat) (hN : 2 ≤ N) :
    IsCursor (Join.ops A B N) (JoinR RA RB N) := join_isCursor hA hB N hN

/-- The memdb / LevelDB range iterator over fixed sorted contents is such a cursor over the in-range entries. -/
theorem range_iter_is_cursor (m : Entries) (hs : Sorted m) (s : Option Range) :
    IsCursor (iterOps m) (FwdAt m) ∧ Starts (iterOps m) (FwdAt m) (Iter.new s) (m.filter fun e => inSlice s e.1) :=
  ⟨iterOps_isCursor hs, iterOps_starts s hs⟩

/-- `OverlayDB.NewIterator(prefix)` scanned to the end = live merge of the buffer entries and the store entries
under the prefix. -/
theorem overlay_scan_eq_merge (o : Overlay) (hm : o.mem.WF) (hs : Sorted o.store.data) (pfx : Key) :
    o.scan pfx = liveMerge (under pfx o.mem.ents) (under pfx o.store.data) :=
  overlay_scan_eq o hm.sorted hs pfx

/-- A prefix scan of the block layer yields exactly the visible live keys under the prefix, in byte order,
with their newest values: `(k, v)` is yielded iff `k` has the prefix and `v` is the non-empty value `Get(k)`
returns. (No hypothesis on empty keys is needed.) -/
theorem overlay_scan_visible_live (o : Overlay) (hm : o.mem.WF) (hs : Sorted o.store.data) (pfx : Key) :
    Sorted (o.scan pfx) ∧ ∀ k v, (k, v) ∈ o.scan pfx ↔ pfx <+: k ∧ v = o.get k ∧ v ≠ [] := by
  have hsorted : Sorted (o.scan pfx) := by
    rw [overlay_scan_eq o hm.sorted hs]; exact liveMerge_sorted (under_sorted hm.sorted) (under_sorted hs)
  refine ⟨hsorted, fun k v => ?_⟩
  rw [← lookup_eq_some_iff hsorted, overlay_scan_lookup o hm.sorted hs]
  constructor
  · intro h
    split at h
    · rename_i hc; simp only [Option.some.injEq] at h; exact ⟨hc.1, h.symm, h ▸ hc.2⟩
    · cases h
  · rintro ⟨h1, h2, h3⟩
    rw [if_pos ⟨h1, h2 ▸ h3⟩, h2]

/-- `CacheDB.NewIterator(key)` scanned to the end: the nested join equals the nested live merge under the
ST_STORAGE-prefixed key, and `Iter.Key()` strips exactly that one prefix byte. -/
theorem cache_scan_eq_merge (c : CacheDB) (o : Overlay) (hc : c.mem.WF) (hm : o.mem.WF) (hs : Sorted o.store.data)
    (key : Key) :
    c.scan o key =
      (liveMerge (under (stStorage :: key) c.mem.ents)
        (liveMerge (under (stStorage :: key) o.mem.ents) (under (stStorage :: key) o.store.data))).map
        (fun e => (stripKey e.1, e.2)) ∧
    ∀ e ∈ liveMerge (under (stStorage :: key) c.mem.ents)
        (liveMerge (under (stStorage :: key) o.mem.ents) (under (stStorage :: key) o.store.data)),
      ∃ k, e.1 = stStorage :: k ∧ key <+: k :=
  ⟨cache_scan_eq c o hc.sorted hm.sorted hs key, fun _ he => cacheRaw_prefix c o key he⟩

/-- A prefix scan of the transaction layer yields exactly the visible live contract keys under the prefix, in
byte order, with their newest values. -/
theorem cache_scan_visible_live (c : CacheDB) (o : Overlay) (hc : c.mem.WF) (hm : o.mem.WF) (hs : Sorted o.store.data)
    (key : Key) :
    Sorted (c.scan o key) ∧ ∀ k v, (k, v) ∈ c.scan o key ↔ key <+: k ∧ v = c.get o k ∧ v ≠ [] :=
  ⟨cache_scan_sorted c o hc.sorted hm.sorted hs key, fun k v => cache_scan_mem c o hc.sorted hm.sorted hs key k v⟩

/-! ### Iterators that stay open while the buffer is written

`MemDB.NewIterator` is documented as safe to use concurrently with modification, without snapshot guarantees, and
the OverlayDB / CacheDB iterators inherit that for their buffer side, while their store side is a goleveldb
snapshot taken at `NewIterator`.  What the code does then: -/

/-- `Next` of a positioned memdb iterator over whatever the buffer holds *now* moves to the first entry whose key
is greater than the key it stood on — if that entry is below the limit — and reads that entry's current value; an
exhausted forward iterator stays exhausted whatever is written later. (Keys written at or behind the position are
never seen; the value cached for the current position is the one read when the iterator moved onto it.) -/
theorem live_iterator_next (it : Iter) (m' : Entries) (hr : it.released = false) :
    (∀ e, it.cur = some e →
      (it.next m').1.cur = (match succ e.1 m' with
        | some x => if belowLimit (limitOf it.slice) x then some x else none
        | none => none) ∧
      (∀ x, (it.next m').1.cur = some x → ltB e.1 x.1 = true ∧ x ∈ m')) ∧
    (it.cur = none → it.forward = true → it.next m' = (it, false)) := by
  refine ⟨fun e hc => ?_, fun hc hf => next_live_none it m' hc hf hr⟩
  have h := (next_live it m' e hc hr).1
  refine ⟨h, fun x hx => ?_⟩
  rw [h] at hx
  cases hs : succ e.1 m' with
  | none => rw [hs] at hx; cases hx
  | some y =>
    rw [hs] at hx
    by_cases hb : belowLimit (limitOf it.slice) y = true
    · simp only [hb, if_true, Option.some.injEq] at hx; subst hx; exact succ_gt hs
    · simp [hb] at hx

/-- **Live join, one step.** For a JoinIter whose buffer side reads the live buffer and whose other side is any
cursor over a fixed sorted stream (the store snapshot): if the state satisfies the between-calls invariant with the
last yielded key `b`, then whatever the buffer holds now, a `Next` that returns true yields a key strictly greater
than `b` with a non-empty value, and the invariant holds again with the new key. `First` establishes it. -/
theorem live_join_step {β : Type} (B : Ops β) (RB : β → Entries → Prop) (hB : IsCursor B RB) (m' : Entries) (N : Nat)
    (b : Key) (j : Join Iter β) (h : LiveInv RB (some b) j) (ht : (Join.Next (iterOps m') B N j).2 = true) :
    ltB b (Join.Next (iterOps m') B N j).1.key = true ∧
    LiveInv RB (some (Join.Next (iterOps m') B N j).1.key) (Join.Next (iterOps m') B N j).1 ∧
    (Join.Next (iterOps m') B N j).1.value ≠ [] := live_Next hB m' N h ht

theorem live_join_first {β : Type} (B : Ops β) (RB : β → Entries → Prop) (hB : IsCursor B RB) (m : Entries) (N : Nat)
    (s : Option Range) (b₀ : β) (lb : Entries) (sb : Starts B RB b₀ lb)
    (ht : (Join.First (iterOps m) B N ({ mem := Iter.new s, back := b₀ } : Join Iter β)).2 = true) :
    LiveInv RB (some (Join.First (iterOps m) B N ({ mem := Iter.new s, back := b₀ } : Join Iter β)).1.key)
      (Join.First (iterOps m) B N ({ mem := Iter.new s, back := b₀ } : Join Iter β)).1 ∧
    (Join.First (iterOps m) B N ({ mem := Iter.new s, back := b₀ } : Join Iter β)).1.value ≠ [] :=
  live_First hB m N s b₀ lb sb ht

/-- **The join never goes back.** Over any sequence of buffers seen by successive `Next` calls (arbitrary writes in
between, of any kind), the yielded keys are strictly increasing and all above the last key yielded before. -/
theorem live_join_monotone {β : Type} (B : Ops β) (RB : β → Entries → Prop) (hB : IsCursor B RB) (N : Nat)
    (ms : List Entries) (b : Key) (j : Join Iter β) (h : LiveInv RB (some b) j) :
    (∀ k ∈ liveRun B N ms j, ltB b k = true) ∧ (liveRun B N ms j).Pairwise (fun a c => ltB a c = true) :=
  liveRun_increasing hB N ms h

/-- Instance for `OverlayDB.NewIterator`: live overlay buffer over a sorted store snapshot. -/
theorem overlay_live_iterator (snap : Entries) (hs : Sorted snap) (pfx : Key) (m₀ : Entries) (N : Nat)
    (ht : (Join.First (iterOps m₀) (iterOps snap) N (Overlay.newIterator pfx)).2 = true) (ms : List Entries) :
    let j := (Join.First (iterOps m₀) (iterOps snap) N (Overlay.newIterator pfx)).1
    (j.key :: liveRun (iterOps snap) N ms j).Pairwise (fun a c => ltB a c = true) := by
  intro j
  have h1 := live_First (iterOps_isCursor hs) m₀ N (some (bytesPrefix pfx)) (Iter.new (some (bytesPrefix pfx)))
    _ (iterOps_starts (some (bytesPrefix pfx)) hs) ht
  have h2 := liveRun_increasing (iterOps_isCursor hs) N ms h1.1
  exact List.pairwise_cons.mpr ⟨h2.1, h2.2⟩

/-! ### Failing sub-iterators (a LevelDB read error, a released iterator)

`first()`/`next()` check `Error()` right after moving the sub-iterators.  `Join.FirstE`/`NextE` model that, with the
two error predicates as parameters. -/

/-- Without errors the error-checking join is exactly the join the theorems above are about. -/
theorem join_error_free_is_plain {α β : Type} (A : Ops α) (B : Ops β) (eA : α → Bool) (eB : β → Bool)
    (hA : ∀ s, eA s = false) (hB : ∀ s, eB s = false) (n : Nat) (j : Join α β) :
    Join.FirstE A B eA eB n j = Join.First A B n j ∧ Join.NextE A B eA eB n j = Join.Next A B n j :=
  ⟨FirstE_noerr A B eA eB hA hB n j, NextE_noerr A B eA eB hA hB n j⟩

/-- A `First`/`Next` that returns true certifies that neither sub-iterator reports an error: an entry is never
yielded in the same call as, or after, a failure. -/
theorem join_yield_certifies_no_error {α β : Type} (A : Ops α) (B : Ops β) (eA : α → Bool) (eB : β → Bool) (n : Nat)
    (j : Join α β) :
    ((Join.FirstE A B eA eB n j).2 = true → Join.err eA eB (Join.FirstE A B eA eB n j).1 = false) ∧
    ((Join.NextE A B eA eB n j).2 = true → Join.err eA eB (Join.NextE A B eA eB n j).1 = false) :=
  ⟨FirstE_true_noerr A B eA eB n j, NextE_true_noerr A B eA eB n j⟩

/-- Errors are sticky: once a sub-iterator has failed (and keeps reporting it), every later `First` and `Next` of
the join returns false and `Error()` stays set — a truncated scan is always distinguishable from a complete one by
`Error()`. -/
theorem join_error_is_sticky {α β : Type} (A : Ops α) (B : Ops β) (eA : α → Bool) (eB : β → Bool)
    (hA : StickyErr A eA) (hB : StickyErr B eB) (n : Nat) (j : Join α β) (h : Join.err eA eB j = true) :
    (Join.NextE A B eA eB n j).2 = false ∧ Join.err eA eB (Join.NextE A B eA eB n j).1 = true ∧
    (Join.FirstE A B eA eB n j).2 = false ∧ Join.err eA eB (Join.FirstE A B eA eB n j).1 = true :=
  ⟨(NextE_after_error A B eA eB hA hB n j h).1, (NextE_after_error A B eA eB hA hB n j h).2,
   (FirstE_after_error A B eA eB hA hB n j h).1, (FirstE_after_error A B eA eB hA hB n j h).2⟩

/-- The two iterator models used in the correspondence satisfy the stickiness hypothesis. -/
theorem iterator_errors_sticky (m : Entries) :
    StickyErr (iterOps m) (·.err) ∧ StickyErr (faultyOps (iterOps m)) Faulty.failed :=
  ⟨iter_err_sticky m, faulty_sticky (iterOps m)⟩

/-! Non-vacuity: three layers with a deleted, an overwritten and a store-only key. -/
example :
    let st : Store := { data := [([5, 0x61], [1]), ([5, 0x62], [2]), ([5, 0x63], [3])] }
    let o : Overlay := ({ store := st } : Overlay).delete [5, 0x61] |>.put [5, 0x62] [9]
    let c : CacheDB := ({} : CacheDB).put [0x61] [7] |>.delete [0x63]
    o.get [5, 0x61] = [] ∧ o.get [5, 0x62] = [9] ∧ o.get [5, 0x63] = [3] ∧
    c.get o [0x61] = [7] ∧ c.get o [0x62] = [9] ∧ c.get o [0x63] = [] ∧
    o.scan [5] = [([5, 0x62], [9]), ([5, 0x63], [3])] ∧
    c.scan o [] = [([0x61], [7]), ([0x62], [9])] ∧
    (o.commitAll.map fun o' => o'.store.data) = some [([5, 0x62], [9]), ([5, 0x63], [3])] := by
  decide

end Poly.Props.C10
