import Poly.Proofs.KVScan
/-!
# C10 — Layered state views agree with their backing store

Model: `Poly.Model.KVLayers` — `Store` (LevelDB as an ordered map + atomic batch), `Overlay` (block layer:
`overlaydb.OverlayDB`), `CacheDB` (transaction layer: `native/storage.CacheDB`, keys prefixed ST_STORAGE = 0x05),
`Join` (`overlaydb.JoinIter`, the algorithm with its flags).  A read returns `[]` for "absent" (Go `nil`).
Statements hold for all store contents, all buffers reachable by any history (`MemDB.WF`), all keys and values.
-/
namespace Poly.Props.C10
open Poly.Model.KV

/-- A read through the block layer returns the newest layer's answer: the overlay buffer if it knows the key
(a tombstone reads as absent), otherwise the store, otherwise absent. -/
theorem overlay_get_newest (o : Overlay) (k : Key) :
    o.get k = match lookup k o.mem.ents with
      | some v => v
      | none => match lookup k o.store.data with | some v => v | none => [] := o.get_eq k

/-- A read through the transaction layer: cache buffer, then overlay buffer, then store — all under the
ST_STORAGE-prefixed key. -/
theorem cache_get_newest (c : CacheDB) (o : Overlay) (k : Key) :
    c.get o k = match lookup (stStorage :: k) c.mem.ents with
      | some v => v
      | none => match lookup (stStorage :: k) o.mem.ents with
        | some v => v
        | none => match lookup (stStorage :: k) o.store.data with | some v => v | none => [] := by
  rw [c.get_eq o k, o.get_eq]
  cases lookup (stStorage :: k) c.mem.ents with
  | some v => rfl
  | none =>
    cases lookup (stStorage :: k) o.mem.ents with
    | some v => rfl
    | none => cases lookup (stStorage :: k) o.store.data <;> rfl

/-- Writes are read back and deleted keys read as absent, at both layers, whatever the layers below hold. -/
theorem write_then_read (o : Overlay) (c : CacheDB) (k : Key) (v : Val) :
    (o.put k v).get k = v ∧ (o.delete k).get k = [] ∧
    (c.put k v).get o k = v ∧ (c.delete k).get o k = [] := by
  refine ⟨?_, ?_, ?_, ?_⟩
  · rw [Overlay.get_eq]; simp [Overlay.put, put_ents', lookup_insert_self]
  · rw [Overlay.get_eq]; simp [Overlay.delete, MemDB.delete, put_ents', lookup_insert_self]
  · rw [CacheDB.get_eq]; simp [CacheDB.put, put_ents', lookup_insert_self]
  · rw [CacheDB.get_eq]; simp [CacheDB.delete, MemDB.delete, put_ents', lookup_insert_self]

/-- A write to one key does not change what another key reads (either layer). -/
theorem write_other_key (o : Overlay) (c : CacheDB) (k k' : Key) (v : Val) (h : k ≠ k') :
    (o.put k v).get k' = o.get k' ∧ (c.put k v).get o k' = c.get o k' := by
  constructor
  · rw [Overlay.get_eq, Overlay.get_eq]; simp [Overlay.put, put_ents', lookup_insert_ne v _ h]
  · have h' : stStorage :: k ≠ stStorage :: k' := by simpa using h
    rw [CacheDB.get_eq, CacheDB.get_eq]; simp [CacheDB.put, put_ents', lookup_insert_ne v _ h']

/-- Committing the block layer (`NewBatch; CommitTo; BatchCommit`) applies exactly its changes to the store:
every buffered key gets its buffered value, buffered tombstones are deleted, all other keys are untouched;
the store stays an ordered map and the batch is consumed. -/
theorem overlay_commit_applies_exactly (o : Overlay) (hm : o.mem.WF) (hs : Sorted o.store.data) :
    ∃ o', o.commitAll = some o' ∧ o'.mem = o.mem ∧ o'.store.batch = none ∧ Sorted o'.store.data ∧
      ∀ k, lookup k o'.store.data =
        match lookup k o.mem.ents with
        | some [] => none
        | some (b :: v) => some (b :: v)
        | none => lookup k o.store.data := by
  refine ⟨_, o.commitAll_eq, rfl, rfl, foldl_apply_sorted _ hs, ?_⟩
  intro k
  exact lookup_commit_fold _ hm.sorted hs k

/-- After the commit, the store alone (a fresh overlay over it) shows exactly what the overlay showed. -/
theorem overlay_commit_preserves_view (o : Overlay) (hm : o.mem.WF) (hs : Sorted o.store.data) (k : Key) :
    ∃ o', o.commitAll = some o' ∧ o'.reset.get k = o.get k ∧ o'.get k = o.get k := by
  obtain ⟨o', h1, h2, _, _, h5⟩ := overlay_commit_applies_exactly o hm hs
  refine ⟨o', h1, ?_, ?_⟩
  · rw [Overlay.get_eq, Overlay.get_eq]
    simp only [Overlay.reset, MemDB.reset, lookup, h5 k]
    cases h : lookup k o.mem.ents with
    | none => rfl
    | some v => cases v <;> rfl
  · rw [Overlay.get_eq, Overlay.get_eq, h2, h5 k]
    cases h : lookup k o.mem.ents with
    | none => rfl
    | some v => cases v <;> rfl

/-- `CommitTo` without `NewBatch` dereferences a nil batch as soon as there is one entry to write. -/
theorem overlay_commit_needs_batch (o : Overlay) (hb : o.store.batch = none) (hne : o.mem.ents ≠ []) :
    o.commitTo = none := by
  unfold Overlay.commitTo
  cases h : o.mem.ents with
  | nil => exact absurd h hne
  | cons e r => rw [foldlM_batchAdd_none _ hb]; rfl

/-- Committing the transaction layer applies exactly its changes to the block layer's buffer (tombstones
stay tombstones), never touches the store, and keeps the buffer well formed. -/
theorem cache_commit_applies_exactly (c : CacheDB) (o : Overlay) (hc : c.mem.WF) (ho : o.mem.WF) :
    (c.commit o).store = o.store ∧ (c.commit o).mem.WF ∧
    ∀ k, lookup k (c.commit o).mem.ents =
      match lookup k c.mem.ents with
      | some v => some v
      | none => lookup k o.mem.ents := by
  rw [cache_commit_eq]
  refine ⟨foldl_put_store _ _, foldl_put_wf _ _ ho, ?_⟩
  intro k
  rw [foldl_put_ents, lookup_applyOps, lastWrite_sorted hc.sorted]
  cases lookup k c.mem.ents <;> rfl

/-- After `Commit`, the block layer reads what the transaction layer read (for contract keys), and a reset
transaction layer over it reads the same. -/
theorem cache_commit_preserves_view (c : CacheDB) (o : Overlay) (hc : c.mem.WF) (ho : o.mem.WF) (k : Key) :
    (c.commit o).get (stStorage :: k) = c.get o k ∧ c.reset.get (c.commit o) k = c.get o k := by
  obtain ⟨h1, _, h3⟩ := cache_commit_applies_exactly c o hc ho
  have : (c.commit o).get (stStorage :: k) = c.get o k := by
    rw [CacheDB.get_eq, Overlay.get_eq, Overlay.get_eq, h1, h3]
    cases lookup (stStorage :: k) c.mem.ents <;> rfl
  refine ⟨this, ?_⟩
  rw [CacheDB.get_eq]; simpa [CacheDB.reset, MemDB.reset, lookup] using this

/-- Resetting a layer discards exactly its changes: reads fall through to the layer below. -/
theorem reset_discards (c : CacheDB) (o : Overlay) (k : Key) :
    o.reset.get k = (match lookup k o.store.data with | some v => v | none => []) ∧
    o.reset.store = o.store ∧
    c.reset.get o k = o.get (stStorage :: k) := by
  refine ⟨?_, rfl, ?_⟩
  · rw [Overlay.get_eq]; simp only [Overlay.reset, MemDB.reset, lookup]
    cases lookup k o.store.data <;> rfl
  · rw [CacheDB.get_eq]; simp [CacheDB.reset, MemDB.reset, lookup]

/-! ### Prefix scans: the join iterator -/

/-- The specification stream `merge newer older` is sorted and answers point reads like "newest layer that knows
the key" — so `liveMerge` (its entries with a non-empty value) is exactly "visible live keys, newest value,
byte order". -/
theorem merge_is_newest_wins (a b : Entries) (ha : Sorted a) (hb : Sorted b) (k : Key) :
    Sorted (merge a b) ∧
    lookup k (merge a b) = (match lookup k a with | some v => some v | none => lookup k b) :=
  ⟨merge_sorted ha hb, lookup_merge ha hb k⟩

/-- **joinIter_eq_merge.** `JoinIter` over any two iterators that behave as cursors over sorted streams `la`
(newer) and `lb` (older): `First` then `Next` until false yields exactly `liveMerge la lb` — keys of either
side, the newer value on equal keys, entries with an empty value (tombstones) dropped, ascending byte order.
Proved by induction over the run with the algorithm's control state (`keyOrigin`, `nextMemEnd`, `nextBackEnd`,
including the never-set-flag states that produce a nil key which the skip loop discards) as invariant; `N` is
the fuel of the skip loops, `n` the collection bound. -/
theorem joinIter_eq_merge {α β : Type} (A : Ops α) (B : Ops β) (RA : α → Entries → Prop) (RB : β → Entries → Prop)
    (hA : IsCursor A RA) (hB : IsCursor B RB) (a₀ : α) (b₀ : β) (la lb : Entries)
    (sa : Starts A RA a₀ la) (sb : Starts B RB b₀ lb) (N n : Nat) (hN : la.length + lb.length + 2 ≤ N)
    (hn : la.length + lb.length ≤ n) :
    collect (Join.ops A B N) n { mem := a₀, back := b₀ } = liveMerge la lb :=
  collect_cursor (join_isCursor hA hB N (by omega)) n _ _ (join_starts hA hB N a₀ b₀ la lb sa sb hN)
    (Nat.le_trans (length_liveMerge_le la lb) hn)

/-- …and the join is again such a cursor, so joins nest (CacheDB's iterator joins its buffer with the
overlay's JoinIter). -/
theorem joinIter_is_cursor {α β : Type} (A : Ops α) (B : Ops β) (RA : α → Entries → Prop) (RB : β → Entries → Prop)
    (hA : IsCursor A RA) (hB : IsCursor B RB) (N : Nat) (hN : 2 ≤ N) :
    IsCursor (Join.ops A B N) (JoinR RA RB N) := join_isCursor hA hB N hN

/-- The memdb / LevelDB range iterator over fixed sorted contents is such a cursor over the in-range entries. -/
theorem range_iter_is_cursor (m : Entries) (hs : Sorted m) (s : Option Range) :
    IsCursor (iterOps m) (FwdAt m) ∧ Starts (iterOps m) (FwdAt m) (Iter.new s) (m.filter fun e => inSlice s e.1) :=
  ⟨iterOps_isCursor hs, iterOps_starts s hs⟩

/-- `OverlayDB.NewIterator(prefix)` scanned to the end = live merge of the buffer entries and the store entries
under the prefix. -/
theorem overlay_scan_eq_merge (o : Overlay) (hm : o.mem.WF) (hs : Sorted o.store.data) (pfx : Key) :
    o.scan pfx = liveMerge (under pfx o.mem.ents) (under pfx o.store.data) :=
  overlay_scan_eq o hm.sorted hs pfx

/-- A prefix scan of the block layer yields exactly the visible live keys under the prefix, in byte order,
with their newest values: `(k, v)` is yielded iff `k` has the prefix and `v` is the non-empty value `Get(k)`
returns. (No hypothesis on empty keys is needed.) -/
theorem overlay_scan_visible_live (o : Overlay) (hm : o.mem.WF) (hs : Sorted o.store.data) (pfx : Key) :
    Sorted (o.scan pfx) ∧ ∀ k v, (k, v) ∈ o.scan pfx ↔ pfx <+: k ∧ v = o.get k ∧ v ≠ [] := by
  have hsorted : Sorted (o.scan pfx) := by
    rw [overlay_scan_eq o hm.sorted hs]; exact liveMerge_sorted (under_sorted hm.sorted) (under_sorted hs)
  refine ⟨hsorted, fun k v => ?_⟩
  rw [← lookup_eq_some_iff hsorted, overlay_scan_lookup o hm.sorted hs]
  constructor
  · intro h
    split at h
    · rename_i hc; simp only [Option.some.injEq] at h; exact ⟨hc.1, h.symm, h ▸ hc.2⟩
    · cases h
  · rintro ⟨h1, h2, h3⟩
    rw [if_pos ⟨h1, h2 ▸ h3⟩, h2]

/-- `CacheDB.NewIterator(key)` scanned to the end: the nested join equals the nested live merge under the
ST_STORAGE-prefixed key, and `Iter.Key()` strips exactly that one prefix byte. -/
theorem cache_scan_eq_merge (c : CacheDB) (o : Overlay) (hc : c.mem.WF) (hm : o.mem.WF) (hs : Sorted o.store.data)
    (key : Key) :
    c.scan o key =
      (liveMerge (under (stStorage :: key) c.mem.ents)
        (liveMerge (under (stStorage :: key) o.mem.ents) (under (stStorage :: key) o.store.data))).map
        (fun e => (stripKey e.1, e.2)) ∧
    ∀ e ∈ liveMerge (under (stStorage :: key) c.mem.ents)
        (liveMerge (under (stStorage :: key) o.mem.ents) (under (stStorage :: key) o.store.data)),
      ∃ k, e.1 = stStorage :: k ∧ key <+: k :=
  ⟨cache_scan_eq c o hc.sorted hm.sorted hs key, fun _ he => cacheRaw_prefix c o key he⟩

/-- A prefix scan of the transaction layer yields exactly the visible live contract keys under the prefix, in
byte order, with their newest values. -/
theorem cache_scan_visible_live (c : CacheDB) (o : Overlay) (hc : c.mem.WF) (hm : o.mem.WF) (hs : Sorted o.store.data)
    (key : Key) :
    Sorted (c.scan o key) ∧ ∀ k v, (k, v) ∈ c.scan o key ↔ key <+: k ∧ v = c.get o k ∧ v ≠ [] :=
  ⟨cache_scan_sorted c o hc.sorted hm.sorted hs key, fun k v => cache_scan_mem c o hc.sorted hm.sorted hs key k v⟩

/-! Non-vacuity: three layers with a deleted, an overwritten and a store-only key. -/
example :
    let st : Store := { data := [([5, 0x61], [1]), ([5, 0x62], [2]), ([5, 0x63], [3])] }
    let o : Overlay := ({ store := st } : Overlay).delete [5, 0x61] |>.put [5, 0x62] [9]
    let c : CacheDB := ({} : CacheDB).put [0x61] [7] |>.delete [0x63]
    o.get [5, 0x61] = [] ∧ o.get [5, 0x62] = [9] ∧ o.get [5, 0x63] = [3] ∧
    c.get o [0x61] = [7] ∧ c.get o [0x62] = [9] ∧ c.get o [0x63] = [] ∧
    o.scan [5] = [([5, 0x62], [9]), ([5, 0x63], [3])] ∧
    c.scan o [] = [([0x61], [7]), ([0x62], [9])] ∧
    (o.commitAll.map fun o' => o'.store.data) = some [([5, 0x62], [9]), ([5, 0x63], [3])] := by
  decide

end Poly.Props.C10
