import Poly.Proofs.LCPosa
/-!
# C29 — PoSA light clients accept only valid validator seals

Model: `Poly.Model.LCPosa` (bsc, bytom, heco, hsc, pixiechain header sync; the routers differ in the fields of
`Router`). All statements are about `run R St.empty ops`: the state after an arbitrary history `ops` of
`SyncGenesisHeader` / `SyncBlockHeader` calls (arbitrary headers, arbitrary order, arbitrary forks), for every router
record `R`. `g` is the installed trust root, `s` a stored header other than the trust root.

The vocabulary is independent of the short cuts the code takes (`EpochParentHash`, the bounded look-back):
`Chain st g id l` — `l` are the stored headers from `id` back to the trust root along parent hashes;
`epochs g l` — the validator announcements met on that way, then the trust root's own and its recorded previous set;
`inEffect R g n l` — the set in effect for a header number `n` with ancestors `l`: the latest announcement `e1`,
or, on a router with delayed hand-over (bsc, bytom), the one before it while `n - e1.height ≤ ⌊|previous set|/2⌋`.
-/
namespace Poly.Props.C29
open Poly.Model.LCPosa Poly.Proofs.LCPosa

/-- A header is stored only on top of a stored parent with the preceding number, and its ancestry reaches the trust root. -/
theorem stored_needs_parent (R : Router) (ops : List Op) (g : Genesis) (id : Id) (s : Stored)
    (hg : (run R St.empty ops).genesis = some g) (hs : (run R St.empty ops).hdrs id = some s) (hne : id ≠ g.hdr.id) :
    ∃ p l, (run R St.empty ops).hdrs s.hdr.parent = some p ∧ p.hdr.number + 1 = s.hdr.number ∧
      Chain (run R St.empty ops) g s.hdr.parent (p :: l) := by
  obtain ⟨_, ⟨l, hl⟩, hall⟩ := stored_good (run_inv ops (empty_inv R)) hg hs hne
  obtain ⟨p, rest, hpl, hnum, _⟩ := (hall l hl).1.link
  subst hpl
  exact ⟨p, rest, Chain.head_stored hl, hnum, hl⟩

/-- A header whose parent is not stored leaves the state untouched (the loop `continue`s). -/
theorem missing_parent_skipped (R : Router) (st : St) (h : Hdr) (hp : st.hdrs h.parent = none) :
    (syncHeader R st h).1 = st := by
  unfold syncHeader
  split
  · rfl
  · simp [hp]

/-- The seal of a stored header recovers to its coinbase, and that address is a member of the validator set in effect
at its height (determined by the header's own ancestry). -/
theorem signer_in_effect_set (R : Router) (ops : List Op) (g : Genesis) (id : Id) (s : Stored) (l : List Stored)
    (hg : (run R St.empty ops).genesis = some g) (hs : (run R St.empty ops).hdrs id = some s) (hne : id ≠ g.hdr.id)
    (hl : Chain (run R St.empty ops) g s.hdr.parent l) :
    s.hdr.signer = some s.hdr.coinbase ∧ s.hdr.coinbase ∈ inEffect R g s.hdr.number l := by
  have := ((stored_good (run_inv ops (empty_inv R)) hg hs hne).2.2 l hl).1
  exact ⟨this.sealOk, this.member⟩

/-- The signer of a stored header sealed none of the ⌊|set in effect|/2⌋ nearest ancestors. -/
theorem no_recent_resign (R : Router) (ops : List Op) (g : Genesis) (id : Id) (s : Stored) (l : List Stored)
    (hg : (run R St.empty ops).genesis = some g) (hs : (run R St.empty ops).hdrs id = some s) (hne : id ≠ g.hdr.id)
    (hl : Chain (run R St.empty ops) g s.hdr.parent l) :
    ∀ a ∈ l.take ((inEffect R g s.hdr.number l).length / 2), a.hdr.coinbase ≠ s.hdr.coinbase :=
  ((stored_good (run_inv ops (empty_inv R)) hg hs hne).2.2 l hl).1.recent

/-- The difficulty of a stored header is 2 exactly when its signer stands at position `number mod |set|` of the set
in effect, else 1. -/
theorem difficulty_matches_turn (R : Router) (ops : List Op) (g : Genesis) (id : Id) (s : Stored) (l : List Stored)
    (hg : (run R St.empty ops).genesis = some g) (hs : (run R St.empty ops).hdrs id = some s) (hne : id ≠ g.hdr.id)
    (hl : Chain (run R St.empty ops) g s.hdr.parent l) :
    let V := inEffect R g s.hdr.number l
    (V[s.hdr.number % V.length]? = some s.hdr.coinbase → s.hdr.difficulty = 2) ∧
    (V[s.hdr.number % V.length]? ≠ some s.hdr.coinbase → s.hdr.difficulty = 1) :=
  ((stored_good (run_inv ops (empty_inv R)) hg hs hne).2.2 l hl).1.turn

/-- Fixed-format fields of a stored header: extra data = 32 bytes vanity + n·20 bytes + 65 bytes seal, zero mix digest,
empty-uncle hash, difficulty 1 or 2, gas used ≤ gas limit ≤ 2^63-1. -/
theorem extra_wellformed (R : Router) (ops : List Op) (g : Genesis) (id : Id) (s : Stored)
    (hg : (run R St.empty ops).genesis = some g) (hs : (run R St.empty ops).hdrs id = some s) (hne : id ≠ g.hdr.id) :
    32 + 65 ≤ s.hdr.extra.length ∧ (s.hdr.extra.length - (32 + 65)) % 20 = 0 ∧
    s.hdr.mixZero = true ∧ s.hdr.uncleOk = true ∧ (s.hdr.difficulty = 2 ∨ s.hdr.difficulty = 1) ∧
    s.hdr.gasUsed ≤ s.hdr.gasLimit ∧ s.hdr.gasLimit ≤ 0x7fffffffffffffff := by
  obtain ⟨_, ⟨l, hl⟩, hall⟩ := stored_good (run_inv ops (empty_inv R)) hg hs hne
  have := (hall l hl).1.wf
  exact ⟨this.len, this.mult, this.mix, this.uncle, this.diff, this.gasUsed, this.gasCap⟩

/-- The trust root announces a non-empty validator set in well-formed extra data and has a positive number. -/
theorem root_wellformed (R : Router) (ops : List Op) (g : Genesis)
    (hg : (run R St.empty ops).genesis = some g) :
    32 + 65 < g.hdr.extra.length ∧ (g.hdr.extra.length - (32 + 65)) % 20 = 0 ∧ g.hdr.vals ≠ [] ∧
    g.pv0.vals = g.hdr.vals ∧ 0 < g.hdr.number := by
  obtain ⟨hG, _⟩ := (run_inv ops (empty_inv R)).gen g hg
  have := hG.epoch
  simp [Hdr.isEpoch, extraVanity, extraSeal] at this
  exact ⟨this, hG.mult, hG.valsNe, by rw [hG.pv0], hG.numPos⟩

/-- "Can not change epoch continuously", as coded: a stored header that announces validators lies more than
⌊|previous set|/2⌋ (bsc, bytom) resp. ⌊|latest set|/2⌋ (heco, hsc) blocks after the latest announcement.
(pixiechain has no such test: both flags are off.) -/
theorem no_consecutive_epoch_change (R : Router) (ops : List Op) (g : Genesis) (id : Id) (s : Stored) (l : List Stored)
    (hg : (run R St.empty ops).genesis = some g) (hs : (run R St.empty ops).hdrs id = some s) (hne : id ≠ g.hdr.id)
    (hl : Chain (run R St.empty ops) g s.hdr.parent l) (hep : s.hdr.isEpoch = true) :
    ∃ e1 e2 tl, epochs g l = e1 :: e2 :: tl ∧
      (R.delayed = true → e2.vals.length / 2 < s.hdr.number - e1.height) ∧
      (R.delayed = false → R.guardPhv = true → e1.vals.length / 2 < s.hdr.number - e1.height) := by
  obtain ⟨_, _, hall, _⟩ := (run_inv ops (empty_inv R)).gen g hg
  obtain ⟨l0, hc⟩ := hall id s hs
  obtain ⟨_, _, hcl, hgood⟩ := hc.inv_step hne
  have := Chain.functional hl hcl.toChain
  subst this
  obtain ⟨e1, e2, tl, he, _⟩ := epochs_two hcl
  have hguard := hgood.guard hep
  rw [he] at hguard
  exact ⟨e1, e2, tl, he, hguard⟩

/-- The recorded total difficulty of a stored header is the sum of the difficulties along its chain. -/
theorem td_is_sum (R : Router) (ops : List Op) (g : Genesis) (id : Id) (s : Stored) (l : List Stored)
    (hg : (run R St.empty ops).genesis = some g) (hs : (run R St.empty ops).hdrs id = some s) (hne : id ≠ g.hdr.id)
    (hl : Chain (run R St.empty ops) g s.hdr.parent l) : s.td = sumDiff (s :: l) :=
  ((stored_good (run_inv ops (empty_inv R)) hg hs hne).2.2 l hl).2

/-- Fork choice: the canonical height points at a stored header whose total difficulty is maximal among all stored
headers; there is no canonical assignment above it or below the trust root; the assignments in between are stored
headers of the right number, each the parent of the next, down to the trust root. -/
theorem canonical_follows_td (R : Router) (ops : List Op) (g : Genesis)
    (hg : (run R St.empty ops).genesis = some g) :
    let st := run R St.empty ops
    (∃ head, st.canon st.height = some head.hdr.id ∧ st.hdrs head.hdr.id = some head ∧ head.hdr.number = st.height ∧
      ∀ id s, st.hdrs id = some s → s.td ≤ head.td) ∧
    (∀ i, st.height < i → st.canon i = none) ∧ (∀ i, i < g.hdr.number → st.canon i = none) ∧
    st.canon g.hdr.number = some g.hdr.id ∧ g.hdr.number ≤ st.height ∧
    (∀ i, g.hdr.number < i → i ≤ st.height → ∃ s, st.canon i = some s.hdr.id ∧ st.hdrs s.hdr.id = some s ∧
      s.hdr.number = i ∧ st.canon (i - 1) = some s.hdr.parent) := by
  obtain ⟨_, _, _, hCI⟩ := (run_inv ops (empty_inv R)).gen g hg
  exact ⟨hCI.head, hCI.above, hCI.below, hCI.root.1, hCI.root.2, hCI.link⟩

/-- Once a trust root is installed (in fact in every reachable state) no header can make `SyncBlockHeader` panic — the
modulus `len(validators)` of the in-turn test is never zero — or fail internally: the walks over `EpochParentHash` links
and the recent-signer look-back always find their records, the unbounded loops (`for {}`) end within the model's fuel,
`addHeader` always finds the canonical head. `internalOut` = panic or one of the error classes fuel / getHeader / parse /
nocanon / nogenesis / block0. -/
theorem sync_never_panics (R : Router) (ops : List Op) (h : Hdr) :
    internalOut (syncHeader R (run R St.empty ops) h).2 = false :=
  syncHeader_total (run_inv ops (empty_inv R)) h

/-- The trust root is installed at most once: a second `SyncGenesisHeader` changes nothing. -/
theorem genesis_once (st : St) (g0 : Genesis) (g : Hdr) (pvs : List HV) (hg : st.genesis = some g0) :
    (syncGenesis st g pvs).1 = st := by
  simp [syncGenesis, hg]

/-! ## msc (clique-style router, `Poly.Model.LCPosa.Msc`)

A different algorithm (signer set = checkpoint list + majority votes; the code walks over `LastVoteParentOrEpoch` links).
Statements about `Msc.run C St.empty ops` for every configuration `C` (epoch, period) and every history. -/

/-- msc: a stored header has a stored parent with the preceding number and a parent chain to the trust root. -/
theorem msc_stored_needs_parent (C : Msc.Cfg) (ops : List Msc.Op) (g : Genesis) (id : Id) (s : Stored)
    (hg : (Msc.run C St.empty ops).genesis = some g) (hs : (Msc.run C St.empty ops).hdrs id = some s) (hne : id ≠ g.hdr.id) :
    ∃ p l, (Msc.run C St.empty ops).hdrs s.hdr.parent = some p ∧ p.hdr.number + 1 = s.hdr.number ∧
      Chain (Msc.run C St.empty ops) g s.hdr.parent (p :: l) := by
  obtain ⟨_, ⟨l, hl⟩, hall⟩ := MscP.stored_good (MscP.run_inv ops (MscP.empty_inv C)) hg hs hne
  obtain ⟨p, rest, hpl, hnum, _⟩ := (hall l hl).1.link
  subst hpl
  exact ⟨p, rest, Chain.head_stored hl, hnum, hl⟩

/-- msc: fixed-format fields of a stored header: a recoverable seal; extra data = 32 + 65 bytes outside checkpoints and
32 + n·20 + 65 (n ≥ 1) with zero beneficiary and zero nonce on checkpoints; a vote nonce; zero mix digest; empty-uncle
hash; difficulty 1 or 2; and its total difficulty is the sum along its chain. -/
theorem msc_extra_wellformed (C : Msc.Cfg) (ops : List Msc.Op) (g : Genesis) (id : Id) (s : Stored) (l : List Stored)
    (hg : (Msc.run C St.empty ops).genesis = some g) (hs : (Msc.run C St.empty ops).hdrs id = some s) (hne : id ≠ g.hdr.id)
    (hl : Chain (Msc.run C St.empty ops) g s.hdr.parent l) :
    (∃ a, s.hdr.signer = some a) ∧ 32 + 65 ≤ s.hdr.extra.length ∧
    (s.hdr.number % C.epoch ≠ 0 → s.hdr.extra.length = 32 + 65) ∧
    (s.hdr.number % C.epoch = 0 → 32 + 65 < s.hdr.extra.length ∧ (s.hdr.extra.length - (32 + 65)) % 20 = 0 ∧
      s.hdr.coinbase = Msc.zeroAddr ∧ s.hdr.nonce = .drop) ∧
    s.hdr.nonce ≠ .other ∧ s.hdr.mixZero = true ∧ s.hdr.uncleOk = true ∧ (s.hdr.difficulty = 2 ∨ s.hdr.difficulty = 1) ∧
    s.td = sumDiff (s :: l) := by
  obtain ⟨hgood, htd⟩ := (MscP.stored_good (MscP.run_inv ops (MscP.empty_inv C)) hg hs hne).2.2 l hl
  have := hgood.wf
  exact ⟨hgood.sealOk, this.len, this.plain, this.checkpoint, this.nonce, this.mix, this.uncle, this.diff, htd⟩

/-- msc: what acceptance of a header establishes in every reachable state: its seal recovers to a signer that is
authorized in the clique signer set of its parent chain — `Msc.replay`: the list of the nearest checkpoint (number
divisible by `Epoch`, or the trust root), then every later ancestor's vote applied oldest first, a target changing status
once more than half of the current signers vote for it. (The code computes that set by walking over
`LastVoteParentOrEpoch` links; that the walk yields the replay over the plain parent chain is part of the proof.) The
signer sealed none of the ⌊|signers|/2⌋ nearest ancestors (a trust root at block 0 excepted), the difficulty is 2 exactly
when the signer stands at index `number mod |signers|` of the ascending signer list, and a checkpoint header carries
exactly that list. -/
theorem msc_signer_in_effect_set (C : Msc.Cfg) (ops : List Msc.Op) (h : Hdr) (st' : St)
    (hok : Msc.syncHeader C (Msc.run C St.empty ops) h = (st', .ok)) :
    ∃ g p l signer snap, (Msc.run C St.empty ops).genesis = some g ∧
      (Msc.run C St.empty ops).hdrs h.parent = some p ∧ Chain (Msc.run C St.empty ops) g h.parent (p :: l) ∧
      p.hdr.number + 1 = h.number ∧ h.signer = some signer ∧
      Msc.replay C (p :: l) = some snap ∧ signer ∈ snap.signers ∧
      (∀ a ∈ (p :: l).take (snap.signers.length / 2), a.hdr.signer = some signer → a.hdr.number = 0) ∧
      (h.number % snap.signers.length = Msc.indexOf signer snap.signers → h.difficulty = 2) ∧
      (h.number % snap.signers.length ≠ Msc.indexOf signer snap.signers → h.difficulty = 1) ∧
      (h.number % C.epoch = 0 → h.valBytes = snap.signers.flatten) := by
  obtain ⟨g, p, l, signer, snap, ls, h1, h2, h3, h4, h5, _, h7, h8, h9, h10, h11, _, h13⟩ :=
    MscP.accept_facts (MscP.run_inv ops (MscP.empty_inv C)) hok
  exact ⟨g, p, l, signer, snap, h1, h2, h3, h4, h5, h13, h7, h8, h9, h10, h11⟩

/-- msc fork choice: as `canonical_follows_td`. -/
theorem msc_canonical_follows_td (C : Msc.Cfg) (ops : List Msc.Op) (g : Genesis)
    (hg : (Msc.run C St.empty ops).genesis = some g) :
    let st := Msc.run C St.empty ops
    (∃ head, st.canon st.height = some head.hdr.id ∧ st.hdrs head.hdr.id = some head ∧ head.hdr.number = st.height ∧
      ∀ id s, st.hdrs id = some s → s.td ≤ head.td) ∧
    (∀ i, st.height < i → st.canon i = none) ∧ (∀ i, i < g.hdr.number → st.canon i = none) ∧
    st.canon g.hdr.number = some g.hdr.id ∧ g.hdr.number ≤ st.height ∧
    (∀ i, g.hdr.number < i → i ≤ st.height → ∃ s, st.canon i = some s.hdr.id ∧ st.hdrs s.hdr.id = some s ∧
      s.hdr.number = i ∧ st.canon (i - 1) = some s.hdr.parent) := by
  obtain ⟨_, _, _, _, hCI⟩ := (MscP.run_inv ops (MscP.empty_inv C)).gen g hg
  exact ⟨hCI.head, hCI.above, hCI.below, hCI.root.1, hCI.root.2, hCI.link⟩

/-! ## polygon bor, reduced to one fixed span (`Poly.Model.LCPosa.Bor`)

The trust root carries the validators (ascending addresses) and the proposer's position; no header is a sprint end or a
sprint start, so the snapshot never changes (span changes, proposer rotation at sprint starts and Heimdall span proofs are
NOT covered). `g.pv0.vals` are the validators, `g.pv0.height` the proposer index. -/

/-- bor: an accepted header (in any state whatever) is sealed by a validator of the span; with `succ` = the number of
places the signer stands behind the proposer in the ascending validator list, counted cyclically
(`(signerIndex + N - proposerIndex) mod N`, in `[0, N)`, 0 exactly for the proposer), its difficulty is `N - succ` (so
between 1 and N, N exactly in turn), it comes no earlier than `Period + succ · BackupMultiplier` after its parent, has
the parent's number + 1 and carries no validator bytes. -/
theorem bor_difficulty_matches_turn (C : Bor.Cfg) (st st' : St) (h : Hdr)
    (hok : Bor.syncHeader C st h = (st', .ok)) :
    ∃ g p signer, st.genesis = some g ∧ st.hdrs h.parent = some p ∧ p.hdr.number + 1 = h.number ∧
      h.signer = some signer ∧ signer ∈ g.pv0.vals ∧ g.pv0.height < g.pv0.vals.length ∧
      (g.pv0.vals)[Msc.indexOf signer g.pv0.vals]? = some signer ∧
      (let N := g.pv0.vals.length
       let succ := (Msc.indexOf signer g.pv0.vals + N - g.pv0.height) % N
       succ < N ∧ (succ = 0 ↔ Msc.indexOf signer g.pv0.vals = g.pv0.height) ∧
       h.difficulty = N - succ ∧ 1 ≤ h.difficulty ∧ h.difficulty ≤ N ∧
       p.hdr.time + C.period + succ * C.backup ≤ h.time) ∧
      h.extra.length = 32 + 65 ∧ h.mixZero = true ∧ h.uncleOk = true := by
  rcases BorP.syncHeader_cases C st h with ⟨o, hsame, hne⟩ | ⟨p, g, st2, _, h2, h4, h3, _, _⟩
  · rw [hsame] at hok
    injection hok with _ ho
    exact absurd ho hne
  · obtain ⟨he, hm, hu, hnum, _, signer, hsig, hmem, hprop, htime, hdiff⟩ := BorP.verifyHeader_ok h3
    obtain ⟨hlt, hget⟩ := BorP.indexOf_lt_of_mem signer g.pv0.vals hmem
    have hs := BorP.succession_lt hprop hlt
    have hmod := BorP.succession_mod hprop hlt
    have hz := BorP.succession_zero_iff hprop hlt
    refine ⟨g, p, signer, h4, h2, hnum, hsig, hmem, hprop, hget, ?_, he, hm, hu⟩
    simp only
    rw [← hmod]
    exact ⟨hs, hz, hdiff, by omega, by omega, by omega⟩

/-- bor: a stored header has a stored parent with the preceding number, its parent chain reaches the trust root, and
its recorded total difficulty is the sum along that chain. -/
theorem bor_stored_needs_parent (C : Bor.Cfg) (ops : List Bor.Op) (g : Genesis) (id : Id) (s : Stored)
    (hg : (Bor.run C St.empty ops).genesis = some g) (hs : (Bor.run C St.empty ops).hdrs id = some s) (hne : id ≠ g.hdr.id) :
    ∃ p l, (Bor.run C St.empty ops).hdrs s.hdr.parent = some p ∧ p.hdr.number + 1 = s.hdr.number ∧
      Chain (Bor.run C St.empty ops) g s.hdr.parent (p :: l) ∧ s.td = sumDiff (s :: p :: l) :=
  BorP.stored_link (BorP.run_inv ops BorP.empty_inv) hg hs hne

/-- bor fork choice: as `canonical_follows_td`. -/
theorem bor_canonical_follows_td (C : Bor.Cfg) (ops : List Bor.Op) (g : Genesis)
    (hg : (Bor.run C St.empty ops).genesis = some g) :
    let st := Bor.run C St.empty ops
    (∃ head, st.canon st.height = some head.hdr.id ∧ st.hdrs head.hdr.id = some head ∧ head.hdr.number = st.height ∧
      ∀ id s, st.hdrs id = some s → s.td ≤ head.td) ∧
    (∀ i, st.height < i → st.canon i = none) ∧ (∀ i, i < g.hdr.number → st.canon i = none) ∧
    st.canon g.hdr.number = some g.hdr.id ∧ g.hdr.number ≤ st.height ∧
    (∀ i, g.hdr.number < i → i ≤ st.height → ∃ s, st.canon i = some s.hdr.id ∧ st.hdrs s.hdr.id = some s ∧
      s.hdr.number = i ∧ st.canon (i - 1) = some s.hdr.parent) := by
  obtain ⟨_, _, hCI⟩ := (BorP.run_inv ops BorP.empty_inv).gen g hg
  exact ⟨hCI.head, hCI.above, hCI.below, hCI.root.1, hCI.root.2, hCI.link⟩

/-! ## Non-vacuity: a concrete history satisfying the hypotheses above (`Poly.Proofs.LCPosa.Example`)

Trust root 1 (number 5, set [a, b, c]); headers 2 (number 6), 3 (number 7, announces [a, b, d]), the competing 4
(number 7) and 5 (number 8, in turn) which overtakes; 6 (sealed by an outsider) is refused; 2 resubmitted is skipped. -/

set_option maxRecDepth 100000 in
example :
    ((run Router.bsc St.empty Example.ops).genesis.map (·.hdr.id)) = some 1 ∧
    ((run Router.bsc St.empty Example.ops).hdrs 3).map (·.hdr.isEpoch) = some true ∧
    ((run Router.bsc St.empty Example.ops).hdrs 3).map (·.td) = some 4 ∧
    ((run Router.bsc St.empty Example.ops).hdrs 5).map (·.td) = some 6 ∧
    ((run Router.bsc St.empty Example.ops).hdrs 6).isNone = true ∧
    (run Router.bsc St.empty Example.ops).height = 8 ∧
    (run Router.bsc St.empty Example.ops).canon 7 = some 4 ∧
    (run Router.bsc St.empty Example.ops).canon 9 = none := by decide

set_option maxRecDepth 100000 in
/-- the same history is accepted by the routers without delayed hand-over -/
example :
    ((run (Router.heco 3) St.empty Example.ops).hdrs 5).map (·.td) = some 6 ∧
    ((run (Router.pixie 3) St.empty Example.ops).hdrs 3).isSome = true ∧
    ((run (Router.hsc 3) St.empty Example.ops).hdrs 6).isNone = true := by decide

set_option maxRecDepth 100000 in
/-- msc: trust root 1 (number 8, epoch 8, signers [a, b], sealed by a); 2 sealed by b in turn; 3 by a; 4 by a again is
refused (recent); 5 by the unauthorized c is refused; the full statement's hypotheses are satisfiable. -/
example :
    ((Msc.run ⟨8, 2⟩ St.empty Example.mscOps).hdrs 3).isSome = true ∧
    ((Msc.run ⟨8, 2⟩ St.empty Example.mscOps).hdrs 4).isNone = true ∧
    ((Msc.run ⟨8, 2⟩ St.empty Example.mscOps).hdrs 5).isNone = true ∧
    (Msc.run ⟨8, 2⟩ St.empty Example.mscOps).height = 10 ∧
    (Msc.syncHeader ⟨8, 2⟩ (Msc.run ⟨8, 2⟩ St.empty Example.mscOps) Example.m6).2 = .ok := by decide

set_option maxRecDepth 100000 in
/-- bor: validators [a, b, c, d], proposer c (index 2); header 2 sealed by a — which sorts BEFORE the proposer:
succession (0 + 4 - 2) mod 4 = 2, difficulty 2, time 100 + 2 + 2·3 — is accepted; the same with difficulty 6 = N + 2 is not. -/
example :
    (Bor.syncHeader ⟨2, 3⟩ (Bor.run ⟨2, 3⟩ St.empty [.genesis Example.broot [Example.a, Example.b, Example.c, Example.d] 2])
      (Example.bhdr 2 1 65 Example.a 2 108)).2 = .ok ∧
    (Bor.syncHeader ⟨2, 3⟩ (Bor.run ⟨2, 3⟩ St.empty [.genesis Example.broot [Example.a, Example.b, Example.c, Example.d] 2])
      (Example.bhdr 2 1 65 Example.a 6 108)).2 = .reject .turn ∧
    (Bor.syncHeader ⟨2, 3⟩ (Bor.run ⟨2, 3⟩ St.empty [.genesis Example.broot [Example.a, Example.b, Example.c, Example.d] 2])
      (Example.bhdr 2 1 65 Example.a 2 107)).2 = .reject .toosoon := by decide

end Poly.Props.C29
