import Poly.Proofs.SchemaP2P
import Poly.Proofs.SchemaLenient
import Poly.Generated.CodecInventory
/-!
# C05 — Peer-to-peer frames are integrity-checked and round-trip

Model: `Poly.Model.SchemaP2P` (`frameOf` = `WriteMessage`, `readMessage` = `ReadMessage`, one payload schema per message
kind, `Block`/`Trn` payloads through the C02 decoders). The network magic, the hash `H` and the key library `K` are
arbitrary; the only assumption on `H` is that it returns at least the four bytes the checksum takes.
-/
namespace Poly.Props.C05
open Poly.Model.Codec Poly.Model.Schema Poly.Model.SchemaLedger Poly.Model.SchemaP2P

/-- `H` yields at least `CHECKSUM_LEN` bytes (SHA-256: 32) -/
def HashLongEnough (H : Bytes → Bytes) : Prop := ∀ x, CHECKSUM_LEN ≤ (H x).length

private theorem checksum_len (H : Bytes → Bytes) (hH : HashLongEnough H) (p : Bytes) : (checksum H p).length = CHECKSUM_LEN := by
  have := hH (H p)
  simp only [checksum, List.length_take]; omega

/-- Write then read, for the twelve kinds whose payload is a schema (ping, pong, version, verack, addr, getheaders,
getblocks, headers, inv, getdata, consensus, notfound): every well-formed value (this includes the count limits that
decoding clamps: at most 64 addresses / inventory hashes) within the payload limit is read back unchanged, the reported
payload size is exact and the rest of the stream is untouched. -/
theorem read_write_schema_kinds (magic : UInt32) (K : Bytes → Option Bytes) (H : Bytes → Bytes) (hH : HashLongEnough H)
    (k : Kind) (t : Ty) (hk : k.ty = some t) (v : t.Val) (r : Bytes) (hwf : t.WF K v)
    (hsz : (t.enc v).length ≤ MAX_PAYLOAD_LEN) :
    readMessage magic K H (frameOf magic H k (t.enc v) ++ r) = .ok (.schema k t v, (t.enc v).length, r) := by
  rw [readMessage_frameOf magic K H k _ r hsz (checksum_len H hH _), decPayload_schema K H k t hk v hwf]

/-- the two kinds without payload -/
theorem read_write_empty_kinds (magic : UInt32) (K : Bytes → Option Bytes) (H : Bytes → Bytes) (hH : HashLongEnough H) (r : Bytes) :
    readMessage magic K H (frameOf magic H .getaddr [] ++ r) = .ok (.empty .getaddr, 0, r) ∧
    readMessage magic K H (frameOf magic H .disconnect [] ++ r) = .ok (.empty .disconnect, 0, r) := by
  constructor
  · rw [readMessage_frameOf magic K H .getaddr [] r (by decide) (checksum_len H hH _)]; rfl
  · rw [readMessage_frameOf magic K H .disconnect [] r (by decide) (checksum_len H hH _)]; rfl

/-- transaction messages -/
theorem read_write_tx (magic : UInt32) (K : Bytes → Option Bytes) (H : Bytes → Bytes) (hH : HashLongEnough H)
    (tx : txTy.Val) (r : Bytes) (hwf : txTy.WF K tx) (hsz : (txTy.enc tx).length ≤ MAX_TX_SIZE) :
    readMessage magic K H (frameOf magic H .tx (txTy.enc tx) ++ r) =
      .ok (.tx { val := tx, hash := H (H (txUnsignedTy.enc tx.1)), raw := txTy.enc tx, rest := [] }, (txTy.enc tx).length, r) := by
  have hp : (txTy.enc tx).length ≤ MAX_PAYLOAD_LEN := by
    have : MAX_TX_SIZE ≤ MAX_PAYLOAD_LEN := by decide
    omega
  rw [readMessage_frameOf magic K H .tx _ r hp (checksum_len H hH _), decPayload_tx K H tx hwf hsz]

/-- block messages (block followed by the 32-byte merkle root field) -/
theorem read_write_block (magic : UInt32) (K : Bytes → Option Bytes) (H : Bytes → Bytes) (hH : HashLongEnough H)
    (h : headerTy.Val) (txs : List txTy.Val) (root r : Bytes) (hroot32 : root.length = 32)
    (hh : headerTy.WF K h) (hn : txs.length < 2 ^ 32)
    (hwf : ∀ tx ∈ txs, txTy.WF K tx ∧ (txTy.enc tx).length ≤ MAX_TX_SIZE)
    (hnd : (txs.map (txHash H)).Nodup)
    (hroot : headerTxRoot h = Poly.Model.BtcMerkle.btcRoot H (txs.map (txHash H)))
    (hsz : (blockEnc h txs ++ root).length ≤ MAX_PAYLOAD_LEN) :
    readMessage magic K H (frameOf magic H .block (blockEnc h txs ++ root) ++ r) =
      .ok (.block { header := h, txs := resList H txs root } root, (blockEnc h txs ++ root).length, r) := by
  rw [readMessage_frameOf magic K H .block _ r hsz (checksum_len H hH _),
    decPayload_block K H h txs root hroot32 hh hn hwf hnd hroot]

/-- Every accepted stream has: a complete header, the configured magic, a declared length within `MAX_PAYLOAD_LEN` and
within the stream, a checksum equal to the truncated double hash of exactly the declared-length payload, a known command
(after trimming NULs), and a payload its decoder accepts; the rest of the stream starts right after the payload. -/
theorem accepted_frame_is_valid (magic : UInt32) (K : Bytes → Option Bytes) (H : Bytes → Bytes) (bs : Bytes)
    (m : Payload) (len : Nat) (rest : Bytes) (h : readMessage magic K H bs = .ok (m, len, rest)) :
    MSG_HDR_LEN ≤ bs.length ∧ hdrMagic bs = magic ∧ len = hdrLen bs ∧ len ≤ MAX_PAYLOAD_LEN ∧ len ≤ (hdrBody bs).length ∧
    checksum H ((hdrBody bs).take len) = hdrSum bs ∧
    (∃ k, kindOfCmd (trimNul (hdrCmd bs)) = some k ∧ decPayload K H k ((hdrBody bs).take len) = .ok m) ∧
    rest = (hdrBody bs).drop len :=
  readMessage_accepts magic K H bs m len rest h

/-- wrong network magic ⇒ rejected -/
theorem bad_magic_rejected (magic : UInt32) (K : Bytes → Option Bytes) (H : Bytes → Bytes) (bs : Bytes)
    (h : hdrMagic bs ≠ magic) : ∀ res, readMessage magic K H bs ≠ .ok res := by
  intro ⟨m, len, rest⟩ c
  exact h (readMessage_accepts magic K H bs m len rest c).2.1

/-- declared payload length above the limit ⇒ rejected -/
theorem oversize_rejected (magic : UInt32) (K : Bytes → Option Bytes) (H : Bytes → Bytes) (bs : Bytes)
    (h : hdrLen bs > MAX_PAYLOAD_LEN) : ∀ res, readMessage magic K H bs ≠ .ok res := by
  intro ⟨m, len, rest⟩ c
  obtain ⟨_, _, e, hl, _⟩ := readMessage_accepts magic K H bs m len rest c
  omega

/-- declared payload length beyond the data ⇒ rejected -/
theorem short_payload_rejected (magic : UInt32) (K : Bytes → Option Bytes) (H : Bytes → Bytes) (bs : Bytes)
    (h : hdrLen bs > (hdrBody bs).length) : ∀ res, readMessage magic K H bs ≠ .ok res := by
  intro ⟨m, len, rest⟩ c
  obtain ⟨_, _, e, _, hl, _⟩ := readMessage_accepts magic K H bs m len rest c
  omega

/-- checksum field different from the truncated double hash of the declared-length payload ⇒ rejected -/
theorem bad_checksum_rejected (magic : UInt32) (K : Bytes → Option Bytes) (H : Bytes → Bytes) (bs : Bytes)
    (h : checksum H ((hdrBody bs).take (hdrLen bs)) ≠ hdrSum bs) : ∀ res, readMessage magic K H bs ≠ .ok res := by
  intro ⟨m, len, rest⟩ c
  obtain ⟨_, _, e, _, _, hc, _⟩ := readMessage_accepts magic K H bs m len rest c
  rw [e] at hc
  exact h hc

/-- unknown command ⇒ rejected -/
theorem unknown_cmd_rejected (magic : UInt32) (K : Bytes → Option Bytes) (H : Bytes → Bytes) (bs : Bytes)
    (h : kindOfCmd (trimNul (hdrCmd bs)) = none) : ∀ res, readMessage magic K H bs ≠ .ok res := by
  intro ⟨m, len, rest⟩ c
  obtain ⟨_, _, _, _, _, _, ⟨k, hk, _⟩, _⟩ := readMessage_accepts magic K H bs m len rest c
  rw [h] at hk
  exact absurd hk (by simp)

/-- Integrity is exactly that of the 32-bit checksum: an accepted payload under the header written for `p` is `p`, or the
pair is a collision of the truncated double hash (substituted, corrupted, shortened or extended payloads alike). -/
theorem accepted_payload_or_checksum_collision (magic : UInt32) (K : Bytes → Option Bytes) (H : Bytes → Bytes) (bs p : Bytes)
    (hsum : hdrSum bs = checksum H p) (m : Payload) (len : Nat) (rest : Bytes)
    (h : readMessage magic K H bs = .ok (m, len, rest)) : (hdrBody bs).take len = p ∨ Collision4 H :=
  accepted_payload_or_collision magic K H bs p hsum m len rest h

/-- Every single-byte corruption of a written frame outside the 12-byte command field is rejected, or exhibits a collision
of the 32-bit checksum: magic bytes (wrong magic), length bytes (oversize, short, or a shorter payload with the same
checksum), checksum bytes (mismatch), payload bytes (another payload with the same checksum). The command field is excluded
because the checksum does not cover the header: `ping` and `pong` differ in one byte and carry the same payload format. -/
theorem single_byte_corruption_rejected (magic : UInt32) (K : Bytes → Option Bytes) (H : Bytes → Bytes) (hH : HashLongEnough H)
    (k : Kind) (p : Bytes) (hp : p.length ≤ MAX_PAYLOAD_LEN) (i : Nat) (b : UInt8)
    (hi : i < (frameOf magic H k p).length) (hb : (frameOf magic H k p)[i]? ≠ some b) (hcmd : i < 4 ∨ 16 ≤ i) :
    (∀ res, readMessage magic K H ((frameOf magic H k p).set i b) ≠ .ok res) ∨ Collision4 H :=
  single_byte_corruption magic K H k p hp (checksum_len H hH p) i b hi hb hcmd

/-- the header is indeed outside the checksum: one changed command byte turns a ping frame into a pong frame -/
theorem ping_pong_differ_in_one_command_byte (magic : UInt32) (H : Bytes → Bytes) (p : Bytes) :
    (frameOf magic H .ping p).set 5 0x6f = frameOf magic H .pong p := by
  have h4 : (wU32 magic).length = 4 := wU32_length magic
  simp only [frameOf, List.append_assoc]
  rw [List.set_append, if_neg (by omega), h4]
  rfl

/-! ### the field-after-field decoders

`HeadersReq`, `BlocksReq`, `DataReq`, `Ping`/`Pong`, `NotFound`, the entries of `Addr`, the head of `Inv`, the fixed part of
`Version` (up to `IsConsensus`, where eof is tested) and `ConsensusPayload.deserializationUnsigned` read every field and test
only the last eof flag. That control flow (`Ty.lenient`) accepts exactly what the strict product schema accepts. -/

def versionHeadTy : Ty :=
  lf .u32 ⊗ lf .u64 ⊗ lf .i64 ⊗ lf .u16 ⊗ lf .u16 ⊗ lf .u16 ⊗ lf (.fixed 32) ⊗ lf .u64 ⊗ lf .u64 ⊗ lf .u8 ⊗ lf .bool
def consensusUnsignedTy : Ty := lf .u32 ⊗ lf (.fixed 32) ⊗ lf .u32 ⊗ lf .u16 ⊗ lf .u32 ⊗ lf .varbytes
def invHeadTy : Ty := lf .u8 ⊗ lf .u32

theorem eof_tested_once_decoders_are_strict (K : Bytes → Option Bytes) (bs : Bytes) :
    hdrReqTy.decLenient bs = some (hdrReqTy.dec K bs) ∧ dataReqTy.decLenient bs = some (dataReqTy.dec K bs) ∧
    peerAddrTy.decLenient bs = some (peerAddrTy.dec K bs) ∧ invHeadTy.decLenient bs = some (invHeadTy.dec K bs) ∧
    versionHeadTy.decLenient bs = some (versionHeadTy.dec K bs) ∧
    consensusUnsignedTy.decLenient bs = some (consensusUnsignedTy.dec K bs) :=
  ⟨Ty.decLenient_eq K _ (by decide) bs, Ty.decLenient_eq K _ (by decide) bs, Ty.decLenient_eq K _ (by decide) bs,
   Ty.decLenient_eq K _ (by decide) bs, Ty.decLenient_eq K _ (by decide) bs, Ty.decLenient_eq K _ (by decide) bs⟩

/-- No payload decoder preallocates from an unbounded wire count. -/
theorem payload_schemas_no_unbounded_prealloc :
    ∀ k ∈ Kind.all, ∀ t, k.ty = some t → t.noUnboundedPrealloc = true := by decide

/-- Reading arbitrary byte streams never reaches the panic outcome. -/
theorem read_never_panics (magic : UInt32) (K : Bytes → Option Bytes) (H : Bytes → Bytes) (bs : Bytes) :
    readMessage magic K H bs ≠ .error .panic := readMessage_ne_panic magic K H bs

/-- every command string fits the 12-byte field, is NUL-free and is recognised after padding and trimming -/
theorem commands_recognised : ∀ k ∈ Kind.all, (cmdField k).length = MSG_CMD_LEN ∧ kindOfCmd (trimNul (cmdField k)) = some k := by
  decide

/-- (T) the message types with a codec pair in `p2pserver/message/types` are exactly the sixteen kinds plus the consensus
payload they wrap. -/
theorem inventory_covered :
    (∀ e ∈ Poly.Generated.CodecInventory.c05, (Kind.all.map Kind.goType ++ ["ConsensusPayload"]).contains e.1 = true) ∧
    (∀ k ∈ Kind.all, (Poly.Generated.CodecInventory.c05.map (·.1)).contains k.goType = true) := by decide

/-- (T) the frame and clamp constants of the model are the constants of the Go source (regenerated on every run). -/
theorem constants_match :
    MSG_CMD_LEN = Poly.Generated.CodecInventory.const "MSG_CMD_LEN" ∧ CHECKSUM_LEN = Poly.Generated.CodecInventory.const "CHECKSUM_LEN" ∧
    MSG_HDR_LEN = Poly.Generated.CodecInventory.const "MSG_HDR_LEN" ∧ MAX_PAYLOAD_LEN = Poly.Generated.CodecInventory.const "MAX_PAYLOAD_LEN" ∧
    MAX_ADDR_NODE_CNT = Poly.Generated.CodecInventory.const "MAX_ADDR_NODE_CNT" ∧
    MAX_INV_BLK_CNT = Poly.Generated.CodecInventory.const "MAX_INV_BLK_CNT" := by decide

/-! ## Non-vacuity -/
example : HashLongEnough (fun _ => [1, 2, 3, 4]) := fun _ => by simp [CHECKSUM_LEN]
example : pingTy.WF (fun _ => none) (7 : UInt64) ∧ Kind.ping.ty = some pingTy := ⟨⟨trivial, rfl⟩, rfl⟩
example : (match readMessage 5 (fun _ => none) (fun _ => [1, 2, 3, 4]) (frameOf 5 (fun _ => [1, 2, 3, 4]) .ping (pingTy.enc (7 : UInt64)) ++ [9]) with
    | .ok (.schema .ping _ _, 8, [9]) => true | _ => false) = true := by decide

end Poly.Props.C05
