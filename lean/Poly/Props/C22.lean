import Poly.Proofs.CCM
import Poly.Proofs.CCMCodec
/-!
# C22 — Each accepted import commits exactly one outbound request

Model: `Poly.Model.CCM.makeTransaction` (`MakeTransaction` / `PutRequest` / `PutMerkleVal`), encodings of
`MakeTxParam` and `ToMerkleValue` as written by `common.ZeroCopySink`. All statements hold for every verification
oracle, every hash function `H` (the leaf hash is `H (0x00 ‖ value)`) and every state.
-/
namespace Poly.Props.C22
open Poly.Model.CCM

variable {α ι : Type}

/-- **One request.** An import accepted towards an account-based destination (not the BTC or ripple router) stores
the `ToMerkleValue` encoding of (relay tx hash, source chain, verified message) under (destination chain, relay tx
hash) — all other request records are untouched — and commits exactly one cross-state leaf: the leaf hash of those
same bytes. -/
theorem one_request (H : Bytes → Bytes) (o : Oracles α ι) (env : Env) (s : State α) (src : Nat) (inp : ι)
    (hok : (importExTransfer H o env s src inp).outcome = .ok) :
    ∃ router p aux, s.chains.lookup src = some router ∧ o.verify router env s inp = .accept p aux ∧
      let value := encToMerkleValue env.txHash src p
      let s' := (importExTransfer H o env s src inp).state
      s'.requests.lookup (p.toChainID, env.txHash) = some value ∧
      (∀ k, k ≠ (p.toChainID, env.txHash) → s'.requests.lookup k = s.requests.lookup k) ∧
      (importExTransfer H o env s src inp).crossHashes = [hashLeaf H value] := by
  rcases import_requests H o env s src inp with ⟨_, r, p, a, tr, hacc, _, _, hreq, hxh⟩ | ⟨h, _⟩ | ⟨h, _⟩
  · refine ⟨r, p, a, hacc.src_registered, hacc.verified, ?_, ?_, hxh⟩
    · rw [hreq]; exact putAssoc_lookup _ _ _
    · intro k hk; rw [hreq]; exact putAssoc_lookup_other _ _ _ _ hk
  · rw [hok] at h; cases h
  · exact absurd hok h

/-- **Exactly one new key.** If no request is stored yet under (destination chain, this relay transaction's hash) —
relay transaction hashes are unique — the accepted import adds exactly that one key to the request records. -/
theorem one_new_key (H : Bytes → Bytes) (o : Oracles α ι) (env : Env) (s : State α) (src : Nat) (inp : ι)
    (hok : (importExTransfer H o env s src inp).outcome = .ok)
    (hnew : ∀ to, (to, env.txHash) ∉ s.requests.map Prod.fst) :
    ∃ to, ((importExTransfer H o env s src inp).state.requests.map Prod.fst) =
      s.requests.map Prod.fst ++ [(to, env.txHash)] := by
  rcases import_requests H o env s src inp with ⟨_, r, p, a, tr, _, _, _, hreq, _⟩ | ⟨h, _⟩ | ⟨h, _⟩
  · exact ⟨p.toChainID, by rw [hreq]; exact putAssoc_keys_new _ _ _ (hnew _)⟩
  · rw [hok] at h; cases h
  · exact absurd hok h

/-- **Content exact.** The stored bytes determine the relay transaction hash, the source chain and every field of the
verified message: two different (tx hash, source chain, message) triples never have the same request value (all
lengths and chain ids below 2^64, as in Go). Together with `one_request` the record content is exactly that triple. -/
theorem content_exact (t t' : Bytes) (f f' : Nat) (p p' : MakeTxParam)
    (ht : t.length < 2 ^ 64) (ht' : t'.length < 2 ^ 64) (hf : f < 2 ^ 64) (hf' : f' < 2 ^ 64)
    (hp : p.wf) (hp' : p'.wf) (h : encToMerkleValue t f p = encToMerkleValue t' f' p') :
    t = t' ∧ f = f' ∧ p = p' :=
  encToMerkleValue_inj t t' f f' p p' ht ht' hf hf' hp hp' h

/-- **Failed (and pending) imports commit nothing.** Unless the outcome is `ok` (or `okDelegated`, the BTC / ripple
builders), the request records are unchanged and no cross-state leaf is committed. -/
theorem failed_commits_nothing (H : Bytes → Bytes) (o : Oracles α ι) (env : Env) (s : State α) (src : Nat) (inp : ι)
    (h : (importExTransfer H o env s src inp).outcome ≠ .ok)
    (h' : (importExTransfer H o env s src inp).outcome ≠ .okDelegated) :
    (importExTransfer H o env s src inp).state.requests = s.requests ∧
    (importExTransfer H o env s src inp).crossHashes = [] := by
  rcases import_requests H o env s src inp with ⟨hok, _⟩ | ⟨hd, _⟩ | ⟨_, _, hr, hx⟩
  · exact absurd hok h
  · exact absurd hd h'
  · exact ⟨hr, hx⟩

/-- An import never commits more than one cross-state leaf. -/
theorem at_most_one_leaf (H : Bytes → Bytes) (o : Oracles α ι) (env : Env) (s : State α) (src : Nat) (inp : ι) :
    (importExTransfer H o env s src inp).crossHashes.length ≤ 1 := by
  rcases import_requests H o env s src inp with ⟨_, _, _, _, _, _, _, _, _, hx⟩ | ⟨_, hx⟩ | ⟨_, _, _, hx⟩ <;> simp [hx]

/-- Non-vacuity: a concrete accepted import; its request record and its leaf. -/
example :
    let o : Oracles Unit Unit := ⟨fun _ _ _ _ => .accept ⟨[1], [7], [], 2, [], [], []⟩ (), fun _ _ _ _ => none, fun _ _ _ _ => none⟩
    let env : Env := ⟨100, true, true, [9]⟩
    let s0 : State Unit := ⟨[(1, 0), (2, 2)], [], [], [], ()⟩
    let r := importExTransfer id o env s0 1 ()
    r.outcome = .ok ∧ r.state.requests = [((2, [9]), encToMerkleValue [9] 1 ⟨[1], [7], [], 2, [], [], []⟩)] ∧
    r.crossHashes = [0 :: encToMerkleValue [9] 1 ⟨[1], [7], [], 2, [], [], []⟩] := by
  decide

end Poly.Props.C22
