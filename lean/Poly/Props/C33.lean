import Poly.Proofs.GovConsumed
import Poly.Generated.GovKeys
/-!
# C33 — Approved governance requests are consumed

Model: `Poly.Model.Gov` (request / approve state machines of side_chain_manager, relayer_manager, node_manager,
neo3_state_manager over the stored request tables). `applied H s op`: the approval transaction `op` reached the quorum
in state `s` and its action was applied; `pending s q`: the request record `q` is stored; `approves op = some q`: `op`
is an approval of request `q`; `creates s op = some q`: `op` is the request transaction that stores `q`.
All statements hold for every hash function `H` (key of the approval ledgers) and every history.
`ApplyCanon` (candidate requests are stored under the decoded bytes of their key string) holds in the initial state and
is an invariant (`applyCanon_invariant`).
-/
namespace Poly.Props.C33
open Poly.Model.Gov

/-- The invariant used by `consumed` holds initially and after every history. -/
theorem applyCanon_invariant (H : Bytes → Bytes) (ops : List Op) : ApplyCanon (run H {} ops) := by
  apply run_preserves H ApplyCanon (fun s op h => ApplyCanon_step H s op h)
  intro kb pk h; cases h

/-- An approval is applied only while its request is pending. -/
theorem applied_needs_request (H : Bytes → Bytes) (s : State) (op : Op) (q : Req)
    (ha : approves op = some q) (h : applied H s op = true) : pending s q = true := by
  obtain ⟨ap, s1, ev, s2, n, hp, hc, hf⟩ := (applied_iff H s op).1 h
  exact needs_pending_aux H s op ap q s1 s2 n hp ha (ccs_frame H hc) hf

/-- Once the approval was applied the request is no longer pending (every request kind: side-chain registration,
update, quit; relayer registration, removal; validator candidacy; state-validator registration, removal). -/
theorem consumed (H : Bytes → Bytes) (s : State) (op : Op) (q : Req) (hinv : ApplyCanon s)
    (ha : approves op = some q) (h : applied H s op = true) : pending (step H s op) q = false := by
  obtain ⟨ap, s1, ev, s2, n, hp, hc, hf⟩ := (applied_iff H s op).1 h
  rw [step_of_applied H hp hc hf]
  exact consumed_aux H s op ap q s1 s2 n hp ha hinv hf

/-- A request that is not pending stays not pending as long as no transaction creates it. -/
theorem stays_consumed (H : Bytes → Bytes) (s : State) (q : Req) (mid : List Op)
    (hp : pending s q = false) (hmid : NoFreshRequest H s mid q) : pending (run H s mid) q = false := by
  induction mid generalizing s with
  | nil => exact hp
  | cons op rest ih => exact ih _ (pending_frame H s op q hmid.1 hp) hmid.2

/-- No second application: after an approval was applied, no later approval round for the same request (by whatever
validators, after whatever other transactions) applies it again unless a fresh request was made in between. -/
theorem no_second_application (H : Bytes → Bytes) (s : State) (op op' : Op) (q : Req) (mid : List Op)
    (hinv : ApplyCanon s) (ha : approves op = some q) (h : applied H s op = true)
    (hmid : NoFreshRequest H (step H s op) mid q) (ha' : approves op' = some q) :
    applied H (run H (step H s op) mid) op' = false := by
  have h1 := consumed H s op q hinv ha h
  have h2 := stays_consumed H _ q mid h1 hmid
  cases hb : applied H (run H (step H s op) mid) op' with
  | false => rfl
  | true => have := applied_needs_request H _ op' q ha' hb; rw [h2] at this; cases this

/-- The same over whole histories from the initial state: in any history, two applications of a request are separated
by a transaction that creates it. -/
theorem between_two_applications_a_fresh_request (H : Bytes → Bytes) (pre mid : List Op) (op op' : Op) (q : Req)
    (ha : approves op = some q) (ha' : approves op' = some q)
    (h : applied H (run H {} pre) op = true)
    (h' : applied H (run H (step H (run H {} pre) op) mid) op' = true) :
    ¬ NoFreshRequest H (step H (run H {} pre) op) mid q := by
  intro hmid
  have := no_second_application H (run H {} pre) op op' q mid (applyCanon_invariant H pre) ha h hmid ha'
  rw [this] at h'; cases h'

/-- On the source itself (tables regenerated from /repo by extract/govkeys on every run): every approval method deletes
the key prefix under which the helper of its request method stores the request, and the approved side-chain quit also
drops the chain's pending update request. -/
theorem source_deletes_the_stored_request_key :
    (∀ p ∈ requestStoredBy, ∀ k ∈ prefixesOf Poly.Generated.GovKeys.puts p.2, k ∈ prefixesOf Poly.Generated.GovKeys.deletes p.1) ∧
    (∀ p ∈ requestStoredBy, prefixesOf Poly.Generated.GovKeys.puts p.2 ≠ []) ∧
    "updateSideChainRequest" ∈ prefixesOf Poly.Generated.GovKeys.deletes "ApproveQuitSideChain" := by decide

/-- Non-vacuity (a test on literals): one validator registers, approves and quits chain id 7; the quit approval is
applied, its request was pending before and is consumed afterwards. -/
example :
    let a1 : Addr := List.replicate 20 1
    let s0 : State := run id {} [.key [2] a1, .height 10, .init 100000 [(1, "02", a1)],
      .screg [a1] ⟨a1, 7, 1, [], 1, [], []⟩, .scappr [a1] 7 a1, .scquit [a1] 7 a1]
    applied id s0 (.scapprquit [a1] 7 a1) = true ∧ approves (.scapprquit [a1] 7 a1) = some (.scquit 7)
      ∧ pending s0 (.scquit 7) = true ∧ pending (step id s0 (.scapprquit [a1] 7 a1)) (.scquit 7) = false := by decide

end Poly.Props.C33
