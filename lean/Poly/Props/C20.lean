import Poly.Proofs.CCM
import Poly.Model.CCMVote
/-!
# C20 — Each cross-chain message is executed at most once

Model: `Poly.Model.CCM` (`ImportExTransfer` in code order; every router's `MakeDepositProposal` is
`verify ; CheckDoneTx ; PutDoneTx`, the router-specific `verify` being an arbitrary oracle, which may answer
differently every time: same id with another proof, another height, other votes). All statements hold for every
oracle, every hash function and every history. `GateOn` = the done check is active in every import of the history
(main net, or test net at or above height 19954185).
-/
namespace Poly.Props.C20
open Poly.Model.CCM

variable {α ι : Type}

/-- **Replay has no effect.** If the message a submission carries (whatever proof it comes with) is already marked
done, the submission is rejected, the state is unchanged and no cross-state leaf is committed. -/
theorem replay_no_effect (H : Bytes → Bytes) (o : Oracles α ι) (env : Env) (s : State α) (src : Nat) (inp : ι)
    (router : Nat) (p : MakeTxParam) (aux : α)
    (hreg : s.chains.lookup src = some router) (hv : o.verify router env s inp = .accept p aux)
    (hgate : env.doneGate = true) (hdone : (src, p.crossChainID) ∈ s.done) :
    (∃ c, (importExTransfer H o env s src inp).outcome = .reject c) ∧
    (importExTransfer H o env s src inp).state = s ∧ (importExTransfer H o env s src inp).crossHashes = [] := by
  rcases import_cases H o env s src inp with ⟨c, h⟩ | h | ⟨r, a, hl, _, _, _, hv', h⟩ |
      ⟨r, p', a, tr, hacc, _, _, h⟩ | ⟨r, p', a, tr, s2, hacc, _, h⟩
  · exact ⟨⟨c, by simp [h, fail]⟩, by simp [h, fail], by simp [h, fail]⟩
  · -- the panic branch needs a `pending` verdict of a non-vote router; here the verdict is `accept`
    exfalso
    unfold importExTransfer at h
    by_cases hb : src ∈ s.black
    · rw [if_pos hb] at h; simp [fail] at h
    · rw [if_neg hb, hreg] at h
      simp only at h
      split at h
      · simp [fail] at h
      · split at h
        · simp [fail] at h
        · simp only [makeDepositProposal, hv, doneActive, hgate, Bool.true_or, if_true, hdone] at h
          simp [fail] at h
  · rw [hreg] at hl; cases hl; rw [hv] at hv'; cases hv'
  · have := hacc.src_registered; rw [hreg] at this; cases this
    have := hacc.verified; rw [hv] at this; cases this
    exact absurd hdone (hacc.fresh (by simp [doneActive, hgate]))
  · have := hacc.src_registered; rw [hreg] at this; cases this
    have := hacc.verified; rw [hv] at this; cases this
    exact absurd hdone (hacc.fresh (by simp [doneActive, hgate]))

/-- An accepted import was fresh and is marked afterwards: it executed a message that was not marked done, and the
message is marked done in the resulting state. -/
theorem accepted_fresh_and_marked (H : Bytes → Bytes) (o : Oracles α ι) (hconf : DelegatesConfined o)
    (env : Env) (s : State α) (src : Nat) (inp : ι) (m : Nat × Bytes) (hgate : env.doneGate = true)
    (hacc : acceptedId H o s (.importTx env src inp) = some m) :
    m ∉ s.done ∧ m ∈ (importExTransfer H o env s src inp).state.done := by
  rcases import_done H o hconf env s src inp with ⟨hnone, _⟩ | ⟨p, g, hsome, hg, hfresh, hd⟩
  · rw [hnone] at hacc; cases hacc
  · rw [hsome] at hacc; cases hacc
    have := hg hgate
    subst this
    refine ⟨hfresh rfl, ?_⟩
    rw [hd]; simp

/-- A submission that is not accepted (rejected, pending, panicking) leaves the done marks as they were. -/
theorem not_accepted_not_marked (H : Bytes → Bytes) (o : Oracles α ι) (hconf : DelegatesConfined o)
    (env : Env) (s : State α) (src : Nat) (inp : ι)
    (hacc : acceptedId H o s (.importTx env src inp) = none) :
    (importExTransfer H o env s src inp).state.done = s.done := by
  rcases import_done H o hconf env s src inp with ⟨_, hd⟩ | ⟨p, g, hsome, _, _, _⟩
  · exact hd
  · rw [hsome] at hacc; cases hacc

/-- Done marks are never removed, by any transaction of a history. -/
theorem done_persists (H : Bytes → Bytes) (o : Oracles α ι) (hconf : DelegatesConfined o) (ops : List (Op ι))
    (s : State α) (m : Nat × Bytes) (hm : m ∈ s.done) : m ∈ (run H o s ops).done :=
  run_done_mono H o hconf ops s m hm

/-- **At most once.** In every history (imports with arbitrary verification verdicts, blacklist and registry changes,
in any interleaving) a message (source chain, cross-chain id) is executed at most once; not at all if it was already
marked done at the start. -/
theorem at_most_once (H : Bytes → Bytes) (o : Oracles α ι) (hconf : DelegatesConfined o) (m : Nat × Bytes)
    (ops : List (Op ι)) (s : State α) (hg : GateOn ops) :
    countAccepted H o m s ops ≤ 1 ∧ (m ∈ s.done → countAccepted H o m s ops = 0) := by
  obtain ⟨h1, h0⟩ := count_accepted_eq H o hconf m ops s hg
  constructor
  · by_cases h : m ∈ (run H o s ops).done ∧ m ∉ s.done
    · rw [h1 h]; exact Nat.le_refl 1
    · rw [h0 h]; exact Nat.zero_le 1
  · intro hm
    exact h0 (fun h => h.2 hm)

/-- **Marked done exactly when accepted.** Starting without done marks, after any history a message is marked done
iff it was executed (exactly once) in the history. -/
theorem done_iff_accepted (H : Bytes → Bytes) (o : Oracles α ι) (hconf : DelegatesConfined o) (m : Nat × Bytes)
    (ops : List (Op ι)) (s : State α) (hs : s.done = []) (hg : GateOn ops) :
    m ∈ (run H o s ops).done ↔ countAccepted H o m s ops = 1 := by
  obtain ⟨h1, h0⟩ := count_accepted_eq H o hconf m ops s hg
  constructor
  · intro h; exact h1 ⟨h, by simp [hs]⟩
  · intro h
    by_cases h' : m ∈ (run H o s ops).done ∧ m ∉ s.done
    · exact h'.1
    · rw [h0 h'] at h; cases h

/-- The consensus-vote router of the driver is an instance of the oracle, and the BTC / ripple builders of the
driver's oracles are confined: the theorems above apply to the model that is compared with the Go code. -/
theorem vote_oracles_confined (H : Bytes → Bytes) : DelegatesConfined (voteOracles H) := by
  intro env s p src s2 h
  rcases h with h | h <;> simp [voteOracles] at h

/-- Non-vacuity: a history in which the same message is submitted twice through a router that accepts it both times;
it is executed once, the second submission is rejected, and it is marked done. -/
example :
    let o : Oracles Unit Unit := ⟨fun _ _ _ _ => .accept ⟨[1], [7], [], 2, [], [], []⟩ (), fun _ _ _ _ => none, fun _ _ _ _ => none⟩
    let env : Env := ⟨100, true, true, [9]⟩
    let s0 : State Unit := ⟨[(1, 0), (2, 2)], [], [], [], ()⟩
    let ops : List (Op Unit) := [.importTx env 1 (), .importTx env 1 ()]
    countAccepted id o (1, [7]) s0 ops = 1 ∧ (1, [7]) ∈ (run id o s0 ops).done ∧
    (importExTransfer id o env (run id o s0 [.importTx env 1 ()]) 1 ()).outcome = .reject "done" := by
  decide

end Poly.Props.C20
