import Poly.Proofs.Wallet
/-!
# C43 — Wallet accounts round-trip and are password-protected

`Poly.Model.Wallet` models account/client.go + file_store.go; scrypt + AES (ontology-crypto) are the parameters
`protect` / `unprotect` of a `Crypto` record. The cryptographic claims are explicit hypotheses of the theorems
(they are NOT proved here):

* `Correct`: decrypting with the password and parameters used for protection gives the key back;
* `Binds eqv`: under a password that is not equivalent (`eqv`) to the one used, decryption fails or yields a key
  with a different address. AEAD (aes-256-gcm) gives the first alternative; the legacy unauthenticated aes-256-ctr
  format only the second. `eqv` is needed because scrypt consumes the password as an HMAC key: passwords that
  differ only by trailing zero bytes (or a long password and its SHA-256) are the same key.
-/
namespace Poly.Props.C43
open Poly.Model.Wallet

section
variable {Key Blob : Type} (cr : Crypto Key Blob)

/-- An account added to the wallet (created or imported) whose key is protected with `pw` under the wallet's
parameters decrypts with `pw` to the same key and address, right away and after the save → load round trip. -/
theorem save_load_roundtrip (hc : Correct cr) (c c' : Client Blob) (a : Acc Blob) (pw : Bytes) (key : Key)
    (salt : Bytes) (hpw : pw ≠ []) (haddr : a.address = cr.addrOf key)
    (hblob : a.blob = cr.protect key a.address pw c.params salt) (h : c.addAccountData a = .ok c') :
    c'.getByAddress cr a.address pw = .ok (some (key, a.address)) ∧
    c'.reopen.getByAddress cr a.address pw = .ok (some (key, a.address)) := by
  obtain ⟨g1, g2, hp, hchk⟩ := added_lookup cr c c' a h pw
  have hs := stored_fields c a
  have hown : c'.getAccount cr (stored c a) pw = .ok (key, a.address) := by
    have := getAccount_own cr hc c' (stored c a) pw key salt hpw (by rw [hs.1, haddr])
      (by rw [hs.2.1, hs.1, hp, hblob]) (by rw [hs.2.2.1]; exact knownScheme_of_check _ _ hchk)
    rw [hs.1] at this; exact this
  rw [g1, g2, hown]
  exact ⟨rfl, rfl⟩

/-- `NewAccount` then reload: the account created with password `pw` is found under its address in the re-opened
wallet file and decrypts to the same key pair and address. -/
theorem reload_decrypts_same_key_and_address (hc : Correct cr) (c c' : Client Blob) (label scheme : String)
    (pw : Bytes) (key : Key) (salt : Bytes) (h : c.newAccount cr label scheme pw key salt = .ok c') :
    c'.getByAddress cr (cr.addrOf key) pw = .ok (some (key, cr.addrOf key)) ∧
    c'.reopen.getByAddress cr (cr.addrOf key) pw = .ok (some (key, cr.addrOf key)) := by
  unfold Client.newAccount at h
  split at h
  · cases h
  · rename_i hpw
    have hpw' : pw ≠ [] := by intro e; subst e; simp at hpw
    exact save_load_roundtrip cr hc c c' _ pw key salt hpw' rfl rfl h

/-- `ImportAccount` then reload, for an imported key protected with `pw` under the wallet's parameters. -/
theorem import_reload_decrypts (hc : Correct cr) (c c' : Client Blob) (a : Acc Blob) (pw : Bytes) (key : Key)
    (salt : Bytes) (hpw : pw ≠ []) (haddr : a.address = cr.addrOf key)
    (hblob : a.blob = cr.protect key a.address pw c.params salt) (h : c.importAccount a = .ok c') :
    c'.getByAddress cr a.address pw = .ok (some (key, a.address)) ∧
    c'.reopen.getByAddress cr a.address pw = .ok (some (key, a.address)) := by
  unfold Client.importAccount at h
  exact save_load_roundtrip cr hc c c'
    { a with label := (if a.label ≠ "" ∧ (mget c.accLabels a.label).isSome = true then a.label ++ "_1" else a.label),
             isDefault := false } pw key salt hpw haddr hblob h

/-- Decryption with any other (non-equivalent) password fails, before and after re-opening the file: the result
is an error, never an account — for created and for imported accounts. -/
theorem other_password_fails (eqv : Bytes → Bytes → Prop) (hb : Binds cr eqv) (c c' : Client Blob) (a : Acc Blob)
    (pw pw' : Bytes) (key : Key) (salt : Bytes) (hne : ¬ eqv pw pw') (haddr : a.address = cr.addrOf key)
    (hblob : a.blob = cr.protect key a.address pw c.params salt) (h : c.addAccountData a = .ok c') :
    (∃ e, c'.getByAddress cr a.address pw' = .error e) ∧
    (∃ e, c'.reopen.getByAddress cr a.address pw' = .error e) := by
  obtain ⟨g1, g2, hp, _⟩ := added_lookup cr c c' a h pw'
  have hs := stored_fields c a
  obtain ⟨e, he⟩ := getAccount_other cr eqv hb c' (stored c a) pw pw' key salt hne (by rw [hs.1, haddr])
    (by rw [hs.2.1, hs.1, hp, hblob])
  rw [g1, g2, he]
  exact ⟨⟨e, rfl⟩, ⟨e, rfl⟩⟩

/-- … in particular for `NewAccount`. -/
theorem new_account_other_password_fails (eqv : Bytes → Bytes → Prop) (hb : Binds cr eqv) (c c' : Client Blob)
    (label scheme : String) (pw pw' : Bytes) (key : Key) (salt : Bytes) (hne : ¬ eqv pw pw')
    (h : c.newAccount cr label scheme pw key salt = .ok c') :
    (∃ e, c'.getByAddress cr (cr.addrOf key) pw' = .error e) ∧
    (∃ e, c'.reopen.getByAddress cr (cr.addrOf key) pw' = .error e) := by
  unfold Client.newAccount at h
  split at h
  · cases h
  · exact other_password_fails cr eqv hb c c' _ pw pw' key salt hne rfl rfl h

/-- `NewAccount` refuses the empty password (which the library could never decrypt). -/
theorem new_account_needs_password (c : Client Blob) (label scheme : String) (key : Key) (salt : Bytes) :
    c.newAccount cr label scheme [] key salt = .error .emptyPassword := by
  simp [Client.newAccount]

/-- Label invariant: an added account with a non-empty label that is already indexed is refused; labels in the
label index therefore stay pairwise different. -/
theorem duplicate_label_refused (c : Client Blob) (a : Acc Blob) (hl : a.label ≠ "")
    (hd : (mget c.accLabels a.label).isSome = true) (hs : checkSigScheme a.alg a.sigScheme = true) :
    c.addAccountData a = .error .dupLabel := by
  simp [Client.addAccountData, hs, hl, hd]

/-- Default invariant: the first account of a wallet becomes the default, later ones do not change it. -/
theorem first_account_is_default (c c' : Client Blob) (a : Acc Blob) (h : c.addAccountData a = .ok c') :
    (c.accounts = [] → c'.defaultAcc = some c.nextId ∧ (stored c a).isDefault = true) ∧
    (c.accounts ≠ [] → a.isDefault = false → c'.defaultAcc = c.defaultAcc) := by
  unfold Client.addAccountData at h
  split at h
  · cases h
  · split at h
    · cases h
    · injection h with h
      subst h
      constructor
      · intro he; simp [stored, he]
      · intro hne hd
        have : c.accounts.isEmpty = false := by simpa using hne
        simp [stored, this, hd]

/-- The default account cannot be deleted. -/
theorem default_not_deletable (c : Client Blob) (addr : String) (pw : Bytes) (id : Nat) (a : Acc Blob)
    (h1 : mget c.accAddrs addr = some id) (h2 : hget c.heap id = some a) (hd : a.isDefault = true) :
    c.deleteAccount cr addr pw = .error .isDefault := by
  simp [Client.deleteAccount, h1, h2, hd]

end

/-! ### Non-vacuity: an ideal scheme satisfies both hypotheses -/

/-- ideal protection: the blob remembers key, password and parameters -/
def idealCrypto : Crypto Nat (Nat × Bytes × Params) where
  protect := fun k _ pw ps _ => (k, pw, ps)
  unprotect := fun b pw ps => if pw ≠ [] ∧ pw = b.2.1 ∧ ps = b.2.2 then some b.1 else none
  addrOf := fun k => toString k
  algOf := fun _ => "ECDSA"

example : Correct idealCrypto := by
  intro k a pw ps salt hpw
  simp [idealCrypto, hpw]

example : Binds idealCrypto (· = ·) := by
  intro k a pw pw' ps salt k' hne hu
  simp only [idealCrypto] at hu
  split at hu
  · rename_i h; exact absurd h.2.1.symm hne
  · cases hu

example : ((Client.fresh defaultParams : Client (Nat × Bytes × Params)).newAccount idealCrypto "l" "SHA256withECDSA" [1] 7 []).isOk = true := by
  decide +kernel

end Poly.Props.C43
