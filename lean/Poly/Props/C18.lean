import Poly.Proofs.NativeWitness
import Poly.Generated.Guards
import Poly.Props.C39
/-!
# C18 — Privileged native operations require the right witness

Model: `CheckWitness` / `CallingContext` / `Invoke` of `Poly.Model.Native`, the guard shapes of
`Poly.Model.NativeWitness` (`guarded`: `ValidateOwner(required)` with the error returned, before anything else the
method does; CommitDpos' variant) and the operator address derivation.

The statements about guarded methods hold for **every** method of that shape — any body (arbitrary handler program),
any way of computing the required address from the arguments, any registry around it, any state and signer set.
That each registered method of the eight native contracts, each per-chain `SyncGenesisHeader` and each
`MakeDepositProposal` *has* the expected shape (guard at the top level of the handler, failure returned, before the
first state write) is established from the Go source on every run by the translator `extract/guards`
(`Poly.Generated.Guards.table`) and compared here with the hand-written expectation `guardTable`; a method that is
registered without an expectation, or whose guard differs, breaks `guards_match_expectation_partial`.
-/
namespace Poly.Props.C18
open Poly.Model.Native

/-- A witness check passes exactly for an address that signed the transaction or for the immediately calling
contract (the frame below the current one), and never for the empty address through the calling-contract path. -/
theorem witness_exact (signers ctxs : List Addr) (a : Addr) :
    checkWitness signers ctxs a = true ↔
      a ∈ signers ∨ (callingContext ctxs ≠ emptyAddr ∧ callingContext ctxs = a) := by
  simp [checkWitness]

/-- The calling context is the frame directly below the current one: a contract further down the stack is not a
witness. -/
theorem calling_context_is_immediate (below : List Addr) (caller cur : Addr) :
    callingContext (below ++ [caller, cur]) = caller := by
  have hl : ¬ (below ++ [caller, cur]).length < 2 := by simp
  simp only [callingContext, if_neg hl]
  simp [List.getD]

/-- Deeper callers do not count: with frames `… deep, caller, cur`, an address that did not sign and differs from
`caller` is refused even if it is `deep`. -/
theorem witness_not_for_deeper_caller (signers below : List Addr) (deep caller cur : Addr)
    (hs : deep ∉ signers) (hne : caller ≠ deep) :
    checkWitness signers (below ++ [deep] ++ [caller, cur]) deep = false := by
  have h := calling_context_is_immediate (below ++ [deep]) caller cur
  cases hc : checkWitness signers (below ++ [deep] ++ [caller, cur]) deep with
  | false => rfl
  | true =>
    rcases (witness_exact _ _ _).mp hc with h1 | ⟨_, h2⟩
    · exact absurd h1 hs
    · rw [h] at h2; exact absurd h2 hne

/-- At the top level of a transaction the witness is exactly "signed by". -/
theorem witness_toplevel (signers : List Addr) (contract a : Addr) :
    checkWitness signers [contract] a = signers.contains a := checkWitness_toplevel signers contract a

variable (leafHash : Bytes → Hash)

/-- `M_requires_operator` / `M_requires_owner`, for every method of the guarded shape, in any frame: if `Invoke` of a
method whose handler is `guard; body` returns normally, the address the guard asks for (`req args`: the consensus
operator for operator methods, the owner named by the parameters for owner methods) passed `CheckWitness` in the
method's frame — or the method is CommitDpos and the epoch is due. -/
theorem guarded_method_requires_witness (inv : Inv) (s : Svc) (sm : List (Bytes × Handler)) (addr : Addr) (args : Bytes)
    (g : Guard) (req : Bytes → Addr) (due : Bool) (body : Bytes → Prog) (hg : g ≠ .none) (r : Bytes) (s' : Svc)
    (h : invokeBody leafHash inv s sm addr args (fun a => guarded g (req a) due (body a)) = (.ok r, s')) :
    checkWitness s.signers (s.contexts ++ [addr]) (req args) = true ∨ (g = .operatorOrDue ∧ due = true) :=
  (invokeBody_guarded leafHash inv s sm addr args g req due body hg).1 r s' h

/-- Whole transaction: a transaction that calls a guarded method directly and succeeds was signed by the required
address (or the method is CommitDpos and the epoch is due). -/
theorem privileged_tx_requires_signer (reg : Registry) (env : BlockEnv) (bs : BlockState) (tx : Tx)
    (addr : Addr) (m args : Bytes) (c : Contract)
    (g : Guard) (req : Bytes → Addr) (due : Bool) (body : Bytes → Prog) (hg : g ≠ .none)
    (hcode : decodeParam tx.code = some (addr, m, args)) (hreg : reg addr = some c)
    (hm : lookupMethod (registerAll [] c) m = some (fun a => guarded g (req a) due (body a)))
    (hok : (execTx leafHash reg env bs tx).2.ok = true) :
    (req args) ∈ tx.signers ∨ (g = .operatorOrDue ∧ due = true) := by
  rcases execTx_cases leafHash reg env bs tx with ⟨_, e⟩ | ⟨r, s, hq, ⟨_, e⟩ | ⟨hnf, _⟩⟩
  · rw [e] at hok; cases hok
  · rw [e] at hok; cases hok
  · have hstep : invokeF leafHash reg fuel (newService env { bs with cache := [] } tx) =
        invokeBody leafHash (invokeF leafHash reg 1029) (newService env { bs with cache := [] } tx)
          (registerAll [] c) addr args (fun a => guarded g (req a) due (body a)) := by
      show invokeStep leafHash reg (invokeF leafHash reg 1029) _ = _
      unfold invokeStep
      simp only [newService, hcode, hreg, hm]
    rw [hstep] at hq
    cases r with
    | ok v =>
      have := guarded_method_requires_witness leafHash _ _ _ addr args g req due body hg v s hq
      rcases this with h1 | h1
      · left
        have h2 : checkWitness tx.signers ([] ++ [addr]) (req args) = true := h1
        rw [checkWitness_toplevel] at h2
        simpa using h2
      · exact Or.inr h1
    | ctxErr =>
      have := toplevel_not_ctxErr leafHash reg env { bs with cache := [] } tx
      rw [hstep, hq] at this; exact absurd rfl this
    | err => cases hnf
    | diverge => cases hnf
    | panic => cases hnf

/-- From signatures to the privileged effect (composition with the model of `checkTransactionSignatures`, C39): if
the signer set of the transaction is what the validator attributes to its signature entries (`tx.signers = dedup addrs`),
then a successful direct call of a guarded method means that one of the entries HAS the required address — the operator's
m-of-n program address for operator methods, so nothing but an entry over exactly those keys with that threshold will do
(up to a collision of the address hash, C39 `program_injective_address_or_collision`) — and that entry is valid: its single
key's signature verifies, or its first m signatures decode and verify under m pairwise different listed keys. -/
theorem privileged_tx_needs_valid_signature_entry {K S : Type}
    (wf : S → Bool) (verify : K → S → Bool) (addr1 : K → Addr) (addrM : List K → Nat → Addr)
    (entries : List (Poly.Model.Sig.Entry K S)) (addrs : List Addr)
    (hsig : Poly.Model.Sig.checkTransactionSignatures wf verify addr1 addrM entries = .ok addrs)
    (reg : Registry) (env : BlockEnv) (bs : BlockState) (tx : Tx)
    (hsigners : tx.signers = Poly.Model.Sig.dedup addrs)
    (addr : Addr) (m args : Bytes) (c : Contract)
    (g : Guard) (req : Bytes → Addr) (due : Bool) (body : Bytes → Prog) (hg : g ≠ .none)
    (hcode : decodeParam tx.code = some (addr, m, args)) (hreg : reg addr = some c)
    (hm : lookupMethod (registerAll [] c) m = some (fun a => guarded g (req a) due (body a)))
    (hok : (execTx leafHash reg env bs tx).2.ok = true) :
    (∃ e ∈ entries, Poly.Proofs.Sig.entryAddr addr1 addrM e = req args ∧
      ((∃ k s rest, e.keys = [k] ∧ e.sigs = s :: rest ∧ e.m = 1 ∧ wf s = true ∧ verify k s = true) ∨
       (2 ≤ e.keys.length ∧ ∃ ps : List Nat, ps.length = e.m ∧ ps.Nodup ∧
          ∀ x ∈ ps.zip (e.sigs.take e.m), ∃ k, e.keys[x.1]? = some k ∧ wf x.2 = true ∧ verify k x.2 = true))) ∨
    (g = .operatorOrDue ∧ due = true) := by
  rcases privileged_tx_requires_signer leafHash reg env bs tx addr m args c g req due body hg hcode hreg hm hok with h | h
  · left
    rw [hsigners] at h
    obtain ⟨e, he, hea⟩ := ((Poly.Props.C39.signers_exact wf verify addr1 addrM entries addrs hsig).1 (req args)).mp h
    exact ⟨e, he, hea, Poly.Props.C39.sig_sound wf verify addr1 addrM entries addrs hsig e he⟩
  · exact Or.inr h

/-- `commitDpos_due`: an epoch change forced without the operator's witness succeeds only when it is due. -/
theorem commitDpos_due (inv : Inv) (s : Svc) (sm : List (Bytes × Handler)) (addr : Addr) (args : Bytes)
    (operator : Addr) (due : Bool) (body : Bytes → Prog) (r : Bytes) (s' : Svc)
    (h : invokeBody leafHash inv s sm addr args (fun a => guarded .operatorOrDue operator due (body a)) = (.ok r, s'))
    (hw : checkWitness s.signers (s.contexts ++ [addr]) operator = false) : due = true := by
  rcases guarded_method_requires_witness leafHash inv s sm addr args .operatorOrDue (fun _ => operator) due body
    (by decide) r s' h with h1 | h1
  · rw [hw] at h1; cases h1
  · exact h1.2

/-- `failed_guard_no_write`: without the witness the method returns an error and has not touched the transaction
cache nor performed any other effect (so, by C15, the transaction leaves no trace at all). -/
theorem failed_guard_no_write (inv : Inv) (s : Svc) (sm : List (Bytes × Handler)) (addr : Addr) (args : Bytes)
    (g : Guard) (req : Bytes → Addr) (due : Bool) (body : Bytes → Prog) (hg : g ≠ .none)
    (hlen : ¬ s.contexts.length > maxContextLen) (hnp : s.panicked = false)
    (hw : checkWitness s.signers (s.contexts ++ [addr]) (req args) = false)
    (hd : ¬ (g = .operatorOrDue ∧ due = true)) :
    (invokeBody leafHash inv s sm addr args (fun a => guarded g (req a) due (body a))).1 = .err ∧
    (invokeBody leafHash inv s sm addr args (fun a => guarded g (req a) due (body a))).2.effLog = s.effLog ∧
    (invokeBody leafHash inv s sm addr args (fun a => guarded g (req a) due (body a))).2.cache = s.cache :=
  (invokeBody_guarded leafHash inv s sm addr args g req due body hg).2 hlen hnp hw hd

/-! ### Every registered method has the guard the property demands -/

/-- Places where the code as written departs from the expectation (each is reported by the check as a finding with a
concrete transaction; see `known_findings.json`). -/
def knownExceptions : List ((String × String) × String) := [
  (("header_sync/btc", "SyncGenesisHeader"), "none")   -- BTC trust root can be installed by anybody
]

def expectedGuard (k : String × String) : Option String := (guardOf k.1 k.2).map Guard.toString

/-- FULL statement (not provable on the current tree, kept as the goal): the guard extracted from the source of every
registered method equals the expectation. -/
def guards_match_expectation : Prop :=
  ∀ e ∈ Poly.Generated.Guards.table, expectedGuard e.1 = some e.2

/-- Proved part: every method found in the source has an expectation and its extracted guard equals it, except the
listed known exceptions; and every expectation refers to a method that exists (no stale entry). What is missing for
the full statement: `header_sync/btc.SyncGenesisHeader` has no witness guard at all. -/
theorem guards_match_expectation_partial :
    (∀ e ∈ Poly.Generated.Guards.table, expectedGuard e.1 = some e.2 ∨ e ∈ knownExceptions) ∧
    (∀ x ∈ guardTable, ∃ e ∈ Poly.Generated.Guards.table, e.1 = x.1) := by
  constructor
  · have h : (Poly.Generated.Guards.table.all fun e => expectedGuard e.1 == some e.2 || knownExceptions.contains e) = true := by
      decide +kernel
    intro e he
    have := List.all_eq_true.mp h e he
    simp only [Bool.or_eq_true, beq_iff_eq, List.contains_iff_mem] at this
    exact this
  · have h : (guardTable.all fun x => Poly.Generated.Guards.table.any fun e => e.1 == x.1) = true := by decide +kernel
    intro x hx
    have := List.all_eq_true.mp h x hx
    obtain ⟨e, he, heq⟩ := List.any_eq_true.mp this
    exact ⟨e, he, by simpa using heq⟩

/-- The known exceptions are real (not stale): each is what the source says today. -/
theorem known_exceptions_present : ∀ x ∈ knownExceptions, x ∈ Poly.Generated.Guards.table := by decide +kernel

/-! ### Satisfiability -/

private def cT : Addr := List.replicate 20 0xd4
private def opA : Addr := List.replicate 20 0x0b
private def regT : Registry := fun a =>
  if a = cT then some [([0x6d], fun _ => guarded .operator opA false (.put [1] [1] (.ret [1])))] else none
private def txT (signers : List Addr) : Tx := { signers := signers, code := encodeParam cT [0x6d] [], chainOk := true }
private def lh : Bytes → Hash := fun d => 0 :: d

/-- With the operator's signature the guarded method runs and writes; without it the transaction fails with no effect. -/
example : (execTx lh regT ⟨[], 1, 1⟩ ⟨[], []⟩ (txT [opA])).2.ok = true ∧
    (execTx lh regT ⟨[], 1, 1⟩ ⟨[], []⟩ (txT [opA])).1.overlay = [([5, 1], [1])] ∧
    (execTx lh regT ⟨[], 1, 1⟩ ⟨[], []⟩ (txT [cT])).2.ok = false ∧
    (execTx lh regT ⟨[], 1, 1⟩ ⟨[], []⟩ (txT [cT])).2.effs = [] := by decide

end Poly.Props.C18
