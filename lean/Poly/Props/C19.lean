import Poly.Proofs.CCMGenesis
/-!
# C19 — Side-chain trust roots are installed at most once

Model: `Poly.Model.Genesis` — the `SyncGenesisHeader` entrance and, per router, the installer as
*witness ; decode ; existence test ; writes*, with the table `routers` describing every router of
`header_sync.GetChainHandler` as the code is (tied to the Go code by the correspondence stream `genesis`).
The light-client state is abstracted to (trust root, number of synced headers); the registry maps a chain to one
router for the whole history.
-/
namespace Poly.Props.C19
open Poly.Model.Genesis

/-- Every router of the table has the once-only guard that returns an error (kernel computation over the table). -/
theorem all_routers_guarded : AllGuarded routers := by
  intro spec h
  revert spec
  decide

/-- The table covers exactly the routers `header_sync.GetChainHandler` knows. -/
theorem routers_complete :
    routers.map (·.router) = [1, 2, 3, 4, 5, 6, 7, 8, 9, 10, 11, 12, 14, 15, 16, 17, 18, 19, 20, 21, 22] := by decide

/-- **Once only (router).** For a router whose installer has the error guard, a chain that already has a trust root
rejects every installation attempt — same or different genesis data, decodable or not, with or without the operator
witness — and its state is unchanged. -/
theorem genesis_once (spec : RouterSpec) (hg : spec.guard = .errorIfInstalled) (s : GState) (chain : Nat) (lc : LC)
    (hin : s.lookup chain = some lc) (witness : Bool) (genesis : Option Nat) :
    (∃ c, (syncGenesis spec s chain witness genesis).1 = .reject c) ∧ (syncGenesis spec s chain witness genesis).2 = s :=
  syncGenesis_installed spec hg s chain lc hin witness genesis

/-- **Once only (entrance, every router).** Through the entrance, whatever router the registry names, whatever the
height: an installed chain rejects every further `SyncGenesisHeader` and the whole state is unchanged. -/
theorem genesis_once_entrance (reg : Nat → Option Nat) (mainNet : Bool) (height : Nat) (s : GState) (chain : Nat) (lc : LC)
    (hin : s.lookup chain = some lc) (witness : Bool) (genesis : Option Nat) :
    (∃ c, (entrance routers reg mainNet height s chain witness genesis).1 = .reject c) ∧
    (entrance routers reg mainNet height s chain witness genesis).2 = s :=
  entrance_installed routers all_routers_guarded reg mainNet height s chain lc hin witness genesis

/-- A failed installation never changes anything (whatever the guard of the router). -/
theorem failed_install_no_change (spec : RouterSpec) (s : GState) (chain : Nat) (witness : Bool) (genesis : Option Nat)
    (c : String) (h : (syncGenesis spec s chain witness genesis).1 = .reject c) :
    (syncGenesis spec s chain witness genesis).2 = s :=
  syncGenesis_reject_unchanged spec s chain witness genesis c h

/-- A successful installation on a chain without trust root installs exactly the submitted genesis. -/
theorem first_install_sets_root (spec : RouterSpec) (s : GState) (chain : Nat) (witness : Bool) (genesis : Option Nat)
    (hnot : s.lookup chain = none) (hok : (syncGenesis spec s chain witness genesis).1 = .ok) :
    ∃ g, genesis = some g ∧ rootOf (syncGenesis spec s chain witness genesis).2 chain = some g := by
  obtain ⟨g, hg, hs⟩ := syncGenesis_fresh spec s chain witness genesis hnot hok
  exact ⟨g, hg, by rw [hs]; simp [rootOf, putLC_lookup_same]⟩

/-- **Histories: the trust root never changes.** Along every history of installation attempts (any chain, any data,
any signer) interleaved with header syncs (accepted or not), a chain that has a trust root keeps exactly that one. -/
theorem trust_root_stable (reg : Nat → Option Nat) (mainNet : Bool) (ops : List GOp) (s : GState) (c r : Nat)
    (h : rootOf s c = some r) : rootOf (grun routers reg mainNet s ops) c = some r :=
  grun_root_stable routers all_routers_guarded reg mainNet ops s c r h

/-- **Histories: the trust root is the first one installed.** After any history the trust root of a chain is the one
that was present at the first moment the chain had one (`firstRoot`), i.e. the first successful installation. -/
theorem trust_root_is_first (reg : Nat → Option Nat) (mainNet : Bool) (c : Nat) (ops : List GOp) (s : GState) :
    rootOf (grun routers reg mainNet s ops) c = firstRoot routers reg mainNet c s ops :=
  grun_root_eq_first routers all_routers_guarded reg mainNet c ops s

/-- Without the error guard the property fails: an installer without existence test overwrites the trust root, one
that skips silently reports success (these are the two defect shapes the check looks for in the Go code). -/
theorem unguarded_installers_violate :
    (syncGenesis ⟨"x", 3, true, true, .none, 0⟩ [(7, ⟨0, 0⟩)] 7 true (some 1)) = (.ok, [(7, ⟨1, 0⟩)]) ∧
    (syncGenesis ⟨"y", 4, true, true, .silentIfInstalled, 0⟩ [(7, ⟨0, 0⟩)] 7 true (some 1)) = (.ok, [(7, ⟨0, 0⟩)]) := by
  decide

/-- Non-vacuity: install genesis 0 on chain 7 through the eth router, sync two headers, try to install genesis 1:
rejected, root still 0. -/
example :
    let reg : Nat → Option Nat := fun c => if c = 7 then some 2 else none
    let ops := [GOp.install 100 7 true (some 0), .sync 7 true, .sync 7 true, .install 101 7 true (some 1)]
    rootOf (grun routers reg true [] ops) 7 = some 0 ∧
    (entrance routers reg true 101 (grun routers reg true [] (ops.take 3)) 7 true (some 1)).1 = .reject "installed" := by
  decide

end Poly.Props.C19
