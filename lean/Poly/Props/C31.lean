import Poly.Proofs.LCOnt
import Poly.Proofs.LCNeo
/-!
# C31 — Ontology and NEO light clients follow authenticated validator changes

Property theorems only. Models: `Poly.Model.LCOnt` (`verifyHeader`, `FindKeyHeight`, `UpdateConsensusPeer`,
`ONTHandler.SyncBlockHeader`, the storage part of `SyncGenesisHeader`) and `Poly.Model.LCNeo` (`SyncBlockHeader`,
`verifyHeader`, `SyncGenesisHeader` of neo / neo3 / neo3legacy). Signature verification, the NEO witness verdict and
hashing are parameters; the threshold test is regenerated from the Go source on every run.
-/
namespace Poly.Props.C31
open Poly.Generated.Thresholds
open Poly.Model

/-! ## Ontology -/

theorem ont_header_threshold_meaning (signers tracked : Nat) :
    ont_verifyHeader0 (signers : Int) (tracked : Int) = true ↔ 3 * signers < tracked := by
  unfold ont_verifyHeader0
  simp only [decide_eq_true_eq]
  omega

/-- **ont_header_quorum** (with **ont_keyheight_choice**). In every state reachable by any sequence of operations
(headers in any height order), a header that `verifyHeader` accepts is signed by a duplicate-free set `S` of members
of the peer set recorded at the GREATEST key height strictly below the header's height, `3·|S| ≥ |tracked|`, every
member of `S` with a deserializable verifying signature; that peer set lists no member twice. -/
theorem ont_header_quorum {κ σ : Type} [BEq κ] [LawfulBEq κ] (des : σ → Bool) (ops : List (LCOnt.Op κ σ))
    (ver : κ → σ → Bool) (h : Nat) (bks : List κ) (sigs : List σ)
    (hok : LCOnt.verifyHeader des ver (LCOnt.run des LCOnt.St.empty ops) h bks sigs = .ok ()) :
    ∃ kh tracked, kh ∈ (LCOnt.run des LCOnt.St.empty ops).keyHeights ∧ kh < h ∧
      (∀ v ∈ (LCOnt.run des LCOnt.St.empty ops).keyHeights, v < h → v ≤ kh) ∧
      LCOnt.peersAt (LCOnt.run des LCOnt.St.empty ops).peers kh = some tracked ∧ tracked.Nodup ∧
      ∃ S : List κ, S.Nodup ∧ (∀ k ∈ S, k ∈ tracked) ∧
        (∀ k ∈ S, ∃ s ∈ sigs, des s = true ∧ ver k s = true) ∧ tracked.length ≤ 3 * S.length := by
  have hi := Poly.Proofs.LCOnt.inv_run des ops LCOnt.St.empty Poly.Proofs.LCOnt.inv_empty
  obtain ⟨kh, tracked, h1, h2, h3, h4, h5, h6⟩ :=
    Poly.Proofs.LCOnt.verifySigned_ok ont_verifyHeader0 des ver _ h bks sigs hok
  obtain ⟨k1, k2, k3⟩ := Poly.Proofs.LCOnt.findKeyHeight_some _ hi.sorted h kh h1
  refine ⟨kh, tracked, k1, k2, k3, h2, hi.nodup _ (Poly.Proofs.LCOnt.peersAt_mem _ kh tracked h2), bks, h4, h5, h6, ?_⟩
  have : ¬ (3 * bks.length < tracked.length) := fun hc => by
    have := (ont_header_threshold_meaning bks.length tracked.length).mpr hc
    simp [h3] at this
  omega

/-- `FindKeyHeight` fails exactly when no recorded key height lies strictly below the header: such a header is
refused (any state). -/
theorem ont_no_keyheight_rejects {κ σ : Type} [BEq κ] (des : σ → Bool) (ver : κ → σ → Bool) (st : LCOnt.St κ)
    (h : Nat) (bks : List κ) (sigs : List σ) (hno : ∀ v ∈ st.keyHeights, ¬ v < h) :
    LCOnt.verifyHeader des ver st h bks sigs = .error .nokeyheight := by
  have : LCOnt.findKeyHeight st.keyHeights h = none := by
    unfold LCOnt.findKeyHeight
    apply List.find?_eq_none.mpr
    intro v hv
    simpa using hno v hv
  simp [LCOnt.verifyHeader, LCOnt.verifySigned, this]

/-- One `SyncBlockHeader` iteration changes the store only when the height is new and `verifyHeader` accepted. -/
theorem ont_sync_changes_only_if_verified {κ σ : Type} [BEq κ] (des : σ → Bool) (ver : κ → σ → Bool)
    (st : LCOnt.St κ) (h : Nat) (cfg : LCOnt.Cfg κ) (bks : List κ) (sigs : List σ) :
    (LCOnt.syncHeader des ver st h cfg bks sigs).1 = st ∨
      (st.hdrs.contains h = false ∧ LCOnt.verifyHeader des ver st h bks sigs = .ok ()) := by
  unfold LCOnt.syncHeader
  split
  · exact Or.inl rfl
  · rename_i hc
    split
    · exact Or.inl rfl
    · rename_i u hu
      exact Or.inr ⟨by simpa using hc, by cases u; exact hu⟩

/-- **History form.** Every stored header height was installed by a genesis operation that met a store without any
header (operator, once only) or by a header that `verifyHeader` accepted in the state its operation met. -/
theorem ont_stored_headers_all_verified {κ σ : Type} [BEq κ] [LawfulBEq κ] (des : σ → Bool)
    (ops : List (LCOnt.Op κ σ)) (h : Nat) (hm : h ∈ (LCOnt.run des LCOnt.St.empty ops).hdrs) :
    ∃ pre o post, ops = pre ++ o :: post ∧
      ((∃ cfg, o = .genesis h cfg ∧ (LCOnt.run des LCOnt.St.empty pre).hdrs = []) ∨
       (∃ cfg bks sigs ver, o = .hdr h cfg bks sigs ver ∧
          LCOnt.verifyHeader des ver (LCOnt.run des LCOnt.St.empty pre) h bks sigs = .ok ())) := by
  rcases Poly.Proofs.LCOnt.run_trace des (·.hdrs) (Poly.Proofs.LCOnt.HdrStep des)
    (Poly.Proofs.LCOnt.hdr_step des) ops LCOnt.St.empty h hm with h0 | ⟨pre, o, post, rfl, hp⟩
  · simp [LCOnt.St.empty] at h0
  · refine ⟨pre, o, post, rfl, ?_⟩
    cases o with
    | genesis h' cfg => obtain ⟨rfl, he⟩ := hp; exact Or.inl ⟨cfg, rfl, he⟩
    | hdr h' cfg bks sigs ver => obtain ⟨rfl, hv⟩ := hp; exact Or.inr ⟨cfg, bks, sigs, ver, rfl, hv⟩
    | msg _ _ _ _ => exact hp.elim
    | dep _ _ _ _ => exact hp.elim

/-- **ont_peers_only_from_verified.** Every recorded peer set (height, members) comes from the configuration
carried by the genesis header (operator; accepted only while no header is stored) or by a header at a height not stored before that `verifyHeader` accepted in
the state its operation met; the members recorded are exactly the configuration's ids (repeats collapsed). -/
theorem ont_peers_only_from_verified {κ σ : Type} [BEq κ] [LawfulBEq κ] (des : σ → Bool)
    (ops : List (LCOnt.Op κ σ)) (e : Nat × List κ) (hm : e ∈ (LCOnt.run des LCOnt.St.empty ops).peers) :
    ∃ pre o post ps, ops = pre ++ o :: post ∧ e = (e.1, LCOnt.dedupKeys ps) ∧ (∀ k, k ∈ e.2 ↔ k ∈ ps) ∧
      ((o = .genesis e.1 (.peers ps) ∧ (LCOnt.run des LCOnt.St.empty pre).hdrs = []) ∨
       (∃ bks sigs ver, o = .hdr e.1 (.peers ps) bks sigs ver ∧
          LCOnt.verifyHeader des ver (LCOnt.run des LCOnt.St.empty pre) e.1 bks sigs = .ok () ∧
          e.1 ∉ (LCOnt.run des LCOnt.St.empty pre).hdrs)) := by
  rcases Poly.Proofs.LCOnt.run_trace des (·.peers) (Poly.Proofs.LCOnt.PeerStep des)
    (Poly.Proofs.LCOnt.peer_step des) ops LCOnt.St.empty e hm with h0 | ⟨pre, o, post, rfl, hp⟩
  · simp [LCOnt.St.empty] at h0
  · cases o with
    | genesis h' cfg =>
      cases cfg with
      | none => exact hp.elim
      | bad => exact hp.elim
      | peers ps =>
        obtain ⟨rfl, he⟩ := hp
        exact ⟨pre, _, post, ps, rfl, rfl, fun k => Poly.Proofs.LCOnt.mem_dedupKeys k ps, Or.inl ⟨rfl, he⟩⟩
    | hdr h' cfg bks sigs ver =>
      cases cfg with
      | none => exact hp.elim
      | bad => exact hp.elim
      | peers ps =>
        obtain ⟨rfl, hv, hn⟩ := hp
        refine ⟨pre, _, post, ps, rfl, rfl, fun k => Poly.Proofs.LCOnt.mem_dedupKeys k ps, Or.inr ⟨bks, sigs, ver, rfl, hv, ?_⟩⟩
        simpa using hn
    | msg _ _ _ _ => exact hp.elim
    | dep _ _ _ _ => exact hp.elim

/-- Cross-chain message operations never touch key heights or peer sets. -/
theorem ont_msgs_do_not_change_peers {κ σ : Type} [BEq κ] (des : σ → Bool) (ver : κ → σ → Bool) (st : LCOnt.St κ)
    (h : Nat) (bks : List κ) (sigs : List σ) :
    (LCOnt.syncMsg des ver st h bks sigs).1.peers = st.peers ∧
    (LCOnt.syncMsg des ver st h bks sigs).1.keyHeights = st.keyHeights ∧
    (LCOnt.depositMsg des ver st h bks sigs).1.peers = st.peers ∧
    (LCOnt.depositMsg des ver st h bks sigs).1.keyHeights = st.keyHeights := by
  unfold LCOnt.syncMsg LCOnt.depositMsg
  refine ⟨?_, ?_, ?_, ?_⟩ <;>
  · split
    · rfl
    · split <;> rfl

/-! ## NEO 2.x, NEO N3, NEO N3 legacy -/

/-- **neo_change_needs_witness.** `SyncBlockHeader` changes the tracked consensus only to the (index,
next-consensus) of a header of the batch whose index is above the tracked height, whose next-consensus differs from
the tracked one, whose witness script hashes to the TRACKED next-consensus (the one tracked before the batch) and
whose witness verified. -/
theorem neo_change_needs_witness {χ : Type} [BEq χ] [LawfulBEq χ] (st : Option (LCNeo.Tracked χ))
    (hs : List (LCNeo.Hdr χ)) :
    (LCNeo.syncBlockHeader st hs).1 = st ∨
      ∃ t t', st = some t ∧ (LCNeo.syncBlockHeader st hs).1 = some t' ∧ (LCNeo.syncBlockHeader st hs).2 = .ok ∧
        ∃ h ∈ hs, t' = ⟨h.index, h.next⟩ ∧ h.next ≠ t.next ∧ h.index > t.height ∧ h.wscript = t.next ∧ h.wok = true := by
  unfold LCNeo.syncBlockHeader
  cases st with
  | none => exact Or.inl rfl
  | some t =>
    simp only
    cases hl : LCNeo.syncLoop t hs none with
    | error e => exact Or.inl rfl
    | ok res =>
      cases res with
      | none => exact Or.inl rfl
      | some t' =>
        right
        obtain ⟨h1, _⟩ := Poly.Proofs.LCNeo.syncLoop_ok t hs none (some t') hl
        rcases h1 with h1 | ⟨t'', ht, hauth⟩
        · cases h1
        · cases ht
          exact ⟨t, t', rfl, rfl, rfl, hauth⟩

/-- A batch is accepted only if EVERY header of it that would change the consensus (other next-consensus, higher
index) carries the tracked script and a verifying witness; a refused batch changes nothing. -/
theorem neo_batch_all_checked {χ : Type} [BEq χ] [LawfulBEq χ] (t : LCNeo.Tracked χ) (hs : List (LCNeo.Hdr χ)) :
    ((LCNeo.syncBlockHeader (some t) hs).2 = .ok →
        ∀ h ∈ hs, h.next ≠ t.next → h.index > t.height → h.wscript = t.next ∧ h.wok = true) ∧
    ((LCNeo.syncBlockHeader (some t) hs).2 ≠ .ok → (LCNeo.syncBlockHeader (some t) hs).1 = some t) := by
  unfold LCNeo.syncBlockHeader
  simp only
  cases hl : LCNeo.syncLoop t hs none with
  | error e => exact ⟨fun h => (nomatch h), fun _ => rfl⟩
  | ok res =>
    have h2 := (Poly.Proofs.LCNeo.syncLoop_ok t hs none res hl).2
    cases res with
    | none => exact ⟨fun _ => h2, fun h => absurd rfl h⟩
    | some t' => exact ⟨fun _ => h2, fun h => absurd rfl h⟩

/-- Header sync never creates a tracked consensus; genesis installs one only when none is tracked and is refused
otherwise. -/
theorem neo_install_only_by_first_genesis {χ : Type} [BEq χ] (st : Option (LCNeo.Tracked χ))
    (hs : List (LCNeo.Hdr χ)) (index : Nat) (next : χ) :
    (st = none → (LCNeo.syncBlockHeader st hs).1 = none) ∧
    (∀ t, st = some t → LCNeo.syncGenesis st index next = (some t, .reject .initialized)) ∧
    (st = none → (LCNeo.syncGenesis st index next).1 = some ⟨index, next⟩) := by
  refine ⟨?_, ?_, ?_⟩
  · rintro rfl; rfl
  · rintro t rfl; rfl
  · rintro rfl; rfl

private theorem neo_step_height {χ : Type} [BEq χ] [LawfulBEq χ] (t : LCNeo.Tracked χ) (o : LCNeo.Op χ) :
    ∃ t', LCNeo.apply (some t) o = some t' ∧ (t' = t ∨ t.height < t'.height) := by
  cases o with
  | genesis i n => exact ⟨t, rfl, Or.inl rfl⟩
  | sync hs =>
    rcases neo_change_needs_witness (some t) hs with h | ⟨t0, t', h0, h1, _, h, _, rfl, _, hgt, _⟩
    · exact ⟨t, h, Or.inl rfl⟩
    · cases h0
      exact ⟨_, h1, Or.inr hgt⟩

/-- **neo_height_increases.** Along every sequence of genesis / header-sync operations, once a consensus is
tracked it stays tracked, and it is either unchanged or its height has strictly increased. -/
theorem neo_height_increases {χ : Type} [BEq χ] [LawfulBEq χ] (ops : List (LCNeo.Op χ)) (t : LCNeo.Tracked χ) :
    ∃ t', LCNeo.run (some t) ops = some t' ∧ (t' = t ∨ t.height < t'.height) := by
  induction ops generalizing t with
  | nil => exact ⟨t, rfl, Or.inl rfl⟩
  | cons o os ih =>
    obtain ⟨t1, h1, hh1⟩ := neo_step_height t o
    obtain ⟨t2, h2, hh2⟩ := ih t1
    refine ⟨t2, by simp [LCNeo.run, h1, h2], ?_⟩
    rcases hh1 with rfl | hh1
    · exact hh2
    · rcases hh2 with rfl | hh2
      · exact Or.inr hh1
      · exact Or.inr (Nat.lt_trans hh1 hh2)

/-- **neo_change_quorum.** With the modelled witness check: the header that changed the consensus carries at
least `m` signatures by distinct keys of the m-of-n script whose hash was tracked. -/
theorem neo_change_quorum {κ σ χ : Type} [BEq χ] [LawfulBEq χ] (ver : κ → σ → Bool) (scriptOf : Nat → List κ → χ)
    (t : LCNeo.Tracked χ) (index : Nat) (next : χ) (m : Nat) (keys : List κ) (sigs : List σ) (hk : keys.Nodup)
    (hchg : (LCNeo.syncBlockHeader (some t)
      [⟨index, next, scriptOf m keys, LCNeo.witnessCheck ver m keys sigs⟩]).1 ≠ some t) :
    scriptOf m keys = t.next ∧ index > t.height ∧
      ∃ S : List κ, S.Nodup ∧ (∀ k ∈ S, k ∈ keys) ∧ m ≤ S.length ∧ ∀ k ∈ S, ∃ s ∈ sigs, ver k s = true := by
  rcases neo_change_needs_witness (some t) [⟨index, next, scriptOf m keys, LCNeo.witnessCheck ver m keys sigs⟩]
    with h | ⟨t0, t', h0, _, _, h, hm, _, _, hgt, hws, hwok⟩
  · exact absurd h hchg
  · cases h0
    have : h = ⟨index, next, scriptOf m keys, LCNeo.witnessCheck ver m keys sigs⟩ := by simpa using hm
    subst this
    obtain ⟨S, hS, hmS, hv⟩ := Poly.Proofs.LCNeo.witnessCheck_sound ver m keys sigs hwok
    exact ⟨hws, hgt, S, hS.nodup hk, fun k hk' => hS.subset hk', hmS, hv⟩

/-! ## Non-vacuity -/

/-- Peer set {1,2,3,4} at key height 5, {7,8} at key height 20: a header at 12 signed by 1,2 is accepted and one at
25 must be signed from {7,8}; the header at 12 cannot be signed by the newer set. -/
example :
    let st : LCOnt.St Nat := { keyHeights := [20, 5], peers := [(20, [7, 8]), (5, [1, 2, 3, 4])], hdrs := [20, 5], msgs := [] }
    let ver : Nat → Nat → Bool := fun k s => k == s
    LCOnt.verifyHeader (fun _ => true) ver st 12 [1, 2] [1, 2] = .ok () ∧
    LCOnt.verifyHeader (fun _ => true) ver st 25 [7] [7] = .ok () ∧
    LCOnt.verifyHeader (fun _ => true) ver st 12 [7] [7] = .error .few ∧
    LCOnt.verifyHeader (fun _ => true) ver st 25 [1, 2] [1, 2] = .error .badkey ∧
    LCOnt.verifyHeader (fun _ => true) ver st 5 [1, 2] [1, 2] = .error .nokeyheight := by
  intro st ver
  exact ⟨rfl, rfl, rfl, rfl, rfl⟩

example : (LCNeo.syncBlockHeader (some ⟨10, "A"⟩) [⟨12, "B", "A", true⟩]).1.map (·.height) = some 12 ∧
    (LCNeo.syncBlockHeader (some ⟨10, "A"⟩) [⟨12, "B", "B", true⟩]).2 = .reject .scripthash ∧
    (LCNeo.syncBlockHeader (some ⟨10, "A"⟩) [⟨9, "B", "B", false⟩]).2 = .ok := by decide

end Poly.Props.C31
