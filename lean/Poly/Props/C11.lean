import Poly.Proofs.KVDigest
import Poly.Model.KVStateRoot
import Poly.Proofs.MerkleTree
/-!
# C11 — The block state-change digest depends only on the net write set

Model: the block's overlay buffer (`OverlayDB.memdb`, what `GetWriteSet` returns) after a sequence of writes
is `applyOps [] ops` (delete = write of the empty value); `OverlayDB.ChangeHash` is
`changeHash H buffer = H (k₁ ‖ v₁ ‖ k₂ ‖ v₂ ‖ …)` over the buffer entries in key order.  `lastWrite ops` is the
net effect: the last value written to each key.  `H` is a parameter: everything holds for every hash function.
-/
namespace Poly.Props.C11
open Poly.Model.KV

/-- The write set recorded for a block. -/
def writeSet (ops : List (Key × Val)) : Entries := applyOps [] ops

/-- The state-change digest recorded for a block. -/
def digest (H : List UInt8 → List UInt8) (ops : List (Key × Val)) : List UInt8 := changeHash H (writeSet ops)

/-- The write set is exactly the net effect, listed in byte order: a pair is in it iff it is the last write to
its key, and keys are strictly increasing (so each written key occurs once; no map iteration is involved). -/
theorem writeSet_is_net_effect (ops : List (Key × Val)) :
    Sorted (writeSet ops) ∧ ∀ k v, (k, v) ∈ writeSet ops ↔ lastWrite ops k = some v := by
  have hs : Sorted (writeSet ops) := applyOps_sorted _ Sorted.nil
  refine ⟨hs, fun k v => ?_⟩
  rw [← lookup_eq_some_iff hs, writeSet, lookup_applyOps]
  cases lastWrite ops k <;> simp [lookup]

/-- Two write sequences with the same net effect give the same write set and the same digest. -/
theorem digest_depends_on_net_only (H : List UInt8 → List UInt8) (ops₁ ops₂ : List (Key × Val))
    (h : ∀ k, lastWrite ops₁ k = lastWrite ops₂ k) :
    writeSet ops₁ = writeSet ops₂ ∧ digest H ops₁ = digest H ops₂ := by
  have : writeSet ops₁ = writeSet ops₂ := applyOps_congr Sorted.nil _ _ h
  exact ⟨this, by simp [digest, this]⟩

/-- Order of writes to different keys does not matter: swapping two adjacent writes to different keys. -/
theorem swap_independent_writes (H : List UInt8 → List UInt8) (a b : List (Key × Val)) (x y : Key × Val)
    (hne : x.1 ≠ y.1) : digest H (a ++ x :: y :: b) = digest H (a ++ y :: x :: b) := by
  apply (digest_depends_on_net_only H _ _ _).2
  intro k
  have e1 : a ++ x :: y :: b = a ++ ([x] ++ [y]) ++ b := by simp
  have e2 : a ++ y :: x :: b = a ++ ([y] ++ [x]) ++ b := by simp
  rw [e1, e2]
  simp only [lastWrite_append]
  obtain ⟨kx, vx⟩ := x; obtain ⟨ky, vy⟩ := y
  simp only [lastWrite_single]
  cases lastWrite b k with
  | some z => rfl
  | none =>
    by_cases h1 : kx = k <;> by_cases h2 : ky = k <;> simp [h1, h2]
    exact absurd (h1.trans h2.symm) hne

/-- Any permutation of writes to pairwise different keys gives the same digest. -/
theorem permutation_independent (H : List UInt8 → List UInt8) (ops₁ ops₂ : List (Key × Val))
    (hp : ops₁.Perm ops₂) (hn : (ops₁.map Prod.fst).Nodup) : digest H ops₁ = digest H ops₂ := by
  apply (digest_depends_on_net_only H _ _ _).2
  have hn2 : (ops₂.map Prod.fst).Nodup := (hp.map Prod.fst).nodup_iff.mp hn
  intro k
  cases h1 : lastWrite ops₁ k with
  | some v => rw [lastWrite_of_mem_nodup hn2 (hp.mem_iff.mp (mem_of_lastWrite h1))]
  | none =>
    cases h2 : lastWrite ops₂ k with
    | none => rfl
    | some v =>
      rw [lastWrite_of_mem_nodup hn (hp.mem_iff.mpr (mem_of_lastWrite h2))] at h1
      cases h1

/-- An overwritten (or deleted and re-put) intermediate value leaves no trace: only the later write counts. -/
theorem intermediate_write_invisible (H : List UInt8 → List UInt8) (a b c : List (Key × Val)) (k : Key) (v₁ v₂ : Val) :
    digest H (a ++ (k, v₁) :: b ++ (k, v₂) :: c) = digest H (a ++ b ++ (k, v₂) :: c) := by
  apply (digest_depends_on_net_only H _ _ _).2
  intro x
  have e1 : a ++ (k, v₁) :: b ++ (k, v₂) :: c = (a ++ [(k, v₁)] ++ b) ++ ([(k, v₂)] ++ c) := by simp
  have e2 : a ++ b ++ (k, v₂) :: c = (a ++ b) ++ ([(k, v₂)] ++ c) := by simp
  rw [e1, e2]
  simp only [lastWrite_append, lastWrite_single]
  cases lastWrite c x with
  | some z => rfl
  | none =>
    by_cases hk : k = x
    · simp [hk]
    · simp [hk]

/-- Delete-then-put equals the put alone; put-then-delete equals the delete alone. -/
theorem delete_then_put (H : List UInt8 → List UInt8) (a c : List (Key × Val)) (k : Key) (v : Val) :
    digest H (a ++ (k, []) :: (k, v) :: c) = digest H (a ++ (k, v) :: c) ∧
    digest H (a ++ (k, v) :: (k, []) :: c) = digest H (a ++ (k, []) :: c) := by
  constructor
  · have := intermediate_write_invisible H a [] c k [] v; simpa using this
  · have := intermediate_write_invisible H a [] c k v []; simpa using this

/-! ### Grouping of the writes into transactions -/

/-- The writes of the successful transactions, in block order, under their stored keys. -/
def netWrites (txs : List Tx) : List (Key × Val) :=
  (txs.filter (·.ok)).flatMap fun t => t.writes.map fun w => (stStorage :: w.1, w.2)

private theorem cache_fold_ents (ws : List (Key × Val)) (c : CacheDB) :
    (ws.foldl (fun (c : CacheDB) w => c.put w.1 w.2) c).mem.ents =
      applyOps c.mem.ents (ws.map fun w => (stStorage :: w.1, w.2)) := by
  induction ws generalizing c with
  | nil => rfl
  | cons w r ih =>
    rw [List.foldl_cons, ih]
    simp only [List.map_cons, applyOps, List.foldl_cons, CacheDB.put, put_ents']

private theorem runTx_spec (o : Overlay) (ho : o.mem.WF) (t : Tx) :
    (runTx o t).mem.WF ∧ (runTx o t).store = o.store ∧
    (runTx o t).mem.ents = applyOps o.mem.ents (netWrites [t]) := by
  unfold runTx netWrites
  cases hok : t.ok with
  | false => simp [hok, applyOps, ho]
  | true =>
    simp only [if_true, List.filter_cons, hok, List.filter_nil, List.flatMap_cons, List.flatMap_nil, List.append_nil]
    rw [cache_commit_eq]
    refine ⟨foldl_put_wf _ _ ho, foldl_put_store _ _, ?_⟩
    rw [foldl_put_ents, cache_fold_ents]
    exact applyOps_applyOps ho.sorted _

/-- However the writes are grouped into transactions (and whichever transactions fail), the block's overlay
buffer is the replay of the successful writes in block order — so write set and digest depend only on their
net effect. -/
theorem block_buffer_is_replay (o : Overlay) (ho : o.mem.WF) (txs : List Tx) :
    (runBlock o txs).mem.ents = applyOps o.mem.ents (netWrites txs) ∧ (runBlock o txs).store = o.store := by
  induction txs generalizing o with
  | nil => exact ⟨rfl, rfl⟩
  | cons t r ih =>
    obtain ⟨h1, h2, h3⟩ := runTx_spec o ho t
    have := ih (runTx o t) h1
    simp only [runBlock, List.foldl_cons] at this ⊢
    rw [this.1, this.2, h2, h3, ← applyOps_append]
    refine ⟨?_, rfl⟩
    congr 1
    simp only [netWrites, List.filter_cons]
    cases t.ok <;> simp

theorem digest_tx_grouping (H : List UInt8 → List UInt8) (txs₁ txs₂ : List Tx)
    (h : ∀ k, lastWrite (netWrites txs₁) k = lastWrite (netWrites txs₂) k) :
    (runBlock {} txs₁).mem.ents = (runBlock {} txs₂).mem.ents ∧
    changeHash H (runBlock {} txs₁).mem.ents = changeHash H (runBlock {} txs₂).mem.ents := by
  have e1 := (block_buffer_is_replay {} MemDB.WF.empty txs₁).1
  have e2 := (block_buffer_is_replay {} MemDB.WF.empty txs₂).1
  have : (runBlock {} txs₁).mem.ents = (runBlock {} txs₂).mem.ents := by
    rw [e1, e2]; exact applyOps_congr Sorted.nil _ _ h
  exact ⟨this, by rw [this]⟩

/-! ### The state Merkle root after a block (`delta_root_fn`)

`predictedStateRoot` is `ExecuteResult.MerkleRoot`, `addStateRoot` is `AddStateMerkleTreeRoot`, both over the compact
tree of `Poly.Model.Merkle` (C06's model, imported unchanged; `Inv H L t` is C06's invariant "t is the compact tree
of the leaf hashes L"). -/

open Poly.Model.Merkle Poly.Spec.RFC6962 in
/-- One block on a well-formed state tree: `AddStateMerkleTreeRoot` never panics, the tree it stores is the
compact tree of the old leaves plus the hashed digest, the root it records is the RFC 6962 tree hash of those
leaves, and it is exactly the root `executeBlock` predicted (`MerkleRoot`). -/
theorem state_root_step (H : List UInt8 → List UInt8) (L : List Hash) (t : CompactTree)
    (hinv : Poly.Proofs.MerkleTree.Inv H L t) (digest : List UInt8) :
    ∃ t', addStateRoot H t digest = .ok (t', mth H (L ++ [hashLeaf H digest])) ∧
      Poly.Proofs.MerkleTree.Inv H (L ++ [hashLeaf H digest]) t' ∧
      predictedStateRoot H t digest = .ok (mth H (L ++ [hashLeaf H digest])) := by
  obtain ⟨t', st, ha, hi⟩ := Poly.Proofs.MerkleTree.inv_appendHash H L t (hashLeaf H digest) hinv
  refine ⟨t', ?_, hi, Poly.Proofs.MerkleTree.inv_predict1 H L t digest hinv⟩
  simp only [addStateRoot, appendLeaf, ha, Poly.Proofs.MerkleTree.inv_root H _ _ hi]

open Poly.Model.Merkle Poly.Spec.RFC6962 in
/-- **delta_root_fn.** The state root after a block is a function of (previous tree, net write set): two blocks
whose successful writes have the same net effect, executed on the same tree, get the same predicted root, the same
recorded root and the same stored tree — whatever the grouping, order or failed transactions. -/
theorem delta_root_fn (H : List UInt8 → List UInt8) (t : CompactTree) (txs₁ txs₂ : List Tx)
    (h : ∀ k, lastWrite (netWrites txs₁) k = lastWrite (netWrites txs₂) k) :
    blockDigest H txs₁ = blockDigest H txs₂ ∧
    predictedStateRoot H t (blockDigest H txs₁) = predictedStateRoot H t (blockDigest H txs₂) ∧
    addStateRoot H t (blockDigest H txs₁) = addStateRoot H t (blockDigest H txs₂) := by
  have : blockDigest H txs₁ = blockDigest H txs₂ := (digest_tx_grouping H txs₁ txs₂ h).2
  exact ⟨this, by rw [this], by rw [this]⟩

open Poly.Model.Merkle Poly.Spec.RFC6962 in
/-- Over a whole chain: committing blocks `b₁ … bₙ` from the empty state tree never fails, and the root recorded at
the last height is the RFC 6962 tree hash of the leaf hashes of their digests — so the recorded state roots depend
only on the per-block net write sets. -/
theorem state_root_after_blocks (H : List UInt8 → List UInt8) (blocks : List (List Tx)) :
    ∃ t, (blocks.foldl (fun (acc : Except Err CompactTree) b =>
            match acc with
            | .error e => .error e
            | .ok t => (addStateRoot H t (blockDigest H b)).map Prod.fst) (.ok emptyTree)) = .ok t ∧
      root H t = .ok (mth H (blocks.map fun b => hashLeaf H (blockDigest H b))) := by
  have gen : ∀ (bs : List (List Tx)) (L : List Hash) (t : CompactTree), Poly.Proofs.MerkleTree.Inv H L t →
      ∃ t', (bs.foldl (fun (acc : Except Err CompactTree) b =>
            match acc with
            | .error e => .error e
            | .ok t => (addStateRoot H t (blockDigest H b)).map Prod.fst) (.ok t)) = .ok t' ∧
        Poly.Proofs.MerkleTree.Inv H (L ++ bs.map fun b => hashLeaf H (blockDigest H b)) t' := by
    intro bs
    induction bs with
    | nil => intro L t hi; exact ⟨t, rfl, by simpa using hi⟩
    | cons b r ih =>
      intro L t hi
      obtain ⟨t1, h1, h2, _⟩ := state_root_step H L t hi (blockDigest H b)
      obtain ⟨t', h3, h4⟩ := ih _ t1 h2
      refine ⟨t', ?_, by simpa using h4⟩
      simp only [List.foldl_cons, h1, Except.map]
      exact h3
  obtain ⟨t, h1, h2⟩ := gen blocks [] emptyTree (Poly.Proofs.MerkleTree.inv_empty H)
  exact ⟨t, h1, by simpa using Poly.Proofs.MerkleTree.inv_root H _ _ h2⟩

/-! Non-vacuity: two different sequences with the same net effect, and a sequence with a different one. -/
example :
    let a : List (Key × Val) := [([1], [7]), ([2], [8]), ([1], []), ([3], [9]), ([1], [5])]
    let b : List (Key × Val) := [([3], [9]), ([1], [5]), ([2], [1]), ([2], [8])]
    (∀ k ∈ [[1], [2], [3], [4]], lastWrite a k = lastWrite b k) ∧ writeSet a = writeSet b ∧
    writeSet a = [([1], [5]), ([2], [8]), ([3], [9])] ∧ writeSet (a ++ [([2], [])]) ≠ writeSet a := by
  decide

end Poly.Props.C11
