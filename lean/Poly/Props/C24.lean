import Poly.Proofs.LCOnt
import Poly.Proofs.LCNeo
/-!
# C24 — Validator-signed cross-chain messages need distinct tracked signers

Property theorems only. Models: `Poly.Model.LCOnt` (Ontology `VerifyCrossChainMsg`, header_sync `SyncCrossChainMsg`,
cross_chain_manager `MakeDepositProposal` message part) and `Poly.Model.LCNeo` (NEO 2.x / NEO N3
`VerifyCrossChainMsgSig`). Signature verification (`des`, `ver`), the witness verdict (`wok`) and script hashing
(`contractOf`) are parameters: every statement holds for all of them. The threshold tests are the definitions
regenerated from the Go source on every run (`Poly.Generated.Thresholds`).
-/
namespace Poly.Props.C24
open Poly.Generated.Thresholds
open Poly.Model

/-! ## Ontology -/

/-- The generated size test of `VerifyCrossChainMsg` rejects exactly when three times the signer count is below
the size of the tracked peer set. -/
theorem ont_msg_threshold_meaning (signers tracked : Nat) :
    ont_verifyCrossChainMsg0 (signers : Int) (tracked : Int) = true ↔ 3 * signers < tracked := by
  unfold ont_verifyCrossChainMsg0
  simp only [decide_eq_true_eq]
  omega

/-- **ont_msg_quorum.** An accepted message is validly signed by a set `S` of DISTINCT members of the peer set
tracked at the key height chosen for the message, with `3·|S| ≥ |tracked|`: repeated signers count once (`S.Nodup`),
foreign signers never count (`S ⊆ tracked`), every member of `S` has a deserializable, verifying signature among the
submitted ones. -/
theorem ont_msg_quorum {κ σ : Type} [BEq κ] [LawfulBEq κ] (des : σ → Bool) (ver : κ → σ → Bool)
    (st : LCOnt.St κ) (h : Nat) (bks : List κ) (sigs : List σ)
    (hok : LCOnt.verifyMsg des ver st h bks sigs = .ok ()) :
    ∃ kh tracked, LCOnt.findKeyHeight st.keyHeights h = some kh ∧ LCOnt.peersAt st.peers kh = some tracked ∧
      ∃ S : List κ, S.Nodup ∧ (∀ k ∈ S, k ∈ tracked) ∧
        (∀ k ∈ S, ∃ s ∈ sigs, des s = true ∧ ver k s = true) ∧ tracked.length ≤ 3 * S.length := by
  obtain ⟨kh, tracked, h1, h2, h3, h4, h5, h6⟩ :=
    Poly.Proofs.LCOnt.verifySigned_ok ont_verifyCrossChainMsg0 des ver st h bks sigs hok
  refine ⟨kh, tracked, h1, h2, bks, h4, h5, h6, ?_⟩
  have : ¬ (3 * bks.length < tracked.length) := fun hc => by
    have := (ont_msg_threshold_meaning bks.length tracked.length).mpr hc
    simp [h3] at this
  omega

/-- The submitted signer list itself must be duplicate-free and inside the tracked set, otherwise the message is
refused (this is the `usedPubKey` check). -/
theorem ont_msg_signers_distinct_and_tracked {κ σ : Type} [BEq κ] [LawfulBEq κ] (des : σ → Bool) (ver : κ → σ → Bool)
    (st : LCOnt.St κ) (h : Nat) (bks : List κ) (sigs : List σ)
    (hok : LCOnt.verifyMsg des ver st h bks sigs = .ok ()) :
    bks.Nodup ∧ ∃ kh tracked, LCOnt.findKeyHeight st.keyHeights h = some kh ∧
      LCOnt.peersAt st.peers kh = some tracked ∧ ∀ b ∈ bks, b ∈ tracked := by
  obtain ⟨kh, tracked, h1, h2, _, h4, h5, _⟩ :=
    Poly.Proofs.LCOnt.verifySigned_ok ont_verifyCrossChainMsg0 des ver st h bks sigs hok
  exact ⟨h4, kh, tracked, h1, h2, h5⟩

/-- In every reachable state the chosen key height is the greatest recorded key height strictly below the message
height, and the peer set recorded there has no repeated member (so `|tracked|` counts validators). -/
theorem ont_msg_keyheight_choice {κ σ : Type} [BEq κ] [LawfulBEq κ] (des : σ → Bool) (ops : List (LCOnt.Op κ σ))
    (h kh : Nat) (tracked : List κ)
    (hk : LCOnt.findKeyHeight (LCOnt.run des LCOnt.St.empty ops).keyHeights h = some kh)
    (hp : LCOnt.peersAt (LCOnt.run des LCOnt.St.empty ops).peers kh = some tracked) :
    kh < h ∧ (∀ v ∈ (LCOnt.run des LCOnt.St.empty ops).keyHeights, v < h → v ≤ kh) ∧ tracked.Nodup := by
  have hi := Poly.Proofs.LCOnt.inv_run des ops LCOnt.St.empty Poly.Proofs.LCOnt.inv_empty
  obtain ⟨_, h2, h3⟩ := Poly.Proofs.LCOnt.findKeyHeight_some _ hi.sorted h kh hk
  exact ⟨h2, h3, hi.nodup _ (Poly.Proofs.LCOnt.peersAt_mem _ kh tracked hp)⟩

/-- **History form.** For every sequence of genesis / header / message / deposit operations from the empty store:
every stored cross-chain message was accepted by `VerifyCrossChainMsg` in the state its operation met (hence with
the distinct-signer quorum of `ont_msg_quorum`). A deposit that finds a stored message reuses it (`storedVerified`),
so this is what makes that reuse sound. -/
theorem ont_stored_msgs_all_verified {κ σ : Type} [BEq κ] [LawfulBEq κ] (des : σ → Bool) (ops : List (LCOnt.Op κ σ))
    (h : Nat) (hm : h ∈ (LCOnt.run des LCOnt.St.empty ops).msgs) :
    ∃ pre o post, ops = pre ++ o :: post ∧
      ∃ bks sigs ver, (o = .msg h bks sigs ver ∨ o = .dep h bks sigs ver) ∧
        LCOnt.verifyMsg des ver (LCOnt.run des LCOnt.St.empty pre) h bks sigs = .ok () := by
  rcases Poly.Proofs.LCOnt.run_trace des (·.msgs) (Poly.Proofs.LCOnt.MsgStep des)
    (Poly.Proofs.LCOnt.msg_step des) ops LCOnt.St.empty h hm with h0 | ⟨pre, o, post, rfl, hp⟩
  · simp [LCOnt.St.empty] at h0
  · refine ⟨pre, o, post, rfl, ?_⟩
    cases o with
    | genesis _ _ => exact hp.elim
    | hdr _ _ _ _ _ => exact hp.elim
    | msg h' bks sigs ver => obtain ⟨rfl, hv⟩ := hp; exact ⟨bks, sigs, ver, Or.inl rfl, hv⟩
    | dep h' bks sigs ver => obtain ⟨rfl, hv⟩ := hp; exact ⟨bks, sigs, ver, Or.inr rfl, hv⟩

/-- The deposit handler reports a message as verified only if it verified it now or finds it stored. -/
theorem ont_deposit_needs_verified_msg {κ σ : Type} [BEq κ] [LawfulBEq κ] (des : σ → Bool) (ver : κ → σ → Bool)
    (st : LCOnt.St κ) (h : Nat) (bks : List κ) (sigs : List σ) :
    ((LCOnt.depositMsg des ver st h bks sigs).2 = .verified → LCOnt.verifyMsg des ver st h bks sigs = .ok ()) ∧
    ((LCOnt.depositMsg des ver st h bks sigs).2 = .storedVerified → h ∈ st.msgs) := by
  unfold LCOnt.depositMsg
  constructor
  · intro hv
    split at hv
    · cases hv
    · split at hv
      · cases hv
      · rename_i u hu; cases u; exact hu
  · intro hv
    split at hv
    · rename_i hc; simpa using hc
    · split at hv <;> cases hv

/-! ## NEO 2.x and NEO N3 -/

/-- NEO 2.x: a state root is accepted only if a consensus is tracked, the hash of the submitted verification script
equals the tracked next-consensus, and the witness verifier accepted. -/
theorem neo_msg_needs_tracked_witness {χ : Type} [BEq χ] [LawfulBEq χ] (st : Option (LCNeo.Tracked χ))
    (wscript : Option χ) (wok : Bool) (hok : LCNeo.verifyMsgNeo2 st wscript wok = .ok) :
    ∃ t, st = some t ∧ wscript = some t.next ∧ wok = true := by
  unfold LCNeo.verifyMsgNeo2 at hok
  cases st with
  | none => cases hok
  | some t =>
    cases wscript with
    | none => cases hok
    | some w =>
      simp only at hok
      split at hok
      · cases hok
      · rename_i h1
        split at hok
        · cases hok
        · rename_i h2
          refine ⟨t, rfl, ?_, by simpa using h2⟩
          have : t.next = w := by simpa using h1
          rw [this]

/-- The library's witness check (model of `VerifyMultiSignatureWitness` + `keys.VerifyMultiSig`) accepts an m-of-n
script only with at least `m` signatures verified by DISTINCT key positions of the script, in script order. -/
theorem neo_witness_contract {κ σ : Type} (ver : κ → σ → Bool) (m : Nat) (keys : List κ) (sigs : List σ)
    (h : LCNeo.witnessCheck ver m keys sigs = true) :
    ∃ S : List κ, S.Sublist keys ∧ m ≤ S.length ∧ ∀ k ∈ S, ∃ s ∈ sigs, ver k s = true :=
  Poly.Proofs.LCNeo.witnessCheck_sound ver m keys sigs h

/-- **neo_msg_quorum** (relative to the witness verifier modelled by `witnessCheck`, and to script hashing
`scriptOf`): an accepted NEO 2.x state root carries the tracked script and at least `m` signatures by distinct
keys of that script (`S.Nodup` when the script lists no key twice). -/
theorem neo_msg_quorum {κ σ χ : Type} [BEq χ] [LawfulBEq χ] (ver : κ → σ → Bool) (scriptOf : Nat → List κ → χ)
    (t : LCNeo.Tracked χ) (m : Nat) (keys : List κ) (sigs : List σ) (hk : keys.Nodup)
    (hok : LCNeo.verifyMsgNeo2 (some t) (some (scriptOf m keys)) (LCNeo.witnessCheck ver m keys sigs) = .ok) :
    scriptOf m keys = t.next ∧
      ∃ S : List κ, S.Nodup ∧ (∀ k ∈ S, k ∈ keys) ∧ m ≤ S.length ∧ ∀ k ∈ S, ∃ s ∈ sigs, ver k s = true := by
  obtain ⟨t', ht, hw, hwok⟩ := neo_msg_needs_tracked_witness _ _ _ hok
  cases ht
  obtain ⟨S, hS, hm, hv⟩ := neo_witness_contract ver m keys sigs hwok
  exact ⟨by simpa using hw, S, hS.nodup hk, fun k hk' => hS.subset hk', hm, hv⟩

/-- The generated threshold of the NEO N3 state-validator contract is `n - ⌊(n-1)/3⌋`, i.e. more than two thirds. -/
theorem neo3_threshold_meaning (n : Nat) (hn : 1 ≤ n) :
    neo3_verifyWitness_m0 (n : Int) = ((n - (n - 1) / 3 : Nat) : Int) ∧
    neo3legacy_verifyWitness_m0 (n : Int) = ((n - (n - 1) / 3 : Nat) : Int) ∧
    2 * n < 3 * (n - (n - 1) / 3) := by
  unfold neo3_verifyWitness_m0 neo3legacy_verifyWitness_m0
  have : Int.tdiv ((n : Int) - 1) 3 = (((n - 1) / 3 : Nat) : Int) := by
    rw [Int.tdiv_eq_ediv_of_nonneg (by omega)]; omega
  rw [this]
  omega

/-- NEO N3: a state root is accepted only if the submitted script hashes to the m-of-n contract built from the
REGISTERED state validators with the generated `m`, and the witness verifier accepted. -/
theorem neo3_msg_needs_validator_contract {κ χ : Type} [BEq χ] [LawfulBEq χ] (thr : Int → Int)
    (contractOf : Nat → List κ → Option χ) (validators : List κ) (wscript : Option χ) (wok : Bool)
    (hok : LCNeo.verifyMsgNeo3 thr contractOf validators wscript wok = .ok) :
    ∃ e, contractOf (thr validators.length).toNat validators = some e ∧ wscript = some e ∧ wok = true := by
  unfold LCNeo.verifyMsgNeo3 at hok
  simp only at hok
  cases hc : contractOf (thr validators.length).toNat validators with
  | none => simp [hc] at hok
  | some e =>
    simp only [hc] at hok
    cases wscript with
    | none => cases hok
    | some w =>
      simp only at hok
      split at hok
      · cases hok
      · rename_i h1
        split at hok
        · cases hok
        · rename_i h2
          refine ⟨e, rfl, ?_, by simpa using h2⟩
          have : e = w := by simpa using h1
          rw [this]

/-- **neo3_msg_quorum.** With the modelled witness check: an accepted NEO N3 state root carries at least
`n - ⌊(n-1)/3⌋` signatures by distinct registered state validators. -/
theorem neo3_msg_quorum {κ σ χ : Type} [BEq χ] [LawfulBEq χ] (ver : κ → σ → Bool)
    (contractOf : Nat → List κ → Option χ) (validators scriptKeys : List κ) (m : Nat) (sigs : List σ)
    (hn : 1 ≤ validators.length)
    /- script hashing binds the threshold and the key set (no Hash160 collision between different scripts) -/
    (hbind : ∀ e, contractOf (validators.length - (validators.length - 1) / 3) validators = some e →
      contractOf m scriptKeys = some e → m = validators.length - (validators.length - 1) / 3 ∧
        ∀ k, k ∈ scriptKeys ↔ k ∈ validators)
    (hk : scriptKeys.Nodup)
    (hok : LCNeo.verifyMsgNeo3 neo3_verifyWitness_m0 contractOf validators (contractOf m scriptKeys)
      (LCNeo.witnessCheck ver m scriptKeys sigs) = .ok) :
    ∃ S : List κ, S.Nodup ∧ (∀ k ∈ S, k ∈ validators) ∧ 2 * validators.length < 3 * S.length ∧
      ∀ k ∈ S, ∃ s ∈ sigs, ver k s = true := by
  obtain ⟨e, he, hw, hwok⟩ := neo3_msg_needs_validator_contract _ _ _ _ _ hok
  have hthr := (neo3_threshold_meaning validators.length hn)
  rw [hthr.1, Int.toNat_natCast] at he
  obtain ⟨hm, hmem⟩ := hbind e he hw
  obtain ⟨S, hS, hmS, hv⟩ := neo_witness_contract ver m scriptKeys sigs hwok
  refine ⟨S, hS.nodup hk, fun k hk' => (hmem k).mp (hS.subset hk'), ?_, hv⟩
  have := hthr.2.2
  omega

/-! ## Non-vacuity -/

/-- Four tracked validators, two distinct genuine signers: accepted. The same signer twice: refused. -/
example :
    let st : LCOnt.St Nat := { keyHeights := [5], peers := [(5, [1, 2, 3, 4])], hdrs := [5], msgs := [] }
    let ver : Nat → Nat → Bool := fun k s => k == s
    LCOnt.verifyMsg (fun _ => true) ver st 9 [1, 2] [1, 2] = .ok () ∧
    LCOnt.verifyMsg (fun _ => true) ver st 9 [2, 2] [2, 2] = .error .badkey ∧
    LCOnt.verifyMsg (fun _ => true) ver st 9 [1] [1] = .error .few ∧
    LCOnt.verifyMsg (fun _ => true) ver st 9 [1, 7] [1, 7] = .error .badkey := by
  intro st ver
  exact ⟨rfl, rfl, rfl, rfl⟩

example : LCNeo.witnessCheck (fun (k s : Nat) => k == s) 2 [1, 2, 3] [1, 3] = true ∧
    LCNeo.witnessCheck (fun (k s : Nat) => k == s) 2 [1, 2, 3] [3, 3] = false ∧
    LCNeo.witnessCheck (fun (k s : Nat) => k == s) 2 [1, 2, 3] [3, 1] = false := by decide

end Poly.Props.C24
