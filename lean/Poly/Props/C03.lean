import Poly.Proofs.BtcMerkle
/-!
# C03 — Transaction root equals the reference Merkle root

`btcRoot` is the model of `common.ComputeMerkleRoot` (level loop computed in place over the argument slice);
`refRoot` is the textbook Bitcoin-style root. All statements hold for every hash function `H`.
-/
namespace Poly.Props.C03
open Poly.Model.BtcMerkle

/-- For every list of hashes the in-place computation equals the reference root. -/
theorem root_eq_reference (H : List UInt8 → List UInt8) (hs : List Hash) : btcRoot H hs = refRoot H hs :=
  btcRoot_eq_refRoot H hs

/-- One in-place level equals one reference level: no overwritten cell is ever read. -/
theorem level_eq_reference (H : List UInt8 → List UInt8) (hs : List Hash) : inplaceLevel H hs = refLevel H hs :=
  inplaceLevel_eq_refLevel H hs

/-- The empty list maps to the zero hash. -/
theorem root_empty (H : List UInt8 → List UInt8) : btcRoot H [] = List.replicate 32 0 := by
  simp [btcRoot, zeroHash]

/-- A single hash is its own root. -/
theorem root_single (H : List UInt8 → List UInt8) (a : Hash) : btcRoot H [a] = a := by
  simp [btcRoot]

/-- The reference pairs adjacent nodes with the double hash and pairs an odd node with itself. -/
theorem reference_shape (H : List UInt8 → List UInt8) (a b c : Hash) :
    refRoot H [a, b] = H (H (a ++ b)) ∧
    refRoot H [a, b, c] = H (H (H (H (a ++ b)) ++ H (H (c ++ c)))) := by
  constructor <;> simp [refRoot, refLevel, h2]

/-- Every level halves the width (rounding up), so the computation ends after ⌈log₂ n⌉ levels. -/
theorem level_width (H : List UInt8 → List UInt8) (hs : List Hash) :
    (inplaceLevel H hs).length = (hs.length + 1) / 2 := inplaceLevel_length H hs

/-- Concrete instance (with the identity as "hash"): three leaves pair as (1,2) and (3,3), in place and in the reference. -/
example : inplaceLevel (fun x => x) [[1], [2], [3]] = [[1, 2], [3, 3]] ∧
    refLevel (fun x => x) [[1], [2], [3]] = [[1, 2], [3, 3]] := by
  constructor
  · rw [level_eq_reference]; rfl
  · rfl

end Poly.Props.C03
