import Poly.Proofs.GovRegistry
/-!
# C35 — Side-chain registry changes only through owner request and approval

Model: the side-chain part of `Poly.Model.Gov` (side_chain_manager.go RegisterSideChain / UpdateSideChain / QuitSideChain
and their Approve* methods): `sc` = registered records, `scApply` / `scUpd` / `scQuit` = pending requests.
`RegInv`: a pending registration is for an id that is not registered; a pending update carries the address that owns the
registered record; a pending quit is for a registered id; records are stored under their own chain id.
All statements hold for every hash function and every history.
-/
namespace Poly.Props.C35
open Poly.Model.Gov

/-- The registry invariants hold after every history from the empty state. -/
theorem registry_invariants (H : Bytes → Bytes) (ops : List Op) : RegInv (run H {} ops) :=
  run_preserves H RegInv (fun s op h => RegInv_step H s op h) {} ops RegInv_init

/-- Requests are made by the address they name: registration by the future owner; update and quit by the address that
owns the registered record at that moment (with its witness). -/
theorem requests_need_owner_witness (H : Bytes → Bytes) (s : State) (sg : List Addr) :
    (∀ r p, plan H s (.screg sg r) = .ok p → witness sg r.addr = true ∧ alGet s.sc r.chainId = none ∧ alGet s.scApply r.chainId = none) ∧
    (∀ r p, plan H s (.scupd sg r) = .ok p → witness sg r.addr = true ∧ ∃ cur, alGet s.sc r.chainId = some cur ∧ cur.addr = r.addr) ∧
    (∀ id a p, plan H s (.scquit sg id a) = .ok p → witness sg a = true ∧ ∃ cur, alGet s.sc id = some cur ∧ cur.addr = a) := by
  refine ⟨?_, ?_, ?_⟩
  · intro r p h
    simp only [plan] at h
    repeat' split at h
    all_goals try (cases h; done)
    rename_i hw h1 h2
    exact ⟨by simpa using hw, alGet_none_of_not_has _ _ h2, alGet_none_of_not_has _ _ h1⟩
  · intro r p h
    simp only [plan, clearSigns] at h
    repeat' split at h
    all_goals try (cases h; done)
    rename_i hw _ cur hget hown
    exact ⟨by simpa using hw, cur, hget, by simpa using hown⟩
  · intro id a p h
    simp only [plan] at h
    repeat' split at h
    all_goals try (cases h; done)
    all_goals (rename_i hw _ cur hget hown _; exact ⟨by simpa using hw, cur, hget, by simpa using hown⟩)

/-- A chain id is registered at most once at a time: a registration is applied only for an id that is not registered,
and the registered record equals the approved request. -/
theorem registered_at_most_once_at_a_time (H : Bytes → Bytes) (s : State) (sg : List Addr) (id : Nat) (a : Addr)
    (hinv : RegInv s) (h : applied H s (.scappr sg id a) = true) :
    alGet s.sc id = none ∧ ∃ req, alGet s.scApply id = some req ∧ alGet (step H s (.scappr sg id a)).sc id = some req := by
  obtain ⟨ap, s1, ev, s2, n, hp, hc, hf⟩ := (applied_iff H s _).1 h
  rw [step_of_applied H hp hc hf]
  have hs1 := ccs_frame H hc
  simp only [plan] at hp
  repeat' split at hp
  all_goals try (cases hp; done)
  rename_i _ _ req hreq
  injection hp with hp; injection hp with hp; subst hp
  dsimp only at hf
  injection hf with hf; injection hf with hf1 hf2; subst hf1
  obtain ⟨hfree, hid⟩ := hinv.applyFree id req hreq
  refine ⟨hfree, req, hreq, ?_⟩
  simp only [hid, alGet_put_self]

/-- An update is applied only to a registered chain, the request carries the address of its registered owner, and the
registered record becomes the approved request (same owner). -/
theorem update_needs_owner_request (H : Bytes → Bytes) (s : State) (sg : List Addr) (id : Nat) (a : Addr)
    (hinv : RegInv s) (h : applied H s (.scapprupd sg id a) = true) :
    ∃ cur req, alGet s.sc id = some cur ∧ alGet s.scUpd id = some req ∧ req.addr = cur.addr ∧
      alGet (step H s (.scapprupd sg id a)).sc id = some req := by
  obtain ⟨ap, s1, ev, s2, n, hp, hc, hf⟩ := (applied_iff H s _).1 h
  rw [step_of_applied H hp hc hf]
  simp only [plan] at hp
  repeat' split at hp
  all_goals try (cases hp; done)
  rename_i _ _ req hreq
  injection hp with hp; injection hp with hp; subst hp
  dsimp only at hf
  injection hf with hf; injection hf with hf1 hf2; subst hf1
  obtain ⟨cur, hcur, hown, hid⟩ := hinv.updOwner id req hreq
  refine ⟨cur, req, hcur, hreq, hown.symm, ?_⟩
  simp only [hid, alGet_put_self]

/-- A removal is applied only to a registered chain for which a quit request is pending; it removes the record and
every pending request of that chain id (no request survives the change of hands). -/
theorem removal_needs_quit_request (H : Bytes → Bytes) (s : State) (sg : List Addr) (id : Nat) (a : Addr)
    (hinv : RegInv s) (h : applied H s (.scapprquit sg id a) = true) :
    id ∈ s.scQuit ∧ (∃ cur, alGet s.sc id = some cur) ∧
    alGet (step H s (.scapprquit sg id a)).sc id = none ∧ alGet (step H s (.scapprquit sg id a)).scUpd id = none ∧
    id ∉ (step H s (.scapprquit sg id a)).scQuit := by
  obtain ⟨ap, s1, ev, s2, n, hp, hc, hf⟩ := (applied_iff H s _).1 h
  rw [step_of_applied H hp hc hf]
  have hs1 := ccs_frame H hc
  simp only [plan] at hp
  repeat' split at hp
  all_goals try (cases hp; done)
  rename_i _ hq
  injection hp with hp; injection hp with hp; subst hp
  dsimp only at hf
  injection hf with hf; injection hf with hf1 hf2; subst hf1
  have hmem : id ∈ s.scQuit := by simpa using hq
  refine ⟨hmem, hinv.quitReg id hmem, alGet_erase_self _ _, alGet_erase_self _ _, ?_⟩
  simp only [List.mem_filter, decide_eq_true_eq]
  intro h; exact h.2 rfl

/-- Every change of a registered record is the effect of an applied approval for that chain id; all other
transactions (and approvals that do not reach the quorum) leave the registry as it is. -/
theorem registry_changes_only_by_approval (H : Bytes → Bytes) (s : State) (op : Op) (id : Nat) (hinv : RegInv s) :
    (applied H s op = false → (step H s op).sc = s.sc) ∧
    ((∀ sg a, op ≠ .scappr sg id a ∧ op ≠ .scapprupd sg id a ∧ op ≠ .scapprquit sg id a) →
      alGet (step H s op).sc id = alGet s.sc id) :=
  ⟨sc_unchanged_unless_applied H s op, sc_frame H s op id hinv⟩

/-- Over whole histories: at any moment a pending update of chain id `id` was requested by the address that owns the
registered record now, and a pending quit is for a registered chain — stale requests of a previous registration do not exist. -/
theorem pending_requests_belong_to_current_registration (H : Bytes → Bytes) (ops : List Op) (id : Nat) :
    (∀ req, alGet (run H {} ops).scUpd id = some req → ∃ cur, alGet (run H {} ops).sc id = some cur ∧ cur.addr = req.addr) ∧
    (id ∈ (run H {} ops).scQuit → ∃ cur, alGet (run H {} ops).sc id = some cur) ∧
    (∀ req, alGet (run H {} ops).scApply id = some req → alGet (run H {} ops).sc id = none) := by
  have hinv := registry_invariants H ops
  refine ⟨?_, hinv.quitReg id, fun req h => (hinv.applyFree id req h).1⟩
  intro req h
  obtain ⟨cur, h1, h2, _⟩ := hinv.updOwner id req h
  exact ⟨cur, h1, h2⟩

/-- Non-vacuity (a test on literals): register, approve, update, approve, quit, approve with one validator. -/
example :
    let a1 : Addr := List.replicate 20 1
    let o : Addr := List.replicate 20 7
    let r1 : SideChain := ⟨o, 7, 1, [], 1, [], []⟩
    let r2 : SideChain := ⟨o, 7, 2, [1], 3, [2], []⟩
    let s0 : State := run id {} [.key [2] a1, .height 10, .init 100000 [(1, "02", a1)], .screg [o] r1]
    applied id s0 (.scappr [a1] 7 a1) = true ∧
    alGet (run id s0 [.scappr [a1] 7 a1, .scupd [o] r2, .scapprupd [a1] 7 a1]).sc 7 = some r2 ∧
    alGet (run id s0 [.scappr [a1] 7 a1, .scupd [o] r2, .scapprupd [a1] 7 a1, .scquit [o] 7 o, .scapprquit [a1] 7 a1]).sc 7 = none := by
  decide

end Poly.Props.C35
