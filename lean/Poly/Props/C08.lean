import Poly.Proofs.MerkleServe
import Poly.Proofs.MerkleVerify
/-!
# C08 — Proofs served to relayers verify against committed roots

The header commits `HashFullTreeWithLeafHash(CrossHashes)` (RFC 6962 split recursion, `hashFullTree`);
`GetCrossStatesProof` serves `MerkleLeafPath(record, CrossHashes)` built from the PAIRED levels
(`merkleHashes`: pair adjacent nodes, promote an odd last node). The theorems show the two builders agree for
every list and that every served path verifies with `merkleProve` against the committed root.
-/
namespace Poly.Props.C08
open Poly.Spec.RFC6962 Poly.Model.Merkle Poly.Proofs.MerkleSpec Poly.Proofs.MerkleServe

variable (H : List UInt8 → List UInt8)

/-- The committed root is the RFC 6962 tree hash, for every list of leaf hashes (and `_hash_full` never
panics: its frontier has `countBit n` hashes, the left subtree is always full). -/
theorem committed_root_eq_mth (hs : List Hash) : hashFullTree H hs = .ok (mth H hs) :=
  hashFullTree_eq H hs

/-- Pairing one level (promoting an odd last node) does not change the RFC 6962 root. -/
theorem pair_level_preserves_root (hs : List Hash) : mth H (pairUp H hs) = mth H hs := mth_pairUp H hs

/-- The paired-level tree has the same root as the RFC split tree for every size: the top level of
`MerkleHashes(hs, depth(len hs))` is the single node `mth hs`. -/
theorem paired_root_eq_mth (hs : List Hash) (h : hs ≠ []) :
    (merkleHashes H hs (depth hs.length))[0]? = some [mth H hs] ∧
    hashFullTree H hs = .ok (mth H hs) :=
  ⟨merkleHashes_top H _ hs h rfl, hashFullTree_eq H hs⟩

/-- Every record of a block has a served path, and the path verifies with `MerkleProve` against the
committed root and yields exactly the record (the size guard of `MerkleLeafPath` is a hypothesis). -/
theorem leafpath_verifies (hlen : HashLen H) (record : List UInt8) (hs : List Hash)
    (hmem : hashLeaf H record ∈ hs) (h32 : ∀ y ∈ hs, y.length = 32)
    (hsize : hs.length * 33 + record.length + 8 ≤ MAX_SIZE) :
    ∃ p root, merkleLeafPath H record hs = .ok p ∧ hashFullTree H hs = .ok root ∧
      merkleProve H p root = .ok record := by
  obtain ⟨p, h1, h2⟩ := leafPath_verifies H hlen record hs hmem h32 hsize
  exact ⟨p, _, h1, hashFullTree_eq H hs, h2⟩

/-- For a block that emitted the records `recs` (cross hashes = their leaf hashes in order): every record
has a served proof that verifies against the block's committed root and yields that record. -/
theorem served_cross_proof_ok (hlen : HashLen H) (recs : List (List UInt8)) (record : List UInt8)
    (hr : record ∈ recs) (hsize : recs.length * 33 + record.length + 8 ≤ MAX_SIZE) :
    ∃ p root, merkleLeafPath H record (recs.map (hashLeaf H)) = .ok p ∧
      hashFullTree H (recs.map (hashLeaf H)) = .ok root ∧ merkleProve H p root = .ok record := by
  apply leafpath_verifies H hlen
  · exact List.mem_map_of_mem hr
  · intro y hy; obtain ⟨d, _, rfl⟩ := List.mem_map.mp hy; exact hlen _
  · simpa using hsize

/-- With C07: a path accepted against a block's committed root can only yield a record of that block
(or a collision of `H` is exhibited). -/
theorem served_proof_yields_committed_record (hlen : HashLen H) (recs : List (List UInt8)) (hne : recs ≠ [])
    (path root value : List UInt8) (hroot : hashFullTree H (recs.map (hashLeaf H)) = .ok root)
    (hacc : merkleProve H path root = .ok value) : value ∈ recs ∨ Collision H := by
  rw [hashFullTree_eq] at hroot
  have hroot' : root = mth H (recs.map (hashLeaf H)) := by cases hroot; rfl
  rcases Poly.Proofs.MerkleVerify.merkleProve_sound H hlen (rfcTree recs) path root value hacc
      (by rw [hroot', rfcTree_root H recs hne]) with ⟨ds, h⟩ | h
  · left
    have := DTree.descend_leaf_mem _ ds value h
    rwa [rfcTree_leaves recs hne] at this
  · exact Or.inr h

/-- Satisfiable hypotheses (a 32-byte "hash" and a three-record block). -/
example : ∃ (H : List UInt8 → List UInt8), HashLen H ∧
    ∃ p root, merkleLeafPath H [2] ([[1], [2], [3]].map (hashLeaf H)) = .ok p ∧
      hashFullTree H ([[1], [2], [3]].map (hashLeaf H)) = .ok root ∧ merkleProve H p root = .ok [2] := by
  let H : List UInt8 → List UInt8 := fun x => (x ++ List.replicate 32 7).take 32
  have hlen : HashLen H := by intro x; simp [H]
  exact ⟨H, hlen, served_cross_proof_ok H hlen [[1], [2], [3]] [2] (by simp) (by simp [MAX_SIZE])⟩

end Poly.Props.C08
