import Poly.Proofs.MerkleServe
import Poly.Proofs.MerkleVerify
import Poly.Proofs.MerkleLedger
/-!
# C08 — Proofs served to relayers verify against committed roots

The header commits `HashFullTreeWithLeafHash(CrossHashes)` (RFC 6962 split recursion, `hashFullTree`);
`GetCrossStatesProof` serves `MerkleLeafPath(record, CrossHashes)` built from the PAIRED levels
(`merkleHashes`: pair adjacent nodes, promote an odd last node). The theorems show the two builders agree for
every list and that every served path verifies with `merkleProve` against the committed root.
-/
namespace Poly.Props.C08
open Poly.Spec.RFC6962 Poly.Model.Merkle Poly.Model.MerkleLedger Poly.Proofs.MerkleSpec Poly.Proofs.MerkleServe
  Poly.Proofs.MerkleLedger

variable (H : List UInt8 → List UInt8)

/-- The committed root is the RFC 6962 tree hash, for every list of leaf hashes (and `_hash_full` never
panics: its frontier has `countBit n` hashes, the left subtree is always full). -/
theorem committed_root_eq_mth (hs : List Hash) : hashFullTree H hs = .ok (mth H hs) :=
  hashFullTree_eq H hs

/-- Pairing one level (promoting an odd last node) does not change the RFC 6962 root. -/
theorem pair_level_preserves_root (hs : List Hash) : mth H (pairUp H hs) = mth H hs := mth_pairUp H hs

/-- The paired-level tree has the same root as the RFC split tree for every size: the top level of
`MerkleHashes(hs, depth(len hs))` is the single node `mth hs`. -/
theorem paired_root_eq_mth (hs : List Hash) (h : hs ≠ []) :
    (merkleHashes H hs (depth hs.length))[0]? = some [mth H hs] ∧
    hashFullTree H hs = .ok (mth H hs) :=
  ⟨merkleHashes_top H _ hs h rfl, hashFullTree_eq H hs⟩

/-- Every record of a block has a served path, and the path verifies with `MerkleProve` against the
committed root and yields exactly the record (the size guard of `MerkleLeafPath` is a hypothesis). -/
theorem leafpath_verifies (hlen : HashLen H) (record : List UInt8) (hs : List Hash)
    (hmem : hashLeaf H record ∈ hs) (h32 : ∀ y ∈ hs, y.length = 32)
    (hsize : hs.length * 33 + record.length + 8 ≤ MAX_SIZE) :
    ∃ p root, merkleLeafPath H record hs = .ok p ∧ hashFullTree H hs = .ok root ∧
      merkleProve H p root = .ok record := by
  obtain ⟨p, h1, h2⟩ := leafPath_verifies H hlen record hs hmem h32 hsize
  exact ⟨p, _, h1, hashFullTree_eq H hs, h2⟩

/-- For a block that emitted the records `recs` (cross hashes = their leaf hashes in order): every record
has a served proof that verifies against the block's committed root and yields that record. -/
theorem served_cross_proof_ok (hlen : HashLen H) (recs : List (List UInt8)) (record : List UInt8)
    (hr : record ∈ recs) (hsize : recs.length * 33 + record.length + 8 ≤ MAX_SIZE) :
    ∃ p root, merkleLeafPath H record (recs.map (hashLeaf H)) = .ok p ∧
      hashFullTree H (recs.map (hashLeaf H)) = .ok root ∧ merkleProve H p root = .ok record := by
  apply leafpath_verifies H hlen
  · exact List.mem_map_of_mem hr
  · intro y hy; obtain ⟨d, _, rfl⟩ := List.mem_map.mp hy; exact hlen _
  · simpa using hsize

/-- With C07: a path accepted against a block's committed root can only yield a record of that block
(or a collision of `H` is exhibited). -/
theorem served_proof_yields_committed_record (hlen : HashLen H) (recs : List (List UInt8)) (hne : recs ≠ [])
    (path root value : List UInt8) (hroot : hashFullTree H (recs.map (hashLeaf H)) = .ok root)
    (hacc : merkleProve H path root = .ok value) : value ∈ recs ∨ Collision H := by
  rw [hashFullTree_eq] at hroot
  have hroot' : root = mth H (recs.map (hashLeaf H)) := by cases hroot; rfl
  rcases Poly.Proofs.MerkleVerify.merkleProve_sound H hlen (rfcTree recs) path root value hacc
      (by rw [hroot', rfcTree_root H recs hne]) with ⟨ds, h⟩ | h
  · left
    have := DTree.descend_leaf_mem _ ds value h
    rwa [rfcTree_leaves recs hne] at this
  · exact Or.inr h


/-! ### Ledger glue (model `Poly.Model.MerkleLedger`): whole chains of committed blocks

A chain is a genesis hash `g` and blocks `(hash, records committed by the successful transactions)`.
The accumulator's leaf `i` is the previous-block hash of block `i` (zero hash for genesis), header `r`
commits `blockRootAt … r` (root over leaves `0..r`), and `GetMerkleProof(h, r)` is
`MerkleInclusionLeafPath(hash_h, h + 1, r + 1)` — the `+1` shifts are part of the model. -/

/-- Building any chain never panics, and the header of height `r` commits `blockRootAt … r`, also seen
from every later extension of the chain. -/
theorem block_root_committed (g : Hash) (blocks : List (Hash × List (List UInt8 × List UInt8))) (r : Nat)
    (hr : r ≤ blocks.length) :
    ∃ lr, chain H g (blocks.take r) = .ok lr ∧
      blockRoot H lr = .ok (blockRootAt H (g :: blocks.map (·.1)) r) :=
  blockRoot_committed H g blocks r hr

/-- For every chain of committed blocks and any heights `h < r`: the block-inclusion proof served for
block `h` verifies (`MerkleProve`) against the block root in header `r` and yields block `h`'s hash. -/
theorem served_block_proof_ok (hlen : HashLen H) (g : Hash) (blocks : List (Hash × List (List UInt8 × List UInt8)))
    (h r : Nat) (hhr : h < r) (hr : r ≤ blocks.length)
    (h32 : ∀ y ∈ g :: blocks.map (·.1), y.length = 32) :
    ∃ l bh p, chain H g blocks = .ok l ∧ (g :: blocks.map (·.1))[h]? = some bh ∧
      getMerkleProof H l h r = .ok p ∧
      merkleProve H p (blockRootAt H (g :: blocks.map (·.1)) r) = .ok bh := by
  obtain ⟨l, h1, h2, h3⟩ := linv_chain H g blocks
  have hlt : h < (g :: blocks.map (·.1)).length := by simp; omega
  have hbh : (g :: blocks.map (·.1))[h]? = some ((g :: blocks.map (·.1))[h]) := List.getElem?_eq_getElem hlt
  obtain ⟨p, hp1, hp2⟩ := served_block_proof H hlen l h2 h r _ hhr (by rw [h3]; simp; omega) (by rw [h3]; exact hbh)
    (h32 _ (List.getElem_mem _))
  exact ⟨l, _, p, h1, hbh, hp1, by rw [h3] at hp2; exact hp2⟩

/-- For every committed block: each cross-chain record the block produced (stored under a key the block
wrote once) has a proof, as served by `GetCrossStatesProof(height, key)`, that verifies against the block's
cross-state root and yields exactly the stored record. -/
theorem served_cross_proof_ledger (hlen : HashLen H) (g : Hash) (blocks : List (Hash × List (List UInt8 × List UInt8)))
    (bh : Hash) (recs : List (List UInt8 × List UInt8)) (key value : List UInt8)
    (hmem : (key, value) ∈ recs) (huniq : ∀ kv ∈ recs, kv.1 = key → kv.2 = value)
    (hsize : recs.length * 33 + value.length + 8 ≤ MAX_SIZE) :
    ∃ l p root, chain H g (blocks ++ [(bh, recs)]) = .ok l ∧
      getCrossStatesProof H l (blocks.length + 1) key = .ok p ∧
      crossRoot H (recs.map (fun kv => hashLeaf H kv.2)) = .ok root ∧
      merkleProve H p root = .ok value := by
  obtain ⟨l0, h1, h2, h3⟩ := linv_chain H g blocks
  obtain ⟨l', p, root, ha, hp, hr, hv⟩ := served_cross_proof H hlen l0 h2 bh recs key value hmem huniq hsize
  refine ⟨l', p, root, ?_, ?_, hr, hv⟩
  · -- chain over blocks ++ [b] = addBlock after chain over blocks
    have hsplit : ∀ (bs : List (Hash × List (List UInt8 × List UInt8))) (l a : Ledger),
        addBlocks H l bs = .ok a → addBlocks H l (bs ++ [(bh, recs)]) = addBlock H a bh recs := by
      intro bs
      induction bs with
      | nil => intro l a h; simp [addBlocks] at h; subst h; simp only [List.nil_append, addBlocks]; cases addBlock H l bh recs <;> rfl
      | cons b bs ih =>
        intro l a h
        simp only [List.cons_append, addBlocks] at h ⊢
        cases hb : addBlock H l b.1 b.2 with
        | error e => simp [hb] at h
        | ok l1 => simp only [hb] at h ⊢; exact ih l1 a h
    unfold chain at h1 ⊢
    cases hg : genesis H g with
    | error e => simp [hg] at h1
    | ok lg =>
      simp only [hg] at h1 ⊢
      rw [hsplit blocks lg l0 h1, ha]
  · have : l0.hashes.length = blocks.length + 1 := by rw [h3]; simp
    rw [← this]; exact hp

/-- Satisfiable hypotheses (a 32-byte "hash" and a three-record block). -/
example : ∃ (H : List UInt8 → List UInt8), HashLen H ∧
    ∃ p root, merkleLeafPath H [2] ([[1], [2], [3]].map (hashLeaf H)) = .ok p ∧
      hashFullTree H ([[1], [2], [3]].map (hashLeaf H)) = .ok root ∧ merkleProve H p root = .ok [2] := by
  let H : List UInt8 → List UInt8 := fun x => (x ++ List.replicate 32 7).take 32
  have hlen : HashLen H := by intro x; simp [H]
  exact ⟨H, hlen, served_cross_proof_ok H hlen [[1], [2], [3]] [2] (by simp) (by simp [MAX_SIZE])⟩

end Poly.Props.C08
