import Poly.Proofs.SchemaLedger
import Poly.Generated.CodecInventory
/-!
# C02 — Ledger objects encode faithfully with signature-independent identity

Model: `Poly.Model.SchemaLedger` (schemas `txUnsignedTy`, `sigTy`, `txTy`, `headerTy` over the DSL of `Poly.Model.Schema`,
decoders `txDec` / `txFromRawBytes` / `blockDec` following `core/types`). `H` is the hash function (SHA-256 in the code),
`K` the public-key library (`SerializePublicKey ∘ DeserializePublicKey`); every statement holds for all `H`, `K`.
-/
namespace Poly.Props.C02
open Poly.Model.Codec Poly.Model.Schema Poly.Model.SchemaLedger

/-- A well-formed transaction of at most `MAX_TX_SIZE` bytes, followed by any bytes `r`, decodes to the same value, leaves
exactly `r`, keeps `Raw` = its encoding, and its hash is the double hash of exactly its unsigned bytes. -/
theorem tx_roundtrip (K : Bytes → Option Bytes) (H : Bytes → Bytes) (tx : txTy.Val) (r : Bytes) (hwf : txTy.WF K tx)
    (hsz : (txTy.enc tx).length ≤ MAX_TX_SIZE) :
    txDec K H (txTy.enc tx ++ r) =
      .ok { val := tx, hash := H (H (txUnsignedTy.enc tx.1)), raw := txTy.enc tx, rest := r } :=
  txDec_enc K H tx r hwf hsz

/-- Adding, removing or changing signatures never changes a transaction's identity. -/
theorem tx_hash_ignores_sigs (K : Bytes → Option Bytes) (H : Bytes → Bytes) (u : txUnsignedTy.Val) (s s' : sigsTy.Val)
    (h1 : txTy.WF K (u, s)) (h2 : txTy.WF K (u, s')) (z1 : (txTy.enc (u, s)).length ≤ MAX_TX_SIZE)
    (z2 : (txTy.enc (u, s')).length ≤ MAX_TX_SIZE) :
    ∃ t t', txFromRawBytes K H (txTy.enc (u, s)) = .ok t ∧ txFromRawBytes K H (txTy.enc (u, s')) = .ok t' ∧
      t.hash = t'.hash ∧ t.val.2 = s ∧ t'.val.2 = s' := by
  have a := txDec_enc K H (u, s) [] h1 z1
  have b := txDec_enc K H (u, s') [] h2 z2
  simp only [List.append_nil] at a b
  have na : ¬ (txTy.enc (u, s)).length > MAX_TX_SIZE := by omega
  have nb : ¬ (txTy.enc (u, s')).length > MAX_TX_SIZE := by omega
  refine ⟨{ val := (u, s), hash := H (H (txUnsignedTy.enc u)), raw := txTy.enc (u, s), rest := [] },
    { val := (u, s'), hash := H (H (txUnsignedTy.enc u)), raw := txTy.enc (u, s'), rest := [] }, ?_, ?_, rfl, rfl, rfl⟩
  · simp only [txFromRawBytes, if_neg na, a]
  · simp only [txFromRawBytes, if_neg nb, b]

/-- For *any* accepted input, the identity is the double hash of exactly the bytes consumed by the unsigned part, `Raw` is
exactly the consumed prefix, and it is at most `MAX_TX_SIZE` long. -/
theorem tx_hash_def (K : Bytes → Option Bytes) (H : Bytes → Bytes) (bs : Bytes) (res : TxRes) (h : txDec K H bs = .ok res) :
    ∃ r1, txUnsignedTy.dec K bs = .ok (res.val.1, r1) ∧ res.hash = H (H (bs.take (bs.length - r1.length))) ∧
      res.raw = bs.take (bs.length - res.rest.length) ∧ res.raw.length ≤ MAX_TX_SIZE :=
  txDec_hash_def K H bs res h

/-- Oversize raw transactions are refused. -/
theorem oversize_refused (K : Bytes → Option Bytes) (H : Bytes → Bytes) (raw : Bytes) (h : raw.length > MAX_TX_SIZE) :
    txFromRawBytes K H raw = .error .reject := txFromRawBytes_oversize K H raw h

/-- Every proper prefix of a transaction encoding is refused. -/
theorem tx_truncation_refused (K : Bytes → Option Bytes) (H : Bytes → Bytes) (tx : txTy.Val) (hwf : txTy.WF K tx) (k : Nat)
    (hk : k < (txTy.enc tx).length) : ∃ e, txDec K H ((txTy.enc tx).take k) = .error e := by
  obtain ⟨u, sigs⟩ := tx
  have e : txTy.enc (u, sigs) = txUnsignedTy.enc u ++ sigsTy.enc sigs := rfl
  rw [e] at hk ⊢
  unfold txDec
  rcases take_append_cases (txUnsignedTy.enc u) (sigsTy.enc sigs) k with ⟨hlt, heq⟩ | ⟨hge, heq⟩
  · obtain ⟨er, her⟩ := Ty.dec_trunc K txUnsignedTy (by decide) u hwf.1 k hlt
    exact ⟨er, by rw [heq, her]⟩
  · have hk' : k - (txUnsignedTy.enc u).length < (sigsTy.enc sigs).length := by
      simp only [List.length_append] at hk; omega
    obtain ⟨er, her⟩ := Ty.dec_trunc K sigsTy (by decide) sigs hwf.2 _ hk'
    exact ⟨er, by rw [heq, Ty.dec_enc K txUnsignedTy u _ hwf.1]; simp only [her]⟩

/-- A well-formed header followed by `r` decodes to the same header and leaves `r`. -/
theorem header_roundtrip (K : Bytes → Option Bytes) (h : headerTy.Val) (r : Bytes) (hwf : headerTy.WF K h) :
    headerTy.dec K (headerTy.enc h ++ r) = .ok (h, r) := Ty.dec_enc K headerTy h r hwf

/-- A header's identity is the double hash of its unsigned bytes: bookkeepers and signatures do not enter it. -/
theorem header_hash_ignores_sigs (H : Bytes → Bytes) (u : headerUnsignedTy.Val) (bk bk' : bookkeepersTy.Val)
    (sd sd' : sigDataTy.Val) :
    headerHash H (u, bk, sd) = headerHash H (u, bk', sd') ∧ headerHash H (u, bk, sd) = H (H (headerUnsignedTy.enc u)) :=
  ⟨rfl, rfl⟩

/-- Every proper prefix of a header encoding is refused. -/
theorem header_truncation_refused (K : Bytes → Option Bytes) (h : headerTy.Val) (hwf : headerTy.WF K h) (k : Nat)
    (hk : k < (headerTy.enc h).length) : IsErr (headerTy.dec K ((headerTy.enc h).take k)) :=
  Ty.dec_trunc K headerTy (by decide) h hwf k hk

/-- A block of well-formed transactions with pairwise distinct hashes whose header carries their Merkle root decodes to
the same header and the same transactions (with their hashes and raw bytes), leaving exactly `r`. -/
theorem block_roundtrip (K : Bytes → Option Bytes) (H : Bytes → Bytes) (h : headerTy.Val) (txs : List txTy.Val) (r : Bytes)
    (hh : headerTy.WF K h) (hn : txs.length < 2 ^ 32)
    (hwf : ∀ tx ∈ txs, txTy.WF K tx ∧ (txTy.enc tx).length ≤ MAX_TX_SIZE)
    (hnd : (txs.map (txHash H)).Nodup)
    (hroot : headerTxRoot h = Poly.Model.BtcMerkle.btcRoot H (txs.map (txHash H))) :
    ∃ bv, blockDec K H (blockEnc h txs ++ r) = .ok (bv, r) ∧ bv.header = h ∧ bv.txs.map (·.val) = txs ∧
      bv.txs.map (·.hash) = txs.map (txHash H) :=
  ⟨_, blockDec_enc K H h txs r hh hn hwf hnd hroot, rfl, resList_val H txs r, resList_hash H txs r⟩

/-- Whatever bytes are accepted as a block: no transaction hash is repeated and the header's transaction root is the Merkle
root of the decoded transactions' hashes. Equivalently, a block that repeats a transaction or whose transactions do not
match the header root is refused. -/
theorem block_dup_and_root_mismatch_refused (K : Bytes → Option Bytes) (H : Bytes → Bytes) (bs : Bytes) (bv : BlockVal)
    (r : Bytes) (h : blockDec K H bs = .ok (bv, r)) :
    (bv.txs.map (·.hash)).Nodup ∧ headerTxRoot bv.header = Poly.Model.BtcMerkle.btcRoot H (bv.txs.map (·.hash)) :=
  blockDec_accepts K H bs bv r h

/-- No decoder preallocates from an unbounded wire count (syntactic check of the schemas, by evaluation). -/
theorem no_unbounded_prealloc : txTy.noUnboundedPrealloc = true ∧ headerTy.noUnboundedPrealloc = true := by decide

/-- Decoding arbitrary bytes never reaches the panic outcome: transactions, headers, blocks. -/
theorem dec_no_panic (K : Bytes → Option Bytes) (H : Bytes → Bytes) (bs : Bytes) :
    txDec K H bs ≠ .error .panic ∧ txFromRawBytes K H bs ≠ .error .panic ∧ headerTy.dec K bs ≠ .error .panic ∧
    blockDec K H bs ≠ .error .panic := by
  refine ⟨txDec_ne_panic K H bs, ?_, Ty.dec_no_panic K headerTy (by decide) bs, blockDec_ne_panic K H bs⟩
  unfold txFromRawBytes; split
  · simp
  · exact txDec_ne_panic K H bs

/-- Without the count bound the schema is flagged: `make([]Sig, l)` with an unbounded var-uint count (the defect F1). -/
theorem unbounded_sig_prealloc_is_flagged :
    (Ty.list { cnt := .varuint, alloc := .prealloc 56, signedLoop := true } sigTy).noUnboundedPrealloc = false ∧
    (match (Ty.list { cnt := .varuint, alloc := .prealloc 56, signedLoop := true } sigTy).dec (fun _ => none)
      [0xff, 0xff, 0xff, 0xff, 0xff, 0xff, 0xff, 0xff, 0xff] with
     | .error .panic => true
     | _ => false) = true := by
  constructor <;> decide

/-- (T) every type with a codec pair in the anchored Go files is modelled: `Transaction` (`txTy`, `txDec`), `Sig` (`sigTy`),
`InvokeCode` (the code field of `txUnsignedTy`), `Header` (`headerTy`), `Block` (`blockDec`), `TxAttribute`
(`txAttributeTy`; transactions themselves must carry no attributes). -/
theorem inventory_covered :
    Poly.Generated.CodecInventory.c02.map (·.1) = ["Block", "Header", "InvokeCode", "Sig", "Transaction", "TxAttribute"] := by
  decide

/-- (T) the limits and versions the schemas are written with are the constants of the Go source (regenerated on every run). -/
theorem constants_match :
    MAX_TX_SIZE = Poly.Generated.CodecInventory.const "MAX_TX_SIZE" ∧
    TX_MAX_SIG_SIZE = Poly.Generated.CodecInventory.const "TX_MAX_SIG_SIZE" ∧
    Poly.Generated.CodecInventory.const "CURR_TX_VERSION" = 0 ∧ Poly.Generated.CodecInventory.const "CURR_HEADER_VERSION" = 0 ∧
    Poly.Generated.CodecInventory.const "MAX_ATTRIBUTES_LEN" = 0 ∧ Poly.Generated.CodecInventory.const "ADDR_LEN" = 20 ∧
    Poly.Generated.CodecInventory.const "UINT256_SIZE" = 32 := by decide

/-- `TxAttribute` round trip and refusal of an unknown usage byte. -/
theorem tx_attribute_roundtrip (K : Bytes → Option Bytes) (v : txAttributeTy.Val) (r : Bytes) (h : txAttributeTy.WF K v) :
    txAttributeTy.dec K (txAttributeTy.enc v ++ r) = .ok (v, r) := Ty.dec_enc K txAttributeTy v r h

/-! ## Non-vacuity: a well-formed transaction with one signature, and a header -/

def exKey : Bytes := [2, 1, 2, 3]
def exK : Bytes → Option Bytes := fun b => if b = exKey then some exKey else none

def exTx : txTy.Val :=
  (((0 : UInt8), (0xd1 : UInt8), (7 : UInt32), (1 : UInt64), (2 : UInt64), (3 : UInt64), ([1, 2, 3] : Bytes), ([] : Bytes),
    (List.replicate 20 9 : Bytes), (0 : UInt8)), [(([[5, 6]] : List Bytes), ([exKey] : List Bytes), (1 : UInt16))])

def exHeader : headerTy.Val :=
  (((0 : UInt32), (5 : UInt64), (List.replicate 32 1 : Bytes), (List.replicate 32 2 : Bytes), (List.replicate 32 3 : Bytes),
    (List.replicate 32 4 : Bytes), (6 : UInt32), (7 : UInt32), (8 : UInt64), ([9] : Bytes), (List.replicate 20 0 : Bytes)),
   ([exKey] : List Bytes), ([[1, 2]] : List Bytes))

example : txTy.WF exK exTx ∧ (txTy.enc exTx).length ≤ MAX_TX_SIZE :=
  ⟨Ty.wfb_sound exK txTy exTx (by decide), by decide⟩

example : headerTy.WF exK exHeader := Ty.wfb_sound exK headerTy exHeader (by decide)

/-- a constant 32-byte "hash" for the non-vacuity examples -/
def exH : Bytes → Bytes := fun _ => List.replicate 32 7

def exBlockHeader : headerTy.Val :=
  (((0 : UInt32), (5 : UInt64), (List.replicate 32 1 : Bytes), (List.replicate 32 7 : Bytes), (List.replicate 32 3 : Bytes),
    (List.replicate 32 4 : Bytes), (6 : UInt32), (7 : UInt32), (8 : UInt64), ([9] : Bytes), (List.replicate 20 0 : Bytes)),
   ([exKey] : List Bytes), ([[1, 2]] : List Bytes))

/-- the hypotheses of `block_roundtrip` are satisfiable: a block with one transaction whose header carries its root -/
example : ∃ bv, blockDec exK exH (blockEnc exBlockHeader [exTx] ++ [0xEE]) = .ok (bv, [0xEE]) ∧ bv.header = exBlockHeader ∧
    bv.txs.map (·.val) = [exTx] := by
  obtain ⟨bv, h1, h2, h3, _⟩ := block_roundtrip exK exH exBlockHeader [exTx] [0xEE]
    (Ty.wfb_sound exK headerTy exBlockHeader (by decide)) (by decide)
    (by intro tx htx; have := List.eq_of_mem_singleton htx; subst this
        exact ⟨Ty.wfb_sound exK txTy exTx (by decide), by decide⟩)
    (by simp [txHash])
    (by simp [Poly.Model.BtcMerkle.btcRoot, txHash, exH, headerTxRoot, exBlockHeader])
  exact ⟨bv, h1, h2, h3⟩

end Poly.Props.C02
