import Poly.Proofs.CCM
import Poly.Generated.RouterStart
/-!
# C21 — Imports are gated by the chain registry and blacklist

Model: `Poly.Model.CCM.importExTransfer` (code order of `ImportExTransfer`), `blackChain`, `whiteChain`. All
statements hold for every verification oracle, every hash function, every state and every history.
-/
namespace Poly.Props.C21
open Poly.Model.CCM

variable {α ι : Type}

/-- **Gate.** An import that executes a message (outcome `ok`, or `okDelegated` for BTC / ripple targets) had:
source not blacklisted, source registered, its router known and active at the current height, the verified
message's destination not blacklisted and registered. -/
theorem gate (H : Bytes → Bytes) (o : Oracles α ι) (env : Env) (s : State α) (src : Nat) (inp : ι)
    (hok : (importExTransfer H o env s src inp).outcome = .ok ∨
           (importExTransfer H o env s src inp).outcome = .okDelegated) :
    src ∉ s.black ∧ ∃ router p aux trouter,
      s.chains.lookup src = some router ∧ router ∈ supportedRouters ∧
      routerStartBlock env.mainNet router ≤ env.height ∧
      o.verify router env s inp = .accept p aux ∧
      p.toChainID ∉ s.black ∧ s.chains.lookup p.toChainID = some trouter := by
  rcases import_cases H o env s src inp with ⟨c, h⟩ | h | ⟨r, a, _, _, _, _, _, h⟩ |
      ⟨r, p, a, tr, hacc, _, _, h⟩ | ⟨r, p, a, tr, s2, hacc, _, h⟩
  · rw [h] at hok; simp [fail] at hok
  · rw [h] at hok; simp at hok
  · rw [h] at hok; simp at hok
  · exact ⟨hacc.src_not_black, r, p, a, tr, hacc.src_registered, hacc.router_supported,
      Nat.le_of_not_lt hacc.router_active, hacc.verified, hacc.dst_not_black, hacc.dst_registered⟩
  · exact ⟨hacc.src_not_black, r, p, a, tr, hacc.src_registered, hacc.router_supported,
      Nat.le_of_not_lt hacc.router_active, hacc.verified, hacc.dst_not_black, hacc.dst_registered⟩

/-- Also a vote that is merely recorded (outcome `okPending`) needs a registered, non-blacklisted source chain
whose router is active. -/
theorem gate_pending (H : Bytes → Bytes) (o : Oracles α ι) (env : Env) (s : State α) (src : Nat) (inp : ι)
    (hok : (importExTransfer H o env s src inp).outcome = .okPending) :
    src ∉ s.black ∧ ∃ router, s.chains.lookup src = some router ∧ router ∈ supportedRouters ∧
      routerStartBlock env.mainNet router ≤ env.height := by
  rcases import_cases H o env s src inp with ⟨c, h⟩ | h | ⟨r, a, hl, hb, hs, hh, _, h⟩ |
      ⟨r, p, a, tr, hacc, _, _, h⟩ | ⟨r, p, a, tr, s2, hacc, _, h⟩
  · rw [h] at hok; simp [fail] at hok
  · rw [h] at hok; simp at hok
  · exact ⟨hb, r, hl, hs, Nat.le_of_not_lt hh⟩
  · rw [h] at hok; simp at hok
  · rw [h] at hok; simp at hok

/-- Each gate by itself: a blacklisted or unregistered source, an unknown or not yet active router is rejected. -/
theorem source_gates (H : Bytes → Bytes) (o : Oracles α ι) (env : Env) (s : State α) (src : Nat) (inp : ι) :
    (src ∈ s.black → importExTransfer H o env s src inp = fail s "src-black") ∧
    (src ∉ s.black → s.chains.lookup src = none → importExTransfer H o env s src inp = fail s "src-unreg") ∧
    (∀ router, src ∉ s.black → s.chains.lookup src = some router →
      (router ∉ supportedRouters ∨ env.height < routerStartBlock env.mainNet router) →
      importExTransfer H o env s src inp = fail s "router") := by
  refine ⟨?_, ?_, ?_⟩
  · intro h; unfold importExTransfer; rw [if_pos h]
  · intro h hl; unfold importExTransfer; rw [if_neg h, hl]
  · intro router h hl hr
    unfold importExTransfer
    rw [if_neg h, hl]
    simp only
    by_cases hs : router ∉ supportedRouters
    · rw [if_pos hs]
    · rw [if_neg hs]
      rcases hr with hr | hr
      · exact absurd hr hs
      · rw [if_pos hr]

/-- **Rejected means no change.** A rejected (or panicking) import leaves the whole state as it was and commits no
cross-state leaf. -/
theorem rejected_no_change (H : Bytes → Bytes) (o : Oracles α ι) (env : Env) (s : State α) (src : Nat) (inp : ι)
    (h : (∃ c, (importExTransfer H o env s src inp).outcome = .reject c) ∨
         (importExTransfer H o env s src inp).outcome = .panic) :
    (importExTransfer H o env s src inp).state = s ∧ (importExTransfer H o env s src inp).crossHashes = [] :=
  import_reject_unchanged H o env s src inp h

/-- BlackChain / WhiteChain without the operator witness fail and change nothing. -/
theorem black_white_need_operator (s : State α) (c : Nat) :
    blackChain s false c = (.reject "witness", s) ∧ whiteChain s false c = (.reject "witness", s) :=
  ⟨blackChain_noWitness s c, whiteChain_noWitness s c⟩

/-- **Blacklisting is effective.** After a successful `BlackChain c`, along every history that contains no successful
`WhiteChain c` (imports, registrations, other blacklist operations, failed white-listing attempts, in any order),
the chain stays blacklisted; hence (next theorem) every import from it or towards it fails. -/
theorem black_effective (H : Bytes → Bytes) (o : Oracles α ι) (hconf : DelegatesConfined o) (s : State α) (c : Nat)
    (ops : List (Op ι)) (hops : ∀ op ∈ ops, ∀ w, op = .white w c → w = false) :
    c ∈ (run H o (blackChain s true c).2 ops).black :=
  run_black_persists H o hconf ops _ c hops ((blackChain_mem s c c).mpr (Or.inr rfl))

/-- While a chain is blacklisted no import from it is accepted or even recorded, and no import executes a message
towards it — whatever the verification oracle answers. -/
theorem blacklisted_blocks_imports (H : Bytes → Bytes) (o : Oracles α ι) (env : Env) (s : State α) (c : Nat)
    (hc : c ∈ s.black) :
    (∀ inp, importExTransfer H o env s c inp = fail s "src-black") ∧
    (∀ src inp router p aux, s.chains.lookup src = some router → o.verify router env s inp = .accept p aux →
      p.toChainID = c →
      (importExTransfer H o env s src inp).outcome ≠ .ok ∧ (importExTransfer H o env s src inp).outcome ≠ .okDelegated) := by
  constructor
  · intro inp; exact (source_gates H o env s c inp).1 hc
  · intro src inp router p aux hl hv hto
    have key : ¬ ((importExTransfer H o env s src inp).outcome = .ok ∨
        (importExTransfer H o env s src inp).outcome = .okDelegated) := by
      intro hok
      obtain ⟨_, r, p', a, tr, hl', _, _, hv', hnb, _⟩ := gate H o env s src inp hok
      rw [hl] at hl'; cases hl'
      rw [hv] at hv'; cases hv'
      exact hnb (hto ▸ hc)
    exact ⟨fun h => key (Or.inl h), fun h => key (Or.inr h)⟩

/-- **Whitelisting restores.** `WhiteChain c` removes exactly `c` from the blacklist; black followed by white of a
chain that was not blacklisted gives back the blacklist as it was. -/
theorem white_restores (s : State α) (c : Nat) :
    (∀ x, x ∈ (whiteChain s true c).2.black ↔ x ∈ s.black ∧ x ≠ c) ∧
    (c ∉ s.black → (whiteChain (blackChain s true c).2 true c).2.black = s.black) :=
  ⟨whiteChain_mem s c, white_after_black s c⟩

/-- Imports never change the blacklist or the registry. -/
theorem import_keeps_gates (H : Bytes → Bytes) (o : Oracles α ι) (hconf : DelegatesConfined o)
    (env : Env) (s : State α) (src : Nat) (inp : ι) :
    (importExTransfer H o env s src inp).state.black = s.black ∧
    (importExTransfer H o env s src inp).state.chains = s.chains :=
  import_black_chains H o hconf env s src inp

/-- **The model's router tables are the source's.** `Poly.Generated.RouterStart` is regenerated from
`utils.CheckRouterStartBlock` and `cross_chain_manager.GetChainHandler` on every run: the model's start block is the
main-net start block exactly for the routers of the `switch` (and 0 elsewhere and on other networks), the comparison
and the network condition are the ones the model was written for (`block < start` rejects, i.e. the first admitted
height is `start`), and the routers with a handler are the model's `supportedRouters`. -/
theorem router_tables_match_source :
    (∀ r ∈ List.range 256, routerStartBlock true r =
      if r ∈ Poly.Generated.RouterStart.gatedRouters then Poly.Generated.RouterStart.mainNetStart else 0) ∧
    (∀ r ∈ List.range 256, routerStartBlock false r = 0) ∧
    Poly.Generated.RouterStart.rejectCondition = "startBLock > 0 && block < startBLock" ∧
    Poly.Generated.RouterStart.networkGuard = "config.DefConfig.P2PNode.NetworkId == config.NETWORK_ID_MAIN_NET" ∧
    supportedRouters = Poly.Generated.RouterStart.handlerRouters := by
  decide +kernel

/-- Non-vacuity: an import that passes all gates, the same import after BlackChain of its destination (rejected), and
after WhiteChain again (accepted). -/
example :
    let o : Oracles Unit Unit := ⟨fun _ _ _ _ => .accept ⟨[1], [7], [], 2, [], [], []⟩ (), fun _ _ _ _ => none, fun _ _ _ _ => none⟩
    let env : Env := ⟨100, true, true, [9]⟩
    let s0 : State Unit := ⟨[(1, 0), (2, 2)], [], [], [], ()⟩
    (importExTransfer id o env s0 1 ()).outcome = .ok ∧
    (importExTransfer id o env (blackChain s0 true 2).2 1 ()).outcome = .reject "dst-black" ∧
    (importExTransfer id o env (whiteChain (blackChain s0 true 2).2 true 2).2 1 ()).outcome = .ok := by
  decide

end Poly.Props.C21
