import Poly.Proofs.EthRules
import Poly.Proofs.EthSizeTables
/-!
# C28 — Ethereum header rules match the Ethereum specification

`Poly.Model.EthRules` transliterates the calculators and checks of `native/service/header_sync/eth`; all of its
literals, the fork chain of `SyncBlockHeader`, the fork heights, the struct field order and the two ethash size tables
are `Poly.Generated.EthConsts`, regenerated from the Go source on every run, so every theorem below is re-checked
against what the code says now. `Poly.Spec.Ethereum` is written from the Yellow Paper / EIP texts.

The 2 × 2048 table entries are proved equal to the computed sizes from generated certificates (a non-trivial divisor
for every larger candidate, a Pratt chain for the entry's item count) that a Lean checker, evaluated by the kernel
(`decide +kernel`, no `native_decide`), accepts; the checker is proved sound (`Poly.Proofs.EthSizeCert`, Lucas' test from
Mathlib). Not proved here: Keccak-256 (external).
-/
namespace Poly.Props.C28
open Poly.Model.EthRules Poly.Model.EthHeaderRlp Poly.Spec Poly.Generated Poly.Proofs.EthRules

/-! ## Difficulty -/

/-- `difficultyCalculator` (pre-London path, `BOMB_DELAY = 8 999 999` seen from the parent) is the Yellow Paper
difficulty with the EIP-2384 (Muir Glacier) delay κ = 9 000 000 — for every parent difficulty, number, uncle flag and
pair of timestamps (no sign or range assumption: `big.Int.Div` is Euclidean, the spec's `//` is floor division, the
divisors are positive). -/
theorem difficulty_legacy_eq_spec (time : Int) (p : Hdr) :
    calcLegacy time p = Ethereum.difficulty 9000000 p.difficulty (!p.uncleEmpty) p.number p.time time :=
  calcLegacy_eq_spec time p

/-- `makeDifficultyCalculator(κ)` is the Yellow Paper difficulty with delay κ, for every κ and all field values. -/
theorem difficulty_delay_eq_spec (kappa : Int) (time : Nat) (p : Hdr) :
    calcWithDelay kappa time p = Ethereum.difficulty kappa p.difficulty (!p.uncleEmpty) p.number p.time time :=
  calcWithDelay_eq_spec kappa time p

/-- Era selection on main net (network id 1): for every header number from Muir Glacier (9 200 000) on — a header
below London carrying no base fee — the `expected` difficulty of `SyncBlockHeader` is the specification's difficulty
of the era the number belongs to (EIP-2384 / EIP-3554 / EIP-4345 / EIP-5133 delays and activation blocks). -/
theorem difficulty_mainnet_era (h p : Hdr) (n : Nat) (hn : h.number = (n : Int)) (h64 : n < 2^64)
    (hbf : n < 12965000 → h.baseFee = none) (era : Ethereum.Era)
    (he : Ethereum.mainnetEra n = some era) :
    expectedDifficulty 1 h p =
      some (Ethereum.difficulty era.kappa p.difficulty (!p.uncleEmpty) p.number p.time h.time) :=
  difficulty_mainnet_eras h p n hn h64 hbf era he

/-- Era selection on the test net (network id 2, Ropsten heights): Muir Glacier and London eras. -/
theorem difficulty_testnet_era (h p : Hdr) (n : Nat) (hn : h.number = (n : Int)) (h64 : n < 2^64)
    (hbf : n < 10499401 → h.baseFee = none) (era : Ethereum.Era) (he : Ethereum.ropstenEra n = some era) :
    expectedDifficulty 2 h p =
      some (Ethereum.difficulty era.kappa p.difficulty (!p.uncleEmpty) p.number p.time h.time) := by
  rw [expected_unfold]
  simp only [isGrayGlacier, isArrowGlacier, isLondon, h5133_test, h4345_test, h1559_test, hn, u64_ofNat n h64]
  unfold Ethereum.ropstenEra at he
  split at he
  · simp at he; subst he
    have : n ≥ 10499401 := by omega
    simp [this, calcWithDelay_eq_spec, Ethereum.Era.kappa]
  · split at he
    · simp at he; subst he
      have h2 : ¬ n ≥ 10499401 := by omega
      have h3 := hbf (by omega)
      simp [h2, h3, calcLegacy_eq_spec, Ethereum.Era.kappa]
    · simp at he

/-- The bomb: with more than one full period the specification adds exactly `2^(periods − 2)` (shown on the spec so
that the formula above is not vacuous about the exponential term). -/
theorem difficulty_bomb_term (kappa pd pn pt t : Int) (hu : Bool) (hp : 2 ≤ (max (pn + 1 - kappa) 0) / 100000) :
    Ethereum.difficulty kappa pd hu pn pt t =
      max 131072 (pd + pd / 2048 * max ((if hu then 2 else 1) - (t - pt) / 9) (-99)) +
        2 ^ ((max (pn + 1 - kappa) 0) / 100000 - 2).toNat := by
  simp only [Ethereum.difficulty, Ethereum.minimumDifficulty, Ethereum.difficultyBoundDivisor, Ethereum.bombPeriod,
    Ethereum.fdiv, fdiv_pos _ 2048 (by omega), fdiv_pos _ 9 (by omega), fdiv_pos _ 100000 (by omega)]
  simp [hp]

/-! ## Gas limit -/

/-- `VerifyGaslimit` accepts exactly the Yellow Paper window `|H_l − P_l| < ⌊P_l / 1024⌋ ∧ H_l ≥ 5000`, for all gas
limits below 2⁶³ (where the `int64` casts of the code are exact; `SyncBlockHeader` caps the header's limit at 2⁶³ − 1). -/
theorem gaslimit_accept_iff_spec (parentGasLimit gasLimit : Nat) (hP : parentGasLimit < 2^63) (hH : gasLimit < 2^63) :
    verifyGaslimit parentGasLimit gasLimit = .ok ↔ Ethereum.GasLimitOk parentGasLimit gasLimit :=
  verifyGaslimit_ok_iff parentGasLimit gasLimit hP hH

/-- `VerifyGaslimit` has exactly three outcomes and none of them is a panic, for all 64-bit inputs. -/
theorem gaslimit_total (parentGasLimit gasLimit : Nat) :
    verifyGaslimit parentGasLimit gasLimit = .ok ∨
      verifyGaslimit parentGasLimit gasLimit = .reject "gaslimit-bounds" ∨
      verifyGaslimit parentGasLimit gasLimit = .reject "gaslimit-min" :=
  verifyGaslimit_cases parentGasLimit gasLimit

/-! ## Base fee -/

/-- `CalcBaseFee` of a London parent is the EIP-1559 `expected_base_fee_per_gas` — all three cases (gas used equal to,
above, below the target), for every non-negative parent base fee and every gas limit ≥ 2 (target ≥ 1). -/
theorem basefee_eq_spec (id : Nat) (p : Hdr) (b : Int) (hL : isLondon id p = true) (hb : p.baseFee = some b)
    (h0 : 0 ≤ b) (hgl : 2 ≤ p.gasLimit) :
    calcBaseFee id p = some (Ethereum.baseFee true b p.gasLimit p.gasUsed) :=
  calcBaseFee_london id p b hL hb h0 hgl

/-- At the fork block (parent not London) the base fee is `INITIAL_BASE_FEE = 10⁹`. -/
theorem basefee_fork_block (id : Nat) (p : Hdr) (hL : isLondon id p = false) :
    calcBaseFee id p = some 1000000000 := by
  rw [calcBaseFee_fork id p hL]; rfl

/-- The three cases of the EIP formula, spelled out (non-vacuity of `basefee_eq_spec`). -/
theorem basefee_spec_cases (b : Int) (gl gu : Nat) :
    (gu = gl / 2 → Ethereum.baseFee true b gl gu = b) ∧
    (gu > gl / 2 → Ethereum.baseFee true b gl gu =
        b + max (b * ((gu : Int) - ((gl / 2 : Nat) : Int)) / ((gl / 2 : Nat) : Int) / 8) 1) ∧
    (gu < gl / 2 → Ethereum.baseFee true b gl gu =
        b - b * (((gl / 2 : Nat) : Int) - (gu : Int)) / ((gl / 2 : Nat) : Int) / 8) := by
  have hT : Int.fdiv (gl : Int) ((2:Nat):Int) = ((gl / 2 : Nat) : Int) := by
    rw [fdiv_pos _ _ (by omega)]; omega
  refine ⟨?_, ?_, ?_⟩ <;> intro hc <;>
    simp only [Ethereum.baseFee, Ethereum.elasticityMultiplier, Ethereum.baseFeeMaxChangeDenominator, Ethereum.fdiv, hT,
      Bool.not_true, Bool.false_eq_true, if_false]
  · simp [hc]
  · have h1 : ¬ ((gu : Int) = ((gl / 2 : Nat) : Int)) := by omega
    have h2 : (gu : Int) > ((gl / 2 : Nat) : Int) := by omega
    simp only [h1, h2, if_true, if_false]
    rw [fdiv_pos _ _ (by omega), fdiv_pos _ _ (by omega)]
  · have h1 : ¬ ((gu : Int) = ((gl / 2 : Nat) : Int)) := by omega
    have h2 : ¬ (gu : Int) > ((gl / 2 : Nat) : Int) := by omega
    simp only [h1, h2, if_false]
    rw [fdiv_pos _ _ (by omega), fdiv_pos _ _ (by omega)]

/-- `VerifyEip1559Header` accepts exactly when the gas limit is inside the window around the parent limit (doubled at
the fork block) and the header's base fee is present and equal to the EIP-1559 value. -/
theorem eip1559_accept_iff (id : Nat) (p h : Hdr)
    (hpgl : p.gasLimit < 2^62) (hpgl2 : 2 ≤ p.gasLimit) (hcap : h.gasLimit < 2^63)
    (hpbf : isLondon id p = true → ∃ b, p.baseFee = some b ∧ 0 ≤ b) :
    verifyEip1559Header id p h = .ok ↔
      (Ethereum.GasLimitOk (Ethereum.eip1559ParentGasLimit (isLondon id p) p.gasLimit) h.gasLimit ∧
       h.baseFee = some (Ethereum.baseFee (isLondon id p) (p.baseFee.getD 0) p.gasLimit p.gasUsed)) :=
  eip1559_accept_iff_spec id p h hpgl hpgl2 hcap hpbf

/-! ## The rule sequence of `SyncBlockHeader`: a header violating any rule is rejected, a conforming one passes -/

/-- Main net, header numbers from Muir Glacier on (n ≥ 9 200 000), parent a well-formed stored header
(gas limit in [2, 2⁶²), base fee present and non-negative exactly from London on), header below London without base
fee: the checks between parent lookup and seal accept **iff** the header satisfies the specification
(`SpecValidMainnet`: height, extra-data size, timestamp order, gas used ≤ limit, gas-limit window, base fee,
difficulty of the number's era) and its gas limit is below 2⁶³ (go-ethereum's cap). -/
theorem rules_accept_iff (p h : Hdr) (extraLen pn hn : Nat)
    (hpn : p.number = (pn : Int)) (hhn : h.number = (hn : Int)) (hpn64 : pn + 1 < 2^64) (hhn64 : hn < 2^64)
    (hera : 9200000 ≤ hn)
    (hpgl : p.gasLimit < 2^62) (hpgl2 : 2 ≤ p.gasLimit)
    (hpbf : pn ≥ 12965000 → ∃ b, p.baseFee = some b ∧ 0 ≤ b) (hpbf' : pn < 12965000 → p.baseFee = none)
    (hhbf : hn < 12965000 → h.baseFee = none) :
    checkRules 1 p h extraLen = .ok ↔ (h.gasLimit < 2^63 ∧ SpecValidMainnet p h extraLen pn hn) :=
  rules_accept_iff_spec p h extraLen pn hn hpn hhn hpn64 hhn64 hera hpgl hpgl2 hpbf hpbf' hhbf

/-! ## Ethash sizes (computed branch) -/

/-- `calcDatasetSize(epoch)`: whenever the loop returns, the result is the Ethash-appendix size — reached from
`2³⁰ + 2²³·epoch − 128` in steps of 256, with a prime number of 128-byte items, no larger such size in between. -/
theorem dataset_size_computed_eq_spec (epoch sz : Nat) (h : calcDatasetSize epoch = some sz) :
    Ethereum.IsEthashSize Ethereum.datasetBytesInit Ethereum.datasetBytesGrowth Ethereum.mixBytes epoch sz :=
  sizeLoop_spec 128 _ _ sz h

/-- `calcCacheSize(epoch)`: same with `2²⁴ + 2¹⁷·epoch − 64`, items of 64 bytes. -/
theorem cache_size_computed_eq_spec (epoch sz : Nat) (h : calcCacheSize epoch = some sz) :
    Ethereum.IsEthashSize Ethereum.cacheBytesInit Ethereum.cacheBytesGrowth Ethereum.hashBytes epoch sz :=
  sizeLoop_spec 64 _ _ sz h

/-- Above the table (epoch ≥ 2048) `datasetSize` / `cacheSize` are the computed sizes of the block's epoch. -/
theorem sizes_above_table (block : Nat) (hb : 2048 ≤ block / 30000) :
    (∀ sz, datasetSize block = some sz → Ethereum.IsDatasetSize block sz) ∧
    (∀ sz, cacheSize block = some sz → Ethereum.IsCacheSize block sz) := by
  have e1 : EthConsts.epochLength.toNat = 30000 := rfl
  have e2 : EthConsts.maxEpoch.toNat = 2048 := rfl
  have hn : ¬ block / 30000 < 2048 := by omega
  constructor <;> intro sz h
  · simp only [datasetSize, e1, e2, hn, if_false] at h
    exact dataset_size_computed_eq_spec _ sz h
  · simp only [cacheSize, e1, e2, hn, if_false] at h
    exact cache_size_computed_eq_spec _ sz h

/-- The generated size tables equal the computed sizes: for every epoch below 2048 the table entry is exactly what
`calcDatasetSize` / `calcCacheSize` return (4096 entries; kernel-checked primality and compositeness certificates). -/
theorem size_tables_eq_computed (epoch v : Nat) :
    (EthConsts.datasetSizes[epoch]? = some v → calcDatasetSize epoch = some v) ∧
    (EthConsts.cacheSizes[epoch]? = some v → calcCacheSize epoch = some v) :=
  ⟨Poly.Proofs.EthSizeTables.datasetTable_eq_calc epoch v, Poly.Proofs.EthSizeTables.cacheTable_eq_calc epoch v⟩

/-- `datasetSize` and `cacheSize` agree with the Ethash appendix for EVERY block number (table and computed branch). -/
theorem sizes_eq_spec (block : Nat) :
    (∀ sz, datasetSize block = some sz → Ethereum.IsDatasetSize block sz) ∧
    (∀ sz, cacheSize block = some sz → Ethereum.IsCacheSize block sz) := by
  have e1 : EthConsts.epochLength.toNat = 30000 := rfl
  have e2 : EthConsts.maxEpoch.toNat = 2048 := rfl
  by_cases hb : block / 30000 < 2048
  · constructor <;> intro sz h
    · simp only [datasetSize, e1, e2, hb, if_true] at h
      exact dataset_size_computed_eq_spec _ sz ((size_tables_eq_computed _ sz).1 h)
    · simp only [cacheSize, e1, e2, hb, if_true] at h
      exact cache_size_computed_eq_spec _ sz ((size_tables_eq_computed _ sz).2 h)
  · exact sizes_above_table block (by omega)

/-- Both generated tables have `maxEpoch = 2048` entries (every epoch below the computed branch has one). -/
theorem size_tables_complete : EthConsts.datasetSizes.size = 2048 ∧ EthConsts.cacheSizes.size = 2048 := by
  constructor <;> decide +kernel

/-- The model's primality test (what the correspondence compares with `big.Int.ProbablyPrime`) decides primality. -/
theorem trial_division_decides_primality (n : Nat) : isPrime n = true ↔ Ethereum.IsPrime n := isPrime_iff n

/-! ## Header hash pre-image -/

/-- `Header.Hash()` hashes the RLP list of the fields in Yellow Paper order, the EIP-1559 base fee last and optional;
the seal hash `HashHeader` leaves out mix digest and nonce. (Field orders generated from the Go struct / slice.) -/
theorem header_field_order :
    EthConsts.headerFields = Ethereum.headerFieldOrder.map (·, false) ++ [(Ethereum.eip1559Field, true)] ∧
    EthConsts.sealFields = Ethereum.sealFieldOrder.map (·, false) ++ [(Ethereum.eip1559Field, true)] := by
  constructor <;> rfl

/-- The pre-image for a legacy header is the 15-item list, for a London header the 16-item list. -/
theorem header_preimage_shape (h : FullHdr) :
    headerRlp h = some (rlpList ([rlpBytes h.parentHash, rlpBytes h.uncleHash, rlpBytes h.coinbase, rlpBytes h.root,
      rlpBytes h.txHash, rlpBytes h.receiptHash, rlpBytes h.bloom, rlpNat h.difficulty, rlpNat h.number,
      rlpNat h.gasLimit, rlpNat h.gasUsed, rlpNat h.time, rlpBytes h.extra, rlpBytes h.mixDigest, rlpBytes h.nonce]
      ++ (match h.baseFee with | none => [] | some b => [rlpNat b]))) := by
  cases hb : h.baseFee <;> simp [headerRlp, EthConsts.headerFields, items, fieldItem, hb]

/-! ## Non-vacuity -/

/-- A London-era main-net pair satisfying the hypotheses of `rules_accept_iff` that the rules accept. -/
example :
    let p : Hdr := ⟨12999999, 1000, 8000000000000000, true, 30000000, 15000000, some 1000000000⟩
    let h : Hdr := ⟨13000000, 1013, 8000000000000000 + 2^31, true, 30000000, 100, some 1000000000⟩
    checkRules 1 p h 32 = .ok := by decide

/-- A pre-London pair: Muir Glacier era, no base fee. -/
example :
    let p : Hdr := ⟨9999999, 1000, 2000000000000000, false, 10000000, 0, none⟩
    let h : Hdr := ⟨10000000, 1005, 2000000000000000 + 2000000000000000 / 2048 * 2 + 2^8, true, 10000001, 0, none⟩
    checkRules 1 p h 0 = .ok := by decide

end Poly.Props.C28
