import Poly.Model.LCTm
import Poly.Proofs.LCTm
import Poly.Generated.Thresholds

/-!
# C30 — Tendermint-family light clients need a two-thirds power quorum

Property theorems only (helpers: `Poly.Proofs.LCTm`). The threshold definitions come from
`Poly.Generated.Thresholds`, regenerated from /repo's Go source on every run, so the threshold theorems and everything
built on them are re-checked against what the code says now.

The model (`Poly.Model.LCTm`) is the decision logic of the cosmos, okex and heimdall routers; hash functions,
signature verification (`Commit.ver`) and the Merkle proof runtime (`ProofRt`) are parameters: every theorem holds
for all of them.

Reading guide. `JustifiedTm R le H h info` / `JustifiedH le H h info` (defined in `Poly.Proofs.LCTm`) say: the
validators submitted with header `h` form a validator set whose hash is `info.next` (the trusted next-validators hash),
the commit is for `h`, and `3 * signedPower > 2 * totalPower`, where `signedPower` adds the power of each entry of
the validator list **at most once**, and only if the commit slot at the entry's own position carries a signature that
verifies under the entry's key for the block. `Reach J a b` is a chain of such advances, each to a greater height.
-/
namespace Poly.Props.C30
open Poly.Model.LCTm Poly.Proofs.LCTm
open Poly.Generated.Thresholds

/-! ## What the generated threshold tests mean -/

/-- cosmos: the header is refused iff the tallied power is at most two thirds of the total (exact rational comparison). -/
theorem threshold_cosmos (t T : Int) (hT : 0 ≤ T) : cosmos_VerifyCosmosHeader0 t T = true ↔ 3 * t ≤ 2 * T := by
  unfold cosmos_VerifyCosmosHeader0
  rw [decide_eq_true_iff]
  exact le_two_thirds_iff t T hT

/-- okex: the same test. -/
theorem threshold_okex (t T : Int) (hT : 0 ≤ T) : okex_VerifyCosmosHeader0 t T = true ↔ 3 * t ≤ 2 * T := by
  unfold okex_VerifyCosmosHeader0
  rw [decide_eq_true_iff]
  exact le_two_thirds_iff t T hT

/-- heimdall: the same test. -/
theorem threshold_heimdall (t T : Int) (hT : 0 ≤ T) : heimdall_VerifyCosmosHeader0 t T = true ↔ 3 * t ≤ 2 * T := by
  unfold heimdall_VerifyCosmosHeader0
  rw [decide_eq_true_iff]
  exact le_two_thirds_iff t T hT

/-- A validator set that `NewValidatorSet` accepts keeps the Go `int64` arithmetic of the test exact:
all powers are positive, and `total * 2` stays below `2^63`. -/
theorem threshold_arithmetic_exact {α κ : Type} [BEq α] (le : α → α → Bool) (vs vset : List (Val α κ))
    (h : newValidatorSet le vs = some vset) :
    (∀ v ∈ vset, 0 < v.power) ∧ 0 ≤ totalPower vset ∧ totalPower vset * 2 < 2 ^ 63 := by
  obtain ⟨_, _, _, hp, ht⟩ := newValidatorSet_some le vs vset h
  have h0 : 0 ≤ totalPower vset := by
    have : ∀ l : List (Val α κ), (∀ v ∈ l, 0 < v.power) → 0 ≤ totalPower l := by
      intro l
      induction l with
      | nil => intro _; simp [totalPower]
      | cons v vs ih =>
        intro hl
        have h1 := hl v List.mem_cons_self
        have h2 := ih (fun x hx => hl x (List.mem_cons_of_mem _ hx))
        simp only [totalPower]; omega
    exact this vset (fun v hv => (hp v hv).1)
  refine ⟨fun v hv => (hp v hv).1, h0, ?_⟩
  unfold maxTotalVotingPower at ht
  omega

/-! ## One header -/

private theorem gt_of_test_false (f : Int → Int → Bool) (hf : ∀ t T, 0 ≤ T → (f t T = true ↔ 3 * t ≤ 2 * T))
    (t T : Int) (h0 : 0 ≤ T) (h : f t T = false) : 2 * T < 3 * t := by
  have hn : ¬ (3 * t ≤ 2 * T) := fun hle => by
    have := (hf t T h0).mpr hle
    rw [this] at h; cases h
  omega

/-- cosmos / okex: `VerifyCosmosHeader` accepts a header only if it is justified against the tracked info: trusted
validator-set hash, commit for this header, and valid for-block signatures of distinct validator entries holding more
than two thirds of the total power. -/
theorem header_needs_quorum {α κ η χ : Type} [BEq α] [BEq κ] [BEq η] [LawfulBEq η] (R : Router) (le : α → α → Bool)
    (H : Hashes α κ η) (h : Header α κ η χ (Commit κ η χ)) (info : Info η χ)
    (hok : verifyTm R le H h info = .ok ()) : JustifiedTm R le H h info := by
  obtain ⟨vset, c, h1, h2, h3, h4, h5, h6, _, h8, h9, h10⟩ := verifyTm_ok R le H h info hok
  refine ⟨vset, c, h1, h2, h3, h4, h5, h6, h8, h9, ?_⟩
  obtain ⟨_, h0, _⟩ := threshold_arithmetic_exact le h.vals vset h1
  cases R with
  | cosmos => exact gt_of_test_false _ threshold_cosmos _ _ h0 h10
  | okex => exact gt_of_test_false _ threshold_okex _ _ h0 h10

/-- heimdall: the same. -/
theorem header_needs_quorum_heimdall {α κ η χ : Type} [BEq α] [BEq η] [LawfulBEq η] (le : α → α → Bool)
    (H : Hashes α κ η) (h : Header α κ η χ (HCommit κ η χ)) (info : Info η χ)
    (hok : verifyH le H h info = .ok ()) : JustifiedH le H h info := by
  obtain ⟨vset, c, h1, h2, h3, h4, h5, h6, _, h8, h9⟩ := verifyH_ok le H h info hok
  refine ⟨vset, c, h1, h2, h3, h4, h5, h6, h8, ?_⟩
  obtain ⟨_, h0, _⟩ := threshold_arithmetic_exact le h.vals vset h1
  exact gt_of_test_false _ threshold_heimdall _ _ h0 h9

/-- The counted power is a sum over the entries of the authenticated validator list in which every entry occurs at
most once: it lies between 0 and the total power (so "more than two thirds" cannot be met by repetition). -/
theorem signed_power_counts_each_validator_once {α κ η χ : Type} [BEq α] (le : α → α → Bool)
    (vs vset L : List (Val α κ)) (hset : newValidatorSet le vs = some vset) (hL : L.Perm vset)
    (c : Commit κ η χ) (hc : HCommit κ η χ) (chain : χ) :
    (0 ≤ signedPowerTm c chain 0 L c.slots ∧ signedPowerTm c chain 0 L c.slots ≤ totalPower vset) ∧
    (0 ≤ signedPowerH hc chain 0 vset hc.votes ∧ signedPowerH hc chain 0 vset hc.votes ≤ totalPower vset) := by
  obtain ⟨hp, _, _⟩ := threshold_arithmetic_exact le vs vset hset
  have hpL : ∀ v ∈ L, 0 ≤ v.power := fun v hv => Int.le_of_lt (hp v (hL.mem_iff.mp hv))
  have hpV : ∀ v ∈ vset, 0 ≤ v.power := fun v hv => Int.le_of_lt (hp v hv)
  have := signedPowerTm_le c chain L c.slots 0 hpL
  rw [totalPower_perm hL] at this
  exact ⟨this, signedPowerH_le hc chain vset hc.votes 0 hpV⟩

/-! ## Histories -/

/-- **advance_needs_quorum** (cosmos, okex). For every sequence of operations (genesis installations, header-sync
batches, deposits) from every state: whatever epoch info is tracked in the end was reached, from the info tracked at
the start (or, if there was none, from the trust root of a witnessed genesis operation of the sequence), by a chain
of advances each of which went to a header at a greater height that is justified against the info tracked before
it. -/
theorem advance_needs_quorum {α κ η χ π μ τ : Type} [BEq α] [BEq κ] [BEq η] [LawfulBEq η] [BEq μ]
    (R : Router) (le : α → α → Bool) (H : Hashes α κ η) (P : ProofRt η π μ τ) (X : OkexExt π μ)
    (ops : List (Op α κ η χ (Commit κ η χ) π μ)) (st : St η χ μ) (info' : Info η χ)
    (hrun : (run (verifyTm R le H) (depositTm R le H P X) st ops).info = some info') :
    ∃ root, (st.info = some root ∨ (st.info = none ∧ ∃ h, Op.genesis true (some h) ∈ ops ∧
        root = ⟨h.height, h.hash, h.nextValsHash, h.chain⟩)) ∧
      Reach (JustifiedTm R le H) root info' := by
  have hD : ∀ (st : St η χ μ) (p : DepParam α κ η χ (Commit κ η χ) π μ),
      (depositTm R le H P X st p).1.info = st.info ∨
      (depositTm R le H P X st p).1.info = (depHeader (verifyTm R le H) st p).1.info := by
    intro st p
    cases R with
    | cosmos => exact Or.inr (depositCosmos_info _ P st p)
    | okex => exact Or.inr (depositOkex_info _ P _ _ _ st p)
  obtain ⟨root, hr, r⟩ := run_reach (verifyTm R le H) (depositTm R le H P X) hD ops st info' hrun
  exact ⟨root, hr, Reach.mono (fun h i hv => header_needs_quorum R le H h i hv) r⟩

/-- **advance_needs_quorum**, heimdall router (genesis installations and header-sync batches; `VerifySpan` does not
write). -/
theorem advance_needs_quorum_heimdall {α κ η χ π μ : Type} [BEq α] [BEq η] [LawfulBEq η]
    (le : α → α → Bool) (H : Hashes α κ η)
    (ops : List (Op α κ η χ (HCommit κ η χ) π μ)) (st : St η χ μ) (info' : Info η χ)
    (hrun : (run (τ := Unit) (verifyH le H) noDeposit st ops).info = some info') :
    ∃ root, (st.info = some root ∨ (st.info = none ∧ ∃ h, Op.genesis true (some h) ∈ ops ∧
        root = ⟨h.height, h.hash, h.nextValsHash, h.chain⟩)) ∧
      Reach (JustifiedH le H) root info' := by
  obtain ⟨root, hr, r⟩ := run_reach (verifyH le H) noDeposit (fun _ _ => Or.inl rfl) ops st info' hrun
  exact ⟨root, hr, Reach.mono (fun h i hv => header_needs_quorum_heimdall le H h i hv) r⟩

/-- **height_monotone** (cosmos, okex): once an epoch info is tracked, every sequence of operations leaves an epoch
info tracked, at a height that is not smaller. -/
theorem height_monotone {α κ η χ π μ τ : Type} [BEq α] [BEq κ] [BEq η] [BEq μ]
    (R : Router) (le : α → α → Bool) (H : Hashes α κ η) (P : ProofRt η π μ τ) (X : OkexExt π μ)
    (ops : List (Op α κ η χ (Commit κ η χ) π μ)) (st : St η χ μ) (info : Info η χ) (hst : st.info = some info) :
    ∃ info', (run (verifyTm R le H) (depositTm R le H P X) st ops).info = some info' ∧ info.height ≤ info'.height := by
  have hD : ∀ (st : St η χ μ) (p : DepParam α κ η χ (Commit κ η χ) π μ),
      (depositTm R le H P X st p).1.info = st.info ∨
      (depositTm R le H P X st p).1.info = (depHeader (verifyTm R le H) st p).1.info := by
    intro st p
    cases R with
    | cosmos => exact Or.inr (depositCosmos_info _ P st p)
    | okex => exact Or.inr (depositOkex_info _ P _ _ _ st p)
  obtain ⟨info', e, r⟩ := run_reach_some (verifyTm R le H) (depositTm R le H P X) hD ops st info hst
  exact ⟨info', e, r.height_le⟩

/-- **height_monotone**, heimdall router. -/
theorem height_monotone_heimdall {α κ η χ π μ : Type} [BEq α] [BEq η]
    (le : α → α → Bool) (H : Hashes α κ η)
    (ops : List (Op α κ η χ (HCommit κ η χ) π μ)) (st : St η χ μ) (info : Info η χ) (hst : st.info = some info) :
    ∃ info', (run (τ := Unit) (verifyH le H) noDeposit st ops).info = some info' ∧ info.height ≤ info'.height := by
  obtain ⟨info', e, r⟩ := run_reach_some (verifyH le H) noDeposit (fun _ _ => Or.inl rfl) ops st info hst
  exact ⟨info', e, r.height_le⟩

/-- A header-sync batch that returns an error leaves the stored state exactly as it was (whatever verifier). -/
theorem rejected_batch_changes_nothing {α κ η χ C μ : Type} [BEq η] (V : Verifier α κ η χ C) (st : St η χ μ)
    (hs : List (Option (Header α κ η χ C))) (e : Err) (h : (syncBlockHeader V st hs).2 = .error e) :
    (syncBlockHeader V st hs).1 = st :=
  syncBlockHeader_error V st hs e h

/-! ## The validator set is bound by the trusted hash -/

/-- **valset_hash_bound** (cosmos, okex): two headers accepted against the same tracked info carry the same validator
set, or two different validator sets with equal hashes are exhibited (collision of the validator-set hash). -/
theorem valset_hash_bound {α κ η χ : Type} [BEq α] [BEq κ] [BEq η] [LawfulBEq η] (R : Router) (le : α → α → Bool)
    (H : Hashes α κ η) (h1 h2 : Header α κ η χ (Commit κ η χ)) (info : Info η χ)
    (ok1 : verifyTm R le H h1 info = .ok ()) (ok2 : verifyTm R le H h2 info = .ok ()) :
    ∃ v1 v2, newValidatorSet le h1.vals = some v1 ∧ newValidatorSet le h2.vals = some v2 ∧
      (v1 = v2 ∨ HashClash H v1 v2) := by
  obtain ⟨v1, _, a1, _, a3, _⟩ := header_needs_quorum R le H h1 info ok1
  obtain ⟨v2, _, b1, _, b3, _⟩ := header_needs_quorum R le H h2 info ok2
  refine ⟨v1, v2, a1, b1, ?_⟩
  by_cases hv : v1 = v2
  · exact Or.inl hv
  · refine Or.inr ⟨hv, ?_⟩
    unfold valSetHash at a3 b3
    rcases a3 with a3 | ⟨_, a3⟩ <;> rcases b3 with b3 | ⟨_, b3⟩
    · split at a3 <;> split at b3
      · exact Or.inr (Or.inl (a3.symm.trans b3))
      · exact Or.inr (Or.inr (Or.inr (a3.symm.trans b3)))
      · exact Or.inr (Or.inr (Or.inl (a3.symm.trans b3)))
      · exact Or.inl (a3.symm.trans b3)
    · split at a3
      · exact Or.inr (Or.inr (Or.inr (a3.symm.trans b3)))
      · exact Or.inl (a3.symm.trans b3)
    · split at b3
      · exact Or.inr (Or.inr (Or.inl (a3.symm.trans b3)))
      · exact Or.inl (a3.symm.trans b3)
    · exact Or.inl (a3.symm.trans b3)

/-- **valset_hash_bound**, heimdall router. -/
theorem valset_hash_bound_heimdall {α κ η χ : Type} [BEq α] [BEq η] [LawfulBEq η] (le : α → α → Bool)
    (H : Hashes α κ η) (h1 h2 : Header α κ η χ (HCommit κ η χ)) (info : Info η χ)
    (ok1 : verifyH le H h1 info = .ok ()) (ok2 : verifyH le H h2 info = .ok ()) :
    ∃ v1 v2, newValidatorSet le h1.vals = some v1 ∧ newValidatorSet le h2.vals = some v2 ∧
      (v1 = v2 ∨ HashClash H v1 v2) := by
  obtain ⟨v1, _, a1, _, a3, _⟩ := header_needs_quorum_heimdall le H h1 info ok1
  obtain ⟨v2, _, b1, _, b3, _⟩ := header_needs_quorum_heimdall le H h2 info ok2
  refine ⟨v1, v2, a1, b1, ?_⟩
  by_cases hv : v1 = v2
  · exact Or.inl hv
  · exact Or.inr ⟨hv, Or.inl (a3.symm.trans b3)⟩

/-! ## Deposits -/

/-- **deposit_needs_existence** (cosmos router, after the repair of the absence-proof branch): a deposit is accepted
only if the submitted header is justified against the tracked info at a height not below the tracked one, the key
path is not empty, `VerifyValue` (existence of the value under the key path in the state committed by the header's app
hash) accepted the submitted value, and the returned message is the decoding of exactly that value. -/
theorem deposit_needs_existence {α κ η χ π μ τ : Type} [BEq α] [BEq κ] [BEq η] [LawfulBEq η] [BEq μ]
    (le : α → α → Bool) (H : Hashes α κ η) (P : ProofRt η π μ τ) (st : St η χ μ)
    (p : DepParam α κ η χ (Commit κ η χ) π μ) (msg : τ)
    (hok : (depositCosmos (verifyTm .cosmos le H) P st p).2 = .ok msg) :
    ∃ info h kp value proof ccid, st.info = some info ∧ p.header = some (some h) ∧ info.height ≤ h.height ∧
      JustifiedTm .cosmos le H h info ∧ p.pv = some (kp, value) ∧ p.proof = some proof ∧ kp.isEmpty = false ∧
      P.verifyValue proof h.appHash kp value = true ∧ P.decodeTx value = some (msg, ccid) ∧
      st.done.contains ccid = false := by
  obtain ⟨info, h, kp, value, proof, ccid, a1, a2, a3, a4, a5, a6, a7, a8, a9, a10⟩ := depositCosmos_ok _ P st p msg hok
  exact ⟨info, h, kp, value, proof, ccid, a1, a2, a3, header_needs_quorum .cosmos le H h info a4, a5, a6, a7, a8, a9, a10⟩

/-- **deposit_needs_existence**, okex router: the proven leaf is the Keccak-256 digest of the submitted value, under a
two-op proof whose store key carries the registered contract prefix and whose module is `evm`. -/
theorem deposit_needs_existence_okex {α κ η χ π μ τ : Type} [BEq α] [BEq κ] [BEq η] [LawfulBEq η] [BEq μ]
    (le : α → α → Bool) (H : Hashes α κ η) (P : ProofRt η π μ τ) (X : OkexExt π μ) (st : St η χ μ)
    (p : DepParam α κ η χ (Commit κ η χ) π μ) (msg : τ)
    (hok : (depositOkex (verifyTm .okex le H) P X.keccak X.shape X.sideChain st p).2 = .ok msg) :
    ∃ info h kp value proof ccid, st.info = some info ∧ p.header = some (some h) ∧ info.height ≤ h.height ∧
      JustifiedTm .okex le H h info ∧ p.pv = some (kp, value) ∧ p.proof = some proof ∧ kp.isEmpty = false ∧
      (X.shape proof).key0HasPrefix = true ∧ (X.shape proof).key1IsEvm = true ∧
      P.verifyValue proof h.appHash kp (X.keccak value) = true ∧ P.decodeTx value = some (msg, ccid) ∧
      st.done.contains ccid = false := by
  obtain ⟨info, h, kp, value, proof, ccid, a1, a2, a3, a4, a5, a6, a7, _, a9, a10, a11, a12, a13⟩ :=
    depositOkex_ok _ P _ _ _ st p msg hok
  exact ⟨info, h, kp, value, proof, ccid, a1, a2, a3, header_needs_quorum .okex le H h info a4, a5, a6, a7, a9, a10,
    a11, a12, a13⟩

/-- **deposit_needs_existence**, heimdall `VerifySpan`: a span is returned only if the header is justified against the
tracked info and `VerifyValue` accepted the span bytes under the header's app hash in module `bor`. -/
theorem span_needs_existence {α κ η χ π μ τ : Type} [BEq α] [BEq η] [LawfulBEq η]
    (le : α → α → Bool) (H : Hashes α κ η) (P : ProofRt η π μ τ) (nOps : π → Nat) (key1IsBor : π → Bool)
    (st : St η χ μ) (h : Header α κ η χ (HCommit κ η χ)) (proof : π) (kp : String) (value : μ) (sp : τ)
    (hok : verifySpan (verifyH le H) P nOps key1IsBor st h proof kp value = .ok sp) :
    ∃ info, st.info = some info ∧ JustifiedH le H h info ∧ key1IsBor proof = true ∧
      P.verifyValue proof h.appHash kp value = true ∧ ∃ x, P.decodeTx value = some (sp, x) := by
  obtain ⟨info, a1, a2, a3, a4, a5⟩ := verifySpan_ok _ P nOps key1IsBor st h proof kp value sp hok
  exact ⟨info, a1, header_needs_quorum_heimdall le H h info a2, a3, a4, a5⟩

/-- The cosmos handler never consults `VerifyAbsence`: its verdict does not depend on that function at all. -/
theorem deposit_ignores_absence_proofs {α κ η χ π μ τ : Type} [BEq α] [BEq κ] [BEq η] [BEq μ]
    (le : α → α → Bool) (H : Hashes α κ η) (P : ProofRt η π μ τ) (absence' : π → η → String → Bool) (st : St η χ μ)
    (p : DepParam α κ η χ (Commit κ η χ) π μ) :
    depositCosmos (verifyTm .cosmos le H) { P with verifyAbsence := absence' } st p =
      depositCosmos (verifyTm .cosmos le H) P st p := rfl

/-! ## Non-vacuity -/

section Examples

/-- three validators with powers 5, 3, 2 (addresses = keys = 0, 1, 2) -/
private def exVals : List (Val Nat Nat) := [⟨0, 0, 5⟩, ⟨1, 1, 3⟩, ⟨2, 2, 2⟩]
private def exH : Hashes Nat Nat (List (Nat × Int)) := ⟨fun vs => vs.map (fun v => (v.key, v.power)), fun vs => (99, 0) :: vs.map (fun v => (v.key, v.power))⟩
/-- validators 0 and 1 sign for the block (8 of 10 > 2/3), validator 2 is absent -/
private def exCommit : Commit Nat (List (Nat × Int)) String :=
  ⟨7, 0, [(7, 7)], false, [⟨.commit, true⟩, ⟨.commit, true⟩, ⟨.absent, true⟩], fun _ i k => i == k && i < 2⟩
private def exHeader : Header Nat Nat (List (Nat × Int)) String (Commit Nat (List (Nat × Int)) String) :=
  ⟨10, "c", 7, exH.legacy exVals, [(4, 1)], [], [(7, 7)], exVals, some exCommit⟩
private def exInfo : Info (List (Nat × Int)) String := ⟨3, [], exH.legacy exVals, "c"⟩

private theorem exSorted : sortVals (fun a b => decide (a ≤ b)) exVals = exVals :=
  List.mergeSort_of_pairwise (by decide)

private theorem exSet : newValidatorSet (fun a b => decide (a ≤ b)) exVals = some exVals := by
  unfold newValidatorSet
  rw [exSorted]
  exact if_neg (by decide)

/-- The hypotheses of `header_needs_quorum` are satisfiable: a header signed by validators holding 8 of 10 is accepted
by both routers. -/
example : verifyTm .cosmos (fun a b => decide (a ≤ b)) exH exHeader exInfo = .ok () ∧
    verifyTm .okex (fun a b => decide (a ≤ b)) exH exHeader exInfo = .ok () := by
  constructor <;>
  · unfold verifyTm
    have : exHeader.vals = exVals := rfl
    rw [this, exSet]
    rfl

/-- ... and the same header signed only by validator 0 (5 of 10, not more than two thirds) is refused. -/
example : verifyTm .cosmos (fun a b => decide (a ≤ b)) exH
    { exHeader with commit := some { exCommit with slots := [⟨.commit, true⟩, ⟨.absent, true⟩, ⟨.absent, true⟩] } } exInfo
    = .error .power := by
  unfold verifyTm
  have : exHeader.vals = exVals := rfl
  simp only [this, exSet]
  rfl

/-- A sync batch with that header advances the tracked info from height 3 to height 7 (hypotheses of the history
theorems are satisfiable with a non-trivial step). -/
example : ((syncBlockHeader (μ := Nat) (verifyTm .cosmos (fun a b => decide (a ≤ b)) exH) ⟨some exInfo, []⟩ [some exHeader]).1.info.map (·.height))
    = some 7 := by
  unfold syncBlockHeader syncLoop syncLoop verifyTm
  have : exHeader.vals = exVals := rfl
  simp only [this, exSet]
  rfl

end Examples

end Poly.Props.C30
