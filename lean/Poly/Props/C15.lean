import Poly.Proofs.Native
import Poly.Proofs.NativeFuel
/-!
# C15 — Transaction execution is atomic

Model: `Poly.Model.Native` (`executeBlock` = fold of `cache.Reset(); handleTransaction` over the block;
`HandleInvokeTransaction` commits the transaction cache and hands out events and cross hashes only when `Invoke`
returned no error; `Invoke` with its save/restore of input, events, cross hashes and context stack).
Every statement is for **all** contract registries, i.e. all handler programs built from the primitive effects a
handler can reach through `*NativeService` (`Prog`: get/put/delete/notify/putMerkleVal/nativeCall/checkWitness/…,
continuations are arbitrary functions), for all prior states, signers and block environments, and for every
leaf-hash function.
-/
namespace Poly.Props.C15
open Poly.Model.Native

variable (leafHash : Bytes → Hash) (reg : Registry) (env : BlockEnv)

/-- No primitive effect reaches below the transaction cache: whatever a handler program does (including nested
calls to any registered contract), the block overlay, the committed store, the signer set and the block
environment of the service are unchanged when it returns or fails. -/
theorem handler_cannot_touch_overlay (n : Nat) (s : Svc) :
    (invokeF leafHash reg n s).2.overlay = s.overlay ∧ (invokeF leafHash reg n s).2.base = s.base ∧
    (invokeF leafHash reg n s).2.signers = s.signers := by
  have h := invokeF_frame leafHash reg n s
  exact ⟨h.overlay, h.base, h.signers⟩

/-- A transaction that fails leaves no trace: the block overlay is exactly what it was, it contributes no cross
hashes, and its notify record is `{state := FAIL, events := []}`. -/
theorem failed_tx_no_trace (bs : BlockState) (tx : Tx)
    (h : (execTx leafHash reg env bs tx).2.ok = false) :
    (execTx leafHash reg env bs tx).1.overlay = bs.overlay ∧
    (execTx leafHash reg env bs tx).2.notify = [] ∧
    (execTx leafHash reg env bs tx).2.cross = [] :=
  execTx_failed leafHash reg env bs tx h

/-- A successful transaction keeps all of its writes, events and cross-chain records: with `effs` the primitive
effects it performed in program order (ghost log), its events are exactly the emitted ones in order, its cross
hashes are the emitted ones (as a multiset: a nested call's hashes are put in front of the caller's earlier ones),
and the overlay afterwards maps every key to the transaction's last write to it, else to what it held before.
Hypothesis `swallowed = 0`: no handler continued after a nested `NativeCall` returned an error or the context-limit
pseudo-result (see `swallowed_failure_drops_events`; no shipped contract calls `NativeCall`, checked statically). -/
theorem ok_tx_keeps_all (bs : BlockState) (tx : Tx)
    (hok : (execTx leafHash reg env bs tx).2.ok = true)
    (hsw : (execTx leafHash reg env bs tx).2.swallowed = 0) :
    (execTx leafHash reg env bs tx).2.notify = notifsOf (execTx leafHash reg env bs tx).2.effs ∧
    List.Perm (execTx leafHash reg env bs tx).2.cross (crossesOf (execTx leafHash reg env bs tx).2.effs) ∧
    ∀ x, (execTx leafHash reg env bs tx).1.overlay.find? x =
      (lastWrite (writesOf (execTx leafHash reg env bs tx).2.effs) x).orElse (fun _ => bs.overlay.find? x) :=
  execTx_ok_keeps leafHash reg env bs tx hok hsw

/-- The transaction cache object that `executeBlock` reuses carries nothing from one transaction to the next
(`cache.Reset()`): the outcome of a transaction does not depend on what the previous one left in it. -/
theorem cache_reset_isolates (o c1 c2 : KV) (tx : Tx) :
    execTx leafHash reg env { overlay := o, cache := c1 } tx = execTx leafHash reg env { overlay := o, cache := c2 } tx :=
  execTx_cache_irrelevant leafHash reg env o c1 c2 tx

/-- Isolation: the outcome of a transaction placed after any prefix `pre` (result, events, cross hashes, what it
read) is the outcome it has after only the *successful* transactions of `pre`; failed ones are invisible to it. -/
theorem isolation (bs : BlockState) (pre : List Tx) (t : Tx) :
    (execTx leafHash reg env (execTxs leafHash reg env bs pre).1 t).2 =
    (execTx leafHash reg env
      (execTxs leafHash reg env bs (okTxs pre (execTxs leafHash reg env bs pre).2)).1 t).2 := by
  have h := (execTxs_okOnly leafHash reg env pre bs).2
  rw [execTx_overlay_only leafHash reg env _ _ t h.symm]

/-- The block result is a function of the successful transactions only: executing the block restricted to its
successful transactions gives the same write set, the same cross-hash list and the same per-transaction records
(hence the same state-change digest and cross-state root, which are hashes of these). -/
theorem block_result_fn (txs : List Tx) :
    (execBlock leafHash reg env (okTxs txs (execBlock leafHash reg env txs).notify)).writeSet
        = (execBlock leafHash reg env txs).writeSet ∧
    (execBlock leafHash reg env (okTxs txs (execBlock leafHash reg env txs).notify)).crossHashes
        = (execBlock leafHash reg env txs).crossHashes ∧
    (execBlock leafHash reg env (okTxs txs (execBlock leafHash reg env txs).notify)).notify
        = (execBlock leafHash reg env txs).notify.filter (·.ok) := by
  have h := execTxs_okOnly leafHash reg env txs { overlay := [], cache := [] }
  have hc := flatten_cross_filter (execTxs leafHash reg env { overlay := [], cache := [] } txs).2
    (fun r hr hok => (execTxs_failed_cross leafHash reg env txs _ r hr hok).1)
  simp only [execBlock]
  refine ⟨h.2, ?_, h.1⟩
  rw [h.1]; exact hc

/-- Failed transactions contribute neither events nor cross hashes to the block result. -/
theorem failed_contribute_nothing (txs : List Tx) (r : TxResult)
    (hr : r ∈ (execBlock leafHash reg env txs).notify) (hf : r.ok = false) : r.cross = [] ∧ r.notify = [] :=
  execTxs_failed_cross leafHash reg env txs _ r hr hf

/-- A handler that panics (at any step, after any number of writes, events and cross-chain records, at any call
depth): nothing in `Invoke`, `HandleInvokeTransaction` or `executeBlock` recovers, so `ExecuteBlock` hands no result
to its caller — there is nothing that could be submitted, the block as a whole leaves no trace. -/
theorem panicked_tx_aborts_block (txs : List Tx) (r : TxResult)
    (hr : r ∈ (execBlock leafHash reg env txs).notify) (hp : r.panicked = true) :
    execBlockP leafHash reg env txs = none := by
  unfold execBlockP
  have : ((execBlock leafHash reg env txs).notify.any (·.panicked)) = true :=
    List.any_eq_true.mpr ⟨r, hr, hp⟩
  simp [this]

/-- Even inside the model's bookkeeping a panicking transaction is never recorded as successful and contributes
nothing (it is treated like a failed one until the block is abandoned). -/
theorem panicked_tx_not_successful (bs : BlockState) (tx : Tx)
    (hp : (execTx leafHash reg env bs tx).2.panicked = true) :
    (execTx leafHash reg env bs tx).2.ok = false ∧ (execTx leafHash reg env bs tx).1.overlay = bs.overlay ∧
    (execTx leafHash reg env bs tx).2.notify = [] ∧ (execTx leafHash reg env bs tx).2.cross = [] := by
  have hok : (execTx leafHash reg env bs tx).2.ok = false := by
    rcases execTx_cases leafHash reg env bs tx with ⟨_, e⟩ | ⟨r, s, hq, ⟨_, e⟩ | ⟨hnf, e⟩⟩
    · rw [e]
    · rw [e]
    · rw [e] at hp
      simp at hp
  exact ⟨hok, execTx_failed leafHash reg env bs tx hok⟩

/-- Which effects survive a swallowed nested failure (the case `ok_tx_keeps_all` excludes), at any nesting depth: when a
nested `Invoke` returns an error — the callee failed after performing the effects `new`, having itself neither swallowed a
failure nor panicked — the caller, should it carry on, finds
* the transaction cache holding EVERY write made so far: its own earlier ones and those of the failed callee (a failed
  callee's writes are not rolled back; they are committed if the transaction eventually succeeds),
* the event list and the cross-hash list holding ONLY what the failed frame emitted: everything the caller emitted
  before the call is gone,
* the context stack one frame deeper than before the call (the failed frame is never popped, so later `CheckWitness`
  calls of the caller see the failed callee's frames).
No shipped contract calls `NativeCall` (checked statically on every run), so this state is unreachable today. -/
theorem nested_failure_survivors (n : Nat) (s : Svc) (sm : List (Bytes × Handler)) (addr : Addr) (args : Bytes)
    (h : Handler) (s3 : Svc)
    (hres : invokeBody leafHash (invokeF leafHash reg n) s sm addr args h = (.err, s3))
    (hsw : s3.swallowed = s.swallowed) :
    ∃ new, s3.effLog = s.effLog ++ new ∧
      s3.cache = applyWrites s.cache (writesOf new) ∧
      s3.notifications = notifsOf new ∧
      List.Perm s3.crossHashes (crossesOf new) ∧
      s.contexts.length + 1 ≤ s3.contexts.length := by
  unfold invokeBody at hres
  split at hres
  · cases hres
  · generalize hq : runProg leafHash (invokeF leafHash reg n) (h args) (enter s sm addr args) = q at hres
    obtain ⟨o, s3'⟩ := q
    cases o with
    | some r => cases hres
    | none =>
      simp only at hres
      have hs : s3' = s3 := (Prod.mk.inj hres).2
      have hp : s3'.panicked = false := by
        cases hpp : s3'.panicked with
        | false => rfl
        | true => rw [hpp] at hres; cases hres
      subst hs
      obtain ⟨new, h1, h2, h3, h4⟩ := failed_frame_survivors leafHash (invokeF leafHash reg n)
        (invokeF_mono leafHash reg n) (invokeF_keeps leafHash reg n) s sm addr args (h args) s3' hq hp hsw
      refine ⟨new, h1, h2, h3, h4, ?_⟩
      have := runProg_lenMono leafHash (invokeF leafHash reg n) (invokeF_lenMono leafHash reg n) (h args) (enter s sm addr args)
      rw [hq] at this
      simpa [enter] using this

/-- The recursion fuel of the model's nested `Invoke` is not a bound on what is modelled: the context stack refuses the
1026th frame, so the fuel used by `execTx` never runs out — any larger amount gives the same final state and result
for every registry and every starting state (the model-only outcome `diverge` is an artefact that is never decisive). -/
theorem model_fuel_sufficient (s : Svc) (j : Nat) :
    invokeF leafHash reg fuel s = invokeF leafHash reg (fuel + j) s :=
  fuel_sufficient leafHash reg s j

/-! ### The hypotheses are satisfiable, and the one caveat is real -/

private def cA : Addr := List.replicate 20 0xa1
private def hRun : Handler := fun args =>
  if args = [1] then .put [1] [0xaa] (.notify ⟨cA, [7]⟩ (.merkle [9] .fail))        -- effects, then failure
  else if args = [2] then .put [1] [0xbb] (.notify ⟨cA, [8]⟩ (.merkle [9] (.ret [1])))
  else if args = [4] then .put [1] [0xcc] (.notify ⟨cA, [9]⟩ (.merkle [9] .panic))       -- effects, then a panic
  else if args = [3] then                                                            -- swallows an inner failure
    .notify ⟨cA, [5]⟩ (.call cA [0x72] [1] fun _ => .ret [1])
  else .fail
private def reg0 : Registry := fun a => if a = cA then some [([0x72], hRun)] else none
private def env0 : BlockEnv := { base := [], height := 1, time := 1 }
private def txOf (arg : UInt8) : Tx := { signers := [], code := encodeParam cA [0x72] [arg], chainOk := true }
private def lh : Bytes → Hash := fun d => 0 :: d

/-- A transaction that writes, emits an event and a cross hash and then fails: rejected, nothing kept. -/
example : (execTx lh reg0 env0 { overlay := [], cache := [] } (txOf 1)).2.ok = false ∧
    (execTx lh reg0 env0 { overlay := [], cache := [] } (txOf 1)).1.overlay = [] := by decide

/-- The same effects followed by success: all kept. -/
example : (execTx lh reg0 env0 { overlay := [], cache := [] } (txOf 2)).2.ok = true ∧
    (execTx lh reg0 env0 { overlay := [], cache := [] } (txOf 2)).2.swallowed = 0 ∧
    (execTx lh reg0 env0 { overlay := [], cache := [] } (txOf 2)).2.notify = [⟨cA, [8]⟩] ∧
    (execTx lh reg0 env0 { overlay := [], cache := [] } (txOf 2)).1.overlay = [([5, 1], [0xbb])] := by decide

/-- A handler that panics after a write, an event and a cross-chain record: the block yields no result. -/
example : execBlockP lh reg0 env0 [txOf 2, txOf 4] = none ∧ (execBlockP lh reg0 env0 [txOf 2, txOf 1]).isSome = true := by
  decide

/-- The caveat of `ok_tx_keeps_all` is real in the code as written: a handler that goes on after a nested call
failed succeeds, but the event it emitted *before* the nested call is gone (and the failed callee's writes stay). -/
theorem swallowed_failure_drops_events :
    (execTx lh reg0 env0 { overlay := [], cache := [] } (txOf 3)).2.ok = true ∧
    (execTx lh reg0 env0 { overlay := [], cache := [] } (txOf 3)).2.swallowed = 1 ∧
    (execTx lh reg0 env0 { overlay := [], cache := [] } (txOf 3)).2.notify = [⟨cA, [7]⟩] ∧
    (execTx lh reg0 env0 { overlay := [], cache := [] } (txOf 3)).1.overlay = [([5, 1], [0xaa])] := by decide

end Poly.Props.C15
