import Poly.Proofs.EthDeposit
import Poly.Generated.EvmClones
/-!
# C23 — EVM-family deposit proofs are sound and complete

Model: `Poly.Model.EthDeposit.verifyFromEthTx` (the decision logic of `cross_chain_manager/eth.verifyFromEthTx` with
`VerifyMerkleProof` and `CheckProofResult`) over the light-client store of C27. Keccak-256 (`K`) and go-ethereum's
`trie.VerifyProof` (`vp`) are arbitrary functions: every theorem holds for all of them, i.e. what is proved is the glue —
which block, which root, which key, which comparison — not the trie or the hash.
-/
namespace Poly.Props.C23
open Poly.Model.PoW Poly.Model.EthDeposit Poly.Model.EthHeaderRlp Poly.Proofs.EthDeposit Poly.Generated

variable {H R : Type} [DecidableEq H]

/-- Soundness: an accepted deposit has a head under which it is confirmed, a block at its height in the main-chain
index, a proof that unmarshalled with exactly one storage proof, the registered contract's address, an account proof
that verifies **against that block's state root** to the RLP of the claimed account record (non-negative nonce and
balance, claimed storage hash and code hash), a storage proof that verifies against the claimed storage hash to a
value whose RLP payload, left-padded to 32 bytes, is the Keccak-256 of the submitted message; and the returned
parameters are the decoding of that message. -/
theorem deposit_sound (K : Bytes → Bytes) (vp : Bytes → Bytes → List Bytes → VpRes) (root : Hdr H R → Bytes)
    (s : Store H R) (blocksToWait height : Nat) (ccmc : Bytes) (proof : Option EthProof) (extra : Bytes) (param : TxParam)
    (h : verifyFromEthTx K vp root s blocksToWait height ccmc proof extra = .ok param) :
    DepositFacts K vp root s blocksToWait height ccmc proof extra param :=
  (verifyFromEthTx_ok_iff K vp root s blocksToWait height ccmc proof extra param).1 h

/-- Completeness: whenever all those facts hold the deposit is accepted, with exactly the decoded message. -/
theorem deposit_complete (K : Bytes → Bytes) (vp : Bytes → Bytes → List Bytes → VpRes) (root : Hdr H R → Bytes)
    (s : Store H R) (blocksToWait height : Nat) (ccmc : Bytes) (proof : Option EthProof) (extra : Bytes) (param : TxParam)
    (h : DepositFacts K vp root s blocksToWait height ccmc proof extra param) :
    verifyFromEthTx K vp root s blocksToWait height ccmc proof extra = .ok param :=
  (verifyFromEthTx_ok_iff K vp root s blocksToWait height ccmc proof extra param).2 h

/-- The facts about the proof, spelled out: address, account record, storage value. -/
theorem merkle_facts_unfold (K : Bytes → Bytes) (vp : Bytes → Bytes → List Bytes → VpRes) (p : EthProof) (rt ccmc v : Bytes)
    (h : MerkleFacts K vp p rt ccmc (.val v)) :
    hex2Bytes (replace0x p.address) = ccmc ∧
    (∃ nonce balance : Int, setString16 (replace0x p.nonce) = some nonce ∧ setString16 (replace0x p.balance) = some balance ∧
      0 ≤ nonce ∧ 0 ≤ balance ∧
      vp rt (K ccmc) (p.accountProof.map fun s => hex2Bytes (replace0x s)) =
        .val (rlpList [rlpNat nonce.toNat, rlpNat balance.toNat, rlpBytes (hexToHash p.storageHash),
          rlpBytes (hexToHash p.codeHash)])) ∧
    (∃ sp, p.storageProofs = [sp] ∧
      vp (hexToHash p.storageHash) (K (hexToHash sp.key)) (sp.proof.map fun s => hex2Bytes (replace0x s)) = .val v) := by
  refine ⟨h.address, h.account, ?_⟩
  obtain ⟨sp, h1, h2, _⟩ := h.storage
  exact ⟨sp, h1, h2.symm⟩

/-- Confirmations: for `1 ≤ BlocksToWait ≤ 2³²` and a head below `2³²` the check passes exactly when the block has at
least `BlocksToWait` confirmations (`head − height + 1 ≥ BlocksToWait`). -/
theorem confirmations_exact (bestNumber blocksToWait height : Nat) (h1 : 1 ≤ blocksToWait) (h2 : blocksToWait ≤ 2^32)
    (hb : bestNumber < 2^32) :
    notConfirmed bestNumber blocksToWait height = false ↔ height + blocksToWait ≤ bestNumber + 1 :=
  confirmations_regular bestNumber blocksToWait height h1 (by simpa [two32] using h2) (by simpa [two32] using hb)

/-- The corners of the 32/64-bit arithmetic, characterised exactly: `BlocksToWait = 0` demands `2³² − 1` blocks on top
(so only height 0 under a head at `2³² − 1` passes), and above `2³²` only the low 32 bits of `BlocksToWait − 1` count. -/
theorem confirmations_corners (bestNumber blocksToWait height : Nat) :
    (notConfirmed bestNumber 0 height = false ↔ height = 0 ∧ bestNumber % 2^32 = 2^32 - 1) ∧
    (1 ≤ blocksToWait → blocksToWait < 2^64 → bestNumber < 2^32 →
      (notConfirmed bestNumber blocksToWait height = false ↔ height + (blocksToWait - 1) % 2^32 ≤ bestNumber)) := by
  refine ⟨by simpa [two32] using confirmations_zero bestNumber height, ?_⟩
  intro h1 h2 hb
  simpa [two32] using confirmations_truncated bestNumber blocksToWait height h1 (by simpa [two64] using h2)
    (by simpa [two32] using hb)

/-- Canonical block: over every reachable light-client state (any trust root, validity predicate and submission
history, C27) the block an accepted deposit was checked against is **the** main-chain block of that height, between
the trust root and the head, and it is a stored header of exactly that height. -/
theorem deposit_block_canonical (valid : Hdr H R → Hdr H R → Bool) (g : Hdr H R) (calls : List (List (Hdr H R)))
    (K : Bytes → Bytes) (vp : Bytes → Bytes → List Bytes → VpRes) (root : Hdr H R → Bytes)
    (blocksToWait height : Nat) (ccmc : Bytes) (proof : Option EthProof) (extra : Bytes) (param : TxParam)
    (h : verifyFromEthTx K vp root (run valid g calls) blocksToWait height ccmc proof extra = .ok param) :
    ∃ blk, headerByHeight (run valid g calls) height = some blk ∧ g.number ≤ height ∧ height ≤ (run valid g calls).cur ∧
      (run valid g calls).main height = some blk.hdr.hash ∧ (run valid g calls).index blk.hdr.hash = some blk ∧
      blk.hdr.number = height := by
  obtain ⟨blk, _, _, hh, _⟩ := (deposit_sound K vp root _ blocksToWait height ccmc proof extra param h).canonical
  have inv := (Poly.Proofs.PoW.run_inv valid g calls).1
  obtain ⟨a, b, c, d, e⟩ := lookup_is_canonical inv hh
  exact ⟨blk, hh, a, b, c, d, e⟩

/-- Between the trust root and the head the canonical lookup never fails (so a confirmed deposit is never rejected for
a missing block there). -/
theorem canonical_lookup_total (valid : Hdr H R → Hdr H R → Bool) (g : Hdr H R) (calls : List (List (Hdr H R)))
    (n : Nat) (h1 : g.number ≤ n) (h2 : n ≤ (run valid g calls).cur) :
    ∃ e, headerByHeight (run valid g calls) n = some e :=
  lookup_total (Poly.Proofs.PoW.run_inv valid g calls).1 n h1 h2

/-- The accepted message is exactly the submitted one: the result is a function of `extra` alone, and `extra` is the
pre-image whose hash the storage proof commits to. -/
theorem accepted_message_is_submitted (K : Bytes → Bytes) (vp : Bytes → Bytes → List Bytes → VpRes) (root : Hdr H R → Bytes)
    (s : Store H R) (blocksToWait height : Nat) (ccmc : Bytes) (proof : Option EthProof) (extra : Bytes) (param : TxParam)
    (h : verifyFromEthTx K vp root s blocksToWait height ccmc proof extra = .ok param) :
    decodeTxParam extra = some param :=
  (deposit_sound K vp root s blocksToWait height ccmc proof extra param h).message

/-- `CheckProofResult` is "the RLP payload, left-padded to 32 bytes, equals the hash"; and the model's RLP string
decoder inverts the RLP string encoder on everything a storage slot can hold (shorter than 56 bytes). -/
theorem check_proof_result_spec (v k b : Bytes) (hb : b.length < 56) :
    (checkProofResult v k = true ↔
      ∃ w, rlpDecodeString v = some w ∧ List.replicate (32 - w.length) (0 : UInt8) ++ w = k) ∧
    rlpDecodeString (rlpBytes b) = some b :=
  ⟨checkProofResult_iff v k, rlpDecode_encode_short b hb⟩

/-! ## Every go-ethereum-trie router -/

/-- The router-independent core: over the head number and the state root a router reads from its header store, the
deposit check accepts exactly when the facts of the property statement hold (for all inputs, every Keccak and every
`VerifyProof`). The eth router is this core over `GetCurrentHeader` / `GetHeaderByHeight`. -/
theorem deposit_core_iff (K : Bytes → Bytes) (vp : Bytes → Bytes → List Bytes → VpRes)
    (bestNumber : Option Nat) (blockRoot : Option Bytes) (blocksToWait height : Nat) (ccmc : Bytes)
    (proof : Option EthProof) (extra : Bytes) (param : TxParam) :
    (verifyDeposit K vp bestNumber blockRoot blocksToWait height ccmc proof extra = .ok param ↔
      CoreFacts K vp bestNumber blockRoot blocksToWait height ccmc proof extra param) ∧
    ∀ (root : Hdr H R → Bytes) (s : Store H R),
      verifyFromEthTx K vp root s blocksToWait height ccmc proof extra =
        verifyDeposit K vp ((currentHeader s).map fun e => e.hdr.number)
          ((headerByHeight s height).map fun e => root e.hdr) blocksToWait height ccmc proof extra :=
  ⟨verifyDeposit_ok_iff K vp bestNumber blockRoot blocksToWait height ccmc proof extra param,
   fun root s => verifyFromEthTx_eq_core K vp root s blocksToWait height ccmc proof extra⟩

/-- The source of the seven sibling routers (bsc, heco, hsc, msc, pixiechain, polygon/bor, bytom) carries the same
three functions as the reference router — `verifyFrom…Tx`, `verifyMerkleProof`, `checkProofResult` are equal after
normalisation (local names, error texts, import aliases, header type) — and eth's exported `VerifyMerkleProof` /
`CheckProofResult` equal the reference's. The table is regenerated from the Go source on every run
(extract/evmclones); this theorem is re-checked against it. -/
theorem routers_share_the_logic :
    EvmClones.shapes.all (·.sameAsReference) = true ∧
    EvmClones.shapes.map (fun s => (s.router, s.role)) =
      [("bsc", "verifyFromTx"), ("bsc", "verifyMerkleProof"), ("bsc", "checkProofResult"),
       ("heco", "verifyFromTx"), ("heco", "verifyMerkleProof"), ("heco", "checkProofResult"),
       ("hsc", "verifyFromTx"), ("hsc", "verifyMerkleProof"), ("hsc", "checkProofResult"),
       ("msc", "verifyFromTx"), ("msc", "verifyMerkleProof"), ("msc", "checkProofResult"),
       ("pixiechain", "verifyFromTx"), ("pixiechain", "verifyMerkleProof"), ("pixiechain", "checkProofResult"),
       ("polygon", "verifyFromTx"), ("polygon", "verifyMerkleProof"), ("polygon", "checkProofResult"),
       ("bytom", "verifyFromTx"), ("bytom", "verifyMerkleProof"), ("bytom", "checkProofResult"),
       ("eth", "verifyMerkleProof"), ("eth", "checkProofResult")] := by
  constructor <;> decide

/-- The quorum router (the header arrives with the deposit and is accepted by the validator-signature check, C29/C30):
its proof check accepts exactly when the proof has one storage proof, names the registered contract, the account and
storage proofs verify against THAT header's state root and the proven value is the hash of the message. -/
theorem quorum_proof_check_iff (K : Bytes → Bytes) (vp : Bytes → Bytes → List Bytes → VpRes) (rt ccmc : Bytes)
    (proof : Option EthProof) (extra : Bytes) :
    verifyFromQuorumTx K vp rt ccmc proof extra = .ok () ↔
      ∃ p v, proof = some p ∧ MerkleFacts K vp p rt ccmc (.val v) ∧
        ∃ w, rlpDecodeString v = some w ∧ List.replicate (32 - w.length) (0 : UInt8) ++ w = K extra :=
  verifyFromQuorumTx_ok_iff K vp rt ccmc proof extra

/-- The whole quorum handler (message decoded first, then the proof check) accepts exactly when the message decodes and
the proof facts hold against the supplied header's root; it returns the decoded message. -/
theorem quorum_deposit_iff (K : Bytes → Bytes) (vp : Bytes → Bytes → List Bytes → VpRes) (rt ccmc : Bytes)
    (proof : Option EthProof) (extra : Bytes) (param : TxParam) :
    quorumMakeDeposit K vp rt ccmc proof extra = .ok param ↔
      decodeTxParam extra = some param ∧ verifyFromQuorumTx K vp rt ccmc proof extra = .ok () := by
  unfold quorumMakeDeposit
  cases hd : decodeTxParam extra with
  | none => simp
  | some prm =>
    cases hv : verifyFromQuorumTx K vp rt ccmc proof extra with
    | error e => simp
    | ok u =>
      cases u
      constructor
      · intro h; cases h; exact ⟨rfl, rfl⟩
      · rintro ⟨h, _⟩; cases h; rfl

/-! ## Non-vacuity -/

private def blkA : Hdr Nat Bytes := ⟨1, 0, 100, 5, [0xaa]⟩
private def blkB : Hdr Nat Bytes := ⟨2, 1, 101, 5, [0xbb]⟩
private def K0 : Bytes → Bytes := fun b => List.replicate 31 0 ++ [UInt8.ofNat b.length]
private def acct0 : Bytes := rlpList [rlpNat 1, rlpNat 2, rlpBytes (List.replicate 32 0), rlpBytes (List.replicate 32 0)]
private def vp0 : Bytes → Bytes → List Bytes → VpRes := fun rt _ _ => if rt = [0xaa] then .val acct0 else .val [14]
private def proof0 : EthProof :=
  ⟨"0x0102", "0x2", "0x00", "0x1", "0x00", ["0xc0"], [⟨"0x05", ["0xc0"]⟩]⟩

/-- A deposit of a 7-byte message (three empty fields, chain id, three empty fields … truncated to what decodes) is
accepted at height 100 with two confirmations, and rejected with three required. -/
example :
    let s := run (fun _ _ => true) blkA [[blkB]]
    let extra : Bytes := [0, 0, 0, 9, 0, 0, 0, 0, 0, 0, 0, 0, 0, 0]
    (verifyFromEthTx K0 vp0 (fun h => h.rules) s 2 100 [1, 2] (some proof0) extra).toOption.map (·.toChainID) = some 9 ∧
    (verifyFromEthTx K0 vp0 (fun h => h.rules) s 3 100 [1, 2] (some proof0) extra).toOption = none := by
  decide

end Poly.Props.C23
