import Poly.Model.IncVal
/-!
# C38 — Recent-block duplicate detection is exact

Model: `Poly.Model.IncVal` (`validator/increment.IncrementValidator`). Heights are `uint32` (`< W = 2^32`).
Statements hold for every capacity, every block sequence and every (transaction, start height) query.
-/
namespace Poly.Props.C38
open Poly.Model.IncVal

/-- The block tracked at index `i` has height `base + i`. `trackedAt s h` = the hashes of the tracked block of
height `h`, if any. -/
def trackedAt (s : IncVal) (h : Nat) : Option (List TxId) := if h < s.base then none else s.blocks[h - s.base]?

/-- `Verify` is exact: it refuses a start height below the tracked range, and otherwise reports a duplicate
iff the transaction is in a tracked block whose height is at least the start height; nothing else is a duplicate. -/
theorem verify_exact (s : IncVal) (tx : TxId) (start : Nat) :
    (start < s.base → s.verify tx start = .errStart) ∧
    (s.base ≤ start →
      (s.verify tx start = .dup ↔ ∃ h txs, start ≤ h ∧ trackedAt s h = some txs ∧ tx ∈ txs) ∧
      (s.verify tx start = .ok ↔ ¬ ∃ h txs, start ≤ h ∧ trackedAt s h = some txs ∧ tx ∈ txs)) := by
  constructor
  · intro h; simp [IncVal.verify, h]
  · intro hb
    have hnl : ¬ start < s.base := by omega
    have key : (s.blocks.drop (start - s.base)).any (fun b => b.contains tx) = true ↔
        ∃ h txs, start ≤ h ∧ trackedAt s h = some txs ∧ tx ∈ txs := by
      rw [List.any_eq_true]
      constructor
      · rintro ⟨b, hb1, hb2⟩
        obtain ⟨j, hj, rfl⟩ := List.mem_drop_iff_getElem.mp hb1
        refine ⟨s.base + (start - s.base + j), _, by omega, ?_, by simpa using hb2⟩
        have : ¬ s.base + (start - s.base + j) < s.base := by omega
        simp only [trackedAt, this, if_false]
        rw [List.getElem?_eq_getElem (by omega)]
        congr 2; omega
      · rintro ⟨h, txs, h1, h2, h3⟩
        unfold trackedAt at h2
        split at h2
        · cases h2
        · obtain ⟨hlt, heq⟩ := List.getElem?_eq_some_iff.mp h2
          refine ⟨txs, ?_, by simpa using h3⟩
          rw [List.mem_drop_iff_getElem]
          refine ⟨h - start, by omega, ?_⟩
          rw [← heq]; congr 1; omega
    simp only [IncVal.verify, hnl, if_false]
    by_cases hany : (s.blocks.drop (start - s.base)).any (fun b => b.contains tx) = true
    · have h1 := key.mp hany
      rw [if_pos hany]
      exact ⟨⟨fun _ => h1, fun _ => rfl⟩, ⟨fun h => (by cases h), fun h => absurd h1 h⟩⟩
    · have h1 : ¬ ∃ h txs, start ≤ h ∧ trackedAt s h = some txs ∧ tx ∈ txs := fun h => hany (key.mpr h)
      rw [if_neg hany]
      exact ⟨⟨fun h => (by cases h), fun h => absurd h h1⟩, ⟨fun _ => h1, fun _ => rfl⟩⟩

/-- A non-contiguous block is ignored: the tracker does not change at all. -/
theorem gapped_ignored (s : IncVal) (height : Nat) (txs : List TxId) (hne : s.blocks ≠ [])
    (hgap : s.endHeight ≠ height) : s.addBlock height txs = s := by
  have : s.blocks.isEmpty = false := by cases h : s.blocks <;> simp_all
  simp [IncVal.addBlock, this, hgap]

/-- A contiguous block (or the first block after a start/`Clean`) is appended; when the tracker is full the
oldest block is dropped and the base height moves up by one. -/
theorem contiguous_appended (s : IncVal) (height : Nat) (txs : List TxId) (hh : height < W) (hm : 0 < s.max)
    (hc : s.blocks = [] ∨ s.endHeight = height) :
    s.addBlock height txs =
      if s.blocks = [] then { s with base := height, blocks := [txs] }
      else if s.blocks.length ≥ s.max then { s with blocks := s.blocks.tail ++ [txs], base := (s.base + 1) % W }
      else { s with blocks := s.blocks ++ [txs] } := by
  cases hb : s.blocks with
  | nil =>
    have h1 : height % W = height := Nat.mod_eq_of_lt hh
    have h2 : ¬ (0 ≥ s.max) := by omega
    simp [IncVal.addBlock, hb, IncVal.endHeight, h1, h2]
  | cons b r =>
    rcases hc with hc | hc
    · simp [hb] at hc
    · have he : (s.base + (r.length + 1)) % W = height := by simpa [IncVal.endHeight, hb] using hc
      simp only [IncVal.addBlock, hb, List.isEmpty_cons, Bool.false_eq_true, if_false, IncVal.endHeight,
        List.length_cons, he, ne_eq, not_true_eq_false, reduceCtorEq]
      split <;> simp [hb]

/-- The tracker never holds more than its capacity. -/
theorem capacity (s : IncVal) (height : Nat) (txs : List TxId) (hm : 0 < s.max) (h : s.blocks.length ≤ s.max) :
    (s.addBlock height txs).blocks.length ≤ (s.addBlock height txs).max ∧ (s.addBlock height txs).max = s.max := by
  unfold IncVal.addBlock
  simp only
  split
  · split
    · simp; omega
    · simp only [List.length_append, List.length_cons, List.length_nil]
      split <;> simp <;> omega
  · split
    · exact ⟨h, rfl⟩
    · split
      · simp; omega
      · simp; omega

/-- …for every sequence of blocks of arbitrary heights (contiguous, gapped, repeated) after construction. -/
theorem capacity_always (n : Int) (blocks : List (Nat × List TxId)) :
    let s := blocks.foldl (fun s b => s.addBlock b.1 b.2) (new n)
    s.blocks.length ≤ s.max ∧ s.max = (new n).max := by
  have hpos : 0 < (new n).max := by unfold new; simp only; split <;> omega
  have gen : ∀ (bs : List (Nat × List TxId)) (s : IncVal), 0 < s.max → s.blocks.length ≤ s.max →
      (bs.foldl (fun s b => s.addBlock b.1 b.2) s).blocks.length ≤ (bs.foldl (fun s b => s.addBlock b.1 b.2) s).max ∧
      (bs.foldl (fun s b => s.addBlock b.1 b.2) s).max = s.max := by
    intro bs
    induction bs with
    | nil => intro s _ h; exact ⟨h, rfl⟩
    | cons b r ih =>
      intro s hm h
      have hc := capacity s b.1 b.2 hm h
      have := ih (s.addBlock b.1 b.2) (by rw [hc.2]; exact hm) hc.1
      simp only [List.foldl_cons]
      exact ⟨this.1, this.2.trans hc.2⟩
  exact gen blocks (new n) hpos (by simp [new])

/-- Feeding blocks of consecutive heights `h, h+1, …`. -/
def feed (s : IncVal) (h : Nat) : List (List TxId) → IncVal
  | [] => s
  | b :: r => feed (s.addBlock h b) (h + 1) r

/-- After a start (or `Clean`) followed by any number of contiguous blocks, the tracker holds exactly the most
recent `max` of them (all of them if fewer), and its base height is the height of the oldest one kept. -/
theorem tracks_recent_contiguous (m : Nat) (hm : 0 < m) (h0 : Nat) (bs : List (List TxId)) (hne : bs ≠ [])
    (hw : h0 + bs.length ≤ W) :
    let s := feed { max := m } h0 bs
    s.blocks = bs.drop (bs.length - m) ∧ s.base = h0 + (bs.length - m) ∧ s.max = m := by
  -- generalise: `done` blocks already consumed
  have gen : ∀ (rest done : List (List TxId)) (s : IncVal),
      s.max = m → h0 + done.length + rest.length ≤ W →
      s.blocks = done.drop (done.length - m) → (done ≠ [] → s.base = h0 + (done.length - m)) →
      let s' := feed s (h0 + done.length) rest
      s'.blocks = (done ++ rest).drop ((done ++ rest).length - m) ∧
      (done ++ rest ≠ [] → s'.base = h0 + ((done ++ rest).length - m)) ∧ s'.max = m := by
    intro rest
    induction rest with
    | nil => intro done s h1 _ h3 h4; simpa [feed] using ⟨h3, h4, h1⟩
    | cons b r ih =>
      intro done s h1 h2 h3 h4
      simp only [feed]
      have hlen : (done ++ b :: r) = (done ++ [b]) ++ r := by simp
      have hW : h0 + done.length < W := by simp at h2; omega
      have step : (s.addBlock (h0 + done.length) b).max = m ∧
          (s.addBlock (h0 + done.length) b).blocks = (done ++ [b]).drop ((done ++ [b]).length - m) ∧
          (s.addBlock (h0 + done.length) b).base = h0 + ((done ++ [b]).length - m) := by
        cases hd : done with
        | nil =>
          subst hd
          simp only [List.length_nil, Nat.add_zero, Nat.zero_sub, List.drop_zero, List.nil_append,
            List.length_singleton] at h3 hW ⊢
          rw [contiguous_appended s h0 b hW (by omega) (.inl h3)]
          have e : 1 - m = 0 := by omega
          simp [h3, h1, e]
        | cons d0 dr =>
          have hdne : done ≠ [] := by simp [hd]
          have hb := h4 hdne
          have hbl : s.blocks.length = min done.length m := by rw [h3]; simp; omega
          have hne' : s.blocks.isEmpty = false := by
            cases hsb : s.blocks with
            | nil => rw [hsb] at hbl; simp [hd] at hbl; omega
            | cons _ _ => rfl
          have hend : s.endHeight = h0 + done.length := by
            simp only [IncVal.endHeight, hb, hbl]
            rw [Nat.mod_eq_of_lt (by omega)]; omega
          rw [← hd]
          have hsne : s.blocks ≠ [] := by intro h; simp [h] at hne'
          rw [contiguous_appended s (h0 + done.length) b hW (by omega) (.inr hend)]
          simp only [hsne, if_false]
          by_cases hfull : s.blocks.length ≥ s.max
          · simp only [hfull, if_true]
            refine ⟨h1, ?_, ?_⟩
            · have hdm : done.length ≥ m := by omega
              rw [h3, List.tail_drop, List.length_append, List.length_singleton]
              rw [List.drop_append_of_le_length (by omega)]
              congr 2; omega
            · simp only [hb, List.length_append, List.length_singleton]
              rw [Nat.mod_eq_of_lt (by omega)]; omega
          · simp only [hfull, if_false]
            refine ⟨h1, ?_, ?_⟩
            · have hdm : done.length < m := by omega
              rw [h3]
              have e1 : done.length - m = 0 := by omega
              have e2 : (done ++ [b]).length - m = 0 := by simp; omega
              rw [e1, e2]; simp
            · have hdm : done.length < m := by omega
              simp only [hb, List.length_append, List.length_singleton]; omega
      have := ih (done ++ [b]) (s.addBlock (h0 + done.length) b) step.1
        (by simp at h2 ⊢; omega) step.2.1 (fun _ => step.2.2)
      have e : h0 + (done ++ [b]).length = h0 + done.length + 1 := by simp; omega
      rw [e] at this
      rw [hlen]
      exact this
  have := gen bs [] { max := m } rfl (by simpa using hw) (by simp) (by simp)
  simp only [List.length_nil, Nat.add_zero, List.nil_append] at this
  exact ⟨this.1, this.2.1 hne, this.2.2⟩

/-- `Clean` forgets everything: the next block of any height starts a new tracked range. -/
theorem clean_restarts (s : IncVal) (hm : 0 < s.max) (height : Nat) (txs : List TxId) (hh : height < W) :
    (s.clean.addBlock height txs).blocks = [txs] ∧ (s.clean.addBlock height txs).base = height ∧
    s.clean.blockRange = (0, 0) := by
  have : height % W = height := Nat.mod_eq_of_lt hh
  have hm' : ¬ (0 ≥ s.max) := by omega
  simp [IncVal.clean, IncVal.addBlock, IncVal.endHeight, this, IncVal.blockRange, hm']

/-- The constructor's capacity is positive. -/
theorem new_capacity_pos (n : Int) : 0 < (new n).max ∧ (new n).blocks = [] := by
  unfold new
  constructor
  · simp only; split <;> omega
  · rfl

/-- Stateful validation fails exactly for transactions already in the ledger. -/
theorem stateful_exact (ledger : List TxId) (tx : TxId) :
    (statefulCheck ledger tx = .dup ↔ tx ∈ ledger) ∧ (statefulCheck ledger tx = .ok ↔ tx ∉ ledger) := by
  unfold statefulCheck
  by_cases h : tx ∈ ledger <;> simp [h]

/-- With a ledger lookup that can fail (LevelDB closed or faulty under the running validator): a lookup error never
yields `ok` — the verdict is `ok` only if the ledger positively answered "not contained" (store readable and the
transaction neither cached nor stored); a failed lookup yields `unknown`; `dup` is only ever reported for a
transaction that is in the ledger (given that cached transactions are committed ones). -/
theorem stateful_lookup_error_never_ok (cached ledger : List TxId) (storeOk : Bool) (tx : TxId) :
    (statefulCheckE cached ledger storeOk tx = .ok ↔ storeOk = true ∧ tx ∉ cached ∧ tx ∉ ledger) ∧
    (storeOk = false → tx ∉ cached → statefulCheckE cached ledger storeOk tx = .unknown) ∧
    ((∀ t ∈ cached, t ∈ ledger) → statefulCheckE cached ledger storeOk tx = .dup → tx ∈ ledger) ∧
    (storeOk = true → statefulCheckE cached ledger storeOk tx = (if tx ∈ cached ∨ tx ∈ ledger then .dup else .ok)) := by
  unfold statefulCheckE
  by_cases hc : tx ∈ cached <;> by_cases hl : tx ∈ ledger <;> cases storeOk <;> simp [hc, hl]
  all_goals exact ⟨tx, hc, hl⟩

/-! Non-vacuity: capacity 2, three contiguous blocks, a gap, then queries. -/
example :
    let s := ((((new 2).addBlock 10 [1, 2]).addBlock 11 [3]).addBlock 12 [1]).addBlock 14 [9]
    s.blocks = [[3], [1]] ∧ s.base = 11 ∧ s.blockRange = (11, 13) ∧
    s.verify 1 11 = .dup ∧ s.verify 3 12 = .ok ∧ s.verify 3 11 = .dup ∧ s.verify 2 11 = .ok ∧
    s.verify 9 11 = .ok ∧ s.verify 1 10 = .errStart ∧ s.verify 1 13 = .ok := by
  decide

end Poly.Props.C38
