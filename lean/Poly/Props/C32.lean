import Poly.Proofs.GovQuorum
import Poly.Spec.Quorum
import Poly.Generated.GovKeys
/-!
# C32 — Governance approvals need two thirds of distinct current validators

Model: `Poly.Model.Gov.checkConsensusSigns` (node_manager/utils.go CheckConsensusSigns) with its counting core `ccsCore`,
called by the ten approval handlers through `runPlan`; the threshold test is the definition generated from the Go source
(`Poly.Generated.Thresholds.nodemgr_CheckConsensusSigns0`). `approvedBy cons l` = number of entries of the consensus set
whose address is among the approvers `l`. All statements hold for every hash function `H`, every state, every history.
-/
namespace Poly.Props.C32
open Poly.Model.Gov
open Poly.Spec.Quorum
open Poly.Generated.Thresholds

/-- The threshold the code applies is ceil(2N/3), for every N. -/
theorem threshold_is_ceil_two_thirds (num N : Nat) :
    (nodemgr_CheckConsensusSigns0 (num : Int) (N : Int) = true ↔ thrG N ≤ num) ∧ IsCeilTwoThirds N (thrG N) := by
  refine ⟨thr_iff num N, ?_⟩
  unfold IsCeilTwoThirds thrG
  constructor
  · omega
  · intro j hj; omega

/-- One approval: it succeeds iff the pool of the current view is readable, and then the action is due exactly when the
consensus members among the stored approvers plus this one reach ceil(2N/3) (N = size of the consensus set now). -/
theorem takes_effect_exactly_at (H : Bytes → Bytes) (s s1 : State) (m : String) (i : Bytes) (a : Addr) (f : Bool) (ev : String)
    (h : checkConsensusSigns H s m i a = .ok (s1, f, ev)) :
    ∃ gv pool cons, curPool s = some (gv, pool) ∧ consAddrs s pool = some cons ∧
      (f = true ↔ thrG cons.length ≤ approvedBy cons (addOnce (ledgerOf s (ledgerKey H m i)) a)) := by
  obtain ⟨gv, pool, cons, h1, h2, hf, _, _⟩ := ccs_spec H h
  refine ⟨gv, pool, cons, h1, h2, ?_⟩
  rw [hf]
  simp only [ccsCore]
  exact thr_iff _ _

/-- The ledger after the approval: emptied when the action is due (the next round starts from nothing), otherwise the
approver has joined it; every other ledger entry is unchanged. -/
theorem ledger_after_approval (H : Bytes → Bytes) (s s1 : State) (m : String) (i : Bytes) (a : Addr) (f : Bool) (ev : String)
    (h : checkConsensusSigns H s m i a = .ok (s1, f, ev)) :
    ledgerOf s1 (ledgerKey H m i) = (if f then [] else addOnce (ledgerOf s (ledgerKey H m i)) a) ∧
    ∀ k, k ≠ ledgerKey H m i → ledgerOf s1 k = ledgerOf s k := by
  obtain ⟨_, _, _, _, _, _, h4, h5⟩ := ccs_spec H h
  exact ⟨h4, h5⟩

/-- Never earlier: while the quorum is not reached the transaction changes nothing but the ledger. -/
theorem no_effect_below_quorum (H : Bytes → Bytes) (s : State) (op : Op) (ap : Approval) (s1 : State) (ev : String)
    (hp : plan H s op = .ok (.approve ap))
    (hc : checkConsensusSigns H s ap.method ap.input ap.addr = .ok (s1, false, ev)) :
    step H s op = { s with signs := (step H s op).signs } := by
  have : step H s op = s1 := by simp [step, exec, hp, runPlan, hc]
  rw [this]; exact ccs_frame H hc

/-- The action of an approval transaction is applied only at a quorum (`applied` implies the count reached ceil(2N/3)). -/
theorem applied_only_at_quorum (H : Bytes → Bytes) (s : State) (op : Op) (h : applied H s op = true) :
    ∃ ap gv pool cons, plan H s op = .ok (.approve ap) ∧ curPool s = some (gv, pool) ∧ consAddrs s pool = some cons ∧
      thrG cons.length ≤ approvedBy cons (addOnce (ledgerOf s (ledgerKey H ap.method ap.input)) ap.addr) := by
  obtain ⟨ap, s1, ev, s2, n, hp, hc, _⟩ := (applied_iff H s op).1 h
  obtain ⟨gv, pool, cons, h1, h2, h3⟩ := takes_effect_exactly_at H s s1 _ _ _ true ev hc
  exact ⟨ap, gv, pool, cons, hp, h1, h2, h3.1 rfl⟩

/-- An approver that is not a consensus member does not change the count. -/
theorem outsiders_dont_count (cons l : List Addr) (a : Addr) (h : a ∉ cons) :
    approvedBy cons (addOnce l a) = approvedBy cons l := countIn_outsider cons l a h

/-- A repeated approval changes neither the ledger nor the count. -/
theorem repeat_counts_once (cons l : List Addr) (a : Addr) (h : a ∈ l) :
    addOnce l a = l ∧ approvedBy cons (addOnce l a) = approvedBy cons l := by
  rw [addOnce_of_mem l a h]; exact ⟨rfl, rfl⟩

/-- With pairwise different validator addresses the count is the number of distinct validators that approved. -/
theorem count_is_number_of_distinct_validators (cons l : List Addr) (h : cons.Nodup) :
    (cons.filter (fun c => l.contains c)).Nodup ∧ approvedBy cons l = (cons.filter (fun c => l.contains c)).length ∧
    approvedBy cons l ≤ cons.length :=
  ⟨h.filter _, rfl, List.length_filter_le _ _⟩

/-- All approval histories of one (method, request): whatever the sequence of approvers (validators, repeaters,
outsiders) and whatever consensus set is in force at each approval, the code applies the action at exactly those
approvals at which the consensus members among everybody who approved since the action last took effect reach
ceil(2N/3) of the set then in force. -/
theorem fires_exactly_when_quorum_reached (evs : List (Addr × List Addr)) : ledgerRun [] evs = quorumSpec [] evs :=
  ledgerRun_eq_spec [] [] evs (fun _ => Iff.rfl)

/-- Over every history of governance transactions (all methods, all pool changes in between) in which the request is
not withdrawn or replaced: the approvals committed on one ledger entry (method, request) apply the action at exactly
the approvals at which the consensus-set entries among everybody who approved since it last took effect reach
ceil(2N/3) of the set then in force, counted from the approvers already stored in the entry. -/
theorem takes_effect_exactly_at_over_histories (H : Bytes → Bytes) (k : Bytes) (s : State) (ops : List Op)
    (hnc : NoClearOn H k s ops) :
    (approvalsOn H k s ops).map (·.2) = quorumSpec (ledgerOf s k) ((approvalsOn H k s ops).map (·.1)) := by
  rw [approvalsOn_eq_ledgerRun H k s ops hnc]
  exact ledgerRun_eq_spec _ _ _ (fun _ => Iff.rfl)

/-- Approvals for a different action or request, and every other transaction, do not touch a ledger entry. -/
theorem other_transactions_dont_count (H : Bytes → Bytes) (s : State) (op : Op) (k : Bytes)
    (hk : ledgerKeyOf H s op ≠ some k) : ledgerOf (step H s op) k = ledgerOf s k := ledger_frame H s op k hk

/-- Different (method, request) pairs of the registered approval methods have different ledger keys, unless the hash
collides: `method ‖ input` is unambiguous because no method name is a prefix of another. -/
theorem ledger_keys_separate (H : Bytes → Bytes) (m1 m2 : String) (i1 i2 : Bytes)
    (h1 : m1 ∈ approvalMethods) (h2 : m2 ∈ approvalMethods) (hk : ledgerKey H m1 i1 = ledgerKey H m2 i2) :
    (m1 = m2 ∧ i1 = i2) ∨ LedgerCollision H := by
  by_cases hmsg : strBytes m1 ++ i1 = strBytes m2 ++ i2
  · left
    have hinj : ∀ a ∈ approvalMethods, ∀ b ∈ approvalMethods, strBytes a = strBytes b → a = b := by decide
    by_cases hm : strBytes m1 = strBytes m2
    · have := hinj m1 h1 m2 h2 hm
      subst this
      exact ⟨rfl, List.append_cancel_left hmsg⟩
    · exfalso
      have hp := prefixFree_sound _ methods_prefixFree (strBytes m1) (strBytes m2)
        (List.mem_map_of_mem h1) (List.mem_map_of_mem h2) hm
      exact append_inj_of_not_prefix _ _ i1 i2 hp.1 hp.2 hmsg
  · right; exact ⟨_, _, hmsg, hk⟩

/-- On the source itself (table regenerated from /repo by extract/govkeys on every run): the calls of
CheckConsensusSigns in the governance contracts are exactly the ten approval handlers of the model, with these method
strings; the approval ledgers are cleared exactly by UnRegisterCandidate and UpdateSideChain. -/
theorem source_call_sites_are_the_modelled_methods :
    Poly.Generated.GovKeys.ccsCalls.map (fun r => r.2.2) = approvalMethods ∧
    Poly.Generated.GovKeys.clears.map (fun r => (r.2.1, r.2.2)) =
      [("UnRegisterCandidate", ["approveCandidate"]), ("UpdateSideChain", ["approveUpdateSideChain"])] := by decide

/-- BlackNode requests (the input is the concatenation of the listed key strings, without separator): lists of key
strings of one common length (all canonical serializations of keys of one curve have the same length) have different
ledger keys unless they are the same list or the hash collides. For key strings of different lengths the
concatenation is not proved unambiguous. -/
theorem black_requests_separate (H : Bytes → Bytes) (n : Nat) (hn : 0 < n) (pks1 pks2 : List String)
    (h1 : ∀ pk ∈ pks1, (strBytes pk).length = n) (h2 : ∀ pk ∈ pks2, (strBytes pk).length = n)
    (hk : ledgerKey H "blackNode" (pks1.flatMap strBytes) = ledgerKey H "blackNode" (pks2.flatMap strBytes)) :
    pks1.map strBytes = pks2.map strBytes ∨ LedgerCollision H := by
  rcases ledger_keys_separate H "blackNode" "blackNode" _ _ (by decide) (by decide) hk with ⟨_, hi⟩ | hc
  · left
    rw [List.flatMap_def, List.flatMap_def] at hi
    apply flatten_inj_of_length n hn _ _ _ _ hi
    · intro x hx; obtain ⟨pk, hpk, rfl⟩ := List.mem_map.1 hx; exact h1 pk hpk
    · intro x hx; obtain ⟨pk, hpk, rfl⟩ := List.mem_map.1 hx; exact h2 pk hpk
  · exact Or.inr hc

/-- Requests identified by a 64-bit number (chain ids, relayer / state-validator request numbers) have different ledger
keys for different numbers or different methods, unless the hash collides. -/
theorem numbered_requests_separate (H : Bytes → Bytes) (m1 m2 : String) (a b : Nat)
    (h1 : m1 ∈ approvalMethods) (h2 : m2 ∈ approvalMethods) (ha : a < 2 ^ 64) (hb : b < 2 ^ 64)
    (hk : ledgerKey H m1 (u64le a) = ledgerKey H m2 (u64le b)) : (m1 = m2 ∧ a = b) ∨ LedgerCollision H := by
  rcases ledger_keys_separate H m1 m2 _ _ h1 h2 hk with ⟨hm, hi⟩ | hc
  · exact Or.inl ⟨hm, u64le_inj a b (by omega) (by omega) hi⟩
  · exact Or.inr hc

/-- Non-vacuity (tests on literals): 4 validators, ceil(8/3) = 3: the third distinct validator applies the action, a
repeated approver and an outsider do not. -/
example :
    let v : Nat → Addr := fun n => List.replicate 20 (UInt8.ofNat n)
    let cons := [v 1, v 2, v 3, v 4]
    ledgerRun [] [(v 1, cons), (v 1, cons), (v 9, cons), (v 2, cons), (v 3, cons), (v 4, cons)] =
      [false, false, false, false, true, false] := by decide

end Poly.Props.C32
