import Poly.Proofs.CMsg
import Poly.Generated.CMsgKinds
/-!
# C44 — Consensus messages round-trip and signatures bind their content

`Poly.Generated.CMsgKinds` is regenerated from consensus/vbft/msg_types.go and msg_builder.go on every run
(extract/cmsgkinds); the `*_matches_source` theorems are re-checked against what the code says now.
Hash function `H`, `sign`/`verify`, the public-key parser and `encoding/json` are parameters / abstract.
-/
namespace Poly.Props.C44
open Poly.Model.CMsg
open Poly.Generated.CMsgKinds

/-! ### Kinds and dispatch -/

/-- The switch of `DeserializeVbftMsg` maps the value returned by each kind's `Type()` back to that kind, and
nothing else maps to it. -/
theorem dispatch_consistent :
    (∀ k : Kind, dispatch k.code = some k) ∧ (∀ n k, dispatch n = some k → k.code = n) := by
  constructor
  · intro k; cases k <;> rfl
  · intro n k h
    match n, h with
    | 0, h | 1, h | 2, h | 3, h | 4, h | 5, h | 6, h | 7, h | 8, h | 9, h =>
      simp [dispatch] at h; subst h; rfl
    | n + 10, h => simp [dispatch] at h

def lookup2 (l : List (String × String × String)) (k : String) : Option (String × String) :=
  match l.find? (fun e => e.1 == k) with
  | some e => some e.2
  | none => none

def lookupCode (l : List (String × Nat)) (k : String) : Option Nat :=
  match l.find? (fun e => e.1 == k) with
  | some e => some e.2
  | none => none

def encName (k : Kind) : String := if k.isJson then "json" else "custom"

/-- The hand-written kind table is the one in the source: same constants with the same iota values, every struct's
`Type()` returns the constant whose switch case allocates that struct, the encoder (`json.Marshal` or custom) matches
the decoder of the case, there are no further kinds, and the `Len` check precedes the switch. -/
theorem dispatch_matches_source :
    (∀ k ∈ Kind.all,
        lookupCode constCodes k.constName = some k.code ∧
        lookup2 typeMethod k.structName = some (k.constName, encName k) ∧
        lookup2 switchCases k.constName = some (k.structName, encName k)) ∧
    constCodes.length = Kind.all.length ∧ typeMethod.length = Kind.all.length ∧
    switchCases.length = Kind.all.length ∧ hasLenCheck = true := by
  decide

/-- Every struct that goes through `encoding/json` has only exported fields and pairwise different tags (also
when compared case-insensitively, as `encoding/json` does when decoding): the condition under which the abstract
JSON object model below round-trips. -/
theorem json_structs_wellformed :
    ∀ s ∈ jsonStructs, (s.2.all fun f => f.2.2) = true ∧ (s.2.map fun f => f.2.1.toLower).Nodup := by
  decide +kernel

/-- A JSON object written with pairwise different tags is read back field by field. -/
theorem json_object_roundtrip {V : Type} (tags : List String) (vals : List V) (hn : tags.Nodup)
    (hl : tags.length = vals.length) : jsonDecode tags (jsonEncode tags vals) = some vals :=
  jsonDecode_encode tags vals hn hl

/-- `DeserializeVbftMsg (SerializeVbftMsg m) = m` at the envelope level: whenever the kind's own decoder reads the
kind's payload back to `m`, the envelope passes the length check and dispatches to that decoder. -/
theorem envelope_roundtrip {μ : Type} (decInner : Kind → Bytes → Option μ) (k : Kind) (payload : Bytes) (m : μ)
    (h : decInner k payload = some m) :
    deserializeEnv decInner (serializeEnv k payload) = .ok (k, m) := by
  simp [deserializeEnv, serializeEnv, dispatch_consistent.1 k, h]

/-- An envelope whose `len` is smaller than its payload is refused; an unknown type is refused. -/
theorem envelope_rejects {μ : Type} (decInner : Kind → Bytes → Option μ) (e : Envelope) :
    (e.len < e.payload.length % 2 ^ 32 → deserializeEnv decInner e = .error .len) ∧
    (¬ e.len < e.payload.length % 2 ^ 32 → dispatch e.type = none → deserializeEnv decInner e = .error .unknown) := by
  constructor
  · intro h; simp [deserializeEnv, h]
  · intro h hd; simp [deserializeEnv, h, hd]

/-! ### Binary parts -/

/-- `ConsensusPayload`: `Deserialization (Serialization p) = p` (the peer id is not on the wire). -/
theorem payload_roundtrip (keyOk : Bytes → Bool) (p : CPayload) (hw : p.signed.WF)
    (hk : keyOk p.owner = true) (ho : p.owner.length < 2 ^ 64) (hs : p.signature.length < 2 ^ 64) :
    decodePayload keyOk p.encode = .ok { p with peerId := 0 } :=
  decodePayload_encode keyOk p hw hk ho hs

/-- The vbft `Block` pair (block, optional empty block) round-trips at the byte-string level. -/
theorem blockpair_roundtrip (blockOk infoOk : Bytes → Bool) (b : Bytes) (e : Option Bytes)
    (hb : blockOk b = true) (hi : infoOk b = true) (hbl : b.length < 2 ^ 64)
    (he : ∀ x, e = some x → blockOk x = true ∧ x.length < 2 ^ 64) :
    blockPairDecode blockOk infoOk (blockPairEncode b e) = .ok (b, e) := by
  unfold blockPairDecode blockPairEncode
  rw [readVarBytes_varBytes _ _ hbl]
  simp only [hb, hi, Bool.not_true, Bool.false_eq_true, ↓reduceIte]
  cases e with
  | none => simp
  | some x =>
    obtain ⟨hx, hxl⟩ := he x rfl
    have hpos : (varBytes x).length > 0 := by
      unfold varBytes varUint; split <;> (try split) <;> (try split) <;> simp
    have := readVarBytes_varBytes x [] hxl
    rw [List.append_nil] at this
    simp only [hpos, ↓reduceIte, this, hx]

/-- `BlockFetchRespMsg`: number, hash and the block pair bytes are read back. -/
theorem fetchResp_roundtrip (n : Nat) (hash pair : Bytes) (hn : n < 2 ^ 32) (hh : hash.length = 32) :
    fetchRespDecode (fetchRespEncode n hash pair) = some (n, hash, pair) := by
  simp only [fetchRespDecode, fetchRespEncode]
  rw [readLe_leN 4 _ _ (by simpa using hn)]; simp only
  rw [takeN_append' 32 _ _ hh]

/-! ### What a signature covers -/

/-- The signed bytes of a consensus payload determine every signed field: two payloads with the same signed bytes
agree on version, previous hash, height, bookkeeper index, timestamp and data. -/
theorem signed_bytes_injective (a b : CSigned) (ha : a.WF) (hb : b.WF) (h : a.bytes = b.bytes) : a = b :=
  signedBytes_inj a b ha hb h

/-- The bytes under the block hash determine every unsigned-header field. -/
theorem header_bytes_injective (a b : HeaderU) (ha : a.WF) (hb : b.WF) (h : a.bytes = b.bytes) : a = b :=
  headerBytes_inj a b ha hb h

/-- Equal header hashes mean equal headers (all eleven hashed fields) or a collision of `H`, which is constructed. -/
theorem header_hash_binds_fields (H : Bytes → Bytes) (a b : HeaderU) (ha : a.WF) (hb : b.WF)
    (h : a.hash H = b.hash H) : a = b ∨ Collision H := by
  rcases double_hash_inj_or_collision H a.bytes b.bytes h with e | c
  · exact Or.inl (headerBytes_inj a b ha hb e)
  · exact Or.inr c

/-- Signature binding as an explicit hypothesis (this *is* the unforgeability assumption, it is not proved): a
signature made with key `k` for message `m0` verifies under (public key, message) only for `k`'s public key and
`m0` itself. -/
def SigBinds {K : Type} (sign : K → Bytes → Bytes) (pub : K → Bytes) (verify : Bytes → Bytes → Bytes → Bool) : Prop :=
  ∀ k m0 pk m, verify pk m (sign k m0) = true → pk = pub k ∧ m = m0

/-- A consensus payload signature verifies only for the exact content and key it was made with: if `q` carries the
signature that `k` made over `p`'s signed bytes and `q.Verify()` succeeds, then `q`'s owner is `k`'s public key and
`q` agrees with `p` on every signed field. -/
theorem payload_sig_binds_content {K : Type} (sign : K → Bytes → Bytes) (pub : K → Bytes)
    (verify : Bytes → Bytes → Bytes → Bool) (hsb : SigBinds sign pub verify)
    (k : K) (p q : CPayload) (hp : p.signed.WF) (hq : q.signed.WF)
    (hsig : q.signature = sign k p.signed.bytes) (hv : q.verify verify = true) :
    q.owner = pub k ∧ q.signed = p.signed := by
  unfold CPayload.verify at hv
  rw [hsig] at hv
  obtain ⟨h1, h2⟩ := hsb k _ _ _ hv
  exact ⟨h1, signedBytes_inj _ _ hq hp h2⟩

/-- A block proposal signature binds the header: if the first signature of `h'` is the one `k` made over `h`'s hash
and the proposal check passes for public key `pk`, then `pk` is `k`'s key and `h'` equals `h` on all hashed
fields — or a collision of `H` is exhibited. -/
theorem proposal_sig_binds_header {K : Type} (H : Bytes → Bytes) (sign : K → Bytes → Bytes) (pub : K → Bytes)
    (verify : Bytes → Bytes → Bytes → Bool) (hsb : SigBinds sign pub verify)
    (k : K) (h h' : HeaderU) (hw : h.WF) (hw' : h'.WF) (rest : List Bytes) (pk : Bytes)
    (hv : verifyBlockSig H verify pk h' (sign k (h.hash H) :: rest) = true) :
    pk = pub k ∧ (h' = h ∨ Collision H) := by
  simp only [verifyBlockSig] at hv
  obtain ⟨h1, h2⟩ := hsb k _ _ _ hv
  exact ⟨h1, header_hash_binds_fields H h' h hw' hw h2⟩

/-- The whole proposal check: block and (when present) empty block are each bound to their own signature. A
proposal without signature data never verifies. -/
theorem proposal_verify_spec (H : Bytes → Bytes) (verify : Bytes → Bytes → Bytes → Bool) (pk : Bytes) (p : Proposal) :
    p.verify H verify pk = true ↔
      (∃ sg r, p.blockSigs = sg :: r ∧ verify pk (p.block.hash H) sg = true) ∧
      (∀ eh es, p.empty = some (eh, es) → ∃ sg r, es = sg :: r ∧ verify pk (eh.hash H) sg = true) := by
  unfold Proposal.verify
  rcases p with ⟨blk, sigs, emp⟩
  cases sigs with
  | nil => simp [verifyBlockSig]
  | cons sg r =>
    cases emp with
    | none => simp [verifyBlockSig]
    | some e =>
      rcases e with ⟨eh, es⟩
      cases es with
      | nil => simp [verifyBlockSig]
      | cons sg2 r2 => simp [verifyBlockSig]

/-! ### Non-vacuity -/

/-- a toy scheme satisfying `SigBinds`: one-byte keys, signature = key byte followed by the message -/
example : SigBinds (K := UInt8) (fun k m => k :: m) (fun k => [k])
    (fun pk m sg => decide (pk.length = 1) && decide (sg = pk ++ m)) := by
  intro k m0 pk m h
  simp only [Bool.and_eq_true, decide_eq_true_eq] at h
  obtain ⟨hl, he⟩ := h
  match pk, hl with
  | [x], _ => simp at he; exact ⟨by rw [he.1], he.2.symm⟩

example : (⟨1, List.replicate 32 7, 5, 2, 99, [1, 2, 3]⟩ : CSigned).WF := by
  simp [CSigned.WF]

example : readSigned ((⟨1, List.replicate 32 7, 5, 2, 99, [1, 2, 3]⟩ : CSigned).bytes ++ [9]) =
    some (⟨1, List.replicate 32 7, 5, 2, 99, [1, 2, 3]⟩, [9]) := by decide

example : deserializeEnv (fun _ b => some b) (serializeEnv .commit [1, 2]) = .ok (.commit, [1, 2]) := by
  simp [deserializeEnv, serializeEnv, dispatch, Kind.code]

end Poly.Props.C44
