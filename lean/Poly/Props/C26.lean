import Poly.Proofs.Btc

/-!
# C26 — BTC coin selection conserves UTXO value

Property theorems only. The model (`Poly.Model.Btc`) mirrors `CoinSelector.Select / SimpleBnbSearch / SortedSearch`,
`chooseUtxos` and the change computation of `makeBtcTx`; the float-valued tests of the selector are the
uninterpreted Boolean functions `T : Tests`, so every theorem holds whatever they answer.
-/
namespace Poly.Props.C26
open Poly.Model.Btc Poly.Proofs.Btc

/-- Whenever `Select` returns a selection: the selected outputs are read off the offered list at pairwise
    different positions, the reported total is the sum of their values, the total is the payment or exceeds it by
    at least the minimum change, and the reported fee is the fee estimate of exactly that selection. -/
theorem select_conserves (T : Tests) (P : Params) (utxos : List Utxo) (tries : Int) (a : Answer)
    (h : select T P utxos tries = .some a) :
    (∃ idxs : List Nat, idxs.Nodup ∧ idxs.map (fun i => utxos[i]?) = a.sel.map some) ∧
      a.sum = (a.sel.map (·.value)).sum ∧
      (a.sum = P.target ∨ a.sum ≥ P.target + P.mc) ∧
      a.fee = estimateTxFee P a.sel :=
  select_conserves' T P utxos tries a h

/-- The same for the two searches called directly (both are exported methods). -/
theorem bnb_conserves (T : Tests) (P : Params) (utxos : List Utxo) (tries : Int) (a : Answer) (t : Int)
    (h : bnb T P utxos 0 [] 0 tries = (.some a, t)) :
    (∃ idxs : List Nat, idxs.Nodup ∧ idxs.map (fun i => utxos[i]?) = a.sel.map some) ∧
      a.sum = (a.sel.map (·.value)).sum ∧ (a.sum = P.target ∨ a.sum ≥ P.target + P.mc) :=
  let ⟨h1, h2, h3, _⟩ := Poly.Proofs.Btc.bnb_conserves T P utxos tries a t h
  ⟨h1, h2, h3⟩

theorem sorted_conserves (T : Tests) (P : Params) (utxos : List Utxo) (a : Answer)
    (h : sortedSearch T P utxos = .some a) :
    a.sel.Sublist utxos ∧ a.sum = (a.sel.map (·.value)).sum ∧ (a.sum = P.target ∨ a.sum ≥ P.target + P.mc) := by
  obtain ⟨h1, h2, h3, _⟩ := sortedLoop_spec T P utxos false [] 0 0 a (by simp [sumValues]) (by simp) h
  exact ⟨by simpa using h1, h2, (hits_iff P _).mp h3⟩

/-- The selector never indexes outside its slices (no run-time panic), for every input and budget. -/
theorem select_never_panics (T : Tests) (P : Params) (utxos : List Utxo) (tries : Int) :
    select T P utxos tries ≠ .panic :=
  select_no_panic T P utxos tries

/-- A successful `chooseUtxos` on an unspent record with pairwise different outpoints moves exactly the selection:
    the old unspent record is the selection plus the new unspent record, the spent record gains exactly the
    selection, the selection is not empty, its values add up to the reported total, and the total is the amount or
    at least amount + min-change. -/
theorem choose_moves_exactly (T : Tests) (P : Params) (s s' : Store) (tries : Int) (a : Answer)
    (hk : (s.utxos.map opKey).Nodup) (h : chooseUtxos T P s tries = .ok a s') :
    s.utxos.Perm (a.sel ++ s'.utxos) ∧ s'.stxos.Perm (s.stxos ++ a.sel) ∧ a.sel ≠ [] ∧
      a.sum = (a.sel.map (·.value)).sum ∧ (a.sum = P.target ∨ a.sum ≥ P.target + P.mc) :=
  chooseUtxos_spec T P s tries a s' hk h

/-- chooseUtxos never panics on an unspent record with pairwise different outpoints, whatever the values (equal values
    and several outputs of one transaction included), parameters and float answers: the removal walk always finds the
    selected outputs. (Before the repair of `Utxos.Less` two equal-value outputs of one transaction could make it run
    off the end of the record.) -/
theorem choose_never_panics (T : Tests) (P : Params) (s : Store) (tries : Int)
    (hk : (s.utxos.map opKey).Nodup) : chooseUtxos T P s tries ≠ .panic :=
  chooseUtxos_no_panic T P s tries hk

/-- Over every history of deposits, withdrawals and completed signature rounds (any parameters, any float answers,
    failed withdrawals and failed rounds included): if the outpoints initially unspent and the outpoints entering
    later (deposits and the change outputs of signed withdrawals) are pairwise different, then no outpoint is
    ever selected twice — neither inside one withdrawal nor by two different withdrawals — and nothing selected is
    still in the unspent record at the end. -/
theorem never_reselected (s : Store) (evs : List Ev)
    (h : ((s.utxos ++ deposits evs).map opKey).Nodup) :
    (((runHist s evs).2.flatten ++ (runHist s evs).1.utxos).map opKey).Nodup := by
  have := histInv_run evs (s, []) (by simpa [HistInv] using h)
  simpa [HistInv, runHist] using this

/-- MultiSign bookkeeping: only the call that completes the required number of signatures touches the records (every
    other outcome, `pending` included, carries no store); it appends exactly the outputs of the signed transaction
    that pay the multisig (the change output, and the payment output of a self-payment) to the unspent record and
    deletes from the spent record one entry per input, with that input's outpoint. A key cannot sign twice. -/
theorem signing_moves_exactly (required : Nat) (s s' : Store) (p p' : Pending) (signer : Nat) (sigOK : Bool)
    (mk : Nat → Nat → Utxo) (h : multiSign required s p signer sigOK mk = .final p' s') :
    sigOK = true ∧ signer ∉ p.signers ∧ p'.signers.length = required ∧
      s'.utxos = s.utxos ++ newUtxos mk p.outs ∧
      ∃ removed : List Utxo, s.stxos.Perm (removed ++ s'.stxos) ∧
        removed.map (fun u => (u.hash, u.index)) = p.inputs.map (fun u => (u.hash, u.index)) := by
  obtain ⟨a, b, _, d, e, f⟩ := multiSign_final_spec required s s' p p' signer sigOK mk h
  exact ⟨a, b, d, e, f⟩

/-- The change output `sum - amount` of makeBtcTx is never negative for a selection returned by chooseUtxos. -/
theorem change_nonneg (T : Tests) (P : Params) (s s' : Store) (tries : Int) (a : Answer)
    (hk : (s.utxos.map opKey).Nodup) (h : chooseUtxos T P s tries = .ok a s') :
    0 ≤ change a.sum P.target := by
  obtain ⟨_, _, _, _, ht⟩ := chooseUtxos_spec T P s tries a s' hk h
  unfold change
  rcases ht with ht | ht <;> omega

/-! ## Non-vacuity and regression examples (tests, by evaluation) -/

private def tNo : Tests := { lrGe := fun _ => false, gtK := fun _ => false, leK := fun _ => true }
private def pF6 : Params := { mc := 2000, target := 1000, feeRate := 1, m := 2, n := 3, outs := [34] }
private def uF6 : List Utxo :=
  [⟨0, 1500, true, false, [], 0⟩, ⟨1, 1400, true, false, [], 0⟩, ⟨2, 1300, true, false, [], 0⟩, ⟨3, 50, true, false, [], 0⟩]

/-- The input of finding F6: the repaired SortedSearch keeps [1500, 1400, 1300] with total 4200 (2950 = 1500+1400+50
    would miss target + min-change = 3000). -/
example : (match sortedSearch tNo pF6 uF6 with
    | .some a => (a.sel.map (·.id), a.sum) | _ => ([], 0)) = ([0, 1, 2], 4200) := by decide

/-- A replacement that does happen: [900, 800, 700, 650], target 2300, min-change 0: the last selected output 700 is
    replaced by 650 and the reported total follows (2350). -/
example : (match sortedSearch tNo { pF6 with mc := 0, target := 2300 }
      [⟨0, 900, true, false, [], 0⟩, ⟨1, 800, true, false, [], 0⟩, ⟨2, 700, true, false, [], 0⟩, ⟨3, 650, true, false, [], 0⟩] with
    | .some a => (a.sel.map (·.id), a.sum) | _ => ([], 0)) = ([0, 1, 3], 2350) := by decide

/-- Hypothesis of `never_reselected` is satisfiable (two different 32-byte outpoints). -/
example : (([⟨0, 5, true, false, List.replicate 32 1, 0⟩, ⟨1, 7, true, false, List.replicate 32 2, 0⟩] : List Utxo).map opKey).Nodup := by
  decide

private def u1 : List Utxo := [⟨1, 1000, true, false, List.replicate 32 2, 0⟩]

private theorem select_u1 : select tNo pF6 u1 10 = .some ⟨u1, 1000, estimateTxFee pF6 u1⟩ := by
  unfold select
  rw [bnb]
  simp [u1, tNo, pF6, nextDepth]
  rw [bnb]
  simp

/-- Hypothesis of `select_conserves` is satisfiable: one output worth exactly the target is selected. -/
example : ∃ a, select tNo pF6 u1 10 = .some a ∧ a.sum = 1000 := ⟨_, select_u1, rfl⟩

/-- Hypotheses of `choose_moves_exactly` / `change_nonneg` are satisfiable: the output moves from unspent to spent. -/
example : ∃ a s', chooseUtxos tNo pF6 ⟨u1, []⟩ 10 = .ok a s' ∧ (u1.map opKey).Nodup ∧ s'.utxos = [] ∧ s'.stxos = u1 := by
  refine ⟨⟨u1, 1000, estimateTxFee pF6 u1⟩, ⟨[], u1⟩, ?_, by decide, rfl, rfl⟩
  unfold chooseUtxos
  have h1 : sortDesc u1 = u1 := by decide
  simp only [h1, select_u1]
  have h2 : removeWalk u1 0 u1 = some [] := by decide
  have h3 : u1.isEmpty = false := by decide
  simp [h2, h3]

end Poly.Props.C26
