import Poly.Proofs.MerkleVerify
import Poly.Proofs.MerkleServe
import Poly.Proofs.MerkleCons
/-!
# C07 — Merkle proof verifiers are sound

Model: `Poly.Model.Merkle` (`merkleProve`, `verifyLeafHashInclusion`, `verifyConsistency` as coded).
Soundness has the shape `accept → fact ∨ Collision H`: the proofs construct the colliding pair. `HashLen H`
(all hash values are 32 bytes, as `common.Uint256`) is the only hypothesis on the hash function.
-/
namespace Poly.Props.C07
open Poly.Spec.RFC6962 Poly.Model.Merkle Poly.Proofs.MerkleSpec Poly.Proofs.MerkleVerify

variable (H : List UInt8 → List UInt8)

/-- `MerkleProve` against ANY binary hash tree `T` over leaf data (RFC-shaped, paired-level, anything):
if it accepts `path` for `T`'s root and returns `value`, then `value` is the leaf of `T` reached by some
sequence of left/right steps from the root (the one encoded by the position flags) — or a collision of
`H` is exhibited. -/
theorem merkleProve_sound (hlen : HashLen H) (T : DTree) (path root value : List UInt8)
    (hacc : merkleProve H path root = .ok value) (hroot : root = T.root H) :
    (∃ ds, T.descend ds = some (.leaf value)) ∨ Collision H :=
  Poly.Proofs.MerkleVerify.merkleProve_sound H hlen T path root value hacc hroot

/-- In particular against the RFC 6962 tree of a committed list of records: an accepted path can only
yield a committed record. -/
theorem merkleProve_sound_rfc (hlen : HashLen H) (D : List (List UInt8)) (hD : D ≠ [])
    (path root value : List UInt8) (hacc : merkleProve H path root = .ok value)
    (hroot : root = mth H (D.map (hashLeaf H))) : value ∈ D ∨ Collision H := by
  rcases merkleProve_sound H hlen (rfcTree D) path root value hacc (by rw [hroot, rfcTree_root H D hD]) with ⟨ds, h⟩ | h
  · left
    have := DTree.descend_leaf_mem _ ds value h
    rwa [rfcTree_leaves D hD] at this
  · exact Or.inr h

/-- The flags of an accepted path are exactly the position: folding a path from the value reaches the
root only along the directions it encodes (`dirs`), for every tree. -/
theorem merkleProve_position (hlen : HashLen H) (T : DTree) (pairs : List (UInt8 × Hash)) (value : List UInt8)
    (hp : ∀ p ∈ pairs, p.2.length = 32) (h : provePath H (hashLeaf H value) pairs = T.root H) :
    T.descend (dirs pairs) = some (.leaf value) ∨ Collision H := by
  rcases provePath_sound H hlen T pairs _ (hlen _) hp h with ⟨sub, hd, hs⟩ | hc
  · cases sub with
    | leaf d =>
      simp only [DTree.root] at hs
      rcases hashLeaf_inj H hs with rfl | hc
      · exact Or.inl hd
      · exact Or.inr hc
    | node l r => exact Or.inr (leaf_ne_node H hs.symm)
  · exact Or.inr hc

/-- `VerifyLeafHashInclusion` is sound: if it accepts `(leaf hash, index, proof, root, size)` and `root` is
the RFC 6962 root of a list `D` of `size` leaf hashes, then the leaf hash IS `D[index]` — or a collision of
`H` is exhibited. (Holds over raw 32-byte leaf hashes: the path shape is fixed by `(index, size)`.)
Consequently an altered index, size, leaf or root is accepted only if the altered claim is itself true. -/
theorem inclusion_sound (hlen : HashLen H) (D : List Hash) (lh : Hash) (i n : Nat) (p : List Hash) (root : Hash)
    (hacc : verifyLeafHashInclusion H lh i p root n = .ok ()) (hroot : root = mth H D) (hn : D.length = n)
    (hlh : lh.length = 32) (hD : ∀ y ∈ D, y.length = 32) (hp : ∀ y ∈ p, y.length = 32) :
    D[i]? = some lh ∨ Collision H :=
  verifyInclusion_sound H hlen D lh i n p root hacc hroot hn hlh hD hp

/-- Same for leaf data (`VerifyLeafInclusion`): the record itself is determined, up to a collision. -/
theorem inclusion_sound_data (hlen : HashLen H) (D : List (List UInt8)) (leaf : List UInt8) (i n : Nat)
    (p : List Hash) (root : Hash)
    (hacc : verifyLeafInclusion H leaf i p root n = .ok ()) (hroot : root = mth H (D.map (hashLeaf H)))
    (hn : D.length = n) (hp : ∀ y ∈ p, y.length = 32) :
    D[i]? = some leaf ∨ Collision H := by
  rcases verifyInclusion_sound H hlen (D.map (hashLeaf H)) (hashLeaf H leaf) i n p root hacc hroot (by simpa using hn)
      (hlen _) (by intro y hy; obtain ⟨d, _, rfl⟩ := List.mem_map.mp hy; exact hlen _) hp with h | h
  · rw [List.getElem?_map] at h
    cases hd : D[i]? with
    | none => simp [hd] at h
    | some d =>
      simp only [hd, Option.map_some, Option.some.injEq] at h
      rcases hashLeaf_inj H h with rfl | hc
      · exact Or.inl rfl
      · exact Or.inr hc
  · exact Or.inr h

/-- `VerifyConsistency` is sound: if it accepts `(old size, new size, old root, new root, proof)` where the
roots are the RFC 6962 roots of two lists of leaf data `D₁`, `D₂` of those sizes, then `D₁` is a prefix of
`D₂` — or a collision of `H` is exhibited. The early exits are covered: equal roots force equal lists (a
collision otherwise, through the 0x00/0x01 domain separation when the sizes differ), old size 0 is the empty
prefix. (Over raw leaf hashes the statement would be false: `mth [x] = x` can equal `mth [a, b]`.) -/
theorem consistency_sound (hlen : HashLen H) (D₁ D₂ : List (List UInt8)) (proof : List Hash)
    (hacc : verifyConsistency H D₁.length D₂.length (mth H (D₁.map (hashLeaf H))) (mth H (D₂.map (hashLeaf H))) proof = .ok ())
    (hp32 : ∀ y ∈ proof, y.length = 32) : D₁ <+: D₂ ∨ Collision H := by
  rcases Poly.Proofs.MerkleCons.verifyConsistency_sound H hlen D₁ D₂ proof hacc hp32 with h | h
  · left; rw [h]; exact List.take_prefix _ _
  · exact Or.inr h

/-- For fixed sizes `0 < old ≤ new` and two DIFFERENT roots at most one consistency proof is accepted: any
altered, dropped, duplicated or extra proof hash makes verification fail, unless a collision is exhibited.
(With equal roots or old size 0 the verifier does not look at the proof, see `consistency_sound`.) -/
theorem consistency_proof_unique (hlen : HashLen H) (m n : Nat) (r₁ r₂ : Hash) (p p' : List Hash)
    (hne : r₁ ≠ r₂) (hm : m ≠ 0) (hr1 : r₁.length = 32)
    (hp : ∀ y ∈ p, y.length = 32) (hp' : ∀ y ∈ p', y.length = 32)
    (h1 : verifyConsistency H m n r₁ r₂ p = .ok ()) (h2 : verifyConsistency H m n r₁ r₂ p' = .ok ()) :
    p = p' ∨ Collision H :=
  Poly.Proofs.MerkleCons.verifyConsistency_unique H hlen m n r₁ r₂ p p' hne hm hr1 hp hp' h1 h2

/-- Two committed lists with the same RFC 6962 root are the same list (any sizes), or a collision. -/
theorem root_determines_list (hlen : HashLen H) (D₁ D₂ : List (List UInt8)) (h1 : D₁ ≠ []) (h2 : D₂ ≠ [])
    (h : mth H (D₁.map (hashLeaf H)) = mth H (D₂.map (hashLeaf H))) : D₁ = D₂ ∨ Collision H :=
  Poly.Proofs.MerkleCons.mth_data_inj H hlen D₁ D₂ h1 h2 h

/-- For a fixed `(index, size, root)` at most one `(leaf hash, proof)` pair is accepted: any alteration of a
proof hash or of the leaf of an accepted proof makes verification fail, unless a collision is exhibited.
(No committed list is needed for this statement.) -/
theorem inclusion_proof_unique (hlen : HashLen H) (lh lh' : Hash) (i n : Nat) (p p' : List Hash) (root : Hash)
    (h1 : verifyLeafHashInclusion H lh i p root n = .ok ()) (h2 : verifyLeafHashInclusion H lh' i p' root n = .ok ())
    (hl : lh.length = 32) (hl' : lh'.length = 32) (hp : ∀ y ∈ p, y.length = 32) (hp' : ∀ y ∈ p', y.length = 32) :
    (lh = lh' ∧ p = p') ∨ Collision H := by
  exact calcRoot_unique H hlen (n - 1) lh lh' i p p' root hl hl' hp hp'
    (verifyInclusion_calcRoot H lh i n p root h1) (verifyInclusion_calcRoot H lh' i n p' root h2)

/-- A proof of the wrong length for `(index, size)` is rejected outright: every accepted audit path has
exactly `audit_path_length(index, size)` hashes. -/
theorem proof_length_exact (lh : Hash) (i n : Nat) (p : List Hash) (root : Hash)
    (hacc : verifyLeafHashInclusion H lh i p root n = .ok ()) :
    p.length = auditPathLength i (n - 1) := by
  unfold verifyLeafHashInclusion at hacc
  split at hacc
  · simp at hacc
  · split at hacc
    · simp at hacc
    · rename_i r hr
      exact calcRoot_length H (n - 1) lh i p r hr

/-- A leaf can never be passed off as an interior node (0x00 / 0x01 domain separation): equality of a
leaf hash and an interior hash is itself a collision, the two preimages differ in their first byte. -/
theorem leaf_not_interior (d : List UInt8) (l r : Hash) (h : hashLeaf H d = hashChildren H l r) :
    Collision H := leaf_ne_node H h

/-- Two different records never share a leaf hash, short of a collision. -/
theorem leaf_hash_injective (d d' : List UInt8) (h : hashLeaf H d = hashLeaf H d') : d = d' ∨ Collision H :=
  hashLeaf_inj H h

/-- Satisfiable hypotheses: for the 32-byte "hash" `H x = pad(x)` and the committed records `[5], [6]`
the path generated by `MerkleLeafPath` is accepted for the root of the RFC 6962 tree over them. -/
example : ∃ (H : List UInt8 → List UInt8) (T : DTree) (path root value : List UInt8), HashLen H ∧
    merkleProve H path root = .ok value ∧ root = T.root H := by
  let H : List UInt8 → List UInt8 := fun x => (x ++ List.replicate 32 7).take 32
  have hlen : HashLen H := by intro x; simp [H]
  obtain ⟨p, _, hp⟩ := Poly.Proofs.MerkleServe.leafPath_verifies H hlen [5] [hashLeaf H [5], hashLeaf H [6]]
    (by simp) (by intro y hy; simp at hy; rcases hy with rfl | rfl <;> exact hlen _) (by simp [MAX_SIZE])
  exact ⟨H, rfcTree [[5], [6]], p, _, [5], hlen, hp, by rw [rfcTree_root H _ (by simp)]; rfl⟩

end Poly.Props.C07
