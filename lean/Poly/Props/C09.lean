import Poly.Proofs.KVPrefix
import Poly.Proofs.KVArena
/-!
# C09 — The in-memory write buffer behaves as an ordered map with tombstones

Model: `Poly.Model.KV` (`MemDB`, `Iter`, `bytesPrefix`) — `overlaydb.MemDB` at the abstraction of its level-0
node list; the order is `bytes.Compare` (`cmpB`/`ltB`).  A "history" is any list of writes `(key, value)`
applied to the empty buffer, where a delete is the write of the empty value (`MemDB.Delete = Put(key, nil)`).
All statements hold for every key, value, history and range; none is bounded.
-/
namespace Poly.Props.C09
open Poly.Model.KV

/-- The buffer reached from the empty buffer by a history of writes. -/
def run (ops : List (Key × Val)) : MemDB := ops.foldl (fun p o => p.put o.1 o.2) {}

private theorem run_wf_aux (p : MemDB) (hp : p.WF) (ops : List (Key × Val)) :
    (ops.foldl (fun p o => p.put o.1 o.2) p).WF := by
  induction ops generalizing p with
  | nil => exact hp
  | cons o r ih => exact ih _ (hp.put o.1 o.2)

private theorem put_ents (p : MemDB) (k : Key) (v : Val) : (p.put k v).ents = insert k v p.ents := by
  unfold MemDB.put; split <;> rfl

private theorem run_ents_aux (p : MemDB) (ops : List (Key × Val)) :
    (ops.foldl (fun p o => p.put o.1 o.2) p).ents = applyOps p.ents ops := by
  induction ops generalizing p with
  | nil => rfl
  | cons o r ih => simp only [List.foldl_cons, ih, put_ents, applyOps]

/-- Invariant: after any history the node list is strictly increasing in byte order (no duplicate key) and
`Len()`/`Size()` equal the number of nodes and the total key+value bytes. -/
theorem history_invariant (ops : List (Key × Val)) : (run ops).WF := run_wf_aux {} MemDB.WF.empty ops

/-- The invariant is preserved by every single `Put`/`Delete`, from any well-formed buffer. -/
theorem put_preserves_invariant (p : MemDB) (hp : p.WF) (k : Key) (v : Val) : (p.put k v).WF := hp.put k v

/-- A key reads back what was last put: a non-empty value is known, the empty value is a tombstone. -/
theorem put_get (p : MemDB) (k : Key) (v : Val) :
    (p.put k v).get k = if v = [] then Look.knownAbsent else Look.known v := by
  simp only [MemDB.get, Poly.Model.KV.get, put_ents, lookup_insert_self]
  cases v <;> simp

/-- A put does not change what any other key reads. -/
theorem put_get_other (p : MemDB) (k k' : Key) (v : Val) (h : k ≠ k') : (p.put k v).get k' = p.get k' := by
  simp only [MemDB.get, Poly.Model.KV.get, put_ents, lookup_insert_ne v p.ents h]

/-- Overwriting: only the last put to a key matters. -/
theorem put_put (p : MemDB) (hp : p.WF) (k : Key) (v₁ v₂ : Val) : (p.put k v₁).put k v₂ = p.put k v₂ := by
  apply MemDB.WF.ext ((hp.put k v₁).put k v₂) (hp.put k v₂)
  simp only [put_ents]
  apply sorted_ext (insert_sorted (insert_sorted hp.sorted)) (insert_sorted hp.sorted)
  intro k'; simp only [lookup_insert]; split <;> rfl

/-- Puts to different keys commute. -/
theorem put_comm (p : MemDB) (hp : p.WF) (k k' : Key) (v v' : Val) (h : k ≠ k') :
    (p.put k v).put k' v' = (p.put k' v').put k v := by
  apply MemDB.WF.ext ((hp.put k v).put k' v') ((hp.put k' v').put k v)
  simp only [put_ents]
  apply sorted_ext (insert_sorted (insert_sorted hp.sorted)) (insert_sorted (insert_sorted hp.sorted))
  intro x; simp only [lookup_insert]
  by_cases h1 : k = x <;> by_cases h2 : k' = x <;> simp [h1, h2]
  exact absurd (h1.trans h2.symm) h

/-- Delete is the put of the empty value, and a deleted key reads known-absent (not unknown). -/
theorem delete_is_tombstone (p : MemDB) (k : Key) :
    p.delete k = p.put k [] ∧ (p.delete k).get k = Look.knownAbsent := by
  refine ⟨rfl, ?_⟩
  have := put_get p k []; simpa [MemDB.delete] using this

/-- What a lookup answers after an arbitrary history: `unknown` iff the key was never written,
known-absent iff its last write was a delete (or an empty value), otherwise the last written value. -/
theorem get_after_history (ops : List (Key × Val)) (k : Key) :
    (run ops).get k =
      match lastWrite ops k with
      | none => Look.unknown
      | some [] => Look.knownAbsent
      | some (b :: v) => Look.known (b :: v) := by
  simp only [MemDB.get, Poly.Model.KV.get, run, run_ents_aux, lookup_applyOps]
  cases lastWrite ops k with
  | none => simp [lookup]
  | some v => rfl

/-- Known-absent and unknown are different answers: unknown means no node carries the key. -/
theorem unknown_iff_no_node (p : MemDB) (hp : p.WF) (k : Key) : p.get k = Look.unknown ↔ ∀ v, (k, v) ∉ p.ents := by
  simp only [MemDB.get, Poly.Model.KV.get]
  constructor
  · intro h v hv
    rw [(lookup_eq_some_iff hp.sorted).mpr hv] at h
    cases v <;> simp at h
  · intro h
    cases hl : lookup k p.ents with
    | none => rfl
    | some v => exact absurd ((lookup_eq_some_iff hp.sorted).mp hl) (h v)

/-- `ForEach`/an unbounded scan enumerates exactly the written keys, each once, in byte order, with the last
written value (tombstones included with the empty value). -/
theorem entries_are_last_writes (ops : List (Key × Val)) (k : Key) (v : Val) :
    (k, v) ∈ (run ops).ents ↔ lastWrite ops k = some v := by
  rw [← lookup_eq_some_iff (history_invariant ops).sorted]
  simp only [run, run_ents_aux, lookup_applyOps]
  cases lastWrite ops k <;> simp [lookup]

/-- Forward scan (First, then Next until it returns false) of any range: exactly the nodes whose key is in
`[start, limit)` (nil bound = unbounded), in ascending byte order. -/
theorem scan_forward (p : MemDB) (hp : p.WF) (s : Option Range) :
    scanFwd s p.ents = p.ents.filter (fun e => inSlice s e.1) := scanFwd_eq s hp.sorted

/-- Backward scan (Last, then Prev): the same nodes in descending order. -/
theorem scan_backward (p : MemDB) (hp : p.WF) (s : Option Range) :
    scanBwd s p.ents = (p.ents.filter (fun e => inSlice s e.1)).reverse := scanBwd_eq s hp.sorted

/-- The result of a scan is sorted, so "in byte order" is literal. -/
theorem scan_sorted (p : MemDB) (hp : p.WF) (s : Option Range) : Sorted (scanFwd s p.ents) := by
  rw [scan_forward p hp s]; exact Sorted.sublist List.filter_sublist hp.sorted

/-- `Next` on a forward cursor moves to the next in-range node and reports whether there is one; on an
exhausted forward cursor it stays exhausted. -/
theorem next_steps (p : MemDB) (hp : p.WF) (it : Iter) (e : Key × Val) (l : Entries) (h : FwdAt p.ents it (e :: l)) :
    FwdAt p.ents (it.next p.ents).1 l ∧ (it.next p.ents).2 = !l.isEmpty ∧ (it.next p.ents).1.cur = l.head? := by
  have := next_fwd hp.sorted h
  exact ⟨this.1, this.2, this.1.cur⟩

theorem next_exhausted (m : Entries) (it : Iter) (h : FwdAt m it []) : it.next m = (it, false) := next_fwd_nil h

/-- `Prev` on a backward cursor, symmetrically. -/
theorem prev_steps (p : MemDB) (hp : p.WF) (it : Iter) (e : Key × Val) (l : Entries) (h : BwdAt p.ents it (e :: l)) :
    BwdAt p.ents (it.prev p.ents).1 l ∧ (it.prev p.ents).2 = !l.isEmpty ∧ (it.prev p.ents).1.cur = l.head? := by
  have := prev_bwd hp.sorted h
  exact ⟨this.1, this.2, this.1.cur⟩

/-- `First`/`Last` position a fresh iterator on the first/last in-range node. -/
theorem first_last_spec (p : MemDB) (hp : p.WF) (s : Option Range) :
    ((Iter.new s).first p.ents).1.cur = (p.ents.filter (fun e => inSlice s e.1)).head? ∧
    ((Iter.new s).last p.ents).1.cur = (p.ents.filter (fun e => inSlice s e.1)).getLast? := by
  refine ⟨(first_fwd s hp.sorted).1.cur, ?_⟩
  rw [(last_bwd s hp.sorted).1.cur, List.head?_reverse]

/-- `Seek(k)` positions on the first in-range node with key ≥ `k`, and the cursor continues from there. -/
theorem seek_spec (p : MemDB) (hp : p.WF) (s : Option Range) (k : Key) :
    ((Iter.new s).seek p.ents k).1.cur = (p.ents.filter (fun e => !(ltB e.1 k) && inSlice s e.1)).head? ∧
    FwdAt p.ents ((Iter.new s).seek p.ents k).1 (p.ents.filter (fun e => !(ltB e.1 k) && inSlice s e.1)) :=
  ⟨(seek_fwd s k hp.sorted).1.cur, (seek_fwd s k hp.sorted).1⟩

/-- goleveldb `util.BytesPrefix(p)` bounds exactly the keys that have prefix `p` — including empty and
all-0xFF prefixes, where the limit is nil. -/
theorem bytesPrefix_spec (pfx k : Key) : (bytesPrefix pfx).contains k = true ↔ pfx <+: k :=
  bytesPrefix_contains pfx k

/-- A prefix scan returns exactly the nodes whose key has the prefix. -/
theorem prefix_scan (p : MemDB) (hp : p.WF) (pfx : Key) :
    scanFwd (some (bytesPrefix pfx)) p.ents = p.ents.filter (fun e => decide (pfx <+: e.1)) := by
  rw [scan_forward p hp]
  congr 1; funext e
  simp only [inSlice]
  rw [Bool.eq_iff_iff, bytesPrefix_spec]; simp

/-- Reset empties the buffer: every key is unknown and every scan is empty. -/
theorem reset_empty (p : MemDB) (k : Key) (s : Option Range) :
    p.reset = {} ∧ p.reset.get k = Look.unknown ∧ scanFwd s p.reset.ents = [] ∧ scanBwd s p.reset.ents = [] ∧
    p.reset.n = 0 ∧ p.reset.kvSize = 0 := by
  refine ⟨rfl, rfl, ?_, ?_, rfl, rfl⟩
  · show scanFwd s [] = []; rw [scanFwd_eq s Sorted.nil]; rfl
  · show scanBwd s [] = []; rw [scanBwd_eq s Sorted.nil]; rfl

/-- A released iterator fails every positioning call and records the error. -/
theorem released_iter_fails (it : Iter) (m : Entries) (k : Key) (h : it.released = true) :
    (it.first m).2 = false ∧ (it.last m).2 = false ∧ (it.next m).2 = false ∧ (it.prev m).2 = false ∧
    (it.seek m k).2 = false ∧ (it.first m).1.err = true := by
  simp [Iter.first, Iter.last, Iter.next, Iter.prev, Iter.seek, h]

/-! ### The arenas (kvData / nodeData, level 0) refine the node list

`Arena` (Poly.Model.KVArena) is the concrete representation: byte arena, integer arena with node records
`[kv offset, key length, value length, height, next pointers…]`, overwrite in place that re-appends key and value
when the new value is non-empty, `n`/`kvSize` maintained incrementally.  `AInv a ps` says the arenas are well
formed with level-0 chain `ps`.  Node heights are an arbitrary argument (`h`) of every `put`. -/

/-- The arenas reached by any history of writes, with any height oracle. -/
def runArena (ops : List (Key × Val × Nat)) : Arena := ops.foldl (fun a o => a.put o.1 o.2.1 o.2.2) {}

/-- Refinement step: on well-formed arenas one `Put` — whatever height the oracle supplies — is exactly one `put`
of the node-list model (same entries in the same order, same `Len`, same `Size`), and well-formedness is kept. -/
theorem arena_refines_step (a : Arena) (ps : List Nat) (hi : AInv a ps) (k : Key) (v : Val) (h : Nat) :
    (∃ ps', AInv (a.put k v h) ps') ∧ (a.put k v h).toMemDB = a.toMemDB.put k v := by
  obtain ⟨ps', h1, h2⟩ := arena_put_refines hi k v h
  exact ⟨⟨ps', h1⟩, h2⟩

/-- Refinement over histories: for every sequence of writes and every height oracle, the arenas stay well formed
and abstract to the node-list buffer reached by the same writes (`run`). -/
theorem arena_refines_omap (ops : List (Key × Val × Nat)) :
    (∃ ps, AInv (runArena ops) ps) ∧ (runArena ops).toMemDB = run (ops.map fun o => (o.1, o.2.1)) := by
  have gen : ∀ (ops : List (Key × Val × Nat)) (a : Arena) (ps : List Nat), AInv a ps →
      (∃ ps', AInv (ops.foldl (fun a o => a.put o.1 o.2.1 o.2.2) a) ps') ∧
      (ops.foldl (fun a o => a.put o.1 o.2.1 o.2.2) a).toMemDB =
        (ops.map fun o => (o.1, o.2.1)).foldl (fun p o => p.put o.1 o.2) a.toMemDB := by
    intro ops
    induction ops with
    | nil => intro a ps hi; exact ⟨⟨ps, hi⟩, rfl⟩
    | cons o r ih =>
      intro a ps hi
      obtain ⟨ps', h1, h2⟩ := arena_put_refines hi o.1 o.2.1 o.2.2
      have := ih _ ps' h1
      simp only [List.foldl_cons, List.map_cons]
      rw [← h2]; exact this
  have := gen ops {} [] AInv.empty
  exact ⟨this.1, this.2⟩

/-- `Get` on well-formed arenas answers exactly like the node-list model. -/
theorem arena_get_refines_omap (a : Arena) (ps : List Nat) (hi : AInv a ps) (k : Key) : a.get k = a.toMemDB.get k :=
  arena_get_refines hi k

/-- Following a node's level-0 pointer (what `dbIter.Next` and `ForEach` do) reaches the node holding the first
entry with a greater key — the `succ` of the node-list model; the last node points to 0. -/
theorem arena_next_pointer_is_succ (a : Arena) (ps pre post : List Nat) (p : Nat) (hi : AInv a ps)
    (hs : ps = pre ++ p :: post) :
    post.head?.map a.read = succ (a.keyAt p) a.entries ∧ a.next0 p = (match post with | [] => 0 | q :: _ => q) :=
  arena_next_is_succ hi hs

/-- Non-vacuity of the arena model: overwrite with a non-empty value re-appends the key, with the empty value
keeps the old offset; offsets follow the heights. -/
example :
    let a := runArena [([0x62], [1], 2), ([0x61], [2, 3], 1), ([0x62], [9], 7), ([0x61], [], 5)]
    a.kv = [0x62, 1, 0x61, 2, 3, 0x62, 9] ∧ a.nd.length = 16 + 6 + 5 ∧ a.n = 2 ∧ a.kvSize = 3 ∧
    a.entries = [([0x61], []), ([0x62], [9])] ∧ a.chain a.nd.length 0 = [22, 16] ∧ a.cell 16 = 5 ∧ a.cell 22 = 2 := by
  decide

/-! Non-vacuity: a concrete history with overwrite, delete and prefix-related keys. -/
example :
    let ops : List (Key × Val) := [([0x61], [1]), ([], [2]), ([0x61, 0x62], [3]), ([0x61], []), ([0xff], [4])]
    (run ops).ents = [([], [2]), ([0x61], []), ([0x61, 0x62], [3]), ([0xff], [4])] ∧
    (run ops).get [0x61] = Look.knownAbsent ∧ (run ops).get [0x62] = Look.unknown ∧
    scanFwd (some (bytesPrefix [0x61])) (run ops).ents = [([0x61], []), ([0x61, 0x62], [3])] ∧
    scanBwd (some (bytesPrefix [0xff])) (run ops).ents = [([0xff], [4])] ∧ (run ops).n = 4 ∧ (run ops).kvSize = 7 := by
  decide

end Poly.Props.C09
