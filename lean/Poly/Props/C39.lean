import Poly.Proofs.Sig

/-!
# C39 — Transaction signature validation is exact

Property theorems only. The model (`Poly.Model.Sig`) mirrors checkTransactionSignatures, signature.Verify and
signature.VerifyMultiSignature; the signature schemes (`wf` = the bytes decode, `verify` = the scheme accepts the
transaction hash under a key) and the address functions are parameters: every theorem holds for all of them.
"m distinct listed keys" is read as m distinct positions of the entry's key list.
-/
namespace Poly.Props.C39
open Poly.Model.Sig Poly.Proofs.Sig

variable {K S A : Type} (wf : S → Bool) (verify : K → S → Bool) (addr1 : K → A) (addrM : List K → Nat → A)

/-- Soundness: if validation passes, every entry is a valid single-key signature (one listed key, m = 1, the first
    signature decodes and verifies under it) or an m-of-n entry whose first m signatures decode and verify under m
    pairwise different key positions (`ps` without duplicates assigns a position to each). -/
theorem sig_sound (entries : List (Entry K S)) (addrs : List A)
    (h : checkTransactionSignatures wf verify addr1 addrM entries = .ok addrs) :
    ∀ e ∈ entries,
      (∃ k s rest, e.keys = [k] ∧ e.sigs = s :: rest ∧ e.m = 1 ∧ wf s = true ∧ verify k s = true) ∨
      (2 ≤ e.keys.length ∧ ∃ ps : List Nat, ps.length = e.m ∧ ps.Nodup ∧
        ∀ x ∈ ps.zip (e.sigs.take e.m), ∃ k, e.keys[x.1]? = some k ∧ wf x.2 = true ∧ verify k x.2 = true) := by
  unfold checkTransactionSignatures at h
  split at h; · simp at h
  obtain ⟨hall, _⟩ := checkEntries_sound wf verify addr1 addrM entries addrs h
  intro e he
  obtain ⟨h1, hm, h3, h2, hc⟩ := hall e he
  rcases hc with ⟨k, s, rest, hk, hs, hw, hv⟩ | ⟨hlen, ps, hN, hA⟩
  · left
    refine ⟨k, s, rest, hk, hs, ?_, hw, hv⟩
    rw [hk] at h3; simp at h3; omega
  · right
    refine ⟨by omega, ps, ?_, hN, hA.2⟩
    rw [hA.1, List.length_take]; omega

/-- Limits: a passing transaction has at most 16 entries, every entry has at most 16 keys, 1 <= m <= n and at
    least m signatures. -/
theorem limits_enforced (entries : List (Entry K S)) (addrs : List A)
    (h : checkTransactionSignatures wf verify addr1 addrM entries = .ok addrs) :
    entries.length ≤ TX_MAX_SIG_SIZE ∧
      ∀ e ∈ entries, e.keys.length ≤ MULTI_SIG_MAX_PUBKEY_SIZE ∧ 1 ≤ e.m ∧ e.m ≤ e.keys.length ∧ e.m ≤ e.sigs.length := by
  unfold checkTransactionSignatures at h
  split at h; · simp at h
  rename_i hl
  obtain ⟨hall, _⟩ := checkEntries_sound wf verify addr1 addrM entries addrs h
  refine ⟨by omega, ?_⟩
  intro e he
  obtain ⟨h1, hm, h3, h2, _⟩ := hall e he
  exact ⟨h1, hm, h3, h2⟩

/-- Completeness: a transaction within the limits all of whose entries are valid (in the sense of `sig_sound`)
    passes, provided each of the first m signatures of an entry verifies under at most one of its key positions
    (which the greedy left-to-right matching of VerifyMultiSignature needs). -/
theorem sig_complete (entries : List (Entry K S)) (hl : entries.length ≤ TX_MAX_SIG_SIZE)
    (hv : ∀ e ∈ entries, EntryOK wf verify e)
    (hu : ∀ e ∈ entries, ∀ s ∈ e.sigs.take e.m, ∀ q q' (hq : q < e.keys.length) (hq' : q' < e.keys.length),
      verify e.keys[q] s = true → verify e.keys[q'] s = true → q = q') :
    ∃ addrs, checkTransactionSignatures wf verify addr1 addrM entries = .ok addrs := by
  refine ⟨entries.map (entryAddr addr1 addrM), ?_⟩
  unfold checkTransactionSignatures
  rw [if_neg (by omega)]
  exact checkEntries_complete wf verify addr1 addrM entries (fun e he => ⟨hv e he, hu e he⟩)

/-- Completeness for key lists that repeat a key: it suffices that none of the first m signatures verifies under two
    DIFFERENT listed keys (it may verify under several positions listing the same key) — the assumption every
    signature scheme is built to meet. Proof: exchange argument on the greedy scan. -/
theorem sig_complete_repeated_keys [DecidableEq K] (entries : List (Entry K S)) (hl : entries.length ≤ TX_MAX_SIG_SIZE)
    (hv : ∀ e ∈ entries, EntryOK wf verify e)
    (hu : ∀ e ∈ entries, ∀ s ∈ e.sigs.take e.m, ∀ q q' (hq : q < e.keys.length) (hq' : q' < e.keys.length),
      verify e.keys[q] s = true → verify e.keys[q'] s = true → e.keys[q] = e.keys[q']) :
    ∃ addrs, checkTransactionSignatures wf verify addr1 addrM entries = .ok addrs := by
  refine ⟨entries.map (entryAddr addr1 addrM), ?_⟩
  unfold checkTransactionSignatures
  rw [if_neg (by omega)]
  exact checkEntries_complete' wf verify addr1 addrM entries (fun e he => ⟨hv e he, hu e he⟩)

/-- The signer addresses attributed to the transaction (the key set of the Go map, i.e. `dedup`) are exactly the
    addresses of the entries: the single key's address for a one-key entry, the (keys, m) program address otherwise;
    each appears once. -/
theorem signers_exact [DecidableEq A] (entries : List (Entry K S)) (addrs : List A)
    (h : checkTransactionSignatures wf verify addr1 addrM entries = .ok addrs) :
    (∀ a, a ∈ dedup addrs ↔ ∃ e ∈ entries, entryAddr addr1 addrM e = a) ∧ (dedup addrs).Nodup := by
  unfold checkTransactionSignatures at h
  split at h; · simp at h
  obtain ⟨_, hmap⟩ := checkEntries_sound wf verify addr1 addrM entries addrs h
  refine ⟨?_, nodup_dedup _⟩
  intro a
  rw [mem_dedup, hmap, List.mem_map]

/-! ## Non-vacuity (tests by evaluation): keys and signatures are numbers, signature s verifies under key k iff s = k+100 -/

private def wfT : Nat → Bool := fun s => s != 0
private def vT : Nat → Nat → Bool := fun k s => s == k + 100

private theorem fk (keys : List Nat) (used : List Nat) (s j : Nat) :
    findKey vT keys used s j =
      if h : j < keys.length then
        if used.contains j then findKey vT keys used s (j + 1)
        else if vT keys[j] s then some j else findKey vT keys used s (j + 1)
      else none := by rw [findKey]

/-- a passing 2-of-3 entry plus a single-key entry (the hypotheses of `sig_sound`, `limits_enforced`,
    `signers_exact` are satisfiable) -/
example : checkTransactionSignatures wfT vT (fun k => [k]) (fun ks m => m :: ks)
      [⟨[1, 2, 3], 2, [103, 101]⟩, ⟨[7], 1, [107, 5]⟩] = .ok [[2, 1, 2, 3], [7]] := by
  simp [checkTransactionSignatures, checkEntries, checkEntry, verifyMultiSignature, multiLoop, fk, wfT, vT,
    TX_MAX_SIG_SIZE, MULTI_SIG_MAX_PUBKEY_SIZE]

/-- a reused signature is refused: the second copy finds position 2 already taken -/
example : checkTransactionSignatures wfT vT (fun k => [k]) (fun ks m => m :: ks)
      [⟨[1, 2, 3], 2, [103, 103]⟩] = .error .multiFailed := by
  simp [checkTransactionSignatures, checkEntries, checkEntry, verifyMultiSignature, multiLoop, fk, wfT, vT,
    TX_MAX_SIG_SIZE, MULTI_SIG_MAX_PUBKEY_SIZE]

/-- a 17-key entry is refused -/
example : checkTransactionSignatures wfT vT (fun k => [k]) (fun ks m => m :: ks)
      [⟨List.range 17, 1, [100]⟩] = .error .wrongParam := by
  simp [checkTransactionSignatures, checkEntries, checkEntry, TX_MAX_SIG_SIZE, MULTI_SIG_MAX_PUBKEY_SIZE]

end Poly.Props.C39
