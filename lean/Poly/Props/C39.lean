import Poly.Proofs.Sig
import Poly.Proofs.SigAddr

/-!
# C39 — Transaction signature validation is exact

Property theorems only. The model (`Poly.Model.Sig`) mirrors checkTransactionSignatures, signature.Verify and
signature.VerifyMultiSignature; the signature schemes (`wf` = the bytes decode, `verify` = the scheme accepts the
transaction hash under a key) and the address functions are parameters: every theorem holds for all of them.
"m distinct listed keys" is read as m distinct positions of the entry's key list.
-/
namespace Poly.Props.C39
open Poly.Model.Sig Poly.Proofs.Sig

variable {K S A : Type} (wf : S → Bool) (verify : K → S → Bool) (addr1 : K → A) (addrM : List K → Nat → A)

/-- Soundness: if validation passes, every entry is a valid single-key signature (one listed key, m = 1, the first
    signature decodes and verifies under it) or an m-of-n entry whose first m signatures decode and verify under m
    pairwise different key positions (`ps` without duplicates assigns a position to each). -/
theorem sig_sound (entries : List (Entry K S)) (addrs : List A)
    (h : checkTransactionSignatures wf verify addr1 addrM entries = .ok addrs) :
    ∀ e ∈ entries,
      (∃ k s rest, e.keys = [k] ∧ e.sigs = s :: rest ∧ e.m = 1 ∧ wf s = true ∧ verify k s = true) ∨
      (2 ≤ e.keys.length ∧ ∃ ps : List Nat, ps.length = e.m ∧ ps.Nodup ∧
        ∀ x ∈ ps.zip (e.sigs.take e.m), ∃ k, e.keys[x.1]? = some k ∧ wf x.2 = true ∧ verify k x.2 = true) := by
  unfold checkTransactionSignatures at h
  split at h; · simp at h
  obtain ⟨hall, _⟩ := checkEntries_sound wf verify addr1 addrM entries addrs h
  intro e he
  obtain ⟨h1, hm, h3, h2, hc⟩ := hall e he
  rcases hc with ⟨k, s, rest, hk, hs, hw, hv⟩ | ⟨hlen, ps, hN, hA⟩
  · left
    refine ⟨k, s, rest, hk, hs, ?_, hw, hv⟩
    rw [hk] at h3; simp at h3; omega
  · right
    refine ⟨by omega, ps, ?_, hN, hA.2⟩
    rw [hA.1, List.length_take]; omega

/-- Limits: a passing transaction has at most 16 entries, every entry has at most 16 keys, 1 <= m <= n and at
    least m signatures. -/
theorem limits_enforced (entries : List (Entry K S)) (addrs : List A)
    (h : checkTransactionSignatures wf verify addr1 addrM entries = .ok addrs) :
    entries.length ≤ TX_MAX_SIG_SIZE ∧
      ∀ e ∈ entries, e.keys.length ≤ MULTI_SIG_MAX_PUBKEY_SIZE ∧ 1 ≤ e.m ∧ e.m ≤ e.keys.length ∧ e.m ≤ e.sigs.length := by
  unfold checkTransactionSignatures at h
  split at h; · simp at h
  rename_i hl
  obtain ⟨hall, _⟩ := checkEntries_sound wf verify addr1 addrM entries addrs h
  refine ⟨by omega, ?_⟩
  intro e he
  obtain ⟨h1, hm, h3, h2, _⟩ := hall e he
  exact ⟨h1, hm, h3, h2⟩

/-- Completeness: a transaction within the limits all of whose entries are valid (in the sense of `sig_sound`)
    passes, provided each of the first m signatures of an entry verifies under at most one of its key positions
    (which the greedy left-to-right matching of VerifyMultiSignature needs). -/
theorem sig_complete (entries : List (Entry K S)) (hl : entries.length ≤ TX_MAX_SIG_SIZE)
    (hv : ∀ e ∈ entries, EntryOK wf verify e)
    (hu : ∀ e ∈ entries, ∀ s ∈ e.sigs.take e.m, ∀ q q' (hq : q < e.keys.length) (hq' : q' < e.keys.length),
      verify e.keys[q] s = true → verify e.keys[q'] s = true → q = q') :
    ∃ addrs, checkTransactionSignatures wf verify addr1 addrM entries = .ok addrs := by
  refine ⟨entries.map (entryAddr addr1 addrM), ?_⟩
  unfold checkTransactionSignatures
  rw [if_neg (by omega)]
  exact checkEntries_complete wf verify addr1 addrM entries (fun e he => ⟨hv e he, hu e he⟩)

/-- Completeness for key lists that repeat a key: it suffices that none of the first m signatures verifies under two
    DIFFERENT listed keys (it may verify under several positions listing the same key) — the assumption every
    signature scheme is built to meet. Proof: exchange argument on the greedy scan. -/
theorem sig_complete_repeated_keys [DecidableEq K] (entries : List (Entry K S)) (hl : entries.length ≤ TX_MAX_SIG_SIZE)
    (hv : ∀ e ∈ entries, EntryOK wf verify e)
    (hu : ∀ e ∈ entries, ∀ s ∈ e.sigs.take e.m, ∀ q q' (hq : q < e.keys.length) (hq' : q' < e.keys.length),
      verify e.keys[q] s = true → verify e.keys[q'] s = true → e.keys[q] = e.keys[q']) :
    ∃ addrs, checkTransactionSignatures wf verify addr1 addrM entries = .ok addrs := by
  refine ⟨entries.map (entryAddr addr1 addrM), ?_⟩
  unfold checkTransactionSignatures
  rw [if_neg (by omega)]
  exact checkEntries_complete' wf verify addr1 addrM entries (fun e he => ⟨hv e he, hu e he⟩)

/-- The signer addresses attributed to the transaction (the key set of the Go map, i.e. `dedup`) are exactly the
    addresses of the entries: the single key's address for a one-key entry, the (keys, m) program address otherwise;
    each appears once. -/
theorem signers_exact [DecidableEq A] (entries : List (Entry K S)) (addrs : List A)
    (h : checkTransactionSignatures wf verify addr1 addrM entries = .ok addrs) :
    (∀ a, a ∈ dedup addrs ↔ ∃ e ∈ entries, entryAddr addr1 addrM e = a) ∧ (dedup addrs).Nodup := by
  unfold checkTransactionSignatures at h
  split at h; · simp at h
  obtain ⟨_, hmap⟩ := checkEntries_sound wf verify addr1 addrM entries addrs h
  refine ⟨?_, nodup_dedup _⟩
  intro a
  rw [mem_dedup, hmap, List.mem_map]

/-! ## Byte-level address derivation (`Poly.Model.SigAddr`): program encoding, key sorting, hash as a parameter -/

section Address
open Poly.Model.SigAddr Poly.Proofs.SigAddr
variable {K' : Type} (ser : K' → Bytes) (ord : K' → Ord) (H : Bytes → Bytes)

/-- The address of a multi-key entry depends on the keys only through their sorted sequence: listing the same keys
    in another order gives the same program bytes and the same address (keys that SortPublicKeys cannot tell apart
    serialize identically — they are the same key). -/
theorem addr_depends_on_sorted_keys (hser : ∀ a b, ord a = ord b → ser a = ser b) (k₁ k₂ : List K') (h : k₁.Perm k₂)
    (m : Nat) :
    encodeMulti ser ord k₁ m = encodeMulti ser ord k₂ m ∧
      addressFromMultiPubKeys ser ord H k₁ m = addressFromMultiPubKeys ser ord H k₂ m := by
  refine ⟨encodeMulti_perm ser ord hser k₁ k₂ h m, ?_⟩
  unfold addressFromMultiPubKeys
  rw [encodeMulti_perm ser ord hser k₁ k₂ h]

/-- Injectivity of the program encoding: two entries with the same program bytes have the same m and the same sorted
    sequence of serialized keys; hence two entries with the same address have that, or the hash collides on two
    different programs. (Key serializations are shorter than 0xFD bytes: 33 to 69 bytes for the supported types.) -/
theorem program_injective_address_or_collision (k₁ k₂ : List K') (m₁ m₂ : Nat) (p₁ p₂ : Bytes)
    (hs₁ : ∀ k ∈ k₁, (ser k).length < 0xFD) (hs₂ : ∀ k ∈ k₂, (ser k).length < 0xFD)
    (hm₁ : m₁ < 65536) (hm₂ : m₂ < 65536)
    (e₁ : encodeMulti ser ord k₁ m₁ = some p₁) (e₂ : encodeMulti ser ord k₂ m₂ = some p₂) :
    (p₁ = p₂ → m₁ = m₂ ∧ (sortKeys ord k₁).map ser = (sortKeys ord k₂).map ser) ∧
    (addressFromMultiPubKeys ser ord H k₁ m₁ = addressFromMultiPubKeys ser ord H k₂ m₂ →
      (m₁ = m₂ ∧ (sortKeys ord k₁).map ser = (sortKeys ord k₂).map ser) ∨ ∃ x y, x ≠ y ∧ H x = H y) := by
  have inj : p₁ = p₂ → m₁ = m₂ ∧ (sortKeys ord k₁).map ser = (sortKeys ord k₂).map ser := by
    intro hp; subst hp
    exact encodeMulti_inj ser ord k₁ k₂ m₁ m₂ p₁ hs₁ hs₂ hm₁ hm₂ e₁ e₂
  refine ⟨inj, ?_⟩
  intro ha
  unfold addressFromMultiPubKeys at ha
  rw [Nat.mod_eq_of_lt hm₁, Nat.mod_eq_of_lt hm₂, e₁, e₂] at ha
  by_cases hp : p₁ = p₂
  · exact Or.inl (inj hp)
  · exact Or.inr ⟨p₁, p₂, hp, ha⟩

/-- What the swallowed encoder error means: AddressFromMultiPubKeys answers the empty (all-zero) address, with a nil
    error, exactly when the parameters are out of range after the uint16 conversion of m — more than 16 keys, fewer
    than 2 keys, m = 0 (mod 65536) or m > n. In particular AddressFromBookkeepers of 17 or more keys is the empty
    address. -/
theorem swallowed_error_gives_empty_address (keys : List K') (m : Nat)
    (h : ¬(1 ≤ m % 65536 ∧ m % 65536 ≤ keys.length ∧ 1 < keys.length ∧ keys.length ≤ 16)) :
    addressFromMultiPubKeys ser ord H keys m = ADDRESS_EMPTY := by
  unfold addressFromMultiPubKeys encodeMulti
  have h' : ¬(1 ≤ m % 65536 ∧ m % 65536 ≤ keys.length ∧ 1 < keys.length ∧
      keys.length ≤ Poly.Model.SigAddr.MULTI_SIG_MAX_PUBKEY_SIZE) := h
  simp only [if_neg h']

theorem bookkeepers_above_16_get_empty_address (keys : List K') (h : 16 < keys.length) :
    addressFromBookkeepers ser ord H keys = ADDRESS_EMPTY := by
  unfold addressFromBookkeepers
  split
  · simp at h
  · exact swallowed_error_gives_empty_address ser ord H keys _ (by omega)

end Address

/-- The swallowed error is unreachable from transaction validation: for every entry of a passing transaction that
    takes the multi-key path the program encoding is defined (2 <= n <= 16, 1 <= m <= n), so its address is the hash
    of a well-formed program, never the empty-address fallback. -/
theorem validated_entries_have_programs {K' : Type} (ser : K' → Poly.Model.SigAddr.Bytes) (ord : K' → Poly.Model.SigAddr.Ord)
    (wf' : S → Bool) (verify' : K' → S → Bool) (addr1' : K' → A) (addrM' : List K' → Nat → A)
    (entries : List (Entry K' S)) (addrs : List A)
    (h : checkTransactionSignatures wf' verify' addr1' addrM' entries = .ok addrs) :
    ∀ e ∈ entries, e.keys.length ≠ 1 →
      ∃ p, Poly.Model.SigAddr.encodeMulti ser ord e.keys (e.m % 65536) = some p := by
  intro e he hne
  obtain ⟨_, hl⟩ := limits_enforced wf' verify' addr1' addrM' entries addrs h
  obtain ⟨h1, h2, h3, _⟩ := hl e he
  simp only [MULTI_SIG_MAX_PUBKEY_SIZE] at h1
  have hm : e.m % 65536 = e.m := Nat.mod_eq_of_lt (by omega)
  unfold Poly.Model.SigAddr.encodeMulti
  simp only [Poly.Model.SigAddr.MULTI_SIG_MAX_PUBKEY_SIZE, hm]
  rw [if_pos ⟨h2, h3, by omega, h1⟩]
  exact ⟨_, rfl⟩

/-! ## Non-vacuity (tests by evaluation): keys and signatures are numbers, signature s verifies under key k iff s = k+100 -/

private def wfT : Nat → Bool := fun s => s != 0
private def vT : Nat → Nat → Bool := fun k s => s == k + 100

private theorem fk (keys : List Nat) (used : List Nat) (s j : Nat) :
    findKey vT keys used s j =
      if h : j < keys.length then
        if used.contains j then findKey vT keys used s (j + 1)
        else if vT keys[j] s then some j else findKey vT keys used s (j + 1)
      else none := by rw [findKey]

/-- a passing 2-of-3 entry plus a single-key entry (the hypotheses of `sig_sound`, `limits_enforced`,
    `signers_exact` are satisfiable) -/
example : checkTransactionSignatures wfT vT (fun k => [k]) (fun ks m => m :: ks)
      [⟨[1, 2, 3], 2, [103, 101]⟩, ⟨[7], 1, [107, 5]⟩] = .ok [[2, 1, 2, 3], [7]] := by
  simp [checkTransactionSignatures, checkEntries, checkEntry, verifyMultiSignature, multiLoop, fk, wfT, vT,
    TX_MAX_SIG_SIZE, MULTI_SIG_MAX_PUBKEY_SIZE]

/-- a reused signature is refused: the second copy finds position 2 already taken -/
example : checkTransactionSignatures wfT vT (fun k => [k]) (fun ks m => m :: ks)
      [⟨[1, 2, 3], 2, [103, 103]⟩] = .error .multiFailed := by
  simp [checkTransactionSignatures, checkEntries, checkEntry, verifyMultiSignature, multiLoop, fk, wfT, vT,
    TX_MAX_SIG_SIZE, MULTI_SIG_MAX_PUBKEY_SIZE]

/-- a 17-key entry is refused -/
example : checkTransactionSignatures wfT vT (fun k => [k]) (fun ks m => m :: ks)
      [⟨List.range 17, 1, [100]⟩] = .error .wrongParam := by
  simp [checkTransactionSignatures, checkEntries, checkEntry, TX_MAX_SIG_SIZE, MULTI_SIG_MAX_PUBKEY_SIZE]

end Poly.Props.C39
