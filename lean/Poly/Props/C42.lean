import Poly.Spec.Quorum
import Poly.Model.Quorum
import Poly.Generated.Thresholds
import Mathlib.Data.Finset.Card
import Mathlib.Data.Finset.Dedup
import Poly.Props.C14

/-!
# C42 — Quorum thresholds guarantee intersection

Property theorems only. `Poly.Generated.Thresholds` is regenerated from /repo's Go source on every run
(extract/thresholds), so the `impl_*` theorems are re-checked against what the code says now.
-/
namespace Poly.Props.C42
open Poly.Spec.Quorum
open Poly.Generated.Thresholds

/-- `(2N+2)/3` is the ceiling of 2N/3 for every N. -/
theorem thrG_eq_ceil (N : Nat) : IsCeilTwoThirds N (thrG N) := by
  unfold IsCeilTwoThirds thrG
  constructor
  · omega
  · intro j hj; omega

/-- Two sets meeting the block-acceptance threshold share more than f validators (every N ≥ 1). -/
theorem intersect_A {α : Type} [DecidableEq α] (V A B : Finset α) (hA : A ⊆ V) (hB : B ⊆ V)
    (hN : 1 ≤ V.card) (ha : thrA V.card ≤ A.card) (hb : thrA V.card ≤ B.card) :
    f V.card < (A ∩ B).card := by
  have h1 := Finset.card_union_add_card_inter A B
  have h2 : (A ∪ B).card ≤ V.card := Finset.card_le_card (Finset.union_subset hA hB)
  unfold thrA at ha hb; unfold f
  omega

/-- Two sets meeting the governance threshold share more than f validators (every N ≥ 1). -/
theorem intersect_G {α : Type} [DecidableEq α] (V A B : Finset α) (hA : A ⊆ V) (hB : B ⊆ V)
    (hN : 1 ≤ V.card) (ha : thrG V.card ≤ A.card) (hb : thrG V.card ≤ B.card) :
    f V.card < (A ∩ B).card := by
  have h1 := Finset.card_union_add_card_inter A B
  have h2 : (A ∪ B).card ≤ V.card := Finset.card_le_card (Finset.union_subset hA hB)
  unfold thrG at ha hb; unfold f
  omega

/-- Mixed: one block-acceptance quorum and one governance quorum also share more than f validators. -/
theorem intersect_AG {α : Type} [DecidableEq α] (V A B : Finset α) (hA : A ⊆ V) (hB : B ⊆ V)
    (hN : 1 ≤ V.card) (ha : thrA V.card ≤ A.card) (hb : thrG V.card ≤ B.card) :
    f V.card < (A ∩ B).card := by
  have h1 := Finset.card_union_add_card_inter A B
  have h2 : (A ∪ B).card ≤ V.card := Finset.card_le_card (Finset.union_subset hA hB)
  unfold thrA at ha; unfold thrG at hb; unfold f
  omega

/-- Conflicting decisions: if two quorums approve different things, more than f validators approved both. -/
theorem conflicting_needs_more_than_f {α : Type} [DecidableEq α] (V A B : Finset α) (hA : A ⊆ V) (hB : B ⊆ V)
    (hN : 1 ≤ V.card)
    (ha : thrA V.card ≤ A.card ∨ thrG V.card ≤ A.card) (hb : thrA V.card ≤ B.card ∨ thrG V.card ≤ B.card) :
    ∃ S : Finset α, S ⊆ A ∧ S ⊆ B ∧ f V.card < S.card := by
  refine ⟨A ∩ B, Finset.inter_subset_left, Finset.inter_subset_right, ?_⟩
  have h1 := Finset.card_union_add_card_inter A B
  have h2 : (A ∪ B).card ≤ V.card := Finset.card_le_card (Finset.union_subset hA hB)
  unfold thrA thrG at ha hb; unfold f
  omega

/-- Non-vacuity: V = {0..3}, A = {0,1,2}, B = {1,2,3} meet the premises and share 2 > f = 1. -/
example : thrA 4 = 3 ∧ thrG 4 = 3 ∧ f 4 = 1 ∧
    (({0, 1, 2} : Finset Nat) ∩ {1, 2, 3}).card = 2 ∧ ({0, 1, 2} : Finset Nat) ⊆ {0, 1, 2, 3} := by decide

/-! ## Consequences: an honest validator in every intersection, quorums reachable by the honest validators,
and how far the historical (`needFix`) ledger rule is from these guarantees -/

/-- If at most f validators are faulty, any two quorums (block-acceptance or governance, in any combination)
share a validator that is not faulty. -/
theorem honest_in_intersection {α : Type} [DecidableEq α] (V A B F : Finset α) (hA : A ⊆ V) (hB : B ⊆ V)
    (hN : 1 ≤ V.card)
    (ha : thrA V.card ≤ A.card ∨ thrG V.card ≤ A.card) (hb : thrA V.card ≤ B.card ∨ thrG V.card ≤ B.card)
    (hF : F.card ≤ f V.card) : ∃ v, v ∈ A ∧ v ∈ B ∧ v ∉ F := by
  obtain ⟨S, hSA, hSB, hS⟩ := conflicting_needs_more_than_f V A B hA hB hN ha hb
  have hns : ¬ S ⊆ F := fun h => by have := Finset.card_le_card h; omega
  obtain ⟨v, hv, hvF⟩ := Finset.not_subset.mp hns
  exact ⟨v, hSA hv, hSB hv, hvF⟩

/-- The governance threshold never exceeds the block-acceptance threshold, and both can be met by the
N - f validators that are not faulty (so neither rule can be blocked by f silent validators). -/
theorem thresholds_reachable (N : Nat) : thrG N ≤ thrA N ∧ thrA N ≤ N - f N := by
  unfold thrG thrA f; omega

/-- Both thresholds are the least ones with the intersection guarantee when N = 3f+1: one validator fewer
and two sets of that size inside N validators may share only f. (Arithmetic form: 2(t-1) - N ≤ f.) -/
theorem thresholds_tight (k : Nat) :
    2 * (thrA (3 * k + 1) - 1) - (3 * k + 1) ≤ f (3 * k + 1) ∧
    2 * (thrG (3 * k + 1) - 1) - (3 * k + 1) ≤ f (3 * k + 1) := by
  unfold thrG thrA f; omega

/-- The historical ledger rule `N - 6N/7` (selected by `needFix`: non-main networks, or header height up to
20 000 000) is strictly weaker than the block-acceptance threshold for every N ≥ 2 ... -/
theorem legacy_below_thrA (N : Nat) (hN : 2 ≤ N) : thrLegacy N < thrA N ∧ 2 * thrLegacy N ≤ N := by
  unfold thrLegacy thrA; omega

/-- ... and gives no intersection at all: for every N ≥ 2 there are two disjoint sets of validators that both
meet it. The intersection theorems above therefore speak about headers checked under the modern rule only;
`impl_ledger_needFix` below states exactly when the node selects which rule. -/
theorem legacy_rule_has_disjoint_quorums (N : Nat) (hN : 2 ≤ N) :
    ∃ A B : Finset Nat, A ⊆ Finset.range N ∧ B ⊆ Finset.range N ∧
      thrLegacy N ≤ A.card ∧ thrLegacy N ≤ B.card ∧ A ∩ B = ∅ := by
  have h := legacy_below_thrA N hN
  have ht : thrLegacy N ≤ N := by unfold thrLegacy; omega
  have hsub : Finset.range (thrLegacy N) ⊆ Finset.range N := Finset.range_subset_range.mpr ht
  refine ⟨Finset.range (thrLegacy N), Finset.range N \ Finset.range (thrLegacy N), hsub,
    Finset.sdiff_subset, by simp, ?_, ?_⟩
  · rw [Finset.card_sdiff_of_subset hsub]; simp; omega
  · exact Finset.inter_sdiff_self _ _

/-- Non-vacuity of the witness: with seven validators the historical rule accepts a single signer. -/
example : thrLegacy 7 = 1 ∧ thrA 7 = 5 ∧ f 7 = 2 := by decide

/-! ## The thresholds computed by the node (generated definitions) equal the formulas, for every N -/

private theorem tdivN (a : Int) (b : Int) (h : 0 ≤ a) : a.tdiv b = a / b := Int.tdiv_eq_ediv_of_nonneg h

/-- Ledger header verification, modern rule: `len - (len-1)/3` = N - f. -/
theorem impl_ledger_modern (N : Nat) : ledger_verifyHeader_m0 (N : Int) = (thrA N : Nat) := by
  unfold ledger_verifyHeader_m0 thrA
  rcases N with _ | n
  · decide
  · rw [tdivN _ _ (by omega)]; omega

/-- Ledger header verification, legacy rule: `len - (len*6)/7`. -/
theorem impl_ledger_legacy (N : Nat) : ledger_verifyHeader_m1 (N : Int) = (thrLegacy N : Nat) := by
  unfold ledger_verifyHeader_m1 thrLegacy
  rw [tdivN _ _ (by omega)]; omega

/-- Ledger header verification, non-VBFT branch. -/
theorem impl_ledger_solo (N : Nat) : ledger_verifyHeader_m2 (N : Int) = (thrA N : Nat) := by
  unfold ledger_verifyHeader_m2 thrA
  rcases N with _ | n
  · decide
  · rw [tdivN _ _ (by omega)]; omega

/-- The legacy rule applies exactly on non-main networks or up to header height 20,000,000. -/
theorem impl_ledger_needFix (mainId netId h : Int) :
    ledger_verifyHeader_needFix0 mainId netId h = true ↔ (mainId ≠ netId ∨ h ≤ 20000000) := by
  unfold ledger_verifyHeader_needFix0; simp

/-- A header is refused when it lists fewer bookkeepers than the threshold. -/
theorem impl_ledger_cmp (b m : Int) : ledger_verifyHeader_cmp0 b m = true ↔ b < m := by
  unfold ledger_verifyHeader_cmp0; simp

/-- Consensus operator address: m-of-n with m = N - f. -/
theorem impl_operator_address (N : Nat) : types_AddressFromBookkeepers0 (N : Int) = (thrA N : Nat) := by
  unfold types_AddressFromBookkeepers0 thrA
  rcases N with _ | n
  · decide
  · rw [tdivN _ _ (by omega)]; omega

/-- Governance approvals fire exactly at ceil(2N/3). -/
theorem impl_governance (num N : Nat) : nodemgr_CheckConsensusSigns0 (num : Int) (N : Int) = true ↔ thrG N ≤ num := by
  unfold nodemgr_CheckConsensusSigns0 thrG
  rw [tdivN _ _ (by omega)]; simp; omega

/-- Signature manager: not-yet branch and fire branch are complementary around ceil(2N/3). -/
theorem impl_sigmgr (num N : Nat) :
    (sigmgr_CheckSigns0 (num : Int) (N : Int) = true ↔ num < thrG N) ∧
    (sigmgr_CheckSigns1 (num : Int) (N : Int) = true ↔ thrG N ≤ num) := by
  unfold sigmgr_CheckSigns0 sigmgr_CheckSigns1 thrG
  rw [tdivN _ _ (by omega)]; simp; omega

/-- Vote-based deposits fire exactly at ceil(2N/3). -/
theorem impl_votes (num N : Nat) : vote_CheckVotes0 (num : Int) (N : Int) = true ↔ thrG N ≤ num := by
  unfold vote_CheckVotes0 thrG
  rw [tdivN _ _ (by omega)]; simp; omega

/-- VBFT commit decision: committers + 1 ≥ N - f. -/
theorem impl_vbft_commit (c N : Nat) : vbft_getCommitConsensus0 (c : Int) (N : Int) = true ↔ thrA N ≤ c + 1 := by
  unfold vbft_getCommitConsensus0 thrA
  rcases N with _ | n
  · simp; omega
  · rw [tdivN _ _ (by omega)]; simp; omega

/-- NEO N3 state-validator multisig: m = n - (n-1)/3 (both N3 packages). -/
theorem impl_neo3 (N : Nat) : neo3_verifyWitness_m0 (N : Int) = (thrA N : Nat) ∧
    neo3legacy_verifyWitness_m0 (N : Int) = (thrA N : Nat) := by
  unfold neo3_verifyWitness_m0 neo3legacy_verifyWitness_m0 thrA
  rcases N with _ | n
  · decide
  · rw [tdivN _ _ (by omega)]; omega

/-- Genesis chain config: C = floor(k/3). -/
theorem impl_genesis_C (k : Nat) : vbft_genesis_C0 (k : Int) = ((k / 3 : Nat) : Int) := by
  unfold vbft_genesis_C0
  rw [tdivN _ _ (by omega)]; omega

/-! ## The VBFT commit rule counts the proposer implicitly (`len(signers) + 1 ≥ N - f`)

`getCommitConsensus` adds one to the number of distinct commit signers (C41 proves they are distinct). The two
theorems say what intersection that rule buys, about the generated expression `vbft_getCommitConsensus0`. -/

/-- When each proposer is a participant that is not among the signers of its own commit messages, the supporters
(signers plus proposer) of two commit decisions share more than f participants. -/
theorem vbft_commit_supporters_intersect {α : Type} [DecidableEq α] (V A B : Finset α) (p q : α)
    (hA : A ⊆ V) (hB : B ⊆ V) (hp : p ∈ V) (hq : q ∈ V) (hpA : p ∉ A) (hqB : q ∉ B)
    (ha : vbft_getCommitConsensus0 (A.card : Int) (V.card : Int) = true)
    (hb : vbft_getCommitConsensus0 (B.card : Int) (V.card : Int) = true) :
    f V.card < ((insert p A) ∩ (insert q B)).card := by
  have hN : 1 ≤ V.card := Finset.card_pos.mpr ⟨p, hp⟩
  apply intersect_A V (insert p A) (insert q B) (Finset.insert_subset hp hA) (Finset.insert_subset hq hB) hN
  · rw [Finset.card_insert_of_notMem hpA]; exact (impl_vbft_commit A.card V.card).mp ha
  · rw [Finset.card_insert_of_notMem hqB]; exact (impl_vbft_commit B.card V.card).mp hb

/-- Without that hypothesis (a proposer that also signs a commit message for its own proposal is counted twice by
the `+ 1`) the signers alone still share at least f - 1 participants, and no more can be promised at N = 3f + 1. -/
theorem vbft_commit_signers_overlap {α : Type} [DecidableEq α] (V A B : Finset α) (hA : A ⊆ V) (hB : B ⊆ V)
    (hN : 1 ≤ V.card)
    (ha : vbft_getCommitConsensus0 (A.card : Int) (V.card : Int) = true)
    (hb : vbft_getCommitConsensus0 (B.card : Int) (V.card : Int) = true) :
    f V.card ≤ (A ∩ B).card + 1 := by
  have h1 := Finset.card_union_add_card_inter A B
  have h2 : (A ∪ B).card ≤ V.card := Finset.card_le_card (Finset.union_subset hA hB)
  have ha' := (impl_vbft_commit A.card V.card).mp ha
  have hb' := (impl_vbft_commit B.card V.card).mp hb
  unfold thrA at ha' hb'; unfold f
  omega

/-! ## Bridge to C14: two headers accepted by the ledger model under the modern rule share more than f signers -/

/-- Two non-genesis headers that `verifyHeader` (the C14 model of `LedgerStoreImp.verifyHeader`, threshold built from
the generated expressions) accepts against the same duplicate-free validator set, on main net above header height
20 000 000, are each signed by validators of that set, and more than f validators signed both: a common sub-list `S`
of distinct members of the set, every one with a verifying listed signature in each header. -/
theorem ledger_accepted_headers_share_signers (p : Poly.Model.Ledger.Params) (s₁ s₂ : Poly.Model.Ledger.State)
    (h₁ h₂ : Poly.Model.Ledger.Header) (set set₁ set₂ : List Poly.Model.Ledger.Key) (hset : set.Nodup) (hne : 1 ≤ set.length)
    (hmain : p.netId = 1)
    (hh₁ : 20000000 < Poly.Model.Ledger.headerHeight s₁.mem) (hh₂ : 20000000 < Poly.Model.Ledger.headerHeight s₂.mem)
    (h01 : h₁.height ≠ 0) (h02 : h₂.height ≠ 0)
    (a₁ : Poly.Model.Ledger.verifyHeader p s₁ h₁ set = .ok set₁)
    (a₂ : Poly.Model.Ledger.verifyHeader p s₂ h₂ set = .ok set₂) :
    ∃ S : Finset Nat, f set.length < S.card ∧ ∀ k ∈ S, k ∈ set ∧
      (∃ sig ∈ h₁.sigs, p.verify k h₁.hash sig = true) ∧ (∃ sig ∈ h₂.sigs, p.verify k h₂.hash sig = true) := by
  obtain ⟨S₁, n₁, m₁, t₁⟩ := Poly.Props.C14.accept_needs_quorum p s₁ h₁ set set₁ h01 a₁
  obtain ⟨S₂, n₂, m₂, t₂⟩ := Poly.Props.C14.accept_needs_quorum p s₂ h₂ set set₂ h02 a₂
  rw [Poly.Props.C14.m_formula] at t₁ t₂
  have c₁ : ¬ (p.netId ≠ 1 ∨ Poly.Model.Ledger.headerHeight s₁.mem ≤ 20000000) := by
    intro h; rcases h with h | h
    · exact h hmain
    · omega
  have c₂ : ¬ (p.netId ≠ 1 ∨ Poly.Model.Ledger.headerHeight s₂.mem ≤ 20000000) := by
    intro h; rcases h with h | h
    · exact h hmain
    · omega
  rw [if_neg c₁] at t₁
  rw [if_neg c₂] at t₂
  have hV : set.toFinset.card = set.length := List.toFinset_card_of_nodup hset
  have hN : 1 ≤ set.toFinset.card := by
    rw [hV]; exact hne
  have hA : S₁.toFinset ⊆ set.toFinset := fun k hk => List.mem_toFinset.mpr (m₁ k (List.mem_toFinset.mp hk)).1
  have hB : S₂.toFinset ⊆ set.toFinset := fun k hk => List.mem_toFinset.mpr (m₂ k (List.mem_toFinset.mp hk)).1
  have ca : thrA set.toFinset.card ≤ S₁.toFinset.card := by
    rw [List.toFinset_card_of_nodup n₁, hV]; unfold thrA; omega
  have cb : thrA set.toFinset.card ≤ S₂.toFinset.card := by
    rw [List.toFinset_card_of_nodup n₂, hV]; unfold thrA; omega
  have hi := intersect_A set.toFinset S₁.toFinset S₂.toFinset hA hB hN ca cb
  rw [hV] at hi
  refine ⟨S₁.toFinset ∩ S₂.toFinset, hi, ?_⟩
  intro k hk
  obtain ⟨k1, k2⟩ := Finset.mem_inter.mp hk
  have e1 := m₁ k (List.mem_toFinset.mp k1)
  have e2 := m₂ k (List.mem_toFinset.mp k2)
  exact ⟨e1.1, e1.2.2, e2.2.2⟩

/-! ## Behaviour: a ledger fed by distinct validators fires exactly at the threshold

`firstFire p n` (Poly.Model.Quorum) is what the correspondence stream `quorum` observes on the real
`CheckConsensusSigns`, `CheckVotes` and `AddSignature`: the approval count at which the ledger first fires. -/
open Poly.Model.Quorum

/-- Governance ledger: with N ≥ 1 validators approving one by one, it fires exactly at ceil(2N/3). -/
theorem governance_fires_exactly_at (N : Nat) (hN : 1 ≤ N) :
    firstFire (fun k => nodemgr_CheckConsensusSigns0 k N) N = (thrG N : Nat) := by
  apply firstFire_eq
  · intro j
    unfold nodemgr_CheckConsensusSigns0 thrG
    rw [tdivN _ _ (by omega)]; simp
  · unfold thrG; omega
  · unfold thrG; omega

/-- Vote ledger: fires exactly at ceil(2N/3). -/
theorem votes_fire_exactly_at (N : Nat) (hN : 1 ≤ N) :
    firstFire (fun k => vote_CheckVotes0 k N) N = (thrG N : Nat) := by
  apply firstFire_eq
  · intro j
    unfold vote_CheckVotes0 thrG
    rw [tdivN _ _ (by omega)]; simp
  · unfold thrG; omega
  · unfold thrG; omega

/-- Signature ledger: leaves the not-yet branch and takes the fire branch exactly at ceil(2N/3). -/
theorem signatures_fire_exactly_at (N : Nat) (hN : 1 ≤ N) :
    firstFire (fun k => sigmgr_CheckSigns1 k N && !(sigmgr_CheckSigns0 k N)) N = (thrG N : Nat) := by
  apply firstFire_eq
  · intro j
    unfold sigmgr_CheckSigns1 sigmgr_CheckSigns0 thrG
    rw [tdivN _ _ (by omega)]; simp
  · unfold thrG; omega
  · unfold thrG; omega

end Poly.Props.C42
