import Poly.Proofs.LedgerChain
import Poly.Proofs.LedgerHash
/-!
# C13 — The ledger only grows by valid successors

Model: `Poly.Model.Ledger.addBlock` (`AddBlock` + `saveBlock`), `submitChecked` (`ExecuteBlock` + `SubmitBlock`),
`verifyHeader`, `submitBlock` (with the repaired parent check) and the block store. All statements hold for every
hash function, signature scheme, `executeBlock`, and every ledger state (no reachability assumption unless stated).
-/
namespace Poly.Props.C13
open Poly.Model.Ledger

/-- **A block is committed only as a valid successor** (`AddBlock`): if the call succeeds and the block height moved,
the block is at the next height, its previous-block hash is the current tip, the header found for that hash is one
height below and strictly earlier, the block root is the accumulator root over the previous-block hashes of all
blocks so far plus this parent, and the supplied state root is the one obtained by executing the block. -/
theorem commit_only_successor (p : Params) (s s' : State) (b : Block) (root : Hash)
    (h : addBlock p s b root = .ok s') (hc : s'.mem.currHeight ≠ s.mem.currHeight) :
    b.header.height = s.mem.currHeight + 1 ∧
    b.header.prev = s.mem.currHash ∧
    (∃ prev, headerByHash s s.mem.currHash = some prev ∧ prev.height = s.mem.currHeight ∧ prev.timestamp < b.header.timestamp) ∧
    b.header.blockRoot = treeRoot p (s.mem.blockTree ++ [s.mem.currHash]) ∧
    root = treeRoot p (s.mem.stateTree ++ [(p.exec s.dur.states.kv b).changeHash]) := by
  rcases addBlock_cases p s s' b root h with ⟨-, e⟩ | ⟨hh, ⟨set, hv, -⟩, hroot, hg⟩
  · subst e; exact absurd rfl hc
  · have h0 : b.header.height ≠ 0 := by omega
    obtain ⟨g1, g2⟩ := submitGuards_ok p s b h0 hg
    obtain ⟨⟨prev, hp, hph, hpt⟩, -, -, -⟩ := verifyHeader_ok p s b.header s.mem.peersB set h0 hv
    rw [g1] at hp g2
    exact ⟨hh, g1, ⟨prev, hp, by omega, hpt⟩, g2, hroot.symm⟩

/-- The same for the `ExecuteBlock` + `SubmitBlock` path. -/
theorem commit_only_successor_submit (p : Params) (s s' : State) (b : Block)
    (h : submitChecked p s b = .ok s') (hc : s'.mem.currHeight ≠ s.mem.currHeight) :
    b.header.height = s.mem.currHeight + 1 ∧
    b.header.prev = s.mem.currHash ∧
    (∃ prev, headerByHash s s.mem.currHash = some prev ∧ prev.height = s.mem.currHeight ∧ prev.timestamp < b.header.timestamp) ∧
    b.header.blockRoot = treeRoot p (s.mem.blockTree ++ [s.mem.currHash]) := by
  rcases submitChecked_cases p s s' b h with ⟨-, e⟩ | ⟨hh, ⟨set, hv, -⟩, hg⟩
  · subst e; exact absurd rfl hc
  · have h0 : b.header.height ≠ 0 := by omega
    obtain ⟨g1, g2⟩ := submitGuards_ok p s b h0 hg
    obtain ⟨⟨prev, hp, hph, hpt⟩, -, -, -⟩ := verifyHeader_ok p s b.header s.mem.peersB set h0 hv
    rw [g1] at hp g2
    exact ⟨hh, g1, ⟨prev, hp, by omega, hpt⟩, g2⟩

/-- **Re-submitting an already committed height changes nothing** and reports success (both paths). -/
theorem resubmit_noop (p : Params) (s : State) (b : Block) (root : Hash) (h : b.header.height ≤ s.mem.currHeight) :
    addBlock p s b root = .ok s ∧ submitChecked p s b = .ok s := by
  simp [addBlock, submitChecked, h]

/-- **A gap is refused**: any height above the next one is an error on both paths, whatever else the block says. -/
theorem gap_rejected (p : Params) (s : State) (b : Block) (root : Hash) (h : s.mem.currHeight + 1 < b.header.height) :
    addBlock p s b root = .error .height ∧ submitChecked p s b = .error .height := by
  have h1 : ¬ b.header.height ≤ s.mem.currHeight := by omega
  have h2 : b.header.height ≠ s.mem.currHeight + 1 := by omega
  simp [addBlock, submitChecked, h1, h2]

/-- A block at the next height whose parent is not the tip is refused (the repaired check), even if a header with
that hash is known and has the right height. -/
theorem wrong_parent_rejected (p : Params) (s : State) (b : Block) (res : ExecResult) (h0 : b.header.height ≠ 0)
    (hp : b.header.prev ≠ s.mem.currHash) : submitBlock p s b res = .error .notip := by
  simp [submitBlock, submitGuards, h0, hp]

/-- A block whose block root is not the accumulator root is refused. -/
theorem wrong_block_root_rejected (p : Params) (s : State) (b : Block) (res : ExecResult) (h0 : b.header.height ≠ 0)
    (hp : b.header.prev = s.mem.currHash) (hr : b.header.blockRoot ≠ treeRoot p (s.mem.blockTree ++ [b.header.prev])) :
    submitBlock p s b res = .error .blockroot := by
  have : ¬ treeRoot p (s.mem.blockTree ++ [s.mem.currHash]) = b.header.blockRoot := fun e => hr (by rw [hp]; exact e.symm)
  simp [submitBlock, submitGuards, h0, hp, this]

/-- **The block root handed to a proposer is the one `submitBlock` checks**: `GetBlockRootWithPreBlockHashes` for the
next height with predecessor `x` is the accumulator root over the previous-block hashes of all committed blocks plus
`x`, a function of the accumulator and `x` alone (heights below 2^32, as uint32 in the code); a caller behind the
ledger gets the empty hash. -/
theorem root_query_is_checked_root (p : Params) (s : State) (x : Hash) (hlt : s.mem.currHeight + 1 < 4294967296) :
    blockRootWithPre p s (s.mem.currHeight + 1) [x] = some (treeRoot p (s.mem.blockTree ++ [x])) ∧
    (∀ start pre, 1 ≤ start + pre.length → start + pre.length - 1 < s.mem.currHeight →
      blockRootWithPre p s start pre = some zeroHash) :=
  ⟨blockRootWithPre_next p s x hlt, fun start pre h1 h2 => blockRootWithPre_behind p s start pre h1 h2 (by omega)⟩

/-- **After a commit the block and its transactions are found**: by height (block store and header index), by hash,
each transaction by its hash with the block's height; the tip is the block; state and block store agree. -/
theorem lookup_after_commit (p : Params) (s s' : State) (b : Block) (root : Hash)
    (h : addBlock p s b root = .ok s') (hc : s'.mem.currHeight ≠ s.mem.currHeight) :
    s'.mem.currHeight = b.header.height ∧ s'.mem.currHash = b.header.hash ∧
    s'.dur.blocks.hashAt b.header.height = some b.header.hash ∧
    s'.mem.headerIndex b.header.height = some b.header.hash ∧
    s'.dur.blocks.blockAt b.header.hash = some b ∧
    s'.dur.blocks.current = some (b.header.hash, b.header.height) ∧
    s'.dur.states.current = some (b.header.hash, b.header.height) ∧
    (∀ t ∈ b.txs, ∃ t' ∈ b.txs, t'.hash = t.hash ∧ s'.dur.blocks.txAt t.hash = some (t', b.header.height)) := by
  rcases addBlock_cases p s s' b root h with ⟨-, e⟩ | ⟨hh, ⟨set, hv, e⟩, -, -⟩
  · subst e; exact absurd rfl hc
  · subst e
    obtain ⟨-, b2, b3, b4⟩ := commit_blockBatch p s.mem b s.dur.blocks
    obtain ⟨l1, -, -, -⟩ := commit_blockBatch_lookups p s.mem b s.dur.blocks
    obtain ⟨c1, -, -⟩ := commit_stateBatch_sys p s.mem.stateTree s.mem.blockTree b (executeBlock p s b).1 s.dur.states
    refine ⟨rfl, rfl, ?_, ?_, ?_, ?_, ?_, ?_⟩
    · simpa [installPeers, submitted, persisted, fillAll] using b3
    · simp only [installPeers, submitted, fillAll, fillMem, fillBlockMem]
      have : (indexMem p (setIndex s.mem b.header.height b.header.hash)).headerIndex = (setIndex s.mem b.header.height b.header.hash).headerIndex := by
        unfold indexMem; split <;> rfl
      rw [this]
      simp [setIndex, upd]
    · simpa [installPeers, submitted, persisted, fillAll] using b4
    · simpa [installPeers, submitted, persisted, fillAll] using b2
    · simpa [installPeers, submitted, persisted, fillAll] using c1
    · simpa [installPeers, submitted, persisted, fillAll] using l1

/-- **Earlier blocks stay retrievable** after a commit: other heights, other block hashes and transactions that do
not occur in the new block answer as before. -/
theorem older_lookups_kept (p : Params) (s s' : State) (b : Block) (root : Hash) (h : addBlock p s b root = .ok s') :
    (∀ i, i ≠ b.header.height → s'.dur.blocks.hashAt i = s.dur.blocks.hashAt i) ∧
    (∀ x, x ≠ b.header.hash → s'.dur.blocks.blockAt x = s.dur.blocks.blockAt x) ∧
    (∀ x, (∀ t ∈ b.txs, t.hash ≠ x) → s'.dur.blocks.txAt x = s.dur.blocks.txAt x) := by
  rcases addBlock_cases p s s' b root h with ⟨-, e⟩ | ⟨hh, ⟨set, hv, e⟩, -, -⟩
  · subst e; exact ⟨fun _ _ => rfl, fun _ _ => rfl, fun _ _ => rfl⟩
  · subst e
    obtain ⟨-, l2, l3, l4⟩ := commit_blockBatch_lookups p s.mem b s.dur.blocks
    refine ⟨?_, ?_, ?_⟩
    · intro i hi; simpa [installPeers, submitted, persisted, fillAll] using l2 i hi
    · intro x hx; simpa [installPeers, submitted, persisted, fillAll] using l3 x hx
    · intro x hx; simpa [installPeers, submitted, persisted, fillAll] using l4 x hx

/-- The height only moves by one, and only forward. -/
theorem height_moves_by_one (p : Params) (s s' : State) (b : Block) (root : Hash) (h : addBlock p s b root = .ok s') :
    s'.mem.currHeight = s.mem.currHeight ∨ s'.mem.currHeight = s.mem.currHeight + 1 := by
  rcases addBlock_cases p s s' b root h with ⟨-, e⟩ | ⟨hh, ⟨set, hv, e⟩, -, -⟩
  · subst e; exact Or.inl rfl
  · subst e; exact Or.inr hh

/-- **Chain invariant over all histories** (first start, `AddBlock`, `ExecuteBlock`+`SubmitBlock`, `AddHeader`,
restarts, crashes inside a submission that passes the checks, in any order and number; hash collisions between
different blocks / headers excluded by `NoColl` / `NoCollH`): every height up to the tip holds exactly one block,
found by height and by hash; each block names the hash of the block one below as its parent and is strictly later;
the block accumulator holds the genesis parent followed by the hashes of blocks 0 … tip−1; nothing but these blocks is
stored; cached headers agree with stored blocks. -/
theorem chain_inv (p : Params) (g : Block) (hg : g.header.height = 0) (s : State) (h : ReachV p g s) :
    s.dur.blocks.hashAt s.mem.currHeight = some s.mem.currHash ∧
    (∀ i, i ≤ s.mem.currHeight → ∃ blk, s.dur.blocks.hashAt i = some blk.header.hash ∧
      s.dur.blocks.blockAt blk.header.hash = some blk ∧ blk.header.height = i) ∧
    (∀ i bi bj, i < s.mem.currHeight →
      s.dur.blocks.hashAt i = some bi.header.hash → s.dur.blocks.blockAt bi.header.hash = some bi →
      s.dur.blocks.hashAt (i + 1) = some bj.header.hash → s.dur.blocks.blockAt bj.header.hash = some bj →
      bj.header.prev = bi.header.hash ∧ bi.header.timestamp < bj.header.timestamp) ∧
    s.mem.blockTree = g.header.prev :: (List.range s.mem.currHeight).map (fun i => (s.dur.blocks.hashAt i).getD []) ∧
    (∀ x blk, s.dur.blocks.blockAt x = some blk → blk.header.hash = x ∧ blk.header.height ≤ s.mem.currHeight) := by
  have hc := reachV_chain p g hg s h
  exact ⟨hc.tip, hc.stored, hc.linked, hc.acc, hc.bounded⟩

/-- **Chain invariant with the collision alternative.** For histories whose blocks and headers are views of
well-formed wire headers — hash = `H (H (unsigned serialization))` with the serialization schema of C02
(`headerUnsignedTy`), height and timestamp being hashed fields — no collision-freedom has to be assumed: either the
hash function collides (the proof exhibits the pair: two serializations or their inner hashes), or the chain invariant
holds. -/
theorem chain_inv_or_collision (p : Params) (K : Bytes → Option Bytes) (g : Block) (hg : g.header.height = 0)
    (s : State) (h : ReachW p K g s) :
    Poly.Spec.RFC6962.Collision p.H ∨
    (s.dur.blocks.hashAt s.mem.currHeight = some s.mem.currHash ∧
    (∀ i, i ≤ s.mem.currHeight → ∃ blk, s.dur.blocks.hashAt i = some blk.header.hash ∧
      s.dur.blocks.blockAt blk.header.hash = some blk ∧ blk.header.height = i) ∧
    (∀ i bi bj, i < s.mem.currHeight →
      s.dur.blocks.hashAt i = some bi.header.hash → s.dur.blocks.blockAt bi.header.hash = some bi →
      s.dur.blocks.hashAt (i + 1) = some bj.header.hash → s.dur.blocks.blockAt bj.header.hash = some bj →
      bj.header.prev = bi.header.hash ∧ bi.header.timestamp < bj.header.timestamp) ∧
    s.mem.blockTree = g.header.prev :: (List.range s.mem.currHeight).map (fun i => (s.dur.blocks.hashAt i).getD []) ∧
    (∀ x blk, s.dur.blocks.blockAt x = some blk → blk.header.hash = x ∧ blk.header.height ≤ s.mem.currHeight)) := by
  rcases reachW_reachV p K g hg s h with hc | ⟨hv, -⟩
  · exact Or.inl hc
  · exact Or.inr (chain_inv p g hg s hv)

/-- **The block root of a committed block is the accumulator root over all earlier block hashes** (genesis parent,
then the hashes of blocks 0 … height−1 as the block store lists them), on every ledger reached by such a history. -/
theorem committed_root_over_all_earlier_hashes (p : Params) (g : Block) (hg : g.header.height = 0) (s s' : State)
    (hr : ReachV p g s) (b : Block) (root : Hash) (h : addBlock p s b root = .ok s')
    (hc : s'.mem.currHeight ≠ s.mem.currHeight) :
    b.header.blockRoot =
      treeRoot p (g.header.prev :: (List.range b.header.height).map (fun i => (s.dur.blocks.hashAt i).getD [])) := by
  obtain ⟨hh, -, -, hroot, -⟩ := commit_only_successor p s s' b root h hc
  have hch := reachV_chain p g hg s hr
  rw [hroot, hch.acc, hh, List.range_succ, List.map_append]
  simp only [List.cons_append, List.map_cons, List.map_nil, hch.tip, Option.getD_some]

/-! ### Non-vacuity: a reachable two-block ledger; the honest successor is committed, a block naming another
parent, an equal timestamp or a wrong root is refused, re-submission is a no-op -/
section Example

def p2 : Params :=
  { H := fun b => b.take 4, verify := fun k _ sig => sig == [k.toUInt8], decode := fun _ => true,
    exec := fun _ b => { writeSet := [([b.header.height.toUInt8], [1])], changeHash := [b.header.height.toUInt8],
                         crossHashes := [], notifies := [] },
    netId := 2, batch := 2000, eventLog := false }
def g2 : Block := { header := { height := 0, hash := [7], prev := zeroHash, timestamp := 10, blockRoot := [], bookkeepers := [],
                                sigs := [], newCfg := some [0, 1, 2, 3], lastCfg := 0 }, txs := [] }
def s2 : State := match initLedger p2 g2 with | .ok s => s | .error _ => ⟨Durable.empty, emptyMem⟩
def blk2 (prev : Hash) (ts : Nat) (root : Hash) : Block :=
  { header := { height := 1, hash := [8], prev := prev, timestamp := ts, blockRoot := root, bookkeepers := [2], sigs := [[2]],
                newCfg := none, lastCfg := 0 }, txs := [⟨[5], [1]⟩] }
def good2 : Block := blk2 [7] 11 (treeRoot p2 (s2.mem.blockTree ++ [[7]]))
def verdict2 : Except Err State → Option Err × Nat
  | .ok s => (none, s.mem.currHeight)
  | .error e => (some e, 0)

private theorem init2_ok : initLedger p2 g2 = .ok s2 := by
  have h : (verdict2 (initLedger p2 g2)).1 = none := by decide
  unfold s2
  cases h' : initLedger p2 g2 with
  | ok s => rfl
  | error e => rw [h'] at h; cases h

example : ReachV p2 g2 s2 ∧
    verdict2 (addBlock p2 s2 good2 (executeBlock p2 s2 good2).2) = (none, 1) ∧
    verdict2 (addBlock p2 s2 (blk2 [9] 11 good2.header.blockRoot) (executeBlock p2 s2 good2).2) = (some .noprev, 0) ∧
    verdict2 (addBlock p2 s2 (blk2 [7] 10 good2.header.blockRoot) (executeBlock p2 s2 good2).2) = (some .timestamp, 0) ∧
    verdict2 (addBlock p2 s2 (blk2 [7] 11 [1, 2, 3]) (executeBlock p2 s2 good2).2) = (some .blockroot, 0) ∧
    verdict2 (addBlock p2 s2 g2 []) = (none, 0) :=
  ⟨ReachV.init init2_ok, by decide, by decide, by decide, by decide, by decide⟩

/-- `Wired` is satisfiable: a well-formed unsigned wire header (schema of C02) and its ledger-level view -/
def exUnsigned : Poly.Model.SchemaLedger.headerUnsignedTy.Val :=
  ((0 : UInt32), (5 : UInt64), (List.replicate 32 1 : Bytes), (List.replicate 32 2 : Bytes), (List.replicate 32 3 : Bytes),
   (List.replicate 32 4 : Bytes), (11 : UInt32), (1 : UInt32), (8 : UInt64), ([9] : Bytes), (List.replicate 20 0 : Bytes))

example : Wired p2.H (fun _ => none)
    { height := 1, hash := p2.H (p2.H (Poly.Model.SchemaLedger.headerUnsignedTy.enc exUnsigned)), prev := List.replicate 32 1,
      timestamp := 11, blockRoot := List.replicate 32 4, bookkeepers := [], sigs := [], newCfg := none, lastCfg := 0 } :=
  ⟨exUnsigned, Poly.Model.Schema.Ty.wfb_sound _ _ exUnsigned (by decide), rfl, by decide, by decide⟩

end Example

end Poly.Props.C13
