import Poly.Model.CCM
/-! The `ToMerkleValue` encoding is prefix-decodable, hence injective (C22 `content_exact`). -/
namespace Poly.Model.CCM

theorem leBytes_length (w n : Nat) : (leBytes w n).length = w := by simp [leBytes]

theorem ofNat_inj_of_lt {a b : Nat} (ha : a < 256) (hb : b < 256) (h : UInt8.ofNat a = UInt8.ofNat b) : a = b := by
  have := congrArg UInt8.toNat h
  simp only [UInt8.toNat_ofNat'] at this
  omega

theorem leBytes_succ (w n : Nat) : leBytes (w + 1) n = leBytes w n ++ [UInt8.ofNat (n / 256 ^ w % 256)] := by
  simp [leBytes, List.range_succ]

/-- little-endian bytes determine the number modulo 256^w -/
theorem leBytes_inj_mod (w n m : Nat) (h : leBytes w n = leBytes w m) : n % 256 ^ w = m % 256 ^ w := by
  induction w with
  | zero => simp [Nat.mod_one]
  | succ w ih =>
    rw [leBytes_succ, leBytes_succ] at h
    have hl : (leBytes w n).length = (leBytes w m).length := by simp [leBytes_length]
    obtain ⟨h1, h2⟩ := List.append_inj h hl
    have hb := ofNat_inj_of_lt (Nat.mod_lt _ (by decide)) (Nat.mod_lt _ (by decide)) (List.cons.inj h2).1
    rw [Nat.mod_pow_succ, Nat.mod_pow_succ, ih h1, hb]

theorem leBytes_inj (w n m : Nat) (hn : n < 256 ^ w) (hm : m < 256 ^ w) (h : leBytes w n = leBytes w m) : n = m := by
  have := leBytes_inj_mod w n m h
  rwa [Nat.mod_eq_of_lt hn, Nat.mod_eq_of_lt hm] at this

/-- fixed-width field followed by anything -/
theorem leBytes_append_inj (w n m : Nat) (x y : Bytes) (hn : n < 256 ^ w) (hm : m < 256 ^ w)
    (h : leBytes w n ++ x = leBytes w m ++ y) : n = m ∧ x = y := by
  obtain ⟨h1, h2⟩ := List.append_inj h (by simp [leBytes_length])
  exact ⟨leBytes_inj w n m hn hm h1, h2⟩

theorem varUint_head (n : Nat) (hn : n < 2 ^ 64) :
    ∃ b rest, varUint n = b :: rest ∧
      ((n < 0xFD ∧ b = UInt8.ofNat n ∧ rest = []) ∨
       (0xFD ≤ n ∧ n ≤ 0xFFFF ∧ b = 0xFD ∧ rest = leBytes 2 n) ∨
       (0xFFFF < n ∧ n ≤ 0xFFFFFFFF ∧ b = 0xFE ∧ rest = leBytes 4 n) ∨
       (0xFFFFFFFF < n ∧ b = 0xFF ∧ rest = leBytes 8 n)) := by
  unfold varUint
  by_cases h1 : n < 0xFD
  · exact ⟨_, _, by rw [if_pos h1], Or.inl ⟨h1, rfl, rfl⟩⟩
  by_cases h2 : n ≤ 0xFFFF
  · exact ⟨_, _, by rw [if_neg h1, if_pos h2]; rfl, Or.inr (Or.inl ⟨by omega, h2, rfl, rfl⟩)⟩
  by_cases h3 : n ≤ 0xFFFFFFFF
  · exact ⟨_, _, by rw [if_neg h1, if_neg h2, if_pos h3]; rfl, Or.inr (Or.inr (Or.inl ⟨by omega, h3, rfl, rfl⟩))⟩
  · exact ⟨_, _, by rw [if_neg h1, if_neg h2, if_neg h3]; rfl, Or.inr (Or.inr (Or.inr ⟨by omega, rfl, rfl⟩))⟩

theorem ofNat_ne_of_lt {n : Nat} (hn : n < 0xFD) (k : Nat) (hk : 0xFD ≤ k) (hk' : k < 256) :
    UInt8.ofNat n ≠ UInt8.ofNat k := by
  intro h
  have := ofNat_inj_of_lt (by omega) hk' h
  omega

/-- `WriteVarUint` is prefix-decodable. -/
theorem varUint_append_inj (n m : Nat) (x y : Bytes) (hn : n < 2 ^ 64) (hm : m < 2 ^ 64)
    (h : varUint n ++ x = varUint m ++ y) : n = m ∧ x = y := by
  obtain ⟨b, r, hb, hcase⟩ := varUint_head n hn
  obtain ⟨b', r', hb', hcase'⟩ := varUint_head m hm
  rw [hb, hb'] at h
  simp only [List.cons_append, List.cons.injEq] at h
  obtain ⟨hbb, hrest⟩ := h
  have e253 : (0xFD : UInt8) = UInt8.ofNat 253 := rfl
  have e254 : (0xFE : UInt8) = UInt8.ofNat 254 := rfl
  have e255 : (0xFF : UInt8) = UInt8.ofNat 255 := rfl
  rcases hcase with ⟨h1, hbv, hr⟩ | ⟨h1, h2, hbv, hr⟩ | ⟨h1, h2, hbv, hr⟩ | ⟨h1, hbv, hr⟩ <;>
  rcases hcase' with ⟨g1, gbv, gr⟩ | ⟨g1, g2, gbv, gr⟩ | ⟨g1, g2, gbv, gr⟩ | ⟨g1, gbv, gr⟩ <;>
  subst hbv <;> subst gbv <;> subst hr <;> subst gr
  · exact ⟨ofNat_inj_of_lt (by omega) (by omega) hbb, by simpa using hrest⟩
  · exact absurd (e253 ▸ hbb) (ofNat_ne_of_lt h1 253 (by omega) (by omega))
  · exact absurd (e254 ▸ hbb) (ofNat_ne_of_lt h1 254 (by omega) (by omega))
  · exact absurd (e255 ▸ hbb) (ofNat_ne_of_lt h1 255 (by omega) (by omega))
  · exact absurd (e253 ▸ hbb.symm) (ofNat_ne_of_lt g1 253 (by omega) (by omega))
  · exact leBytes_append_inj 2 n m x y (by omega) (by omega) hrest
  · exact absurd hbb (by decide)
  · exact absurd hbb (by decide)
  · exact absurd (e254 ▸ hbb.symm) (ofNat_ne_of_lt g1 254 (by omega) (by omega))
  · exact absurd hbb (by decide)
  · exact leBytes_append_inj 4 n m x y (by omega) (by omega) hrest
  · exact absurd hbb (by decide)
  · exact absurd (e255 ▸ hbb.symm) (ofNat_ne_of_lt g1 255 (by omega) (by omega))
  · exact absurd hbb (by decide)
  · exact absurd hbb (by decide)
  · exact leBytes_append_inj 8 n m x y (by omega) (by omega) hrest

/-- `WriteVarBytes` is prefix-decodable. -/
theorem varBytes_append_inj (a b x y : Bytes) (ha : a.length < 2 ^ 64) (hb : b.length < 2 ^ 64)
    (h : varBytes a ++ x = varBytes b ++ y) : a = b ∧ x = y := by
  unfold varBytes at h
  rw [List.append_assoc, List.append_assoc] at h
  obtain ⟨hl, hrest⟩ := varUint_append_inj _ _ _ _ ha hb h
  exact List.append_inj hrest hl

theorem u64le_append_inj (n m : Nat) (x y : Bytes) (hn : n < 2 ^ 64) (hm : m < 2 ^ 64)
    (h : u64le n ++ x = u64le m ++ y) : n = m ∧ x = y :=
  leBytes_append_inj 8 n m x y (by omega) (by omega) h

/-- what Go guarantees for free: slice lengths and `uint64` fields are below 2^64 -/
def MakeTxParam.wf (p : MakeTxParam) : Prop :=
  p.txHash.length < 2 ^ 64 ∧ p.crossChainID.length < 2 ^ 64 ∧ p.fromContract.length < 2 ^ 64 ∧
  p.toChainID < 2 ^ 64 ∧ p.toContract.length < 2 ^ 64 ∧ p.method.length < 2 ^ 64 ∧ p.args.length < 2 ^ 64

theorem encMakeTxParam_append_inj (p q : MakeTxParam) (x y : Bytes) (hp : p.wf) (hq : q.wf)
    (h : encMakeTxParam p ++ x = encMakeTxParam q ++ y) : p = q ∧ x = y := by
  obtain ⟨p1, p2, p3, p4, p5, p6, p7⟩ := hp
  obtain ⟨q1, q2, q3, q4, q5, q6, q7⟩ := hq
  unfold encMakeTxParam at h
  simp only [List.append_assoc] at h
  obtain ⟨e1, h⟩ := varBytes_append_inj _ _ _ _ p1 q1 h
  obtain ⟨e2, h⟩ := varBytes_append_inj _ _ _ _ p2 q2 h
  obtain ⟨e3, h⟩ := varBytes_append_inj _ _ _ _ p3 q3 h
  obtain ⟨e4, h⟩ := u64le_append_inj _ _ _ _ p4 q4 h
  obtain ⟨e5, h⟩ := varBytes_append_inj _ _ _ _ p5 q5 h
  obtain ⟨e6, h⟩ := varBytes_append_inj _ _ _ _ p6 q6 h
  obtain ⟨e7, h⟩ := varBytes_append_inj _ _ _ _ p7 q7 h
  refine ⟨?_, h⟩
  cases p; cases q; simp_all

/-- The stored request value determines the relay transaction hash, the source chain and the whole message. -/
theorem encToMerkleValue_inj (t t' : Bytes) (f f' : Nat) (p p' : MakeTxParam)
    (ht : t.length < 2 ^ 64) (ht' : t'.length < 2 ^ 64) (hf : f < 2 ^ 64) (hf' : f' < 2 ^ 64)
    (hp : p.wf) (hp' : p'.wf) (h : encToMerkleValue t f p = encToMerkleValue t' f' p') :
    t = t' ∧ f = f' ∧ p = p' := by
  unfold encToMerkleValue at h
  simp only [List.append_assoc] at h
  obtain ⟨e1, h⟩ := varBytes_append_inj _ _ _ _ ht ht' h
  obtain ⟨e2, h⟩ := u64le_append_inj _ _ _ _ hf hf' h
  have h' : encMakeTxParam p ++ [] = encMakeTxParam p' ++ [] := by simpa using h
  exact ⟨e1, e2, (encMakeTxParam_append_inj p p' [] [] hp hp' h').1⟩

end Poly.Model.CCM
