import Poly.Model.EthDeposit
import Poly.Proofs.PoW
/-!
# Proofs for C23: `verifyFromEthTx` accepts exactly when every fact of the property statement holds
-/
set_option linter.unusedSectionVars false
set_option linter.unusedSimpArgs false
open Poly.Model.PoW Poly.Model.EthDeposit Poly.Model.EthHeaderRlp

namespace Poly.Proofs.EthDeposit
variable {H R : Type} [DecidableEq H]

/-- What `VerifyMerkleProof` establishes for a proof `p` against the state root `rt` and the registered contract. -/
structure MerkleFacts (K : Bytes → Bytes) (vp : Bytes → Bytes → List Bytes → VpRes) (p : EthProof) (rt ccmc : Bytes)
    (res : VpRes) : Prop where
  address : hex2Bytes (replace0x p.address) = ccmc
  account : ∃ nonce balance : Int, setString16 (replace0x p.nonce) = some nonce ∧
    setString16 (replace0x p.balance) = some balance ∧ 0 ≤ nonce ∧ 0 ≤ balance ∧
    vp rt (K ccmc) (p.accountProof.map fun s => hex2Bytes (replace0x s)) =
      .val (rlpList [rlpNat nonce.toNat, rlpNat balance.toNat, rlpBytes (hexToHash p.storageHash),
        rlpBytes (hexToHash p.codeHash)])
  storage : ∃ sp, p.storageProofs = [sp] ∧
    res = vp (hexToHash p.storageHash) (K (hexToHash sp.key)) (sp.proof.map fun s => hex2Bytes (replace0x s)) ∧
    res ≠ .err

theorem rlpList_ne_nil (items : List Bytes) : rlpList items ≠ [] := by
  unfold rlpList lenPrefix
  simp only []
  split <;> simp

theorem verifyStorage_ok_iff (K : Bytes → Bytes) (vp : Bytes → Bytes → List Bytes → VpRes) (p : EthProof) (sh : Bytes)
    (res : VpRes) : verifyStorage K vp p sh = .ok res ↔
      ∃ sp, p.storageProofs = [sp] ∧
        res = vp sh (K (hexToHash sp.key)) (sp.proof.map fun s => hex2Bytes (replace0x s)) ∧ res ≠ .err := by
  unfold verifyStorage
  cases hs : p.storageProofs with
  | nil => simp
  | cons sp rest =>
    cases rest with
    | cons a b => simp
    | nil =>
      simp only []
      by_cases he : vp sh (K (hexToHash sp.key)) (sp.proof.map fun s => hex2Bytes (replace0x s)) = .err
      · rw [if_pos he]
        constructor
        · intro h; cases h
        · rintro ⟨sp', h1, h2, h3⟩
          have : sp' = sp := by simpa using h1.symm
          subst this; rw [he] at h2; exact absurd h2 h3
      · rw [if_neg he]
        constructor
        · intro h
          have : res = vp sh (K (hexToHash sp.key)) (sp.proof.map fun s => hex2Bytes (replace0x s)) := by
            cases h; rfl
          exact ⟨sp, rfl, this, by rw [this]; exact he⟩
        · rintro ⟨sp', h1, h2, _⟩
          have : sp' = sp := by simpa using h1.symm
          subst this; rw [h2]

theorem verifyMerkleProof_ok_iff (K : Bytes → Bytes) (vp : Bytes → Bytes → List Bytes → VpRes) (p : EthProof)
    (rt ccmc : Bytes) (res : VpRes) :
    verifyMerkleProof K vp p rt ccmc = .ok res ↔ MerkleFacts K vp p rt ccmc res := by
  unfold verifyMerkleProof
  simp only []
  by_cases haddr : hex2Bytes (replace0x p.address) = ccmc
  case neg =>
    rw [if_pos haddr]
    constructor
    · intro h; cases h
    · intro h; exact absurd h.address haddr
  rw [if_neg (by simpa using haddr), haddr]
  generalize hA : vp rt (K ccmc) (p.accountProof.map fun s => hex2Bytes (replace0x s)) = acctRes
  by_cases herr : acctRes = .err
  · rw [if_pos herr]
    constructor
    · intro h; cases h
    · intro h
      obtain ⟨_, _, _, _, _, _, hv⟩ := h.account
      rw [hA, herr] at hv; cases hv
  rw [if_neg herr]
  cases hn : setString16 (replace0x p.nonce) with
  | none =>
    constructor
    · intro h; cases h
    · intro h
      obtain ⟨_, _, h1, _⟩ := h.account
      rw [hn] at h1; cases h1
  | some nonce =>
    cases hb : setString16 (replace0x p.balance) with
    | none =>
      constructor
      · intro h; cases h
      · intro h
        obtain ⟨_, _, _, h2, _⟩ := h.account
        rw [hb] at h2; cases h2
    | some balance =>
      simp only []
      by_cases hneg : nonce < 0 ∨ balance < 0
      · have : rlpAccount nonce balance (hexToHash p.storageHash) (hexToHash p.codeHash) = none := by
          simp [rlpAccount, hneg]
        rw [this]
        constructor
        · intro h; cases h
        · intro h
          obtain ⟨n', b', h1, h2, h3, h4, _⟩ := h.account
          rw [hn] at h1; rw [hb] at h2
          have e1 : nonce = n' := Option.some.inj h1
          have e2 : balance = b' := Option.some.inj h2
          omega
      · have hr : rlpAccount nonce balance (hexToHash p.storageHash) (hexToHash p.codeHash) =
            some (rlpList [rlpNat nonce.toNat, rlpNat balance.toNat, rlpBytes (hexToHash p.storageHash),
              rlpBytes (hexToHash p.codeHash)]) := by
          simp [rlpAccount, hneg]
        rw [hr]
        simp only []
        generalize hL : rlpList [rlpNat nonce.toNat, rlpNat balance.toNat, rlpBytes (hexToHash p.storageHash),
              rlpBytes (hexToHash p.codeHash)] = acctRlp
        have hLne : acctRlp ≠ [] := by rw [← hL]; exact rlpList_ne_nil _
        by_cases hm : acctRlp ≠ acctRes.bytes
        · rw [if_pos hm]
          constructor
          · intro h; cases h
          · intro h
            obtain ⟨n', b', h1, h2, _, _, hv⟩ := h.account
            rw [hn] at h1; rw [hb] at h2
            have e1 : nonce = n' := Option.some.inj h1
            have e2 : balance = b' := Option.some.inj h2
            subst e1; subst e2
            rw [hA, hL] at hv
            rw [hv] at hm
            exact absurd rfl hm
        · rw [if_neg hm]
          have hm' : acctRlp = acctRes.bytes := by simpa using hm
          have hval : acctRes = .val acctRlp := by
            cases acctRes with
            | err => exact absurd rfl herr
            | absent => simp [VpRes.bytes] at hm'; exact absurd hm' hLne
            | val v => simp [VpRes.bytes] at hm'; rw [hm']
          rw [verifyStorage_ok_iff]
          constructor
          · intro h
            exact ⟨haddr, ⟨nonce, balance, hn, hb, by omega, by omega, by rw [hA, hval, hL]⟩, h⟩
          · intro h; exact h.storage

theorem checkProofResult_iff (v k : Bytes) :
    checkProofResult v k = true ↔ ∃ w, rlpDecodeString v = some w ∧ List.replicate (32 - w.length) (0 : UInt8) ++ w = k := by
  unfold checkProofResult
  cases h : rlpDecodeString v with
  | none => simp
  | some w => simp

/-- Everything an accepted deposit establishes (and, conversely, everything that is needed for acceptance). -/
structure DepositFacts (K : Bytes → Bytes) (vp : Bytes → Bytes → List Bytes → VpRes) (root : Hdr H R → Bytes)
    (s : Store H R) (blocksToWait height : Nat) (ccmc : Bytes) (proof : Option EthProof) (extra : Bytes)
    (param : TxParam) : Prop where
  confirmed : ∃ best, currentHeader s = some best ∧ notConfirmed best.hdr.number blocksToWait height = false
  canonical : ∃ blk p v, headerByHeight s height = some blk ∧ proof = some p ∧
    MerkleFacts K vp p (root blk.hdr) ccmc (.val v) ∧
    ∃ w, rlpDecodeString v = some w ∧ List.replicate (32 - w.length) (0 : UInt8) ++ w = K extra
  message : decodeTxParam extra = some param

theorem verifyFromEthTx_ok_iff (K : Bytes → Bytes) (vp : Bytes → Bytes → List Bytes → VpRes) (root : Hdr H R → Bytes)
    (s : Store H R) (blocksToWait height : Nat) (ccmc : Bytes) (proof : Option EthProof) (extra : Bytes) (param : TxParam) :
    verifyFromEthTx K vp root s blocksToWait height ccmc proof extra = .ok param ↔
      DepositFacts K vp root s blocksToWait height ccmc proof extra param := by
  unfold verifyFromEthTx
  cases hb : currentHeader s with
  | none =>
    constructor
    · intro h; cases h
    · intro h; obtain ⟨_, h1, _⟩ := h.confirmed; rw [hb] at h1; cases h1
  | some best =>
    simp only []
    cases hc : notConfirmed best.hdr.number blocksToWait height with
    | true =>
      simp only [if_true]
      constructor
      · intro h; cases h
      · intro h
        obtain ⟨b, h1, h2⟩ := h.confirmed
        rw [hb] at h1
        have : best = b := Option.some.inj h1
        subst this; rw [hc] at h2; cases h2
    | false =>
      simp only [Bool.false_eq_true, if_false]
      cases hh : headerByHeight s height with
      | none =>
        constructor
        · intro h; cases h
        · intro h; obtain ⟨_, _, _, h1, _⟩ := h.canonical; rw [hh] at h1; cases h1
      | some blk =>
        cases proof with
        | none =>
          constructor
          · intro h; cases h
          · intro h; obtain ⟨_, _, _, _, h1, _⟩ := h.canonical; cases h1
        | some p =>
          simp only []
          -- what any witness of `canonical` must be
          have canon : ∀ {param'}, DepositFacts K vp root s blocksToWait height ccmc (some p) extra param' →
              ∃ v, MerkleFacts K vp p (root blk.hdr) ccmc (.val v) ∧
                ∃ w, rlpDecodeString v = some w ∧ List.replicate (32 - w.length) (0 : UInt8) ++ w = K extra := by
            intro param' h
            obtain ⟨blk', p', v, h0, h1, h2, h3⟩ := h.canonical
            rw [hh] at h0
            have e1 : p = p' := Option.some.inj h1
            have e2 : blk = blk' := Option.some.inj h0
            subst e1; subst e2
            exact ⟨v, h2, h3⟩
          by_cases hlen : p.storageProofs.length ≠ 1
          · rw [if_pos hlen]
            constructor
            · intro h; cases h
            · intro h
              obtain ⟨v, h2, _⟩ := canon h
              obtain ⟨sp, hsp, _⟩ := h2.storage
              rw [hsp] at hlen; exact absurd rfl hlen
          · rw [if_neg hlen]
            cases hm : verifyMerkleProof K vp p (root blk.hdr) ccmc with
            | error e =>
              constructor
              · intro h; cases h
              · intro h
                obtain ⟨v, h2, _⟩ := canon h
                rw [(verifyMerkleProof_ok_iff K vp p (root blk.hdr) ccmc (.val v)).2 h2] at hm; cases hm
            | ok res =>
              have hfacts := (verifyMerkleProof_ok_iff K vp p (root blk.hdr) ccmc res).1 hm
              have resval : ∀ {param'}, DepositFacts K vp root s blocksToWait height ccmc (some p) extra param' →
                  ∃ v, res = .val v ∧ ∃ w, rlpDecodeString v = some w ∧
                    List.replicate (32 - w.length) (0 : UInt8) ++ w = K extra := by
                intro param' h
                obtain ⟨v, h2, h3⟩ := canon h
                have := (verifyMerkleProof_ok_iff K vp p (root blk.hdr) ccmc (.val v)).2 h2
                rw [hm] at this
                have : res = .val v := by cases this; rfl
                exact ⟨v, this, h3⟩
              cases res with
              | err =>
                constructor
                · intro h; cases h
                · intro h; obtain ⟨v, hv, _⟩ := resval h; cases hv
              | absent =>
                constructor
                · intro h; cases h
                · intro h; obtain ⟨v, hv, _⟩ := resval h; cases hv
              | val v =>
                simp only []
                cases hcp : checkProofResult v (K extra) with
                | false =>
                  simp only [Bool.not_false, if_true]
                  constructor
                  · intro h; cases h
                  · intro h
                    obtain ⟨v', hv, h3⟩ := resval h
                    have : v = v' := by cases hv; rfl
                    subst this
                    rw [(checkProofResult_iff v (K extra)).2 h3] at hcp; cases hcp
                | true =>
                  simp only [Bool.not_true, Bool.false_eq_true, if_false]
                  have h3 := (checkProofResult_iff v (K extra)).1 hcp
                  cases hd : decodeTxParam extra with
                  | none =>
                    constructor
                    · intro h; cases h
                    · intro h; have := h.message; rw [hd] at this; cases this
                  | some prm =>
                    constructor
                    · intro h
                      have : prm = param := by cases h; rfl
                      subst this
                      exact ⟨⟨best, hb, hc⟩, ⟨blk, p, v, hh, rfl, hfacts, h3⟩, hd⟩
                    · intro h
                      have := h.message; rw [hd] at this
                      have : prm = param := Option.some.inj this
                      subst this; rfl


/-! ## The router-independent core -/

/-- The facts of the property statement over the two values a router reads from its header store. -/
structure CoreFacts (K : Bytes → Bytes) (vp : Bytes → Bytes → List Bytes → VpRes)
    (bestNumber : Option Nat) (blockRoot : Option Bytes) (blocksToWait height : Nat) (ccmc : Bytes)
    (proof : Option EthProof) (extra : Bytes) (param : TxParam) : Prop where
  confirmed : ∃ best, bestNumber = some best ∧ notConfirmed best blocksToWait height = false
  canonical : ∃ rt p v, blockRoot = some rt ∧ proof = some p ∧ MerkleFacts K vp p rt ccmc (.val v) ∧
    ∃ w, rlpDecodeString v = some w ∧ List.replicate (32 - w.length) (0 : UInt8) ++ w = K extra
  message : decodeTxParam extra = some param

/-- The eth router is the core over `GetCurrentHeader` / `GetHeaderByHeight`. -/
theorem verifyFromEthTx_eq_core (K : Bytes → Bytes) (vp : Bytes → Bytes → List Bytes → VpRes) (root : Hdr H R → Bytes)
    (s : Store H R) (blocksToWait height : Nat) (ccmc : Bytes) (proof : Option EthProof) (extra : Bytes) :
    verifyFromEthTx K vp root s blocksToWait height ccmc proof extra =
      verifyDeposit K vp ((currentHeader s).map fun e => e.hdr.number) ((headerByHeight s height).map fun e => root e.hdr)
        blocksToWait height ccmc proof extra := by
  unfold verifyFromEthTx verifyDeposit
  cases currentHeader s with
  | none => rfl
  | some best =>
    simp only [Option.map_some]
    cases headerByHeight s height with
    | none => rfl
    | some blk => rfl

theorem verifyDeposit_ok_iff (K : Bytes → Bytes) (vp : Bytes → Bytes → List Bytes → VpRes)
    (bestNumber : Option Nat) (blockRoot : Option Bytes) (blocksToWait height : Nat) (ccmc : Bytes)
    (proof : Option EthProof) (extra : Bytes) (param : TxParam) :
    verifyDeposit K vp bestNumber blockRoot blocksToWait height ccmc proof extra = .ok param ↔
      CoreFacts K vp bestNumber blockRoot blocksToWait height ccmc proof extra param := by
  -- instantiate the eth theorem with a one-slot store carrying exactly these two values
  cases bestNumber with
  | none =>
    constructor
    · intro h; cases h
    · intro h; obtain ⟨_, h1, _⟩ := h.confirmed; cases h1
  | some best =>
    unfold verifyDeposit
    simp only []
    cases hc : notConfirmed best blocksToWait height with
    | true =>
      simp only [if_true]
      constructor
      · intro h; cases h
      · intro h
        obtain ⟨b, h1, h2⟩ := h.confirmed
        have : best = b := Option.some.inj h1
        subst this; rw [hc] at h2; cases h2
    | false =>
      simp only [Bool.false_eq_true, if_false]
      cases blockRoot with
      | none =>
        constructor
        · intro h; cases h
        · intro h; obtain ⟨_, _, _, h1, _⟩ := h.canonical; cases h1
      | some rt =>
        cases proof with
        | none =>
          constructor
          · intro h; cases h
          · intro h; obtain ⟨_, _, _, _, h1, _⟩ := h.canonical; cases h1
        | some p =>
          simp only []
          have canon : ∀ {param'}, CoreFacts K vp (some best) (some rt) blocksToWait height ccmc (some p) extra param' →
              ∃ v, MerkleFacts K vp p rt ccmc (.val v) ∧
                ∃ w, rlpDecodeString v = some w ∧ List.replicate (32 - w.length) (0 : UInt8) ++ w = K extra := by
            intro param' h
            obtain ⟨rt', p', v, h0, h1, h2, h3⟩ := h.canonical
            have e1 : p = p' := Option.some.inj h1
            have e2 : rt = rt' := Option.some.inj h0
            subst e1; subst e2
            exact ⟨v, h2, h3⟩
          by_cases hlen : p.storageProofs.length ≠ 1
          · rw [if_pos hlen]
            constructor
            · intro h; cases h
            · intro h
              obtain ⟨v, h2, _⟩ := canon h
              obtain ⟨sp, hsp, _⟩ := h2.storage
              rw [hsp] at hlen; exact absurd rfl hlen
          · rw [if_neg hlen]
            cases hm : verifyMerkleProof K vp p rt ccmc with
            | error e =>
              constructor
              · intro h; cases h
              · intro h
                obtain ⟨v, h2, _⟩ := canon h
                rw [(verifyMerkleProof_ok_iff K vp p rt ccmc (.val v)).2 h2] at hm; cases hm
            | ok res =>
              have hfacts := (verifyMerkleProof_ok_iff K vp p rt ccmc res).1 hm
              have resval : ∀ {param'}, CoreFacts K vp (some best) (some rt) blocksToWait height ccmc (some p) extra param' →
                  ∃ v, res = .val v ∧ ∃ w, rlpDecodeString v = some w ∧
                    List.replicate (32 - w.length) (0 : UInt8) ++ w = K extra := by
                intro param' h
                obtain ⟨v, h2, h3⟩ := canon h
                have := (verifyMerkleProof_ok_iff K vp p rt ccmc (.val v)).2 h2
                rw [hm] at this
                have : res = .val v := by cases this; rfl
                exact ⟨v, this, h3⟩
              cases res with
              | err =>
                constructor
                · intro h; cases h
                · intro h; obtain ⟨v, hv, _⟩ := resval h; cases hv
              | absent =>
                constructor
                · intro h; cases h
                · intro h; obtain ⟨v, hv, _⟩ := resval h; cases hv
              | val v =>
                simp only []
                cases hcp : checkProofResult v (K extra) with
                | false =>
                  simp only [Bool.not_false, if_true]
                  constructor
                  · intro h; cases h
                  · intro h
                    obtain ⟨v', hv, h3⟩ := resval h
                    have : v = v' := by cases hv; rfl
                    subst this
                    rw [(checkProofResult_iff v (K extra)).2 h3] at hcp; cases hcp
                | true =>
                  simp only [Bool.not_true, Bool.false_eq_true, if_false]
                  have h3 := (checkProofResult_iff v (K extra)).1 hcp
                  cases hd : decodeTxParam extra with
                  | none =>
                    constructor
                    · intro h; cases h
                    · intro h; have := h.message; rw [hd] at this; cases this
                  | some prm =>
                    constructor
                    · intro h
                      have : prm = param := by cases h; rfl
                      subst this
                      exact ⟨⟨best, rfl, hc⟩, ⟨rt, p, v, rfl, rfl, hfacts, h3⟩, hd⟩
                    · intro h
                      have := h.message; rw [hd] at this
                      have : prm = param := Option.some.inj this
                      subst this; rfl

/-! ## The quorum router's proof check -/

theorem verifyFromQuorumTx_ok_iff (K : Bytes → Bytes) (vp : Bytes → Bytes → List Bytes → VpRes) (rt ccmc : Bytes)
    (proof : Option EthProof) (extra : Bytes) :
    verifyFromQuorumTx K vp rt ccmc proof extra = .ok () ↔
      ∃ p v, proof = some p ∧ MerkleFacts K vp p rt ccmc (.val v) ∧
        ∃ w, rlpDecodeString v = some w ∧ List.replicate (32 - w.length) (0 : UInt8) ++ w = K extra := by
  unfold verifyFromQuorumTx
  cases proof with
  | none =>
    constructor
    · intro h; cases h
    · rintro ⟨_, _, h1, _⟩; cases h1
  | some p =>
    simp only []
    by_cases hlen : p.storageProofs.length ≠ 1
    · rw [if_pos hlen]
      constructor
      · intro h; cases h
      · rintro ⟨p', v, h1, h2, _⟩
        have : p = p' := Option.some.inj h1
        subst this
        obtain ⟨sp, hsp, _⟩ := h2.storage
        rw [hsp] at hlen; exact absurd rfl hlen
    · rw [if_neg hlen]
      cases hm : verifyMerkleProof K vp p rt ccmc with
      | error e =>
        constructor
        · intro h; cases h
        · rintro ⟨p', v, h1, h2, _⟩
          have : p = p' := Option.some.inj h1
          subst this
          rw [(verifyMerkleProof_ok_iff K vp p rt ccmc (.val v)).2 h2] at hm; cases hm
      | ok res =>
        have hfacts := (verifyMerkleProof_ok_iff K vp p rt ccmc res).1 hm
        have resval : ∀ p' v, some p = some p' → MerkleFacts K vp p' rt ccmc (.val v) → res = .val v := by
          intro p' v h1 h2
          have : p = p' := Option.some.inj h1
          subst this
          have := (verifyMerkleProof_ok_iff K vp p rt ccmc (.val v)).2 h2
          rw [hm] at this; cases this; rfl
        cases res with
        | err =>
          constructor
          · intro h; cases h
          · rintro ⟨p', v, h1, h2, _⟩; have := resval p' v h1 h2; cases this
        | absent =>
          constructor
          · intro h; cases h
          · rintro ⟨p', v, h1, h2, _⟩; have := resval p' v h1 h2; cases this
        | val v =>
          simp only []
          cases hcp : checkProofResult v (K extra) with
          | false =>
            simp only [Bool.not_false, if_true]
            constructor
            · intro h; cases h
            · rintro ⟨p', v', h1, h2, h3⟩
              have := resval p' v' h1 h2
              have : v = v' := by cases this; rfl
              subst this
              rw [(checkProofResult_iff v (K extra)).2 h3] at hcp; cases hcp
          | true =>
            simp only [Bool.not_true, Bool.false_eq_true, if_false]
            exact ⟨fun _ => ⟨p, v, rfl, hfacts, (checkProofResult_iff v (K extra)).1 hcp⟩, fun _ => trivial⟩

/-! ## Confirmation arithmetic -/

theorem notConfirmed_false_iff (bestNumber blocksToWait height : Nat) :
    notConfirmed bestNumber blocksToWait height = false ↔
      height ≤ bestNumber % two32 ∧
        ((blocksToWait + two64 - 1) % two64) % two32 ≤ bestNumber % two32 - height := by
  unfold notConfirmed
  simp only [Bool.or_eq_false_iff, decide_eq_false_iff_not]
  omega

/-- In the regular range the check is exactly "at least `blocksToWait` confirmations". -/
theorem confirmations_regular (bestNumber blocksToWait height : Nat) (h1 : 1 ≤ blocksToWait) (h2 : blocksToWait ≤ two32)
    (hb : bestNumber < two32) :
    notConfirmed bestNumber blocksToWait height = false ↔ height + blocksToWait ≤ bestNumber + 1 := by
  rw [notConfirmed_false_iff]
  simp only [two32, two64] at *
  omega

/-- `BlocksToWait = 0` wraps to `2^32 − 1` required blocks: only height 0 under a head at `2^32 − 1` passes. -/
theorem confirmations_zero (bestNumber height : Nat) :
    notConfirmed bestNumber 0 height = false ↔ height = 0 ∧ bestNumber % two32 = two32 - 1 := by
  rw [notConfirmed_false_iff]
  simp only [two32, two64]
  omega

/-- Above `2^32` only the low 32 bits of `BlocksToWait − 1` count. -/
theorem confirmations_truncated (bestNumber blocksToWait height : Nat) (h1 : 1 ≤ blocksToWait) (h2 : blocksToWait < two64)
    (hb : bestNumber < two32) :
    notConfirmed bestNumber blocksToWait height = false ↔ height + (blocksToWait - 1) % two32 ≤ bestNumber := by
  rw [notConfirmed_false_iff]
  simp only [two32, two64] at *
  omega

/-! ## Canonical lookup over a consistent light-client store -/

theorem headerByHeight_some {s : Store H R} {n : Nat} {e : Entry H R} (h : headerByHeight s n = some e) :
    n ≤ s.cur ∧ ∃ k, s.main n = some k ∧ s.index k = some e := by
  unfold headerByHeight at h
  split at h
  · cases h
  · rename_i hn
    cases hm : s.main n with
    | none => rw [hm] at h; cases h
    | some k => rw [hm] at h; exact ⟨by omega, k, rfl, h⟩

/-- On a consistent store the block a deposit is checked against is the main-chain block of exactly that height, at
or above the trust root and at or below the head. -/
theorem lookup_is_canonical {g : Hdr H R} {s : Store H R} (inv : Poly.Proofs.PoW.Inv0 g s) {n : Nat} {e : Entry H R}
    (h : headerByHeight s n = some e) :
    g.number ≤ n ∧ n ≤ s.cur ∧ s.main n = some e.hdr.hash ∧ s.index e.hdr.hash = some e ∧ e.hdr.number = n := by
  obtain ⟨h1, k, h2, h3⟩ := headerByHeight_some h
  have hge : g.number ≤ n := by
    rcases Nat.lt_or_ge n g.number with hlt | hge
    · rw [inv.main_low n hlt] at h2; cases h2
    · exact hge
  obtain ⟨e', a, b, c⟩ := inv.main_ok n hge h1
  rw [a] at h2
  have hk : e'.hdr.hash = k := Option.some.inj h2
  rw [hk] at b
  rw [b] at h3
  have : e' = e := Option.some.inj h3
  subst this
  exact ⟨hge, h1, a, by rw [hk]; exact b, c⟩

/-- Every height between the trust root and the head has a canonical block (the lookup cannot fail there). -/
theorem lookup_total {g : Hdr H R} {s : Store H R} (inv : Poly.Proofs.PoW.Inv0 g s) (n : Nat) (h1 : g.number ≤ n)
    (h2 : n ≤ s.cur) : ∃ e, headerByHeight s n = some e := by
  obtain ⟨e, a, b, _⟩ := inv.main_ok n h1 h2
  refine ⟨e, ?_⟩
  have : ¬ n > s.cur := by omega
  simp [headerByHeight, this, a, b]

/-! ## RLP decoding inverts RLP encoding of short strings (storage values are at most 32 bytes) -/

theorem rlpDecode_encode_short (b : Bytes) (h : b.length < 56) : rlpDecodeString (rlpBytes b) = some b := by
  unfold rlpBytes
  split
  · rename_i x
    by_cases hx : x < 128
    · have hx' : x.toNat < 128 := hx
      simp [hx, rlpDecodeString, hx']
    · have hx' : ¬ x.toNat < 128 := hx
      simp only [hx, if_false, lenPrefix]
      simp [rlpDecodeString, hx']
  · rename_i hne
    simp only [lenPrefix, h, if_true]
    have hl : (UInt8.ofNat (128 + b.length)).toNat = 128 + b.length := by
      simp only [UInt8.toNat_ofNat']; omega
    simp only [List.singleton_append, rlpDecodeString, hl]
    have h1 : ¬ (128 + b.length < 128) := by omega
    have h2 : 128 + b.length < 184 := by omega
    simp only [h1, h2, if_true, if_false, Nat.add_sub_cancel_left, ne_eq, not_true_eq_false]

end Poly.Proofs.EthDeposit
