import Poly.Model.EthRules
import Poly.Model.EthHeaderRlp
import Poly.Spec.Ethereum
/-!
# Lemmas for C28: the transliterated header rules equal the specification formulas
-/
namespace Poly.Proofs.EthRules
open Poly.Model.EthRules Poly.Spec Poly.Generated

/-- The literals of the Yellow Paper formula. -/
def specParams : DiffParams := ⟨1, 2, 9, -99, 2048, 131072, 100000⟩

/-- The package variables of header_sync.go are the specification's literals (re-checked against the generated
constants on every run). -/
theorem legacyParams_eq : legacyParams = specParams := rfl
/-- The package variables of header1559.go and go-ethereum's params are the specification's literals. -/
theorem londonParams_eq : londonParams = specParams := rfl

theorem fdiv_pos (a b : Int) (hb : 0 ≤ b) : Int.fdiv a b = a / b := Int.fdiv_eq_ediv_of_nonneg a hb

/-- The common calculator body with the specification's literals and "delay seen from the parent" `d` is the Yellow
Paper difficulty with κ = d + 1, for all field values (Euclidean `Div` = floor division: the divisors are positive). -/
theorem calcCore_eq_spec (c : DiffParams) (hc : c = specParams) (d : Int) (time : Int) (p : Hdr) :
    calcCore c d time p = Ethereum.difficulty (d + 1) p.difficulty (!p.uncleEmpty) p.number p.time time := by
  obtain ⟨o, t, n, m, b, md, per⟩ := c
  simp only [specParams, DiffParams.mk.injEq] at hc
  obtain ⟨rfl, rfl, rfl, rfl, rfl, rfl, rfl⟩ := hc
  simp only [calcCore, Ethereum.difficulty, Ethereum.minimumDifficulty, Ethereum.difficultyBoundDivisor,
    Ethereum.bombPeriod, Ethereum.fdiv,
    fdiv_pos _ 2048 (by omega), fdiv_pos _ 9 (by omega), fdiv_pos _ 100000 (by omega)]
  have hf : (if p.number ≥ d then p.number - d else 0) = max (p.number + 1 - (d+1)) 0 := by omega
  rw [hf]
  generalize (max (p.number + 1 - (d+1)) 0) / 100000 = period
  generalize p.difficulty / 2048 = y
  generalize ((time:Int) - (p.time:Int)) / 9 = dt
  generalize p.difficulty = pd
  have hs : (if (if p.uncleEmpty = true then 1 - dt else 2 - dt) < -99 then -99
        else if p.uncleEmpty = true then 1 - dt else 2 - dt)
      = max ((if (!p.uncleEmpty) = true then 2 else 1) - dt) (-99) := by
    cases p.uncleEmpty <;> simp <;> omega
  rw [hs]
  generalize y * max ((if (!p.uncleEmpty) = true then 2 else 1) - dt) (-99) = adj
  generalize (2:Int) ^ (period - 2).toNat = bomb
  omega

theorem calcLegacy_eq_spec (time : Int) (p : Hdr) :
    calcLegacy time p = Ethereum.difficulty 9000000 p.difficulty (!p.uncleEmpty) p.number p.time time := by
  have h : EthConsts.BOMB_DELAY + 1 = 9000000 := rfl
  unfold calcLegacy
  rw [calcCore_eq_spec _ legacyParams_eq, h]

theorem calcWithDelay_eq_spec (kappa : Int) (time : Nat) (p : Hdr) :
    calcWithDelay kappa time p = Ethereum.difficulty kappa p.difficulty (!p.uncleEmpty) p.number p.time time := by
  have h : kappa - EthConsts.big1 + 1 = kappa := by
    have : EthConsts.big1 = 1 := rfl
    omega
  unfold calcWithDelay
  rw [calcCore_eq_spec _ londonParams_eq, h]

/-! ## fork chain -/

theorem forkChain_eq :
    EthConsts.forkChain = [("isGrayGlacier", 11400000), ("isArrowGlacier", 10700000), ("isLondon", 9700000)] := rfl

theorem u64_ofNat (n : Nat) (h : n < 2^64) : u64 (n : Int) = n := by
  simp only [u64, two64, Int.natAbs_natCast]; omega

theorem expected_unfold (id : Nat) (h p : Hdr) :
    expectedDifficulty id h p =
      if isGrayGlacier id h then some (calcWithDelay 11400000 h.time p)
      else if isArrowGlacier id h then some (calcWithDelay 10700000 h.time p)
      else if isLondon id h then some (calcWithDelay 9700000 h.time p)
      else some (calcLegacy h.time p) := by
  unfold expectedDifficulty
  rw [forkChain_eq]
  simp only [expectedFrom, predHolds]
  have e1 : ("isArrowGlacier" = "isLondon") = False := by decide
  have e2 : ("isGrayGlacier" = "isLondon") = False := by decide
  have e3 : ("isGrayGlacier" = "isArrowGlacier") = False := by decide
  simp only [e1, e2, e3, if_false, if_true]
  cases isGrayGlacier id h <;> cases isArrowGlacier id h <;> cases isLondon id h <;> rfl

/-! ## gas limit -/

theorem wrapS64_id (x : Int) (h1 : -9223372036854775808 ≤ x) (h2 : x < 9223372036854775808) : wrapS64 x = x := by
  simp only [wrapS64, two63, two64]; omega

theorem verifyGaslimit_ok_iff (P H : Nat) (hP : P < 2^63) (hH : H < 2^63) :
    verifyGaslimit P H = .ok ↔ Ethereum.GasLimitOk P H := by
  have e1 : EthConsts.GasLimitBoundDivisor.toNat = 1024 := rfl
  have e2 : EthConsts.MinGasLimit.toNat = 5000 := rfl
  unfold verifyGaslimit Ethereum.GasLimitOk Ethereum.gasLimitBoundDivisor Ethereum.minGasLimit
  rw [e1, e2, wrapS64_id P (by omega) (by omega), wrapS64_id H (by omega) (by omega),
    wrapS64_id ((P:Int) - H) (by omega) (by omega)]
  generalize P / 1024 = q
  by_cases hd : (P:Int) - H < 0
  · simp only [hd, if_true]
    rw [wrapS64_id _ (by omega) (by omega)]
    have : ((((P:Int) - H) * -1) % (two64 : Int)).toNat = H - P := by simp only [two64]; omega
    rw [this]
    split
    · simp; omega
    · split <;> simp <;> omega
  · simp only [hd, if_false]
    have : (((P:Int) - H) % (two64 : Int)).toNat = P - H := by simp only [two64]; omega
    rw [this]
    split
    · simp; omega
    · split <;> simp <;> omega

/-- `VerifyGaslimit` never panics and has exactly three outcomes. -/
theorem verifyGaslimit_cases (P H : Nat) :
    verifyGaslimit P H = .ok ∨ verifyGaslimit P H = .reject "gaslimit-bounds" ∨
      verifyGaslimit P H = .reject "gaslimit-min" := by
  unfold verifyGaslimit
  simp only []
  generalize (if wrapS64 (wrapS64 ↑P - wrapS64 ↑H) < 0 then wrapS64 (wrapS64 (wrapS64 ↑P - wrapS64 ↑H) * -1)
    else wrapS64 (wrapS64 ↑P - wrapS64 ↑H)) = d
  split
  · exact Or.inr (Or.inl rfl)
  · split
    · exact Or.inr (Or.inr rfl)
    · exact Or.inl rfl

/-! ## base fee -/

theorem dec_le (b : Int) (T u : Nat) (hb : 0 ≤ b) (hu : u < T) :
    (b * ((T - u : Nat) : Int)) / (T : Int) / 8 ≤ b := by
  have hT : (0:Int) < T := by omega
  have h1 : b * ((T - u : Nat) : Int) ≤ b * T := Int.mul_le_mul_of_nonneg_left (by omega) hb
  have h2 : (b * ((T - u : Nat) : Int)) / (T : Int) ≤ (b * T) / T := Int.ediv_le_ediv hT h1
  rw [Int.mul_ediv_cancel _ (by omega)] at h2
  have h3 : 0 ≤ (b * ((T - u : Nat) : Int)) / (T : Int) :=
    Int.ediv_nonneg (Int.mul_nonneg hb (by omega)) (by omega)
  omega

theorem calcBaseFee_london (id : Nat) (p : Hdr) (b : Int) (hL : isLondon id p = true) (hb : p.baseFee = some b)
    (h0 : 0 ≤ b) (hgl : 2 ≤ p.gasLimit) :
    calcBaseFee id p = some (Ethereum.baseFee true b p.gasLimit p.gasUsed) := by
  have e1 : EthConsts.ElasticityMultiplier.toNat = 2 := rfl
  have e2 : EthConsts.BaseFeeChangeDenominator = 8 := rfl
  unfold calcBaseFee Ethereum.baseFee Ethereum.elasticityMultiplier Ethereum.baseFeeMaxChangeDenominator Ethereum.fdiv
  simp only [hL, hb, e1, e2, Bool.not_true, Bool.false_eq_true, if_false]
  have hT : Int.fdiv (p.gasLimit : Int) ((2:Nat):Int) = ((p.gasLimit / 2 : Nat) : Int) := by
    rw [fdiv_pos _ _ (by omega)]; omega
  rw [hT]
  generalize hTd : p.gasLimit / 2 = T
  have hTpos : 0 < T := by omega
  by_cases h1 : p.gasUsed = T
  · simp [h1]
  · by_cases h2 : p.gasUsed > T
    · have : ¬ ((p.gasUsed:Int) = T) := by omega
      have h2' : (p.gasUsed:Int) > T := by omega
      have hne : ¬ T = 0 := by omega
      simp only [h1, h2, this, h2', hne, if_true, if_false]
      rw [fdiv_pos _ _ (by omega), fdiv_pos _ _ (by omega)]
      have : ((p.gasUsed - T : Nat) : Int) = (p.gasUsed : Int) - T := by omega
      rw [this]
      simp only [bigMax]
      congr 1
      omega
    · have : ¬ ((p.gasUsed:Int) = T) := by omega
      have h2' : ¬ (p.gasUsed:Int) > T := by omega
      simp only [h1, h2, this, h2', if_false]
      rw [fdiv_pos _ _ (by omega), fdiv_pos _ _ (by omega)]
      have hc : ((T - p.gasUsed : Nat) : Int) = (T : Int) - p.gasUsed := by omega
      have := dec_le b T p.gasUsed h0 (by omega)
      rw [hc] at this
      rw [hc]
      simp only [bigMax]
      congr 1
      omega

theorem calcBaseFee_fork (id : Nat) (p : Hdr) (hL : isLondon id p = false) :
    calcBaseFee id p = some (Ethereum.baseFee false 0 p.gasLimit p.gasUsed) := by
  unfold calcBaseFee Ethereum.baseFee
  simp [hL]
  rfl

/-! ## primality by trial division and the size loop -/

theorem noDiv_sound (n : Nat) : ∀ (fuel d : Nat), 1 ≤ d → n < d + fuel → noDivisorFrom n fuel d = true →
    ∀ k, d ≤ k → k * k ≤ n → n % k ≠ 0 := by
  intro fuel
  induction fuel with
  | zero =>
    intro d hd hn _ k hk hkk
    have : k ≤ k * k := Nat.le_mul_self k
    omega
  | succ f ih =>
    intro d hd hn h k hk hkk
    simp only [noDivisorFrom] at h
    split at h
    · rename_i hdd
      have : d * d ≤ k * k := Nat.mul_le_mul hk hk
      omega
    · split at h
      · simp at h
      · rename_i _ hmod
        by_cases hkd : k = d
        · subst hkd; exact hmod
        · exact ih (d+1) (by omega) (by omega) h k (by omega) hkk

theorem noDiv_complete (n : Nat) (hp : Ethereum.IsPrime n) :
    ∀ (fuel d : Nat), 2 ≤ d → noDivisorFrom n fuel d = true := by
  intro fuel
  induction fuel with
  | zero => intro d _; rfl
  | succ f ih =>
    intro d hd
    simp only [noDivisorFrom]
    split
    · rfl
    · rename_i hdd
      split
      · rename_i hmod
        exfalso
        have hdvd : d ∣ n := Nat.dvd_of_mod_eq_zero hmod
        rcases hp.2 d hdvd with h | h
        · omega
        · subst h
          have : 2 * d ≤ d * d := Nat.mul_le_mul_right d hd
          omega
      · exact ih (d+1) (by omega)

/-- Trial division decides primality. -/
theorem isPrime_iff (n : Nat) : isPrime n = true ↔ Ethereum.IsPrime n := by
  constructor
  · intro h
    simp only [isPrime, Bool.and_eq_true, decide_eq_true_eq] at h
    obtain ⟨h2, hnd⟩ := h
    have nd := noDiv_sound n n 2 (by omega) (by omega) hnd
    refine ⟨h2, ?_⟩
    intro d hd
    obtain ⟨e, he⟩ := hd
    by_cases h1 : d = 1
    · exact Or.inl h1
    · by_cases hn : d = n
      · exact Or.inr hn
      · exfalso
        have hdpos : 0 < d := by
          rcases Nat.eq_zero_or_pos d with h0 | h0
          · subst h0; simp at he; omega
          · exact h0
        have hepos : 0 < e := by
          rcases Nat.eq_zero_or_pos e with h0 | h0
          · subst h0; simp at he; omega
          · exact h0
        have he1 : e ≠ 1 := by intro h; subst h; simp at he; omega
        by_cases hle : d ≤ e
        · have : d * d ≤ d * e := Nat.mul_le_mul_left d hle
          have := nd d (by omega) (by omega)
          apply this
          rw [he]; exact Nat.mul_mod_right d e
        · have : e * e ≤ d * e := Nat.mul_le_mul_right e (by omega)
          have := nd e (by omega) (by omega)
          apply this
          rw [he]; exact Nat.mul_mod_left d e
  · intro hp
    simp only [isPrime, Bool.and_eq_true, decide_eq_true_eq]
    exact ⟨hp.1, noDiv_complete n hp n 2 (by omega)⟩

/-- The loop returns the first size, going down from `size` in steps of two items, whose item count is prime. -/
theorem sizeLoop_spec (unit : Nat) : ∀ (fuel size sz : Nat), sizeLoop unit fuel size = some sz →
    (∃ k, sz + 2 * unit * k = size) ∧ Ethereum.IsPrime (sz / unit) ∧
    ∀ sz' k', sz < sz' → sz' + 2 * unit * k' = size → ¬ Ethereum.IsPrime (sz' / unit) := by
  intro fuel
  induction fuel with
  | zero => intro size sz h; simp [sizeLoop] at h
  | succ f ih =>
    intro size sz h
    simp only [sizeLoop] at h
    split at h
    · rename_i hp
      simp at h; subst h
      refine ⟨⟨0, by omega⟩, (isPrime_iff _).1 hp, ?_⟩
      intro sz' k' hlt he
      exfalso
      have : 0 ≤ 2 * unit * k' := Nat.zero_le _
      omega
    · rename_i hnp
      split at h
      · simp at h
      · rename_i hge
        obtain ⟨⟨k, hk⟩, hpr, hmax⟩ := ih _ _ h
        refine ⟨⟨k+1, ?_⟩, hpr, ?_⟩
        · rw [Nat.mul_add]; omega
        · intro sz' k' hlt he
          rcases Nat.eq_zero_or_pos k' with h0 | h0
          · subst h0
            have : sz' = size := by omega
            subst this
            intro hp; exact hnp ((isPrime_iff _).2 hp)
          · apply hmax sz' (k' - 1) hlt
            have : 2 * unit * k' = 2 * unit * (k' - 1) + 2 * unit := by
              rw [← Nat.mul_succ]; congr 1; omega
            omega

/-! ## fork heights, eras -/

theorem h4345_main : eth4345Height 1 = 13773000 := by decide
theorem h1559_main : eth1559Height 1 = 12965000 := by decide
theorem h5133_main : eth5133Height 1 = 15050000 := by decide
theorem h4345_test : eth4345Height 2 = 0 := by decide
theorem h1559_test : eth1559Height 2 = 10499401 := by decide
theorem h5133_test : eth5133Height 2 = 0 := by decide

theorem difficulty_mainnet_eras (h p : Hdr) (n : Nat) (hn : h.number = (n : Int)) (h64 : n < 2^64)
    (hbf : n < 12965000 → h.baseFee = none) (era : Ethereum.Era)
    (he : Ethereum.mainnetEra n = some era) :
    expectedDifficulty 1 h p =
      some (Ethereum.difficulty era.kappa p.difficulty (!p.uncleEmpty) p.number p.time h.time) := by
  rw [expected_unfold]
  simp only [isGrayGlacier, isArrowGlacier, isLondon, h5133_main, h4345_main, h1559_main, hn, u64_ofNat n h64]
  unfold Ethereum.mainnetEra at he
  split at he
  · simp at he; subst he
    have : n ≥ 15050000 := by omega
    simp [this, calcWithDelay_eq_spec, Ethereum.Era.kappa]
  · split at he
    · simp at he; subst he
      have h0 : ¬ n ≥ 15050000 := by omega
      have : n ≥ 13773000 := by omega
      simp [h0, this, calcWithDelay_eq_spec, Ethereum.Era.kappa]
    · split at he
      · simp at he; subst he
        have h0 : ¬ n ≥ 15050000 := by omega
        have h1 : ¬ n ≥ 13773000 := by omega
        have h2 : n ≥ 12965000 := by omega
        simp [h0, h1, h2, calcWithDelay_eq_spec, Ethereum.Era.kappa]
      · split at he
        · simp at he; subst he
          have h0 : ¬ n ≥ 15050000 := by omega
          have h1 : ¬ n ≥ 13773000 := by omega
          have h2 : ¬ n ≥ 12965000 := by omega
          have h3 := hbf (by omega)
          simp [h0, h1, h2, h3, calcLegacy_eq_spec, Ethereum.Era.kappa]
        · simp at he

/-! ## EIP-1559 header check -/

/-- EIP-1559 header check accepts exactly the spec's gas-limit window (parent limit doubled at the fork block) and base fee. -/
theorem eip1559_accept_iff_spec (id : Nat) (p h : Hdr)
    (hpgl : p.gasLimit < 2^62) (hpgl2 : 2 ≤ p.gasLimit) (hcap : h.gasLimit < 2^63)
    (hpbf : isLondon id p = true → ∃ b, p.baseFee = some b ∧ 0 ≤ b) :
    verifyEip1559Header id p h = .ok ↔
      (Ethereum.GasLimitOk (Ethereum.eip1559ParentGasLimit (isLondon id p) p.gasLimit) h.gasLimit ∧
       h.baseFee = some (Ethereum.baseFee (isLondon id p) (p.baseFee.getD 0) p.gasLimit p.gasUsed)) := by
  have e1 : EthConsts.ElasticityMultiplier.toNat = 2 := rfl
  unfold verifyEip1559Header
  simp only [e1]
  have hpglval : (if (!isLondon id p) = true then p.gasLimit * 2 % two64 else p.gasLimit)
      = Ethereum.eip1559ParentGasLimit (isLondon id p) p.gasLimit := by
    unfold Ethereum.eip1559ParentGasLimit Ethereum.elasticityMultiplier
    cases isLondon id p <;> simp [two64] <;> omega
  rw [hpglval]
  have hlt : Ethereum.eip1559ParentGasLimit (isLondon id p) p.gasLimit < 2^63 := by
    unfold Ethereum.eip1559ParentGasLimit Ethereum.elasticityMultiplier
    cases isLondon id p <;> simp <;> omega
  have hiff := verifyGaslimit_ok_iff _ h.gasLimit hlt hcap
  generalize Ethereum.eip1559ParentGasLimit (isLondon id p) p.gasLimit = P at *
  have hcb : calcBaseFee id p = some (Ethereum.baseFee (isLondon id p) (p.baseFee.getD 0) p.gasLimit p.gasUsed) := by
    cases hL : isLondon id p
    · rw [calcBaseFee_fork id p hL]
      unfold Ethereum.baseFee; simp
    · obtain ⟨b, hb, h0⟩ := hpbf hL
      rw [calcBaseFee_london id p b hL hb h0 hpgl2, hb]; rfl
  rcases verifyGaslimit_cases P h.gasLimit with hv | hv | hv
  · rw [hv]
    have hok := hiff.1 hv
    simp only [hok, true_and]
    cases hbf : h.baseFee with
    | none => simp
    | some bf =>
      simp only [hcb]
      split
      · rename_i heq; simp [heq]
      · rename_i hne; simp; exact hne
  · rw [hv]
    have : ¬ Ethereum.GasLimitOk P h.gasLimit := fun hh => by rw [hiff.2 hh] at hv; cases hv
    simp [this]
  · rw [hv]
    have : ¬ Ethereum.GasLimitOk P h.gasLimit := fun hh => by rw [hiff.2 hh] at hv; cases hv
    simp [this]

/-! ## the whole rule sequence -/

/-- What the Ethereum specification demands of a main-net header `h` with parent `p` (London = 12 965 000). -/
def SpecValidMainnet (p h : Hdr) (extraLen : Nat) (pn hn : Nat) : Prop :=
  hn = pn + 1 ∧ extraLen ≤ 32 ∧ h.time > p.time ∧ h.gasUsed ≤ h.gasLimit ∧
  (if hn ≥ 12965000 then
      Ethereum.GasLimitOk (Ethereum.eip1559ParentGasLimit (decide (pn ≥ 12965000)) p.gasLimit) h.gasLimit ∧
      h.baseFee = some (Ethereum.baseFee (decide (pn ≥ 12965000)) (p.baseFee.getD 0) p.gasLimit p.gasUsed)
    else Ethereum.GasLimitOk p.gasLimit h.gasLimit ∧ h.baseFee = none) ∧
  ∃ era, Ethereum.mainnetEra hn = some era ∧
    h.difficulty = Ethereum.difficulty era.kappa p.difficulty (!p.uncleEmpty) p.number p.time h.time

theorem verdict_cases1559 (id p h) : verifyEip1559Header id p h = .ok ∨ ∃ v, verifyEip1559Header id p h = v ∧ v ≠ .ok := by
  by_cases h1 : verifyEip1559Header id p h = .ok
  · exact Or.inl h1
  · exact Or.inr ⟨_, rfl, h1⟩

theorem rules_accept_iff_spec (p h : Hdr) (extraLen pn hn : Nat)
    (hpn : p.number = (pn : Int)) (hhn : h.number = (hn : Int)) (hpn64 : pn + 1 < 2^64) (hhn64 : hn < 2^64)
    (hera : 9200000 ≤ hn)
    (hpgl : p.gasLimit < 2^62) (hpgl2 : 2 ≤ p.gasLimit)
    (hpbf : pn ≥ 12965000 → ∃ b, p.baseFee = some b ∧ 0 ≤ b) (hpbf' : pn < 12965000 → p.baseFee = none)
    (hhbf : hn < 12965000 → h.baseFee = none) :
    checkRules 1 p h extraLen = .ok ↔ (h.gasLimit < 2^63 ∧ SpecValidMainnet p h extraLen pn hn) := by
  have e1 : EthConsts.MaximumExtraDataSize.toNat = 32 := rfl
  have hLp : isLondon 1 p = decide (pn ≥ 12965000) := by
    simp only [isLondon, h1559_main, hpn, u64_ofNat pn (by omega)]
    by_cases hc : pn ≥ 12965000
    · simp [hc]
    · simp [hc, hpbf' (by omega)]
  have hLh : isLondon 1 h = decide (hn ≥ 12965000) := by
    simp only [isLondon, h1559_main, hhn, u64_ofNat hn hhn64]
    by_cases hc : hn ≥ 12965000
    · simp [hc]
    · simp [hc, hhbf (by omega)]
  unfold checkRules SpecValidMainnet
  simp only [hpn, hhn, u64_ofNat pn (by omega), u64_ofNat hn hhn64, e1, hLh]
  have hmod : (pn + 1) % two64 = pn + 1 := by simp only [two64]; omega
  rw [hmod]
  by_cases c1 : hn = pn + 1
  case neg => simp [c1]
  subst c1
  by_cases c2 : extraLen > 32
  · simp [c2]; omega
  by_cases c3 : h.time ≤ p.time
  · simp [c2, c3]; omega
  by_cases c4 : h.gasLimit > 9223372036854775807
  · simp [c2, c3, c4]; omega
  by_cases c5 : h.gasUsed > h.gasLimit
  · simp [c2, c3, c4, c5]; omega
  have c2' : extraLen ≤ 32 := by omega
  have c3' : h.time > p.time := by omega
  have c4' : h.gasLimit < 2^63 := by omega
  have c5' : h.gasUsed ≤ h.gasLimit := by omega
  simp only [c2, c3, c4, c5, if_false, not_true, ne_eq, c2', c3', c4', c5', true_and]
  -- difficulty
  obtain ⟨era, hera'⟩ : ∃ era, Ethereum.mainnetEra (pn+1) = some era := by
    unfold Ethereum.mainnetEra
    have b2 : pn + 1 ≥ 9200000 := by omega
    by_cases a0 : pn+1 ≥ 15050000
    · exact ⟨.grayGlacier, by simp only [a0, if_true]⟩
    · by_cases a1 : pn+1 ≥ 13773000
      · exact ⟨.arrowGlacier, by simp only [a0, a1, if_true, if_false]⟩
      · by_cases a2 : pn+1 ≥ 12965000
        · exact ⟨.london, by simp only [a0, a1, a2, if_true, if_false]⟩
        · exact ⟨.muirGlacier, by simp only [a0, a1, a2, b2, if_true, if_false]⟩
  have hd := difficulty_mainnet_eras h p (pn+1) hhn hhn64 hhbf era hera'
  have hdiffiff : (∃ era, Ethereum.mainnetEra (pn+1) = some era ∧
      h.difficulty = Ethereum.difficulty era.kappa p.difficulty (!p.uncleEmpty) p.number p.time h.time) ↔
      Ethereum.difficulty era.kappa p.difficulty (!p.uncleEmpty) p.number p.time h.time = h.difficulty := by
    constructor
    · rintro ⟨e, he, hq⟩
      rw [hera'] at he; cases he; exact hq.symm
    · intro hq; exact ⟨era, hera', hq.symm⟩
  rw [hpn] at hd hdiffiff
  rw [hdiffiff, hd]
  by_cases cL : pn+1 ≥ 12965000
  · simp only [cL, decide_true, if_true]
    have hpL : isLondon 1 p = true → ∃ b, p.baseFee = some b ∧ 0 ≤ b := by
      intro hh; rw [hLp] at hh; exact hpbf (by simpa using hh)
    have hiff := eip1559_accept_iff_spec 1 p h hpgl hpgl2 c4' hpL
    rw [hLp] at hiff
    rcases verdict_cases1559 1 p h with hv | ⟨v, hv, hne⟩
    · rw [hv]; simp only [hiff.1 hv, true_and]
      split
      · rename_i heq; simp [heq]
      · rename_i hne; simp; exact hne
    · have : ¬ (Ethereum.GasLimitOk (Ethereum.eip1559ParentGasLimit (decide (pn ≥ 12965000)) p.gasLimit) h.gasLimit ∧
         h.baseFee = some (Ethereum.baseFee (decide (pn ≥ 12965000)) (p.baseFee.getD 0) p.gasLimit p.gasUsed)) :=
        fun hh => hne (by rw [← hv]; exact hiff.2 hh)
      rw [hv]
      simp only [this, false_and, iff_false]
      cases v <;> simp_all
  · simp only [cL, decide_false, if_false, Bool.false_eq_true]
    have hbn := hhbf (by omega)
    have hiff := verifyGaslimit_ok_iff p.gasLimit h.gasLimit (by omega) c4'
    rcases verifyGaslimit_cases p.gasLimit h.gasLimit with hv | hv | hv
    · rw [hv]; simp only [hiff.1 hv, hbn, true_and]
      split
      · rename_i heq; simp [heq]
      · rename_i hne; simp; exact hne
    · have : ¬ Ethereum.GasLimitOk p.gasLimit h.gasLimit := fun hh => by rw [hiff.2 hh] at hv; cases hv
      rw [hv]; simp [this]
    · have : ¬ Ethereum.GasLimitOk p.gasLimit h.gasLimit := fun hh => by rw [hiff.2 hh] at hv; cases hv
      rw [hv]; simp [this]

end Poly.Proofs.EthRules
