import Poly.Proofs.GovConsumed
/-! Validator pool: single-step facts about the node manager (C34). -/
namespace Poly.Model.Gov

theorem wrapSub_ne (v : Nat) : wrapSub32 v 1 ≠ v + 1 := by
  unfold wrapSub32; omega

/-- `executeCommitDpos`, spelled out. -/
theorem commit_spec {s s' : State} (h : executeCommitDpos s = .ok s') :
    ∃ gv pool, curPool s = some (gv, pool) ∧ s.height ≠ gv.height ∧
      s'.gv = some { view := gv.view + 1, height := s.height } ∧
      curPool s' = some ({ view := gv.view + 1, height := s.height },
        (pool.filter (fun it => it.status.active)).map (fun it => { it with status := Status.cons })) ∧
      s'.height = s.height := by
  simp only [executeCommitDpos] at h
  split at h
  · cases h
  · rename_i gv pool hcp
    split at h
    · cases h
    · rename_i hne
      injection h with h; subst h
      refine ⟨gv, pool, hcp, hne, rfl, ?_, rfl⟩
      simp only [curPool]
      rw [alGet_erase_ne _ _ _ (wrapSub_ne gv.view).symm, alGet_put_self]

theorem active_of_cons (it : PeerItem) : ({ it with status := Status.cons } : PeerItem).status.active = true := rfl

theorem activeCount_commit (pool : List PeerItem) :
    activeCount ((pool.filter (fun it => it.status.active)).map (fun it => { it with status := Status.cons })) = activeCount pool := by
  unfold activeCount
  rw [List.filter_map, List.length_map]
  have : ((fun it : PeerItem => it.status.active) ∘ fun (it : PeerItem) => ({ it with status := Status.cons } : PeerItem)) = fun _ => true := by
    funext it; rfl
  rw [this]; simp

/-! ## pool invariants -/

/-- the public key a pool entry stands for (decoded bytes of its key string) -/
def itemKey (it : PeerItem) : Option Bytes := decodePk it.pk

/-- Invariants of the pool of the current view, relative to the index and request tables. -/
structure PoolOK (s : State) (pool : List PeerItem) : Prop where
  four : 4 ≤ activeCount pool
  keysNodup : (pool.map itemKey).Nodup
  idx : ∀ it ∈ pool, ∃ kb, itemKey it = some kb ∧ alGet s.pidx kb = some it.index
  applyOut : ∀ kb r, alGet s.apply kb = some r → ∀ it ∈ pool, itemKey it ≠ some kb

/-- Indices are handed out once: the index table is injective and below the next free index. -/
structure IdxOK (s : State) : Prop where
  inj : ∀ k1 k2 i, alGet s.pidx k1 = some i → alGet s.pidx k2 = some i → k1 = k2
  below : ∀ k i, alGet s.pidx k = some i → ∃ ci, s.candIndex = some ci ∧ i < ci

def PoolInv (s : State) : Prop := ∃ gv pool, curPool s = some (gv, pool) ∧ PoolOK s pool ∧ IdxOK s

theorem curPool_eq {s t : State} (h1 : t.gv = s.gv) (h2 : t.pools = s.pools) : curPool t = curPool s := by
  unfold curPool; rw [h1, h2]

theorem PoolInv_of_eq {s t : State} (h : PoolInv s) (h1 : t.gv = s.gv) (h2 : t.pools = s.pools) (h3 : t.pidx = s.pidx)
    (h4 : t.candIndex = s.candIndex) (h5 : t.apply = s.apply) : PoolInv t := by
  obtain ⟨gv, pool, hcp, hok, hidx⟩ := h
  refine ⟨gv, pool, by rw [curPool_eq h1 h2]; exact hcp, ?_, ?_⟩
  · exact ⟨hok.four, hok.keysNodup, by rw [h3]; exact hok.idx, by rw [h5]; exact hok.applyOut⟩
  · exact ⟨by rw [h3]; exact hidx.inj, by rw [h3, h4]; exact hidx.below⟩

theorem nodup_of_map_nodup {α β : Type} (f : α → β) : ∀ (l : List α), (l.map f).Nodup → l.Nodup
  | [], _ => List.nodup_nil
  | a :: t, h => by
    have hc := List.nodup_cons.1 h
    exact List.nodup_cons.2 ⟨fun hm => hc.1 (List.mem_map_of_mem hm), nodup_of_map_nodup f t hc.2⟩

/-- the key strings of a pool with distinct keys are distinct -/
theorem pk_nodup_of_keys {pool : List PeerItem} (h : (pool.map itemKey).Nodup) : (pool.map (·.pk)).Nodup := by
  have : pool.map itemKey = (pool.map (·.pk)).map decodePk := by simp [itemKey, List.map_map, Function.comp_def]
  rw [this] at h
  exact nodup_of_map_nodup _ _ h

theorem activeCount_cons (it : PeerItem) (rest : List PeerItem) :
    activeCount (it :: rest) = (if it.status.active then 1 else 0) + activeCount rest := by
  unfold activeCount
  by_cases h : it.status.active = true
  · simp [List.filter_cons, h]; omega
  · simp [List.filter_cons, h]

/-- Changing the status of the entry of one key string lowers the active count by at most one. -/
theorem activeCount_setStatus (pool : List PeerItem) (pk : String) (st : Status) (hn : (pool.map (·.pk)).Nodup) :
    activeCount pool ≤ activeCount (poolSetStatus pool pk st) + 1 := by
  induction pool with
  | nil => simp [activeCount]
  | cons it rest ih =>
    have hnd := List.nodup_cons.1 hn
    simp only [poolSetStatus, List.map_cons] at ih ⊢
    rw [activeCount_cons, activeCount_cons]
    by_cases hpk : it.pk = pk
    · -- the rest does not contain this key string: it is unchanged
      have hrest : List.map (fun it => if it.pk = pk then { it with status := st } else it) rest = rest := by
        have : List.map (fun it => if it.pk = pk then { it with status := st } else it) rest = List.map id rest := by
          apply List.map_congr_left
          intro x hx
          have : x.pk ≠ pk := by
            intro e; apply hnd.1; show it.pk ∈ _; rw [hpk, ← e]; exact List.mem_map_of_mem (f := fun x => x.pk) hx
          simp [this]
        rw [this, List.map_id]
      rw [hrest]
      simp only [hpk, if_true]
      split <;> split <;> omega
    · rw [if_neg hpk]
      have := ih hnd.2
      omega

theorem setStatus_map_pk (pool : List PeerItem) (pk : String) (st : Status) :
    (poolSetStatus pool pk st).map (·.pk) = pool.map (·.pk) := by
  unfold poolSetStatus
  rw [List.map_map]
  apply List.map_congr_left
  intro it _
  simp only [Function.comp]
  split <;> rfl

theorem setStatus_map_key (pool : List PeerItem) (pk : String) (st : Status) :
    (poolSetStatus pool pk st).map itemKey = pool.map itemKey := by
  unfold poolSetStatus
  rw [List.map_map]
  apply List.map_congr_left
  intro it _
  simp only [Function.comp, itemKey]
  split <;> rfl

theorem mem_setStatus {pool : List PeerItem} {pk : String} {st : Status} {x : PeerItem} (h : x ∈ poolSetStatus pool pk st) :
    ∃ it ∈ pool, x.pk = it.pk ∧ x.index = it.index := by
  unfold poolSetStatus at h
  obtain ⟨it, hit, rfl⟩ := List.mem_map.1 h
  refine ⟨it, hit, ?_⟩
  split <;> exact ⟨rfl, rfl⟩

/-- A status change keeps every pool invariant except possibly the count. -/
theorem PoolOK_setStatus {s : State} {pool : List PeerItem} (h : PoolOK s pool) (pk : String) (st : Status)
    (h4 : 4 ≤ activeCount (poolSetStatus pool pk st)) : PoolOK s (poolSetStatus pool pk st) := by
  refine ⟨h4, by rw [setStatus_map_key]; exact h.keysNodup, ?_, ?_⟩
  · intro x hx
    obtain ⟨it, hit, h1, h2⟩ := mem_setStatus hx
    obtain ⟨kb, hk, hi⟩ := h.idx it hit
    exact ⟨kb, by simp only [itemKey, h1]; exact hk, by rw [h2]; exact hi⟩
  · intro kb r hr x hx
    obtain ⟨it, hit, h1, _⟩ := mem_setStatus hx
    simp only [itemKey, h1]; exact h.applyOut kb r hr it hit

/-- The pool of the next epoch (active members, all consensus) keeps the invariants. -/
theorem PoolOK_commit {s : State} {pool : List PeerItem} (h : PoolOK s pool) :
    PoolOK s ((pool.filter (fun it => it.status.active)).map (fun it => { it with status := Status.cons })) := by
  have hkeys : ((pool.filter (fun it => it.status.active)).map (fun it => ({ it with status := Status.cons } : PeerItem))).map itemKey
      = (pool.filter (fun it => it.status.active)).map itemKey := by
    rw [List.map_map]; rfl
  refine ⟨by rw [activeCount_commit]; exact h.four, ?_, ?_, ?_⟩
  · rw [hkeys]
    exact List.Nodup.sublist (List.Sublist.map _ (List.filter_sublist)) h.keysNodup
  · intro x hx
    obtain ⟨it, hit, rfl⟩ := List.mem_map.1 hx
    exact h.idx it (List.mem_filter.1 hit).1
  · intro kb r hr x hx
    obtain ⟨it, hit, rfl⟩ := List.mem_map.1 hx
    exact h.applyOut kb r hr it (List.mem_filter.1 hit).1

theorem PoolInv_commit {s s' : State} (h : PoolInv s) (hc : executeCommitDpos s = .ok s') : PoolInv s' := by
  obtain ⟨gv, pool, hcp, hok, hidx⟩ := h
  obtain ⟨gv', pool', hcp', _, _, hnew, _⟩ := commit_spec hc
  rw [hcp] at hcp'; injection hcp' with e; injection e with e1 e2; subst e1; subst e2
  have hfr := commit_frame hc
  refine ⟨_, _, hnew, ?_, ?_⟩
  · have := PoolOK_commit hok
    exact ⟨this.four, this.keysNodup, by rw [hfr]; exact this.idx, by rw [hfr]; exact this.applyOut⟩
  · exact ⟨by rw [hfr]; exact hidx.inj, by rw [hfr]; exact hidx.below⟩

/-- the second loop of BlackNode only changes statuses; each listed key lowers the active count by at most one -/
theorem blackLoop_spec (s : State) : ∀ (pks : List String) (pool : List PeerItem) (bl : List (Bytes × (String × Addr))) (c : Bool)
    (pool' : List PeerItem) (bl' : List (Bytes × (String × Addr))) (c' : Bool),
    blackLoop pks pool bl c = some (pool', bl', c') → PoolOK s pool → 4 + pks.length ≤ activeCount pool → PoolOK s pool'
  | [], pool, bl, c, pool', bl', c', h, hok, _ => by
    simp only [blackLoop] at h; injection h with h; injection h with h1 h2; subst h1; exact hok
  | pk :: rest, pool, bl, c, pool', bl', c', h, hok, hcnt => by
    simp only [blackLoop] at h
    split at h
    · cases h
    · split at h
      · cases h
      · have hdec := activeCount_setStatus pool pk Status.black (pk_nodup_of_keys hok.keysNodup)
        simp only [List.length_cons] at hcnt
        have hok' : PoolOK s (poolSetStatus pool pk Status.black) := PoolOK_setStatus hok pk Status.black (by omega)
        exact blackLoop_spec s rest _ _ _ pool' bl' c' h hok' (by omega)

theorem curPool_gv {s : State} {gv : GovView} {pool : List PeerItem} (h : curPool s = some (gv, pool)) :
    s.gv = some gv ∧ alGet s.pools gv.view = some pool := by
  simp only [curPool] at h
  split at h
  · cases h
  · rename_i g hg
    split at h
    · cases h
    · rename_i p hp
      injection h with h; injection h with h1 h2; subst h1; subst h2
      exact ⟨hg, hp⟩

theorem allocIndex_spec {s1 s2 : State} {kb : Bytes} {i : Nat} (h : allocIndex s1 kb = some (i, s2)) (hidx : IdxOK s1) :
    IdxOK s2 ∧ alGet s2.pidx kb = some i ∧ (∀ k, k ≠ kb → alGet s2.pidx k = alGet s1.pidx k) := by
  simp only [allocIndex] at h
  split at h
  · rename_i i' hget
    injection h with h; injection h with h1 h2; subst h1; subst h2
    exact ⟨hidx, hget, fun _ _ => rfl⟩
  · rename_i hnone
    split at h
    · cases h
    · rename_i ci hci
      injection h with h; injection h with h1 h2; subst h1; subst h2
      refine ⟨⟨?_, ?_⟩, alGet_put_self _ _ _, fun k hk => alGet_put_ne _ _ _ _ hk⟩
      · intro k1 k2 j h1 h2
        simp only at h1 h2
        by_cases e1 : k1 = kb
        · by_cases e2 : k2 = kb
          · rw [e1, e2]
          · exfalso
            subst e1
            rw [alGet_put_self] at h1; injection h1 with h1; subst h1
            rw [alGet_put_ne _ _ _ _ e2] at h2
            obtain ⟨c, hc, hlt⟩ := hidx.below k2 _ h2
            rw [hci] at hc; injection hc with hc; omega
        · by_cases e2 : k2 = kb
          · exfalso
            subst e2
            rw [alGet_put_self] at h2; injection h2 with h2; subst h2
            rw [alGet_put_ne _ _ _ _ e1] at h1
            obtain ⟨c, hc, hlt⟩ := hidx.below k1 _ h1
            rw [hci] at hc; injection hc with hc; omega
          · rw [alGet_put_ne _ _ _ _ e1] at h1; rw [alGet_put_ne _ _ _ _ e2] at h2
            exact hidx.inj k1 k2 j h1 h2
      · intro k j hj
        simp only at hj ⊢
        by_cases e : k = kb
        · subst e; rw [alGet_put_self] at hj; injection hj with hj; subst hj
          exact ⟨ci + 1, rfl, by omega⟩
        · rw [alGet_put_ne _ _ _ _ e] at hj
          obtain ⟨c, hc, hlt⟩ := hidx.below k j hj
          rw [hci] at hc; injection hc with hc; subst hc
          exact ⟨ci + 1, rfl, by omega⟩

theorem activeCount_append_cand (pool : List PeerItem) (it : PeerItem) (h : it.status = Status.cand) :
    activeCount (pool ++ [it]) = activeCount pool + 1 := by
  unfold activeCount
  rw [List.filter_append, List.length_append]
  simp [h, Status.active]

/-- The approved candidate enters the pool of the current view once, with its own index. -/
theorem PoolInv_candidate {key apk : String} {aaddr : Addr} {kb : Bytes} {s1 s2 : State} {n : String}
    (hkey : decodePk key = some kb) (happly : alGet s1.apply kb = some (apk, aaddr)) (hcanon : decodePk apk = some kb)
    (hinv : PoolInv s1) (hf : candidateEffect key apk aaddr s1 = .ok (s2, n)) : PoolInv s2 := by
  obtain ⟨gv, pool, hcp, hok, hidx⟩ := hinv
  simp only [candidateEffect, hcanon] at hf
  split at hf
  · cases hf
  · rename_i idx s2' halloc
    obtain ⟨hidx', hself, hother⟩ := allocIndex_spec halloc hidx
    have hfr := allocIndex_frame halloc
    have hcp' : curPool s2' = some (gv, pool) := by rw [hfr]; exact hcp
    simp only [hcp'] at hf
    injection hf with hf; injection hf with hf1 hf2; subst hf1
    -- no entry is stored under the approver's key string: the filter removes nothing
    have hnone : ∀ it ∈ pool, itemKey it ≠ some kb := hok.applyOut kb _ happly
    have hfilter : pool.filter (fun it => decide (it.pk ≠ key)) = pool := by
      apply List.filter_eq_self.2
      intro it hit
      have : it.pk ≠ key := by intro e; apply hnone it hit; simp only [itemKey, e, hkey]
      simpa using this
    have hgv : s2'.gv = some gv := (curPool_gv hcp').1
    refine ⟨gv, pool ++ [{ index := idx, pk := apk, addr := aaddr, status := Status.cand }], ?_, ?_, ?_⟩
    · simp only [curPool, hgv, poolInsert, hfilter, alGet_put_self]
    · refine ⟨?_, ?_, ?_, ?_⟩
      · rw [activeCount_append_cand _ _ rfl]; have := hok.four; omega
      · rw [List.map_append, List.nodup_append]
        refine ⟨hok.keysNodup, by simp, ?_⟩
        intro a ha b hb
        simp only [List.map_cons, List.map_nil, List.mem_singleton] at hb
        subst hb
        obtain ⟨it, hit, rfl⟩ := List.mem_map.1 ha
        simp only [itemKey, hcanon]
        exact hnone it hit
      · intro x hx
        rcases List.mem_append.1 hx with hx | hx
        · obtain ⟨k, hk, hi⟩ := hok.idx x hx
          have hne : k ≠ kb := by intro e; subst e; exact hnone x hx hk
          exact ⟨k, hk, by simp only; rw [hother k hne]; exact hi⟩
        · simp only [List.mem_singleton] at hx; subst hx
          exact ⟨kb, by simp only [itemKey]; exact hcanon, hself⟩
      · intro k r hr x hx
        simp only at hr
        have hne : k ≠ kb := by intro e; subst e; rw [alGet_erase_self] at hr; cases hr
        rw [alGet_erase_ne _ _ _ hne, hfr] at hr
        rcases List.mem_append.1 hx with hx | hx
        · exact hok.applyOut k r hr x hx
        · simp only [List.mem_singleton] at hx; subst hx
          simp only [itemKey, hcanon]
          intro e; injection e with e; exact hne e.symm
    · exact ⟨hidx'.inj, hidx'.below⟩

theorem PoolInv_pool {s : State} {gv : GovView} {pool : List PeerItem} (h : PoolInv s) (hcp : curPool s = some (gv, pool)) :
    PoolOK s pool ∧ IdxOK s := by
  obtain ⟨gv', pool', hcp', hok, hidx⟩ := h
  rw [hcp] at hcp'; injection hcp' with e; injection e with e1 e2; subst e1; subst e2
  exact ⟨hok, hidx⟩

/-- writing a pool with the invariants as the pool of the current view -/
theorem PoolInv_setPool {s : State} {gv : GovView} {pool pool' : List PeerItem} (x : List (Bytes × (String × Addr)))
    (hcp : curPool s = some (gv, pool)) (hidx : IdxOK s) (hok : PoolOK s pool') :
    PoolInv { s with pools := alPut s.pools gv.view pool', black := x } := by
  refine ⟨gv, pool', ?_, ⟨hok.four, hok.keysNodup, hok.idx, hok.applyOut⟩, ⟨hidx.inj, hidx.below⟩⟩
  simp only [curPool, (curPool_gv hcp).1, alGet_put_self]

theorem PoolInv_gv_some {s : State} (h : PoolInv s) : s.gv.isSome = true := by
  obtain ⟨gv, pool, hcp, _, _⟩ := h
  rw [(curPool_gv hcp).1]; rfl

theorem PoolInv_reg {s : State} {gv : GovView} {pool : List PeerItem} (hs : PoolInv s) (hcp : curPool s = some (gv, pool))
    (kb : Bytes) (r : String × Addr)
    (hnot : ¬ (pool.any fun it => (addrOfPk s it.pk).isNone || decodePk it.pk == some kb) = true) :
    PoolInv { s with apply := alPut s.apply kb r } := by
  obtain ⟨hok, hidx⟩ := PoolInv_pool hs hcp
  refine ⟨gv, pool, hcp, ⟨hok.four, hok.keysNodup, hok.idx, ?_⟩, ⟨hidx.inj, hidx.below⟩⟩
  intro k q hq it hit
  simp only at hq
  by_cases e : k = kb
  · subst e
    intro hk
    apply hnot
    simp only [List.any_eq_true]
    exact ⟨it, hit, by simp only [itemKey] at hk; simp [hk]⟩
  · rw [alGet_put_ne _ _ _ _ e] at hq; exact hok.applyOut k q hq it hit

theorem PoolInv_unreg {s : State} (hs : PoolInv s) (kb : Bytes) (x : List (Bytes × List Addr)) :
    PoolInv { s with apply := alErase s.apply kb, signs := x } := by
  obtain ⟨gv, pool, hcp, hok, hidx⟩ := hs
  refine ⟨gv, pool, hcp, ⟨hok.four, hok.keysNodup, hok.idx, ?_⟩, ⟨hidx.inj, hidx.below⟩⟩
  intro k q hq it hit
  simp only at hq
  by_cases e : k = kb
  · subst e; rw [alGet_erase_self] at hq; cases hq
  · rw [alGet_erase_ne _ _ _ e] at hq; exact hok.applyOut k q hq it hit

theorem PoolInv_quit {s : State} {gv : GovView} {pool : List PeerItem} (hs : PoolInv s) (hcp : curPool s = some (gv, pool))
    (pk : String) (hcnt : ¬ activeCount pool ≤ 4) :
    PoolInv { s with pools := alPut s.pools gv.view (poolSetStatus pool pk Status.quit) } := by
  obtain ⟨hok, hidx⟩ := PoolInv_pool hs hcp
  have hdec := activeCount_setStatus pool pk Status.quit (pk_nodup_of_keys hok.keysNodup)
  have := PoolInv_setPool s.black hcp hidx (PoolOK_setStatus hok pk Status.quit (by omega))
  exact this

theorem PoolInv_done (H : Bytes → Bytes) (s : State) (op : Op) (o : Out) (ho : plan H s op = .ok (.done o))
    (hs : PoolInv s) : PoolInv o.st := by
  cases op <;> plan_cases ho
  all_goals try (exact PoolInv_of_eq hs rfl rfl rfl rfl rfl)
  all_goals try (rename_i hcd; exact PoolInv_commit hs hcd)
  all_goals first
    | (rename_i hgv _ _; exact absurd (PoolInv_gv_some hs) hgv)
    | (rename_i hcp hnot; exact PoolInv_reg hs hcp _ _ hnot)
    | (exact PoolInv_unreg hs _ _)
    | (rename_i hcp _ _ _ _ _ hcnt; exact PoolInv_quit hs hcp _ hcnt)

theorem PoolInv_black {gv : GovView} {pool : List PeerItem} {pks : List String} {s1 s2 : State} {n : String}
    (hinv : PoolInv s1) (hcp : curPool s1 = some (gv, pool)) (hcnt : ¬ activeCount pool + 1 ≤ 4 + pks.length)
    (hf : blackEffect gv pool pks s1 = .ok (s2, n)) : PoolInv s2 := by
  obtain ⟨hok, hidx⟩ := PoolInv_pool hinv hcp
  simp only [blackEffect] at hf
  split at hf
  · cases hf
  · rename_i pool' bl commit hloop
    have hok' := blackLoop_spec s1 pks pool s1.black false pool' bl commit hloop hok (by omega)
    have hbase := PoolInv_setPool bl hcp hidx hok'
    split at hf
    · split at hf
      · cases hf
      · rename_i s3 hcd
        injection hf with hf; injection hf with hf1 hf2; subst hf1
        exact PoolInv_commit hbase hcd
    · injection hf with hf; injection hf with hf1 hf2; subst hf1
      exact hbase

theorem PoolInv_fire (H : Bytes → Bytes) (s : State) (op : Op) (ap : Approval) (s1 s2 : State) (n : String)
    (hap : plan H s op = .ok (.approve ap)) (hs1 : s1 = { s with signs := s1.signs }) (ht : PoolInv s1)
    (hcanon : ApplyCanon s) (hf : ap.onFire s1 = .ok (s2, n)) : PoolInv s2 := by
  cases op <;> plan_cases hap
  all_goals (dsimp only at hf)
  all_goals try (split at hf)
  all_goals try (cases hf; done)
  all_goals try (injection hf with hf; injection hf with hf1 hf2; subst hf1; exact PoolInv_of_eq ht rfl rfl rfl rfl rfl; done)
  all_goals first
    | (rename_i kb hkey _ apk aaddr happly
       have hc := hcanon kb (apk, aaddr) happly
       exact PoolInv_candidate hkey (by rw [hs1]; exact happly) hc ht hf)
    | (rename_i gv pool hcp hcnt _
       exact PoolInv_black ht (by rw [hs1]; exact hcp) hcnt hf)

theorem PoolInv_step (H : Bytes → Bytes) (s : State) (op : Op) (h : PoolInv s) (hcanon : ApplyCanon s) :
    PoolInv (step H s op) := by
  apply step_preserves H PoolInv s op
  · intro t x ht; exact PoolInv_of_eq ht rfl rfl rfl rfl rfl
  · intro o ho hs; exact PoolInv_done H s op o ho hs
  · intro ap hap s1 s2 n hs1 ht hf; exact PoolInv_fire H s op ap s1 s2 n hap hs1 ht hcanon hf
  · exact h

/-- Both invariants along every history. -/
theorem PoolInv_run (H : Bytes → Bytes) (s : State) (ops : List Op) (h : PoolInv s) (hc : ApplyCanon s) :
    PoolInv (run H s ops) ∧ ApplyCanon (run H s ops) := by
  induction ops generalizing s with
  | nil => exact ⟨h, hc⟩
  | cons op rest ih => exact ih _ (PoolInv_step H s op h hc) (ApplyCanon_step H s op hc)

/-- Only CommitDpos, BlackNode and InitConfig change the governance view (the epoch). -/
theorem gv_frame (H : Bytes → Bytes) (s : State) (op : Op)
    (hop : (∀ sg o, op ≠ .commit sg o) ∧ (∀ sg a pks, op ≠ .black sg a pks) ∧ (∀ m ps, op ≠ .init m ps)) :
    (step H s op).gv = s.gv := by
  apply step_preserves H (fun t => t.gv = s.gv) s op
  · intro t x ht; exact ht
  · intro o ho _
    cases op <;> plan_cases ho
    all_goals try rfl
    all_goals first
      | exact absurd rfl (hop.1 _ _)
      | exact absurd rfl (hop.2.2 _ _)
  · intro ap hap s1 s2 n _ hs1 hf
    cases op <;> plan_cases hap
    all_goals (dsimp only at hf)
    all_goals try (exact absurd rfl (hop.2.1 _ _ _))
    all_goals try (obtain ⟨akb, _, he⟩ := candidateEffect_shape hf; rw [he]; exact hs1; done)
    all_goals try (split at hf)
    all_goals try (cases hf; done)
    all_goals (injection hf with hf; injection hf with hf1 hf2; subst hf1; exact hs1)
  · rfl


end Poly.Model.Gov
