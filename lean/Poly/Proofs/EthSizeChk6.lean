import Poly.Generated.EthSizeCerts6
/-! Kernel evaluation of the certificate checker on the 64-epoch chunks 24..27 of both ethash size tables (C28).
    Depends only on the generated certificate module (table values + certificates), not on the rule constants. -/
namespace Poly.Proofs.EthSizeChk
open Poly.Model.EthSizeCert Poly.Generated

theorem dataset_24 : checkTable 1073741824 8388608 128 1536 EthSizeCerts.datasetVals_24 EthSizeCerts.datasetCerts_24 = true := by
  decide +kernel

theorem cache_24 : checkTable 16777216 131072 64 1536 EthSizeCerts.cacheVals_24 EthSizeCerts.cacheCerts_24 = true := by
  decide +kernel

theorem dataset_25 : checkTable 1073741824 8388608 128 1600 EthSizeCerts.datasetVals_25 EthSizeCerts.datasetCerts_25 = true := by
  decide +kernel

theorem cache_25 : checkTable 16777216 131072 64 1600 EthSizeCerts.cacheVals_25 EthSizeCerts.cacheCerts_25 = true := by
  decide +kernel

theorem dataset_26 : checkTable 1073741824 8388608 128 1664 EthSizeCerts.datasetVals_26 EthSizeCerts.datasetCerts_26 = true := by
  decide +kernel

theorem cache_26 : checkTable 16777216 131072 64 1664 EthSizeCerts.cacheVals_26 EthSizeCerts.cacheCerts_26 = true := by
  decide +kernel

theorem dataset_27 : checkTable 1073741824 8388608 128 1728 EthSizeCerts.datasetVals_27 EthSizeCerts.datasetCerts_27 = true := by
  decide +kernel

theorem cache_27 : checkTable 16777216 131072 64 1728 EthSizeCerts.cacheVals_27 EthSizeCerts.cacheCerts_27 = true := by
  decide +kernel

end Poly.Proofs.EthSizeChk
