import Poly.Model.KVLayers
/- JoinIter with failing sub-iterators: errors stop the join at once, are sticky, and never accompany a yield. -/
namespace Poly.Model.KV

section
variable {α β : Type} (A : Ops α) (B : Ops β) (eA : α → Bool) (eB : β → Bool)

/-! ### Without errors the error-checking join is the plain join -/

theorem first0E_noerr (hA : ∀ s, eA s = false) (hB : ∀ s, eB s = false) (j : Join α β) :
    Join.first0E A B eA eB j = Join.first0 A B j := by simp [Join.first0E, Join.err, hA, hB]

theorem next0E_noerr (hA : ∀ s, eA s = false) (hB : ∀ s, eB s = false) (j : Join α β) :
    Join.next0E A B eA eB j = Join.next0 A B j := by simp [Join.next0E, Join.next0, Join.err, hA, hB]

theorem skipE_noerr (hA : ∀ s, eA s = false) (hB : ∀ s, eB s = false) (n : Nat) (j : Join α β) :
    Join.skipE A B eA eB n j = Join.skip A B n j := by
  induction n generalizing j with
  | zero => rfl
  | succ n ih => simp only [Join.skipE, Join.skip, next0E_noerr A B eA eB hA hB, ih]

theorem FirstE_noerr (hA : ∀ s, eA s = false) (hB : ∀ s, eB s = false) (n : Nat) (j : Join α β) :
    Join.FirstE A B eA eB n j = Join.First A B n j := by
  simp only [Join.FirstE, Join.First, first0E_noerr A B eA eB hA hB, skipE_noerr A B eA eB hA hB]

theorem NextE_noerr (hA : ∀ s, eA s = false) (hB : ∀ s, eB s = false) (n : Nat) (j : Join α β) :
    Join.NextE A B eA eB n j = Join.Next A B n j := by
  simp only [Join.NextE, Join.Next, next0E_noerr A B eA eB hA hB, skipE_noerr A B eA eB hA hB]

/-! ### A yield certifies that no sub-iterator has failed -/

theorem choose_subiters (j : Join α β) :
    (Join.choose A B j).1.mem = j.mem ∧ (Join.choose A B j).1.back = j.back := by
  unfold Join.choose
  split
  · split <;> exact ⟨rfl, rfl⟩
  · split
    · exact ⟨rfl, rfl⟩
    · simp only; split <;> exact ⟨rfl, rfl⟩

theorem next0E_true_noerr (j : Join α β) (h : (Join.next0E A B eA eB j).2 = true) :
    Join.err eA eB (Join.next0E A B eA eB j).1 = false := by
  unfold Join.next0E at h ⊢
  simp only at h ⊢
  cases he : Join.err eA eB (Join.advance A B j) with
  | true => simp [he] at h
  | false =>
    simp only [Bool.false_eq_true, if_false]
    have := choose_subiters A B (Join.advance A B j)
    simp only [Join.err, this.1, this.2] at he ⊢
    exact he

theorem first0_subiters (j : Join α β) :
    (Join.first0 A B j).1.mem = (A.first j.mem).1 ∧ (Join.first0 A B j).1.back = (B.first j.back).1 := by
  unfold Join.first0
  simp only
  split
  · split
    · exact ⟨rfl, rfl⟩
    · split <;> exact ⟨rfl, rfl⟩
  · split <;> exact ⟨rfl, rfl⟩

theorem first0E_true_noerr (j : Join α β) (h : (Join.first0E A B eA eB j).2 = true) :
    Join.err eA eB (Join.first0E A B eA eB j).1 = false := by
  unfold Join.first0E at h ⊢
  simp only at h ⊢
  cases he : Join.err eA eB { j with mem := (A.first j.mem).1, back := (B.first j.back).1 } with
  | true => simp [he] at h
  | false =>
    simp only [Bool.false_eq_true, if_false]
    have := first0_subiters A B j
    simp only [Join.err, this.1, this.2] at he ⊢
    exact he

theorem skipE_true_noerr (n : Nat) (j : Join α β) (hj : Join.err eA eB j = false)
    (h : (Join.skipE A B eA eB n j).2 = true) : Join.err eA eB (Join.skipE A B eA eB n j).1 = false := by
  induction n generalizing j with
  | zero => simp [Join.skipE] at h
  | succ n ih =>
    unfold Join.skipE at h ⊢
    cases hv : j.value.isEmpty with
    | false => simpa [hv] using hj
    | true =>
      simp only [hv, if_true] at h ⊢
      cases hr : (Join.next0E A B eA eB j).2 with
      | false => simp [hr] at h
      | true =>
        simp only [hr, if_true] at h ⊢
        exact ih _ (next0E_true_noerr A B eA eB j hr) h

/-- `Next` returning true certifies that neither sub-iterator reports an error: an entry is never yielded together
with (or after) a failure. -/
theorem NextE_true_noerr (n : Nat) (j : Join α β) (h : (Join.NextE A B eA eB n j).2 = true) :
    Join.err eA eB (Join.NextE A B eA eB n j).1 = false := by
  unfold Join.NextE at h ⊢
  simp only at h ⊢
  cases hr : (Join.next0E A B eA eB j).2 with
  | false => simp [hr] at h
  | true =>
    simp only [hr, if_true] at h ⊢
    exact skipE_true_noerr A B eA eB n _ (next0E_true_noerr A B eA eB j hr) h

theorem FirstE_true_noerr (n : Nat) (j : Join α β) (h : (Join.FirstE A B eA eB n j).2 = true) :
    Join.err eA eB (Join.FirstE A B eA eB n j).1 = false := by
  unfold Join.FirstE at h ⊢
  simp only at h ⊢
  cases hr : (Join.first0E A B eA eB j).2 with
  | false => simp [hr] at h
  | true =>
    simp only [hr, if_true] at h ⊢
    exact skipE_true_noerr A B eA eB n _ (first0E_true_noerr A B eA eB j hr) h

/-! ### Errors are sticky -/

/-- Sub-iterators whose error, once set, survives every further `First`/`Next`. -/
structure StickyErr {σ : Type} (O : Ops σ) (e : σ → Bool) : Prop where
  first : ∀ s, e s = true → e (O.first s).1 = true
  next : ∀ s, e s = true → e (O.next s).1 = true

theorem advance_err (hA : StickyErr A eA) (hB : StickyErr B eB) (j : Join α β) (h : Join.err eA eB j = true) :
    Join.err eA eB (Join.advance A B j) = true := by
  unfold Join.advance
  simp only [Join.err, Bool.or_eq_true] at h ⊢
  rcases h with h | h
  · left
    split
    · split
      · exact hB.next _ h
      · exact h
    · split
      · exact hB.next _ h
      · exact h
  · right
    split
    · split <;> exact hA.next _ h
    · split <;> exact h

/-- Once a sub-iterator has failed, every later `Next` and `First` of the join returns false. -/
theorem NextE_after_error (hA : StickyErr A eA) (hB : StickyErr B eB) (n : Nat) (j : Join α β)
    (h : Join.err eA eB j = true) :
    (Join.NextE A B eA eB n j).2 = false ∧ Join.err eA eB (Join.NextE A B eA eB n j).1 = true := by
  have := advance_err A B eA eB hA hB j h
  simp [Join.NextE, Join.next0E, this]

theorem FirstE_after_error (hA : StickyErr A eA) (hB : StickyErr B eB) (n : Nat) (j : Join α β)
    (h : Join.err eA eB j = true) :
    (Join.FirstE A B eA eB n j).2 = false ∧ Join.err eA eB (Join.FirstE A B eA eB n j).1 = true := by
  have : Join.err eA eB { j with mem := (A.first j.mem).1, back := (B.first j.back).1 } = true := by
    simp only [Join.err, Bool.or_eq_true] at h ⊢
    rcases h with h | h
    · exact .inl (hB.first _ h)
    · exact .inr (hA.first _ h)
  simp [Join.FirstE, Join.first0E, this]

end

/-- The fault-injecting iterator is sticky. -/
theorem faulty_sticky {σ : Type} (O : Ops σ) : StickyErr (faultyOps O) Faulty.failed := by
  constructor <;>
  · intro s h
    simp only [Faulty.failed, Bool.and_eq_true, bne_iff_ne, ne_eq, ge_iff_le, decide_eq_true_eq] at h
    have h' : ({ s with calls := s.calls + 1 } : Faulty σ).failed = true := by
      simp only [Faulty.failed, Bool.and_eq_true, bne_iff_ne, ne_eq, ge_iff_le, decide_eq_true_eq]
      exact ⟨h.1, by omega⟩
    simp [faultyOps, h']

/-- The memdb iterator's error flag (released iterator) is sticky. -/
theorem iter_err_sticky (m : Entries) : StickyErr (iterOps m) (·.err) := by
  constructor
  · intro it h
    simp only [iterOps, Iter.first]
    split
    · rfl
    · simp only [Iter.fill]; split <;> (try split) <;> simpa using h
  · intro it h
    simp only [iterOps, Iter.next]
    split
    · rfl
    · split
      · split
        · simp only [Iter.first]
          split
          · rfl
          · simp only [Iter.fill]; split <;> (try split) <;> simpa using h
        · exact h
      · simp only [Iter.fill]; split <;> (try split) <;> simpa using h

end Poly.Model.KV
