import Poly.Model.KV
/- `cmpB` (bytes.Compare) is a strict total order on byte strings. -/
namespace Poly.Model.KV

theorem u8_lt_irrefl (a : UInt8) : ¬ a < a := by
  rw [UInt8.lt_iff_toNat_lt]; omega

theorem u8_eq_of_not_lt {a b : UInt8} (h1 : ¬ a < b) (h2 : ¬ b < a) : a = b := by
  rw [UInt8.lt_iff_toNat_lt] at h1 h2
  apply UInt8.toNat_inj.mp; omega

theorem u8_lt_asymm {a b : UInt8} (h : a < b) : ¬ b < a := by
  rw [UInt8.lt_iff_toNat_lt] at *; omega

theorem u8_lt_trans {a b c : UInt8} (h1 : a < b) (h2 : b < c) : a < c := by
  rw [UInt8.lt_iff_toNat_lt] at *; omega

theorem cmpB_refl (a : Key) : cmpB a a = .eq := by
  induction a with
  | nil => rfl
  | cons x r ih => simp [cmpB, ih]

theorem cmpB_eq_iff {a b : Key} : cmpB a b = .eq ↔ a = b := by
  constructor
  · intro h
    induction a generalizing b with
    | nil => cases b <;> simp_all [cmpB]
    | cons x r ih =>
      cases b with
      | nil => simp [cmpB] at h
      | cons y s =>
        simp only [cmpB] at h
        split at h
        · cases h
        · split at h
          · cases h
          · rename_i h1 h2
            rw [u8_eq_of_not_lt h1 h2, ih h]
  · intro h; subst h; exact cmpB_refl a

theorem cmpB_lt_iff_gt {a b : Key} : cmpB a b = .lt ↔ cmpB b a = .gt := by
  induction a generalizing b with
  | nil => cases b <;> simp [cmpB]
  | cons x r ih =>
    cases b with
    | nil => simp [cmpB]
    | cons y s =>
      simp only [cmpB]
      by_cases h1 : x < y
      · simp [h1, u8_lt_asymm h1]
      · by_cases h2 : y < x
        · simp [h1, h2]
        · simp [h1, h2, ih]

theorem cmpB_gt_iff_lt {a b : Key} : cmpB a b = .gt ↔ cmpB b a = .lt := cmpB_lt_iff_gt.symm

theorem cmpB_lt_trans {a b c : Key} (h1 : cmpB a b = .lt) (h2 : cmpB b c = .lt) : cmpB a c = .lt := by
  induction a generalizing b c with
  | nil =>
    cases c with
    | nil => cases b <;> simp [cmpB] at h1 h2
    | cons => simp [cmpB]
  | cons x r ih =>
    cases b with
    | nil => simp [cmpB] at h1
    | cons y s =>
      cases c with
      | nil => simp [cmpB] at h2
      | cons z t =>
        simp only [cmpB] at h1 h2 ⊢
        by_cases xy : x < y
        · by_cases yz : y < z
          · simp [u8_lt_trans xy yz]
          · by_cases zy : z < y
            · simp [yz, zy] at h2
            · have := u8_eq_of_not_lt yz zy; subst this; simp [xy]
        · by_cases yx : y < x
          · simp [xy, yx] at h1
          · have := u8_eq_of_not_lt xy yx; subst this
            simp only [xy, if_false] at h1
            by_cases yz : x < z
            · simp [yz]
            · by_cases zy : z < x
              · simp [yz, zy] at h2
              · simp only [yz, zy, if_false] at h2 ⊢
                exact ih h1 h2

theorem cmpB_lt_irrefl (a : Key) : cmpB a a ≠ .lt := by simp [cmpB_refl]

theorem cmpB_lt_asymm {a b : Key} (h : cmpB a b = .lt) : cmpB b a ≠ .lt := by
  intro h'; exact cmpB_lt_irrefl a (cmpB_lt_trans h h')

/-- Trichotomy in the form used most: not less and not equal means greater. -/
theorem cmpB_cases (a b : Key) : cmpB a b = .lt ∨ a = b ∨ cmpB b a = .lt := by
  cases h : cmpB a b with
  | lt => exact .inl rfl
  | eq => exact .inr (.inl (cmpB_eq_iff.mp h))
  | gt => exact .inr (.inr (cmpB_gt_iff_lt.mp h))

theorem ltB_iff {a b : Key} : ltB a b = true ↔ cmpB a b = .lt := by simp [ltB]

theorem ltB_false_iff {a b : Key} : ltB a b = false ↔ (a = b ∨ cmpB b a = .lt) := by
  rcases cmpB_cases a b with h | h | h
  · simp [ltB, h]; constructor
    · rintro rfl; exact cmpB_lt_irrefl _ h
    · exact cmpB_lt_asymm h
  · subst h; simp [ltB, cmpB_refl]
  · have := cmpB_lt_asymm h; simp [ltB, this, h]

theorem ltB_trans {a b c : Key} (h1 : ltB a b = true) (h2 : ltB b c = true) : ltB a c = true := by
  rw [ltB_iff] at *; exact cmpB_lt_trans h1 h2

theorem ltB_irrefl (a : Key) : ltB a a = false := by simp [ltB, cmpB_refl]

theorem ltB_asymm {a b : Key} (h : ltB a b = true) : ltB b a = false := by
  rw [ltB_iff] at h; have := cmpB_lt_asymm h; simp [ltB, this]

/-- `¬ a < b` and `b < c` give `a`… (mixed transitivity): `b ≤ a`, `c < b` ⇒ `c < a`. -/
theorem ltB_of_lt_of_not_lt {a b c : Key} (h1 : ltB c b = true) (h2 : ltB a b = false) : ltB c a = true := by
  rcases ltB_false_iff.mp h2 with h | h
  · subst h; exact h1
  · exact ltB_trans h1 (ltB_iff.mpr h)

theorem ltB_of_not_lt_of_lt {a b c : Key} (h1 : ltB b a = false) (h2 : ltB b c = true) : ltB a c = true := by
  rcases ltB_false_iff.mp h1 with h | h
  · subst h; exact h2
  · exact ltB_trans (ltB_iff.mpr h) h2

theorem nil_not_gt (b : Key) : ltB b [] = false := by cases b <;> simp [ltB, cmpB]

end Poly.Model.KV
