import Poly.Model.Native
namespace Poly.Model.Native

theorem bytesLt_irrefl : ∀ a : Bytes, bytesLt a a = false
  | [] => rfl
  | x :: r => by simp [bytesLt, bytesLt_irrefl r]

theorem u8_tri (x y : UInt8) : x < y ∨ x = y ∨ y < x := by
  simp only [UInt8.lt_iff_toNat_lt, ← UInt8.toNat_inj]; omega

theorem bytesLt_cons (x y : UInt8) (a b : Bytes) :
    bytesLt (x :: a) (y :: b) = true ↔ x < y ∨ (x = y ∧ bytesLt a b = true) := by
  simp only [bytesLt]
  rcases u8_tri x y with h | h | h
  · simp [h]
  · subst h; simp [UInt8.lt_irrefl]
  · have h' : ¬ x < y := by simp only [UInt8.lt_iff_toNat_lt] at *; omega
    have h'' : x ≠ y := by intro e; subst e; exact UInt8.lt_irrefl _ h
    simp [h, h', h'']

theorem bytesLt_trans : ∀ a b c : Bytes, bytesLt a b = true → bytesLt b c = true → bytesLt a c = true
  | [], [], _, h, _ => by simp [bytesLt] at h
  | [], _ :: _, [], _, h => by simp [bytesLt] at h
  | [], _ :: _, _ :: _, _, _ => by simp [bytesLt]
  | _ :: _, [], _, h, _ => by simp [bytesLt] at h
  | _ :: _, _ :: _, [], _, h => by simp [bytesLt] at h
  | x :: a, y :: b, z :: c, h1, h2 => by
    rw [bytesLt_cons] at h1 h2 ⊢
    rcases h1 with h1 | ⟨e1, h1⟩ <;> rcases h2 with h2 | ⟨e2, h2⟩
    · left; exact UInt8.lt_trans h1 h2
    · left; rw [← e2]; exact h1
    · left; rw [e1]; exact h2
    · right; exact ⟨e1.trans e2, bytesLt_trans a b c h1 h2⟩

/-- Totality: two different keys are ordered one way or the other. -/
theorem bytesLt_total : ∀ a b : Bytes, bytesLt a b = false → bytesLt b a = false → a = b
  | [], [], _, _ => rfl
  | [], _ :: _, h, _ => by simp [bytesLt] at h
  | _ :: _, [], _, h => by simp [bytesLt] at h
  | x :: a, y :: b, h1, h2 => by
    have n1 : ¬ (bytesLt (x :: a) (y :: b) = true) := by simp [h1]
    have n2 : ¬ (bytesLt (y :: b) (x :: a) = true) := by simp [h2]
    rw [bytesLt_cons] at n1 n2
    rcases u8_tri x y with h | h | h
    · exact absurd (Or.inl h) n1
    · subst h
      have ha : bytesLt a b = false := by
        cases hh : bytesLt a b with
        | false => rfl
        | true => exact absurd (Or.inr ⟨rfl, hh⟩) n1
      have hb : bytesLt b a = false := by
        cases hh : bytesLt b a with
        | false => rfl
        | true => exact absurd (Or.inr ⟨rfl, hh⟩) n2
      rw [bytesLt_total a b ha hb]
    · exact absurd (Or.inl h) n2

/-! ### The write buffer as a finite map -/

theorem KV.find?_insert (m : KV) (k v x : Bytes) :
    (m.insert k v).find? x = if k = x then some v else m.find? x := by
  induction m with
  | nil => simp [KV.insert, KV.find?]
  | cons p r ih =>
    obtain ⟨k', v'⟩ := p
    simp only [KV.insert]
    split
    · rename_i h; subst h; simp only [KV.find?]; split <;> rfl
    · split
      · simp only [KV.find?]
      · simp only [KV.find?, ih]
        rename_i h _
        by_cases e : k' = x
        · have : k ≠ x := fun e' => h (e.trans e'.symm)
          simp [e, this]
        · simp [e]

/-- Keys strictly increasing (what `MemDB` maintains). -/
def KV.Sorted (m : KV) : Prop := m.Pairwise (fun a b => bytesLt a.1 b.1 = true)

theorem KV.mem_insert (m : KV) (k v : Bytes) (p : Bytes × Bytes) (h : p ∈ m.insert k v) : p = (k, v) ∨ p ∈ m := by
  induction m with
  | nil => simp [KV.insert] at h; exact Or.inl h
  | cons q r ih =>
    obtain ⟨k', v'⟩ := q
    simp only [KV.insert] at h
    split at h
    · rcases List.mem_cons.mp h with h | h
      · exact Or.inl h
      · exact Or.inr (List.mem_cons_of_mem _ h)
    · split at h
      · rcases List.mem_cons.mp h with h | h
        · exact Or.inl h
        · exact Or.inr h
      · rcases List.mem_cons.mp h with h | h
        · exact Or.inr (h ▸ List.mem_cons_self)
        · rcases ih h with h | h
          · exact Or.inl h
          · exact Or.inr (List.mem_cons_of_mem _ h)

theorem KV.insert_sorted (m : KV) (k v : Bytes) (hs : m.Sorted) : (m.insert k v).Sorted := by
  induction m with
  | nil => simp [KV.insert, KV.Sorted]
  | cons q r ih =>
    obtain ⟨k', v'⟩ := q
    have hs' := List.pairwise_cons.mp hs
    simp only [KV.insert]
    split
    · rename_i h; subst h
      exact List.pairwise_cons.mpr ⟨hs'.1, hs'.2⟩
    · split
      · rename_i hne hlt
        refine List.pairwise_cons.mpr ⟨?_, hs⟩
        intro p hp
        rcases List.mem_cons.mp hp with hp | hp
        · subst hp; exact hlt
        · exact bytesLt_trans _ _ _ hlt (hs'.1 p hp)
      · rename_i hne hnlt
        have hlt : bytesLt k' k = true := by
          cases h : bytesLt k' k with
          | true => rfl
          | false =>
            have : bytesLt k k' = false := by simpa using hnlt
            exact absurd (bytesLt_total k' k h this) hne
        refine List.pairwise_cons.mpr ⟨?_, ih hs'.2⟩
        intro p hp
        rcases KV.mem_insert r k v p hp with hp | hp
        · subst hp; exact hlt
        · exact hs'.1 p hp

theorem KV.find?_eq_none_of_lt (m : KV) (k : Bytes) (h : ∀ p ∈ m, bytesLt k p.1 = true) : m.find? k = none := by
  induction m with
  | nil => rfl
  | cons q r ih =>
    obtain ⟨k', v'⟩ := q
    simp only [KV.find?]
    have h1 := h (k', v') List.mem_cons_self
    split
    · rename_i e; simp only at h1; rw [e, bytesLt_irrefl] at h1; cases h1
    · exact ih (fun p hp => h p (List.mem_cons_of_mem _ hp))

/-- Writes applied in order to a write buffer (`MemDB.Put` one after the other). -/
def applyWrites (m : KV) (ws : List (Bytes × Bytes)) : KV := ws.foldl (fun o kv => o.insert kv.1 kv.2) m

theorem applyWrites_append (m : KV) (a b : List (Bytes × Bytes)) :
    applyWrites m (a ++ b) = applyWrites (applyWrites m a) b := by
  simp [applyWrites, List.foldl_append]

/-- The value most recently written to `x` in a sequence of writes. -/
def lastWrite : List (Bytes × Bytes) → Bytes → Option Bytes
  | [], _ => none
  | (k, v) :: r, x =>
    match lastWrite r x with
    | some w => some w
    | none => if k = x then some v else none

theorem KV.find?_applyWrites (ws : List (Bytes × Bytes)) : ∀ (m : KV) (x : Bytes),
    (applyWrites m ws).find? x = (lastWrite ws x).orElse (fun _ => m.find? x) := by
  induction ws with
  | nil => intro m x; simp [applyWrites, lastWrite]
  | cons p r ih =>
    intro m x
    obtain ⟨k, v⟩ := p
    have : applyWrites m ((k, v) :: r) = applyWrites (m.insert k v) r := rfl
    rw [this, ih, KV.find?_insert]
    simp only [lastWrite]
    cases lastWrite r x with
    | some w => rfl
    | none => split <;> simp

theorem applyWrites_sorted (ws : List (Bytes × Bytes)) : ∀ m : KV, m.Sorted → (applyWrites m ws).Sorted := by
  induction ws with
  | nil => intro m h; exact h
  | cons p r ih => intro m h; exact ih _ (KV.insert_sorted m p.1 p.2 h)

/-- In a sorted buffer every key occurs once, so first match = last write. -/
theorem lastWrite_eq_find? (m : KV) (hs : m.Sorted) (x : Bytes) : lastWrite m x = m.find? x := by
  induction m with
  | nil => rfl
  | cons p r ih =>
    obtain ⟨k, v⟩ := p
    have hs' := List.pairwise_cons.mp hs
    simp only [lastWrite, KV.find?, ih hs'.2]
    by_cases e : k = x
    · subst e
      rw [KV.find?_eq_none_of_lt r k (fun p hp => hs'.1 p hp)]
    · simp only [e, if_false]
      cases KV.find? r x <;> rfl

/-- `CacheDB.Commit` / committing a sorted buffer into the layer below: the buffer's entry wins, otherwise the
layer below is unchanged. -/
theorem KV.find?_commitInto (src dst : KV) (hs : src.Sorted) (x : Bytes) :
    (src.commitInto dst).find? x = (src.find? x).orElse (fun _ => dst.find? x) := by
  have : src.commitInto dst = applyWrites dst src := rfl
  rw [this, KV.find?_applyWrites, lastWrite_eq_find? src hs]

end Poly.Model.Native
