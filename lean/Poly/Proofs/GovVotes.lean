import Poly.Proofs.GovQuorum
/-! Vote ledgers: `CheckVotes` and `CheckSigns` (C25). -/
namespace Poly.Model.Gov
open Poly.Generated.Thresholds

theorem vthr_iff (num N : Nat) : vote_CheckVotes0 (num : Int) (N : Int) = true ↔ (2 * N + 2) / 3 ≤ num := by
  unfold vote_CheckVotes0
  rw [Int.tdiv_eq_ediv_of_nonneg (by omega)]; simp; omega

theorem sthr_iff (num N : Nat) : sigmgr_CheckSigns1 (num : Int) (N : Int) = true ↔ (2 * N + 2) / 3 ≤ num := by
  unfold sigmgr_CheckSigns1
  rw [Int.tdiv_eq_ediv_of_nonneg (by omega)]; simp; omega

/-- A fresh voter that is a member of a duplicate-free consensus list raises the count by exactly one. -/
theorem countIn_append_fresh (cons l : List Addr) (a : Addr) (hn : cons.Nodup) (ha : a ∈ cons) (hl : a ∉ l) :
    countIn cons (l ++ [a]) = countIn cons l + 1 := by
  induction cons with
  | nil => cases ha
  | cons c rest ih =>
    have hnd := List.nodup_cons.1 hn
    simp only [countIn, List.filter_cons, List.contains_eq_mem, List.mem_append, List.mem_singleton] at ih ⊢
    rcases List.mem_cons.1 ha with rfl | har
    · -- head is the new voter; it does not occur in the rest
      have hrest : (List.filter (fun x => decide (x ∈ l ∨ x = a)) rest).length = (List.filter (fun x => decide (x ∈ l)) rest).length := by
        congr 1
        apply List.filter_congr
        intro x hx
        have : x ≠ a := fun e => hnd.1 (e ▸ hx)
        simp [this]
      simp only [hl, or_true, decide_true, if_true, List.length_cons, decide_false, Bool.false_eq_true, if_false]
      omega
    · have hca : c ≠ a := fun e => hnd.1 (e ▸ har)
      have ih' := ih hnd.2 har
      by_cases hc : c ∈ l
      · simp only [hc, true_or, decide_true, if_true, List.length_cons]
        omega
      · simp only [hc, hca, or_self, decide_false, Bool.false_eq_true, if_false]
        exact ih'

theorem countIn_append_old (cons l : List Addr) (a : Addr) (hl : a ∈ l) : countIn cons (l ++ [a]) = countIn cons l := by
  apply countIn_congr
  intro x
  simp only [List.mem_append, List.mem_singleton]
  constructor
  · rintro (h | rfl)
    · exact h
    · exact hl
  · intro h; exact Or.inl h

/-- `voteCore` decides on the consensus members among the voters including this one. -/
theorem voteCore_spec (voters cons : List Addr) (a : Addr) (hn : cons.Nodup) (ha : a ∈ cons) :
    (voteCore voters cons a).2 = decide ((2 * cons.length + 2) / 3 ≤ approvedBy cons (voters ++ [a])) ∧
    (∀ x, x ∈ (voteCore voters cons a).1 ↔ x ∈ voters ++ [a]) := by
  unfold voteCore
  by_cases hv : a ∈ voters
  · have hc : voters.contains a = true := by simpa using hv
    simp only [hc, Bool.not_true, Bool.false_eq_true, if_false, Nat.add_zero]
    constructor
    · rw [← countIn_eq_approvedBy, countIn_append_old cons voters a hv]
      by_cases hq : (2 * cons.length + 2) / 3 ≤ countIn cons voters
      · simp [hq, (vthr_iff _ _).2 hq]
      · have : ¬ vote_CheckVotes0 (countIn cons voters : Nat) (cons.length : Nat) = true := fun e => hq ((vthr_iff _ _).1 e)
        simp [hq, this]
    · intro x; simp only [List.mem_append, List.mem_singleton]
      constructor
      · intro h; exact Or.inl h
      · rintro (h | rfl)
        · exact h
        · exact hv
  · have hc : voters.contains a = false := by simpa using hv
    simp only [hc, Bool.not_false, if_true]
    constructor
    · rw [← countIn_eq_approvedBy, countIn_append_fresh cons voters a hn ha hv]
      have hthr := vthr_iff (countIn cons voters + 1) cons.length
      push_cast at hthr
      by_cases hq : (2 * cons.length + 2) / 3 ≤ countIn cons voters + 1
      · simp [hq, hthr.2 hq]
      · have : ¬ vote_CheckVotes0 ((countIn cons voters : Nat) + 1) (cons.length : Nat) = true := fun e => hq (hthr.1 e)
        simp [hq, this]
    · intro x; trivial

theorem approvedBy_congr (cons l1 l2 : List Addr) (h : ∀ x, x ∈ l1 ↔ x ∈ l2) : approvedBy cons l1 = approvedBy cons l2 :=
  countIn_congr cons l1 l2 h

/-- The vote ledger releases exactly where the property's count says, along every vote sequence with duplicate-free
consensus address lists. -/
theorem voteRun_eq_spec (info : Bool × List Addr) (acc : List Addr) (evs : List (Addr × List Addr))
    (hnd : ∀ e ∈ evs, e.2.Nodup) (hmem : ∀ x, x ∈ info.2 ↔ x ∈ acc) : voteRun info evs = voteSpec info.1 acc evs := by
  induction evs generalizing info acc with
  | nil => rfl
  | cons e rest ih =>
    obtain ⟨a, cons⟩ := e
    have hnd' : ∀ e ∈ rest, e.2.Nodup := fun e he => hnd e (List.mem_cons_of_mem _ he)
    have hn : cons.Nodup := hnd (a, cons) List.mem_cons_self
    obtain ⟨st, vs⟩ := info
    simp only [voteRun, voteSpec, voteStep]
    cases st with
    | true =>
      simp only [if_true]
      congr 1
      exact ih (true, vs) acc hnd' hmem
    | false =>
      simp only [Bool.false_eq_true, if_false]
      by_cases hc : cons.contains a = true
      · have ha : a ∈ cons := by simpa using hc
        simp only [hc, Bool.not_true, Bool.false_eq_true, if_false]
        obtain ⟨h1, h2⟩ := voteCore_spec vs cons a hn ha
        have hmem' : ∀ x, x ∈ (voteCore vs cons a).1 ↔ x ∈ acc ++ [a] := by
          intro x; rw [h2 x]; simp only [List.mem_append, List.mem_singleton]; rw [hmem x]
        have hq : (voteCore vs cons a).2 = decide ((2 * cons.length + 2) / 3 ≤ approvedBy cons (acc ++ [a])) := by
          rw [h1]; congr 2
          apply approvedBy_congr
          intro x; simp only [List.mem_append, List.mem_singleton]; rw [hmem x]
        rw [← hq]
        congr 1
        exact ih ((voteCore vs cons a).2, (voteCore vs cons a).1) (acc ++ [a]) hnd' hmem'
      · have hc' : cons.contains a = false := by simpa using hc
        simp only [hc', Bool.not_false, if_true]
        congr 1
        exact ih (false, vs) acc hnd' hmem

theorem voteSpec_released_silent (acc : List Addr) (evs : List (Addr × List Addr)) : countTrue (voteSpec true acc evs) = 0 := by
  induction evs with
  | nil => rfl
  | cons e rest ih => obtain ⟨a, cons⟩ := e; simp only [voteSpec, if_true, countTrue]; exact ih

/-- Released at most once. -/
theorem voteSpec_once (released : Bool) (acc : List Addr) (evs : List (Addr × List Addr)) : countTrue (voteSpec released acc evs) ≤ 1 := by
  induction evs generalizing released acc with
  | nil => simp [voteSpec, countTrue]
  | cons e rest ih =>
    obtain ⟨a, cons⟩ := e
    cases released with
    | true => rw [voteSpec_released_silent]; omega
    | false =>
      simp only [voteSpec, Bool.false_eq_true, if_false]
      by_cases hc : cons.contains a = true
      · simp only [hc, Bool.not_true, Bool.false_eq_true, if_false]
        by_cases hq : (2 * cons.length + 2) / 3 ≤ approvedBy cons (acc ++ [a])
        · simp only [hq, decide_true, countTrue, voteSpec_released_silent]; omega
        · simp only [hq, decide_false, countTrue]; exact ih false _
      · have hc' : cons.contains a = false := by simpa using hc
        simp only [hc', Bool.not_false, if_true, countTrue]; exact ih false _

/-! ### signatures -/

theorem sigHas_iff (l : List (Addr × Bytes)) (a : Addr) : sigHas l a = true ↔ a ∈ l.map (·.1) := by
  unfold sigHas
  simp only [List.any_eq_true, beq_iff_eq, List.mem_map]

theorem sig_thr_decide (n N : Nat) : sigmgr_CheckSigns1 (n : Int) (N : Int) = decide ((2 * N + 2) / 3 ≤ n) := by
  by_cases h : (2 * N + 2) / 3 ≤ n
  · simp only [h, (sthr_iff n N).2 h, decide_true]
  · cases hb : sigmgr_CheckSigns1 (n : Int) (N : Int) with
    | false => simp only [h, decide_false]
    | true => exact absurd ((sthr_iff n N).1 hb) h

theorem sigCore_spec (info : Bool × List (Addr × Bytes)) (cons : List Addr) (a : Addr) (sg : Bytes) (hn : cons.Nodup) (ha : a ∈ cons) :
    (sigCore info cons a sg).2 = (decide ((2 * cons.length + 2) / 3 ≤ approvedBy cons (info.2.map (·.1) ++ [a])) && !info.1) ∧
    (sigCore info cons a sg).1.1 = (info.1 || decide ((2 * cons.length + 2) / 3 ≤ approvedBy cons (info.2.map (·.1) ++ [a]))) ∧
    (∀ x, x ∈ (sigCore info cons a sg).1.2.map (·.1) ↔ x ∈ info.2.map (·.1) ++ [a]) := by
  unfold sigCore
  simp only [sig_thr_decide]
  by_cases hv : a ∈ info.2.map (·.1)
  · have hc : sigHas info.2 a = true := (sigHas_iff _ _).2 hv
    simp only [hc, Bool.not_true, Bool.false_eq_true, if_false, Nat.add_zero]
    have hcount : countIn cons (info.2.map (·.1)) = approvedBy cons (info.2.map (·.1) ++ [a]) := by
      rw [← countIn_eq_approvedBy, countIn_append_old cons _ a hv]
    rw [hcount]
    refine ⟨rfl, rfl, ?_⟩
    intro x; simp only [List.mem_append, List.mem_singleton]
    constructor
    · intro h; exact Or.inl h
    · rintro (h | rfl)
      · exact h
      · exact hv
  · have hc : sigHas info.2 a = false := by
      cases h : sigHas info.2 a with
      | false => rfl
      | true => exact absurd ((sigHas_iff _ _).1 h) hv
    simp only [hc, Bool.not_false, if_true]
    have hcount : countIn cons (info.2.map (·.1)) + 1 = approvedBy cons (info.2.map (·.1) ++ [a]) := by
      rw [← countIn_eq_approvedBy, countIn_append_fresh cons _ a hn ha hv]
    rw [hcount]
    refine ⟨rfl, rfl, ?_⟩
    intro x; simp

/-- The signature ledger emits exactly where the property's count says. -/
theorem sigRun_eq_spec (info : Bool × List (Addr × Bytes)) (acc : List Addr) (evs : List (Addr × Bytes × List Addr))
    (hnd : ∀ e ∈ evs, e.2.2.Nodup) (hmem : ∀ x, x ∈ info.2.map (·.1) ↔ x ∈ acc) : sigRun info evs = sigSpec info.1 acc evs := by
  induction evs generalizing info acc with
  | nil => rfl
  | cons e rest ih =>
    obtain ⟨a, sg, cons⟩ := e
    have hnd' : ∀ e ∈ rest, e.2.2.Nodup := fun e he => hnd e (List.mem_cons_of_mem _ he)
    have hn : cons.Nodup := hnd (a, sg, cons) List.mem_cons_self
    simp only [sigRun, sigSpec, sigStep]
    by_cases hc : cons.contains a = true
    · have ha : a ∈ cons := by simpa using hc
      simp only [hc, Bool.not_true, Bool.false_eq_true, if_false]
      obtain ⟨h1, h2, h3⟩ := sigCore_spec info cons a sg hn ha
      have hab : approvedBy cons (info.2.map (·.1) ++ [a]) = approvedBy cons (acc ++ [a]) := by
        apply approvedBy_congr
        intro x; simp only [List.mem_append, List.mem_singleton]; rw [hmem x]
      rw [hab] at h1 h2
      have hmem' : ∀ x, x ∈ (sigCore info cons a sg).1.2.map (·.1) ↔ x ∈ acc ++ [a] := by
        intro x; rw [h3 x]; simp only [List.mem_append, List.mem_singleton]; rw [hmem x]
      rw [← h1]
      congr 1
      have := ih (sigCore info cons a sg).1 (acc ++ [a]) hnd' hmem'
      rw [h2] at this
      exact this
    · have hc' : cons.contains a = false := by simpa using hc
      simp only [hc', Bool.not_false, if_true]
      congr 1
      exact ih info acc hnd' hmem

theorem sigSpec_emitted_silent (acc : List Addr) (evs : List (Addr × Bytes × List Addr)) : countTrue (sigSpec true acc evs) = 0 := by
  induction evs generalizing acc with
  | nil => rfl
  | cons e rest ih =>
    obtain ⟨a, sg, cons⟩ := e
    simp only [sigSpec]
    split
    · simp only [countTrue]; exact ih acc
    · simp only [Bool.not_true, Bool.and_false, Bool.true_or, countTrue]; exact ih _

/-- Emitted at most once. -/
theorem sigSpec_once (emitted : Bool) (acc : List Addr) (evs : List (Addr × Bytes × List Addr)) : countTrue (sigSpec emitted acc evs) ≤ 1 := by
  induction evs generalizing emitted acc with
  | nil => simp [sigSpec, countTrue]
  | cons e rest ih =>
    obtain ⟨a, sg, cons⟩ := e
    cases emitted with
    | true => rw [sigSpec_emitted_silent]; omega
    | false =>
      simp only [sigSpec]
      split
      · simp only [countTrue]; exact ih false _
      · by_cases hq : (2 * cons.length + 2) / 3 ≤ approvedBy cons (acc ++ [a])
        · simp only [hq, decide_true, Bool.not_false, Bool.and_true, Bool.or_true, countTrue, sigSpec_emitted_silent]; omega
        · simp only [hq, decide_false, Bool.false_and, Bool.or_false, countTrue]; exact ih false _

/-! ### the transactions -/

def voteEntry (s : State) (id : Bytes) : Bool × List Addr := (alGet s.votes id).getD (false, [])
def sigEntry (H : Bytes → Bytes) (s : State) (subject : Bytes) : Bool × List (Addr × Bytes) := (alGet s.sigs (H subject)).getD (false, [])

/-- Only a vote on `id` changes the vote ledger entry `id`; only a signature on the subject changes its entry. -/
theorem votes_sigs_frame (H : Bytes → Bytes) (s : State) (op : Op) (id : Bytes)
    (hv : ∀ a, op ≠ .vote id a) (hd : ∀ sg r c cc k, op ≠ .deposit sg r c id cc k)
    (hf : ∀ sg a chain view fee, op = .fee sg a chain view fee →
      strBytes "updateFee" ++ u64le chain ++ u64le (feeRound s a chain view fee).fv ≠ id) :
    alGet (step H s op).votes id = alGet s.votes id := by
  apply step_preserves H (fun t => alGet t.votes id = alGet s.votes id) s op
  · intro t x ht; exact ht
  · intro o ho _
    cases op <;> plan_cases ho
    all_goals try rfl
    all_goals try (rename_i hcd; rw [commit_frame hcd]; done)
    all_goals (simp only; rw [alGet_put_ne]; intro e; first | (subst e; exact hv _ rfl) | (subst e; exact hd _ _ _ _ _ rfl) | exact hf _ _ _ _ _ rfl e.symm)
  · intro ap hap s1 s2 n _ hs1 hf
    cases op <;> plan_cases hap
    all_goals (dsimp only at hf)
    all_goals try (rw [blackEffect_frame hf]; exact hs1; done)
    all_goals try (obtain ⟨akb, _, he⟩ := candidateEffect_shape hf; rw [he]; exact hs1; done)
    all_goals try (split at hf)
    all_goals try (cases hf; done)
    all_goals (injection hf with hf; injection hf with hf1 hf2; subst hf1; exact hs1)
  · rfl

end Poly.Model.Gov
