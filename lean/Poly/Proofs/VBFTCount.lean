import Poly.Model.VBFTCount
/-!
Helper lemmas for C41 (VBFT round decisions count distinct participants). Core only.
-/
namespace Poly.Proofs.VBFTCount
open Poly.Model.VBFTCount

/-- An endorser's record: at most one non-empty entry per endorsed proposer and at most one empty entry. -/
def GoodList (l : List ESig) : Prop :=
  (∀ p, (l.filter fun s => !s.forEmpty && s.proposer == p).length ≤ 1) ∧ (l.filter (·.forEmpty)).length ≤ 1

/-- The endorsement records: one list per endorser (keys pairwise different), each list good. -/
def GoodRecs (m : ESigs) : Prop := (m.map (·.1)).Nodup ∧ ∀ x ∈ m, GoodList x.2

theorem goodList_single (s : ESig) : GoodList [s] := by
  constructor
  · intro p; simp only [List.filter]; split <;> simp
  · simp only [List.filter]; split <;> simp

theorem lookup_some_mem (m : ESigs) (e : Nat) (l : List ESig) (h : lookup m e = some l) : (e, l) ∈ m := by
  unfold lookup at h
  split at h
  · rename_i x hx
    simp only [Option.some.injEq] at h
    have := List.find?_some hx
    have hm := List.mem_of_find?_eq_some hx
    simp only [beq_iff_eq] at this
    rw [← this, ← h]; exact hm
  · simp at h

theorem lookup_none_not_mem (m : ESigs) (e : Nat) (h : lookup m e = none) : ∀ x ∈ m, x.1 ≠ e := by
  unfold lookup at h
  split at h
  · simp at h
  · rename_i hn
    intro x hx he
    have := List.find?_eq_none.mp hn x hx
    simp [he] at this

theorem keys_inj (m : ESigs) (hn : (m.map (·.1)).Nodup) (a b : Nat × List ESig) (ha : a ∈ m) (hb : b ∈ m)
    (h : a.1 = b.1) : a = b := by
  induction m with
  | nil => simp at ha
  | cons x r ih =>
    simp only [List.map_cons, List.nodup_cons, List.mem_map, not_exists, not_and] at hn
    rcases List.mem_cons.mp ha with rfl | ha' <;> rcases List.mem_cons.mp hb with rfl | hb'
    · rfl
    · exact absurd h.symm (hn.1 b hb')
    · exact absurd h (hn.1 a ha')
    · exact ih hn.2 ha' hb'

theorem mem_lookup (m : ESigs) (hn : (m.map (·.1)).Nodup) (e : Nat) (l : List ESig) (h : (e, l) ∈ m) : lookup m e = some l := by
  unfold lookup
  cases hf : m.find? (·.1 == e) with
  | none =>
    have := List.find?_eq_none.mp hf (e, l) h
    simp at this
  | some x =>
    have hx := List.mem_of_find?_eq_some hf
    have hxe : x.1 = e := by simpa using List.find?_some hf
    have := keys_inj m hn x (e, l) hx h hxe
    simp [this]

theorem insert_good (m : ESigs) (e : Nat) (l : List ESig) (hm : GoodRecs m) (hl : GoodList l) : GoodRecs (Model.VBFTCount.insert m e l) := by
  unfold Model.VBFTCount.insert
  split
  · rename_i hany
    constructor
    · have : (m.map fun x => if (x.1 == e) = true then (e, l) else x).map (·.1) = m.map (·.1) := by
        rw [List.map_map]; apply List.map_congr_left; intro x _
        simp only [Function.comp]; split
        · rename_i h; simp only [beq_iff_eq] at h; exact h.symm
        · rfl
      rw [this]; exact hm.1
    · intro x hx
      obtain ⟨y, hy, rfl⟩ := List.mem_map.mp hx
      split
      · exact hl
      · exact hm.2 y hy
  · rename_i hany
    constructor
    · rw [List.map_append, List.nodup_append]
      refine ⟨hm.1, by simp, ?_⟩
      intro a ha b hb
      simp only [List.map_cons, List.map_nil, List.mem_singleton] at hb
      subst hb
      intro hab; subst hab
      obtain ⟨y, hy, rfl⟩ := List.mem_map.mp ha
      apply hany
      simp only [List.any_eq_true, beq_iff_eq]
      exact ⟨y, hy, rfl⟩
    · intro x hx
      rcases List.mem_append.mp hx with h | h
      · exact hm.2 x h
      · simp only [List.mem_singleton] at h; subst h; exact hl

theorem addEndorsement_good (m : ESigs) (e : Nat) (s : ESig) (cm : Bool) (hm : GoodRecs m) :
    GoodRecs (addEndorsement m e s cm) := by
  unfold addEndorsement
  split
  · rename_i eSigs hlk
    have hmem := lookup_some_mem m e eSigs hlk
    have hgood := hm.2 _ hmem
    split
    · split
      · exact hm
      · rename_i hnoempty
        have hne : (eSigs.filter (·.forEmpty)) = [] := by
          rw [List.filter_eq_nil_iff]; intro x hx hxe
          apply hnoempty; simp only [List.any_eq_true]; exact ⟨x, hx, hxe⟩
        split
        · rename_i hse
          apply insert_good m e _ hm
          constructor
          · intro p
            rw [List.filter_append]
            have : ([s].filter fun s => !s.forEmpty && s.proposer == p) = [] := by simp [hse]
            rw [this, List.append_nil]; exact hgood.1 p
          · rw [List.filter_append, hne]; simp [hse]
        · rename_i hse
          split
          · exact hm
          · rename_i hnodup
            apply insert_good m e _ hm
            constructor
            · intro p
              rw [List.filter_append, List.length_append]
              by_cases hp : s.proposer = p
              · have : (eSigs.filter fun x => !x.forEmpty && x.proposer == p) = [] := by
                  rw [List.filter_eq_nil_iff]; intro x hx hxp
                  apply hnodup
                  simp only [Bool.and_eq_true, beq_iff_eq] at hxp
                  simp only [List.any_eq_true, beq_iff_eq]
                  exact ⟨x, hx, hxp.2.trans hp.symm⟩
                rw [this]; simp only [List.filter]; split <;> simp
              · have : ([s].filter fun x => !x.forEmpty && x.proposer == p) = [] := by simp [hp]
                rw [this]; simpa using hgood.1 p
            · rw [List.filter_append, hne]; simp [hse]
    · exact insert_good m e _ hm (goodList_single s)
  · exact insert_good m e _ hm (goodList_single s)

structure GoodCand (c : Cand) : Prop where
  recs : GoodRecs c.esigs
  committers : (c.commitMsgs.map (·.committer)).Nodup
  proposers : (c.proposals.map (·.proposer)).Nodup

theorem foldl_addEndorsement_good (l : List (Nat × Bytes)) (p : Nat) (fe : Bool) (m : ESigs) (hm : GoodRecs m) :
    GoodRecs (l.foldl (fun m x => addEndorsement m x.1 ⟨p, x.2, fe⟩ false) m) := by
  induction l generalizing m with
  | nil => exact hm
  | cons x r ih => exact ih _ (addEndorsement_good m x.1 _ false hm)

theorem stepMsg_good (c : Cand) (msg : Msg) (h : GoodCand c) : GoodCand (stepMsg c msg) := by
  cases msg with
  | proposal p =>
    simp only [stepMsg, newBlockProposal]
    split
    · split <;> exact h
    · rename_i hnone
      refine ⟨addEndorsement_good _ _ _ _ h.recs, h.committers, ?_⟩
      simp only [List.map_append, List.map_cons, List.map_nil]
      rw [List.nodup_append]
      refine ⟨h.proposers, by simp, ?_⟩
      intro a ha b hb
      simp only [List.mem_singleton] at hb; subst hb
      intro e; subst e
      obtain ⟨q, hq, hqe⟩ := List.mem_map.mp ha
      have := List.find?_eq_none.mp hnone q hq
      simp [hqe] at this
  | endorse e s =>
    exact ⟨addEndorsement_good _ _ _ _ h.recs, h.committers, h.proposers⟩
  | commit m =>
    simp only [stepMsg, newBlockCommitment]
    split
    · split <;> exact h
    · rename_i hnone
      refine ⟨addEndorsement_good _ _ _ _ (foldl_addEndorsement_good _ _ _ _ h.recs), ?_, h.proposers⟩
      simp only [List.map_append, List.map_cons, List.map_nil]
      rw [List.nodup_append]
      refine ⟨h.committers, by simp, ?_⟩
      intro a ha b hb
      simp only [List.mem_singleton] at hb; subst hb
      intro e; subst e
      obtain ⟨q, hq, hqe⟩ := List.mem_map.mp ha
      have := List.find?_eq_none.mp hnone q hq
      simp [hqe] at this

theorem runMsgs_good (msgs : List Msg) : GoodCand (runMsgs msgs) := by
  have : ∀ (c : Cand), GoodCand c → GoodCand (msgs.foldl stepMsg c) := by
    induction msgs with
    | nil => intro c h; exact h
    | cons m r ih => intro c h; exact ih _ (stepMsg_good c m h)
  exact this {} ⟨⟨by simp, by simp⟩, by simp, by simp⟩

/-- entries of the visit sequence that count for proposer `p` (non-empty) -/
def forP (p : Nat) (x : Nat × ESig) : Bool := !x.2.forEmpty && x.2.proposer == p
def isEmpty (x : Nat × ESig) : Bool := x.2.forEmpty

theorem mem_visits (m : ESigs) (order : List Nat) (e : Nat) (s : ESig) (h : (e, s) ∈ visits m order) :
    e ∈ order ∧ ∃ l, lookup m e = some l ∧ s ∈ l := by
  unfold visits at h
  obtain ⟨e', he', hx⟩ := List.mem_flatMap.mp h
  obtain ⟨s', hs', heq⟩ := List.mem_map.mp hx
  simp only [Prod.mk.injEq] at heq
  obtain ⟨rfl, rfl⟩ := heq
  refine ⟨he', ?_⟩
  cases hl : lookup m e' with
  | none => simp [hl] at hs'
  | some l => exact ⟨l, rfl, by simpa [hl] using hs'⟩

/-- With good records and a duplicate-free key order, a filter that keeps at most one entry per endorser list
    visits pairwise different endorsers. -/
theorem visits_filter_nodup (m : ESigs) (order : List Nat) (ho : order.Nodup)
    (f : ESig → Bool) (hf : ∀ x ∈ m, (x.2.filter f).length ≤ 1) :
    (((visits m order).filter fun x => f x.2).map (·.1)).Nodup := by
  induction order with
  | nil => simp [visits]
  | cons e rest ih =>
    have hn := List.nodup_cons.mp ho
    have hsplit : visits m (e :: rest) = ((lookup m e).getD []).map (fun s => (e, s)) ++ visits m rest := by
      simp [visits]
    rw [hsplit, List.filter_append, List.map_append, List.nodup_append]
    refine ⟨?_, ih hn.2, ?_⟩
    · -- at most one copy of e
      have hlen : ((((lookup m e).getD []).map fun s => (e, s)).filter fun x => f x.2).length ≤ 1 := by
        rw [List.filter_map, List.length_map]
        cases hl : lookup m e with
        | none => simp
        | some l =>
          have := hf _ (lookup_some_mem m e l hl)
          have he : ((fun x : Nat × ESig => f x.2) ∘ fun s => (e, s)) = f := rfl
          simp only [Option.getD_some, he]; exact this
      match hq : ((((lookup m e).getD []).map fun s => (e, s)).filter fun x => f x.2) with
      | [] => rw [hq]; simp
      | [a] => rw [hq]; simp
      | a :: b :: r => rw [hq] at hlen; simp at hlen
    · intro a ha b hb hab
      subst hab
      obtain ⟨x, hx, rfl⟩ := List.mem_map.mp ha
      obtain ⟨y, hy, hye⟩ := List.mem_map.mp hb
      have hx' := (List.mem_filter.mp hx).1
      obtain ⟨s, _, rfl⟩ := List.mem_map.mp hx'
      have hy' := (List.mem_filter.mp hy).1
      have := (mem_visits m rest y.1 y.2 hy').1
      simp only at hye
      rw [hye] at this
      exact hn.1 this

/-- edScan answers a non-empty proposer only when its counter, started at `seen.count p`, passes C. -/
theorem edScan_nonempty (C : Nat) (V : List (Nat × ESig)) (seen : List Nat) (empty p : Nat)
    (h : edScan C V seen empty = some (p, false)) :
    C < seen.count p + (V.filter (forP p)).length := by
  induction V generalizing seen empty with
  | nil => simp [edScan] at h
  | cons x rest ih =>
    obtain ⟨e, s⟩ := x
    unfold edScan at h
    split at h
    · rename_i hse
      split at h
      · simp at h
      · have := ih _ _ h
        simp only [List.filter_cons, forP, hse, Bool.not_true, Bool.false_and, Bool.false_eq_true, if_false]
        exact this
    · rename_i hse
      split at h
      · rename_i hc
        simp only [Option.some.injEq, Prod.mk.injEq, and_true] at h
        subst h
        simp only [List.filter_cons, forP, hse, Bool.not_false, Bool.true_and, beq_self_eq_true, if_true, List.length_cons]
        simp only [List.count_cons_self] at hc
        omega
      · have := ih _ _ h
        simp only [List.filter_cons, forP, hse, Bool.not_false, Bool.true_and]
        by_cases hp : s.proposer = p
        · subst hp; simp only [beq_self_eq_true, if_true, List.length_cons]
          simp only [List.count_cons_self] at this; omega
        · have hne : (s.proposer == p) = false := by simpa using hp
          simp only [hne, Bool.false_eq_true, if_false]
          rw [List.count_cons_of_ne (by exact fun e => hp e)] at this
          exact this

theorem edScan_empty (C : Nat) (V : List (Nat × ESig)) (seen : List Nat) (empty p : Nat)
    (h : edScan C V seen empty = some (p, true)) :
    C < empty + (V.filter isEmpty).length := by
  induction V generalizing seen empty with
  | nil => simp [edScan] at h
  | cons x rest ih =>
    obtain ⟨e, s⟩ := x
    unfold edScan at h
    split at h
    · rename_i hse
      simp only [List.filter_cons, isEmpty, hse, if_true, List.length_cons]
      split at h
      · omega
      · have := ih _ _ h; omega
    · rename_i hse
      have hse' : s.forEmpty = false := by simpa using hse
      simp only [List.filter_cons, isEmpty, hse', Bool.false_eq_true, if_false]
      split at h
      · simp at h
      · exact ih _ _ h

/-- `S` are pairwise different endorsers, each holding an entry accepted by `f`. -/
def Supporters (m : ESigs) (f : ESig → Bool) (S : List Nat) : Prop :=
  S.Nodup ∧ ∀ e ∈ S, ∃ l, lookup m e = some l ∧ ∃ s ∈ l, f s = true

theorem supporters_of_visits (m : ESigs) (order : List Nat) (ho : order.Nodup)
    (f : ESig → Bool) (hf : ∀ x ∈ m, (x.2.filter f).length ≤ 1) :
    ∃ S, Supporters m f S ∧ S.length = ((visits m order).filter fun x => f x.2).length := by
  refine ⟨((visits m order).filter fun x => f x.2).map (·.1), ⟨visits_filter_nodup m order ho f hf, ?_⟩, by simp⟩
  intro e he
  obtain ⟨x, hx, rfl⟩ := List.mem_map.mp he
  obtain ⟨hx1, hx2⟩ := List.mem_filter.mp hx
  obtain ⟨_, l, hl, hs⟩ := mem_visits m order x.1 x.2 hx1
  exact ⟨l, hl, x.2, hs, hx2⟩

theorem endorseDone_nonempty (c : Cand) (hc : GoodRecs c.esigs) (order : List Nat) (ho : order.Nodup) (C p : Nat)
    (h : endorseDone c order C = some (p, false)) :
    ∃ S, Supporters c.esigs (fun s => !s.forEmpty && s.proposer == p) S ∧ C < S.length := by
  unfold endorseDone at h
  split at h; · simp at h
  have := edScan_nonempty C _ [] 0 p h
  obtain ⟨S, hS, hlen⟩ := supporters_of_visits c.esigs order ho (fun s => !s.forEmpty && s.proposer == p)
    (fun x hx => (hc.2 x hx).1 p)
  refine ⟨S, hS, ?_⟩
  rw [hlen]
  have he : (fun x : Nat × ESig => (!x.2.forEmpty && x.2.proposer == p)) = forP p := rfl
  rw [he]; simpa using this

theorem endorseDone_empty (c : Cand) (hc : GoodRecs c.esigs) (order : List Nat) (ho : order.Nodup) (C p : Nat)
    (h : endorseDone c order C = some (p, true)) :
    ∃ S, Supporters c.esigs (fun s => s.forEmpty) S ∧ C < S.length := by
  unfold endorseDone at h
  split at h; · simp at h
  have := edScan_empty C _ [] 0 p h
  obtain ⟨S, hS, hlen⟩ := supporters_of_visits c.esigs order ho (fun s => s.forEmpty)
    (fun x hx => (hc.2 x hx).2)
  refine ⟨S, hS, ?_⟩
  rw [hlen]
  have he : (fun x : Nat × ESig => x.2.forEmpty) = isEmpty := rfl
  rw [he]; simpa using this

/-! ### commitDone fallback -/

theorem cdInner_spec (C' : Nat) (l : List ESig) (e : Nat) (emptyCnt : Nat) (seen : List Nat) :
    (∀ p, (cdInner C' l emptyCnt seen).2.2 = some p →
        C' < seen.count p + ((l.map fun s => (e, s)).filter (forP p)).length) ∧
    ((cdInner C' l emptyCnt seen).2.2 = none →
        ∀ q, (cdInner C' l emptyCnt seen).2.1.count q = seen.count q + ((l.map fun s => (e, s)).filter (forP q)).length) := by
  induction l generalizing emptyCnt seen with
  | nil => simp [cdInner]
  | cons s rest ih =>
    unfold cdInner
    split
    · rename_i hse
      obtain ⟨i1, i2⟩ := ih (emptyCnt + 1) seen
      simp only [List.map_cons, List.filter_cons, forP, hse, Bool.not_true, Bool.false_and, Bool.false_eq_true, if_false]
      exact ⟨i1, i2⟩
    · rename_i hse
      have hse' : s.forEmpty = false := by simpa using hse
      split
      · rename_i hc
        constructor
        · intro p hp
          simp only [Option.some.injEq] at hp; subst hp
          simp only [List.map_cons, List.filter_cons, forP, hse', Bool.not_false, Bool.true_and, beq_self_eq_true, if_true,
            List.length_cons]
          simp only [List.count_cons_self] at hc; omega
        · intro h; simp at h
      · obtain ⟨i1, i2⟩ := ih emptyCnt (s.proposer :: seen)
        constructor
        · intro p hp
          have := i1 p hp
          simp only [List.map_cons, List.filter_cons, forP, hse', Bool.not_false, Bool.true_and]
          by_cases hq : s.proposer = p
          · subst hq; simp only [beq_self_eq_true, if_true, List.length_cons]
            simp only [List.count_cons_self] at this; omega
          · have hne : (s.proposer == p) = false := by simpa using hq
            simp only [hne, Bool.false_eq_true, if_false]
            rw [List.count_cons_of_ne (by exact fun e => hq e)] at this
            exact this
        · intro hnone q
          have := i2 hnone q
          simp only [List.map_cons, List.filter_cons, forP, hse', Bool.not_false, Bool.true_and]
          by_cases hq : s.proposer = q
          · subst hq; simp only [beq_self_eq_true, if_true, List.length_cons]
            simp only [List.count_cons_self] at this; omega
          · have hne : (s.proposer == q) = false := by simpa using hq
            simp only [hne, Bool.false_eq_true, if_false]
            rw [List.count_cons_of_ne (by exact fun e => hq e)] at this
            exact this

theorem cdScan_spec (m : ESigs) (isEnd : Nat → Bool) (C' : Nat) (order : List Nat) (emptyCnt : Nat) (seen : List Nat)
    (p ec : Nat) (h : cdScan m isEnd C' order emptyCnt seen = some (p, ec)) :
    C' < seen.count p + ((visits m order).filter (forP p)).length := by
  induction order generalizing emptyCnt seen with
  | nil => simp [cdScan] at h
  | cons e rest ih =>
    have hsplit : visits m (e :: rest) = ((lookup m e).getD []).map (fun s => (e, s)) ++ visits m rest := by
      simp [visits]
    rw [hsplit, List.filter_append, List.length_append]
    unfold cdScan at h
    simp only at h
    generalize hem : (if (!isEnd e) = true then emptyCnt + (List.filter (fun x => x.forEmpty) ((lookup m e).getD [])).length else emptyCnt) = em at h
    obtain ⟨s1, s2⟩ := cdInner_spec C' ((lookup m e).getD []) e em seen
    split at h
    · rename_i a b q hq
      simp only [Option.some.injEq, Prod.mk.injEq] at h
      obtain ⟨rfl, _⟩ := h
      have := s1 q (by rw [hq])
      omega
    · rename_i a b hq
      have hcnt := s2 (by rw [hq]) p
      rw [hq] at hcnt
      simp only at hcnt
      have := ih _ _ h
      omega

theorem getSet_putSet (m : List (Nat × List Nat)) (p q : Nat) (s : List Nat) :
    getSet (putSet m p s) q = if p = q then s else getSet m q := by
  unfold putSet getSet
  simp only [List.find?_cons]
  by_cases h : p = q
  · simp [h]
  · have : (p == q) = false := by simpa using h
    simp [this, h]

theorem sinsert_fold (l s : List Nat) (hs : s.Nodup) :
    (l.foldl sinsert s).Nodup ∧ ∀ x, x ∈ l.foldl sinsert s ↔ x ∈ s ∨ x ∈ l := by
  induction l generalizing s with
  | nil => simp [hs]
  | cons a r ih =>
    have hs' : (sinsert s a).Nodup := by
      unfold sinsert; split
      · exact hs
      · rename_i h
        rw [List.nodup_append]; refine ⟨hs, by simp, ?_⟩
        intro x hx y hy; simp only [List.mem_singleton] at hy; subst hy
        intro e; subst e; apply h; simpa using hx
    have hm : ∀ x, x ∈ sinsert s a ↔ x ∈ s ∨ x = a := by
      intro x; unfold sinsert; split
      · rename_i h
        have : a ∈ s := by simpa using h
        constructor
        · intro hx; exact Or.inl hx
        · rintro (hx | rfl); exact hx; exact this
      · simp
    obtain ⟨i1, i2⟩ := ih (sinsert s a) hs'
    refine ⟨i1, ?_⟩
    intro x
    simp only [List.foldl_cons]
    rw [i2 x, hm x]
    simp only [List.mem_cons]
    constructor
    · rintro ((h | h) | h)
      · exact Or.inl h
      · exact Or.inr (Or.inl h)
      · exact Or.inr (Or.inr h)
    · rintro (h | h | h)
      · exact Or.inl (Or.inl h)
      · exact Or.inl (Or.inr h)
      · exact Or.inr h

/-- Every set of the `signCount` map: pairwise different participants, each a committer or named endorser of a
    processed commit message for that proposer. -/
def GoodSC (sc : List (Nat × List Nat)) (done : List CommitMsg) : Prop :=
  ∀ q, (getSet sc q).Nodup ∧ ∀ x ∈ getSet sc q, ∃ msg ∈ done, msg.proposer = q ∧ x ∈ signersOf msg

def thrNat (N : Nat) : Nat := N - (N - 1) / 3

theorem thr_unfold (len N : Nat) :
    Poly.Generated.Thresholds.vbft_getCommitConsensus0 (len : Int) (N : Int) = true ↔ thrNat N ≤ len + 1 := by
  unfold Poly.Generated.Thresholds.vbft_getCommitConsensus0 thrNat
  simp only [decide_eq_true_eq, ge_iff_le]
  rcases N with _ | n
  · simp; omega
  · have : Int.tdiv ((((n + 1 : Nat) : Int)) - 1) 3 = (((n + 1 : Nat) : Int) - 1) / 3 :=
      Int.tdiv_eq_ediv_of_nonneg (by omega)
    rw [this]; omega

theorem gccLoop_spec (N : Nat) (msgs done : List CommitMsg) (C ec : Nat) (eb : Bool) (sc : List (Nat × List Nat))
    (hsc : GoodSC sc done) (p : Nat) (e : Bool) (h : gccLoop N msgs C ec eb sc = some (p, e)) :
    ∃ S : List Nat, S.Nodup ∧ (∀ x ∈ S, ∃ msg ∈ done ++ msgs, msg.proposer = p ∧ x ∈ signersOf msg) ∧
      thrNat N ≤ S.length + 1 := by
  induction msgs generalizing done C ec eb sc with
  | nil => simp [gccLoop] at h
  | cons c rest ih =>
    unfold gccLoop at h
    simp only at h
    obtain ⟨f1, f2⟩ := sinsert_fold (signersOf c) (getSet sc c.proposer) (hsc c.proposer).1
    have hmem : ∀ x ∈ (signersOf c).foldl sinsert (getSet sc c.proposer),
        ∃ msg ∈ done ++ [c], msg.proposer = c.proposer ∧ x ∈ signersOf msg := by
      intro x hx
      rcases (f2 x).mp hx with h1 | h1
      · obtain ⟨msg, hm, hp, hx⟩ := (hsc c.proposer).2 x h1
        exact ⟨msg, by simp [hm], hp, hx⟩
      · exact ⟨c, by simp, rfl, h1⟩
    split at h
    · rename_i hthr
      simp only [Option.some.injEq, Prod.mk.injEq] at h
      obtain ⟨rfl, _⟩ := h
      refine ⟨_, f1, ?_, (thr_unfold _ N).mp hthr⟩
      intro x hx
      obtain ⟨msg, hm, hp, hxs⟩ := hmem x hx
      refine ⟨msg, ?_, hp, hxs⟩
      rcases List.mem_append.mp hm with h1 | h1
      · exact List.mem_append_left _ h1
      · simp only [List.mem_singleton] at h1; subst h1; simp
    · have hsc' : GoodSC (putSet sc c.proposer ((signersOf c).foldl sinsert (getSet sc c.proposer))) (done ++ [c]) := by
        intro q
        rw [getSet_putSet]
        split
        · rename_i hq; subst hq; exact ⟨f1, hmem⟩
        · refine ⟨(hsc q).1, ?_⟩
          intro x hx
          obtain ⟨msg, hm, hp, hxs⟩ := (hsc q).2 x hx
          exact ⟨msg, by simp [hm], hp, hxs⟩
      obtain ⟨S, s1, s2, s3⟩ := ih (done ++ [c]) _ _ _ _ hsc' h
      refine ⟨S, s1, ?_, s3⟩
      intro x hx
      obtain ⟨msg, hm, r⟩ := s2 x hx
      exact ⟨msg, by simpa using hm, r⟩

theorem getCommitConsensus_spec (msgs : List CommitMsg) (C N p : Nat) (e : Bool)
    (h : getCommitConsensus msgs C N = some (p, e)) :
    ∃ S : List Nat, S.Nodup ∧ (∀ x ∈ S, ∃ msg ∈ msgs, msg.proposer = p ∧ x ∈ signersOf msg) ∧ thrNat N ≤ S.length + 1 := by
  unfold getCommitConsensus at h
  have := gccLoop_spec N msgs [] C 0 false [] (by intro q; simp [getSet]) p e h
  simpa using this

theorem commitDone_spec (c : Cand) (hc : GoodRecs c.esigs) (order : List Nat) (ho : order.Nodup)
    (isEnd : Nat → Bool) (C N p : Nat) (e : Bool) (hCN : C + 1 ≤ N) (hN : N < 4294967296)
    (h : commitDone c order isEnd C N = some (p, e)) :
    (∃ S : List Nat, S.Nodup ∧ (∀ x ∈ S, ∃ msg ∈ c.commitMsgs, msg.proposer = p ∧ x ∈ signersOf msg) ∧
        thrNat N ≤ S.length + 1) ∨
    (∃ S, Supporters c.esigs (fun s => !s.forEmpty && s.proposer == p) S ∧ N - 1 - C < S.length) := by
  unfold commitDone at h
  split at h
  · rename_i r hr
    simp only [Option.some.injEq] at h; subst h
    exact Or.inl (getCommitConsensus_spec _ _ _ _ _ hr)
  · simp only at h
    have hC' : (N + 4294967296 - 1 - C) % 4294967296 = N - 1 - C := by omega
    rw [hC'] at h
    split at h
    · rename_i q ec hs
      simp only [Option.some.injEq, Prod.mk.injEq] at h
      obtain ⟨rfl, _⟩ := h
      right
      have := cdScan_spec c.esigs isEnd (N - 1 - C) order 0 [] q ec hs
      obtain ⟨S, hS, hlen⟩ := supporters_of_visits c.esigs order ho (fun s => !s.forEmpty && s.proposer == q)
        (fun x hx => (hc.2 x hx).1 q)
      refine ⟨S, hS, ?_⟩
      rw [hlen]
      have he : (fun x : Nat × ESig => (!x.2.forEmpty && x.2.proposer == q)) = forP q := rfl
      rw [he]; simpa using this
    · simp at h

/-- The signatures collected for a sealed header. -/
theorem sealSignatures_spec (m : ESigs) (order : List Nat) (ho : order.Nodup) (hasKey : Nat → Bool) (proposer : Nat)
    (psig : Bytes) (fe : Bool) :
    ((sealSignatures m order hasKey proposer psig fe).map (·.1)).Nodup ∧
    (sealSignatures m order hasKey proposer psig fe).head? = some (proposer, psig) ∧
    ∀ x ∈ (sealSignatures m order hasKey proposer psig fe).tail,
      x.1 ≠ proposer ∧ x.1 ∈ order ∧ hasKey x.1 = true ∧
        ∃ l, lookup m x.1 = some l ∧ ∃ s ∈ l, s.proposer = proposer ∧ s.forEmpty = fe ∧ s.sig = x.2 := by
  unfold sealSignatures
  -- facts about the filterMap part
  have key : ∀ (ord : List Nat), ord.Nodup →
      ((ord.filterMap fun e =>
          match ((lookup m e).getD []).find? (fun s => s.proposer == proposer && s.forEmpty == fe && e != proposer) with
          | some s => if hasKey e then some (e, s.sig) else none
          | none => none).map (·.1)).Sublist ord ∧
      ∀ x ∈ (ord.filterMap fun e =>
          match ((lookup m e).getD []).find? (fun s => s.proposer == proposer && s.forEmpty == fe && e != proposer) with
          | some s => if hasKey e then some (e, s.sig) else none
          | none => none),
        x.1 ≠ proposer ∧ x.1 ∈ ord ∧ hasKey x.1 = true ∧
          ∃ l, lookup m x.1 = some l ∧ ∃ s ∈ l, s.proposer = proposer ∧ s.forEmpty = fe ∧ s.sig = x.2 := by
    intro ord
    induction ord with
    | nil => intro _; simp
    | cons e rest ih =>
      intro hn
      have hn' := List.nodup_cons.mp hn
      obtain ⟨i1, i2⟩ := ih hn'.2
      simp only [List.filterMap_cons]
      split
      · rename_i hnone
        refine ⟨i1.cons _, ?_⟩
        intro x hx
        obtain ⟨a, b, c, d⟩ := i2 x hx
        exact ⟨a, List.mem_cons_of_mem _ b, c, d⟩
      · rename_i y hy
        -- y = (e, s.sig)
        split at hy
        · rename_i s hs
          split at hy
          · rename_i hk
            simp only [Option.some.injEq] at hy; subst hy
            refine ⟨by simpa using i1.cons_cons e, ?_⟩
            intro x hx
            rcases List.mem_cons.mp hx with rfl | hx
            · have hf := List.find?_some hs
              have hm := List.mem_of_find?_eq_some hs
              simp only [Bool.and_eq_true, beq_iff_eq, bne_iff_ne, ne_eq] at hf
              refine ⟨hf.2, by simp, hk, ?_⟩
              cases hl : lookup m e with
              | none => simp [hl] at hm
              | some l => exact ⟨l, rfl, s, by simpa [hl] using hm, hf.1.1, hf.1.2, rfl⟩
            · obtain ⟨a, b, c, d⟩ := i2 x hx
              exact ⟨a, List.mem_cons_of_mem _ b, c, d⟩
          · simp at hy
        · simp at hy
  obtain ⟨k1, k2⟩ := key order ho
  refine ⟨?_, by simp, ?_⟩
  · simp only [List.map_cons]
    refine List.nodup_cons.mpr ⟨?_, ho.sublist k1⟩
    intro hmem
    obtain ⟨x, hx, hxe⟩ := List.mem_map.mp hmem
    exact (k2 x hx).1 hxe
  · intro x hx
    simp only [List.tail_cons] at hx
    exact k2 x hx

theorem edScan_none_iff (C : Nat) (V : List (Nat × ESig)) (seen : List Nat) (empty : Nat)
    (h0 : ∀ p, seen.count p ≤ C) (h1 : empty ≤ C) :
    edScan C V seen empty = none ↔
      (∀ p, seen.count p + (V.filter (forP p)).length ≤ C) ∧ empty + (V.filter isEmpty).length ≤ C := by
  induction V generalizing seen empty with
  | nil => simp [edScan]; exact ⟨h0, h1⟩
  | cons x rest ih =>
    obtain ⟨e, s⟩ := x
    unfold edScan
    by_cases hse : s.forEmpty = true
    · simp only [hse, if_true]
      have hf : ∀ p, forP p (e, s) = false := by intro p; simp [forP, hse]
      have hi : isEmpty (e, s) = true := by simp [isEmpty, hse]
      simp only [List.filter_cons, hf, hi, Bool.false_eq_true, if_false, if_true, List.length_cons]
      by_cases hc : empty + 1 > C
      · simp only [hc, if_true]
        constructor
        · intro h; simp at h
        · intro ⟨_, h⟩; omega
      · simp only [hc, if_false]
        rw [ih seen (empty + 1) h0 (by omega)]
        constructor
        · intro ⟨a, b⟩; exact ⟨a, by omega⟩
        · intro ⟨a, b⟩; exact ⟨a, by omega⟩
    · have hse' : s.forEmpty = false := by simpa using hse
      simp only [hse', Bool.false_eq_true, if_false]
      have hi : isEmpty (e, s) = false := by simp [isEmpty, hse']
      simp only [List.filter_cons, hi, Bool.false_eq_true, if_false]
      by_cases hc : (s.proposer :: seen).count s.proposer > C
      · simp only [hc, if_true]
        constructor
        · intro h; simp at h
        · intro ⟨a, _⟩
          have := a s.proposer
          simp only [forP, hse', Bool.not_false, Bool.true_and, beq_self_eq_true, if_true, List.length_cons] at this
          simp only [List.count_cons_self] at hc
          omega
      · simp only [hc, if_false]
        have h0' : ∀ p, (s.proposer :: seen).count p ≤ C := by
          intro p
          by_cases hp : s.proposer = p
          · subst hp; omega
          · rw [List.count_cons_of_ne (by exact fun e => hp e)]; exact h0 p
        rw [ih (s.proposer :: seen) empty h0' h1]
        have key : ∀ p, (s.proposer :: seen).count p + (rest.filter (forP p)).length =
            seen.count p + (if forP p (e, s) = true then (e, s) :: rest.filter (forP p) else rest.filter (forP p)).length := by
          intro p
          by_cases hp : s.proposer = p
          · subst hp
            simp only [forP, hse', Bool.not_false, Bool.true_and, beq_self_eq_true, if_true, List.length_cons, List.count_cons_self]
            omega
          · have hne : (s.proposer == p) = false := by simpa using hp
            simp only [forP, hse', Bool.not_false, Bool.true_and, hne, Bool.false_eq_true, if_false]
            rw [List.count_cons_of_ne (by exact fun e => hp e)]
        constructor
        · intro ⟨a, b⟩; exact ⟨fun p => by rw [← key p]; exact a p, b⟩
        · intro ⟨a, b⟩; exact ⟨fun p => by rw [key p]; exact a p, b⟩

theorem visits_perm (m : ESigs) (o1 o2 : List Nat) (h : o1.Perm o2) : (visits m o1).Perm (visits m o2) := by
  unfold visits; exact List.Perm.flatMap_right _ h

/-- Whether endorseDone reports a decision does not depend on the iteration order of the map. -/
theorem endorseDone_isSome_perm (c : Cand) (o1 o2 : List Nat) (h : o1.Perm o2) (C : Nat) :
    (endorseDone c o1 C).isSome = (endorseDone c o2 C).isSome := by
  unfold endorseDone
  split
  · rfl
  · have hp := visits_perm c.esigs o1 o2 h
    have key : ∀ o, (edScan C (visits c.esigs o) [] 0 = none ↔
        (∀ p, ((visits c.esigs o).filter (forP p)).length ≤ C) ∧ ((visits c.esigs o).filter isEmpty).length ≤ C) := by
      intro o
      have := edScan_none_iff C (visits c.esigs o) [] 0 (by simp) (by omega)
      simpa using this
    have e1 : ∀ p, ((visits c.esigs o1).filter (forP p)).length = ((visits c.esigs o2).filter (forP p)).length :=
      fun p => (hp.filter _).length_eq
    have e2 : ((visits c.esigs o1).filter isEmpty).length = ((visits c.esigs o2).filter isEmpty).length :=
      (hp.filter _).length_eq
    have : (edScan C (visits c.esigs o1) [] 0 = none ↔ edScan C (visits c.esigs o2) [] 0 = none) := by
      rw [key o1, key o2]; simp only [e1, e2]
    cases h1 : edScan C (visits c.esigs o1) [] 0 <;> cases h2 : edScan C (visits c.esigs o2) [] 0 <;> simp_all

/-! commitDone fallback -/

theorem cdInner_none_le (C' : Nat) (l : List ESig) (emptyCnt : Nat) (seen : List Nat)
    (h0 : ∀ q, seen.count q ≤ C') (h : (cdInner C' l emptyCnt seen).2.2 = none) :
    ∀ q, (cdInner C' l emptyCnt seen).2.1.count q ≤ C' := by
  induction l generalizing emptyCnt seen with
  | nil => simpa [cdInner] using h0
  | cons s rest ih =>
    unfold cdInner at h ⊢
    split
    · rename_i hse; simp only [hse, if_true] at h; exact ih _ _ h0 h
    · rename_i hse
      simp only [hse, if_false] at h
      split
      · rename_i hc; simp only [hc, if_true] at h; simp at h
      · rename_i hc
        simp only [hc, if_false] at h
        refine ih _ _ ?_ h
        intro q
        by_cases hp : s.proposer = q
        · subst hp; omega
        · rw [List.count_cons_of_ne (by exact fun e => hp e)]; exact h0 q

theorem cdScan_none (m : ESigs) (isEnd : Nat → Bool) (C' : Nat) (order : List Nat) (emptyCnt : Nat) (seen : List Nat)
    (h0 : ∀ q, seen.count q ≤ C') (h : cdScan m isEnd C' order emptyCnt seen = none) :
    ∀ q, seen.count q + ((visits m order).filter (forP q)).length ≤ C' := by
  induction order generalizing emptyCnt seen with
  | nil => simpa [visits] using h0
  | cons e rest ih =>
    have hsplit : visits m (e :: rest) = ((lookup m e).getD []).map (fun s => (e, s)) ++ visits m rest := by
      simp [visits]
    intro q
    rw [hsplit, List.filter_append, List.length_append]
    unfold cdScan at h
    simp only at h
    generalize hem : (if (!isEnd e) = true then emptyCnt + (List.filter (fun x => x.forEmpty) ((lookup m e).getD [])).length else emptyCnt) = em at h
    obtain ⟨_, s2⟩ := cdInner_spec C' ((lookup m e).getD []) e em seen
    have hle := cdInner_none_le C' ((lookup m e).getD []) em seen h0
    split at h
    · simp at h
    · rename_i a b hq
      have hcnt := s2 (by rw [hq]) q
      have hle' := hle (by rw [hq])
      rw [hq] at hcnt hle'
      simp only at hcnt hle'
      have := ih _ _ hle' h q
      omega

theorem commitDone_isSome_perm (c : Cand) (o1 o2 : List Nat) (h : o1.Perm o2) (isEnd : Nat → Bool) (C N : Nat) :
    (commitDone c o1 isEnd C N).isSome = (commitDone c o2 isEnd C N).isSome := by
  unfold commitDone
  split
  · rfl
  · simp only
    generalize (N + 4294967296 - 1 - C) % 4294967296 = C'
    have hp := visits_perm c.esigs o1 o2 h
    have e1 : ∀ p, ((visits c.esigs o1).filter (forP p)).length = ((visits c.esigs o2).filter (forP p)).length :=
      fun p => (hp.filter _).length_eq
    cases h1 : cdScan c.esigs isEnd C' o1 0 [] with
    | none =>
      cases h2 : cdScan c.esigs isEnd C' o2 0 [] with
      | none => rfl
      | some r =>
        obtain ⟨p, ec⟩ := r
        have a := cdScan_spec c.esigs isEnd C' o2 0 [] p ec h2
        have b := cdScan_none c.esigs isEnd C' o1 0 [] (by simp) h1 p
        rw [e1 p] at b; simp at a b; omega
    | some r =>
      obtain ⟨p, ec⟩ := r
      cases h2 : cdScan c.esigs isEnd C' o2 0 [] with
      | some r2 => rfl
      | none =>
        have a := cdScan_spec c.esigs isEnd C' o1 0 [] p ec h1
        have b := cdScan_none c.esigs isEnd C' o2 0 [] (by simp) h2 p
        rw [← e1 p] at b; simp at a b; omega

theorem nodup_map_inj {α β : Type} (f : α → β) (l : List α) (h : (l.map f).Nodup) (a b : α) (ha : a ∈ l) (hb : b ∈ l)
    (hf : f a = f b) : a = b := by
  induction l with
  | nil => simp at ha
  | cons x r ih =>
    simp only [List.map_cons, List.nodup_cons, List.mem_map, not_exists, not_and] at h
    rcases List.mem_cons.mp ha with rfl | ha' <;> rcases List.mem_cons.mp hb with rfl | hb'
    · rfl
    · exact absurd hf.symm (h.1 b hb')
    · exact absurd hf (h.1 a ha')
    · exact ih h.2 ha' hb'

theorem newBlockProposal_dup (c : Cand) (hn : (c.proposals.map (·.proposer)).Nodup) (p q : Proposal)
    (hq : q ∈ c.proposals) (hqp : q.proposer = p.proposer) :
    newBlockProposal c p = (c, if q.sig = p.sig then .ok else .dup) := by
  unfold newBlockProposal
  cases hf : c.proposals.find? (·.proposer == p.proposer) with
  | none =>
    have := List.find?_eq_none.mp hf q hq
    simp [hqp] at this
  | some x =>
    have hx := List.mem_of_find?_eq_some hf
    have hxp : x.proposer = p.proposer := by simpa using List.find?_some hf
    have : x = q := nodup_map_inj (·.proposer) c.proposals hn x q hx hq (hxp.trans hqp.symm)
    subst this
    by_cases hs : x.sig = p.sig <;> simp [hs]

theorem newBlockCommitment_dup (c : Cand) (hn : (c.commitMsgs.map (·.committer)).Nodup) (m q : CommitMsg)
    (hq : q ∈ c.commitMsgs) (hqm : q.committer = m.committer) :
    newBlockCommitment c m = (c, if q.hash = m.hash then .ok else .dup) := by
  unfold newBlockCommitment
  cases hf : c.commitMsgs.find? (·.committer == m.committer) with
  | none =>
    have := List.find?_eq_none.mp hf q hq
    simp [hqm] at this
  | some x =>
    have hx := List.mem_of_find?_eq_some hf
    have hxp : x.committer = m.committer := by simpa using List.find?_some hf
    have : x = q := nodup_map_inj (·.committer) c.commitMsgs hn x q hx hq (hxp.trans hqm.symm)
    subst this
    by_cases hs : x.hash = m.hash <;> simp [hs]

end Poly.Proofs.VBFTCount
