import Poly.Model.Gov
/-!
Helper lemmas for the governance model: association lists, the frame of `CheckConsensusSigns`, the decomposition of a
transaction into plan / approval / action, and the generic invariant rule `step_preserves`.
-/
namespace Poly.Model.Gov

/-! ## association lists -/
section
variable {κ ν : Type} [DecidableEq κ]

theorem alGet_erase_self (l : List (κ × ν)) (k : κ) : alGet (alErase l k) k = none := by
  induction l with
  | nil => rfl
  | cons p t ih =>
    obtain ⟨k', v⟩ := p
    by_cases h : k' = k
    · simp [alErase, h] at ih ⊢; exact ih
    · simp [alErase, h, alGet] at ih ⊢; exact ih

theorem alGet_erase_ne (l : List (κ × ν)) (k k2 : κ) (h : k2 ≠ k) : alGet (alErase l k) k2 = alGet l k2 := by
  induction l with
  | nil => rfl
  | cons p t ih =>
    obtain ⟨k', v⟩ := p
    by_cases h1 : k' = k
    · subst h1
      have : ¬ k' = k2 := fun e => h e.symm
      simp [alErase, alGet, this] at ih ⊢; exact ih
    · by_cases h2 : k' = k2
      · subst h2; simp [alErase, alGet, h1]
      · simp [alErase, alGet, h1, h2] at ih ⊢; exact ih

theorem alGet_append_single (l : List (κ × ν)) (k k2 : κ) (v : ν) :
    alGet (l ++ [(k, v)]) k2 = match alGet l k2 with
      | some x => some x
      | none => if k = k2 then some v else none := by
  induction l with
  | nil => simp [alGet]
  | cons p t ih =>
    obtain ⟨k', v'⟩ := p
    by_cases h : k' = k2
    · simp [alGet, h]
    · simp [alGet, h]; exact ih

theorem alGet_put_self (l : List (κ × ν)) (k : κ) (v : ν) : alGet (alPut l k v) k = some v := by
  unfold alPut
  rw [alGet_append_single, alGet_erase_self]; simp

theorem alGet_put_ne (l : List (κ × ν)) (k k2 : κ) (v : ν) (h : k2 ≠ k) : alGet (alPut l k v) k2 = alGet l k2 := by
  unfold alPut
  rw [alGet_append_single, alGet_erase_ne _ _ _ h]
  have : ¬ k = k2 := fun e => h e.symm
  cases alGet l k2 <;> simp [this]

theorem alHas_erase_self (l : List (κ × ν)) (k : κ) : alHas (alErase l k) k = false := by
  simp [alHas, alGet_erase_self]

theorem alHas_erase_ne (l : List (κ × ν)) (k k2 : κ) (h : k2 ≠ k) : alHas (alErase l k) k2 = alHas l k2 := by
  simp [alHas, alGet_erase_ne _ _ _ h]

theorem alHas_put_self (l : List (κ × ν)) (k : κ) (v : ν) : alHas (alPut l k v) k = true := by
  simp [alHas, alGet_put_self]

theorem alHas_put_ne (l : List (κ × ν)) (k k2 : κ) (v : ν) (h : k2 ≠ k) : alHas (alPut l k v) k2 = alHas l k2 := by
  simp [alHas, alGet_put_ne _ _ _ _ h]

/-- erasing anything keeps an absent key absent -/
theorem alHas_erase_of_not (l : List (κ × ν)) (k k2 : κ) (h : alHas l k2 = false) : alHas (alErase l k) k2 = false := by
  by_cases e : k2 = k
  · subst e; exact alHas_erase_self _ _
  · rw [alHas_erase_ne _ _ _ e]; exact h
end

/-! ## CheckConsensusSigns touches only the approval ledgers -/

theorem ccs_frame (H : Bytes → Bytes) {s s1 : State} {m : String} {i : Bytes} {a : Addr} {f : Bool} {ev : String}
    (h : checkConsensusSigns H s m i a = .ok (s1, f, ev)) : s1 = { s with signs := s1.signs } := by
  simp only [checkConsensusSigns] at h
  split at h
  · cases h
  · split at h
    · cases h
    · injection h with h; injection h with h1 h2; subst h1; rfl

/-! ## decomposition of a transaction -/

/-- The four ways a transaction ends. -/
theorem step_cases (H : Bytes → Bytes) (s : State) (op : Op) :
    step H s op = s ∨
    (∃ o, plan H s op = .ok (.done o) ∧ step H s op = o.st) ∨
    (∃ ap s1 ev, plan H s op = .ok (.approve ap) ∧
        checkConsensusSigns H s ap.method ap.input ap.addr = .ok (s1, false, ev) ∧ step H s op = s1) ∨
    (∃ ap s1 ev s2 n, plan H s op = .ok (.approve ap) ∧
        checkConsensusSigns H s ap.method ap.input ap.addr = .ok (s1, true, ev) ∧
        ap.onFire s1 = .ok (s2, n) ∧ step H s op = s2) := by
  unfold step exec
  cases hp : plan H s op with
  | error e => left; rfl
  | ok p =>
    cases p with
    | done o => right; left; exact ⟨o, rfl, rfl⟩
    | approve ap =>
      simp only [runPlan]
      cases hc : checkConsensusSigns H s ap.method ap.input ap.addr with
      | error e => left; rfl
      | ok r =>
        obtain ⟨s1, f, ev⟩ := r
        cases f with
        | false => right; right; left; exact ⟨ap, s1, ev, rfl, hc, rfl⟩
        | true =>
          cases hf : ap.onFire s1 with
          | error e => left; simp [hf]
          | ok r2 =>
            obtain ⟨s2, n⟩ := r2
            right; right; right
            exact ⟨ap, s1, ev, s2, n, rfl, hc, hf, by simp [hf]⟩

/-- Invariant rule: a property that does not look at the approval ledgers is kept by a transaction when the
finishing handlers keep it and the approved actions keep it. -/
theorem step_preserves (H : Bytes → Bytes) (P : State → Prop) (s : State) (op : Op)
    (hsigns : ∀ (t : State) (x : List (Bytes × List Addr)), P t → P { t with signs := x })
    (hdone : ∀ o, plan H s op = .ok (.done o) → P s → P o.st)
    (hfire : ∀ ap, plan H s op = .ok (.approve ap) → ∀ s1 s2 n, s1 = { s with signs := s1.signs } → P s1 →
        ap.onFire s1 = .ok (s2, n) → P s2)
    (h : P s) : P (step H s op) := by
  rcases step_cases H s op with e | ⟨o, hp, e⟩ | ⟨ap, s1, ev, hp, hc, e⟩ | ⟨ap, s1, ev, s2, n, hp, hc, hf, e⟩
  · rw [e]; exact h
  · rw [e]; exact hdone o hp h
  · rw [e, ccs_frame H hc]; exact hsigns _ _ h
  · rw [e]
    have hs1 := ccs_frame H hc
    exact hfire ap hp s1 s2 n hs1 (by rw [hs1]; exact hsigns _ _ h) hf

theorem run_preserves (H : Bytes → Bytes) (P : State → Prop)
    (hstep : ∀ s op, P s → P (step H s op)) (s : State) (ops : List Op) (h : P s) : P (run H s ops) := by
  induction ops generalizing s with
  | nil => exact h
  | cons op rest ih => exact ih _ (hstep s op h)

theorem run_append (H : Bytes → Bytes) (s : State) (a b : List Op) : run H s (a ++ b) = run H (run H s a) b := by
  induction a generalizing s with
  | nil => rfl
  | cons op rest ih => exact ih _

end Poly.Model.Gov
