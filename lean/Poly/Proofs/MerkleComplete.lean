import Poly.Proofs.MerkleStore
import Poly.Proofs.MerkleVerify
/-
C06 (completeness of the node's own verifier on generated proofs): the RFC 6962 audit path, which is
what `InclusionProof` returns, is the level-by-level path, and `VerifyLeafHashInclusion` accepts it.
-/
namespace Poly.Proofs.MerkleComplete
open Poly.Spec.RFC6962 Poly.Model.Merkle Poly.Proofs.MerkleSpec Poly.Proofs.MerkleServe Poly.Proofs.MerkleStore
  Poly.Proofs.MerkleVerify

variable (H : List UInt8 → List UInt8)

/-- The sibling of node `i` on level `L` (none for a promoted last node). -/
def sib (L : List Hash) (i : Nat) : List Hash :=
  if i % 2 = 1 then (L[i - 1]?).toList else (L[i + 1]?).toList

/-- Level-by-level audit path. -/
def lpath : List Hash → Nat → List Hash
  | L, i => if _h : L.length ≤ 1 then [] else sib L i ++ lpath (pairUp H L) (i / 2)
termination_by L => L.length
decreasing_by rw [pairUp_length]; omega

theorem lpath_small (L : List Hash) (i : Nat) (h : L.length ≤ 1) : lpath H L i = [] := by
  rw [lpath]; simp [h]

theorem lpath_step (L : List Hash) (i : Nat) (h : 2 ≤ L.length) :
    lpath H L i = sib L i ++ lpath H (pairUp H L) (i / 2) := by
  rw [lpath]; have : ¬ L.length ≤ 1 := by omega
  simp [this]

theorem sib_take (L : List Hash) (i k : Nat) (hk : k % 2 = 0) (hi : i < k) : sib (L.take k) i = sib L i := by
  unfold sib
  split
  · rw [List.getElem?_take_of_lt (by omega)]
  · rw [List.getElem?_take_of_lt (by omega)]

theorem sib_drop (L : List Hash) (i k : Nat) (hk : k % 2 = 0) (hi : k ≤ i) : sib (L.drop k) (i - k) = sib L i := by
  unfold sib
  have hpar : (i - k) % 2 = i % 2 := by omega
  rw [hpar]
  split
  · rw [List.getElem?_drop]; congr 2; omega
  · rw [List.getElem?_drop]; congr 2; omega

/-- The level-by-level path is the RFC 6962 `PATH`. -/
theorem lpath_eq_path (n : Nat) : ∀ (L : List Hash) (i : Nat), L.length = n → i < n → lpath H L i = path H i L := by
  induction n using Nat.strongRecOn with
  | _ n ih =>
    intro L i hL hi
    match L, hL with
    | [], hL => simp at hL; omega
    | [x], _ => rw [lpath_small H _ _ (by simp), path_single]
    | [a, b], hL =>
      rw [lpath_step H _ _ (by simp), path_split H _ _ (by simp)]
      simp only [pairUp, List.length_cons, List.length_nil]
      rw [lpath_small H _ _ (by simp)]
      have : i = 0 ∨ i = 1 := by simp at hL; omega
      rcases this with rfl | rfl
      · simp [sib, path_single, mth_single, splitPoint_two]
      · simp [sib, path_single, mth_single, splitPoint_two]
    | a :: b :: c :: r, hL =>
      generalize hLL : a :: b :: c :: r = L at hL
      have hn3 : 3 ≤ n := by rw [← hL, ← hLL]; simp
      obtain ⟨hk2, hkh⟩ := splitPoint_half n hn3
      obtain ⟨_, hk1, hk3⟩ := splitPoint_spec n (by omega)
      have hkpos := splitPoint_pos n
      have hP : (pairUp H L).length = (n + 1) / 2 := by rw [pairUp_length, hL]
      rw [lpath_step H L i (by omega), ih _ (by omega) (pairUp H L) (i / 2) hP (by omega)]
      rw [path_split H _ (pairUp H L) (by omega), path_split H i L (by omega), hP, hkh, hL]
      generalize hk : splitPoint n = k at *
      rw [← pairUp_take_even H L k hk2 (by omega), ← pairUp_drop_even H L k hk2 (by omega)]
      rw [mth_pairUp, mth_pairUp]
      by_cases hik : i < k
      · have hik2 : i / 2 < k / 2 := by omega
        simp only [hik, hik2, ↓reduceIte]
        have hlt : (L.take k).length = k := by simp; omega
        rw [← ih ((k + 1) / 2) (by omega) (pairUp H (L.take k)) (i / 2) (by rw [pairUp_length, hlt]) (by omega)]
        rw [← List.append_assoc, ← sib_take L i k hk2 hik, ← lpath_step H (L.take k) i (by omega)]
        rw [ih k (by omega) (L.take k) i hlt hik]
      · have hik2 : ¬ i / 2 < k / 2 := by omega
        simp only [hik, hik2, ↓reduceIte]
        have hld : (L.drop k).length = n - k := by simp; omega
        have e : i / 2 - k / 2 = (i - k) / 2 := by omega
        rw [e, ← ih ((n - k + 1) / 2) (by omega) (pairUp H (L.drop k)) ((i - k) / 2) (by rw [pairUp_length, hld]) (by omega)]
        rw [← List.append_assoc, ← sib_drop L i k hk2 (by omega)]
        by_cases hd1 : n - k = 1
        · -- the right part is a single promoted leaf
          have : i - k = 0 := by omega
          rw [this]
          match hdr : L.drop k, hld with
          | [x], _ =>
            simp [sib, pairUp, lpath_small, path_single]
          | [], h => simp at h; omega
          | _ :: _ :: _, h => simp at h; omega
        · rw [← lpath_step H (L.drop k) (i - k) (by omega)]
          rw [ih (n - k) (by omega) (L.drop k) (i - k) hld (by omega)]

theorem lpath_ne_nil (n : Nat) : ∀ (L : List Hash) (i : Nat), L.length = n → 2 ≤ n → i < n → lpath H L i ≠ [] := by
  induction n using Nat.strongRecOn with
  | _ n ih =>
    intro L i hL h2 hi
    rw [lpath_step H L i (by omega)]
    by_cases hs : sib L i = []
    · rw [hs, List.nil_append]
      unfold sib at hs
      have hP : (pairUp H L).length = (n + 1) / 2 := by rw [pairUp_length, hL]
      split at hs
      · have : L[i - 1]? = some (L[i - 1]'(by omega)) := List.getElem?_eq_getElem (by omega)
        rw [this] at hs; simp at hs
      · have hnone : ¬ i + 1 < L.length := by
          intro hlt
          rw [List.getElem?_eq_getElem hlt] at hs; simp at hs
        exact ih _ (by omega) (pairUp H L) (i / 2) hP (by omega) (by omega)
    · intro e; exact hs (List.append_eq_nil_iff.mp e).1

/-- The inclusion verifier's loop accepts the level-by-level path. -/
theorem calcRoot_lpath (n : Nat) : ∀ (L : List Hash) (i : Nat) (c : Hash), L.length = n → L[i]? = some c →
    calcRoot H c i (n - 1) (lpath H L i) = .ok (mth H L) := by
  induction n using Nat.strongRecOn with
  | _ n ih =>
    intro L i c hL hc
    have hi : i < L.length := by
      rcases Nat.lt_or_ge i L.length with h | h
      · exact h
      · rw [List.getElem?_eq_none h] at hc; simp at hc
    have hce : L[i] = c := by rw [List.getElem?_eq_getElem hi] at hc; exact Option.some.inj hc
    by_cases h1 : n = 1
    · subst h1
      match L, hL with
      | [x], _ =>
        have : i = 0 := by simp at hi; omega
        subst this
        simp at hc; subst hc
        rw [lpath_small H _ _ (by simp), calcRoot_zero]; simp [mth_single]
    · have h2 : 2 ≤ n := by omega
      have hP : (pairUp H L).length = (n + 1) / 2 := by rw [pairUp_length, hL]
      have hlast : (n - 1) / 2 = (n + 1) / 2 - 1 := by omega
      have hne := lpath_ne_nil H n L i hL h2 (by omega)
      rw [lpath_step H L i (by omega)] at hne ⊢
      by_cases hodd : i % 2 = 1
      · have hs : sib L i = [L[i - 1]'(by omega)] := by
          unfold sib; simp [hodd, List.getElem?_eq_getElem (show i - 1 < L.length by omega)]
        rw [hs, List.singleton_append, calcRoot_succ H _ _ _ _ _ (by omega)]
        simp only [hodd, ↓reduceIte]
        rw [hlast, ← mth_pairUp]
        apply ih _ (by omega) (pairUp H L) (i / 2) _ hP
        rw [pairUp_getElem_pair H L (i / 2) (by omega)]
        congr 2
        · have e : 2 * (i / 2) = i - 1 := by omega
          simp only [e]
        · have e : 2 * (i / 2) + 1 = i := by omega
          simp only [e]; exact hce
      · by_cases hlt : i < n - 1
        · have hs : sib L i = [L[i + 1]'(by omega)] := by
            unfold sib; simp [hodd, List.getElem?_eq_getElem (show i + 1 < L.length by omega)]
          rw [hs, List.singleton_append, calcRoot_succ H _ _ _ _ _ (by omega)]
          simp only [hodd, hlt, ↓reduceIte]
          rw [hlast, ← mth_pairUp]
          apply ih _ (by omega) (pairUp H L) (i / 2) _ hP
          rw [pairUp_getElem_pair H L (i / 2) (by omega)]
          congr 2
          · have e : 2 * (i / 2) = i := by omega
            simp only [e]; exact hce
          · have e : 2 * (i / 2) + 1 = i + 1 := by omega
            simp only [e]
        · have hs : sib L i = [] := by
            unfold sib; simp [hodd, List.getElem?_eq_none (show L.length ≤ i + 1 by omega)]
          rw [hs, List.nil_append] at hne ⊢
          match hq : lpath H (pairUp H L) (i / 2), hne with
          | s :: rest, _ =>
            rw [calcRoot_succ H _ _ _ _ _ (by omega)]
            simp only [hodd, hlt, ↓reduceIte]
            rw [hlast, ← mth_pairUp, ← hq]
            apply ih _ (by omega) (pairUp H L) (i / 2) _ hP
            rw [pairUp_getElem_last H L (i / 2) (by omega)]
            congr 1
            have e : 2 * (i / 2) = i := by omega
            simp only [e]; exact hce

/-- The node's own verifier accepts the RFC 6962 audit path of every leaf of every tree. -/
theorem verifyInclusion_complete (L : List Hash) (m : Nat) (x : Hash) (hx : L[m]? = some x) :
    verifyLeafHashInclusion H x m (path H m L) (mth H L) L.length = .ok () := by
  have hm : m < L.length := by
    rcases Nat.lt_or_ge m L.length with h | h
    · exact h
    · rw [List.getElem?_eq_none h] at hx; simp at hx
  unfold verifyLeafHashInclusion
  have : ¬ L.length ≤ m := by omega
  simp only [this, ↓reduceIte]
  rw [← lpath_eq_path H L.length L m rfl hm, calcRoot_lpath H L.length L m x rfl hx]
  simp

end Poly.Proofs.MerkleComplete
