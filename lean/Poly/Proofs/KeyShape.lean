import Poly.Model.KeyShape
/-! Soundness of the key-shape decision procedures, for all argument byte strings (C17). -/
namespace Poly.Model.KeyShape

theorem concatKey_eq (c : Bytes) (args : List Bytes) : concatKey c args = c ++ render args := by
  unfold concatKey render
  induction args generalizing c with
  | nil => simp
  | cons a r ih => simp [List.foldl_cons, ih, List.append_assoc]

/-- a pattern describes a prefix of a byte string -/
def matchesPat : List (Option UInt8) → Bytes → Prop
  | [], _ => True
  | _ :: _, [] => False
  | none :: p, _ :: bs => matchesPat p bs
  | some a :: p, b :: bs => a = b ∧ matchesPat p bs

theorem matchesPat_lit (bs : Bytes) (p : List (Option UInt8)) (x : Bytes) (h : matchesPat p x) :
    matchesPat (bs.map some ++ p) (bs ++ x) := by
  induction bs with
  | nil => simpa using h
  | cons b r ih => simp [matchesPat, ih]

theorem matchesPat_fixed (a : Bytes) (p : List (Option UInt8)) (x : Bytes) (h : matchesPat p x) :
    matchesPat (List.replicate a.length none ++ p) (a ++ x) := by
  induction a with
  | nil => simpa using h
  | cons b r ih => simp [List.replicate_succ, matchesPat, ih]

theorem pat_matches {s : Shape} {args : List Bytes} (h : Valid s args) : matchesPat (pat s) (render args) := by
  induction h with
  | nil => simp [pat, matchesPat]
  | @cons s a ss as hok _ ih =>
    cases s with
    | lit bs =>
      simp only [Seg.ok] at hok
      subst hok
      simpa [pat, render] using matchesPat_lit a (pat ss) (render as) ih
    | fixed n =>
      simp only [Seg.ok] at hok
      subst hok
      simpa [pat, render] using matchesPat_fixed a (pat ss) (render as) ih
    | var => simp [pat, matchesPat]

theorem clash_sound (p q : List (Option UInt8)) (x : Bytes) (hc : clash p q = true)
    (hp : matchesPat p x) (hq : matchesPat q x) : False := by
  induction x generalizing p q with
  | nil =>
    cases p with
    | nil => simp [clash] at hc
    | cons a p => simp [matchesPat] at hp
  | cons b x ih =>
    cases p with
    | nil => simp [clash] at hc
    | cons a p =>
      cases q with
      | nil => cases a <;> simp [clash] at hc
      | cons c q =>
        cases a with
        | none =>
          simp only [clash] at hc
          cases c with
          | none => exact ih p q hc hp hq
          | some c => exact ih p q hc hp hq.2
        | some a =>
          cases c with
          | none =>
            simp only [clash] at hc
            exact ih p q hc hp.2 hq
          | some c =>
            simp only [clash, Bool.or_eq_true, bne_iff_ne, ne_eq] at hc
            rcases hc with hne | hc
            · exact hne (hp.1.trans hq.1.symm)
            · exact ih p q hc hp.2 hq.2

theorem len_le {s : Shape} {args : List Bytes} (h : Valid s args) : len s ≤ (render args).length := by
  induction h with
  | nil => simp [len, render]
  | @cons s a ss as hok _ ih =>
    cases s with
    | lit bs =>
      simp only [Seg.ok] at hok
      subst hok
      simp only [render, List.flatten_cons, List.length_append, len] at *
      omega
    | fixed n =>
      simp only [Seg.ok] at hok
      subst hok
      simp only [render, List.flatten_cons, List.length_append, len] at *
      omega
    | var =>
      simp only [render, List.flatten_cons, List.length_append, len] at *
      omega

theorem closed_len {s : Shape} {args : List Bytes} (h : Valid s args) (hc : closed s = true) :
    (render args).length = len s := by
  induction h with
  | nil => simp [len, render]
  | @cons s a ss as hok _ ih =>
    cases s with
    | lit bs =>
      simp only [Seg.ok] at hok
      subst hok
      simp only [closed] at hc
      simp only [render, List.flatten_cons, List.length_append, len] at *
      rw [ih hc]
    | fixed n =>
      simp only [Seg.ok] at hok
      subst hok
      simp only [closed] at hc
      simp only [render, List.flatten_cons, List.length_append, len] at *
      rw [ih hc]
    | var => simp [closed] at hc

/-- Keys of two shapes that pass the `disjoint` test are different, whatever the arguments. -/
theorem disjoint_sound {s t : Shape} {a b : List Bytes} (hd : disjoint s t = true)
    (ha : Valid s a) (hb : Valid t b) : render a ≠ render b := by
  intro heq
  simp only [disjoint, Bool.or_eq_true, Bool.and_eq_true, bne_iff_ne, ne_eq, decide_eq_true_eq] at hd
  rcases hd with ((hc | ⟨⟨cs, ct⟩, hl⟩) | ⟨cs, hl⟩) | ⟨ct, hl⟩
  · exact clash_sound _ _ _ hc (pat_matches ha) (heq ▸ pat_matches hb)
  · have h1 := closed_len ha cs
    have h2 := closed_len hb ct
    rw [heq] at h1
    omega
  · have h1 := closed_len ha cs
    have h2 := len_le hb
    rw [heq] at h1
    omega
  · have h1 := closed_len hb ct
    have h2 := len_le ha
    rw [heq] at h2
    omega

theorem closed_vars {s : Shape} (h : vars s = 0) : closed s = true := by
  induction s with
  | nil => rfl
  | cons x r ih =>
    cases x with
    | lit bs => simpa [closed, vars] using ih (by simpa [vars] using h)
    | fixed n => simpa [closed, vars] using ih (by simpa [vars] using h)
    | var => simp [vars] at h

theorem inj_aux {s : Shape} {a : List Bytes} (ha : Valid s a) :
    ∀ b : List Bytes, vars s ≤ 1 → Valid s b → render a = render b → a = b := by
  induction ha with
  | nil => intro b _ hb _; cases hb; rfl
  | @cons x a0 ss as hok hrest ih =>
    intro b hs hb heq
    cases hb with
    | @cons _ b0 _ bs hokb hrestb =>
      simp only [render, List.flatten_cons] at heq
      cases x with
      | lit bs' =>
        simp only [Seg.ok] at hok hokb
        subst hok; subst hokb
        have := List.append_cancel_left heq
        rw [ih bs (by simpa [vars] using hs) hrestb this]
      | fixed n =>
        simp only [Seg.ok] at hok hokb
        have hl : a0.length = b0.length := by omega
        obtain ⟨h1, h2⟩ := List.append_inj heq hl
        subst h1
        rw [ih bs (by simpa [vars] using hs) hrestb h2]
      | var =>
        have hv : vars ss = 0 := by simp only [vars] at hs; omega
        have hc := closed_vars hv
        have l1 := closed_len hrest hc
        have l2 := closed_len hrestb hc
        simp only [render] at l1 l2
        obtain ⟨h1, h2⟩ := List.append_inj' heq (by omega)
        subst h1
        rw [ih bs (by omega) hrestb h2]

/-- A key of a shape with at most one field of unknown width determines all its arguments. -/
theorem selfInjective_sound {s : Shape} {a b : List Bytes} (hs : selfInjective s = true)
    (ha : Valid s a) (hb : Valid s b) (heq : render a = render b) : a = b := by
  simp only [selfInjective, decide_eq_true_eq] at hs
  exact inj_aux ha b hs hb heq

theorem Seg.inst_ok {x y : Seg} {a : Bytes} (h : x.inst y = true) (hx : x.ok a) : y.ok a := by
  cases x <;> cases y <;> simp_all [Seg.inst, Seg.ok]

theorem inst_valid {s t : Shape} {a : List Bytes} (h : inst s t = true) (ha : Valid s a) : Valid t a := by
  induction ha generalizing t with
  | nil =>
    cases t with
    | nil => exact Valid.nil
    | cons y t => simp [inst] at h
  | @cons x a0 ss as hok _ ih =>
    cases t with
    | nil => simp [inst] at h
    | cons y t =>
      simp only [inst, Bool.and_eq_true] at h
      exact Valid.cons (Seg.inst_ok h.1 hok) (ih h.2)

/-- The table test lifts to all arguments: equal keys come from the same record family with the same arguments. -/
theorem tableOK_sound {tbl : List Shape} (hok : tableOK tbl = true) {s t : Shape} (hs : s ∈ tbl) (ht : t ∈ tbl)
    {a b : List Bytes} (ha : Valid s a) (hb : Valid t b) (heq : render a = render b) :
    sameFamily s t = true ∧ a = b := by
  simp only [tableOK, List.all_eq_true, Bool.and_eq_true] at hok
  obtain ⟨hinj, hpair⟩ := hok s hs
  have hp := hpair t ht
  simp only [pairOK, Bool.or_eq_true, Bool.and_eq_true, beq_iff_eq] at hp
  rcases hp with ((hst | hd) | ⟨hi, hj⟩) | ⟨hi, hj⟩
  · subst hst
    exact ⟨by simp [sameFamily], selfInjective_sound hinj ha hb heq⟩
  · exact absurd heq (disjoint_sound hd ha hb)
  · exact ⟨by simp [sameFamily, hi], selfInjective_sound hj (inst_valid hi ha) hb heq⟩
  · exact ⟨by simp [sameFamily, hi], selfInjective_sound hj ha (inst_valid hi hb) heq⟩

/-! ## cache confinement -/

theorem Store.put_keys (m : Store) (k v : Bytes) (P : Bytes → Prop) (hm : ∀ kv ∈ m, P kv.1) (hk : P k) :
    ∀ kv ∈ m.put k v, P kv.1 := by
  induction m with
  | nil => simp [Store.put, hk]
  | cons x r ih =>
    obtain ⟨k', v'⟩ := x
    simp only [Store.put]
    split
    · intro kv hkv
      simp only [List.mem_cons] at hkv
      rcases hkv with h | h
      · subst h; exact hk
      · exact hm kv (List.mem_cons_of_mem _ h)
    · intro kv hkv
      simp only [List.mem_cons] at hkv
      rcases hkv with h | h
      · subst h; exact hm _ (List.mem_cons_self)
      · exact ih (fun kv h => hm kv (List.mem_cons_of_mem _ h)) kv h

theorem Store.get_put_other (m : Store) (k k' v : Bytes) (h : k ≠ k') : (m.put k v).get k' = m.get k' := by
  induction m with
  | nil => simp [Store.put, Store.get, h]
  | cons x r ih =>
    obtain ⟨k0, v0⟩ := x
    simp only [Store.put]
    split
    · rename_i h0
      subst h0
      simp [Store.get, h]
    · simp only [Store.get]
      split
      · rfl
      · exact ih

theorem cacheRun_keys (pfx : UInt8) (ops : List CacheOp) :
    ∀ kv ∈ cacheRun pfx ops, kv.1.head? = some pfx := by
  unfold cacheRun
  suffices h : ∀ (m : Store), (∀ kv ∈ m, kv.1.head? = some pfx) →
      ∀ kv ∈ ops.foldl (cacheStep pfx) m, kv.1.head? = some pfx from h [] (by simp)
  induction ops with
  | nil => intro m hm; simpa using hm
  | cons op r ih =>
    intro m hm
    simp only [List.foldl_cons]
    apply ih
    cases op with
    | put k v => exact Store.put_keys m (pfx :: k) v (fun k => k.head? = some pfx) hm (by simp)
    | delete k => exact Store.put_keys m (pfx :: k) [] (fun k => k.head? = some pfx) hm (by simp)

theorem commit_get_other (memdb backend : Store) (k : Bytes) (h : ∀ kv ∈ memdb, kv.1 ≠ k) :
    (commit memdb backend).get k = backend.get k := by
  unfold commit
  induction memdb generalizing backend with
  | nil => rfl
  | cons x r ih =>
    simp only [List.foldl_cons]
    rw [ih _ (fun kv hkv => h kv (List.mem_cons_of_mem _ hkv))]
    exact Store.get_put_other backend x.1 k x.2 (h x List.mem_cons_self)

end Poly.Model.KeyShape
