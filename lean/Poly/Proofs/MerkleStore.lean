import Poly.Model.Merkle
import Poly.Proofs.MerkleSpec
import Poly.Proofs.MerkleServe
/-
C06 (store and generators): after appending `L` the frontier is `frontier L` and the hash store holds
`postorder L`; the proof generators, which read the store by position, return the RFC 6962 PATH.
-/
namespace Poly.Proofs.MerkleStore
open Poly.Spec.RFC6962 Poly.Model.Merkle Poly.Proofs.MerkleSpec Poly.Proofs.MerkleServe

variable (H : List UInt8 → List UInt8)

/-! ### topBit -/

theorem topBit_spec (n : Nat) (h : 1 ≤ n) : IsPow2 (topBit n) ∧ topBit n ≤ n ∧ n < 2 * topBit n := by
  obtain ⟨a, b, c⟩ := splitPoint_spec (n + 1) (by omega)
  exact ⟨a, by unfold topBit; omega, by unfold topBit; omega⟩

theorem topBit_unique (n k : Nat) (hk : IsPow2 k) (h1 : k ≤ n) (h2 : n < 2 * k) : topBit n = k :=
  splitPoint_unique (n + 1) k hk (by omega) (by omega)

theorem topBit_pos (n : Nat) : 0 < topBit n := splitPoint_pos _

/-- For a size that is not a power of two the RFC split point is the top bit. -/
theorem splitPoint_eq_topBit (n : Nat) (h : topBit n < n) : splitPoint n = topBit n := by
  obtain ⟨a, b, c⟩ := topBit_spec n (by omega)
  exact splitPoint_unique n _ a h (by omega)

theorem frontier_nil : frontier H [] = [] := by rw [frontier]

theorem frontier_cons (l : List Hash) (h : l ≠ []) :
    frontier H l = mth H (l.take (topBit l.length)) :: frontier H (l.drop (topBit l.length)) := by
  match l, h with
  | x :: r, _ => rw [frontier]; simp only [List.length_cons]

theorem postorder_nil : postorder H [] = [] := by rw [postorder]

theorem postorder_cons (l : List Hash) (h : l ≠ []) :
    postorder H l = perfectPost H (l.take (topBit l.length)) ++ postorder H (l.drop (topBit l.length)) := by
  match l, h with
  | x :: r, _ => rw [postorder]; simp only [List.length_cons]

theorem frontier_full (l : List Hash) (hl : l ≠ []) (h : topBit l.length = l.length) :
    frontier H l = [mth H l] := by
  rw [frontier_cons H l hl, h, List.take_length, List.drop_length, frontier_nil]

theorem postorder_full (l : List Hash) (hl : l ≠ []) (h : topBit l.length = l.length) :
    postorder H l = perfectPost H l := by
  rw [postorder_cons H l hl, h, List.take_length, List.drop_length, postorder_nil, List.append_nil]

theorem perfectPost_ge2 (l : List Hash) (h : 2 ≤ l.length) :
    perfectPost H l = perfectPost H (l.take (l.length / 2)) ++ perfectPost H (l.drop (l.length / 2)) ++ [mth H l] := by
  match l, h with
  | x :: y :: r, _ => rw [perfectPost]; simp only [List.length_cons]

theorem perfectPost_single (x : Hash) : perfectPost H [x] = [x] := by rw [perfectPost]

/-- The post-order of a perfect tree over `2^j` leaves has `2^(j+1) - 1` nodes and ends with its root. -/
theorem perfectPost_spec (j : Nat) : ∀ l : List Hash, l.length = 2 ^ j →
    ∃ init, perfectPost H l = init ++ [mth H l] ∧ init.length = 2 * 2 ^ j - 2 := by
  induction j with
  | zero =>
    intro l hl
    match l, hl with
    | [x], _ => exact ⟨[], by simp [perfectPost_single, mth_single], by simp⟩
  | succ j ih =>
    intro l hl
    have h2 : 2 ≤ l.length := by rw [hl, Nat.pow_succ]; have := Nat.two_pow_pos j; omega
    have hhalf : l.length / 2 = 2 ^ j := by rw [hl, Nat.pow_succ]; omega
    rw [perfectPost_ge2 H l h2, hhalf]
    obtain ⟨i1, e1, l1⟩ := ih (l.take (2 ^ j)) (by simp; omega)
    obtain ⟨i2, e2, l2⟩ := ih (l.drop (2 ^ j)) (by simp; omega)
    refine ⟨perfectPost H (l.take (2 ^ j)) ++ perfectPost H (l.drop (2 ^ j)), rfl, ?_⟩
    rw [e1, e2]; simp only [List.length_append, List.length_cons, List.length_nil, l1, l2]
    rw [Nat.pow_succ]; have := Nat.two_pow_pos j; omega

theorem frontier_length (l : List Hash) : (frontier H l).length = countBit l.length := by
  generalize hn : l.length = n
  induction n using Nat.strongRecOn generalizing l with
  | _ n ih =>
    by_cases hl : l = []
    · subst hl; simp at hn; subst hn; simp [frontier_nil, countBit]
    · have hn1 : 1 ≤ n := by rw [← hn]; exact List.length_pos_iff.mpr hl
      obtain ⟨⟨j, hj⟩, b, c⟩ := topBit_spec n hn1
      rw [frontier_cons H l hl, List.length_cons, hn, ih (n - topBit n) (by have := topBit_pos n; omega) _ (by simp [hn])]
      have := countBit_pow2_add j (n - topBit n) (by omega)
      have e : 2 ^ j + (n - topBit n) = n := by omega
      rw [e] at this; omega

/-! ### The carry loop and the top bit -/

theorem carry_eq (s : Nat) (rev : List Hash) (leaf : Hash) (st : List Hash) :
    carry H s rev leaf st =
      if s % 2 = 1 then
        match rev with
        | [] => .error .panic
        | top :: rest => carry H (s / 2) rest (hashChildren H top leaf) (st ++ [hashChildren H top leaf])
      else .ok (rev, leaf, st) := by
  rw [carry.eq_def]
  split <;> rfl

/-- Appending to a tree of `2^j + r` leaves (`r < 2^j`): the carry loop behaves as on the `r`-leaf tree of
the lower bits; only when `r = 2^j - 1` it finally merges with the top subtree. -/
theorem carry_top (j : Nat) : ∀ (r : Nat) (revR : List Hash) (top leaf : Hash) (st : List Hash),
    r < 2 ^ j → revR.length = countBit r →
    carry H (2 ^ j + r) (revR ++ [top]) leaf st =
      match carry H r revR leaf st with
      | .error e => .error e
      | .ok (rev', acc, st') =>
        if r = 2 ^ j - 1 then .ok (rev', hashChildren H top acc, st' ++ [hashChildren H top acc])
        else .ok (rev' ++ [top], acc, st') := by
  induction j with
  | zero =>
    intro r revR top leaf st hr hlen
    have : r = 0 := by simpa using hr
    subst this
    have : revR = [] := by simpa [countBit] using hlen
    subst this
    rw [carry_eq H (2 ^ 0 + 0)]
    simp only [Nat.pow_zero, Nat.add_zero, Nat.mod_succ, ↓reduceIte, List.nil_append]
    rw [carry_eq H (1 / 2), carry_eq H 0]
    simp
  | succ j ih =>
    intro r revR top leaf st hr hlen
    rw [Nat.pow_succ] at hr
    rw [carry_eq H (2 ^ (j + 1) + r), carry_eq H r]
    have hpar : (2 ^ (j + 1) + r) % 2 = r % 2 := by rw [Nat.pow_succ]; omega
    rw [hpar]
    by_cases hodd : r % 2 = 1
    · simp only [hodd, ↓reduceIte]
      rw [countBit_eq r, hodd] at hlen
      match revR, hlen with
      | [], hlen => simp at hlen; omega
      | a :: revR', hlen =>
        simp only [List.cons_append]
        have hhalf : (2 ^ (j + 1) + r) / 2 = 2 ^ j + r / 2 := by rw [Nat.pow_succ]; omega
        rw [hhalf, ih (r / 2) revR' top _ _ (by omega) (by simp at hlen; omega)]
        have hiff : (r / 2 = 2 ^ j - 1) ↔ (r = 2 ^ (j + 1) - 1) := by
          rw [Nat.pow_succ]; constructor <;> intro h <;> omega
        simp only [hiff]
    · simp only [hodd, ↓reduceIte]
      have hne : ¬ r = 2 ^ (j + 1) - 1 := by rw [Nat.pow_succ]; omega
      simp [hne]

/-! ### One append, in RFC terms -/

theorem hashFold_cons (a : Hash) (rest : List Hash) (x : Hash) (h : hashFold H rest = .ok x) :
    hashFold H (a :: rest) = .ok (hashChildren H a x) := by
  unfold hashFold at h ⊢
  cases hr : rest.reverse with
  | nil => rw [hr] at h; simp at h
  | cons b r' =>
    rw [hr] at h
    simp only [Except.ok.injEq] at h
    simp only [List.reverse_cons, hr, List.cons_append, foldUp, List.foldl_append, List.foldl_cons, List.foldl_nil]
    unfold foldUp at h; rw [h]

theorem hashFold_single (a : Hash) : hashFold H [a] = .ok a := by simp [hashFold, foldUp]

/-- The fold of the frontier is the RFC 6962 root. -/
theorem hashFold_frontier (l : List Hash) (hl : l ≠ []) : hashFold H (frontier H l) = .ok (mth H l) := by
  generalize hn : l.length = n
  induction n using Nat.strongRecOn generalizing l with
  | _ n ih =>
    have hn1 : 1 ≤ n := by rw [← hn]; exact List.length_pos_iff.mpr hl
    obtain ⟨hp, b, c⟩ := topBit_spec n hn1
    rw [frontier_cons H l hl, hn]
    by_cases hr : topBit n = n
    · rw [hr]
      have : l.drop n = [] := by simp [← hn]
      rw [this, frontier_nil, hashFold_single]
      simp [← hn]
    · have hdne : l.drop (topBit n) ≠ [] := by
        intro e; have := congrArg List.length e; simp at this; omega
      have := ih (n - topBit n) (by have := topBit_pos n; omega) (l.drop (topBit n)) hdne (by simp [hn])
      rw [hashFold_cons H _ _ _ this, mth_split H l (by omega), hn, splitPoint_eq_topBit n (by omega)]

/-- One `appendHash` step: from the frontier / store of `L` to those of `L ++ [x]`. -/
theorem carry_rfc (n : Nat) : ∀ (L : List Hash) (x : Hash) (st : List Hash), L.length = n →
    ∃ rev' top merges, carry H n (frontier H L).reverse x st = .ok (rev', top, st ++ merges) ∧
      rev'.reverse ++ [top] = frontier H (L ++ [x]) ∧
      postorder H (L ++ [x]) = postorder H L ++ [x] ++ merges := by
  induction n using Nat.strongRecOn with
  | _ n ih =>
    intro L x st hL
    by_cases h0 : n = 0
    · subst h0
      have : L = [] := List.eq_nil_of_length_eq_zero hL
      subst this
      refine ⟨[], x, [], ?_, ?_, ?_⟩
      · rw [frontier_nil, carry_eq]; simp
      · rw [frontier_cons H _ (by simp)]
        have : topBit ([] ++ [x] : List Hash).length = 1 := topBit_unique 1 1 ⟨0, rfl⟩ (by omega) (by omega)
        rw [this]; simp [frontier_nil, mth_single]
      · rw [postorder_cons H _ (by simp)]
        have : topBit ([] ++ [x] : List Hash).length = 1 := topBit_unique 1 1 ⟨0, rfl⟩ (by omega) (by omega)
        rw [this]; simp [postorder_nil, perfectPost_single]
    · have hLne : L ≠ [] := by intro e; rw [e] at hL; simp at hL; omega
      obtain ⟨⟨j, hj⟩, hk1, hk2⟩ := topBit_spec n (by omega)
      have hkpos := topBit_pos n
      -- decomposition of L
      have hfr := frontier_cons H L hLne
      have hpo := postorder_cons H L hLne
      rw [hL] at hfr hpo
      generalize hT : L.take (topBit n) = T at hfr hpo
      generalize hR : L.drop (topBit n) = R at hfr hpo
      have hTlen : T.length = topBit n := by rw [← hT]; simp; omega
      have hRlen : R.length = n - topBit n := by rw [← hR]; simp; omega
      have hLTR : L = T ++ R := by rw [← hT, ← hR, List.take_append_drop]
      obtain ⟨rev', acc, mR, hc, hfrR, hpoR⟩ := ih (n - topBit n) (by omega) R x st hRlen
      have hcarry := carry_top H j (n - topBit n) (frontier H R).reverse (mth H T) x st (by omega)
        (by rw [List.length_reverse, frontier_length, hRlen])
      have en : 2 ^ j + (n - topBit n) = n := by omega
      rw [en, hc] at hcarry
      simp only at hcarry
      rw [hfr, List.reverse_cons]
      by_cases hfull : n - topBit n = 2 ^ j - 1
      · -- n + 1 = 2 * topBit n: everything merges into one perfect tree
        simp only [hfull, ↓reduceIte] at hcarry
        have hRx : (R ++ [x]).length = topBit n := by simp [hRlen]; omega
        have htb : topBit (R ++ [x]).length = topBit n := by
          rw [hRx]; exact topBit_unique _ _ ⟨j, hj⟩ (by omega) (by omega)
        -- the lower part became one perfect tree
        have hfrRx : frontier H (R ++ [x]) = [mth H (R ++ [x])] :=
          frontier_full H _ (by simp) (by rw [htb, hRx])
        have hpoRx : postorder H (R ++ [x]) = perfectPost H (R ++ [x]) :=
          postorder_full H _ (by simp) (by rw [htb, hRx])
        rw [hfrRx] at hfrR
        have hrev : rev' = [] ∧ acc = mth H (R ++ [x]) := by
          have hr0 : rev' = [] := by
            have := congrArg List.length hfrR
            simpa using this
          subst hr0; simp at hfrR; exact ⟨rfl, hfrR⟩
        obtain ⟨hr0, hacc⟩ := hrev
        subst hr0
        have hLx : (L ++ [x]).length = 2 * topBit n := by simp [hL]; omega
        have htb2 : topBit (L ++ [x]).length = 2 * topBit n := by
          rw [hLx]; exact topBit_unique _ _ ⟨j + 1, by rw [Nat.pow_succ]; omega⟩ (by omega) (by omega)
        have hsp : splitPoint (L ++ [x]).length = topBit n := by
          rw [hLx]; exact splitPoint_unique _ _ ⟨j, hj⟩ (by omega) (by omega)
        have htake : (L ++ [x]).take (topBit n) = T := by
          rw [hLTR, List.append_assoc, List.take_left' hTlen]
        have hdrop : (L ++ [x]).drop (topBit n) = R ++ [x] := by
          rw [hLTR, List.append_assoc, List.drop_left' hTlen]
        have hroot : mth H (L ++ [x]) = hashChildren H (mth H T) acc := by
          rw [mth_split H _ (by omega), hsp, htake, hdrop, hacc]
        refine ⟨[], hashChildren H (mth H T) acc, mR ++ [hashChildren H (mth H T) acc], ?_, ?_, ?_⟩
        · rw [hcarry]; simp
        · rw [frontier_full H _ (by simp) (by rw [htb2, hLx]), hroot]; simp
        · rw [postorder_full H _ (by simp) (by rw [htb2, hLx])]
          have hhalf : (L ++ [x]).length / 2 = topBit n := by omega
          rw [perfectPost_ge2 H _ (by omega), hhalf, htake, hdrop, ← hpoRx, hpoR, hpo, hroot]
          simp
      · -- the top subtree stays
        simp only [hfull, ↓reduceIte] at hcarry
        have hLx : (L ++ [x]).length = n + 1 := by simp [hL]
        have htb : topBit (L ++ [x]).length = topBit n := by
          rw [hLx]; exact topBit_unique _ _ ⟨j, hj⟩ (by omega) (by omega)
        have htake : (L ++ [x]).take (topBit n) = T := by
          rw [hLTR, List.append_assoc, List.take_left' hTlen]
        have hdrop : (L ++ [x]).drop (topBit n) = R ++ [x] := by
          rw [hLTR, List.append_assoc, List.drop_left' hTlen]
        refine ⟨rev' ++ [mth H T], acc, mR, hcarry, ?_, ?_⟩
        · rw [frontier_cons H _ (by simp), htb, htake, hdrop, ← hfrR]; simp
        · rw [postorder_cons H (L ++ [x]) (by simp), htb, htake, hdrop, hpoR, hpo]; simp


/-! ### State invariant: frontier and store -/

/-- Tree and store of `s` are those of the leaf-hash list `L`. -/
def SInv (L : List Hash) (s : State) : Prop :=
  s.tree.size = L.length ∧ s.tree.hashes = frontier H L ∧ ∀ st, s.store = some st → st.hashes = postorder H L

theorem sinv_empty (st : Option HashStore) (h : ∀ x, st = some x → x.hashes = []) : SInv H [] ⟨emptyTree, st⟩ :=
  ⟨rfl, by simp [emptyTree, frontier_nil], by simpa [postorder_nil] using h⟩

theorem sinv_append (L : List Hash) (s : State) (d : List UInt8) (h : SInv H L s) :
    ∃ s', s.append H d = .ok (s', s.tree.hashes.reverse) ∧ SInv H (L ++ [hashLeaf H d]) s' := by
  obtain ⟨h1, h2, h3⟩ := h
  obtain ⟨rev', top, merges, hc, hf, hp⟩ := carry_rfc H L.length L (hashLeaf H d) [hashLeaf H d] rfl
  unfold State.append appendLeaf appendHash
  rw [h1, h2, hc]
  refine ⟨_, rfl, ?_, ?_, ?_⟩
  · simp
  · exact hf
  · intro st hst
    cases hs : s.store with
    | none => simp [hs] at hst
    | some st0 =>
      simp only [hs, Option.map_some, Option.some.injEq] at hst
      subst hst
      simp only [HashStore.put]
      rw [h3 st0 hs, hp]; simp

theorem sinv_appendAll (D : List (List UInt8)) : ∀ (L : List Hash) (s : State), SInv H L s →
    ∃ s', State.appendAll H s D = .ok s' ∧ SInv H (L ++ D.map (hashLeaf H)) s' := by
  induction D with
  | nil => intro L s h; exact ⟨s, rfl, by simpa using h⟩
  | cons d D ih =>
    intro L s h
    obtain ⟨s1, ha, hi⟩ := sinv_append H L s d h
    obtain ⟨s', h1, h2⟩ := ih _ s1 hi
    refine ⟨s', ?_, by simpa using h2⟩
    simp only [State.appendAll, ha, h1]

/-- The store is append-only: the post-order of a prefix is a prefix of the post-order. -/
theorem postorder_prefix (A : List Hash) : ∀ B : List Hash, ∃ rest, postorder H (A ++ B) = postorder H A ++ rest := by
  intro B
  induction B generalizing A with
  | nil => exact ⟨[], by simp⟩
  | cons b B ih =>
    obtain ⟨_, _, merges, _, _, hp⟩ := carry_rfc H A.length A b [] rfl
    obtain ⟨rest, hr⟩ := ih (A ++ [b])
    refine ⟨[b] ++ merges ++ rest, ?_⟩
    have : A ++ b :: B = (A ++ [b]) ++ B := by simp
    rw [this, hr, hp]; simp

/-! ### Store positions -/

theorem subTreeSizesLow_top (j : Nat) : ∀ (r id : Nat), r < 2 ^ j →
    subTreeSizesLow (2 ^ j + r) id = subTreeSizesLow r id ++ [2 ^ (j + 1) * id - 1] := by
  induction j with
  | zero =>
    intro r id hr
    have : r = 0 := by simpa using hr
    subst this
    simp [subTreeSizesLow]
  | succ j ih =>
    intro r id hr
    rw [Nat.pow_succ] at hr
    have hn : 2 ^ (j + 1) + r = (2 ^ (j + 1) + r - 1) + 1 := by have := Nat.two_pow_pos (j + 1); omega
    rw [hn, subTreeSizesLow, ← hn]
    have hpar : (2 ^ (j + 1) + r) % 2 = r % 2 := by rw [Nat.pow_succ]; omega
    have hhalf : (2 ^ (j + 1) + r) / 2 = 2 ^ j + r / 2 := by rw [Nat.pow_succ]; omega
    rw [hpar, hhalf, ih (r / 2) (2 * id) (by omega)]
    have e : 2 ^ (j + 1) * (2 * id) = 2 ^ (j + 1 + 1) * id := by
      have : 2 ^ (j + 1 + 1) = 2 ^ (j + 1) * 2 := Nat.pow_succ 2 (j + 1)
      rw [this, Nat.mul_assoc]
    rw [e]
    cases r with
    | zero => simp [subTreeSizesLow]
    | succ r' =>
      rw [subTreeSizesLow]
      split <;> simp

theorem getSubTreeSize_top (n : Nat) (h : 1 ≤ n) :
    getSubTreeSize n = (2 * topBit n - 1) :: getSubTreeSize (n - topBit n) := by
  obtain ⟨⟨j, hj⟩, b, c⟩ := topBit_spec n h
  have e : n = 2 ^ j + (n - topBit n) := by omega
  unfold getSubTreeSize
  conv => lhs; rw [e]
  rw [subTreeSizesLow_top j _ 1 (by omega)]
  simp only [List.reverse_append, List.reverse_cons, List.reverse_nil, List.nil_append, List.cons_append, Nat.mul_one]
  rw [hj, Nat.pow_succ]; congr 2; omega

theorem prefixSums_shift (c : Nat) : ∀ (a : Nat) (l : List Nat), prefixSums (a + c) l = (prefixSums a l).map (· + c) := by
  intro a l
  induction l generalizing a with
  | nil => simp [prefixSums]
  | cons x l ih =>
    simp only [prefixSums, List.map_cons]
    have : a + c + x = (a + x) + c := by omega
    rw [this, ih]

theorem getHash1_at (st : HashStore) (pre suf : List Hash) (x : Hash) (h : st.hashes = pre ++ x :: suf) :
    getHash1 st (pre.length + 1) = .ok x := by
  unfold getHash1
  simp [h]

/-- Reading the store at the positions `getSubTreePos` (shifted to the block that holds `postorder R`)
returns the frontier of `R`. -/
theorem readAll_frontier (st : HashStore) : ∀ (R pre suf : List Hash), st.hashes = pre ++ postorder H R ++ suf →
    readAll (getHash1 st) 1 (prefixSums pre.length (getSubTreeSize R.length)) = .ok (frontier H R) := by
  intro R
  generalize hn : R.length = n
  induction n using Nat.strongRecOn generalizing R with
  | _ n ih =>
    intro pre suf hst
    by_cases hR : R = []
    · subst hR; simp at hn; subst hn
      simp [getSubTreeSize, subTreeSizesLow, prefixSums, readAll, frontier_nil]
    · have hn1 : 1 ≤ n := by rw [← hn]; exact List.length_pos_iff.mpr hR
      obtain ⟨⟨j, hj⟩, b, c⟩ := topBit_spec n hn1
      have hkpos := topBit_pos n
      rw [getSubTreeSize_top n hn1, frontier_cons H R hR, hn]
      rw [postorder_cons H R hR, hn] at hst
      obtain ⟨init, e1, l1⟩ := perfectPost_spec H j (R.take (topBit n)) (by simp; omega)
      simp only [prefixSums, readAll]
      have hpos : pre.length + (2 * topBit n - 1) + 1 - 1 = (pre ++ init).length + 1 := by
        simp [l1]; omega
      rw [hpos, getHash1_at st (pre ++ init) (postorder H (R.drop (topBit n)) ++ suf) (mth H (R.take (topBit n)))
        (by rw [hst, e1]; simp)]
      simp only
      have hlen2 : pre.length + (2 * topBit n - 1) = (pre ++ perfectPost H (R.take (topBit n))).length := by
        rw [e1]; simp [l1]; omega
      rw [hlen2]
      have := ih (n - topBit n) (by omega) (R.drop (topBit n)) (by simp [hn])
        (pre ++ perfectPost H (R.take (topBit n))) suf (by rw [hst]; simp)
      rw [this]

/-- `rangeRoot` over the block of the store that holds `postorder R` is the RFC 6962 root of `R`. -/
theorem rangeRoot_ok (st : HashStore) (R pre suf : List Hash) (hR : R ≠ [])
    (hst : st.hashes = pre ++ postorder H R ++ suf) :
    rangeRoot H (getHash1 st) (pre.length + 1) R.length = .ok (mth H R) := by
  unfold rangeRoot getSubTreePos
  have hshift : ∀ (l : List Nat), readAll (getHash1 st) (pre.length + 1) l = readAll (getHash1 st) 1 (l.map (· + pre.length)) := by
    intro l
    induction l with
    | nil => simp [readAll]
    | cons p ps ih =>
      simp only [readAll, List.map_cons, ih]
      have : p + (pre.length + 1) - 1 = p + pre.length + 1 - 1 := by omega
      rw [this]
  rw [hshift, ← prefixSums_shift, Nat.zero_add, readAll_frontier H st R pre suf hst]
  exact hashFold_frontier H R hR


/-! ### The inclusion-proof loop returns the RFC 6962 PATH -/

theorem path_split (m : Nat) (l : List Hash) (h : 2 ≤ l.length) :
    path H m l = if m < splitPoint l.length then path H m (l.take (splitPoint l.length)) ++ [mth H (l.drop (splitPoint l.length))]
      else path H (m - splitPoint l.length) (l.drop (splitPoint l.length)) ++ [mth H (l.take (splitPoint l.length))] := by
  match l, h with
  | x :: y :: r, _ => rw [path]; simp only [List.length_cons]

theorem path_single (m : Nat) (x : Hash) : path H m [x] = [] := by rw [path]

theorem topBit_pow2 (j : Nat) : topBit (2 ^ j) = 2 ^ j :=
  topBit_unique _ _ ⟨j, rfl⟩ (by omega) (by have := Nat.two_pow_pos j; omega)

/-- The post-order of `S` along the RFC split: left part (a perfect tree of `k` leaves, `2k - 1` nodes,
root last), right part, and the root of `S` itself when `|S|` is a power of two. -/
theorem postorder_split (S : List Hash) (h : 2 ≤ S.length) :
    ∃ init tail, postorder H (S.take (splitPoint S.length)) = init ++ [mth H (S.take (splitPoint S.length))] ∧
      init.length = 2 * splitPoint S.length - 2 ∧
      postorder H S = postorder H (S.take (splitPoint S.length)) ++ postorder H (S.drop (splitPoint S.length)) ++ tail := by
  obtain ⟨⟨j, hj⟩, h1, h2⟩ := splitPoint_spec S.length h
  have hkpos := splitPoint_pos S.length
  have hSne : S ≠ [] := by intro e; rw [e] at h; simp at h
  have htk : (S.take (splitPoint S.length)).length = 2 ^ j := by simp; omega
  have htne : S.take (splitPoint S.length) ≠ [] := by
    intro e; rw [e] at htk; simp at htk; have := Nat.two_pow_pos j; omega
  have hpt : postorder H (S.take (splitPoint S.length)) = perfectPost H (S.take (splitPoint S.length)) :=
    postorder_full H _ htne (by rw [htk, topBit_pow2])
  obtain ⟨init, e1, l1⟩ := perfectPost_spec H j _ htk
  refine ⟨init, ?_⟩
  by_cases hp : topBit S.length < S.length
  · -- not a power of two: the split point is the top bit
    refine ⟨[], by rw [hpt, e1], by rw [l1, hj], ?_⟩
    rw [postorder_cons H S hSne, ← splitPoint_eq_topBit _ hp, hpt]; simp
  · -- a power of two: S itself is one perfect tree
    obtain ⟨_, b, c⟩ := topBit_spec S.length (by omega)
    have hfull : topBit S.length = S.length := by omega
    have hlen : S.length = 2 * splitPoint S.length := by
      obtain ⟨⟨i, hi⟩, _, _⟩ := topBit_spec S.length (by omega)
      rw [hfull] at hi
      cases i with
      | zero => omega
      | succ i =>
        have : splitPoint S.length = 2 ^ i :=
          splitPoint_unique _ _ ⟨i, rfl⟩ (by rw [hi, Nat.pow_succ]; have := Nat.two_pow_pos i; omega) (by rw [hi, Nat.pow_succ]; omega)
        rw [this, hi, Nat.pow_succ]; omega
    have hhalf : S.length / 2 = splitPoint S.length := by omega
    have hdk : (S.drop (splitPoint S.length)).length = 2 ^ j := by simp; omega
    have hdne : S.drop (splitPoint S.length) ≠ [] := by
      intro e; rw [e] at hdk; simp at hdk; have := Nat.two_pow_pos j; omega
    have hpd : postorder H (S.drop (splitPoint S.length)) = perfectPost H (S.drop (splitPoint S.length)) :=
      postorder_full H _ hdne (by rw [hdk, topBit_pow2])
    refine ⟨[mth H S], by rw [hpt, e1], by rw [l1, hj], ?_⟩
    rw [postorder_full H S hSne hfull, perfectPost_ge2 H S h, hhalf, hpt, hpd]

theorem provePath_append (x : Hash) (a b : List (UInt8 × Hash)) :
    provePath H x (a ++ b) = provePath H (provePath H x a) b := by
  induction a generalizing x with
  | nil => simp [provePath]
  | cons p a ih => obtain ⟨f, v⟩ := p; simp only [List.cons_append, provePath]; exact ih _

theorem mth_length (hlen : HashLen H) (l : List Hash) (hl : l ≠ []) (h32 : ∀ y ∈ l, y.length = 32) :
    (mth H l).length = 32 := by
  match l, hl with
  | [x], _ => rw [mth_single]; exact h32 x (by simp)
  | x :: y :: r, _ => rw [mth_split H _ (by simp)]; exact hlen _

theorem path_len32 (hlen : HashLen H) (l : List Hash) (h32 : ∀ y ∈ l, y.length = 32) :
    ∀ (m : Nat), ∀ h ∈ path H m l, h.length = 32 := by
  generalize hn : l.length = n
  induction n using Nat.strongRecOn generalizing l with
  | _ n ih =>
    intro m h hm
    subst hn
    by_cases h2 : 2 ≤ l.length
    · obtain ⟨_, hk1, _⟩ := splitPoint_spec l.length h2
      have hkpos := splitPoint_pos l.length
      rw [path_split H m l h2] at hm
      have ht32 : ∀ y ∈ l.take (splitPoint l.length), y.length = 32 := fun y hy => h32 y (List.mem_of_mem_take hy)
      have hd32 : ∀ y ∈ l.drop (splitPoint l.length), y.length = 32 := fun y hy => h32 y (List.mem_of_mem_drop hy)
      have htne : l.take (splitPoint l.length) ≠ [] := by
        intro e; have := congrArg List.length e; rw [List.length_take, List.length_nil] at this; omega
      have hdne : l.drop (splitPoint l.length) ≠ [] := by
        intro e; have := congrArg List.length e; rw [List.length_drop, List.length_nil] at this; omega
      split at hm
      · simp only [List.mem_append, List.mem_singleton] at hm
        rcases hm with hm | rfl
        · exact ih _ (by simp; omega) _ ht32 rfl m h hm
        · exact mth_length H hlen _ hdne hd32
      · simp only [List.mem_append, List.mem_singleton] at hm
        rcases hm with hm | rfl
        · exact ih _ (by simp; omega) _ hd32 rfl _ h hm
        · exact mth_length H hlen _ htne ht32
    · match l with
      | [] => rw [path] at hm; simp at hm
      | [x] => rw [path] at hm; simp at hm
      | _ :: _ :: _ => simp at h2

/-- The loop of `InclusionProof` / `MerkleInclusionLeafPath` over the block of the store holding
`postorder S`: the collected hashes, reversed, are `PATH(m, S)`; folded with their position bytes from
`S[m]` they give the root of `S`. -/
theorem inclLoop_ok (st : HashStore) (fuel : Nat) : ∀ (S : List Hash) (m : Nat) (pre suf : List Hash),
    st.hashes = pre ++ postorder H S ++ suf → m < S.length → S.length ≤ fuel →
    ∃ r, inclLoop H (getHash1 st) fuel m S.length pre.length = .ok r ∧ (r.map (·.2)).reverse = path H m S ∧
      (∀ x, S[m]? = some x → provePath H x r.reverse = mth H S) := by
  induction fuel with
  | zero => intro S m pre suf _ hm hf; omega
  | succ fuel ih =>
    intro S m pre suf hst hm hf
    rw [inclLoop]
    by_cases h1 : S.length = 1
    · match S, h1 with
      | [x], _ =>
        refine ⟨[], by simp, by simp [path_single], ?_⟩
        intro y hy
        have : m = 0 := by simp at hm; omega
        subst this; simp at hy; subst hy; simp [provePath, mth_single]
    · have h2 : 2 ≤ S.length := by omega
      simp only [h1, ↓reduceIte]
      rw [splitK_eq _ h2]
      obtain ⟨_, hk1, hk2⟩ := splitPoint_spec S.length h2
      have hkpos := splitPoint_pos S.length
      obtain ⟨init, tail, e1, l1, e2⟩ := postorder_split H S h2
      rw [path_split H m S h2, mth_split H S h2]
      generalize hk : splitPoint S.length = k at *
      by_cases hmk : m < k
      · simp only [hmk, ↓reduceIte]
        -- right sibling: root of S[k:] read from its block
        have hbase : pre.length + k * 2 = (pre ++ postorder H (S.take k)).length + 1 := by
          rw [e1]; simp [l1]; omega
        have hcnt : S.length - k = (S.drop k).length := by simp
        rw [hbase, hcnt, rangeRoot_ok H st (S.drop k) (pre ++ postorder H (S.take k)) (tail ++ suf)
          (by intro e; have := congrArg List.length e; simp at this; omega) (by rw [hst, e2]; simp)]
        simp only
        have hlt : (S.take k).length = k := by simp; omega
        obtain ⟨r, hr, hp, hv⟩ := ih (S.take k) m pre (postorder H (S.drop k) ++ tail ++ suf)
          (by rw [hst, e2]; simp) (by omega) (by omega)
        rw [hlt] at hr
        rw [hr]
        refine ⟨_, rfl, by simp [hp], ?_⟩
        intro x hx
        have hx' : (S.take k)[m]? = some x := by rw [List.getElem?_take_of_lt hmk]; exact hx
        simp only [List.reverse_cons, provePath_append, hv x hx', provePath]
        simp
      · simp only [hmk, ↓reduceIte]
        -- left sibling: root of the perfect tree S[:k], the last node of its block
        have hpos : pre.length + (k * 2 - 1) = (pre ++ init).length + 1 := by simp [l1]; omega
        rw [hpos, getHash1_at st (pre ++ init) (postorder H (S.drop k) ++ tail ++ suf) (mth H (S.take k))
          (by rw [hst, e2, e1]; simp)]
        simp only
        have hoff : (pre ++ init).length + 1 = (pre ++ postorder H (S.take k)).length := by rw [e1]; simp; omega
        have hld : (S.drop k).length = S.length - k := by simp
        obtain ⟨r, hr, hp, hv⟩ := ih (S.drop k) (m - k) (pre ++ postorder H (S.take k)) (tail ++ suf)
          (by rw [hst, e2]; simp) (by omega) (by omega)
        rw [hld, ← hoff] at hr
        rw [hr]
        refine ⟨_, rfl, by simp [hp], ?_⟩
        intro x hx
        have hx' : (S.drop k)[m - k]? = some x := by
          rw [List.getElem?_drop]; have : k + (m - k) = m := by omega
          rw [this]; exact hx
        simp only [List.reverse_cons, provePath_append, hv x hx', provePath]
        simp

/-- `InclusionProof(m, n)` on the tree of `L` is the RFC 6962 audit path of leaf `m` in `L[0:n]`. -/
theorem inclusionProof_eq_path (L : List Hash) (s : State) (st : HashStore) (m n : Nat)
    (hinv : SInv H L s) (hst : s.store = some st) (hm : m < n) (hn : n ≤ L.length) :
    inclusionProof H s m n = .ok (path H m (L.take n)) := by
  obtain ⟨h1, _, h3⟩ := hinv
  obtain ⟨rest, hrest⟩ := postorder_prefix H (L.take n) (L.drop n)
  rw [List.take_append_drop] at hrest
  have hlen : (L.take n).length = n := by simp; omega
  obtain ⟨r, hr, hp, _⟩ := inclLoop_ok H st n (L.take n) m [] rest (by rw [h3 st hst, hrest]; simp) (by omega) (by omega)
  rw [hlen] at hr
  unfold inclusionProof inclusionProofR
  have : ¬ m ≥ n := by omega
  have h' : ¬ s.tree.size < n := by omega
  simp only [this, h', ↓reduceIte, hst, Option.map_some]
  simp only [List.length_nil] at hr
  rw [hr]; simp only [hp]

/-- `MerkleInclusionLeafPath(data, m, n)` verifies with `MerkleProve` against the root of `L[0:n]` and
yields `data`, when `data` is the `m`-th leaf. -/
theorem leafPath_gen_verifies (hlen : HashLen H) (L : List Hash) (s : State) (st : HashStore) (data : List UInt8)
    (m n : Nat) (hinv : SInv H L s) (hst : s.store = some st) (hm : m < n) (hn : n ≤ L.length)
    (hleaf : L[m]? = some (hashLeaf H data)) (h32 : ∀ y ∈ L, y.length = 32) (hd : data.length < 2 ^ 64) :
    ∃ p, merkleInclusionLeafPath H s data m n = .ok p ∧ merkleProve H p (mth H (L.take n)) = .ok data := by
  obtain ⟨h1, _, h3⟩ := hinv
  obtain ⟨rest, hrest⟩ := postorder_prefix H (L.take n) (L.drop n)
  rw [List.take_append_drop] at hrest
  have hlen' : (L.take n).length = n := by simp; omega
  obtain ⟨r, hr, hp, hv⟩ := inclLoop_ok H st n (L.take n) m [] rest (by rw [h3 st hst, hrest]; simp) (by omega) (by omega)
  rw [hlen'] at hr
  simp only [List.length_nil] at hr
  have hleaf' : (L.take n)[m]? = some (hashLeaf H data) := by rw [List.getElem?_take_of_lt hm]; exact hleaf
  have hfold := hv _ hleaf'
  -- every hash of the path is 32 bytes: each is the root of a non-empty sublist
  have hp32 : ∀ p ∈ r.reverse, p.2.length = 32 := by
    intro p hpm
    have : p.2 ∈ (r.map (·.2)).reverse := by
      simp only [List.mem_reverse, List.mem_map] at hpm ⊢; exact ⟨p, hpm, rfl⟩
    rw [hp] at this
    exact path_len32 H hlen (L.take n) (fun y hy => h32 y (List.mem_of_mem_take hy)) m _ this
  refine ⟨varBytes data ++ encodePairs r.reverse, ?_, ?_⟩
  · unfold merkleInclusionLeafPath merkleInclusionLeafPathR
    have : ¬ m ≥ n := by omega
    have h' : ¬ s.tree.size < n := by omega
    simp only [this, h', ↓reduceIte, hst, Option.map_some, hr]
  · unfold merkleProve
    rw [nextVarBytes_varBytes data _ hd]
    simp only
    have hl := encodePairs_length r.reverse hp32
    rw [readPairs_encodePairs r.reverse hp32 _ (by rw [hl]; omega), hfold]
    simp


/-! ### Reload from the hash file, marshal round trip -/

theorem foldl_add_shift (l : List Nat) (a : Nat) : l.foldl (· + ·) a = a + l.foldl (· + ·) 0 := by
  induction l generalizing a with
  | nil => simp
  | cons x l ih => simp only [List.foldl_cons]; rw [ih (a + x), ih (0 + x)]; omega

/-- `getStoredHashNum(n)` is the number of hashes the store holds for an `n`-leaf tree. -/
theorem postorder_length (L : List Hash) : (postorder H L).length = storedHashNum L.length := by
  generalize hn : L.length = n
  induction n using Nat.strongRecOn generalizing L with
  | _ n ih =>
    by_cases hL : L = []
    · subst hL; simp at hn; subst hn
      simp [postorder_nil, storedHashNum, getSubTreeSize, subTreeSizesLow]
    · have hn1 : 1 ≤ n := by rw [← hn]; exact List.length_pos_iff.mpr hL
      obtain ⟨⟨j, hj⟩, b, c⟩ := topBit_spec n hn1
      have hkpos := topBit_pos n
      obtain ⟨init, e1, l1⟩ := perfectPost_spec H j (L.take (topBit n)) (by simp; omega)
      rw [postorder_cons H L hL, hn, List.length_append, e1]
      rw [ih (n - topBit n) (by omega) (L.drop (topBit n)) (by simp [hn])]
      unfold storedHashNum
      have hs : List.foldl (· + ·) 0 ((2 * topBit n - 1) :: getSubTreeSize (n - topBit n)) =
          (2 * topBit n - 1) + List.foldl (· + ·) 0 (getSubTreeSize (n - topBit n)) := by
        rw [List.foldl_cons, foldl_add_shift]; omega
      rw [getSubTreeSize_top n hn1, hs]
      simp [l1]; omega

/-- Reopening the hash file of the tree of `L` (possibly followed by stale entries) gives back the store. -/
theorem reopenFile_ok (L tail : List Hash) :
    reopenFile (postorder H L ++ tail) L.length = some ⟨true, postorder H L, tail⟩ := by
  unfold reopenFile
  rw [← postorder_length H L]
  simp

/-- A file that is too short disables persistence. -/
theorem reopenFile_short (file : List Hash) (n : Nat) (h : file.length < storedHashNum n) :
    reopenFile file n = none := by
  unfold reopenFile; simp [h]

theorem be32_decode (n : Nat) (h : n < 2 ^ 32) :
    (n / 2 ^ 24 % 256).toUInt8.toNat * 2 ^ 24 + (n / 2 ^ 16 % 256).toUInt8.toNat * 2 ^ 16 +
      (n / 2 ^ 8 % 256).toUInt8.toNat * 2 ^ 8 + (n % 256).toUInt8.toNat = n := by
  have e1 : (n / 2 ^ 24 % 256).toUInt8.toNat = n / 2 ^ 24 % 256 := by simp
  have e2 : (n / 2 ^ 16 % 256).toUInt8.toNat = n / 2 ^ 16 % 256 := by simp
  have e3 : (n / 2 ^ 8 % 256).toUInt8.toNat = n / 2 ^ 8 % 256 := by simp
  have e4 : (n % 256).toUInt8.toNat = n % 256 := by simp
  rw [e1, e2, e3, e4]
  simp only [Nat.reducePow] at h ⊢
  omega

theorem takeHashes_flatten (hs : List Hash) (rest : List UInt8) (h32 : ∀ y ∈ hs, y.length = 32) :
    takeHashes hs.length (hs.flatten ++ rest) = hs := by
  induction hs with
  | nil => simp [takeHashes]
  | cons a hs ih =>
    have ha : a.length = 32 := h32 a (by simp)
    simp only [List.length_cons, takeHashes, List.flatten_cons, List.append_assoc]
    rw [List.take_left' ha, List.drop_left' ha, ih (fun y hy => h32 y (by simp [hy]))]

theorem flatten_length32 (hs : List Hash) (h32 : ∀ y ∈ hs, y.length = 32) : hs.flatten.length = hs.length * 32 := by
  induction hs with
  | nil => simp
  | cons a hs ih =>
    have ha : a.length = 32 := h32 a (by simp)
    simp only [List.flatten_cons, List.length_append, List.length_cons, ha, ih (fun y hy => h32 y (by simp [hy]))]
    omega

/-- `UnMarshal(Marshal(t)) = t` for a well-formed tree (also with trailing bytes). -/
theorem unmarshal_marshal (t : CompactTree) (rest : List UInt8) (hsz : t.size < 2 ^ 32)
    (hcnt : t.hashes.length = countBit t.size) (h32 : ∀ y ∈ t.hashes, y.length = 32) :
    unmarshal (marshal t ++ rest) = .ok t := by
  unfold marshal be32 unmarshal
  simp only [List.cons_append, List.nil_append]
  rw [be32_decode t.size hsz]
  have hlen : ¬ (4 + (t.hashes.flatten ++ rest).length < 4 + countBit t.size * 32) := by
    rw [List.length_append, flatten_length32 _ h32, hcnt]; omega
  simp only [List.length_cons, List.length_append] at hlen ⊢
  have hlen' : ¬ (t.hashes.flatten.length + rest.length + 1 + 1 + 1 + 1 < 4 + countBit t.size * 32) := by omega
  simp only [hlen', ↓reduceIte]
  rw [← hcnt, takeHashes_flatten _ _ h32]
  simp [newTree, hcnt]


theorem frontier_len32 (hlen : HashLen H) (l : List Hash) (h32 : ∀ y ∈ l, y.length = 32) :
    ∀ y ∈ frontier H l, y.length = 32 := by
  generalize hn : l.length = n
  induction n using Nat.strongRecOn generalizing l with
  | _ n ih =>
    subst hn
    by_cases hl : l = []
    · subst hl; simp [frontier_nil]
    · have hn1 : 1 ≤ l.length := List.length_pos_iff.mpr hl
      obtain ⟨_, b, c⟩ := topBit_spec l.length hn1
      have hkpos := topBit_pos l.length
      rw [frontier_cons H l hl]
      intro y hy
      simp only [List.mem_cons] at hy
      rcases hy with rfl | hy
      · apply mth_length H hlen
        · intro e; have := congrArg List.length e; rw [List.length_take, List.length_nil] at this; omega
        · exact fun z hz => h32 z (List.mem_of_mem_take hz)
      · exact ih _ (by simp; omega) _ (fun z hz => h32 z (List.mem_of_mem_drop hz)) rfl y hy

end Poly.Proofs.MerkleStore
