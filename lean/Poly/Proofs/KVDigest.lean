import Poly.Proofs.KVLayers
/- The overlay buffer (write set) after a write sequence depends only on the last write to each key. -/
namespace Poly.Model.KV

theorem lastWrite_append (a b : List (Key × Val)) (k : Key) :
    lastWrite (a ++ b) k = match lastWrite b k with | some x => some x | none => lastWrite a k := by
  induction a with
  | nil => simp [lastWrite]; cases lastWrite b k <;> rfl
  | cons e r ih =>
    obtain ⟨k', v⟩ := e
    simp only [List.cons_append, lastWrite, ih]
    cases lastWrite b k <;> rfl

theorem lastWrite_single (k' : Key) (v : Val) (k : Key) : lastWrite [(k', v)] k = if k' = k then some v else none := by
  simp [lastWrite]

/-- The buffer is a function of the last-write map. -/
theorem applyOps_congr {m : Entries} (hm : Sorted m) (o₁ o₂ : List (Key × Val))
    (h : ∀ k, lastWrite o₁ k = lastWrite o₂ k) : applyOps m o₁ = applyOps m o₂ := by
  apply sorted_ext (applyOps_sorted _ hm) (applyOps_sorted _ hm)
  intro k; rw [lookup_applyOps, lookup_applyOps, h k]

/-- Replaying a buffer built from a write sequence equals replaying the sequence. -/
theorem applyOps_applyOps {m : Entries} (hm : Sorted m) (ops : List (Key × Val)) :
    applyOps m (applyOps [] ops) = applyOps m ops := by
  apply sorted_ext (applyOps_sorted _ hm) (applyOps_sorted _ hm)
  intro k
  rw [lookup_applyOps, lookup_applyOps, lastWrite_sorted (applyOps_sorted _ Sorted.nil), lookup_applyOps]
  cases lastWrite ops k <;> simp [lookup]

theorem applyOps_append (m : Entries) (a b : List (Key × Val)) : applyOps m (a ++ b) = applyOps (applyOps m a) b := by
  simp [applyOps, List.foldl_append]

theorem mem_of_lastWrite {ops : List (Key × Val)} {k : Key} {v : Val} (h : lastWrite ops k = some v) : (k, v) ∈ ops := by
  induction ops with
  | nil => simp [lastWrite] at h
  | cons e r ih =>
    obtain ⟨k', v'⟩ := e
    simp only [lastWrite] at h
    cases hr : lastWrite r k with
    | some x => rw [hr] at h; simp at h; subst h; exact List.mem_cons_of_mem _ (ih hr)
    | none =>
      rw [hr] at h
      by_cases hk : k' = k
      · simp [hk] at h; subst h; subst hk; simp
      · simp [hk] at h

theorem lastWrite_of_mem_nodup {ops : List (Key × Val)} (hn : (ops.map Prod.fst).Nodup) {k : Key} {v : Val}
    (h : (k, v) ∈ ops) : lastWrite ops k = some v := by
  induction ops with
  | nil => simp at h
  | cons e r ih =>
    obtain ⟨k', v'⟩ := e
    simp only [List.map_cons, List.nodup_cons] at hn
    simp only [lastWrite]
    simp only [List.mem_cons, Prod.mk.injEq] at h
    rcases h with ⟨h1, h2⟩ | h
    · subst h1; subst h2
      cases hr : lastWrite r k with
      | none => simp
      | some x =>
        have := mem_of_lastWrite hr
        exact absurd (List.mem_map_of_mem (f := Prod.fst) this) hn.1
    · rw [ih hn.2 h]

end Poly.Model.KV
