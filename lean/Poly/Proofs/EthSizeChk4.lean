import Poly.Generated.EthSizeCerts4
/-! Kernel evaluation of the certificate checker on the 64-epoch chunks 16..19 of both ethash size tables (C28).
    Depends only on the generated certificate module (table values + certificates), not on the rule constants. -/
namespace Poly.Proofs.EthSizeChk
open Poly.Model.EthSizeCert Poly.Generated

theorem dataset_16 : checkTable 1073741824 8388608 128 1024 EthSizeCerts.datasetVals_16 EthSizeCerts.datasetCerts_16 = true := by
  decide +kernel

theorem cache_16 : checkTable 16777216 131072 64 1024 EthSizeCerts.cacheVals_16 EthSizeCerts.cacheCerts_16 = true := by
  decide +kernel

theorem dataset_17 : checkTable 1073741824 8388608 128 1088 EthSizeCerts.datasetVals_17 EthSizeCerts.datasetCerts_17 = true := by
  decide +kernel

theorem cache_17 : checkTable 16777216 131072 64 1088 EthSizeCerts.cacheVals_17 EthSizeCerts.cacheCerts_17 = true := by
  decide +kernel

theorem dataset_18 : checkTable 1073741824 8388608 128 1152 EthSizeCerts.datasetVals_18 EthSizeCerts.datasetCerts_18 = true := by
  decide +kernel

theorem cache_18 : checkTable 16777216 131072 64 1152 EthSizeCerts.cacheVals_18 EthSizeCerts.cacheCerts_18 = true := by
  decide +kernel

theorem dataset_19 : checkTable 1073741824 8388608 128 1216 EthSizeCerts.datasetVals_19 EthSizeCerts.datasetCerts_19 = true := by
  decide +kernel

theorem cache_19 : checkTable 16777216 131072 64 1216 EthSizeCerts.cacheVals_19 EthSizeCerts.cacheCerts_19 = true := by
  decide +kernel

end Poly.Proofs.EthSizeChk
