import Poly.Model.LCTm
/-! Helper lemmas for the Tendermint-family light-client model (C30). Core only. -/
namespace Poly.Proofs.LCTm
open Poly.Model.LCTm
open Poly.Generated.Thresholds

/-! ## Threshold -/

/-- `t <= total*2/3` in Go `int64` arithmetic on a non-negative total (no overflow below `MaxTotalVotingPower`)
says exactly `3 t ≤ 2 total`. -/
theorem le_two_thirds_iff (t T : Int) (hT : 0 ≤ T) : t ≤ Int.tdiv (T * 2) 3 ↔ 3 * t ≤ 2 * T := by
  rw [Int.tdiv_eq_ediv_of_nonneg (by omega)]
  omega

/-! ## Validator sets -/

theorem totalPower_perm {α κ : Type} {a b : List (Val α κ)} (h : a.Perm b) : totalPower a = totalPower b := by
  induction h with
  | nil => rfl
  | cons x _ ih => simp [totalPower, ih]
  | swap x y l => simp [totalPower]; omega
  | trans _ _ ih1 ih2 => exact ih1.trans ih2

theorem sortVals_perm {α κ : Type} (le : α → α → Bool) (vs : List (Val α κ)) : (sortVals le vs).Perm vs :=
  List.mergeSort_perm vs _

/-- What a non-panicking `NewValidatorSet` guarantees. -/
theorem newValidatorSet_some {α κ : Type} [BEq α] (le : α → α → Bool) (vs vset : List (Val α κ))
    (h : newValidatorSet le vs = some vset) :
    vset = sortVals le vs ∧ vset.Perm vs ∧ adjDup vset = false ∧
      (∀ v ∈ vset, 0 < v.power ∧ v.power ≤ maxTotalVotingPower) ∧ totalPower vset ≤ maxTotalVotingPower := by
  unfold newValidatorSet at h
  simp only at h
  split at h
  · cases h
  · rename_i hc
    cases h
    simp only [Bool.or_eq_true, decide_eq_true_eq, not_or, Bool.not_eq_true, List.any_eq_true, not_exists, not_and] at hc
    refine ⟨rfl, sortVals_perm le vs, hc.1.1, ?_, by omega⟩
    intro v hv
    have := hc.1.2 v hv
    simp only [powerBad, Bool.or_eq_false_iff, decide_eq_false_iff_not] at this
    omega

/-! ## The tally of the cosmos / okex routers -/

/-- Entry `v` paired with slot `s` at position `i` adds its power: the slot is not absent, its signature verifies under
`v`'s key over the sign bytes of slot `i`, and the vote is for the commit's block id. -/
def countsTm {α κ η χ : Type} (c : Commit κ η χ) (chain : χ) (i : Nat) (v : Val α κ) (s : Slot) : Bool :=
  s.flag != .absent && c.ver chain i v.key && (s.flag == .commit || c.blockIdZero)

/-- Power of the entries of a validator list, paired position by position with the commit slots, that count.
Every entry contributes at most once. -/
def signedPowerTm {α κ η χ : Type} (c : Commit κ η χ) (chain : χ) : Nat → List (Val α κ) → List Slot → Int
  | _, [], _ => 0
  | _, _, [] => 0
  | i, v :: vs, s :: ss => (if countsTm c chain i v s then v.power else 0) + signedPowerTm c chain (i + 1) vs ss

theorem tallyTm_ok {α κ η χ : Type} (c : Commit κ η χ) (chain : χ) (L : List (Val α κ)) :
    ∀ (slots : List Slot) (idx : Nat) (t t' : Int), (L.drop idx).length = slots.length →
      tallyTm c chain L idx slots t = .ok t' → t' = t + signedPowerTm c chain idx (L.drop idx) slots := by
  intro slots
  induction slots with
  | nil =>
    intro idx t t' hl h
    simp only [tallyTm] at h
    cases h
    have : L.drop idx = [] := List.eq_nil_of_length_eq_zero (by simpa using hl)
    simp [this, signedPowerTm]
  | cons s rest ih =>
    intro idx t t' hl h
    have hlt : idx < L.length := by
      simp only [List.length_drop, List.length_cons] at hl; omega
    have hd : L.drop idx = L[idx] :: L.drop (idx + 1) := List.drop_eq_getElem_cons hlt
    have hl' : (L.drop (idx + 1)).length = rest.length := by
      simp only [List.length_drop, List.length_cons] at hl ⊢; omega
    have hget : L[idx]? = some L[idx] := List.getElem?_eq_getElem hlt
    rw [hd]
    simp only [tallyTm] at h
    cases hf : s.flag with
    | absent =>
      simp only [hf] at h
      have := ih (idx + 1) t t' hl' h
      simp [signedPowerTm, countsTm, hf, this]
    | other => simp [hf] at h
    | commit =>
      simp only [hf, hget] at h
      split at h
      · cases h
      · rename_i hv
        simp only [Bool.not_eq_true'] at hv
        have hv' : c.ver chain idx L[idx].key = true := by
          cases hx : c.ver chain idx L[idx].key <;> simp [hx] at hv ⊢
        have := ih (idx + 1) _ t' hl' h
        simp [signedPowerTm, countsTm, hf, hv', this]
        omega
    | nil =>
      simp only [hf, hget] at h
      split at h
      · cases h
      · rename_i hv
        have hv' : c.ver chain idx L[idx].key = true := by
          cases hx : c.ver chain idx L[idx].key <;> simp [hx] at hv ⊢
        have := ih (idx + 1) _ t' hl' h
        cases hz : c.blockIdZero <;> simp [signedPowerTm, countsTm, hf, hv', this, hz] <;> omega



/-- What an accepting commit check establishes. -/
theorem verifyCommitTm_ok {α κ η χ : Type} [BEq η] [LawfulBEq η] (R : Router) (c : Commit κ η χ) (height : Int) (hash : η)
    (vset L : List (Val α κ)) (chain : χ) (hL : L.length = vset.length)
    (hok : verifyCommitTm R c height hash vset L chain = .ok ()) :
    c.height = height ∧ c.blockHash = hash ∧ c.validateBasic = true ∧ vset.length = c.slots.length ∧
      thrTm R (signedPowerTm c chain 0 L c.slots) (totalPower vset) = false := by
  unfold verifyCommitTm at hok
  by_cases h1 : (c.height != height) = true
  · rw [if_pos h1] at hok; cases hok
  · rw [if_neg h1] at hok
    by_cases h2 : (!(c.blockHash == hash)) = true
    · rw [if_pos h2] at hok; cases hok
    · rw [if_neg h2] at hok
      by_cases h3 : (!c.validateBasic) = true
      · rw [if_pos h3] at hok; cases hok
      · rw [if_neg h3] at hok
        by_cases h4 : (vset.length != c.slots.length) = true
        · rw [if_pos h4] at hok; cases hok
        · rw [if_neg h4] at hok
          have hsz : vset.length = c.slots.length := by simpa using h4
          cases ht : tallyTm c chain L 0 c.slots 0 with
          | error e => simp [ht] at hok
          | ok t =>
            simp only [ht] at hok
            have htl := tallyTm_ok c chain L c.slots 0 0 t (by simp; omega) ht
            simp only [List.drop_zero, Int.zero_add] at htl
            by_cases h5 : thrTm R t (totalPower vset) = true
            · rw [if_pos h5] at hok; cases hok
            · refine ⟨by simpa using h1, by simpa using h2, by simpa using h3, hsz, ?_⟩
              rw [← htl]; simpa using h5

/-- What an accepting `VerifyCosmosHeader` (cosmos, okex) establishes: the submitted validators form a set `vset` whose
hash (as this router computes it, or in the legacy format for the cosmos upgrade block) is the trusted next-validators
hash and whose router hash is the header's validators hash; the commit is for this header; and the tally of the
positionally paired, validly signed for-block votes passed the generated threshold test. -/
theorem verifyTm_ok {α κ η χ : Type} [BEq α] [BEq κ] [BEq η] [LawfulBEq η] (R : Router) (le : α → α → Bool)
    (H : Hashes α κ η) (h : Header α κ η χ (Commit κ η χ)) (info : Info η χ)
    (hok : verifyTm R le H h info = .ok ()) :
    ∃ vset c, newValidatorSet le h.vals = some vset ∧ h.commit = some c ∧
      (info.next = valSetHash R H h.version vset ∨ (R = .cosmos ∧ info.next = H.legacy vset)) ∧
      h.valsHash = valSetHash R H h.version vset ∧
      c.height = h.height ∧ c.blockHash = h.hash ∧ c.validateBasic = true ∧
      (pairedTm R h vset).Perm vset ∧ (pairedTm R h vset).length = c.slots.length ∧
      thrTm R (signedPowerTm c (signChainTm R h info) 0 (pairedTm R h vset) c.slots) (totalPower vset) = false := by
  unfold verifyTm at hok
  cases hv : newValidatorSet le h.vals with
  | none => simp [hv] at hok
  | some vset =>
    simp only [hv] at hok
    obtain ⟨_, hperm, -, -, -⟩ := newValidatorSet_some le h.vals vset hv
    have hpairPerm : (pairedTm R h vset).Perm vset := by
      unfold pairedTm; split
      · exact hperm.symm
      · exact List.Perm.refl _
    by_cases h0 : (isNew R h.version && !keysDistinct (vset.map (·.key))) = true
    · rw [if_pos h0] at hok; cases hok
    · rw [if_neg h0] at hok
      by_cases h1 : (!(info.next == valSetHash R H h.version vset) && !(R == .cosmos && info.next == H.legacy vset)) = true
      · rw [if_pos h1] at hok; cases hok
      · rw [if_neg h1] at hok
        by_cases h2 : (!(h.valsHash == valSetHash R H h.version vset)) = true
        · rw [if_pos h2] at hok; cases hok
        · rw [if_neg h2] at hok
          cases hc : h.commit with
          | none => simp [hc] at hok
          | some c =>
            simp only [hc] at hok
            obtain ⟨a1, a2, a3, a4, a5⟩ := verifyCommitTm_ok R c h.height h.hash vset _ _ hpairPerm.length_eq hok
            refine ⟨vset, c, rfl, rfl, ?_, by simpa using h2, a1, a2, a3, hpairPerm, by rw [hpairPerm.length_eq]; exact a4, a5⟩
            simp only [Bool.and_eq_true, Bool.not_eq_true', not_and, Bool.not_eq_false, beq_iff_eq] at h1
            by_cases hx : (info.next == valSetHash R H h.version vset) = true
            · exact Or.inl (by simpa using hx)
            · have := h1 (by simpa using hx)
              exact Or.inr (by simpa using this)


/-! ## The tally of the heimdall router -/

/-- Entry `v` paired with the precommit at position `i` adds its power: the precommit is present, claims index `i`,
is a precommit, its signature verifies under `v`'s key, and it is for the commit's block id. -/
def countsH {α κ η χ : Type} (c : HCommit κ η χ) (chain : χ) (i : Nat) (v : Val α κ) : Option HVote → Bool
  | none => false
  | some vt => vt.index == (i : Int) && vt.isPrecommit && c.ver chain i v.key && vt.blockEq

def signedPowerH {α κ η χ : Type} (c : HCommit κ η χ) (chain : χ) : Nat → List (Val α κ) → List (Option HVote) → Int
  | _, [], _ => 0
  | _, _, [] => 0
  | i, v :: vs, s :: ss => (if countsH c chain i v s then v.power else 0) + signedPowerH c chain (i + 1) vs ss

theorem tallyH_ok {α κ η χ : Type} (c : HCommit κ η χ) (chain : χ) (L : List (Val α κ)) :
    ∀ (votes : List (Option HVote)) (idx : Nat) (t t' : Int), (L.drop idx).length = votes.length →
      tallyH c chain L idx votes t = .ok t' → t' = t + signedPowerH c chain idx (L.drop idx) votes := by
  intro votes
  induction votes with
  | nil =>
    intro idx t t' hl h
    simp only [tallyH] at h
    cases h
    have : L.drop idx = [] := List.eq_nil_of_length_eq_zero (by simpa using hl)
    simp [this, signedPowerH]
  | cons s rest ih =>
    intro idx t t' hl h
    have hlt : idx < L.length := by
      simp only [List.length_drop, List.length_cons] at hl; omega
    have hd : L.drop idx = L[idx] :: L.drop (idx + 1) := List.drop_eq_getElem_cons hlt
    have hl' : (L.drop (idx + 1)).length = rest.length := by
      simp only [List.length_drop, List.length_cons] at hl ⊢; omega
    have hget : L[idx]? = some L[idx] := List.getElem?_eq_getElem hlt
    rw [hd]
    cases s with
    | none =>
      simp only [tallyH] at h
      have := ih (idx + 1) t t' hl' h
      simp [signedPowerH, countsH, this]
    | some v =>
      simp only [tallyH, hget] at h
      by_cases h1 : (v.index != (idx : Int)) = true
      · rw [if_pos h1] at h; cases h
      · rw [if_neg h1] at h
        by_cases h2 : (!v.isPrecommit) = true
        · rw [if_pos h2] at h; cases h
        · rw [if_neg h2] at h
          by_cases h3 : (!c.ver chain idx L[idx].key) = true
          · rw [if_pos h3] at h; cases h
          · rw [if_neg h3] at h
            have := ih (idx + 1) _ t' hl' h
            have e1 : v.index = (idx : Int) := by simpa using h1
            have e2 : v.isPrecommit = true := by simpa using h2
            have e3 : c.ver chain idx L[idx].key = true := by simpa using h3
            cases hb : v.blockEq <;> simp [signedPowerH, countsH, this, e1, e2, e3, hb] <;> omega

theorem verifyCommitH_ok {α κ η χ : Type} [BEq η] [LawfulBEq η] (c : HCommit κ η χ) (height : Int) (hash : η)
    (vset : List (Val α κ)) (chain : χ)
    (hok : verifyCommitH c height hash vset chain = .ok ()) :
    c.height = height ∧ c.blockHash = hash ∧ c.validateBasic = true ∧ vset.length = c.votes.length ∧
      heimdall_VerifyCosmosHeader0 (signedPowerH c chain 0 vset c.votes) (totalPower vset) = false := by
  unfold verifyCommitH at hok
  by_cases h1 : (c.height != height) = true
  · rw [if_pos h1] at hok; cases hok
  · rw [if_neg h1] at hok
    by_cases h2 : (!(c.blockHash == hash)) = true
    · rw [if_pos h2] at hok; cases hok
    · rw [if_neg h2] at hok
      by_cases h3 : (!c.validateBasic) = true
      · rw [if_pos h3] at hok; cases hok
      · rw [if_neg h3] at hok
        by_cases h4 : (vset.length != c.votes.length) = true
        · rw [if_pos h4] at hok; cases hok
        · rw [if_neg h4] at hok
          have hsz : vset.length = c.votes.length := by simpa using h4
          cases ht : tallyH c chain vset 0 c.votes 0 with
          | error e => simp [ht] at hok
          | ok t =>
            simp only [ht] at hok
            have htl := tallyH_ok c chain vset c.votes 0 0 t (by simp; omega) ht
            simp only [List.drop_zero, Int.zero_add] at htl
            by_cases h5 : heimdall_VerifyCosmosHeader0 t (totalPower vset) = true
            · rw [if_pos h5] at hok; cases hok
            · refine ⟨by simpa using h1, by simpa using h2, by simpa using h3, hsz, ?_⟩
              rw [← htl]; simpa using h5

theorem verifyH_ok {α κ η χ : Type} [BEq α] [BEq η] [LawfulBEq η] (le : α → α → Bool)
    (H : Hashes α κ η) (h : Header α κ η χ (HCommit κ η χ)) (info : Info η χ)
    (hok : verifyH le H h info = .ok ()) :
    ∃ vset c, newValidatorSet le h.vals = some vset ∧ h.commit = some c ∧
      info.next = H.legacy vset ∧ h.valsHash = H.legacy vset ∧
      c.height = h.height ∧ c.blockHash = h.hash ∧ c.validateBasic = true ∧ vset.length = c.votes.length ∧
      heimdall_VerifyCosmosHeader0 (signedPowerH c info.chain 0 vset c.votes) (totalPower vset) = false := by
  unfold verifyH at hok
  cases hv : newValidatorSet le h.vals with
  | none => simp [hv] at hok
  | some vset =>
    simp only [hv] at hok
    by_cases h1 : (!(info.next == H.legacy vset)) = true
    · rw [if_pos h1] at hok; cases hok
    · rw [if_neg h1] at hok
      by_cases h2 : (!(h.valsHash == H.legacy vset)) = true
      · rw [if_pos h2] at hok; cases hok
      · rw [if_neg h2] at hok
        cases hc : h.commit with
        | none => simp [hc] at hok
        | some c =>
          simp only [hc] at hok
          obtain ⟨a1, a2, a3, a4, a5⟩ := verifyCommitH_ok c h.height h.hash vset info.chain hok
          exact ⟨vset, c, rfl, rfl, by simpa using h1, by simpa using h2, a1, a2, a3, a4, a5⟩

/-- the signed power never exceeds the total when powers are non-negative (sanity of the quorum statement) -/
theorem signedPowerTm_le {α κ η χ : Type} (c : Commit κ η χ) (chain : χ) :
    ∀ (L : List (Val α κ)) (slots : List Slot) (i : Nat), (∀ v ∈ L, 0 ≤ v.power) →
      0 ≤ signedPowerTm c chain i L slots ∧ signedPowerTm c chain i L slots ≤ totalPower L := by
  intro L
  induction L with
  | nil => intro slots i _; simp [signedPowerTm, totalPower]
  | cons v vs ih =>
    intro slots i hp
    cases slots with
    | nil =>
      simp only [signedPowerTm, totalPower]
      have h1 := hp v List.mem_cons_self
      have : 0 ≤ totalPower vs := by
        have := (ih [] 0 (fun x hx => hp x (List.mem_cons_of_mem _ hx))).2
        have h0 := (ih [] 0 (fun x hx => hp x (List.mem_cons_of_mem _ hx))).1
        omega
      omega
    | cons s ss =>
      have := ih ss (i + 1) (fun x hx => hp x (List.mem_cons_of_mem _ hx))
      have h1 := hp v List.mem_cons_self
      simp only [signedPowerTm, totalPower]
      split <;> omega

/-! ## Histories -/

/-- "`V` accepts header `h` against info `i`" -/
abbrev Accepts {α κ η χ C : Type} (V : Verifier α κ η χ C) : Header α κ η χ C → Info η χ → Prop :=
  fun h i => V h i = .ok ()

/-- Chains of justified advances of the tracked info: each step goes to a header at a greater height that is
justified (`J`) against the info tracked before it, and takes over that header's height, hash and next-validators
hash (the chain id is kept or taken from the header). -/
inductive Reach {α κ η χ C : Type} (J : Header α κ η χ C → Info η χ → Prop) : Info η χ → Info η χ → Prop where
  | refl (i : Info η χ) : Reach J i i
  | step {i j k : Info η χ} (h : Header α κ η χ C) : Reach J i j → j.height < h.height → J h j →
      k.height = h.height → k.next = h.nextValsHash → k.blockHash = h.hash → (k.chain = j.chain ∨ k.chain = h.chain) →
      Reach J i k

theorem Reach.trans {α κ η χ C : Type} {J : Header α κ η χ C → Info η χ → Prop} {a b c : Info η χ}
    (h1 : Reach J a b) (h2 : Reach J b c) : Reach J a c := by
  induction h2 with
  | refl => exact h1
  | step h _ hlt hv e1 e2 e3 e4 ih => exact Reach.step h ih hlt hv e1 e2 e3 e4

theorem Reach.height_le {α κ η χ C : Type} {J : Header α κ η χ C → Info η χ → Prop} {a b : Info η χ}
    (h : Reach J a b) : a.height ≤ b.height := by
  induction h with
  | refl => exact Int.le_refl _
  | step h _ hlt _ e1 _ _ _ ih => omega

theorem Reach.mono {α κ η χ C : Type} {J J' : Header α κ η χ C → Info η χ → Prop} (hJ : ∀ h i, J h i → J' h i)
    {a b : Info η χ} (h : Reach J a b) : Reach J' a b := by
  induction h with
  | refl => exact Reach.refl _
  | step h _ hlt hv e1 e2 e3 e4 ih => exact Reach.step h ih hlt (hJ _ _ hv) e1 e2 e3 e4

theorem syncLoop_reach {α κ η χ C : Type} [BEq η] (V : Verifier α κ η χ C) :
    ∀ (hs : List (Option (Header α κ η χ C))) (info info' : Info η χ) (cnt cnt' : Nat),
      syncLoop V info cnt hs = .ok (info', cnt') → Reach (Accepts V) info info' ∧ cnt ≤ cnt' ∧ (cnt = cnt' → info' = info) := by
  intro hs
  induction hs with
  | nil =>
    intro info info' cnt cnt' h
    simp only [syncLoop] at h
    cases h
    exact ⟨Reach.refl _, Nat.le_refl _, fun _ => rfl⟩
  | cons o rest ih =>
    intro info info' cnt cnt' h
    cases o with
    | none => simp [syncLoop] at h
    | some hd =>
      simp only [syncLoop] at h
      by_cases h1 : (hd.nextValsHash == hd.valsHash) = true
      · rw [if_pos h1] at h; exact ih _ _ _ _ h
      · rw [if_neg h1] at h
        by_cases h2 : decide (hd.height ≤ info.height) = true
        · rw [if_pos h2] at h; exact ih _ _ _ _ h
        · rw [if_neg h2] at h
          cases hv : V hd info with
          | error e => simp [hv] at h
          | ok u =>
            simp only [hv] at h
            obtain ⟨r, hc, _⟩ := ih _ _ _ _ h
            have hlt : info.height < hd.height := by simpa using h2
            refine ⟨?_, by omega, by omega⟩
            have hs : Reach (Accepts V) info (adopt info hd) :=
              Reach.step hd (Reach.refl info) hlt (by cases u; exact hv) rfl rfl rfl (Or.inl rfl)
            exact Reach.trans hs r

/-- `SyncBlockHeader`: the stored info changes only along justified advances; an error changes nothing. -/
theorem syncBlockHeader_reach {α κ η χ C μ : Type} [BEq η] (V : Verifier α κ η χ C) (st : St η χ μ)
    (hs : List (Option (Header α κ η χ C))) :
    (syncBlockHeader V st hs).1.done = st.done ∧
    ((syncBlockHeader V st hs).1.info = st.info ∨
      ∃ info info', st.info = some info ∧ (syncBlockHeader V st hs).1.info = some info' ∧ Reach (Accepts V) info info') := by
  unfold syncBlockHeader
  cases hi : st.info with
  | none => simp [hi]
  | some info =>
    simp only
    cases hl : syncLoop V info 0 hs with
    | error e => simp [hi]
    | ok p =>
      obtain ⟨info', cnt⟩ := p
      simp only
      by_cases hc : (cnt == 0) = true
      · rw [if_pos hc]; simp [hi]
      · rw [if_neg hc]
        refine ⟨rfl, Or.inr ⟨info, info', rfl, rfl, (syncLoop_reach V hs info info' 0 cnt hl).1⟩⟩

theorem syncBlockHeader_error {α κ η χ C μ : Type} [BEq η] (V : Verifier α κ η χ C) (st : St η χ μ)
    (hs : List (Option (Header α κ η χ C))) (e : Err) (h : (syncBlockHeader V st hs).2 = .error e) :
    (syncBlockHeader V st hs).1 = st := by
  unfold syncBlockHeader at h ⊢
  cases hi : st.info with
  | none => simp
  | some info =>
    simp only [hi] at h ⊢
    cases hl : syncLoop V info 0 hs with
    | error e => simp
    | ok p =>
      obtain ⟨info', cnt⟩ := p
      simp only [hl] at h ⊢
      by_cases hc : (cnt == 0) = true
      · rw [if_pos hc]
      · rw [if_neg hc] at h; cases h

theorem genesis_info {α κ η χ C μ : Type} (st : St η χ μ) (w : Bool) (hdr : Option (Header α κ η χ C)) :
    (genesis st w hdr).1.done = st.done ∧
    ((genesis st w hdr).1.info = st.info ∨
      (st.info = none ∧ w = true ∧ ∃ h, hdr = some h ∧
        (genesis st w hdr).1.info = some ⟨h.height, h.hash, h.nextValsHash, h.chain⟩)) := by
  unfold genesis
  cases w with
  | false => simp
  | true =>
    cases hdr with
    | none => simp
    | some h =>
      cases hi : st.info with
      | some i => simp [hi]
      | none => simp

/-- header part of a deposit: the stored info changes only along one justified advance -/
theorem depHeader_reach {α κ η χ C π μ : Type} [BEq η] (V : Verifier α κ η χ C) (st : St η χ μ)
    (p : DepParam α κ η χ C π μ) :
    (depHeader V st p).1.done = st.done ∧
    ((depHeader V st p).1.info = st.info ∨
      ∃ info info', st.info = some info ∧ (depHeader V st p).1.info = some info' ∧ Reach (Accepts V) info info') := by
  unfold depHeader
  cases hi : st.info with
  | none => simp [hi]
  | some info =>
    simp only
    by_cases h1 : decide (p.height < info.height) = true
    · rw [if_pos h1]; simp [hi]
    · rw [if_neg h1]
      cases hh : p.header with
      | none => simp [hi]
      | some oh =>
        cases oh with
        | none => simp [hi]
        | some h =>
          simp only
          by_cases h2 : (h.height != p.height) = true
          · rw [if_pos h2]; simp [hi]
          · rw [if_neg h2]
            cases hv : V h info with
            | error e => simp [hi]
            | ok u =>
              simp only
              by_cases h3 : (!(h.valsHash == h.nextValsHash) && decide (info.height < h.height)) = true
              · rw [if_pos h3]
                refine ⟨rfl, Or.inr ⟨info, _, rfl, rfl, ?_⟩⟩
                have hlt : info.height < h.height := by
                  simp only [Bool.and_eq_true, decide_eq_true_eq] at h3; exact h3.2
                exact Reach.step h (Reach.refl info) hlt (by cases u; exact hv) rfl rfl rfl (Or.inr rfl)
              · rw [if_neg h3]; simp [hi]

/-- what an accepted header part of a deposit establishes -/
theorem depHeader_ok {α κ η χ C π μ : Type} [BEq η] (V : Verifier α κ η χ C) (st : St η χ μ)
    (p : DepParam α κ η χ C π μ) (h : Header α κ η χ C) (hok : (depHeader V st p).2 = .ok h) :
    ∃ info, st.info = some info ∧ p.header = some (some h) ∧ info.height ≤ h.height ∧ h.height = p.height ∧
      V h info = .ok () := by
  unfold depHeader at hok
  cases hi : st.info with
  | none => simp [hi] at hok
  | some info =>
    simp only [hi] at hok
    by_cases h1 : decide (p.height < info.height) = true
    · rw [if_pos h1] at hok; cases hok
    · rw [if_neg h1] at hok
      cases hh : p.header with
      | none => simp [hh] at hok
      | some oh =>
        cases oh with
        | none => simp [hh] at hok
        | some h' =>
          simp only [hh] at hok
          by_cases h2 : (h'.height != p.height) = true
          · rw [if_pos h2] at hok; cases hok
          · rw [if_neg h2] at hok
            cases hv : V h' info with
            | error e => simp [hv] at hok
            | ok u =>
              simp only [hv] at hok
              cases hok
              have e2 : h.height = p.height := by simpa using h2
              have e1 : ¬ p.height < info.height := by simpa using h1
              exact ⟨info, rfl, rfl, by omega, e2, by cases u; exact hv⟩


theorem finishDeposit_info {η χ μ τ : Type} [BEq μ] (st : St η χ μ) (tx : τ) (ccid : μ) :
    (finishDeposit st tx ccid).1.info = st.info := by
  unfold finishDeposit; split <;> rfl

theorem depositCosmos_info {α κ η χ C π μ τ : Type} [BEq η] [BEq μ] (V : Verifier α κ η χ C) (P : ProofRt η π μ τ)
    (st : St η χ μ) (p : DepParam α κ η χ C π μ) :
    (depositCosmos V P st p).1.info = (depHeader V st p).1.info := by
  unfold depositCosmos
  rcases hd : depHeader V st p with ⟨st', r⟩
  cases r with
  | error e => rfl
  | ok h =>
    simp only
    cases p.pv with
    | none => rfl
    | some kv =>
      obtain ⟨kp, value⟩ := kv
      simp only
      cases p.proof with
      | none => rfl
      | some proof =>
        simp only
        split
        · rfl
        · split
          · rfl
          · cases P.decodeTx value with
            | none => rfl
            | some tc => obtain ⟨tx, ccid⟩ := tc; exact finishDeposit_info st' tx ccid

theorem depositOkex_info {α κ η χ C π μ τ : Type} [BEq η] [BEq μ] (V : Verifier α κ η χ C) (P : ProofRt η π μ τ)
    (keccak : μ → μ) (shape : π → OkexShape) (sc : Bool) (st : St η χ μ) (p : DepParam α κ η χ C π μ) :
    (depositOkex V P keccak shape sc st p).1.info = (depHeader V st p).1.info := by
  unfold depositOkex
  rcases hd : depHeader V st p with ⟨st', r⟩
  cases r with
  | error e => rfl
  | ok h =>
    simp only
    cases p.pv with
    | none => rfl
    | some kv =>
      obtain ⟨kp, value⟩ := kv
      simp only
      cases p.proof with
      | none => rfl
      | some proof =>
        simp only
        repeat' split
        all_goals first | rfl | exact finishDeposit_info _ _ _

/-- the effect of one operation on the tracked info -/
theorem applyOp_info {α κ η χ C π μ τ : Type} [BEq η] (V : Verifier α κ η χ C)
    (D : St η χ μ → DepParam α κ η χ C π μ → St η χ μ × Except Err τ)
    (hD : ∀ st p, (D st p).1.info = st.info ∨ (D st p).1.info = (depHeader V st p).1.info)
    (st : St η χ μ) (o : Op α κ η χ C π μ) :
    (applyOp V D st o).info = st.info ∨
    (st.info = none ∧ ∃ h, o = .genesis true (some h) ∧
      (applyOp V D st o).info = some ⟨h.height, h.hash, h.nextValsHash, h.chain⟩) ∨
    (∃ info info', st.info = some info ∧ (applyOp V D st o).info = some info' ∧ Reach (Accepts V) info info') := by
  cases o with
  | genesis w hdr =>
    simp only [applyOp]
    rcases (genesis_info st w hdr).2 with h | ⟨h1, h2, h, h3, h4⟩
    · exact Or.inl h
    · subst h2; subst h3
      exact Or.inr (Or.inl ⟨h1, h, rfl, h4⟩)
  | sync hs =>
    simp only [applyOp]
    rcases (syncBlockHeader_reach V st hs).2 with h | h
    · exact Or.inl h
    · exact Or.inr (Or.inr h)
  | deposit p =>
    simp only [applyOp]
    rcases hD st p with h0 | h0
    · exact Or.inl h0
    · rw [h0]
      rcases (depHeader_reach V st p).2 with h | h
      · exact Or.inl h
      · exact Or.inr (Or.inr h)

/-- Histories from an installed trust root: the tracked info exists throughout and is reached by justified advances. -/
theorem run_reach_some {α κ η χ C π μ τ : Type} [BEq η] (V : Verifier α κ η χ C)
    (D : St η χ μ → DepParam α κ η χ C π μ → St η χ μ × Except Err τ)
    (hD : ∀ st p, (D st p).1.info = st.info ∨ (D st p).1.info = (depHeader V st p).1.info) :
    ∀ (ops : List (Op α κ η χ C π μ)) (st : St η χ μ) (root : Info η χ), st.info = some root →
      ∃ info', (run V D st ops).info = some info' ∧ Reach (Accepts V) root info' := by
  intro ops
  induction ops with
  | nil => intro st root h; exact ⟨root, h, Reach.refl _⟩
  | cons o os ih =>
    intro st root h
    simp only [run]
    rcases applyOp_info V D hD st o with h1 | ⟨h1, _⟩ | ⟨info, info1, h1, h2, h3⟩
    · exact ih _ root (h1.trans h)
    · rw [h] at h1; cases h1
    · rw [h] at h1; cases h1
      obtain ⟨info', e, r⟩ := ih _ info1 h2
      exact ⟨info', e, Reach.trans h3 r⟩

/-- Histories from any state: whatever is tracked in the end was reached by justified advances from the info
tracked at the start or, if there was none, from the trust root installed by a witnessed genesis operation. -/
theorem run_reach {α κ η χ C π μ τ : Type} [BEq η] (V : Verifier α κ η χ C)
    (D : St η χ μ → DepParam α κ η χ C π μ → St η χ μ × Except Err τ)
    (hD : ∀ st p, (D st p).1.info = st.info ∨ (D st p).1.info = (depHeader V st p).1.info) :
    ∀ (ops : List (Op α κ η χ C π μ)) (st : St η χ μ) (info' : Info η χ), (run V D st ops).info = some info' →
      ∃ root, (st.info = some root ∨ (st.info = none ∧ ∃ h, Op.genesis true (some h) ∈ ops ∧
        root = ⟨h.height, h.hash, h.nextValsHash, h.chain⟩)) ∧ Reach (Accepts V) root info' := by
  intro ops
  induction ops with
  | nil => intro st info' h; exact ⟨info', Or.inl h, Reach.refl _⟩
  | cons o os ih =>
    intro st info' h
    simp only [run] at h
    cases hs : st.info with
    | some root =>
      obtain ⟨i2, e, r⟩ := run_reach_some V D hD (o :: os) st root hs
      simp only [run] at e
      rw [h] at e; cases e
      exact ⟨root, Or.inl rfl, r⟩
    | none =>
      obtain ⟨root, hr, r⟩ := ih _ info' h
      rcases applyOp_info V D hD st o with h1 | ⟨_, g, h2, h3⟩ | ⟨info, _, h1, _⟩
      · rcases hr with hr | ⟨hr, g, hg, e⟩
        · rw [h1, hs] at hr; cases hr
        · exact ⟨root, Or.inr ⟨rfl, g, List.mem_cons_of_mem _ hg, e⟩, r⟩
      · rcases hr with hr | ⟨hr, _⟩
        · rw [h3] at hr; cases hr
          exact ⟨_, Or.inr ⟨rfl, g, by rw [h2]; exact List.mem_cons_self, rfl⟩, r⟩
        · rw [h3] at hr; cases hr
      · rw [hs] at h1; cases h1

/-! ## Deposits -/

theorem finishDeposit_ok {η χ μ τ : Type} [BEq μ] (st : St η χ μ) (tx tx' : τ) (ccid : μ)
    (h : (finishDeposit st tx ccid).2 = .ok tx') : tx' = tx ∧ st.done.contains ccid = false := by
  unfold finishDeposit at h
  split at h
  · cases h
  · rename_i hc; cases h; exact ⟨rfl, by simpa using hc⟩

/-- An accepted cosmos deposit: the header was accepted against the tracked info at a height not below it, the
key path is not empty and `VerifyValue` accepted the submitted value under the header's app hash. -/
theorem depositCosmos_ok {α κ η χ C π μ τ : Type} [BEq η] [BEq μ] (V : Verifier α κ η χ C) (P : ProofRt η π μ τ)
    (st : St η χ μ) (p : DepParam α κ η χ C π μ) (tx : τ) (hok : (depositCosmos V P st p).2 = .ok tx) :
    ∃ info h kp value proof ccid, st.info = some info ∧ p.header = some (some h) ∧ info.height ≤ h.height ∧
      V h info = .ok () ∧ p.pv = some (kp, value) ∧ p.proof = some proof ∧ kp.isEmpty = false ∧
      P.verifyValue proof h.appHash kp value = true ∧ P.decodeTx value = some (tx, ccid) ∧
      st.done.contains ccid = false := by
  unfold depositCosmos at hok
  rcases hd : depHeader V st p with ⟨st', r⟩
  rw [hd] at hok
  cases r with
  | error e => cases hok
  | ok h =>
    simp only at hok
    have hdone : st'.done = st.done := by have := (depHeader_reach V st p).1; rw [hd] at this; exact this
    obtain ⟨info, i1, i2, i3, _, i5⟩ := depHeader_ok V st p h (by rw [hd])
    cases hpv : p.pv with
    | none => simp [hpv] at hok
    | some kv =>
      obtain ⟨kp, value⟩ := kv
      simp only [hpv] at hok
      cases hpf : p.proof with
      | none => simp [hpf] at hok
      | some proof =>
        simp only [hpf] at hok
        by_cases h1 : kp.isEmpty = true
        · rw [if_pos h1] at hok; cases hok
        · rw [if_neg h1] at hok
          by_cases h2 : (!P.verifyValue proof h.appHash kp value) = true
          · rw [if_pos h2] at hok; cases hok
          · rw [if_neg h2] at hok
            cases hdec : P.decodeTx value with
            | none => simp [hdec] at hok
            | some tc =>
              obtain ⟨tx0, ccid⟩ := tc
              simp only [hdec] at hok
              obtain ⟨e, hc⟩ := finishDeposit_ok st' tx0 tx ccid hok
              subst e
              exact ⟨info, h, kp, value, proof, ccid, i1, i2, i3, i5, rfl, rfl, by simpa using h1, by simpa using h2, hdec,
                by rw [← hdone]; exact hc⟩

/-- An accepted okex deposit: as for cosmos, with the Keccak-256 digest of the value as the proven leaf and the proof
shape the handler demands. -/
theorem depositOkex_ok {α κ η χ C π μ τ : Type} [BEq η] [BEq μ] (V : Verifier α κ η χ C) (P : ProofRt η π μ τ)
    (keccak : μ → μ) (shape : π → OkexShape) (sc : Bool)
    (st : St η χ μ) (p : DepParam α κ η χ C π μ) (tx : τ) (hok : (depositOkex V P keccak shape sc st p).2 = .ok tx) :
    ∃ info h kp value proof ccid, st.info = some info ∧ p.header = some (some h) ∧ info.height ≤ h.height ∧
      V h info = .ok () ∧ p.pv = some (kp, value) ∧ p.proof = some proof ∧ kp.isEmpty = false ∧
      (shape proof).nOps = 2 ∧ (shape proof).key0HasPrefix = true ∧ (shape proof).key1IsEvm = true ∧
      P.verifyValue proof h.appHash kp (keccak value) = true ∧ P.decodeTx value = some (tx, ccid) ∧
      st.done.contains ccid = false := by
  unfold depositOkex at hok
  rcases hd : depHeader V st p with ⟨st', r⟩
  rw [hd] at hok
  cases r with
  | error e => cases hok
  | ok h =>
    simp only at hok
    have hdone : st'.done = st.done := by have := (depHeader_reach V st p).1; rw [hd] at this; exact this
    obtain ⟨info, i1, i2, i3, _, i5⟩ := depHeader_ok V st p h (by rw [hd])
    cases hpv : p.pv with
    | none => simp [hpv] at hok
    | some kv =>
      obtain ⟨kp, value⟩ := kv
      simp only [hpv] at hok
      cases hpf : p.proof with
      | none => simp [hpf] at hok
      | some proof =>
        simp only [hpf] at hok
        by_cases g1 : ((shape proof).nOps != 2) = true
        · rw [if_pos g1] at hok; cases hok
        · rw [if_neg g1] at hok
          by_cases g2 : ((shape proof).key0Len != 53) = true
          · rw [if_pos g2] at hok; cases hok
          · rw [if_neg g2] at hok
            by_cases g0 : (!sc) = true
            · rw [if_pos g0] at hok; cases hok
            · rw [if_neg g0] at hok
              by_cases g3 : (!(shape proof).key0HasPrefix) = true
              · rw [if_pos g3] at hok; cases hok
              · rw [if_neg g3] at hok
                by_cases g4 : (!(shape proof).key1IsEvm) = true
                · rw [if_pos g4] at hok; cases hok
                · rw [if_neg g4] at hok
                  by_cases h1 : kp.isEmpty = true
                  · rw [if_pos h1] at hok; cases hok
                  · rw [if_neg h1] at hok
                    by_cases h2 : (!P.verifyValue proof h.appHash kp (keccak value)) = true
                    · rw [if_pos h2] at hok; cases hok
                    · rw [if_neg h2] at hok
                      cases hdec : P.decodeTx value with
                      | none => simp [hdec] at hok
                      | some tc =>
                        obtain ⟨tx0, ccid⟩ := tc
                        simp only [hdec] at hok
                        obtain ⟨e, hc⟩ := finishDeposit_ok st' tx0 tx ccid hok
                        subst e
                        exact ⟨info, h, kp, value, proof, ccid, i1, i2, i3, i5, rfl, rfl, by simpa using h1,
                          by simpa using g1, by simpa using g3, by simpa using g4, by simpa using h2, hdec,
                          by rw [← hdone]; exact hc⟩

/-- An accepted heimdall span: header accepted against the tracked info, `VerifyValue` accepted the span bytes. -/
theorem verifySpan_ok {α κ η χ C π μ τ : Type} (V : Verifier α κ η χ C) (P : ProofRt η π μ τ)
    (nOps : π → Nat) (key1IsBor : π → Bool) (st : St η χ μ) (h : Header α κ η χ C) (proof : π) (kp : String) (value : μ)
    (sp : τ) (hok : verifySpan V P nOps key1IsBor st h proof kp value = .ok sp) :
    ∃ info, st.info = some info ∧ V h info = .ok () ∧ key1IsBor proof = true ∧
      P.verifyValue proof h.appHash kp value = true ∧ ∃ x, P.decodeTx value = some (sp, x) := by
  unfold verifySpan at hok
  cases hi : st.info with
  | none => simp [hi] at hok
  | some info =>
    simp only [hi] at hok
    cases hv : V h info with
    | error e => simp [hv] at hok
    | ok u =>
      simp only [hv] at hok
      by_cases g1 : (nOps proof != 2) = true
      · rw [if_pos g1] at hok; cases hok
      · rw [if_neg g1] at hok
        by_cases g2 : (!key1IsBor proof) = true
        · rw [if_pos g2] at hok; cases hok
        · rw [if_neg g2] at hok
          by_cases g3 : (!P.verifyValue proof h.appHash kp value) = true
          · rw [if_pos g3] at hok; cases hok
          · rw [if_neg g3] at hok
            cases hdec : P.decodeTx value with
            | none => simp [hdec] at hok
            | some tc =>
              obtain ⟨s0, x⟩ := tc
              simp only [hdec] at hok
              cases hok
              exact ⟨info, rfl, by cases u; exact hv, by simpa using g2, by simpa using g3, x, rfl⟩


theorem signedPowerH_le {α κ η χ : Type} (c : HCommit κ η χ) (chain : χ) :
    ∀ (L : List (Val α κ)) (votes : List (Option HVote)) (i : Nat), (∀ v ∈ L, 0 ≤ v.power) →
      0 ≤ signedPowerH c chain i L votes ∧ signedPowerH c chain i L votes ≤ totalPower L := by
  intro L
  induction L with
  | nil => intro votes i _; simp [signedPowerH, totalPower]
  | cons v vs ih =>
    intro votes i hp
    have hrec := fun vv j => ih vv j (fun x hx => hp x (List.mem_cons_of_mem _ hx))
    have h1 := hp v List.mem_cons_self
    cases votes with
    | nil =>
      simp only [signedPowerH, totalPower]
      have := hrec [] 0
      omega
    | cons s ss =>
      have := hrec ss (i + 1)
      simp only [signedPowerH, totalPower]
      split <;> omega

/-! ## The statements the property theorems are phrased with -/

/-- Header `h` is justified against the tracked `info` for the cosmos / okex router `R`:
its submitted validators form a validator set `vset` whose hash is the trusted next-validators hash (in the router's
format, or for the cosmos router in the legacy format) and the header's validators hash; its commit is for this
header (height and block hash); and the entries of the validator list paired position by position with the commit
slots that carry a valid signature for the block hold more than two thirds of the total power, each entry counted
at most once (`signedPowerTm`). -/
def JustifiedTm {α κ η χ : Type} [BEq α] (R : Router) (le : α → α → Bool) (H : Hashes α κ η)
    (h : Header α κ η χ (Commit κ η χ)) (info : Info η χ) : Prop :=
  ∃ vset c, newValidatorSet le h.vals = some vset ∧ h.commit = some c ∧
    (info.next = valSetHash R H h.version vset ∨ (R = .cosmos ∧ info.next = H.legacy vset)) ∧
    h.valsHash = valSetHash R H h.version vset ∧
    c.height = h.height ∧ c.blockHash = h.hash ∧
    (pairedTm R h vset).Perm vset ∧ (pairedTm R h vset).length = c.slots.length ∧
    2 * totalPower vset < 3 * signedPowerTm c (signChainTm R h info) 0 (pairedTm R h vset) c.slots

/-- The same for the heimdall router (validator set in address order, tracked chain id in the sign bytes, every counted
precommit claims the index of its position). -/
def JustifiedH {α κ η χ : Type} [BEq α] (le : α → α → Bool) (H : Hashes α κ η)
    (h : Header α κ η χ (HCommit κ η χ)) (info : Info η χ) : Prop :=
  ∃ vset c, newValidatorSet le h.vals = some vset ∧ h.commit = some c ∧
    info.next = H.legacy vset ∧ h.valsHash = H.legacy vset ∧
    c.height = h.height ∧ c.blockHash = h.hash ∧ vset.length = c.votes.length ∧
    2 * totalPower vset < 3 * signedPowerH c info.chain 0 vset c.votes

/-- two different validator sets with the same hash (within one hash flavour or across the two) -/
def HashClash {α κ η : Type} (H : Hashes α κ η) (a b : List (Val α κ)) : Prop :=
  a ≠ b ∧ (H.legacy a = H.legacy b ∨ H.new a = H.new b ∨ H.legacy a = H.new b ∨ H.new a = H.legacy b)

end Poly.Proofs.LCTm
