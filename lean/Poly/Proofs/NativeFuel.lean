import Poly.Proofs.Native
/-!
The fuel of `invokeF` is a device to define the nested `Invoke` by structural recursion. It never runs out: the
context stack grows by one frame per nested call and `PushContext` refuses the 1026th frame, so from
`fuel + stack depth ≥ 1027` on, more fuel changes nothing (`invokeF_stable`), and the model-only outcome
`diverge` is never produced by the fuel used in `execTx` (`fuel_sufficient`).
-/
namespace Poly.Model.Native

section
variable (leafHash : Bytes → Hash)

/-- The context stack never shrinks below its height at the start of a call. -/
def LenMono (inv : Inv) : Prop := ∀ s, s.contexts.length ≤ (inv s).2.contexts.length

theorem runProg_lenMono (inv : Inv) (hinv : LenMono inv) (p : Prog) :
    ∀ s, s.contexts.length ≤ (runProg leafHash inv p s).2.contexts.length := by
  induction p with
  | ret r => intro s; exact Nat.le_refl _
  | fail => intro s; exact Nat.le_refl _
  | panic => intro s; exact Nat.le_refl _
  | get k f ih => intro s; simp only [runProg]; exact ih _ s
  | put k v n ih => intro s; simp only [runProg]; refine Nat.le_trans ?_ (ih _); exact Nat.le_refl _
  | del k n ih => intro s; simp only [runProg]; refine Nat.le_trans ?_ (ih _); exact Nat.le_refl _
  | notify ev n ih => intro s; simp only [runProg]; refine Nat.le_trans ?_ (ih _); exact Nat.le_refl _
  | merkle d n ih => intro s; simp only [runProg]; refine Nat.le_trans ?_ (ih _); exact Nat.le_refl _
  | call a m args f ih =>
    intro s
    simp only [runProg]
    have h1 := hinv { s with input := encodeParam a m args }
    split
    · exact h1
    · refine Nat.le_trans (Nat.le_trans h1 ?_) (ih _ _)
      split <;> exact Nat.le_refl _
  | witness a f ih => intro s; simp only [runProg]; exact ih _ s
  | getInput f ih => intro s; simp only [runProg]; exact ih _ s
  | context f ih => intro s; simp only [runProg]; exact ih _ _ s
  | blockInfo f ih => intro s; simp only [runProg]; exact ih _ _ s
  | log m n ih => intro s; simp only [runProg]; refine Nat.le_trans ?_ (ih _); exact Nat.le_refl _

theorem popContext_length (l : List Addr) : l.length - 1 ≤ (popContext l).length := by
  unfold popContext; split <;> simp

theorem invokeStep_lenMono (reg : Registry) (inv : Inv) (hinv : LenMono inv) : LenMono (invokeStep leafHash reg inv) := by
  intro s
  apply invokeStep_elim leafHash reg inv s (P := fun x => s.contexts.length ≤ x.2.contexts.length)
  · intro sm; exact Nat.le_refl _
  · intro sm args _; exact Nat.le_refl _
  · intro sm addr args p s3 _ heq
    have := runProg_lenMono leafHash inv hinv p (enter s sm addr args)
    rw [heq] at this
    simp only [enter, List.length_append, List.length_cons, List.length_nil] at this
    show s.contexts.length ≤ s3.contexts.length
    omega
  · intro sm addr args p r s3 _ heq
    have := runProg_lenMono leafHash inv hinv p (enter s sm addr args)
    rw [heq] at this
    simp only [enter, List.length_append, List.length_cons, List.length_nil] at this
    have h2 := popContext_length s3.contexts
    show s.contexts.length ≤ (popContext s3.contexts).length
    omega

theorem invokeF_lenMono (reg : Registry) : ∀ n, LenMono (invokeF leafHash reg n)
  | 0 => fun _ => Nat.le_refl _
  | n + 1 => invokeStep_lenMono leafHash reg _ (invokeF_lenMono reg n)

/-- Two nested-invoke functions that agree on every state with at least `k` frames give the same run from a state
with at least `k` frames. -/
theorem runProg_agree (inv1 inv2 : Inv) (k : Nat) (hm : LenMono inv1)
    (hag : ∀ t, k ≤ t.contexts.length → inv1 t = inv2 t) (p : Prog) :
    ∀ s, k ≤ s.contexts.length → runProg leafHash inv1 p s = runProg leafHash inv2 p s := by
  induction p with
  | ret r => intro s _; rfl
  | fail => intro s _; rfl
  | panic => intro s _; rfl
  | get k' f ih => intro s h; simp only [runProg]; exact ih _ s h
  | put k' v n ih => intro s h; simp only [runProg]; exact ih _ h
  | del k' n ih => intro s h; simp only [runProg]; exact ih _ h
  | notify ev n ih => intro s h; simp only [runProg]; exact ih _ h
  | merkle d n ih => intro s h; simp only [runProg]; exact ih _ h
  | call a m args f ih =>
    intro s h
    simp only [runProg]
    have h1 : inv1 { s with input := encodeParam a m args } = inv2 { s with input := encodeParam a m args } := hag _ h
    have h2 := hm { s with input := encodeParam a m args }
    rw [← h1]
    split
    · rfl
    · apply ih
      have : k ≤ (inv1 { s with input := encodeParam a m args }).2.contexts.length := Nat.le_trans h h2
      split <;> exact this
  | witness a f ih => intro s h; simp only [runProg]; exact ih _ s h
  | getInput f ih => intro s h; simp only [runProg]; exact ih _ s h
  | context f ih => intro s h; simp only [runProg]; exact ih _ _ s h
  | blockInfo f ih => intro s h; simp only [runProg]; exact ih _ _ s h
  | log m n ih => intro s h; simp only [runProg]; exact ih _ h

theorem invokeStep_agree (reg : Registry) (inv1 inv2 : Inv) (hm : LenMono inv1) (s : Svc)
    (hag : ∀ t, s.contexts.length + 1 ≤ t.contexts.length → inv1 t = inv2 t) :
    invokeStep leafHash reg inv1 s = invokeStep leafHash reg inv2 s := by
  unfold invokeStep
  split
  · rfl
  · split
    · rfl
    · split
      · rfl
      · unfold invokeBody
        split
        · rfl
        · rw [runProg_agree leafHash inv1 inv2 (s.contexts.length + 1) hm hag _ _ (by simp [enter])]

/-- With a full context stack `Invoke` does not reach the nested level at all. -/
theorem invokeStep_full (reg : Registry) (inv1 inv2 : Inv) (s : Svc) (h : s.contexts.length > maxContextLen) :
    invokeStep leafHash reg inv1 s = invokeStep leafHash reg inv2 s := by
  unfold invokeStep
  split
  · rfl
  · split
    · rfl
    · split
      · rfl
      · unfold invokeBody
        rw [if_pos h, if_pos h]

/-- From `fuel + stack depth ≥ 1027` on, one more unit of fuel changes nothing. -/
theorem invokeF_stable (reg : Registry) : ∀ n s, n + 1 + s.contexts.length ≥ 1027 →
    invokeF leafHash reg (n + 1) s = invokeF leafHash reg (n + 2) s := by
  intro n
  induction n with
  | zero =>
    intro s h
    exact invokeStep_full leafHash reg _ _ s (by simp [maxContextLen]; omega)
  | succ n ih =>
    intro s h
    by_cases hfull : s.contexts.length > maxContextLen
    · exact invokeStep_full leafHash reg _ _ s hfull
    · show invokeStep leafHash reg (invokeF leafHash reg (n + 1)) s = invokeStep leafHash reg (invokeF leafHash reg (n + 2)) s
      apply invokeStep_agree leafHash reg _ _ (invokeF_lenMono leafHash reg (n + 1)) s
      intro t ht
      exact ih t (by omega)

theorem invokeF_stable_add (reg : Registry) (n : Nat) (s : Svc) (h : n + 1 + s.contexts.length ≥ 1027) :
    ∀ j, invokeF leafHash reg (n + 1) s = invokeF leafHash reg (n + 1 + j) s := by
  intro j
  induction j with
  | zero => rfl
  | succ j ih =>
    rw [ih]
    have := invokeF_stable leafHash reg (n + j) s (by omega)
    have e1 : n + j + 1 = n + 1 + j := by omega
    have e2 : n + j + 2 = n + 1 + (j + 1) := by omega
    rw [e1, e2] at this
    exact this

/-- The fuel used by `execTx` is enough for every transaction: any larger amount gives the same result. -/
theorem fuel_sufficient (reg : Registry) (s : Svc) (j : Nat) :
    invokeF leafHash reg fuel s = invokeF leafHash reg (fuel + j) s :=
  invokeF_stable_add leafHash reg 1029 s (by omega) j

end
end Poly.Model.Native
