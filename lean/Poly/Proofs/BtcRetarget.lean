import Poly.Model.BtcRetarget
/-! The nanosecond arithmetic of `calcDiffAdjust` is Bitcoin Core's retarget formula in seconds. -/
namespace Poly.Proofs.BtcRetarget
open Poly.Model.BtcRetarget

theorem calcDiffAdjust_eq_spec (startSec endSec endBits : Nat) (powLimit : Int) :
    calcDiffAdjust startSec endSec endBits powLimit =
      bigToCompact (specNextTarget (compactToBig endBits) startSec endSec powLimit) := by
  unfold calcDiffAdjust specNextTarget
  simp only [targetTimespanNs, nsPerSec]
  generalize compactToBig endBits = old
  -- the clamped duration is the clamped number of seconds times 10^9
  have hd : ∀ a : Int,
      (if a * 1000000000 < 1209600000000000 / 4 then (1209600000000000 / 4 : Int)
        else if a * 1000000000 > 1209600000000000 * 4 then 1209600000000000 * 4 else a * 1000000000) =
      (if a < 1209600 / 4 then (1209600 / 4 : Int) else if a > 1209600 * 4 then 1209600 * 4 else a) * 1000000000 := by
    intro a
    split <;> split <;> (try split) <;> (try split) <;> omega
  have hsub : (endSec : Int) * 1000000000 - (startSec : Int) * 1000000000 = ((endSec : Int) - startSec) * 1000000000 := by
    omega
  simp only [hsub, hd]
  generalize (if (endSec : Int) - startSec < 1209600 / 4 then (1209600 / 4 : Int)
    else if (endSec : Int) - startSec > 1209600 * 4 then 1209600 * 4 else (endSec : Int) - startSec) = act
  have : old * (act * 1000000000) / 1209600000000000 = old * act / 1209600 := by
    have h1 : old * (act * 1000000000) = (old * act) * 1000000000 := by rw [Int.mul_assoc]
    have h2 : (1209600000000000 : Int) = 1209600 * 1000000000 := by omega
    rw [h1, h2, Int.mul_ediv_mul_of_pos_left _ _ (by omega)]
  rw [this]

end Poly.Proofs.BtcRetarget
