import Poly.Proofs.GovConsumed
/-! Side-chain registry invariants (C35). -/
namespace Poly.Model.Gov

/-- Invariants of the side-chain registry: a pending registration is for an id that is not registered; a pending
update was requested by the address that owns the registered record; a pending quit is for a registered id; records
are stored under their own chain id. -/
structure RegInv (s : State) : Prop where
  applyFree : ∀ id r, alGet s.scApply id = some r → alGet s.sc id = none ∧ r.chainId = id
  updOwner : ∀ id r, alGet s.scUpd id = some r → ∃ cur, alGet s.sc id = some cur ∧ cur.addr = r.addr ∧ r.chainId = id
  quitReg : ∀ id, id ∈ s.scQuit → ∃ cur, alGet s.sc id = some cur
  scId : ∀ id r, alGet s.sc id = some r → r.chainId = id

theorem RegInv_of_eq {s t : State} (h : RegInv s) (h1 : t.scApply = s.scApply) (h2 : t.scUpd = s.scUpd)
    (h3 : t.scQuit = s.scQuit) (h4 : t.sc = s.sc) : RegInv t := by
  constructor
  · intro id r; rw [h1, h4]; exact h.applyFree id r
  · intro id r; rw [h2, h4]; exact h.updOwner id r
  · intro id; rw [h3, h4]; exact h.quitReg id
  · intro id r; rw [h4]; exact h.scId id r

theorem alGet_none_of_not_has {κ ν : Type} [DecidableEq κ] (l : List (κ × ν)) (k : κ) (h : ¬ alHas l k = true) : alGet l k = none := by
  unfold alHas at h
  cases hg : alGet l k with
  | none => rfl
  | some v => rw [hg] at h; simp at h

theorem RegInv_screg {s : State} (hs : RegInv s) (r : SideChain) (h1 : ¬ alHas s.scApply r.chainId = true)
    (h2 : ¬ alHas s.sc r.chainId = true) : RegInv { s with scApply := alPut s.scApply r.chainId r } := by
  constructor
  · intro id q hq
    by_cases e : id = r.chainId
    · subst e; simp only [alGet_put_self] at hq; injection hq with hq; subst hq
      exact ⟨alGet_none_of_not_has _ _ h2, rfl⟩
    · simp only [alGet_put_ne _ _ _ _ e] at hq; exact hs.applyFree id q hq
  · exact hs.updOwner
  · exact hs.quitReg
  · exact hs.scId

theorem RegInv_scupd {s : State} (hs : RegInv s) (r cur : SideChain) (x : List (Bytes × List Addr))
    (hget : alGet s.sc r.chainId = some cur) (hown : cur.addr = r.addr) :
    RegInv { s with scUpd := alPut s.scUpd r.chainId r, signs := x } := by
  constructor
  · exact hs.applyFree
  · intro id q hq
    by_cases e : id = r.chainId
    · subst e; simp only [alGet_put_self] at hq; injection hq with hq; subst hq
      exact ⟨cur, hget, hown, rfl⟩
    · simp only [alGet_put_ne _ _ _ _ e] at hq; exact hs.updOwner id q hq
  · exact hs.quitReg
  · exact hs.scId

theorem RegInv_scquit {s : State} (hs : RegInv s) (id : Nat) (cur : SideChain) (hget : alGet s.sc id = some cur) :
    RegInv { s with scQuit := s.scQuit ++ [id] } := by
  constructor
  · exact hs.applyFree
  · exact hs.updOwner
  · intro j hj
    simp only [List.mem_append, List.mem_singleton] at hj
    rcases hj with hj | rfl
    · exact hs.quitReg j hj
    · exact ⟨cur, hget⟩
  · exact hs.scId

theorem RegInv_done (H : Bytes → Bytes) (s : State) (op : Op) (o : Out) (ho : plan H s op = .ok (.done o)) (hs : RegInv s) :
    RegInv o.st := by
  cases op <;> plan_cases ho
  all_goals try (exact RegInv_of_eq hs rfl rfl rfl rfl)
  all_goals try (rename_i hcd; rw [commit_frame hcd]; exact RegInv_of_eq hs rfl rfl rfl rfl)
  all_goals first
    | (exact RegInv_screg hs _ (by assumption) (by assumption))
    | (rename_i cur hget hown; exact RegInv_scupd hs _ cur _ hget (by simpa using hown))
    | (rename_i cur hget _ _; exact RegInv_scquit hs _ cur hget)

theorem RegInv_fire_register {t : State} (ht : RegInv t) (id : Nat) (req : SideChain) (hreq : alGet t.scApply id = some req) :
    RegInv { t with sc := alPut t.sc req.chainId req, scApply := alErase t.scApply id } := by
  obtain ⟨hfree, hid⟩ := ht.applyFree id req hreq
  rw [hid]
  constructor
  · intro j q hq
    by_cases e : j = id
    · subst e; simp only [alGet_erase_self] at hq; cases hq
    · simp only [alGet_erase_ne _ _ _ e] at hq
      obtain ⟨h1, h2⟩ := ht.applyFree j q hq
      exact ⟨by simp only [alGet_put_ne _ _ _ _ e]; exact h1, h2⟩
  · intro j q hq
    obtain ⟨cur, h1, h2, h3⟩ := ht.updOwner j q hq
    have e : j ≠ id := by intro e; subst e; rw [hfree] at h1; cases h1
    exact ⟨cur, by simp only [alGet_put_ne _ _ _ _ e]; exact h1, h2, h3⟩
  · intro j hj
    obtain ⟨cur, h1⟩ := ht.quitReg j hj
    have e : j ≠ id := by intro e; subst e; rw [hfree] at h1; cases h1
    exact ⟨cur, by simp only [alGet_put_ne _ _ _ _ e]; exact h1⟩
  · intro j q hq
    by_cases e : j = id
    · subst e; simp only [alGet_put_self] at hq; injection hq with hq; subst hq; exact hid
    · simp only [alGet_put_ne _ _ _ _ e] at hq; exact ht.scId j q hq

theorem RegInv_fire_update {t : State} (ht : RegInv t) (id : Nat) (req : SideChain) (hreq : alGet t.scUpd id = some req) :
    RegInv { t with sc := alPut t.sc req.chainId req, scUpd := alErase t.scUpd id } := by
  obtain ⟨cur, hcur, _, hid⟩ := ht.updOwner id req hreq
  rw [hid]
  constructor
  · intro j q hq
    obtain ⟨h1, h2⟩ := ht.applyFree j q hq
    have e : j ≠ id := by intro e; subst e; rw [hcur] at h1; cases h1
    exact ⟨by simp only [alGet_put_ne _ _ _ _ e]; exact h1, h2⟩
  · intro j q hq
    by_cases e : j = id
    · subst e; simp only [alGet_erase_self] at hq; cases hq
    · simp only [alGet_erase_ne _ _ _ e] at hq
      obtain ⟨c, h1, h2, h3⟩ := ht.updOwner j q hq
      exact ⟨c, by simp only [alGet_put_ne _ _ _ _ e]; exact h1, h2, h3⟩
  · intro j hj
    by_cases e : j = id
    · subst e; exact ⟨req, by simp only [alGet_put_self]⟩
    · obtain ⟨c, h1⟩ := ht.quitReg j hj
      exact ⟨c, by simp only [alGet_put_ne _ _ _ _ e]; exact h1⟩
  · intro j q hq
    by_cases e : j = id
    · subst e; simp only [alGet_put_self] at hq; injection hq with hq; subst hq; exact hid
    · simp only [alGet_put_ne _ _ _ _ e] at hq; exact ht.scId j q hq

theorem RegInv_fire_quit {t : State} (ht : RegInv t) (id : Nat) :
    RegInv { t with scQuit := t.scQuit.filter (fun x => decide (x ≠ id)), scUpd := alErase t.scUpd id, sc := alErase t.sc id } := by
  constructor
  · intro j q hq
    obtain ⟨h1, h2⟩ := ht.applyFree j q hq
    refine ⟨?_, h2⟩
    by_cases e : j = id
    · subst e; exact alGet_erase_self _ _
    · simp only [alGet_erase_ne _ _ _ e]; exact h1
  · intro j q hq
    by_cases e : j = id
    · subst e; simp only [alGet_erase_self] at hq; cases hq
    · simp only [alGet_erase_ne _ _ _ e] at hq ⊢; exact ht.updOwner j q hq
  · intro j hj
    simp only [List.mem_filter, decide_eq_true_eq] at hj
    obtain ⟨c, h1⟩ := ht.quitReg j hj.1
    exact ⟨c, by simp only [alGet_erase_ne _ _ _ hj.2]; exact h1⟩
  · intro j q hq
    by_cases e : j = id
    · subst e; simp only [alGet_erase_self] at hq; cases hq
    · simp only [alGet_erase_ne _ _ _ e] at hq; exact ht.scId j q hq

theorem RegInv_fire (H : Bytes → Bytes) (s : State) (op : Op) (ap : Approval) (s1 s2 : State) (n : String)
    (hap : plan H s op = .ok (.approve ap)) (hs1 : s1 = { s with signs := s1.signs }) (ht : RegInv s1)
    (hf : ap.onFire s1 = .ok (s2, n)) : RegInv s2 := by
  cases op <;> plan_cases hap
  all_goals (dsimp only at hf)
  all_goals try (rw [blackEffect_frame hf]; exact RegInv_of_eq ht rfl rfl rfl rfl; done)
  all_goals try (obtain ⟨akb, _, he⟩ := candidateEffect_shape hf; rw [he]; exact RegInv_of_eq ht rfl rfl rfl rfl; done)
  all_goals try (split at hf)
  all_goals try (cases hf; done)
  all_goals (injection hf with hf; injection hf with hf1 hf2; subst hf1)
  all_goals try (exact RegInv_of_eq ht rfl rfl rfl rfl)
  all_goals first
    | (exact RegInv_fire_quit ht _)
    | (rename_i req hreq; exact RegInv_fire_register ht _ req (by rw [hs1]; exact hreq))
    | (rename_i req hreq; exact RegInv_fire_update ht _ req (by rw [hs1]; exact hreq))

theorem RegInv_step (H : Bytes → Bytes) (s : State) (op : Op) (h : RegInv s) : RegInv (step H s op) := by
  apply step_preserves H RegInv s op
  · intro t x ht; exact RegInv_of_eq ht rfl rfl rfl rfl
  · intro o ho hs; exact RegInv_done H s op o ho hs
  · intro ap hap s1 s2 n hs1 ht hf; exact RegInv_fire H s op ap s1 s2 n hap hs1 ht hf
  · exact h

theorem RegInv_init : RegInv {} := by
  constructor
  · intro id r h; cases h
  · intro id r h; cases h
  · intro id h; cases h
  · intro id r h; cases h

/-- Handlers that finish by themselves never change the registry of registered chains. -/
theorem sc_done (H : Bytes → Bytes) (s : State) (op : Op) (o : Out) (ho : plan H s op = .ok (.done o)) : o.st.sc = s.sc := by
  cases op <;> plan_cases ho
  all_goals try rfl
  all_goals (rename_i hcd; rw [commit_frame hcd])

/-- An approved action changes the registry entry `id` only if it is one of the three side-chain approvals of `id`. -/
theorem sc_fire (H : Bytes → Bytes) (s : State) (op : Op) (ap : Approval) (s1 s2 : State) (n : String) (id : Nat)
    (hap : plan H s op = .ok (.approve ap)) (hs1 : s1 = { s with signs := s1.signs }) (ht : RegInv s1)
    (hop : ∀ sg a, op ≠ .scappr sg id a ∧ op ≠ .scapprupd sg id a ∧ op ≠ .scapprquit sg id a)
    (hf : ap.onFire s1 = .ok (s2, n)) : alGet s2.sc id = alGet s1.sc id := by
  cases op <;> plan_cases hap
  all_goals (dsimp only at hf)
  all_goals try (rw [blackEffect_frame hf]; done)
  all_goals try (obtain ⟨akb, _, he⟩ := candidateEffect_shape hf; rw [he]; done)
  all_goals try (split at hf)
  all_goals try (cases hf; done)
  all_goals (injection hf with hf; injection hf with hf1 hf2; subst hf1)
  all_goals try rfl
  all_goals simp only
  all_goals first
    | (rw [alGet_erase_ne]; intro e; subst e; exact (hop _ _).2.2 rfl)
    | (rename_i req hreq
       have hid := (ht.applyFree _ req (by rw [hs1]; exact hreq)).2
       rw [hid, alGet_put_ne]; intro e; subst e; exact (hop _ _).1 rfl)
    | (rename_i req hreq
       obtain ⟨_, _, _, hid⟩ := ht.updOwner _ req (by rw [hs1]; exact hreq)
       rw [hid, alGet_put_ne]; intro e; subst e; exact (hop _ _).2.1 rfl)

/-- The registry entry of a chain id changes only through the three approvals for that id. -/
theorem sc_frame (H : Bytes → Bytes) (s : State) (op : Op) (id : Nat) (hinv : RegInv s)
    (hop : ∀ sg a, op ≠ .scappr sg id a ∧ op ≠ .scapprupd sg id a ∧ op ≠ .scapprquit sg id a) :
    alGet (step H s op).sc id = alGet s.sc id := by
  rcases step_cases H s op with e | ⟨o, hp, e⟩ | ⟨ap, s1, ev, hp, hc, e⟩ | ⟨ap, s1, ev, s2, n, hp, hc, hf, e⟩
  · rw [e]
  · rw [e, sc_done H s op o hp]
  · rw [e, ccs_frame H hc]
  · rw [e]
    have hs1 := ccs_frame H hc
    have ht : RegInv s1 := by rw [hs1]; exact RegInv_of_eq hinv rfl rfl rfl rfl
    rw [sc_fire H s op ap s1 s2 n id hp hs1 ht hop hf, hs1]

/-- Without an applied approval the registry of registered chains does not change at all. -/
theorem sc_unchanged_unless_applied (H : Bytes → Bytes) (s : State) (op : Op) (h : applied H s op = false) :
    (step H s op).sc = s.sc := by
  rcases step_cases H s op with e | ⟨o, hp, e⟩ | ⟨ap, s1, ev, hp, hc, e⟩ | ⟨ap, s1, ev, s2, n, hp, hc, hf, e⟩
  · rw [e]
  · rw [e, sc_done H s op o hp]
  · rw [e, ccs_frame H hc]
  · have : applied H s op = true := (applied_iff H s op).2 ⟨ap, s1, ev, s2, n, hp, hc, hf⟩
    rw [h] at this; cases this

end Poly.Model.Gov
