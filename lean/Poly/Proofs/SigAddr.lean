import Poly.Model.SigAddr
/-!
Helper lemmas for the byte-level address model of C39. Core only.
-/
namespace Poly.Proofs.SigAddr
open Poly.Model.SigAddr

theorem ordLe_total (a b : Ord) : ordLe a b = true ∨ ordLe b a = true := by
  obtain ⟨a1, a2, a3, a4⟩ := a; obtain ⟨b1, b2, b3, b4⟩ := b
  simp only [ordLe, Bool.or_eq_true, Bool.and_eq_true, decide_eq_true_eq, beq_iff_eq]
  omega

theorem ordLe_trans (a b c : Ord) (h1 : ordLe a b = true) (h2 : ordLe b c = true) : ordLe a c = true := by
  obtain ⟨a1, a2, a3, a4⟩ := a; obtain ⟨b1, b2, b3, b4⟩ := b; obtain ⟨c1, c2, c3, c4⟩ := c
  simp only [ordLe, Bool.or_eq_true, Bool.and_eq_true, decide_eq_true_eq, beq_iff_eq] at h1 h2 ⊢
  omega

theorem ordLe_antisymm (a b : Ord) (h1 : ordLe a b = true) (h2 : ordLe b a = true) : a = b := by
  obtain ⟨a1, a2, a3, a4⟩ := a; obtain ⟨b1, b2, b3, b4⟩ := b
  simp only [ordLe, Bool.or_eq_true, Bool.and_eq_true, decide_eq_true_eq, beq_iff_eq] at h1 h2
  simp only [Prod.mk.injEq]
  omega

section
variable {K : Type} (ser : K → Bytes) (ord : K → Ord)

theorem insertKey_perm (k : K) (l : List K) : (insertKey ord k l).Perm (k :: l) := by
  induction l with
  | nil => exact List.Perm.refl _
  | cons x r ih =>
    unfold insertKey; split
    · exact List.Perm.refl _
    · exact (List.Perm.cons x ih).trans (List.Perm.swap k x r)

theorem sortKeys_perm (l : List K) : (sortKeys ord l).Perm l := by
  induction l with
  | nil => exact List.Perm.refl _
  | cons k r ih => unfold sortKeys; exact (insertKey_perm ord k _).trans (List.Perm.cons k ih)

def SortedK (l : List K) : Prop := l.Pairwise fun a b => ordLe (ord a) (ord b) = true

theorem insertKey_sorted (k : K) (l : List K) (h : SortedK ord l) : SortedK ord (insertKey ord k l) := by
  induction l with
  | nil => simp [insertKey, SortedK]
  | cons x r ih =>
    have hp := List.pairwise_cons.mp h
    unfold insertKey; split
    · rename_i hkx
      refine List.pairwise_cons.mpr ⟨?_, h⟩
      intro y hy
      rcases List.mem_cons.mp hy with rfl | hy
      · exact hkx
      · exact ordLe_trans _ _ _ hkx (hp.1 y hy)
    · rename_i hkx
      have hxk : ordLe (ord x) (ord k) = true := by
        rcases ordLe_total (ord k) (ord x) with h1 | h1
        · exact absurd h1 hkx
        · exact h1
      refine List.pairwise_cons.mpr ⟨?_, ih hp.2⟩
      intro y hy
      rcases List.mem_cons.mp ((insertKey_perm ord k r).mem_iff.mp hy) with rfl | hy
      · exact hxk
      · exact hp.1 y hy

theorem sortKeys_sorted (l : List K) : SortedK ord (sortKeys ord l) := by
  induction l with
  | nil => simp [sortKeys, SortedK]
  | cons k r ih => unfold sortKeys; exact insertKey_sorted ord k _ ih

/-- The sequence of compared quadruples after sorting depends only on the multiset of keys. -/
theorem sortKeys_ord_perm (l₁ l₂ : List K) (h : l₁.Perm l₂) :
    (sortKeys ord l₁).map ord = (sortKeys ord l₂).map ord := by
  apply List.Perm.eq_of_pairwise (le := fun a b => ordLe a b = true)
  · intro a b _ _ h1 h2; exact ordLe_antisymm a b h1 h2
  · exact List.pairwise_map.mpr (sortKeys_sorted ord l₁)
  · exact List.pairwise_map.mpr (sortKeys_sorted ord l₂)
  · exact ((sortKeys_perm ord l₁).trans (h.trans (sortKeys_perm ord l₂).symm)).map ord

theorem map_ser_of_map_ord (hser : ∀ a b, ord a = ord b → ser a = ser b) (l₁ l₂ : List K)
    (h : l₁.map ord = l₂.map ord) : l₁.map ser = l₂.map ser := by
  induction l₁ generalizing l₂ with
  | nil => cases l₂ <;> simp_all
  | cons a r ih =>
    cases l₂ with
    | nil => simp at h
    | cons b s =>
      simp only [List.map_cons, List.cons.injEq] at h ⊢
      exact ⟨hser a b h.1, ih s h.2⟩

theorem flatMap_eq_of_map_ser (l₁ l₂ : List K) (h : l₁.map ser = l₂.map ser) :
    l₁.flatMap (fun k => varBytes (ser k)) = l₂.flatMap (fun k => varBytes (ser k)) := by
  have e : ∀ l : List K, l.flatMap (fun k => varBytes (ser k)) = (l.map ser).flatMap varBytes := by
    intro l; rw [List.flatMap_map]
  rw [e, e, h]

/-- The program (hence the address) of a multi-key entry does not depend on the order in which its keys are listed. -/
theorem encodeMulti_perm (hser : ∀ a b, ord a = ord b → ser a = ser b) (k₁ k₂ : List K) (h : k₁.Perm k₂) (m : Nat) :
    encodeMulti ser ord k₁ m = encodeMulti ser ord k₂ m := by
  unfold encodeMulti
  simp only [h.length_eq]
  split
  · rw [flatMap_eq_of_map_ser ser _ _ (map_ser_of_map_ord ser ord hser _ _ (sortKeys_ord_perm ord k₁ k₂ h))]
  · rfl
end

theorem ofNat_inj_lt (a b : Nat) (ha : a < 256) (hb : b < 256) (h : UInt8.ofNat a = UInt8.ofNat b) : a = b := by
  have := congrArg UInt8.toNat h
  simp only [UInt8.toNat_ofNat'] at this
  omega

theorem u16_inj (a b : Nat) (ha : a < 65536) (hb : b < 65536) (h : u16 a = u16 b) : a = b := by
  simp only [u16, List.cons.injEq, and_true] at h
  have h1 := ofNat_inj_lt _ _ (by omega) (by omega) h.1
  have h2 := ofNat_inj_lt _ _ (by omega) (by omega) h.2
  omega

theorem varBytes_short (b : Bytes) (h : b.length < 0xFD) : varBytes b = UInt8.ofNat b.length :: b := by
  simp [varBytes, varUint, h]

/-- Unique parsing of a sequence of length-prefixed chunks (each shorter than 0xFD bytes). -/
theorem chunks_inj (l₁ l₂ : List Bytes) (r₁ r₂ : Bytes) (hl : l₁.length = l₂.length)
    (h1 : ∀ b ∈ l₁, b.length < 0xFD) (h2 : ∀ b ∈ l₂, b.length < 0xFD)
    (h : l₁.flatMap varBytes ++ r₁ = l₂.flatMap varBytes ++ r₂) : l₁ = l₂ ∧ r₁ = r₂ := by
  induction l₁ generalizing l₂ with
  | nil =>
    cases l₂ with
    | nil => simpa using h
    | cons _ _ => simp at hl
  | cons a s ih =>
    cases l₂ with
    | nil => simp at hl
    | cons b t =>
      have ha := h1 a List.mem_cons_self
      have hb := h2 b List.mem_cons_self
      simp only [List.flatMap_cons, varBytes_short a ha, varBytes_short b hb, List.cons_append, List.append_assoc,
        List.cons.injEq] at h
      have hlen : a.length = b.length := ofNat_inj_lt _ _ (by omega) (by omega) h.1
      obtain ⟨e1, e2⟩ := List.append_inj h.2 hlen
      obtain ⟨i1, i2⟩ := ih t (by simpa using hl) (fun x hx => h1 x (List.mem_cons_of_mem _ hx))
        (fun x hx => h2 x (List.mem_cons_of_mem _ hx)) e2
      exact ⟨by rw [e1, i1], i2⟩

section
variable {K : Type} (ser : K → Bytes) (ord : K → Ord)

/-- Injectivity of the program encoding: equal program bytes come from the same m and the same sorted sequence of
    serialized keys (all supported key serializations are shorter than 0xFD bytes). -/
theorem encodeMulti_inj (k₁ k₂ : List K) (m₁ m₂ : Nat) (p : Bytes)
    (hs₁ : ∀ k ∈ k₁, (ser k).length < 0xFD) (hs₂ : ∀ k ∈ k₂, (ser k).length < 0xFD)
    (hm₁ : m₁ < 65536) (hm₂ : m₂ < 65536)
    (e₁ : encodeMulti ser ord k₁ m₁ = some p) (e₂ : encodeMulti ser ord k₂ m₂ = some p) :
    m₁ = m₂ ∧ (sortKeys ord k₁).map ser = (sortKeys ord k₂).map ser := by
  unfold encodeMulti at e₁ e₂
  simp only at e₁ e₂
  split at e₁
  case isFalse => simp at e₁
  split at e₂
  case isFalse => simp at e₂
  rename_i c1 c2
  simp only [Option.some.injEq, MULTI_SIG_MAX_PUBKEY_SIZE] at e₁ e₂ c1 c2
  have hp := e₁.trans e₂.symm
  rw [List.append_assoc, List.append_assoc] at hp
  obtain ⟨hn1, hbody⟩ := List.append_inj hp (by simp [u16])
  have hlen : k₁.length = k₂.length := u16_inj _ _ (by omega) (by omega) hn1
  have e : ∀ l : List K, l.flatMap (fun k => varBytes (ser k)) = (l.map ser).flatMap varBytes := by
    intro l; rw [List.flatMap_map]
  rw [e, e] at hbody
  have hmem : ∀ (ks : List K), (∀ k ∈ ks, (ser k).length < 0xFD) → ∀ b ∈ (sortKeys ord ks).map ser, b.length < 0xFD := by
    intro ks hks b hb
    obtain ⟨k, hk, rfl⟩ := List.mem_map.mp hb
    exact hks k ((sortKeys_perm ord ks).mem_iff.mp hk)
  have hl2 : ((sortKeys ord k₁).map ser).length = ((sortKeys ord k₂).map ser).length := by
    simp only [List.length_map]
    rw [(sortKeys_perm ord k₁).length_eq, (sortKeys_perm ord k₂).length_eq, hlen]
  obtain ⟨r1, r2⟩ := chunks_inj _ _ _ _ hl2 (hmem k₁ hs₁) (hmem k₂ hs₂) hbody
  exact ⟨u16_inj _ _ hm₁ hm₂ r2, r1⟩
end

end Poly.Proofs.SigAddr
