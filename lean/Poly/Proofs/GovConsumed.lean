import Poly.Proofs.GovReq
/-! An applied approval needs its request to be pending and removes it (C33). -/
namespace Poly.Model.Gov

/-- The applied action removed the request it was approved for. -/
theorem consumed_aux (H : Bytes → Bytes) (s : State) (op : Op) (ap : Approval) (q : Req) (s1 s2 : State) (n : String)
    (h : plan H s op = .ok (.approve ap)) (ha : approves op = some q)
    (hcanon : ∀ kb pk, alGet s.apply kb = some pk → decodePk pk.1 = some kb)
    (hf : ap.onFire s1 = .ok (s2, n)) : pending s2 q = false := by
  cases op <;> simp only [approves] at ha <;> try (cases ha; done)
  all_goals plan_cases h
  all_goals (dsimp only at hf)
  all_goals try (split at hf)
  all_goals try (cases hf; done)
  -- candidate: the request is stored under the decoded key of the string it carries
  all_goals try (
    obtain ⟨akb, hd, he⟩ := candidateEffect_shape hf
    rename_i b hb _ apk aaddr hget
    have hk := hcanon b (apk, aaddr) hget
    simp only at hk
    rw [hd] at hk; injection hk with hk; subst hk
    rw [hb] at ha; simp only [Option.map] at ha; injection ha with ha; subst ha
    rw [he]; simp only [pending]; exact alHas_erase_self _ _)
  all_goals (injection hf with hf; injection hf with hf1 hf2; subst hf1; injection ha with ha; subst ha; simp only [pending])
  all_goals try (exact alHas_erase_self _ _)
  all_goals (simp only [List.contains_eq_mem, List.mem_filter, decide_eq_false_iff_not]; intro hmem; simpa using hmem.2)

/-- An action is applied only for a request that is pending. -/
theorem needs_pending_aux (H : Bytes → Bytes) (s : State) (op : Op) (ap : Approval) (q : Req) (s1 s2 : State) (n : String)
    (h : plan H s op = .ok (.approve ap)) (ha : approves op = some q) (hs1 : s1 = { s with signs := s1.signs })
    (hf : ap.onFire s1 = .ok (s2, n)) : pending s q = true := by
  cases op <;> simp only [approves] at ha <;> try (cases ha; done)
  all_goals plan_cases h
  all_goals (dsimp only at hf)
  all_goals try (split at hf)
  all_goals try (cases hf; done)
  all_goals try (rename_i hb _ _ _ hget; rw [hb] at ha; simp only [Option.map] at ha; injection ha with ha; subst ha; simp only [pending, alHas, hget]; rfl)
  all_goals (injection ha with ha; subst ha; simp only [pending])
  all_goals try (rename_i hget; simp only [alHas, hget]; rfl)
  all_goals try (rename_i hget; simpa using hget)
  all_goals (simp [alHas, *])

/-- Candidate requests are stored under the decoded bytes of the public key string they carry. -/
def ApplyCanon (s : State) : Prop := ∀ kb pk, alGet s.apply kb = some pk → decodePk pk.1 = some kb

theorem ApplyCanon_erase {s : State} (h : ApplyCanon s) (k : Bytes) : ∀ kb pk, alGet (alErase s.apply k) kb = some pk → decodePk pk.1 = some kb := by
  intro kb pk hg
  by_cases e : kb = k
  · subst e; rw [alGet_erase_self] at hg; cases hg
  · rw [alGet_erase_ne _ _ _ e] at hg; exact h kb pk hg

theorem ApplyCanon_step (H : Bytes → Bytes) (s : State) (op : Op) (h : ApplyCanon s) : ApplyCanon (step H s op) := by
  apply step_preserves H ApplyCanon s op
  · intro t x ht; exact ht
  · intro o ho hs
    cases op <;> plan_cases ho
    all_goals try (exact hs)
    all_goals try (rename_i hcd; rw [commit_frame hcd]; exact hs)
    all_goals try (exact ApplyCanon_erase hs _)
    all_goals (
      rename_i b hb _ _ _ _ _ _ _
      intro kb pk hg
      by_cases e : kb = b
      · subst e; simp only [alGet_put_self] at hg; injection hg with hg; subst hg; exact hb
      · simp only [alGet_put_ne _ _ _ _ e] at hg; exact hs kb pk hg)
  · intro ap hap s1 s2 n _ hs1 hf
    cases op <;> plan_cases hap
    all_goals (dsimp only at hf)
    all_goals try (rw [blackEffect_frame hf]; exact hs1; done)
    all_goals try (obtain ⟨akb, _, he⟩ := candidateEffect_shape hf; rw [he]; exact ApplyCanon_erase hs1 _; done)
    all_goals try (split at hf)
    all_goals try (cases hf; done)
    all_goals (injection hf with hf; injection hf with hf1 hf2; subst hf1; exact hs1)
  · exact h

end Poly.Model.Gov
