import Poly.Model.LCPosa
/-! Helper lemmas for the PoSA light-client model (C29). Core only. -/
namespace Poly.Proofs.LCPosa
open Poly.Model.LCPosa

theorem upd_same {α : Type} (f : Nat → Option α) (k : Nat) (v : Option α) : upd f k v k = v := by
  simp [upd]

theorem upd_other {α : Type} (f : Nat → Option α) (k : Nat) (v : Option α) (x : Nat) (h : x ≠ k) :
    upd f k v x = f x := by
  simp [upd, h]

/-! ## Invariant vocabulary -/

/-- the stored record of the trust root -/
def rootOf (g : Genesis) : Stored := ⟨g.hdr, g.hdr.difficulty, none⟩

/-- hash of the first announcement of `epochs g l` -/
def firstEpochId (g : Genesis) : List Stored → Id
  | [] => g.hdr.id
  | [_] => g.hdr.id
  | s :: t :: rest => if s.hdr.isEpoch then s.hdr.id else firstEpochId g (t :: rest)

/-- fixed-format fields of an accepted header -/
structure WF (h : Hdr) : Prop where
  len : extraVanity + extraSeal ≤ h.extra.length
  mult : (h.extra.length - (extraVanity + extraSeal)) % addrLen = 0
  mix : h.mixZero = true
  uncle : h.uncleOk = true
  diff : h.difficulty = diffInTurn ∨ h.difficulty = diffNoTurn
  gasUsed : h.gasUsed ≤ h.gasLimit
  gasCap : h.gasLimit ≤ gasCap

/-- in-turn / no-turn difficulty with respect to the set `V` -/
def TurnOK (V : List Addr) (h : Hdr) : Prop :=
  (V[h.number % V.length]? = some h.coinbase → h.difficulty = diffInTurn) ∧
  (V[h.number % V.length]? ≠ some h.coinbase → h.difficulty = diffNoTurn)

/-- "can not change epoch continuously", as coded per router -/
def EpochGuard (R : Router) (g : Genesis) (h : Hdr) (l : List Stored) : Prop :=
  h.isEpoch = true →
    match epochs g l with
    | e1 :: e2 :: _ =>
      (R.delayed = true → e2.vals.length / 2 < h.number - e1.height) ∧
      (R.delayed = false → R.guardPhv = true → e1.vals.length / 2 < h.number - e1.height)
    | _ => True

/-- `s` sits on top of the ancestors `l`: the first of them has the preceding number, and total difficulties add up -/
abbrev Link (s : Stored) (l : List Stored) : Prop :=
  ∃ p rest, l = p :: rest ∧ p.hdr.number + 1 = s.hdr.number ∧ s.td = s.hdr.difficulty + p.td

/-- a per-member chain predicate that provides the parent link -/
class HasLink (G : Stored → List Stored → Prop) : Prop where
  link : ∀ {s l}, G s l → Link s l

/-- What acceptance of `s` on top of the ancestors `l` (parent first, trust root last) established. -/
structure Good (R : Router) (g : Genesis) (s : Stored) (l : List Stored) : Prop where
  link : Link s l
  epochParent : s.epochParent = some (firstEpochId g l)
  sealOk : s.hdr.signer = some s.hdr.coinbase
  member : s.hdr.coinbase ∈ inEffect R g s.hdr.number l
  recent : ∀ a ∈ l.take ((inEffect R g s.hdr.number l).length / 2), a.hdr.coinbase ≠ s.hdr.coinbase
  turn : TurnOK (inEffect R g s.hdr.number l) s.hdr
  wf : WF s.hdr
  guard : EpochGuard R g s.hdr l

instance (R : Router) (g : Genesis) : HasLink (Good R g) := ⟨fun h => h.link⟩

/-- `Chain` whose members above the trust root all satisfy `G` with respect to their own ancestors. -/
inductive GChainP (G : Stored → List Stored → Prop) (st : St) (g : Genesis) : Id → List Stored → Prop
  | root : st.hdrs g.hdr.id = some (rootOf g) → GChainP G st g g.hdr.id [rootOf g]
  | step (id : Id) (s : Stored) (l : List Stored) :
      id ≠ g.hdr.id → st.hdrs id = some s → s.hdr.id = id → GChainP G st g s.hdr.parent l → G s l →
      GChainP G st g id (s :: l)

/-- the chains of the parlia / congress routers -/
abbrev GChain (R : Router) (st : St) (g : Genesis) : Id → List Stored → Prop := GChainP (Good R g) st g

structure GenOK (g : Genesis) : Prop where
  numPos : 0 < g.hdr.number
  pv0 : g.pv0 = ⟨g.hdr.number, g.hdr.vals, none⟩
  valsNe : g.hdr.vals ≠ []
  epoch : g.hdr.isEpoch = true
  mult : (g.hdr.extra.length - (extraVanity + extraSeal)) % addrLen = 0

structure CanonInv (st : St) (g : Genesis) : Prop where
  head : ∃ hs, st.canon st.height = some hs.hdr.id ∧ st.hdrs hs.hdr.id = some hs ∧ hs.hdr.number = st.height ∧
    ∀ id s, st.hdrs id = some s → s.td ≤ hs.td
  above : ∀ i, st.height < i → st.canon i = none
  below : ∀ i, i < g.hdr.number → st.canon i = none
  root : st.canon g.hdr.number = some g.hdr.id ∧ g.hdr.number ≤ st.height
  link : ∀ i, g.hdr.number < i → i ≤ st.height →
    ∃ s, st.canon i = some s.hdr.id ∧ st.hdrs s.hdr.id = some s ∧ s.hdr.number = i ∧ st.canon (i - 1) = some s.hdr.parent

structure Inv (R : Router) (st : St) : Prop where
  noGen : st.genesis = none → (∀ id, st.hdrs id = none) ∧ (∀ i, st.canon i = none)
  gen : ∀ g, st.genesis = some g →
    GenOK g ∧ st.hdrs g.hdr.id = some (rootOf g) ∧
    (∀ id s, st.hdrs id = some s → ∃ l, GChain R st g id (s :: l)) ∧ CanonInv st g

/-! ## Chains -/

theorem GChainP.mono {G : Stored → List Stored → Prop} {st st' : St} {g : Genesis}
    (hext : ∀ id s, st.hdrs id = some s → st'.hdrs id = some s) :
    ∀ {id l}, GChainP G st g id l → GChainP G st' g id l := by
  intro id l h
  induction h with
  | root h0 => exact .root (hext _ _ h0)
  | step id s l hne hs hid _ hg ih => exact .step id s l hne (hext _ _ hs) hid ih hg

theorem GChainP.ne_nil {G : Stored → List Stored → Prop} {st : St} {g : Genesis} {id : Id} {l : List Stored}
    (h : GChainP G st g id l) : l ≠ [] := by
  cases h <;> simp

theorem GChainP.head_id {G : Stored → List Stored → Prop} {st : St} {g : Genesis} {id : Id} {s : Stored} {l : List Stored}
    (h : GChainP G st g id (s :: l)) : s.hdr.id = id ∧ st.hdrs id = some s := by
  cases h with
  | root h0 => exact ⟨rfl, h0⟩
  | step _ _ _ _ hs hid _ _ => exact ⟨hid, hs⟩

theorem GChainP.functional {G : Stored → List Stored → Prop} {st : St} {g : Genesis} :
    ∀ {id l l'}, GChainP G st g id l → GChainP G st g id l' → l = l' := by
  intro id l l' h
  induction h generalizing l' with
  | root h0 =>
    intro h'
    cases h' with
    | root _ => rfl
    | step _ _ _ hne _ _ _ _ => exact absurd rfl hne
  | step id s l hne hs hid _ hg ih =>
    intro h'
    cases h' with
    | root _ => exact absurd rfl hne
    | step _ s' l'' _ hs' _ hc' _ =>
      have : s = s' := by rw [hs] at hs'; exact Option.some.inj hs'
      subst this
      rw [ih hc']

/-- inversion of a chain above the trust root -/
theorem GChainP.inv_step {G : Stored → List Stored → Prop} {st : St} {g : Genesis} {id : Id} {s : Stored} {l : List Stored}
    (h : GChainP G st g id (s :: l)) (hne : id ≠ g.hdr.id) :
    st.hdrs id = some s ∧ s.hdr.id = id ∧ GChainP G st g s.hdr.parent l ∧ G s l := by
  cases h with
  | root _ => exact absurd rfl hne
  | step _ _ _ _ hs hid hc hg => exact ⟨hs, hid, hc, hg⟩

/-- a chain that starts at the trust root's hash is the trust root alone -/
theorem GChainP.at_root {G : Stored → List Stored → Prop} {st : St} {g : Genesis} {l : List Stored}
    (h : GChainP G st g g.hdr.id l) : l = [rootOf g] := by
  cases h with
  | root _ => rfl
  | step _ _ _ hne _ _ _ _ => exact absurd rfl hne

/-- every member of a chain is stored under its own hash and heads a chain of its own -/
theorem GChainP.suffix {G : Stored → List Stored → Prop} {st : St} {g : Genesis} :
    ∀ {id l}, GChainP G st g id l → ∀ pre a suf, l = pre ++ a :: suf → GChainP G st g a.hdr.id (a :: suf) := by
  intro id l h
  induction h with
  | root h0 =>
    intro pre a suf hl
    cases pre with
    | nil => simp at hl; obtain ⟨rfl, rfl⟩ := hl; exact .root h0
    | cons x xs => simp at hl
  | step id s l hne hs hid hc hg ih =>
    intro pre a suf hl
    cases pre with
    | nil =>
      simp at hl
      obtain ⟨rfl, rfl⟩ := hl
      rw [hid]
      exact .step id s l hne hs hid hc hg
    | cons x xs =>
      simp at hl
      exact ih xs a suf hl.2

theorem GChainP.mem_stored {G : Stored → List Stored → Prop} {st : St} {g : Genesis} {id : Id} {l : List Stored}
    (h : GChainP G st g id l) {a : Stored} (ha : a ∈ l) : st.hdrs a.hdr.id = some a := by
  obtain ⟨pre, suf, hl⟩ := List.append_of_mem ha
  exact (h.suffix pre a suf hl).head_id.2

/-- numbers go down by one along a chain: the element at position `i` has number `head number - i` -/
theorem GChainP.number_at {G : Stored → List Stored → Prop} [HasLink G] {st : St} {g : Genesis} :
    ∀ {id l}, GChainP G st g id l → ∀ s rest, l = s :: rest → ∀ i a, l[i]? = some a → a.hdr.number + i = s.hdr.number := by
  intro id l h
  induction h with
  | root h0 =>
    intro s rest hl i a hi
    cases i with
    | zero => simp at hl hi; rw [← hl.1, ← hi]; simp
    | succ n => simp at hi
  | step id s l hne hs hid hc hg ih =>
    intro s' rest hl i a hi
    simp at hl
    obtain ⟨rfl, rfl⟩ := hl
    cases i with
    | zero => simp at hi; rw [← hi]; simp
    | succ n =>
      simp at hi
      obtain ⟨p, rest', hl', hnum, _⟩ := (HasLink.link hg)
      have := ih p rest' hl' n a hi
      omega

/-- the last member of a chain is the trust root -/
theorem GChainP.last_root {G : Stored → List Stored → Prop} {st : St} {g : Genesis} :
    ∀ {id l}, GChainP G st g id l → l.getLast? = some (rootOf g) := by
  intro id l h
  induction h with
  | root _ => rfl
  | step id s l _ _ _ hc _ ih =>
    have := hc.ne_nil
    cases l with
    | nil => exact absurd rfl this
    | cons x xs => simpa using ih

/-- all numbers on a chain are at least the trust root's -/
theorem GChainP.number_ge {G : Stored → List Stored → Prop} [HasLink G] {st : St} {g : Genesis} :
    ∀ {id l}, GChainP G st g id l → ∀ a ∈ l, g.hdr.number ≤ a.hdr.number := by
  intro id l h
  induction h with
  | root _ => intro a ha; simp at ha; subst ha; simp [rootOf]
  | step id s l _ _ _ hc hg ih =>
    intro a ha
    rcases List.mem_cons.mp ha with rfl | ha
    · obtain ⟨p, rest, hl, hnum, _⟩ := (HasLink.link hg)
      have := ih p (by rw [hl]; exact List.mem_cons_self)
      omega
    · exact ih a ha

/-- members of a chain other than the last differ from the trust root's hash -/
theorem GChainP.length_eq {G : Stored → List Stored → Prop} [HasLink G] {st : St} {g : Genesis} :
    ∀ {id l}, GChainP G st g id l → ∀ s rest, l = s :: rest → s.hdr.number = g.hdr.number + rest.length := by
  intro id l h
  induction h with
  | root _ => intro s rest hl; simp at hl; obtain ⟨rfl, rfl⟩ := hl; simp [rootOf]
  | step id s l _ _ _ hc hg ih =>
    intro s' rest hl
    simp at hl
    obtain ⟨rfl, rfl⟩ := hl
    obtain ⟨p, rest', hl', hnum, _⟩ := (HasLink.link hg)
    have := ih p rest' hl'
    subst hl'
    simp
    omega

/-! ## Validator bytes -/

theorem valBytes_length (h : Hdr) (hl : extraVanity + extraSeal ≤ h.extra.length) :
    h.valBytes.length = h.extra.length - (extraVanity + extraSeal) := by
  simp [Hdr.valBytes, extraVanity, extraSeal] at *
  omega

theorem parse_ok (h : Hdr) (hl : extraVanity + extraSeal ≤ h.extra.length)
    (hm : (h.extra.length - (extraVanity + extraSeal)) % addrLen = 0) :
    parseValidators h.valBytes = some h.vals := by
  have := valBytes_length h hl
  simp [parseValidators, Hdr.vals, this, hm]

theorem chunks20_length (n : Nat) (bs : List UInt8) : (chunks20 n bs).length = n := by
  induction n generalizing bs with
  | zero => rfl
  | succ n ih => simp [chunks20, ih]

theorem vals_length (h : Hdr) (hl : extraVanity + extraSeal ≤ h.extra.length) :
    h.vals.length = (h.extra.length - (extraVanity + extraSeal)) / addrLen := by
  simp [Hdr.vals, chunks20_length, valBytes_length h hl]

/-- an announcing header (extra longer than vanity + seal, validator bytes a multiple of 20) announces at least one validator -/
theorem vals_ne_nil (h : Hdr) (he : h.isEpoch = true)
    (hm : (h.extra.length - (extraVanity + extraSeal)) % addrLen = 0) : h.vals ≠ [] := by
  simp [Hdr.isEpoch] at he
  have hl : extraVanity + extraSeal ≤ h.extra.length := by omega
  have := vals_length h hl
  intro hn
  rw [hn] at this
  simp [addrLen, extraVanity, extraSeal] at *
  omega

/-! ## Announcements along a chain -/

def hvEpoch (s : Stored) : HV := ⟨s.hdr.number, s.hdr.vals, some s.hdr.id⟩
def hvRoot (g : Genesis) : HV := { g.pv0 with hash := some g.hdr.id }

/-- Shape of `epochs` / `firstEpochId` on a chain: either no member above the trust root announces validators, or the
first such member `s` heads a chain of its own. -/
theorem epochs_cases {R : Router} {st : St} {g : Genesis} :
    ∀ {id l}, GChain R st g id l →
      (firstEpochId g l = g.hdr.id ∧ epochs g l = [hvRoot g, g.pv1]) ∨
      (∃ s suf, firstEpochId g l = s.hdr.id ∧ s.hdr.id ≠ g.hdr.id ∧ s.hdr.isEpoch = true ∧
        GChain R st g s.hdr.id (s :: suf) ∧ epochs g l = hvEpoch s :: epochs g suf) := by
  intro id l h
  induction h with
  | root _ => left; simp [firstEpochId, epochs, hvRoot]
  | step id s l hne hs hid hc hg ih =>
    have hne' := hc.ne_nil
    cases l with
    | nil => exact absurd rfl hne'
    | cons t rest =>
      by_cases he : s.hdr.isEpoch = true
      · right
        refine ⟨s, t :: rest, ?_, ?_, he, ?_, ?_⟩
        · simp [firstEpochId, he]
        · rw [hid]; exact hne
        · rw [hid]; exact .step id s _ hne hs hid hc hg
        · simp [epochs, he, hvEpoch]
      · have he' : s.hdr.isEpoch = false := by simpa using he
        rcases ih with ⟨h1, h2⟩ | ⟨s1, suf, h1, h2, h3, h4, h5⟩
        · left
          simp [firstEpochId, epochs, he', h1, h2]
        · right
          exact ⟨s1, suf, by simp [firstEpochId, he', h1], h2, h3, h4, by simp [epochs, he', h5]⟩

theorem epochs_two {R : Router} {st : St} {g : Genesis} {id : Id} {l : List Stored} (h : GChain R st g id l) :
    ∃ e1 e2 tl, epochs g l = e1 :: e2 :: tl ∧ e1.hash = some (firstEpochId g l) := by
  induction h with
  | root _ => exact ⟨_, _, _, rfl, rfl⟩
  | step id s l hne hs hid hc hg ih =>
    have hne' := hc.ne_nil
    cases l with
    | nil => exact absurd rfl hne'
    | cons t rest =>
      obtain ⟨e1, e2, tl, he, hh⟩ := ih
      by_cases hep : s.hdr.isEpoch = true
      · exact ⟨hvEpoch s, e1, e2 :: tl, by simp [epochs, hep, he, hvEpoch], by simp [firstEpochId, hep, hvEpoch]⟩
      · have he' : s.hdr.isEpoch = false := by simpa using hep
        exact ⟨e1, e2, tl, by simp [epochs, he', he], by simp [firstEpochId, he', hh]⟩

/-- members of a chain above the trust root are well formed -/
theorem GChain.head_wf {R : Router} {st : St} {g : Genesis} {id : Id} {s : Stored} {l : List Stored}
    (h : GChain R st g id (s :: l)) (hne : id ≠ g.hdr.id) : WF s.hdr := (h.inv_step hne).2.2.2.wf

/-! ## The walk over `EpochParentHash` links finds the first two announcements -/

theorem announce_epoch_none (s : Stored) (hwf : WF s.hdr) (he : s.hdr.isEpoch = true) :
    announce s none = .ok (.inl (some (hvEpoch s))) := by
  simp [announce, he, parse_ok s.hdr hwf.len hwf.mult, hvOf, hvEpoch]

theorem announce_epoch_some (s : Stored) (q : HV) (hwf : WF s.hdr) (he : s.hdr.isEpoch = true) :
    announce s (some q) = .ok (.inr (q, ⟨s.hdr.number, s.hdr.vals, none⟩)) := by
  simp [announce, he, parse_ok s.hdr hwf.len hwf.mult, hvOf]

theorem announce_plain (s : Stored) (phv : Option HV) (he : s.hdr.isEpoch = false) :
    announce s phv = .ok (.inl phv) := by
  simp [announce, he]

/-- two announcements agree in what the acceptance rules read (height and validators) -/
def HV.same (a b : HV) : Prop := a.height = b.height ∧ a.vals = b.vals

theorem walkNext_good {R : Router} {g : Genesis} {s : Stored} {l : List Stored} (hg : Good R g s l) :
    walkNext s = firstEpochId g l := by
  simp [walkNext, hg.epochParent]

/-- Starting at an announcing member `s` (not the trust root) with `phv` unknown, the walk returns `s`'s announcement
and the next one. -/
theorem walk_from_epoch {R : Router} {st : St} {g : Genesis} {s : Stored} {suf : List Stored}
    (hc : GChain R st g s.hdr.id (s :: suf)) (hne : s.hdr.id ≠ g.hdr.id) (he : s.hdr.isEpoch = true) (fuel : Nat) :
    ∃ r, walk st.hdrs g (fuel + 2) s none = .ok r ∧ r.1 = hvEpoch s ∧
      ∃ e2 tl, epochs g suf = e2 :: tl ∧ HV.same r.2 e2 := by
  obtain ⟨_, _, hcs, hgs⟩ := hc.inv_step hne
  have hwf := hgs.wf
  have hnext := walkNext_good hgs
  rcases epochs_cases hcs with ⟨h1, h2⟩ | ⟨s1, suf1, h1, h2, h3, h4, h5⟩
  · refine ⟨(hvEpoch s, g.pv0), ?_, rfl, hvRoot g, [g.pv1], h2, ?_⟩
    · simp [walk, announce_epoch_none s hwf he, hnext, h1]
    · simp [HV.same, hvRoot]
  · have hs1 := h4.head_id.2
    have hwf1 := h4.head_wf h2
    refine ⟨(hvEpoch s, ⟨s1.hdr.number, s1.hdr.vals, none⟩), ?_, rfl, hvEpoch s1, epochs g suf1, h5, ?_⟩
    · simp [walk, announce_epoch_none s hwf he, hnext, h1, h2, hs1, announce_epoch_some s1 _ hwf1 h3]
    · simp [HV.same, hvEpoch]

/-- The walk started at the parent `p` (not the trust root) returns the first two announcements of `p`'s chain. -/
theorem walk_spec {R : Router} {st : St} {g : Genesis} {p : Stored} {l : List Stored}
    (hc : GChain R st g p.hdr.id (p :: l)) (hne : p.hdr.id ≠ g.hdr.id) :
    ∃ r e1 e2 tl, walk st.hdrs g walkFuel p none = .ok r ∧ epochs g (p :: l) = e1 :: e2 :: tl ∧
      r.1 = e1 ∧ HV.same r.2 e2 ∧ e1.hash = some (firstEpochId g (p :: l)) := by
  obtain ⟨_, _, hcl, hgp⟩ := hc.inv_step hne
  have hnil := hcl.ne_nil
  cases l with
  | nil => exact absurd rfl hnil
  | cons t rest =>
  by_cases he : p.hdr.isEpoch = true
  · obtain ⟨r, hr, h1, e2, tl, h2, h3⟩ := walk_from_epoch hc hne he 6
    exact ⟨r, hvEpoch p, e2, tl, hr, by simp [epochs, he, hvEpoch, h2], h1, h3, by simp [firstEpochId, he, hvEpoch]⟩
  · have he' : p.hdr.isEpoch = false := by simpa using he
    have hnext := walkNext_good hgp
    rcases epochs_cases hcl with ⟨h1, h2⟩ | ⟨s1, suf1, h1, h2, h3, h4, h5⟩
    · refine ⟨(hvRoot g, g.pv1), hvRoot g, g.pv1, [], ?_, by simp [epochs, he', h2], rfl, ⟨rfl, rfl⟩, ?_⟩
      · simp [walk, walkFuel, announce_plain p none he', hnext, h1, hvRoot]
      · simp [firstEpochId, he', h1, hvRoot]
    · obtain ⟨r, hr, hr1, e2, tl, h6, h7⟩ := walk_from_epoch h4 h2 h3 5
      refine ⟨r, hvEpoch s1, e2, tl, ?_, by simp [epochs, he', h5, h6], hr1, h7, ?_⟩
      · have hs1 := h4.head_id.2
        simp only [walkFuel, walk, announce_plain p none he', hnext, h1, h2, if_false, hs1]
        exact hr
      · simp [firstEpochId, he', h1, hvEpoch]

/-! ## The recent-signer look-back -/

/-- What `lastSeenHeight` means on the chain `c` (parent first) for a window of `n` blocks. -/
def LastSeen (c : List Stored) (target : Addr) (n : Nat) : Option Nat → Prop
  | none => ∀ a ∈ c.take n, a.hdr.coinbase ≠ target
  | some k => ∃ (i : Nat) (a : Stored), c[i]? = some a ∧ a.hdr.coinbase = target ∧ a.hdr.number = k ∧
      ∀ (j : Nat) (b : Stored), j < i → c[j]? = some b → b.hdr.coinbase ≠ target

theorem LastSeen.cons {a : Stored} {rest : List Stored} {target : Addr} {n : Nat} {r : Option Nat}
    (ha : a.hdr.coinbase ≠ target) (h : LastSeen rest target n r) : LastSeen (a :: rest) target (n + 1) r := by
  cases r with
  | none =>
    simp only [LastSeen] at h ⊢
    intro b hb
    simp [List.take_succ_cons] at hb
    rcases hb with rfl | hb
    · exact ha
    · exact h b hb
  | some k =>
    simp only [LastSeen] at h ⊢
    obtain ⟨i, b, hi, hb, hk, hlt⟩ := h
    refine ⟨i + 1, b, by simpa using hi, hb, hk, ?_⟩
    intro j c hj hc
    cases j with
    | zero => simp at hc; subst hc; exact ha
    | succ j => exact hlt j c (by omega) (by simpa using hc)

theorem LastSeen.le {c : List Stored} {target : Addr} {n m : Nat} {r : Option Nat} (hmn : m ≤ n)
    (h : LastSeen c target n r) : LastSeen c target m r := by
  cases r with
  | none =>
    simp only [LastSeen] at h ⊢
    intro b hb
    apply h b
    have : c.take m = (c.take n).take m := by rw [List.take_take]; congr 1; omega
    rw [this] at hb
    exact List.mem_of_mem_take hb
  | some k => simpa only [LastSeen] using h

theorem lookBack_spec {R : Router} {st : St} {g : Genesis} (target : Addr) :
    ∀ (n : Nat) {next : Id} {c : List Stored}, GChain R st g next c →
      LastSeen c target n (lookBack st.hdrs g.hdr.id target n next) := by
  intro n
  induction n with
  | zero => intro next c _; simp [lookBack, LastSeen]
  | succ n ih =>
    intro next c hc
    cases c with
    | nil => exact absurd rfl hc.ne_nil
    | cons a rest =>
      have hs := hc.head_id.2
      simp only [lookBack, hs]
      by_cases hcb : a.hdr.coinbase = target
      · simp only [hcb, beq_self_eq_true, if_true]
        simp only [LastSeen]
        exact ⟨0, a, by simp, hcb, rfl, by intro j b hj; omega⟩
      · have hbeq : (a.hdr.coinbase == target) = false := by simpa using hcb
        simp only [hbeq, Bool.false_eq_true, if_false]
        by_cases hroot : next = g.hdr.id
        · simp only [hroot, if_true]
          subst hroot
          have := hc.at_root
          simp at this
          obtain ⟨rfl, rfl⟩ := this
          simp only [LastSeen]
          intro b hb
          have : b = rootOf g := by
            have := List.mem_of_mem_take hb
            simpa using this
          subst this
          exact hcb
        · simp only [hroot, if_false]
          obtain ⟨_, _, hcr, _⟩ := hc.inv_step hroot
          exact LastSeen.cons hcb (ih hcr)

/-- From the look-back result and the passed `RecentlySigned` test: nobody among the `limit` closest ancestors has the
target coinbase. -/
theorem recent_of_lastSeen {R : Router} {st : St} {g : Genesis} (hG : GenOK g) {id : Id} {p : Stored} {l : List Stored}
    (hc : GChain R st g id (p :: l)) {target : Addr} {n limit number : Nat} {ls : Option Nat}
    (hls : LastSeen (p :: l) target n ls) (hlim : limit ≤ n) (hnum : p.hdr.number + 1 = number)
    (hpass : recentBad ls number limit = false) :
    ∀ a ∈ (p :: l).take limit, a.hdr.coinbase ≠ target := by
  cases ls with
  | none =>
    have := LastSeen.le (r := none) hlim hls
    simpa only [LastSeen] using this
  | some k =>
    simp only [LastSeen] at hls
    obtain ⟨i, a, hi, ha, hk, hlt⟩ := hls
    have hge := hc.number_ge a (List.mem_of_getElem? hi)
    have hpos := hG.numPos
    have hat := hc.number_at p l rfl i a hi
    simp [recentBad] at hpass
    have hk0 : 0 < k := by omega
    have := hpass hk0
    intro b hb
    obtain ⟨j, hjb⟩ := List.mem_iff_getElem?.mp hb
    rw [List.getElem?_take] at hjb
    split at hjb
    · exact hlt j b (by omega) hjb
    · cases hjb

/-! ## What the individual checks establish -/

theorem verifyHeader_ok {R : Router} {p : Stored} {h : Hdr} {signer : Addr} (hv : verifyHeader R p h = .ok signer) :
    WF h ∧ p.hdr.number + 1 = h.number ∧ h.signer = some h.coinbase ∧ signer = h.coinbase := by
  unfold verifyHeader at hv
  by_cases c1 : h.extra.length < extraVanity
  · rw [if_pos c1] at hv; cases hv
  rw [if_neg c1] at hv
  by_cases c2 : h.extra.length < extraVanity + extraSeal
  · rw [if_pos c2] at hv; cases hv
  rw [if_neg c2] at hv
  by_cases c3 : ((h.extra.length - extraVanity - extraSeal) % addrLen != 0) = true
  · rw [if_pos c3] at hv; cases hv
  rw [if_neg c3] at hv
  by_cases c4 : (!h.mixZero) = true
  · rw [if_pos c4] at hv; cases hv
  rw [if_neg c4] at hv
  by_cases c5 : (!h.uncleOk) = true
  · rw [if_pos c5] at hv; cases hv
  rw [if_neg c5] at hv
  by_cases c6 : (h.difficulty != diffInTurn && h.difficulty != diffNoTurn) = true
  · rw [if_pos c6] at hv; cases hv
  rw [if_neg c6] at hv
  by_cases c7 : (!R.capLate && decide (h.gasLimit > gasCap)) = true
  · rw [if_pos c7] at hv; cases hv
  rw [if_neg c7] at hv
  by_cases c8 : (p.hdr.number + 1 != h.number) = true
  · rw [if_pos c8] at hv; cases hv
  rw [if_neg c8] at hv
  by_cases c9 : (R.capLate && decide (h.gasLimit > gasCap)) = true
  · rw [if_pos c9] at hv; cases hv
  rw [if_neg c9] at hv
  by_cases c10 : periodBad R p h = true
  · rw [if_pos c10] at hv; cases hv
  rw [if_neg c10] at hv
  by_cases c11 : h.gasUsed > h.gasLimit
  · rw [if_pos c11] at hv; cases hv
  rw [if_neg c11] at hv
  by_cases c12 : (R.baseFeeNil && h.baseFee.isSome) = true
  · rw [if_pos c12] at hv; cases hv
  rw [if_neg c12] at hv
  by_cases c13 : gasLimitBad R p h = true
  · rw [if_pos c13] at hv; cases hv
  rw [if_neg c13] at hv
  by_cases c14 : h.number = 0
  · rw [if_pos c14] at hv; cases hv
  rw [if_neg c14] at hv
  cases hsig : h.signer with
  | none => rw [hsig] at hv; cases hv
  | some s =>
  rw [hsig] at hv
  simp only at hv
  by_cases hsc : (s != h.coinbase) = true
  · rw [if_pos hsc] at hv; cases hv
  rw [if_neg hsc] at hv
  cases hv
  simp at c3 c4 c5 c6 c7 c8 c9 hsc
  refine ⟨⟨by omega, ?_, c4, c5, ?_, by omega, ?_⟩, c8, by rw [hsc], hsc⟩
  · simp only [extraVanity, extraSeal, addrLen] at *
    omega
  · by_cases hd : h.difficulty = diffInTurn
    · exact Or.inl hd
    · exact Or.inr (c6 hd)
  · cases hcl : R.capLate with
    | true => exact c9 hcl
    | false => exact c7 hcl

theorem checkTurn_ok (h : Hdr) (signer : Addr) (k : Nat) :
    ∀ (V : List Addr) (idx : Nat) (valid : Bool), checkTurn h signer k V idx valid = .ok true →
      (valid = true ∨ signer ∈ V) ∧
      ∀ (j : Nat) (v : Addr), V[j]? = some v → v = signer →
        (k = idx + j → h.difficulty = diffInTurn) ∧ (k ≠ idx + j → h.difficulty = diffNoTurn) := by
  intro V
  induction V with
  | nil =>
    intro idx valid hc
    simp [checkTurn] at hc
    exact ⟨Or.inl hc, by intro j v hj; simp at hj⟩
  | cons v vs ih =>
    intro idx valid hc
    simp only [checkTurn] at hc
    by_cases hvs : v = signer
    · subst hvs
      simp only [beq_self_eq_true, if_true] at hc
      by_cases hk : k = idx
      · simp only [hk, if_true] at hc
        split at hc
        · contradiction
        · rename_i hd
          simp at hd
          obtain ⟨_, h2⟩ := ih (idx + 1) true (by simpa [hk] using hc)
          refine ⟨Or.inr List.mem_cons_self, ?_⟩
          intro j w hj hw
          cases j with
          | zero => exact ⟨fun _ => hd, fun hne => absurd (by omega) hne⟩
          | succ j =>
            have := h2 j w (by simpa using hj) hw
            exact ⟨fun he => this.1 (by omega), fun hne => this.2 (by omega)⟩
      · simp only [hk, if_false] at hc
        split at hc
        · contradiction
        · rename_i hd
          simp at hd
          obtain ⟨_, h2⟩ := ih (idx + 1) true hc
          refine ⟨Or.inr List.mem_cons_self, ?_⟩
          intro j w hj hw
          cases j with
          | zero => exact ⟨fun he => absurd (by omega) hk, fun _ => hd⟩
          | succ j =>
            have := h2 j w (by simpa using hj) hw
            exact ⟨fun he => this.1 (by omega), fun hne => this.2 (by omega)⟩
    · have hb : (v == signer) = false := by simpa using hvs
      simp only [hb, Bool.false_eq_true, if_false] at hc
      obtain ⟨h1, h2⟩ := ih (idx + 1) valid hc
      refine ⟨h1.imp id (List.mem_cons_of_mem _), ?_⟩
      intro j w hj hw
      cases j with
      | zero => simp at hj; subst hj; exact absurd hw hvs
      | succ j =>
        have := h2 j w (by simpa using hj) hw
        exact ⟨fun he => this.1 (by omega), fun hne => this.2 (by omega)⟩

theorem turnOK_of_checkTurn {h : Hdr} {V : List Addr}
    (hc : checkTurn h h.coinbase (h.number % V.length) V 0 false = .ok true) :
    h.coinbase ∈ V ∧ TurnOK V h := by
  obtain ⟨h1, h2⟩ := checkTurn_ok h h.coinbase _ V 0 false hc
  have hmem : h.coinbase ∈ V := by
    rcases h1 with h1 | h1
    · cases h1
    · exact h1
  refine ⟨hmem, ?_, ?_⟩
  · intro hk
    exact (h2 _ _ hk rfl).1 (by omega)
  · intro hk
    obtain ⟨j, hj⟩ := List.mem_iff_getElem?.mp hmem
    have hne : h.number % V.length ≠ 0 + j := by
      intro he
      apply hk
      rw [he]
      simpa using hj
    exact (h2 j _ hj rfl).2 hne

/-- The set chosen by `inTurnSet` is `inEffect` of the ancestry, and the epoch guard holds. -/
theorem inTurnSet_ok {R : Router} {g : Genesis} {h : Hdr} {c : List Stored} {phv pphv V e1 e2 : HV} {tl : List HV}
    (he : epochs g c = e1 :: e2 :: tl) (h1 : phv = e1) (h2 : HV.same pphv e2)
    (hs : inTurnSet R h phv pphv = .ok V) :
    V.vals = inEffect R g h.number c ∧ EpochGuard R g h c := by
  subst h1
  obtain ⟨h2h, h2v⟩ := h2
  unfold inTurnSet at hs
  unfold inEffect EpochGuard
  rw [he]
  cases hd : R.delayed with
  | true =>
    simp only [hd, if_true] at hs
    by_cases hw : h.number - phv.height ≤ pphv.vals.length / 2
    · simp only [hw, if_true] at hs
      cases hep : h.isEpoch with
      | true => simp [hep] at hs
      | false =>
        simp [hep] at hs
        subst hs
        rw [h2v] at hw
        simp [hw, h2v]
    · simp only [hw, if_false] at hs
      cases hs
      rw [h2v] at hw
      simp [hw]
      intro _
      omega
  | false =>
    simp only [hd, Bool.false_eq_true, if_false] at hs
    split at hs
    · contradiction
    · rename_i hcond
      cases hs
      simp at hcond ⊢
      intro hep hgp
      have := hcond hgp hep
      omega

/-! ## `getPrevHeightAndValidators` on a chain -/

theorem prevHV_spec {R : Router} {st : St} {g : Genesis} {p : Stored} {l : List Stored} {h : Hdr}
    (hc : GChain R st g p.hdr.id (p :: l)) (hp : h.parent = p.hdr.id) :
    ∃ phv pphv ls e1 e2 tl, prevHV st g p h = .ok (phv, pphv, ls) ∧ epochs g (p :: l) = e1 :: e2 :: tl ∧
      phv = e1 ∧ HV.same pphv e2 ∧ phv.hash = some (firstEpochId g (p :: l)) ∧
      LastSeen (p :: l) h.coinbase (max e1.vals.length e2.vals.length / 2) ls := by
  by_cases hroot : p.hdr.id = g.hdr.id
  · rw [hroot] at hc
    have := hc.at_root
    simp at this
    obtain ⟨rfl, rfl⟩ := this
    refine ⟨hvRoot g, g.pv1, (if g.hdr.coinbase == h.coinbase then some g.hdr.number else none), hvRoot g, g.pv1, [], ?_, rfl, rfl, ⟨rfl, rfl⟩, rfl, ?_⟩
    · simp only [prevHV, hp, rootOf, if_true, hvRoot]
    · by_cases hcb : g.hdr.coinbase = h.coinbase
      · simp only [hcb, beq_self_eq_true, if_true, LastSeen]
        exact ⟨0, rootOf g, by simp, hcb, rfl, by intro j b hj; omega⟩
      · have hb : (g.hdr.coinbase == h.coinbase) = false := by simpa using hcb
        simp only [hb, Bool.false_eq_true, if_false, LastSeen]
        intro b hb'
        have := List.mem_of_mem_take hb'
        simp at this
        subst this
        exact hcb
  · obtain ⟨r, e1, e2, tl, hw, hep, hr1, hr2, hh⟩ := walk_spec hc hroot
    obtain ⟨_, _, hcl, _⟩ := hc.inv_step hroot
    have hpne : ¬ h.parent = g.hdr.id := by rw [hp]; exact hroot
    by_cases hcb : p.hdr.coinbase = h.coinbase
    · refine ⟨r.1, r.2, some p.hdr.number, e1, e2, tl, ?_, hep, hr1, hr2, by rw [hr1]; exact hh, ?_⟩
      · simp only [prevHV, hpne, if_false, hw, hcb, beq_self_eq_true, if_true]
      · simp only [LastSeen]
        exact ⟨0, p, by simp, hcb, rfl, by intro j b hj; omega⟩
    · have hb : (p.hdr.coinbase == h.coinbase) = false := by simpa using hcb
      refine ⟨r.1, r.2, lookBack st.hdrs g.hdr.id h.coinbase (max r.1.vals.length r.2.vals.length / 2 - 1) p.hdr.parent, e1, e2, tl, ?_, hep, hr1, hr2, by rw [hr1]; exact hh, ?_⟩
      · simp only [prevHV, hpne, if_false, hw, hb, Bool.false_eq_true]
      · have hlb := lookBack_spec (R := R) (st := st) (g := g) h.coinbase
          (max r.1.vals.length r.2.vals.length / 2 - 1) hcl
        have := LastSeen.cons hcb hlb
        rw [hr1, hr2.2] at this ⊢
        exact LastSeen.le (n := max e1.vals.length e2.vals.length / 2 - 1 + 1) (by omega) this

/-! ## `addHeader`: total difficulty and the canonical chain -/

theorem firstGap_spec (canon : Nat → Option Id) :
    ∀ (fuel lo : Nat), (∀ j, lo ≤ j → j < firstGap canon fuel lo → canon j ≠ none) ∧
      (canon (firstGap canon fuel lo) = none ∨ firstGap canon fuel lo = lo + fuel) ∧ lo ≤ firstGap canon fuel lo := by
  intro fuel
  induction fuel with
  | zero => intro lo; simp [firstGap]; intro j h1 h2; omega
  | succ n ih =>
    intro lo
    simp only [firstGap]
    cases hc : canon lo with
    | none => simp [hc]; intro j h1 h2; omega
    | some v =>
      simp only
      obtain ⟨h1, h2, h3⟩ := ih (lo + 1)
      refine ⟨?_, ?_, by omega⟩
      · intro j hj1 hj2
        by_cases hj : j = lo
        · subst hj; simp [hc]
        · exact h1 j (by omega) hj2
      · rcases h2 with h2 | h2
        · exact Or.inl h2
        · exact Or.inr (by omega)

/-- every number between the trust root's and the head's occurs on a chain, next to its parent -/
theorem GChainP.cover {G : Stored → List Stored → Prop} [HasLink G] {st : St} {g : Genesis} :
    ∀ {id c}, GChainP G st g id c → ∀ s rest, c = s :: rest → ∀ i, g.hdr.number < i → i ≤ s.hdr.number →
      ∃ a b, a ∈ c ∧ b ∈ c ∧ a.hdr.number = i ∧ b.hdr.id = a.hdr.parent ∧ b.hdr.number + 1 = i ∧ a.hdr.id ≠ g.hdr.id := by
  intro id c h
  induction h with
  | root _ =>
    intro s rest hc i h1 h2
    simp at hc
    obtain ⟨rfl, rfl⟩ := hc
    simp [rootOf] at h2
    omega
  | step id s l hne hs hid hc hg ih =>
    intro s' rest hc' i h1 h2
    simp at hc'
    obtain ⟨rfl, rfl⟩ := hc'
    obtain ⟨p, rest', hl, hnum, _⟩ := (HasLink.link hg)
    by_cases hi : i = s.hdr.number
    · subst hl
      refine ⟨s, p, List.mem_cons_self, List.mem_cons_of_mem _ List.mem_cons_self, hi.symm, hc.head_id.1, by omega, by rw [hid]; exact hne⟩
    · obtain ⟨a, b, ha, hb, h3, h4, h5, h6⟩ := ih p rest' hl i h1 (by omega)
      exact ⟨a, b, List.mem_cons_of_mem _ ha, List.mem_cons_of_mem _ hb, h3, h4, h5, h6⟩

/-- if the canonical assignment at the head's height is the head, all of the head's ancestors are canonical -/
theorem canon_covers {G : Stored → List Stored → Prop} [HasLink G] {st : St} {g : Genesis} (hCI : CanonInv st g) :
    ∀ {id c}, GChainP G st g id c → ∀ s rest, c = s :: rest → st.canon s.hdr.number = some id →
      ∀ b ∈ c, st.canon b.hdr.number = some b.hdr.id := by
  intro id c h
  induction h with
  | root _ =>
    intro s rest hc hcan b hb
    simp at hc
    obtain ⟨rfl, rfl⟩ := hc
    simp at hb
    subst hb
    exact hcan
  | step id s l hne hs hid hc hg ih =>
    intro s' rest hc' hcan b hb
    simp at hc'
    obtain ⟨rfl, rfl⟩ := hc'
    rcases List.mem_cons.mp hb with rfl | hb
    · rw [hid]; exact hcan
    · obtain ⟨p, rest', hl, hnum, _⟩ := (HasLink.link hg)
      have hge := hc.number_ge p (by rw [hl]; exact List.mem_cons_self)
      have hle : b.hdr.number ≤ st.height ∨ True := Or.inr trivial
      have hsle : s.hdr.number ≤ st.height := by
        by_cases hcon : s.hdr.number ≤ st.height
        · exact hcon
        · have := hCI.above s.hdr.number (by omega)
          rw [this] at hcan
          cases hcan
      obtain ⟨s2, h1, h2, h3, h4⟩ := hCI.link s.hdr.number (by omega) hsle
      have hs2 : s2 = s := by
        rw [hcan] at h1
        have hid2 : s2.hdr.id = id := (Option.some.inj h1).symm
        rw [hid2, hs] at h2
        exact (Option.some.inj h2).symm
      rw [hs2] at h4
      have hpn : s.hdr.number - 1 = p.hdr.number := by omega
      rw [hpn] at h4
      exact ih p rest' hl h4 b hb

theorem rewrite_spec {G : Stored → List Stored → Prop} [HasLink G] {st : St} {g : Genesis} (hCI : CanonInv st g)
    (hdrs' : Id → Option Stored) (hext : ∀ id s, st.hdrs id = some s → hdrs' id = some s) :
    ∀ {id c}, GChainP G st g id c → ∀ s rest, c = s :: rest → ∀ (canon : Nat → Option Id) (fuel : Nat),
      c.length ≤ fuel → (∀ i, i ≤ s.hdr.number → canon i = st.canon i) →
      ∃ canon2, rewrite hdrs' fuel canon s.hdr.number id = .ok canon2 ∧
        (∀ a ∈ c, canon2 a.hdr.number = some a.hdr.id) ∧
        (∀ i, s.hdr.number < i → canon2 i = canon i) ∧ (∀ i, i < g.hdr.number → canon2 i = canon i) := by
  intro id c h
  induction h with
  | root h0 =>
    intro s rest hc canon fuel hfuel hagree
    simp at hc
    obtain ⟨rfl, rfl⟩ := hc
    cases fuel with
    | zero => simp at hfuel
    | succ f =>
      have : canon g.hdr.number = some g.hdr.id := by
        rw [hagree _ (by simp [rootOf])]; exact hCI.root.1
      refine ⟨canon, by simp [rewrite, rootOf, this], ?_, fun _ _ => rfl, fun _ _ => rfl⟩
      intro a ha
      simp at ha
      subst ha
      exact this
  | step id s l hne hs hid hc hg ih =>
    intro s' rest hc' canon fuel hfuel hagree
    simp at hc'
    obtain ⟨rfl, rfl⟩ := hc'
    cases fuel with
    | zero => simp at hfuel
    | succ f =>
      simp only [rewrite]
      by_cases hcan : canon s.hdr.number = some id
      · refine ⟨canon, by simp [hcan], ?_, fun _ _ => rfl, fun _ _ => rfl⟩
        have hcan' : st.canon s.hdr.number = some id := by rw [← hagree _ (Nat.le_refl _)]; exact hcan
        have hall := canon_covers hCI (.step id s l hne hs hid hc hg) s l rfl hcan'
        intro a ha
        have hnum := (GChainP.step id s l hne hs hid hc hg).number_at s l rfl
        obtain ⟨i, hi⟩ := List.mem_iff_getElem?.mp ha
        have := hnum i a hi
        rw [hagree _ (by omega)]
        exact hall a ha
      · simp only [hcan, if_false, hext _ _ hs]
        obtain ⟨p, rest', hl, hnum, _⟩ := (HasLink.link hg)
        have hpn : s.hdr.number - 1 = p.hdr.number := by omega
        rw [hpn]
        obtain ⟨canon2, h1, h2, h3, h4⟩ := ih p rest' hl (upd canon s.hdr.number (some id)) f
          (by simp at hfuel; omega)
          (by intro i hi; rw [upd_other _ _ _ _ (by omega)]; exact hagree i (by omega))
        refine ⟨canon2, h1, ?_, ?_, ?_⟩
        · intro a ha
          rcases List.mem_cons.mp ha with rfl | ha
          · rw [h3 _ (by omega), upd_same, hid]
          · exact h2 a ha
        · intro i hi
          rw [h3 i (by omega), upd_other _ _ _ _ (by omega)]
        · intro i hi
          have hge := hc.number_ge p (by rw [hl]; exact List.mem_cons_self)
          rw [h4 i hi, upd_other _ _ _ _ (by omega)]

/-- `addHeader` on a fresh header whose parent heads a chain: it succeeds, stores the header with the summed total
difficulty and keeps the canonical-chain invariant. -/
theorem addHeader_spec {G : Stored → List Stored → Prop} [HasLink G] {st : St} {g : Genesis} (hCI : CanonInv st g)
    {h : Hdr} {p : Stored} {l : List Stored} (phv : HV)
    (hfresh : st.hdrs h.id = none) (hc : GChainP G st g p.hdr.id (p :: l)) (hp : h.parent = p.hdr.id)
    (hnum : p.hdr.number + 1 = h.number) :
    ∃ st', addHeader st h p phv = .ok st' ∧ st'.genesis = st.genesis ∧
      st'.hdrs = upd st.hdrs h.id (some ⟨h, h.difficulty + p.td, phv.hash⟩) ∧ CanonInv st' g := by
  obtain ⟨hs, hh1, hh2, hh3, hh4⟩ := hCI.head
  have hext : ∀ id s, st.hdrs id = some s → upd st.hdrs h.id (some ⟨h, h.difficulty + p.td, phv.hash⟩) id = some s := by
    intro id s hs'
    rw [upd_other]
    · exact hs'
    · intro he; rw [he, hfresh] at hs'; cases hs'
  have hgn := hc.number_ge p List.mem_cons_self
  by_cases htd : h.difficulty + p.td > hs.td
  · -- the new header becomes the canonical head
    have hlen := hc.length_eq p l rfl
    obtain ⟨canon2, hr1, hr2, hr3, hr4⟩ := rewrite_spec hCI _ hext hc p l rfl
      (delRange st.canon (h.number + 1) (firstGap st.canon (st.height - h.number + 1) (h.number + 1))) (h.number + 1)
      (by simp; omega) (by intro i hi; simp [delRange]; intro h1; omega)
    have hpn : h.number - 1 = p.hdr.number := by omega
    refine ⟨{ st with hdrs := upd st.hdrs h.id (some ⟨h, h.difficulty + p.td, phv.hash⟩),
                      canon := upd canon2 h.number (some h.id), height := h.number }, ?_, rfl, rfl, ?_⟩
    · simp only [addHeader, hh1, hh2, htd, if_true, hpn, hp, hr1]
    · obtain ⟨g1, g2, g3⟩ := firstGap_spec st.canon (st.height - h.number + 1) (h.number + 1)
      have hgap : st.height < firstGap st.canon (st.height - h.number + 1) (h.number + 1) := by
        rcases g2 with g2 | g2
        · by_cases hle : firstGap st.canon (st.height - h.number + 1) (h.number + 1) ≤ st.height
          · obtain ⟨s2, h1, _⟩ := hCI.link _ (by omega) hle
            rw [g2] at h1
            cases h1
          · omega
        · omega
      have habove : ∀ i, h.number < i → canon2 i = none := by
        intro i hi
        rw [hr3 i (by omega)]
        simp only [delRange]
        split
        · rfl
        · rename_i hcond
          exact hCI.above i (by omega)
      constructor
      · refine ⟨⟨h, h.difficulty + p.td, phv.hash⟩, by simp [upd_same], by simp [upd_same], rfl, ?_⟩
        intro id s hs'
        simp only at hs'
        by_cases hid : id = h.id
        · rw [hid, upd_same] at hs'
          cases hs'
          exact Nat.le_refl _
        · rw [upd_other _ _ _ _ hid] at hs'
          have := hh4 id s hs'
          simp only
          omega
      · intro i hi
        simp only at hi ⊢
        rw [upd_other _ _ _ _ (by omega)]
        exact habove i hi
      · intro i hi
        simp only
        rw [upd_other _ _ _ _ (by omega), hr4 i hi]
        simp only [delRange]
        split
        · rfl
        · exact hCI.below i hi
      · simp only
        refine ⟨?_, by omega⟩
        rw [upd_other _ _ _ _ (by omega)]
        have := hr2 (rootOf g) (List.mem_of_getLast? hc.last_root)
        simpa [rootOf] using this
      · intro i h1 h2
        simp only at h2 ⊢
        by_cases hi : i = h.number
        · subst hi
          refine ⟨⟨h, h.difficulty + p.td, phv.hash⟩, by simp [upd_same], by simp [upd_same], rfl, ?_⟩
          simp only
          rw [upd_other _ _ _ _ (by omega), hpn, hp]
          exact hr2 p List.mem_cons_self
        · obtain ⟨a, b, ha, hb, h3, h4, h5, h6⟩ := hc.cover p l rfl i h1 (by omega)
          refine ⟨a, ?_, ?_, h3, ?_⟩
          · rw [upd_other _ _ _ _ hi, ← h3]; exact hr2 a ha
          · exact hext _ _ (hc.mem_stored ha)
          · rw [upd_other _ _ _ _ (by omega)]
            have : i - 1 = b.hdr.number := by omega
            rw [this, ← h4]
            exact hr2 b hb
  · -- the canonical chain is unchanged
    refine ⟨{ st with hdrs := upd st.hdrs h.id (some ⟨h, h.difficulty + p.td, phv.hash⟩) }, ?_, rfl, rfl, ?_⟩
    · simp only [addHeader, hh1, hh2, htd, if_false]
    · constructor
      · refine ⟨hs, hh1, hext _ _ hh2, hh3, ?_⟩
        intro id s hs'
        simp only at hs'
        by_cases hid : id = h.id
        · rw [hid, upd_same] at hs'
          cases hs'
          simp only
          omega
        · rw [upd_other _ _ _ _ hid] at hs'
          exact hh4 id s hs'
      · exact hCI.above
      · exact hCI.below
      · exact hCI.root
      · intro i h1 h2
        obtain ⟨s, a1, a2, a3, a4⟩ := hCI.link i h1 h2
        exact ⟨s, a1, hext _ _ a2, a3, a4⟩

/-! ## One `SyncBlockHeader` step -/

theorem syncHeader_cases (R : Router) (st : St) (h : Hdr) :
    (syncHeader R st h).1 = st ∨
    ∃ p signer g phv pphv ls inTurn st',
      st.hdrs h.id = none ∧ st.hdrs h.parent = some p ∧ verifyHeader R p h = .ok signer ∧ st.genesis = some g ∧
      prevHV st g p h = .ok (phv, pphv, ls) ∧ inTurnSet R h phv pphv = .ok inTurn ∧
      recentBad ls h.number (inTurn.vals.length / 2) = false ∧
      inTurn.vals.length ≠ 0 ∧
      checkTurn h signer (h.number % inTurn.vals.length) inTurn.vals 0 false = .ok true ∧
      addHeader st h p phv = .ok st' ∧ syncHeader R st h = (st', .ok) := by
  unfold syncHeader
  cases h1 : st.hdrs h.id with
  | some _ => left; simp
  | none =>
    simp only [Option.isSome_none, Bool.false_eq_true, if_false]
    cases h2 : st.hdrs h.parent with
    | none => left; rfl
    | some p =>
      simp only
      cases h3 : verifyHeader R p h with
      | error e => left; rfl
      | ok signer =>
        simp only
        cases h4 : st.genesis with
        | none => left; rfl
        | some g =>
          simp only
          cases h5 : prevHV st g p h with
          | error e => left; rfl
          | ok r =>
            obtain ⟨phv, pphv, ls⟩ := r
            simp only
            cases h6 : inTurnSet R h phv pphv with
            | error e => left; rfl
            | ok inTurn =>
              simp only
              by_cases h7 : recentBad ls h.number (inTurn.vals.length / 2) = true
              · left; rw [if_pos h7]
              · rw [if_neg h7]
                by_cases h8 : inTurn.vals.length = 0
                · left; rw [if_pos h8]
                · rw [if_neg h8]
                  cases h9 : checkTurn h signer (h.number % inTurn.vals.length) inTurn.vals 0 false with
                  | error e => left; rfl
                  | ok b =>
                    cases b with
                    | false => left; rfl
                    | true =>
                      simp only
                      cases h10 : addHeader st h p phv with
                      | error e => left; rfl
                      | ok st' =>
                        right
                        refine ⟨p, signer, g, phv, pphv, ls, inTurn, st', ?_, ?_, ?_, ?_, ?_, ?_, ?_, ?_, ?_, ?_, ?_⟩ <;>
                          first | rfl | trivial | assumption | (simpa using h7)

theorem inEffect_length_le {R : Router} {g : Genesis} {n : Nat} {c : List Stored} {e1 e2 : HV} {tl : List HV}
    (he : epochs g c = e1 :: e2 :: tl) :
    (inEffect R g n c).length ≤ max e1.vals.length e2.vals.length := by
  unfold inEffect
  rw [he]
  simp only
  split
  · exact Nat.le_max_right _ _
  · exact Nat.le_max_left _ _

/-- `SyncBlockHeader` keeps the invariant. -/
theorem syncHeader_inv {R : Router} {st : St} (hI : Inv R st) (h : Hdr) : Inv R (syncHeader R st h).1 := by
  rcases syncHeader_cases R st h with hsame | ⟨p, signer, g, phv, pphv, ls, inTurn, st', h1, h2, h3, h4, h5, h6, h7, h8, h9, h10, h11⟩
  · rw [hsame]; exact hI
  · rw [h11]
    obtain ⟨hG, hroot, hall, hCI⟩ := hI.gen g h4
    obtain ⟨l, hc0⟩ := hall h.parent p h2
    have hp : h.parent = p.hdr.id := hc0.head_id.1.symm
    have hc : GChain R st g p.hdr.id (p :: l) := by rw [← hp]; exact hc0
    obtain ⟨hwf, hnum, hsig, hsc⟩ := verifyHeader_ok h3
    subst hsc
    obtain ⟨phv', pphv', ls', e1, e2, tl, hp1, hep, hp3, hp4, hp5, hp6⟩ := prevHV_spec hc hp
    rw [h5] at hp1
    injection hp1 with hp1
    injection hp1 with hp1a hp1
    injection hp1 with hp1b hp1c
    subst hp1a hp1b hp1c
    obtain ⟨hv, hguard⟩ := inTurnSet_ok hep hp3 hp4 h6
    have hlim : inTurn.vals.length / 2 ≤ max e1.vals.length e2.vals.length / 2 := by
      rw [hv]
      exact Nat.div_le_div_right (inEffect_length_le hep)
    have hrecent := recent_of_lastSeen hG hc hp6 hlim hnum h7
    obtain ⟨hmem, hturn⟩ := turnOK_of_checkTurn h9
    obtain ⟨st'', ha1, ha2, ha3, ha4⟩ := addHeader_spec hCI phv h1 hc hp hnum
    rw [h10] at ha1
    injection ha1 with ha1
    subst ha1
    have hne : h.id ≠ g.hdr.id := by
      intro he; rw [he, hroot] at h1; cases h1
    have hext : ∀ id s, st.hdrs id = some s → st'.hdrs id = some s := by
      intro id s hs
      rw [ha3, upd_other]
      · exact hs
      · intro he; rw [he, h1] at hs; cases hs
    have hgood : Good R g ⟨h, h.difficulty + p.td, phv.hash⟩ (p :: l) := by
      refine ⟨⟨p, l, rfl, hnum, rfl⟩, hp5, hsig, ?_, ?_, ?_, hwf, hguard⟩
      · simp only; rw [← hv]; exact hmem
      · simp only; rw [← hv]; exact hrecent
      · simp only; rw [← hv]; exact hturn
    constructor
    · intro hn; rw [ha2, h4] at hn; cases hn
    · intro g' hg'
      rw [ha2, h4] at hg'
      injection hg' with hg'
      subst hg'
      refine ⟨hG, hext _ _ hroot, ?_, ha4⟩
      intro id s hs
      by_cases hid : id = h.id
      · subst hid
        rw [ha3, upd_same] at hs
        injection hs with hs
        subst hs
        refine ⟨p :: l, .step h.id _ (p :: l) hne (by rw [ha3, upd_same]) rfl ?_ hgood⟩
        simp only
        rw [hp]
        exact hc.mono hext
      · rw [ha3, upd_other _ _ _ _ hid] at hs
        obtain ⟨l', hc'⟩ := hall id s hs
        exact ⟨l', hc'.mono hext⟩

/-- `SyncGenesisHeader` establishes the invariant. -/
theorem syncGenesis_inv {R : Router} {st : St} (hI : Inv R st) (g : Hdr) (pvs : List HV) :
    Inv R (syncGenesis st g pvs).1 := by
  unfold syncGenesis
  cases hgen : st.genesis with
  | some _ => simpa using hI
  | none =>
    obtain ⟨hn1, hn2⟩ := hI.noGen hgen
    simp only [Option.isSome_none, Bool.false_eq_true, if_false]
    by_cases c1 : g.extra.length = extraVanity + extraSeal
    · rw [if_pos c1]; exact hI
    rw [if_neg c1]
    by_cases c2 : g.extra.length > extraVanity + extraSeal ∧ ((g.extra.length - (extraVanity + extraSeal)) % addrLen != 0) = true
    · rw [if_pos c2]; exact hI
    rw [if_neg c2]
    by_cases c3 : g.extra.length < extraVanity + extraSeal ∧ (((extraVanity + extraSeal) - g.extra.length) % addrLen != 0) = true
    · rw [if_pos c3]; exact hI
    rw [if_neg c3]
    match pvs with
    | [] => exact hI
    | _ :: _ :: _ => exact hI
    | [pv] =>
      simp only
      by_cases c4 : g.number ≤ pv.height
      · rw [if_pos c4]; exact hI
      rw [if_neg c4]
      by_cases c5 : g.extra.length < extraVanity + extraSeal
      · rw [if_pos c5]; exact hI
      rw [if_neg c5]
      have hlen : extraVanity + extraSeal ≤ g.extra.length := by omega
      have hmult : (g.extra.length - (extraVanity + extraSeal)) % addrLen = 0 := by
        have : g.extra.length > extraVanity + extraSeal := by omega
        simp [this] at c2
        exact c2
      rw [parse_ok g hlen hmult]
      simp only
      have hep : g.isEpoch = true := by simp [Hdr.isEpoch]; omega
      constructor
      · intro hn; cases hn
      · intro g' hg'
        simp only at hg'
        injection hg' with hg'
        subst hg'
        refine ⟨⟨by simp only; omega, rfl, vals_ne_nil g hep hmult, hep, hmult⟩, by simp [upd_same, rootOf], ?_, ?_⟩
        · intro id s hs
          simp only at hs
          by_cases hid : id = g.id
          · subst hid
            rw [upd_same] at hs
            injection hs with hs
            subst hs
            exact ⟨[], .root (by simp [upd_same, rootOf])⟩
          · rw [upd_other _ _ _ _ hid, hn1] at hs
            cases hs
        · constructor
          · refine ⟨⟨g, g.difficulty, none⟩, by simp [upd_same], by simp [upd_same], rfl, ?_⟩
            intro id s hs
            simp only at hs
            by_cases hid : id = g.id
            · subst hid
              rw [upd_same] at hs
              injection hs with hs
              subst hs
              exact Nat.le_refl _
            · rw [upd_other _ _ _ _ hid, hn1] at hs
              cases hs
          · intro i hi
            simp only at hi ⊢
            rw [upd_other _ _ _ _ (by omega)]
            exact hn2 i
          · intro i hi
            simp only at hi ⊢
            rw [upd_other _ _ _ _ (by omega)]
            exact hn2 i
          · simp [upd_same]
          · intro i h1 h2
            simp only at h1 h2
            omega

theorem empty_inv (R : Router) : Inv R St.empty :=
  ⟨fun _ => ⟨fun _ => rfl, fun _ => rfl⟩, fun g hg => by simp [St.empty] at hg⟩

theorem apply_inv {R : Router} {st : St} (hI : Inv R st) (o : Op) : Inv R (apply R st o).1 := by
  cases o with
  | genesis g pvs => exact syncGenesis_inv hI g pvs
  | hdr h => exact syncHeader_inv hI h

theorem run_inv {R : Router} : ∀ (ops : List Op) {st : St}, Inv R st → Inv R (run R st ops) := by
  intro ops
  induction ops with
  | nil => intro st hI; exact hI
  | cons o os ih => intro st hI; exact ih (apply_inv hI o)

/-! ## From the invariant to the vocabulary of the property statements -/

theorem GChainP.toChain {G : Stored → List Stored → Prop} {st : St} {g : Genesis} :
    ∀ {id l}, GChainP G st g id l → Chain st g id l := by
  intro id l h
  induction h with
  | root h0 => exact .root _ h0
  | step id s l hne hs _ _ _ ih => exact .step id s l hne hs ih

theorem Chain.functional {st : St} {g : Genesis} :
    ∀ {id l l'}, Chain st g id l → Chain st g id l' → l = l' := by
  intro id l l' h
  induction h generalizing l' with
  | root s h0 =>
    intro h'
    cases h' with
    | root s' h0' => rw [h0] at h0'; cases h0'; rfl
    | step _ _ _ hne _ _ => exact absurd rfl hne
  | step id s l hne hs _ ih =>
    intro h'
    cases h' with
    | root _ _ => exact absurd rfl hne
    | step _ s' l'' _ hs' hc' =>
      have : s = s' := by rw [hs] at hs'; exact Option.some.inj hs'
      subst this
      rw [ih hc']

/-- total difficulty is the sum of the difficulties along the chain -/
theorem GChainP.td_sum {G : Stored → List Stored → Prop} [HasLink G] {st : St} {g : Genesis} :
    ∀ {id c}, GChainP G st g id c → ∀ s rest, c = s :: rest → s.td = sumDiff c := by
  intro id c h
  induction h with
  | root _ => intro s rest hc; simp at hc; obtain ⟨rfl, rfl⟩ := hc; simp [rootOf, sumDiff]
  | step id s l _ _ _ hc hg ih =>
    intro s' rest hc'
    simp at hc'
    obtain ⟨rfl, rfl⟩ := hc'
    obtain ⟨p, rest', hl, _, htd⟩ := (HasLink.link hg)
    rw [htd, sumDiff, ih p rest' hl]

/-- What the invariant says about one stored header above the trust root, in terms of its plain ancestry. -/
theorem stored_good {R : Router} {st : St} (hI : Inv R st) {g : Genesis} (hg : st.genesis = some g)
    {id : Id} {s : Stored} (hs : st.hdrs id = some s) (hne : id ≠ g.hdr.id) :
    s.hdr.id = id ∧ (∃ l, Chain st g s.hdr.parent l) ∧
    ∀ l, Chain st g s.hdr.parent l → Good R g s l ∧ s.td = sumDiff (s :: l) := by
  obtain ⟨_, _, hall, _⟩ := hI.gen g hg
  obtain ⟨l0, hc⟩ := hall id s hs
  obtain ⟨_, hid, hcl, hgood⟩ := hc.inv_step hne
  refine ⟨hid, ⟨l0, hcl.toChain⟩, ?_⟩
  intro l hl
  have := Chain.functional hl hcl.toChain
  subst this
  exact ⟨hgood, hc.td_sum s l rfl⟩

theorem Chain.head_stored {st : St} {g : Genesis} {id : Id} {s : Stored} {l : List Stored}
    (h : Chain st g id (s :: l)) : st.hdrs id = some s := by
  generalize hc : s :: l = c at h
  cases h with
  | root s' h0 => simp at hc; rw [hc.1]; exact h0
  | step _ s' l' _ hs _ => simp at hc; rw [hc.1]; exact hs

/-! ## `SyncBlockHeader` never panics and never fails internally -/

/-- error classes that stand for "cannot happen": exhausted loop fuel, a stored record that is missing or does not
parse, no canonical head, no trust root although a parent is stored, block number 0 with a stored parent -/
def internalRej : Rej → Bool
  | .fuel | .getHeader | .parse | .nocanon | .nogenesis | .block0 => true
  | _ => false

def internalOut : Out → Bool
  | .panic => true
  | .reject r => internalRej r
  | _ => false

theorem epochs_head_facts {R : Router} {st : St} {g : Genesis} (hG : GenOK g) :
    ∀ {id c}, GChain R st g id c → ∀ s rest, c = s :: rest → ∀ e1 tl, epochs g c = e1 :: tl →
      e1.vals ≠ [] ∧ e1.height ≤ s.hdr.number := by
  intro id c h
  induction h with
  | root _ =>
    intro s rest hc e1 tl he
    simp at hc
    obtain ⟨rfl, rfl⟩ := hc
    simp [epochs] at he
    obtain ⟨rfl, _⟩ := he
    simp only [hG.pv0, rootOf]
    exact ⟨hG.valsNe, Nat.le_refl _⟩
  | step id s l hne hs hid hc hg ih =>
    intro s' rest hc' e1 tl he
    simp at hc'
    obtain ⟨rfl, rfl⟩ := hc'
    obtain ⟨p, rest', hl, hnum, _⟩ := hg.link
    subst hl
    by_cases hep : s.hdr.isEpoch = true
    · simp [epochs, hep] at he
      obtain ⟨rfl, _⟩ := he
      exact ⟨vals_ne_nil s.hdr hep hg.wf.mult, Nat.le_refl _⟩
    · have hep' : s.hdr.isEpoch = false := by simpa using hep
      simp [epochs, hep'] at he
      have := ih p rest' rfl e1 tl he
      exact ⟨this.1, by omega⟩

theorem inEffect_ne_nil {R : Router} {st : St} {g : Genesis} (hG : GenOK g) {id : Id} {p : Stored} {l : List Stored}
    (hc : GChain R st g id (p :: l)) {n : Nat} (hn : p.hdr.number < n) : inEffect R g n (p :: l) ≠ [] := by
  obtain ⟨e1, e2, tl, he, _⟩ := epochs_two hc
  obtain ⟨h1, h2⟩ := epochs_head_facts hG hc p l rfl e1 (e2 :: tl) he
  unfold inEffect
  rw [he]
  simp only
  split
  · rename_i hcond
    simp at hcond
    intro hnil
    rw [hnil] at hcond
    simp at hcond
    omega
  · exact h1

theorem checkTurn_err (h : Hdr) (signer : Addr) (k : Nat) :
    ∀ (V : List Addr) (idx : Nat) (valid : Bool) (e : Rej), checkTurn h signer k V idx valid = .error e → e = .turn := by
  intro V
  induction V with
  | nil => intro idx valid e hc; simp [checkTurn] at hc
  | cons v vs ih =>
    intro idx valid e hc
    simp only [checkTurn] at hc
    split at hc
    · split at hc
      · split at hc
        · cases hc; rfl
        · exact ih _ _ _ hc
      · split at hc
        · cases hc; rfl
        · exact ih _ _ _ hc
    · exact ih _ _ _ hc

theorem inTurnSet_err {R : Router} {h : Hdr} {phv pphv : HV} {e : Rej} (hs : inTurnSet R h phv pphv = .error e) :
    e = .epoch := by
  unfold inTurnSet at hs
  split at hs
  · split at hs
    · split at hs
      · cases hs; rfl
      · cases hs
    · cases hs
  · split at hs
    · cases hs; rfl
    · cases hs

theorem verifyHeader_err {R : Router} {p : Stored} {h : Hdr} {e : Rej} (hv : verifyHeader R p h = .error e) :
    internalRej e = false := by
  unfold verifyHeader at hv
  by_cases c1 : h.extra.length < extraVanity
  · rw [if_pos c1] at hv; cases hv; rfl
  rw [if_neg c1] at hv
  by_cases c2 : h.extra.length < extraVanity + extraSeal
  · rw [if_pos c2] at hv; cases hv; rfl
  rw [if_neg c2] at hv
  by_cases c3 : ((h.extra.length - extraVanity - extraSeal) % addrLen != 0) = true
  · rw [if_pos c3] at hv; cases hv; rfl
  rw [if_neg c3] at hv
  by_cases c4 : (!h.mixZero) = true
  · rw [if_pos c4] at hv; cases hv; rfl
  rw [if_neg c4] at hv
  by_cases c5 : (!h.uncleOk) = true
  · rw [if_pos c5] at hv; cases hv; rfl
  rw [if_neg c5] at hv
  by_cases c6 : (h.difficulty != diffInTurn && h.difficulty != diffNoTurn) = true
  · rw [if_pos c6] at hv; cases hv; rfl
  rw [if_neg c6] at hv
  by_cases c7 : (!R.capLate && decide (h.gasLimit > gasCap)) = true
  · rw [if_pos c7] at hv; cases hv; rfl
  rw [if_neg c7] at hv
  by_cases c8 : (p.hdr.number + 1 != h.number) = true
  · rw [if_pos c8] at hv; cases hv; rfl
  rw [if_neg c8] at hv
  by_cases c9 : (R.capLate && decide (h.gasLimit > gasCap)) = true
  · rw [if_pos c9] at hv; cases hv; rfl
  rw [if_neg c9] at hv
  by_cases c10 : periodBad R p h = true
  · rw [if_pos c10] at hv; cases hv; rfl
  rw [if_neg c10] at hv
  by_cases c11 : h.gasUsed > h.gasLimit
  · rw [if_pos c11] at hv; cases hv; rfl
  rw [if_neg c11] at hv
  by_cases c12 : (R.baseFeeNil && h.baseFee.isSome) = true
  · rw [if_pos c12] at hv; cases hv; rfl
  rw [if_neg c12] at hv
  by_cases c13 : gasLimitBad R p h = true
  · rw [if_pos c13] at hv; cases hv; rfl
  rw [if_neg c13] at hv
  by_cases c14 : h.number = 0
  · simp at c8; omega
  rw [if_neg c14] at hv
  cases hsig : h.signer with
  | none => rw [hsig] at hv; cases hv; rfl
  | some s =>
    rw [hsig] at hv
    simp only at hv
    by_cases hsc : (s != h.coinbase) = true
    · rw [if_pos hsc] at hv; cases hv; rfl
    · rw [if_neg hsc] at hv; cases hv

/-- Under the invariant no header makes `SyncBlockHeader` panic (the modulus `len(validators)` is never zero) or fail
with an internal error: the walks over stored ancestors always find their records, the unbounded loops end within their
fuel, and `addHeader` always finds the canonical head. -/
theorem syncHeader_total {R : Router} {st : St} (hI : Inv R st) (h : Hdr) :
    internalOut (syncHeader R st h).2 = false := by
  unfold syncHeader
  cases h1 : st.hdrs h.id with
  | some _ => simp [internalOut]
  | none =>
    simp only [Option.isSome_none, Bool.false_eq_true, if_false]
    cases h2 : st.hdrs h.parent with
    | none => rfl
    | some p =>
      simp only
      cases h3 : verifyHeader R p h with
      | error e => simp only [internalOut]; exact verifyHeader_err h3
      | ok signer =>
        simp only
        cases h4 : st.genesis with
        | none => rw [(hI.noGen h4).1] at h2; cases h2
        | some g =>
          simp only
          obtain ⟨hG, hroot, hall, hCI⟩ := hI.gen g h4
          obtain ⟨l, hc0⟩ := hall h.parent p h2
          have hp : h.parent = p.hdr.id := hc0.head_id.1.symm
          have hc : GChain R st g p.hdr.id (p :: l) := by rw [← hp]; exact hc0
          obtain ⟨hwf, hnum, hsig, hsc⟩ := verifyHeader_ok h3
          obtain ⟨phv, pphv, ls, e1, e2, tl, hp1, hep, hp3, hp4, hp5, hp6⟩ := prevHV_spec hc hp
          rw [hp1]
          simp only
          cases h6 : inTurnSet R h phv pphv with
          | error e => simp only [internalOut]; rw [inTurnSet_err h6]; rfl
          | ok inTurn =>
            simp only
            obtain ⟨hv, _⟩ := inTurnSet_ok hep hp3 hp4 h6
            by_cases h7 : recentBad ls h.number (inTurn.vals.length / 2) = true
            · rw [if_pos h7]; rfl
            · rw [if_neg h7]
              have hne : inTurn.vals.length ≠ 0 := by
                intro h0
                have := inEffect_ne_nil (R := R) hG hc (n := h.number) (by omega)
                rw [← hv] at this
                exact this (List.eq_nil_of_length_eq_zero h0)
              rw [if_neg hne]
              cases h9 : checkTurn h signer (h.number % inTurn.vals.length) inTurn.vals 0 false with
              | error e => simp only [internalOut]; rw [checkTurn_err _ _ _ _ _ _ _ h9]; rfl
              | ok b =>
                cases b with
                | false => rfl
                | true =>
                  simp only
                  obtain ⟨st'', ha1, _⟩ := addHeader_spec hCI phv h1 hc hp hnum
                  rw [ha1]
                  rfl

/-! ## msc (clique-style router): invariant, fork choice, what acceptance establishes -/
namespace MscP
open Poly.Model.LCPosa.Msc

/-- fixed-format fields of an accepted msc header -/
structure MWF (C : Cfg) (h : Hdr) : Prop where
  len : extraVanity + extraSeal ≤ h.extra.length
  plain : h.number % C.epoch ≠ 0 → h.extra.length = extraVanity + extraSeal
  checkpoint : h.number % C.epoch = 0 →
    extraVanity + extraSeal < h.extra.length ∧ (h.extra.length - (extraVanity + extraSeal)) % addrLen = 0 ∧
    h.coinbase = zeroAddr ∧ h.nonce = .drop
  nonce : h.nonce ≠ .other
  mix : h.mixZero = true
  uncle : h.uncleOk = true
  diff : h.difficulty = diffInTurn ∨ h.difficulty = diffNoTurn

/-- what the chain invariant of msc records per stored header (facts that do not depend on the store) -/
structure MGood (C : Cfg) (s : Stored) (l : List Stored) : Prop where
  link : Link s l
  sealOk : ∃ a, s.hdr.signer = some a
  wf : MWF C s.hdr
  /-- `LastVoteParentOrEpoch` as recorded by `addHeader` -/
  vlink : ∀ p rest, l = p :: rest → s.epochParent = lastVoteLink C p s.hdr

instance (C : Cfg) : HasLink (MGood C) := ⟨fun h => h.link⟩

abbrev MChain (C : Cfg) (st : St) (g : Genesis) : Id → List Stored → Prop := GChainP (MGood C) st g

structure MInv (C : Cfg) (st : St) : Prop where
  noGen : st.genesis = none → (∀ id, st.hdrs id = none) ∧ (∀ i, st.canon i = none)
  gen : ∀ g, st.genesis = some g →
    st.hdrs g.hdr.id = some (rootOf g) ∧ g.hdr.number % C.epoch = 0 ∧ C.epoch ≠ 0 ∧
    (∀ id s, st.hdrs id = some s → ∃ l, MChain C st g id (s :: l)) ∧ CanonInv st g

/-- the search over the most recent headers, on a chain -/
theorem recentSearch_spec {C : Cfg} {st : St} {g : Genesis} (target : Addr) :
    ∀ (n : Nat) {hash : Id} {c : List Stored} {s : Stored} {rest : List Stored} {ls r : Option Nat},
      MChain C st g hash c → c = s :: rest →
      recentSearch st.hdrs g.hdr.number target n s.hdr.number hash ls = .ok r →
      (∀ a ∈ c.take n, a.hdr.signer ≠ some target) ∨
      (∃ (i : Nat) (a : Stored), c[i]? = some a ∧ i < n ∧ a.hdr.signer = some target ∧ r = some a.hdr.number ∧
        ∀ (j : Nat) (b : Stored), j < i → c[j]? = some b → b.hdr.signer ≠ some target) := by
  intro n
  induction n with
  | zero => intro hash c s rest ls r _ _ _; left; simp
  | succ n ih =>
    intro hash c s rest ls r hc hcs hr
    subst hcs
    have hs := hc.head_id.2
    simp only [recentSearch, hs, bne_self_eq_false, Bool.false_eq_true, if_false] at hr
    cases hsig : s.hdr.signer with
    | none => rw [hsig] at hr; cases hr
    | some signer =>
      rw [hsig] at hr
      simp only at hr
      by_cases ht : signer = target
      · subst ht
        simp only [beq_self_eq_true, if_true] at hr
        cases hr
        right
        exact ⟨0, s, by simp, by omega, hsig, rfl, by intro j b hj; omega⟩
      · have hb : (signer == target) = false := by simpa using ht
        simp only [hb, Bool.false_eq_true, if_false] at hr
        have hne : s.hdr.signer ≠ some target := by rw [hsig]; simpa using ht
        by_cases hg : s.hdr.number ≤ g.hdr.number
        · -- the trust root has been reached
          simp only [hg, if_true] at hr
          left
          have hroot : hash = g.hdr.id := by
            by_cases hh : hash = g.hdr.id
            · exact hh
            · obtain ⟨_, _, hcr, hgd⟩ := hc.inv_step hh
              obtain ⟨p, rest', hl, hnum, _⟩ := hgd.link
              have := hcr.number_ge p (by rw [hl]; exact List.mem_cons_self)
              omega
          subst hroot
          have := hc.at_root
          simp at this
          obtain ⟨rfl, rfl⟩ := this
          intro b hb'
          have : b = rootOf g := by
            have := List.mem_of_mem_take hb'
            simpa using this
          subst this
          exact hne
        · simp only [hg, if_false] at hr
          have hh : hash ≠ g.hdr.id := by
            intro he
            subst he
            have := hc.at_root
            simp at this
            rw [this.1] at hg
            simp [rootOf] at hg
          obtain ⟨_, _, hcr, hgd⟩ := hc.inv_step hh
          obtain ⟨p, rest', hl, hnum, _⟩ := hgd.link
          subst hl
          have hpn : s.hdr.number - 1 = p.hdr.number := by omega
          rw [hpn] at hr
          rcases ih hcr rfl hr with h1 | ⟨i, a, h1, h2, h3, h4, h5⟩
          · left
            intro b hb'
            simp [List.take_succ_cons] at hb'
            rcases hb' with rfl | hb'
            · exact hne
            · exact h1 b (by simpa using hb')
          · right
            refine ⟨i + 1, a, by simpa using h1, by omega, h3, h4, ?_⟩
            intro j b hj hb'
            cases j with
            | zero => simp at hb'; subst hb'; exact hne
            | succ j => exact h5 j b (by omega) (by simpa using hb')

/-- What an accepting run of msc `verifyHeader` established. -/
theorem verifyHeader_ok {C : Cfg} {st : St} {g : Genesis} {p : Stored} {h : Hdr} {snap : Snap}
    (hv : Msc.verifyHeader C st g p h = .inl (.ok snap)) :
    MWF C h ∧ p.hdr.number + 1 = h.number ∧ ∃ signer ls, h.signer = some signer ∧
      Msc.snapshot st g (h.number - 1) h.parent signer = .ok snap ls ∧ signer ∈ snap.signers ∧
      (h.number % C.epoch = 0 → h.valBytes = snap.signers.flatten) ∧
      Msc.recentBad ls h.number (snap.signers.length / 2 + 1) = false ∧
      (h.number % snap.signers.length = indexOf signer snap.signers → h.difficulty = diffInTurn) ∧
      (h.number % snap.signers.length ≠ indexOf signer snap.signers → h.difficulty = diffNoTurn) := by
  simp only [Msc.verifyHeader] at hv
  by_cases c1 : (h.number % C.epoch == 0 && h.coinbase != zeroAddr) = true
  · rw [if_pos c1] at hv; cases hv
  rw [if_neg c1] at hv
  by_cases c2 : (h.nonce == Nonce.other) = true
  · rw [if_pos c2] at hv; cases hv
  rw [if_neg c2] at hv
  by_cases c3 : (h.number % C.epoch == 0 && h.nonce != Nonce.drop) = true
  · rw [if_pos c3] at hv; cases hv
  rw [if_neg c3] at hv
  by_cases c4 : h.extra.length < extraVanity
  · rw [if_pos c4] at hv; cases hv
  rw [if_neg c4] at hv
  by_cases c5 : h.extra.length < extraVanity + extraSeal
  · rw [if_pos c5] at hv; cases hv
  rw [if_neg c5] at hv
  by_cases c6 : (!(h.number % C.epoch == 0) && h.extra.length != extraVanity + extraSeal) = true
  · rw [if_pos c6] at hv; cases hv
  rw [if_neg c6] at hv
  by_cases c7 : (h.number % C.epoch == 0 &&
      (h.extra.length == extraVanity + extraSeal || (h.extra.length - extraVanity - extraSeal) % addrLen != 0)) = true
  · rw [if_pos c7] at hv; cases hv
  rw [if_neg c7] at hv
  by_cases c8 : (!h.mixZero) = true
  · rw [if_pos c8] at hv; cases hv
  rw [if_neg c8] at hv
  by_cases c9 : (!h.uncleOk) = true
  · rw [if_pos c9] at hv; cases hv
  rw [if_neg c9] at hv
  by_cases c10 : (h.difficulty != diffInTurn && h.difficulty != diffNoTurn) = true
  · rw [if_pos c10] at hv; cases hv
  rw [if_neg c10] at hv
  by_cases c11 : (p.hdr.number + 1 != h.number) = true
  · rw [if_pos c11] at hv; cases hv
  rw [if_neg c11] at hv
  by_cases c12 : p.hdr.time + C.period > h.time
  · rw [if_pos c12] at hv; cases hv
  rw [if_neg c12] at hv
  by_cases c13 : h.number = 0
  · rw [if_pos c13] at hv; cases hv
  rw [if_neg c13] at hv
  cases hsig : h.signer with
  | none => rw [hsig] at hv; cases hv
  | some signer =>
  rw [hsig] at hv
  simp only at hv
  cases hsn : Msc.snapshot st g (h.number - 1) h.parent signer with
  | panic => rw [hsn] at hv; cases hv
  | err e => rw [hsn] at hv; cases hv
  | ok sn ls =>
  rw [hsn] at hv
  simp only at hv
  by_cases d1 : (!sn.signers.contains signer) = true
  · rw [if_pos d1] at hv; cases hv
  rw [if_neg d1] at hv
  by_cases d2 : (h.number % C.epoch == 0 && h.valBytes != sn.signers.flatten) = true
  · rw [if_pos d2] at hv; cases hv
  rw [if_neg d2] at hv
  by_cases d3 : Msc.recentBad ls h.number (sn.signers.length / 2 + 1) = true
  · rw [if_pos d3] at hv; cases hv
  rw [if_neg d3] at hv
  by_cases d4 : ((h.number % sn.signers.length == indexOf signer sn.signers) && h.difficulty != diffInTurn) = true
  · rw [if_pos d4] at hv; cases hv
  rw [if_neg d4] at hv
  by_cases d5 : (!(h.number % sn.signers.length == indexOf signer sn.signers) && h.difficulty != diffNoTurn) = true
  · rw [if_pos d5] at hv; cases hv
  rw [if_neg d5] at hv
  injection hv with hv
  injection hv with hv
  subst hv
  simp at c1 c2 c3 c6 c7 c8 c9 c10 c11 d1 d2 d3 d4 d5
  refine ⟨⟨by omega, ?_, ?_, ?_, c8, c9, ?_⟩, c11, signer, ls, rfl, hsn, d1, ?_, d3, d4, d5⟩
  · intro hne
    exact c6 hne
  · intro he
    have := c7 he
    refine ⟨by simp only [extraVanity, extraSeal] at *; omega, ?_, c1 he, c3 he⟩
    simp only [extraVanity, extraSeal, addrLen] at *
    omega
  · intro hn; exact c2 hn
  · by_cases hd : h.difficulty = diffInTurn
    · exact Or.inl hd
    · exact Or.inr (c10 hd)
  · intro he
    exact d2 he

theorem snapshotTail_ok_search {st : St} {g : Genesis} {n : Nat} {hash : Id} {target : Addr} {snap0 snap : Snap}
    {ls0 ls : Option Nat} {hs : List Hdr} (h : snapshotTail st g n hash target snap0 ls0 hs = .ok snap ls) :
    ∃ ls1, recentSearch st.hdrs g.hdr.number target (snap.signers.length / 2) n hash ls1 = .ok ls := by
  unfold snapshotTail at h
  cases hap : applyAll target snap0 ls0 hs with
  | error e => rw [hap] at h; cases h
  | ok r =>
    obtain ⟨sn, ls1⟩ := r
    rw [hap] at h
    simp only at h
    cases hrs : recentSearch st.hdrs g.hdr.number target (sn.signers.length / 2) n hash ls1 with
    | error e => rw [hrs] at h; cases h
    | ok ls2 =>
      rw [hrs] at h
      injection h with h1 h2
      subst h1 h2
      exact ⟨ls1, hrs⟩

theorem snapshot_ok_search {st : St} {g : Genesis} {n : Nat} {hash : Id} {target : Addr} {snap : Snap} {ls : Option Nat}
    (h : Msc.snapshot st g n hash target = .ok snap ls) :
    ∃ ls1, recentSearch st.hdrs g.hdr.number target (snap.signers.length / 2) n hash ls1 = .ok ls := by
  unfold Msc.snapshot at h
  by_cases c0 : n < g.hdr.number
  · rw [if_pos c0] at h; cases h
  rw [if_neg c0] at h
  cases hcol : collect st.hdrs (n + 2) hash [] with
  | error e => rw [hcol] at h; cases h
  | ok r =>
    obtain ⟨cp, nf⟩ := r
    rw [hcol] at h
    simp only at h
    by_cases c1 : cp.hdr.extra.length < extraVanity + extraSeal
    · rw [if_pos c1] at h; cases h
    rw [if_neg c1] at h
    cases hs : cp.hdr.signer with
    | none => rw [hs] at h; cases h
    | some cps =>
      rw [hs] at h
      exact snapshotTail_ok_search h

theorem syncHeader_cases (C : Cfg) (st : St) (h : Hdr) :
    (Msc.syncHeader C st h).1 = st ∨
    ∃ p g snap st', st.hdrs h.id = none ∧ st.hdrs h.parent = some p ∧ st.genesis = some g ∧
      Msc.verifyHeader C st g p h = .inl (.ok snap) ∧
      addHeader st h p ⟨0, [], lastVoteLink C p h⟩ = .ok st' ∧ Msc.syncHeader C st h = (st', .ok) := by
  unfold Msc.syncHeader
  cases h1 : st.hdrs h.id with
  | some _ => left; simp
  | none =>
    simp only [Option.isSome_none, Bool.false_eq_true, if_false]
    cases h2 : st.hdrs h.parent with
    | none => left; rfl
    | some p =>
      simp only
      cases h4 : st.genesis with
      | none => left; rfl
      | some g =>
        simp only
        cases h3 : Msc.verifyHeader C st g p h with
        | inr u => left; rfl
        | inl r =>
          cases r with
          | error e => left; rfl
          | ok snap =>
            simp only
            cases h10 : addHeader st h p ⟨0, [], lastVoteLink C p h⟩ with
            | error e => left; rfl
            | ok st' =>
              right
              refine ⟨p, g, snap, st', ?_, ?_, ?_, ?_, ?_, ?_⟩ <;> first | rfl | trivial | assumption

/-- msc `SyncBlockHeader` keeps the invariant. -/
theorem syncHeader_inv {C : Cfg} {st : St} (hI : MInv C st) (h : Hdr) : MInv C (Msc.syncHeader C st h).1 := by
  rcases syncHeader_cases C st h with hsame | ⟨p, g, snap, st', h1, h2, h4, h3, h10, h11⟩
  · rw [hsame]; exact hI
  · rw [h11]
    obtain ⟨hroot, hgn, hep, hall, hCI⟩ := hI.gen g h4
    obtain ⟨l, hc0⟩ := hall h.parent p h2
    have hp : h.parent = p.hdr.id := hc0.head_id.1.symm
    have hc : MChain C st g p.hdr.id (p :: l) := by rw [← hp]; exact hc0
    obtain ⟨hwf, hnum, signer, ls, hsig, _⟩ := verifyHeader_ok h3
    obtain ⟨st'', ha1, ha2, ha3, ha4⟩ := addHeader_spec hCI ⟨0, [], lastVoteLink C p h⟩ h1 hc hp hnum
    rw [h10] at ha1
    injection ha1 with ha1
    subst ha1
    have hne : h.id ≠ g.hdr.id := by
      intro he; rw [he, hroot] at h1; cases h1
    have hext : ∀ id s, st.hdrs id = some s → st'.hdrs id = some s := by
      intro id s hs
      rw [ha3, upd_other]
      · exact hs
      · intro he; rw [he, h1] at hs; cases hs
    have hgood : MGood C ⟨h, h.difficulty + p.td, lastVoteLink C p h⟩ (p :: l) :=
      ⟨⟨p, l, rfl, hnum, rfl⟩, ⟨signer, hsig⟩, hwf, by intro p' rest' he; simp at he; rw [← he.1]⟩
    constructor
    · intro hn; rw [ha2, h4] at hn; cases hn
    · intro g' hg'
      rw [ha2, h4] at hg'
      injection hg' with hg'
      subst hg'
      refine ⟨hext _ _ hroot, hgn, hep, ?_, ha4⟩
      intro id s hs
      by_cases hid : id = h.id
      · subst hid
        rw [ha3, upd_same] at hs
        injection hs with hs
        subst hs
        refine ⟨p :: l, .step h.id _ (p :: l) hne (by rw [ha3, upd_same]) rfl ?_ hgood⟩
        simp only
        rw [hp]
        exact hc.mono hext
      · rw [ha3, upd_other _ _ _ _ hid] at hs
        obtain ⟨l', hc'⟩ := hall id s hs
        exact ⟨l', hc'.mono hext⟩

/-- msc `SyncGenesisHeader` establishes the invariant. -/
theorem syncGenesis_inv {C : Cfg} {st : St} (hI : MInv C st) (g : Hdr) : MInv C (Msc.syncGenesis C st g).1 := by
  unfold Msc.syncGenesis
  by_cases c0 : C.epoch = 0 ∨ C.period = 0
  · rw [if_pos c0]; exact hI
  rw [if_neg c0]
  cases hgen : st.genesis with
  | some _ => simpa using hI
  | none =>
    obtain ⟨hn1, hn2⟩ := hI.noGen hgen
    simp only [Option.isSome_none, Bool.false_eq_true, if_false]
    by_cases c1 : (g.number % C.epoch != 0) = true
    · rw [if_pos c1]; exact hI
    rw [if_neg c1]
    by_cases c2 : g.extra.length = extraVanity + extraSeal
    · rw [if_pos c2]; exact hI
    rw [if_neg c2]
    by_cases c3 : g.extra.length > extraVanity + extraSeal ∧ ((g.extra.length - (extraVanity + extraSeal)) % addrLen != 0) = true
    · rw [if_pos c3]; exact hI
    rw [if_neg c3]
    by_cases c4 : g.extra.length < extraVanity + extraSeal ∧ (((extraVanity + extraSeal) - g.extra.length) % addrLen != 0) = true
    · rw [if_pos c4]; exact hI
    rw [if_neg c4]
    constructor
    · intro hn; cases hn
    · intro g' hg'
      simp only at hg'
      injection hg' with hg'
      subst hg'
      refine ⟨by simp [upd_same, rootOf], by simpa using c1, by omega, ?_, ?_⟩
      · intro id s hs
        simp only at hs
        by_cases hid : id = g.id
        · subst hid
          rw [upd_same] at hs
          injection hs with hs
          subst hs
          exact ⟨[], .root (by simp [upd_same, rootOf])⟩
        · rw [upd_other _ _ _ _ hid, hn1] at hs
          cases hs
      · constructor
        · refine ⟨⟨g, g.difficulty, none⟩, by simp [upd_same], by simp [upd_same], rfl, ?_⟩
          intro id s hs
          simp only at hs
          by_cases hid : id = g.id
          · subst hid
            rw [upd_same] at hs
            injection hs with hs
            subst hs
            exact Nat.le_refl _
          · rw [upd_other _ _ _ _ hid, hn1] at hs
            cases hs
        · intro i hi
          simp only at hi ⊢
          rw [upd_other _ _ _ _ (by omega)]
          exact hn2 i
        · intro i hi
          simp only at hi ⊢
          rw [upd_other _ _ _ _ (by omega)]
          exact hn2 i
        · simp [upd_same]
        · intro i h1 h2
          simp only at h1 h2
          omega

theorem empty_inv (C : Cfg) : MInv C St.empty :=
  ⟨fun _ => ⟨fun _ => rfl, fun _ => rfl⟩, fun g hg => by simp [St.empty] at hg⟩

theorem run_inv {C : Cfg} : ∀ (ops : List Msc.Op) {st : St}, MInv C st → MInv C (Msc.run C st ops) := by
  intro ops
  induction ops with
  | nil => intro st hI; exact hI
  | cons o os ih =>
    intro st hI
    apply ih
    cases o with
    | genesis g => exact syncGenesis_inv hI g
    | hdr h => exact syncHeader_inv hI h


/-! ### The walk over `LastVoteParentOrEpoch` links collects exactly the votes since the nearest checkpoint -/

def isCp (C : Cfg) (s : Stored) : Bool := s.hdr.number % C.epoch == 0
def isVote (s : Stored) : Bool := s.hdr.coinbase != zeroAddr

/-- a member of a chain has no `LastVoteParentOrEpoch` link exactly when it is a checkpoint (the trust root is one) -/
theorem link_none_iff {C : Cfg} {st : St} {g : Genesis} (hgn : g.hdr.number % C.epoch = 0) :
    ∀ {id c}, MChain C st g id c → ∀ s rest, c = s :: rest → (s.epochParent = none ↔ isCp C s = true) := by
  intro id c h
  induction h with
  | root _ =>
    intro s rest hc
    simp at hc
    obtain ⟨rfl, rfl⟩ := hc
    simp [rootOf, isCp, hgn]
  | step id s l hne hs hid hc hg ih =>
    intro s' rest hc'
    simp at hc'
    obtain ⟨rfl, rfl⟩ := hc'
    obtain ⟨p, rest', hl, _, _⟩ := hg.link
    rw [hg.vlink p rest' hl]
    have ihp := ih p rest' hl
    unfold lastVoteLink
    by_cases hcp : s.hdr.number % C.epoch = 0
    · simp [hcp, isCp]
    · have : isCp C s = false := by simp [isCp, hcp]
      simp only [this, Bool.false_eq_true, iff_false]
      simp only [bne_iff_ne, ne_eq, hcp, not_false_eq_true, if_true]
      by_cases hp1 : p.hdr.number % C.epoch = 0
      · simp [hp1]
      · by_cases hp2 : p.hdr.coinbase = zeroAddr
        · simp [hp1, hp2]
          intro hn
          have := ihp.mp hn
          simp [isCp, hp1] at this
        · simp [hp1, hp2]

theorem collect_fuel_mono (hdrs : Id → Option Stored) :
    ∀ (fuel : Nat) (id : Id) (acc : List Hdr) (r : Stored × List Hdr),
      collect hdrs fuel id acc = .ok r → collect hdrs (fuel + 1) id acc = .ok r := by
  intro fuel
  induction fuel with
  | zero => intro id acc r h; simp [collect] at h
  | succ n ih =>
    intro id acc r h
    simp only [collect] at h ⊢
    cases hs : hdrs id with
    | none => rw [hs] at h; cases h
    | some s =>
      rw [hs] at h
      simp only at h ⊢
      cases he : s.epochParent with
      | none => rw [he] at h; exact h
      | some next =>
        rw [he] at h
        simp only at h ⊢
        exact ih _ _ _ h

/-- the vote headers above the nearest checkpoint of a chain, newest first -/
def votesOf (C : Cfg) (c : List Stored) : List Hdr :=
  (((sinceCheckpoint C c).1.filter (fun s => s.hdr.coinbase != zeroAddr))).map (·.hdr)

theorem collect_spec {C : Cfg} {st : St} {g : Genesis} (hgn : g.hdr.number % C.epoch = 0) :
    ∀ {id c}, MChain C st g id c → ∀ (fuel : Nat) (acc : List Hdr), c.length ≤ fuel →
      ∃ cp, (sinceCheckpoint C c).2 = some cp ∧ collect st.hdrs fuel id acc = .ok (cp, acc ++ votesOf C c) := by
  intro id c h
  induction h with
  | root h0 =>
    intro fuel acc hf
    cases fuel with
    | zero => simp at hf
    | succ f =>
      refine ⟨rootOf g, by simp [sinceCheckpoint], ?_⟩
      simp [collect, h0, rootOf, votesOf, sinceCheckpoint]
  | step id s l hne hs hid hc hg ih =>
    intro fuel acc hf
    cases fuel with
    | zero => simp at hf
    | succ f =>
      have hchain : MChain C st g id (s :: l) := .step id s l hne hs hid hc hg
      have hnone := link_none_iff hgn hchain s l rfl
      obtain ⟨p, rest', hl, _, _⟩ := hg.link
      subst hl
      by_cases hcp : isCp C s = true
      · -- a checkpoint ends the walk
        have he := hnone.mpr hcp
        have hcp' : (s.hdr.number % C.epoch == 0) = true := hcp
        refine ⟨s, by simp [sinceCheckpoint, hcp'], ?_⟩
        simp [collect, hs, he, votesOf, sinceCheckpoint, hcp']
      · have hcpf : (s.hdr.number % C.epoch == 0) = false := by simpa [isCp] using hcp
        have hne' : s.epochParent ≠ none := fun hn => hcp (hnone.mp hn)
        obtain ⟨y, hy⟩ := Option.ne_none_iff_exists'.mp hne'
        have hlen : (p :: rest').length ≤ f := by simp at hf ⊢; omega
        -- the accumulator after visiting s
        obtain ⟨cp, hcp2, hcol⟩ := ih f (if s.hdr.coinbase != zeroAddr then acc ++ [s.hdr] else acc) hlen
        refine ⟨cp, by simp [sinceCheckpoint, hcpf, hcp2], ?_⟩
        have hvotes : acc ++ votesOf C (s :: p :: rest') =
            (if s.hdr.coinbase != zeroAddr then acc ++ [s.hdr] else acc) ++ votesOf C (p :: rest') := by
          simp only [votesOf, sinceCheckpoint, hcpf, Bool.false_eq_true, if_false, List.filter_cons]
          by_cases hv : (s.hdr.coinbase != zeroAddr) = true
          · simp [hv]
          · have hv' : (s.hdr.coinbase != zeroAddr) = false := by simpa using hv
            simp [hv']
        rw [hvotes]
        simp only [collect, hs, hy]
        -- where does the link of s point?
        have hv := hg.vlink p rest' rfl
        rw [hy] at hv
        unfold lastVoteLink at hv
        have hsn : (s.hdr.number % C.epoch != 0) = true := by simpa using hcpf
        simp only [hsn, if_true] at hv
        by_cases hp1 : (p.hdr.number % C.epoch == 0) = true
        · simp only [hp1, if_true] at hv
          have : y = p.hdr.id := (Option.some.inj hv)
          rw [this, hc.head_id.1]
          exact hcol
        · simp only [hp1, Bool.false_eq_true, if_false] at hv
          by_cases hp2 : (p.hdr.coinbase != zeroAddr) = true
          · simp only [hp2, if_true] at hv
            have : y = p.hdr.id := (Option.some.inj hv)
            rw [this, hc.head_id.1]
            exact hcol
          · simp only [hp2, Bool.false_eq_true, if_false] at hv
            -- p carries no vote and is no checkpoint: the walk from p goes on to the same header y without collecting p
            have hps := hc.head_id.2
            cases f with
            | zero => simp at hlen
            | succ f0 =>
              simp only [collect, hps, ← hv] at hcol
              have hp2' : (p.hdr.coinbase != zeroAddr) = false := by simpa using hp2
              simp only [hp2', Bool.false_eq_true, if_false] at hcol
              exact collect_fuel_mono _ _ _ _ _ hcol

/-- the snapshot part of `applyAll` does not depend on the target signer -/
def applySnap : Snap → List Hdr → Except Rej Snap
  | s, [] => .ok s
  | s, h :: hs => match applyOne s h with
    | .error e => .error e
    | .ok s' => applySnap s' hs

theorem applyAll_snap (target : Addr) :
    ∀ (hs : List Hdr) (s : Snap) (ls : Option Nat),
      (∀ sn x, applyAll target s ls hs = .ok (sn, x) → applySnap s hs = .ok sn) ∧
      (∀ sn, applySnap s hs = .ok sn → ∃ x, applyAll target s ls hs = .ok (sn, x)) := by
  intro hs
  induction hs with
  | nil =>
    intro s ls
    constructor
    · intro sn x h; simp [applyAll] at h; simp [applySnap, h.1]
    · intro sn h; simp [applySnap] at h; exact ⟨ls, by simp [applyAll, h]⟩
  | cons h hs ih =>
    intro s ls
    simp only [applyAll, applySnap]
    cases ha : applyOne s h with
    | error e => simp
    | ok s' =>
      simp only
      exact ih s' _

/-- On a chain, a successful `snapshot` of the code is the clique replay over the plain parent chain. -/
theorem snapshot_is_replay {C : Cfg} {st : St} {g : Genesis} (hgn : g.hdr.number % C.epoch = 0)
    {p : Stored} {l : List Stored} (hc : MChain C st g p.hdr.id (p :: l)) {target : Addr} {snap : Snap} {ls : Option Nat}
    (h : Msc.snapshot st g p.hdr.number p.hdr.id target = .ok snap ls) : Msc.replay C (p :: l) = some snap := by
  unfold Msc.snapshot at h
  by_cases c0 : p.hdr.number < g.hdr.number
  · rw [if_pos c0] at h; cases h
  rw [if_neg c0] at h
  have hlen := hc.length_eq p l rfl
  obtain ⟨cp, hcp, hcol⟩ := collect_spec hgn hc (p.hdr.number + 2) [] (by simp; omega)
  rw [hcol] at h
  simp only [List.nil_append] at h
  by_cases c1 : cp.hdr.extra.length < extraVanity + extraSeal
  · rw [if_pos c1] at h; cases h
  rw [if_neg c1] at h
  cases hs : cp.hdr.signer with
  | none => rw [hs] at h; cases h
  | some cps =>
    rw [hs] at h
    simp only at h
    unfold snapshotTail at h
    cases hap : applyAll target ⟨cp.hdr.vals.foldl (fun acc a => insertSigner a acc) [], [], []⟩
        (if cps == target then some cp.hdr.number else none) (votesOf C (p :: l)).reverse with
    | error e => rw [hap] at h; cases h
    | ok r =>
      obtain ⟨sn, ls1⟩ := r
      rw [hap] at h
      simp only at h
      cases hrs : recentSearch st.hdrs g.hdr.number target (sn.signers.length / 2) p.hdr.number p.hdr.id ls1 with
      | error e => rw [hrs] at h; cases h
      | ok ls2 =>
        rw [hrs] at h
        injection h with h1 h2
        subst h1
        have hsn := (applyAll_snap target _ _ _).1 sn ls1 hap
        obtain ⟨x, hx⟩ := (applyAll_snap zeroAddr (votesOf C (p :: l)).reverse
          ⟨cp.hdr.vals.foldl (fun acc a => insertSigner a acc) [], [], []⟩ none).2 sn hsn
        unfold Msc.replay
        have hsc : sinceCheckpoint C (p :: l) = ((sinceCheckpoint C (p :: l)).1, some cp) := by
          rw [← hcp]
        rw [hsc]
        simp only
        have hrev : (votesOf C (p :: l)).reverse =
            (((sinceCheckpoint C (p :: l)).1.filter (fun s => s.hdr.coinbase != zeroAddr)).reverse).map (·.hdr) := by
          simp [votesOf, List.map_reverse]
        rw [← hrev, hx]

/-- What acceptance of a header by msc establishes, in every state satisfying the invariant: the seal recovers to an
authorized signer of the snapshot the code computes for the parent, who sealed none of the ⌊|signers|/2⌋ nearest
ancestors (other than a trust root at block 0), with the in-turn / no-turn difficulty and the checkpoint list. -/
theorem accept_facts {C : Cfg} {st st' : St} (hI : MInv C st) {h : Hdr} (hok : Msc.syncHeader C st h = (st', .ok)) :
    ∃ g p l signer snap ls, st.genesis = some g ∧ st.hdrs h.parent = some p ∧ Chain st g h.parent (p :: l) ∧
      p.hdr.number + 1 = h.number ∧ h.signer = some signer ∧
      Msc.snapshot st g (h.number - 1) h.parent signer = .ok snap ls ∧ signer ∈ snap.signers ∧
      (∀ a ∈ (p :: l).take (snap.signers.length / 2), a.hdr.signer = some signer → a.hdr.number = 0) ∧
      (h.number % snap.signers.length = indexOf signer snap.signers → h.difficulty = diffInTurn) ∧
      (h.number % snap.signers.length ≠ indexOf signer snap.signers → h.difficulty = diffNoTurn) ∧
      (h.number % C.epoch = 0 → h.valBytes = snap.signers.flatten) ∧ MWF C h ∧ Msc.replay C (p :: l) = some snap := by
  rcases syncHeader_cases C st h with hsame | ⟨p, g, snap, st2, h1, h2, h4, h3, h10, h11⟩
  · -- a rejected or skipped header does not report ok
    exfalso
    unfold Msc.syncHeader at hok hsame
    cases h1 : st.hdrs h.id with
    | some _ => simp [h1] at hok
    | none =>
      simp only [h1, Option.isSome_none, Bool.false_eq_true, if_false] at hok
      cases h2 : st.hdrs h.parent with
      | none => simp [h2] at hok
      | some p =>
        simp only [h2] at hok
        cases h4 : st.genesis with
        | none => simp [h4] at hok
        | some g =>
          simp only [h4] at hok
          cases h3 : Msc.verifyHeader C st g p h with
          | inr u => simp [h3] at hok
          | inl r =>
            cases r with
            | error e => simp [h3] at hok
            | ok snap =>
              simp only [h3] at hok
              cases h10 : addHeader st h p ⟨0, [], lastVoteLink C p h⟩ with
              | error e => simp [h10] at hok
              | ok st2 =>
                obtain ⟨hroot, _, _, hall, hCI⟩ := hI.gen g h4
                obtain ⟨l, hc0⟩ := hall h.parent p h2
                have hp : h.parent = p.hdr.id := hc0.head_id.1.symm
                have hc : MChain C st g p.hdr.id (p :: l) := by rw [← hp]; exact hc0
                obtain ⟨_, hnum, _⟩ := verifyHeader_ok h3
                obtain ⟨st'', ha1, _, ha3, _⟩ := addHeader_spec hCI ⟨0, [], lastVoteLink C p h⟩ h1 hc hp hnum
                simp only [h1, h2, h4, h3, h10, Option.isSome_none, Bool.false_eq_true, if_false] at hsame
                rw [h10] at ha1
                injection ha1 with ha1
                rw [hsame] at ha1
                have := congrArg (fun s => s.hdrs h.id) ha1
                simp only [ha3, upd_same, h1] at this
                cases this
  · obtain ⟨hroot, hgn, _, hall, _⟩ := hI.gen g h4
    obtain ⟨l, hc0⟩ := hall h.parent p h2
    have hp : h.parent = p.hdr.id := hc0.head_id.1.symm
    obtain ⟨hwf, hnum, signer, ls, hsig, hsn, hmem, hcp, hrec, ht1, ht2⟩ := verifyHeader_ok h3
    have hpn : h.number - 1 = p.hdr.number := by omega
    have hrep : Msc.replay C (p :: l) = some snap := by
      have hc' : MChain C st g p.hdr.id (p :: l) := by rw [← hp]; exact hc0
      have hsn' := hsn
      rw [hpn, hp] at hsn'
      exact snapshot_is_replay hgn hc' hsn'
    refine ⟨g, p, l, signer, snap, ls, h4, h2, hc0.toChain, hnum, hsig, hsn, by simpa using hmem, ?_, ht1, ht2, hcp, hwf, hrep⟩
    obtain ⟨ls1, hrs⟩ := snapshot_ok_search hsn
    rw [hpn] at hrs
    have hc : MChain C st g h.parent (p :: l) := hc0
    rcases recentSearch_spec signer _ hc rfl hrs with hnone | ⟨i, a, hi, hlt, hsg, hr, hmin⟩
    · intro a ha hsa
      exact absurd hsa (hnone a ha)
    · -- found within the window: the recent test would have refused unless that block is number 0
      subst hr
      have hat := hc.number_at p l rfl i a hi
      simp [Msc.recentBad] at hrec
      intro b hb hsb
      by_cases ha0 : a.hdr.number = 0
      · -- then `a` is the last member, every member of the window has a number ≥ 0 = a.number: b = a or later
        obtain ⟨j, hj⟩ := List.mem_iff_getElem?.mp hb
        rw [List.getElem?_take] at hj
        split at hj
        · have hbt := hc.number_at p l rfl j b hj
          by_cases hji : j < i
          · exact absurd hsb (hmin j b hji hj)
          · omega
        · cases hj
      · have := hrec (by omega)
        omega

/-- What the msc invariant says about one stored header above the trust root. -/
theorem stored_good {C : Cfg} {st : St} (hI : MInv C st) {g : Genesis} (hg : st.genesis = some g)
    {id : Id} {s : Stored} (hs : st.hdrs id = some s) (hne : id ≠ g.hdr.id) :
    s.hdr.id = id ∧ (∃ l, Chain st g s.hdr.parent l) ∧
    ∀ l, Chain st g s.hdr.parent l → MGood C s l ∧ s.td = sumDiff (s :: l) := by
  obtain ⟨_, _, _, hall, _⟩ := hI.gen g hg
  obtain ⟨l0, hc⟩ := hall id s hs
  obtain ⟨_, hid, hcl, hgood⟩ := hc.inv_step hne
  refine ⟨hid, ⟨l0, hcl.toChain⟩, ?_⟩
  intro l hl
  have := Chain.functional hl hcl.toChain
  subst this
  exact ⟨hgood, hc.td_sum s l rfl⟩

end MscP

/-! ## polygon bor (one fixed span): invariant, fork choice, what acceptance establishes -/
namespace BorP
open Poly.Model.LCPosa.Bor

theorem succession_lt {n p s : Nat} (hp : p < n) (hs : s < n) : succession n p s < n := by
  unfold succession
  split <;> omega

theorem succession_mod {n p s : Nat} (hp : p < n) (hs : s < n) : succession n p s = (s + n - p) % n := by
  unfold succession
  split
  · rw [Nat.mod_eq_of_lt (by omega)]
  · have : s + n - p = (s - p) + n := by omega
    rw [this, Nat.add_mod_right, Nat.mod_eq_of_lt (by omega)]

theorem succession_zero_iff {n p s : Nat} (hp : p < n) (hs : s < n) : succession n p s = 0 ↔ s = p := by
  unfold succession
  split <;> omega

theorem indexOf_lt_of_mem (a : Addr) : ∀ (l : List Addr), a ∈ l → Msc.indexOf a l < l.length ∧ l[Msc.indexOf a l]? = some a := by
  intro l
  induction l with
  | nil => intro h; simp at h
  | cons b bs ih =>
    intro h
    simp only [Msc.indexOf]
    by_cases hb : b = a
    · subst hb; simp
    · have hbb : (b == a) = false := by simpa using hb
      simp only [hbb, Bool.false_eq_true, if_false]
      have hm : a ∈ bs := by
        rcases List.mem_cons.mp h with h | h
        · exact absurd h.symm hb
        · exact h
      obtain ⟨h1, h2⟩ := ih hm
      exact ⟨by simp; omega, by simpa using h2⟩

/-- What an accepting `verifyHeader` of the reduced bor model established. -/
theorem verifyHeader_ok {C : Cfg} {vals : List Addr} {prop : Nat} {p : Stored} {h : Hdr}
    (hv : Bor.verifyHeader C vals prop p h = .ok ()) :
    h.extra.length = extraVanity + extraSeal ∧ h.mixZero = true ∧ h.uncleOk = true ∧ p.hdr.number + 1 = h.number ∧
    p.hdr.time + C.period ≤ h.time ∧
    ∃ signer, h.signer = some signer ∧ signer ∈ vals ∧ prop < vals.length ∧
      p.hdr.time + (C.period + succession vals.length prop (Msc.indexOf signer vals) * C.backup) ≤ h.time ∧
      h.difficulty = vals.length - succession vals.length prop (Msc.indexOf signer vals) := by
  unfold Bor.verifyHeader at hv
  by_cases c1 : (h.extra.length != extraVanity + extraSeal) = true
  · rw [if_pos c1] at hv; cases hv
  rw [if_neg c1] at hv
  by_cases c2 : (!h.mixZero) = true
  · rw [if_pos c2] at hv; cases hv
  rw [if_neg c2] at hv
  by_cases c3 : (!h.uncleOk) = true
  · rw [if_pos c3] at hv; cases hv
  rw [if_neg c3] at hv
  by_cases c4 : (p.hdr.number + 1 != h.number) = true
  · rw [if_pos c4] at hv; cases hv
  rw [if_neg c4] at hv
  by_cases c5 : p.hdr.time + C.period > h.time
  · rw [if_pos c5] at hv; cases hv
  rw [if_neg c5] at hv
  by_cases c6 : h.number = 0
  · rw [if_pos c6] at hv; cases hv
  rw [if_neg c6] at hv
  cases hsig : h.signer with
  | none => rw [hsig] at hv; cases hv
  | some signer =>
  rw [hsig] at hv
  simp only at hv
  by_cases d1 : (!vals.contains signer) = true
  · rw [if_pos d1] at hv; cases hv
  rw [if_neg d1] at hv
  by_cases d2 : prop ≥ vals.length
  · rw [if_pos d2] at hv; cases hv
  rw [if_neg d2] at hv
  by_cases d3 : h.time < p.hdr.time + (C.period + succession vals.length prop (Msc.indexOf signer vals) * C.backup)
  · rw [if_pos d3] at hv; cases hv
  rw [if_neg d3] at hv
  by_cases d4 : (h.difficulty != vals.length - succession vals.length prop (Msc.indexOf signer vals)) = true
  · rw [if_pos d4] at hv; cases hv
  simp at c1 c2 c3 c4 d1 d4
  exact ⟨c1, c2, c3, c4, by omega, signer, rfl, d1, by omega, by omega, d4⟩

/-- the chain invariant of bor records only the parent link -/
structure BGood (s : Stored) (l : List Stored) : Prop where
  link : Link s l

instance : HasLink BGood := ⟨fun h => h.link⟩

abbrev BChain (st : St) (g : Genesis) : Id → List Stored → Prop := GChainP BGood st g

structure BInv (st : St) : Prop where
  noGen : st.genesis = none → (∀ id, st.hdrs id = none) ∧ (∀ i, st.canon i = none)
  gen : ∀ g, st.genesis = some g →
    st.hdrs g.hdr.id = some (rootOf g) ∧ (∀ id s, st.hdrs id = some s → ∃ l, BChain st g id (s :: l)) ∧ CanonInv st g

theorem syncHeader_cases (C : Cfg) (st : St) (h : Hdr) :
    (∃ o, Bor.syncHeader C st h = (st, o) ∧ o ≠ .ok) ∨
    ∃ p g st', st.hdrs h.id = none ∧ st.hdrs h.parent = some p ∧ st.genesis = some g ∧
      Bor.verifyHeader C g.pv0.vals g.pv0.height p h = .ok () ∧
      addHeader st h p ⟨0, [], some g.hdr.id⟩ = .ok st' ∧ Bor.syncHeader C st h = (st', .ok) := by
  unfold Bor.syncHeader
  cases h1 : st.hdrs h.id with
  | some _ => left; exact ⟨.skipDup, by simp, by simp⟩
  | none =>
    simp only [Option.isSome_none, Bool.false_eq_true, if_false]
    cases h2 : st.hdrs h.parent with
    | none => left; exact ⟨_, rfl, by simp⟩
    | some p =>
      simp only
      cases h4 : st.genesis with
      | none => left; exact ⟨_, rfl, by simp⟩
      | some g =>
        simp only
        cases h3 : Bor.verifyHeader C g.pv0.vals g.pv0.height p h with
        | error e => left; exact ⟨_, rfl, by simp⟩
        | ok u =>
          simp only
          cases h10 : addHeader st h p ⟨0, [], some g.hdr.id⟩ with
          | error e => left; exact ⟨_, rfl, by simp⟩
          | ok st' =>
            right
            refine ⟨p, g, st', ?_, ?_, ?_, ?_, ?_, ?_⟩ <;> first | rfl | trivial | assumption

theorem syncHeader_inv {C : Cfg} {st : St} (hI : BInv st) (h : Hdr) : BInv (Bor.syncHeader C st h).1 := by
  rcases syncHeader_cases C st h with ⟨o, hsame, _⟩ | ⟨p, g, st', h1, h2, h4, h3, h10, h11⟩
  · rw [hsame]; exact hI
  · rw [h11]
    obtain ⟨hroot, hall, hCI⟩ := hI.gen g h4
    obtain ⟨l, hc0⟩ := hall h.parent p h2
    have hp : h.parent = p.hdr.id := hc0.head_id.1.symm
    have hc : BChain st g p.hdr.id (p :: l) := by rw [← hp]; exact hc0
    obtain ⟨_, _, _, hnum, _⟩ := verifyHeader_ok h3
    obtain ⟨st'', ha1, ha2, ha3, ha4⟩ := addHeader_spec hCI ⟨0, [], some g.hdr.id⟩ h1 hc hp hnum
    rw [h10] at ha1
    injection ha1 with ha1
    subst ha1
    have hne : h.id ≠ g.hdr.id := by
      intro he; rw [he, hroot] at h1; cases h1
    have hext : ∀ id s, st.hdrs id = some s → st'.hdrs id = some s := by
      intro id s hs
      rw [ha3, upd_other]
      · exact hs
      · intro he; rw [he, h1] at hs; cases hs
    constructor
    · intro hn; rw [ha2, h4] at hn; cases hn
    · intro g' hg'
      rw [ha2, h4] at hg'
      injection hg' with hg'
      subst hg'
      refine ⟨hext _ _ hroot, ?_, ha4⟩
      intro id s hs
      by_cases hid : id = h.id
      · subst hid
        rw [ha3, upd_same] at hs
        injection hs with hs
        subst hs
        refine ⟨p :: l, .step h.id _ (p :: l) hne (by rw [ha3, upd_same]) rfl ?_ ⟨⟨p, l, rfl, hnum, rfl⟩⟩⟩
        simp only
        rw [hp]
        exact hc.mono hext
      · rw [ha3, upd_other _ _ _ _ hid] at hs
        obtain ⟨l', hc'⟩ := hall id s hs
        exact ⟨l', hc'.mono hext⟩

theorem syncGenesis_inv {st : St} (hI : BInv st) (g : Hdr) (vals : List Addr) (prop : Nat) :
    BInv (Bor.syncGenesis st g vals prop).1 := by
  unfold Bor.syncGenesis
  cases hgen : st.genesis with
  | some _ => simpa using hI
  | none =>
    obtain ⟨hn1, hn2⟩ := hI.noGen hgen
    simp only [Option.isSome_none, Bool.false_eq_true, if_false]
    constructor
    · intro hn; cases hn
    · intro g' hg'
      simp only at hg'
      injection hg' with hg'
      subst hg'
      refine ⟨by simp [upd_same, rootOf], ?_, ?_⟩
      · intro id s hs
        simp only at hs
        by_cases hid : id = g.id
        · subst hid
          rw [upd_same] at hs
          injection hs with hs
          subst hs
          exact ⟨[], .root (by simp [upd_same, rootOf])⟩
        · rw [upd_other _ _ _ _ hid, hn1] at hs
          cases hs
      · constructor
        · refine ⟨⟨g, g.difficulty, none⟩, by simp [upd_same], by simp [upd_same], rfl, ?_⟩
          intro id s hs
          simp only at hs
          by_cases hid : id = g.id
          · subst hid
            rw [upd_same] at hs
            injection hs with hs
            subst hs
            exact Nat.le_refl _
          · rw [upd_other _ _ _ _ hid, hn1] at hs
            cases hs
        · intro i hi
          simp only at hi ⊢
          rw [upd_other _ _ _ _ (by omega)]
          exact hn2 i
        · intro i hi
          simp only at hi ⊢
          rw [upd_other _ _ _ _ (by omega)]
          exact hn2 i
        · simp [upd_same]
        · intro i h1 h2
          simp only at h1 h2
          omega

theorem empty_inv : BInv St.empty :=
  ⟨fun _ => ⟨fun _ => rfl, fun _ => rfl⟩, fun g hg => by simp [St.empty] at hg⟩

theorem run_inv {C : Cfg} : ∀ (ops : List Bor.Op) {st : St}, BInv st → BInv (Bor.run C st ops) := by
  intro ops
  induction ops with
  | nil => intro st hI; exact hI
  | cons o os ih =>
    intro st hI
    apply ih
    cases o with
    | genesis g vals prop => exact syncGenesis_inv hI g vals prop
    | hdr h => exact syncHeader_inv hI h

theorem stored_link {st : St} (hI : BInv st) {g : Genesis} (hg : st.genesis = some g)
    {id : Id} {s : Stored} (hs : st.hdrs id = some s) (hne : id ≠ g.hdr.id) :
    ∃ p l, st.hdrs s.hdr.parent = some p ∧ p.hdr.number + 1 = s.hdr.number ∧ Chain st g s.hdr.parent (p :: l) ∧
      s.td = sumDiff (s :: p :: l) := by
  obtain ⟨_, hall, _⟩ := hI.gen g hg
  obtain ⟨l0, hc⟩ := hall id s hs
  obtain ⟨_, _, hcl, hgood⟩ := hc.inv_step hne
  obtain ⟨p, rest, hl, hnum, _⟩ := hgood.link
  subst hl
  exact ⟨p, rest, Chain.head_stored hcl.toChain, hnum, hcl.toChain, hc.td_sum s _ rfl⟩

end BorP

/-! ## A concrete history (non-vacuity of the property statements) -/
namespace Example

def a : Addr := List.replicate 20 1
def b : Addr := List.replicate 20 2
def c : Addr := List.replicate 20 3
def d : Addr := List.replicate 20 4
/-- trust root at number 5 announcing [a, b, c]; the recorded previous set (height 3) is the same -/
def root : Hdr :=
  ⟨1, 0, 5, a, none, 2, List.replicate 32 0 ++ a ++ b ++ c ++ List.replicate 65 0, 100, 30000000, 0, true, true, none, .drop⟩
/-- number 6 sealed by b (out of turn: 6 mod 3 = 0 is a's slot, and a sealed the trust root) -/
def h2 : Hdr := ⟨2, 1, 6, b, some b, 1, List.replicate 97 0, 103, 30000000, 0, true, true, none, .drop⟩
/-- number 7 sealed by c (out of turn), announcing the new set [a, b, d] -/
def h3 : Hdr :=
  ⟨3, 2, 7, c, some c, 1, List.replicate 32 0 ++ a ++ b ++ d ++ List.replicate 65 0, 106, 30000000, 0, true, true, none, .drop⟩
/-- a competing number 7 sealed by a, difficulty 1 -/
def h4 : Hdr := ⟨4, 2, 7, a, some a, 1, List.replicate 97 0, 106, 30000000, 0, true, true, none, .drop⟩
/-- number 8 on the competing branch sealed by c in turn (8 mod 3 = 2): overtakes -/
def h5 : Hdr := ⟨5, 4, 8, c, some c, 2, List.replicate 97 0, 109, 30000000, 0, true, true, none, .drop⟩
/-- rejected: sealed by an outsider -/
def h6 : Hdr := ⟨6, 5, 9, d, some d, 1, List.replicate 97 0, 112, 30000000, 0, true, true, none, .drop⟩
def ops : List Op :=
  [.genesis root [⟨3, [a, b, c], none⟩], .hdr h2, .hdr h3, .hdr h4, .hdr h5, .hdr h6, .hdr h2]

/-- msc: trust root at number 8 (epoch 8) with signers [a, b], sealed by a -/
def mroot : Hdr :=
  { id := 1, parent := 0, number := 8, coinbase := Msc.zeroAddr, signer := some a, difficulty := 1,
    extra := List.replicate 32 0 ++ a ++ b ++ List.replicate 65 0, time := 100, gasLimit := 0, gasUsed := 0,
    mixZero := true, uncleOk := true, baseFee := none }
def mhdr (id parent number : Nat) (signer : Addr) (difficulty time : Nat) : Hdr :=
  { id := id, parent := parent, number := number, coinbase := Msc.zeroAddr, signer := some signer, difficulty := difficulty,
    extra := List.replicate 97 0, time := time, gasLimit := 0, gasUsed := 0, mixZero := true, uncleOk := true, baseFee := none }
def m6 : Hdr := mhdr 6 3 11 b 2 106
def mscOps : List Msc.Op :=
  [.genesis mroot, .hdr (mhdr 2 1 9 b 2 102), .hdr (mhdr 3 2 10 a 2 104), .hdr (mhdr 4 3 11 a 1 106),
   .hdr (mhdr 5 3 11 c 1 106)]

/-- bor: trust root at number 64 -/
def broot : Hdr :=
  { id := 1, parent := 0, number := 64, coinbase := Msc.zeroAddr, signer := none, difficulty := 1,
    extra := List.replicate 97 0, time := 100, gasLimit := 0, gasUsed := 0, mixZero := true, uncleOk := true, baseFee := none }
def bhdr (id parent number : Nat) (signer : Addr) (difficulty time : Nat) : Hdr :=
  { id := id, parent := parent, number := number, coinbase := Msc.zeroAddr, signer := some signer, difficulty := difficulty,
    extra := List.replicate 97 0, time := time, gasLimit := 0, gasUsed := 0, mixZero := true, uncleOk := true, baseFee := none }

end Example

end Poly.Proofs.LCPosa
