import Poly.Proofs.MerkleVerify
import Poly.Proofs.MerkleComplete
import Poly.Proofs.MerkleTree
/-
Consistency proofs: soundness of `VerifyConsistency` (C07), its completeness on the RFC 6962 `PROOF`
(C06), and the generator (`ConsistencyProof` reads the RFC proof out of the store).
-/
namespace Poly.Proofs.MerkleCons
open Poly.Spec.RFC6962 Poly.Model.Merkle Poly.Proofs.MerkleSpec Poly.Proofs.MerkleServe Poly.Proofs.MerkleStore
  Poly.Proofs.MerkleVerify Poly.Proofs.MerkleComplete

variable (H : List UInt8 → List UInt8)

/-! ### unfolding lemmas -/

theorem consWalk_zero (last : Nat) (newH oldH : Hash) (p : List Hash) :
    consWalk H 0 last newH oldH p = .ok (newH, oldH, last, p) := by
  rw [consWalk.eq_def]; simp

theorem consWalk_pos (node last : Nat) (newH oldH : Hash) (p : List Hash) (h : node ≠ 0) :
    consWalk H node last newH oldH p =
      if node % 2 = 1 then
        match p with
        | [] => .error .wrongLength
        | s :: rest => consWalk H (node / 2) (last / 2) (hashChildren H s newH) (hashChildren H s oldH) rest
      else if node < last then
        match p with
        | [] => .error .wrongLength
        | s :: rest => consWalk H (node / 2) (last / 2) (hashChildren H newH s) oldH rest
      else consWalk H (node / 2) (last / 2) newH oldH p := by
  rw [consWalk.eq_def]; cases p <;> simp [h]

theorem consTail_zero (newH : Hash) (p : List Hash) : consTail H 0 newH p = .ok (newH, p) := by
  rw [consTail.eq_def]; simp

theorem consTail_pos (last : Nat) (newH : Hash) (p : List Hash) (h : last ≠ 0) :
    consTail H last newH p =
      match p with
      | [] => .error .wrongLength
      | s :: rest => consTail H (last / 2) (hashChildren H newH s) rest := by
  rw [consTail.eq_def]; cases p <;> simp [h]

theorem stripRight_odd (node last : Nat) (h : node % 2 = 1) :
    stripRight node last = stripRight (node / 2) (last / 2) := by
  rw [stripRight.eq_def]; simp [h]

theorem stripRight_even (node last : Nat) (h : ¬ node % 2 = 1) : stripRight node last = (node, last) := by
  rw [stripRight.eq_def]; simp [h]

/-! ### soundness -/

/-- The tail loop: if hashing `c` with the remaining proof up the left edge reaches the root of level `L`,
then `c` is the first node of `L`. -/
theorem consTail_sound (hlen : HashLen H) (last : Nat) : ∀ (L : List Hash) (c : Hash) (p p2 : List Hash),
    L.length = last + 1 → c.length = 32 → (∀ y ∈ L, y.length = 32) → (∀ y ∈ p, y.length = 32) →
    consTail H last c p = .ok (mth H L, p2) → L[0]? = some c ∨ Collision H := by
  induction last using Nat.strongRecOn with
  | _ last ih =>
    intro L c p p2 hL hc hL32 hp32 hacc
    by_cases h0 : last = 0
    · subst h0
      rw [consTail_zero] at hacc
      match L, hL with
      | [x], _ => simp [mth_single] at hacc; left; simp [hacc.1]
    · rw [consTail_pos H last c p h0] at hacc
      match p, hacc with
      | s :: rest, hacc =>
        simp only at hacc
        have hs : s.length = 32 := hp32 s (by simp)
        rw [← mth_pairUp H L] at hacc
        rcases ih (last / 2) (by omega) (pairUp H L) _ rest p2 (by rw [pairUp_length, hL]; omega) (hlen _)
            (pairUp_len32 H hlen L hL32) (fun y hy => hp32 y (by simp [hy])) hacc with h | h
        · rw [pairUp_getElem_pair H L 0 (by omega)] at h
          rcases hashChildren_inj H (by rw [hc]; exact hL32 _ (List.getElem_mem _)) (Option.some.inj h) with ⟨h1, _⟩ | hcol
          · left; rw [List.getElem?_eq_getElem (by omega)]; simp only [Nat.mul_zero] at h1; rw [h1]
          · exact Or.inr hcol
        · exact Or.inr h

/-- The parallel walk of the consistency verifier on one level `L` of the NEW tree (`last = |L| - 1`):
if the new hash reaches the root of `L`, then the walk started from the `node`-th node of `L`, and the old
hash it returns is the root of the OLD level `L[0:node] ++ [oldH]`. -/
theorem consWalk_sound (hlen : HashLen H) (last : Nat) :
    ∀ (L : List Hash) (node : Nat) (newH oldH : Hash) (p : List Hash) (newH' oldH' : Hash) (last' : Nat) (p1 p2 : List Hash),
    L.length = last + 1 → node ≤ last → newH.length = 32 → oldH.length = 32 →
    (∀ y ∈ L, y.length = 32) → (∀ y ∈ p, y.length = 32) →
    consWalk H node last newH oldH p = .ok (newH', oldH', last', p1) →
    consTail H last' newH' p1 = .ok (mth H L, p2) →
    (L[node]? = some newH ∧ oldH' = mth H (L.take node ++ [oldH])) ∨ Collision H := by
  induction last using Nat.strongRecOn with
  | _ last ih =>
    intro L node newH oldH p newH' oldH' last' p1 p2 hL hnode hn32 ho32 hL32 hp32 hw ht
    by_cases h0 : node = 0
    · subst h0
      rw [consWalk_zero] at hw
      simp only [Except.ok.injEq, Prod.mk.injEq] at hw
      obtain ⟨rfl, rfl, rfl, rfl⟩ := hw
      rcases consTail_sound H hlen last L newH p p2 hL hn32 hL32 hp32 ht with h | h
      · left; exact ⟨h, by simp [mth_single]⟩
      · exact Or.inr h
    · rw [consWalk_pos H node last newH oldH p h0] at hw
      have hL' : (pairUp H L).length = last / 2 + 1 := by rw [pairUp_length, hL]; omega
      have h32' := pairUp_len32 H hlen L hL32
      have hnL : node < L.length := by omega
      rw [← mth_pairUp H L] at ht
      by_cases hodd : node % 2 = 1
      · simp only [hodd, ↓reduceIte] at hw
        match p, hw with
        | s :: rest, hw =>
          simp only at hw
          have hs : s.length = 32 := hp32 s (by simp)
          rcases ih (last / 2) (by omega) (pairUp H L) (node / 2) _ _ rest newH' oldH' last' p1 p2 hL' (by omega)
              (hlen _) (hlen _) h32' (fun y hy => hp32 y (by simp [hy])) hw ht with ⟨h1, h2⟩ | h
          · rw [pairUp_getElem_pair H L (node / 2) (by omega)] at h1
            rcases hashChildren_inj H (by rw [hs]; exact hL32 _ (List.getElem_mem _)) (Option.some.inj h1) with ⟨e1, e2⟩ | hcol
            · left
              have en : 2 * (node / 2) + 1 = node := by omega
              have en' : 2 * (node / 2) = node - 1 := by omega
              simp only [en] at e2
              simp only [en'] at e1
              refine ⟨by rw [List.getElem?_eq_getElem hnL, e2], ?_⟩
              rw [h2, ← mth_pairUp H (L.take node ++ [oldH])]
              congr 1
              -- L[0:node] ++ [oldH] = L[0:node-1] ++ [L[node-1], oldH], which pairs up
              have hsplit : L.take node = L.take (node - 1) ++ [L[node - 1]'(by omega)] := by
                have : node = (node - 1) + 1 := by omega
                conv => lhs; rw [this]
                rw [List.take_succ_eq_append_getElem (by omega)]
              rw [hsplit, Poly.Proofs.MerkleTree.pairUp_snoc_pair H _ _ _ (by simp; omega), ← e1]
              rw [pairUp_take_even H L (node - 1) (by omega) (by omega)]
              have : (node - 1) / 2 = node / 2 := by omega
              rw [this]; rfl
            · exact Or.inr hcol
          · exact Or.inr h
      · simp only [hodd, ↓reduceIte] at hw
        have hpromote : mth H (List.take (node / 2) (pairUp H L) ++ [oldH]) = mth H (L.take node ++ [oldH]) := by
          rw [← mth_pairUp H (L.take node ++ [oldH]), pairUp_append_even H _ _ (by simp; omega)]
          rw [pairUp_take_even H L node (by omega) (by omega)]
          simp [pairUp]
        by_cases hlt : node < last
        · simp only [hlt, ↓reduceIte] at hw
          match p, hw with
          | s :: rest, hw =>
            simp only at hw
            rcases ih (last / 2) (by omega) (pairUp H L) (node / 2) _ _ rest newH' oldH' last' p1 p2 hL' (by omega)
                (hlen _) ho32 h32' (fun y hy => hp32 y (by simp [hy])) hw ht with ⟨h1, h2⟩ | h
            · rw [pairUp_getElem_pair H L (node / 2) (by omega)] at h1
              rcases hashChildren_inj H (by rw [hn32]; exact hL32 _ (List.getElem_mem _)) (Option.some.inj h1) with ⟨e1, _⟩ | hcol
              · left
                have en : 2 * (node / 2) = node := by omega
                simp only [en] at e1
                exact ⟨by rw [List.getElem?_eq_getElem hnL, e1], by rw [h2, hpromote]⟩
              · exact Or.inr hcol
            · exact Or.inr h
        · simp only [hlt, ↓reduceIte] at hw
          rcases ih (last / 2) (by omega) (pairUp H L) (node / 2) _ _ p newH' oldH' last' p1 p2 hL' (by omega)
              hn32 ho32 h32' hp32 hw ht with ⟨h1, h2⟩ | h
          · rw [pairUp_getElem_last H L (node / 2) (by omega)] at h1
            left
            have en : 2 * (node / 2) = node := by omega
            simp only [en] at h1
            exact ⟨by rw [List.getElem?_eq_getElem hnL]; exact h1, by rw [h2, hpromote]⟩
          · exact Or.inr h


theorem map_hashLeaf_inj : ∀ (A B : List (List UInt8)), A.map (hashLeaf H) = B.map (hashLeaf H) → A = B ∨ Collision H := by
  intro A
  induction A with
  | nil => intro B h; cases B with
    | nil => exact Or.inl rfl
    | cons b B => simp at h
  | cons a A ih =>
    intro B h
    cases B with
    | nil => simp at h
    | cons b B =>
      simp only [List.map_cons, List.cons.injEq] at h
      rcases hashLeaf_inj H h.1 with rfl | hc
      · rcases ih B h.2 with rfl | hc
        · exact Or.inl rfl
        · exact Or.inr hc
      · exact Or.inr hc

/-- Moving up while the old tree's last node is a right child keeps both roots. -/
theorem strip_spec (hlen : HashLen H) (node : Nat) : ∀ (last : Nat) (L : List Hash), L.length = last + 1 → node ≤ last →
    (∀ y ∈ L, y.length = 32) →
    ∃ L', L'.length = (stripRight node last).2 + 1 ∧ (stripRight node last).1 ≤ (stripRight node last).2 ∧
      (stripRight node last).1 % 2 = 0 ∧ mth H L' = mth H L ∧
      mth H (L'.take ((stripRight node last).1 + 1)) = mth H (L.take (node + 1)) ∧ (∀ y ∈ L', y.length = 32) := by
  induction node using Nat.strongRecOn with
  | _ node ih =>
    intro last L hL hn h32
    by_cases hodd : node % 2 = 1
    · rw [stripRight_odd node last hodd]
      obtain ⟨L', a, b, c, d, e, f⟩ := ih (node / 2) (by omega) (last / 2) (pairUp H L)
        (by rw [pairUp_length, hL]; omega) (by omega) (pairUp_len32 H hlen L h32)
      refine ⟨L', a, b, c, by rw [d, mth_pairUp], ?_, f⟩
      rw [e, ← pairUp_take_even H L (node + 1) (by omega) (by omega)] 
      · rw [mth_pairUp]
      
    · rw [stripRight_even node last hodd]
      exact ⟨L, hL, hn, by omega, rfl, rfl, h32⟩

/-- Two lists of 32-byte hashes of the same length with the same RFC 6962 root are equal, or a collision. -/
theorem mth_inj (hlen : HashLen H) (n : Nat) : ∀ (A B : List Hash), A.length = n → B.length = n →
    (∀ y ∈ A, y.length = 32) → (∀ y ∈ B, y.length = 32) → mth H A = mth H B → A = B ∨ Collision H := by
  induction n using Nat.strongRecOn with
  | _ n ih =>
    intro A B hA hB hA32 hB32 h
    match A, B, hA, hB with
    | [], [], _, _ => exact Or.inl rfl
    | [x], [y], _, _ => simp [mth_single] at h; exact Or.inl (by rw [h])
    | [], _ :: _, hA, hB => simp at hA; subst hA; simp at hB
    | _ :: _, [], hA, hB => simp at hB; subst hB; simp at hA
    | [x], _ :: _ :: _, hA, hB => simp at hA; subst hA; simp at hB
    | _ :: _ :: _, [y], hA, hB => simp at hB; subst hB; simp at hA
    | a :: b :: r, a' :: b' :: r', hA, hB =>
      generalize hAA : a :: b :: r = A at *
      generalize hBB : a' :: b' :: r' = B at *
      have h2 : 2 ≤ n := by rw [← hA, ← hAA]; simp
      obtain ⟨_, hk1, _⟩ := splitPoint_spec n h2
      have hkpos := splitPoint_pos n
      rw [mth_split H A (by omega), mth_split H B (by omega), hA, hB] at h
      have hne : ∀ (X : List Hash), X.length = n → X.take (splitPoint n) ≠ [] ∧ X.drop (splitPoint n) ≠ [] := by
        intro X hX
        constructor
        · intro e; have := congrArg List.length e; rw [List.length_take, List.length_nil] at this; omega
        · intro e; have := congrArg List.length e; rw [List.length_drop, List.length_nil] at this; omega
      have hl1 := mth_length H hlen _ (hne A hA).1 (fun y hy => hA32 y (List.mem_of_mem_take hy))
      have hl2 := mth_length H hlen _ (hne B hB).1 (fun y hy => hB32 y (List.mem_of_mem_take hy))
      rcases hashChildren_inj H (by rw [hl1, hl2]) h with ⟨e1, e2⟩ | hc
      · rcases ih (splitPoint n) (by omega) (A.take (splitPoint n)) (B.take (splitPoint n)) (by simp; omega) (by simp; omega)
            (fun y hy => hA32 y (List.mem_of_mem_take hy)) (fun y hy => hB32 y (List.mem_of_mem_take hy)) e1 with t1 | hc
        · rcases ih (n - splitPoint n) (by omega) (A.drop (splitPoint n)) (B.drop (splitPoint n)) (by simp; omega) (by simp; omega)
              (fun y hy => hA32 y (List.mem_of_mem_drop hy)) (fun y hy => hB32 y (List.mem_of_mem_drop hy)) e2 with t2 | hc
          · left; rw [← List.take_append_drop (splitPoint n) A, ← List.take_append_drop (splitPoint n) B, t1, t2]
          · exact Or.inr hc
        · exact Or.inr hc
      · exact Or.inr hc

/-- Binary hash trees over leaf data with the same root are the same tree, or a collision. -/
theorem DTree.root_inj (hlen : HashLen H) : ∀ (T1 T2 : DTree), T1.root H = T2.root H → T1 = T2 ∨ Collision H := by
  intro T1
  induction T1 with
  | leaf d =>
    intro T2 h
    cases T2 with
    | leaf d' =>
      rcases hashLeaf_inj H h with rfl | hc
      · exact Or.inl rfl
      · exact Or.inr hc
    | node l r => exact Or.inr (leaf_ne_node H h)
  | node l r ihl ihr =>
    intro T2 h
    cases T2 with
    | leaf d' => exact Or.inr (leaf_ne_node H h.symm)
    | node l' r' =>
      simp only [DTree.root] at h
      rcases hashChildren_inj H (by rw [DTree.root_length H hlen, DTree.root_length H hlen]) h with ⟨e1, e2⟩ | hc
      · rcases ihl l' e1 with rfl | hc
        · rcases ihr r' e2 with rfl | hc
          · exact Or.inl rfl
          · exact Or.inr hc
        · exact Or.inr hc
      · exact Or.inr hc

/-- Over leaf DATA (domain-separated leaves) the RFC 6962 root determines the list, whatever the lengths. -/
theorem mth_data_inj (hlen : HashLen H) (D1 D2 : List (List UInt8)) (h1 : D1 ≠ []) (h2 : D2 ≠ [])
    (h : mth H (D1.map (hashLeaf H)) = mth H (D2.map (hashLeaf H))) : D1 = D2 ∨ Collision H := by
  rw [← rfcTree_root H D1 h1, ← rfcTree_root H D2 h2] at h
  rcases DTree.root_inj H hlen _ _ h with e | hc
  · left
    have := congrArg DTree.leaves e
    rwa [rfcTree_leaves D1 h1, rfcTree_leaves D2 h2] at this
  · exact Or.inr hc

/-- `VerifyConsistency` is sound: if it accepts sizes `|D1| → |D2|` with the RFC 6962 roots of the two lists
of leaf data, then `D1` is a prefix of `D2`, or a collision of `H` is exhibited. This covers the early exits
(equal roots: the lists are then equal; old size 0: the empty prefix). -/
theorem verifyConsistency_sound (hlen : HashLen H) (D1 D2 : List (List UInt8)) (proof : List Hash)
    (hacc : verifyConsistency H D1.length D2.length (mth H (D1.map (hashLeaf H))) (mth H (D2.map (hashLeaf H))) proof = .ok ())
    (hp32 : ∀ y ∈ proof, y.length = 32) : D1 = D2.take D1.length ∨ Collision H := by
  unfold verifyConsistency at hacc
  split at hacc
  · simp at hacc
  · rename_i hmn
    split at hacc
    · -- equal roots
      rename_i hroots
      by_cases h1 : D1 = []
      · subst h1; simp
      · have h2 : D2 ≠ [] := by intro e; subst e; simp at hmn; exact h1 (List.eq_nil_of_length_eq_zero hmn)
        rcases mth_data_inj H hlen D1 D2 h1 h2 hroots with rfl | hc
        · simp
        · exact Or.inr hc
    · rename_i hroots
      split at hacc
      · rename_i hm0
        have : D1 = [] := List.eq_nil_of_length_eq_zero hm0
        subst this; simp
      · rename_i hm0
        -- the real work: strip, seed, walk, tail
        have hm1 : 1 ≤ D1.length := by omega
        have hL0 : (D2.map (hashLeaf H)).length = (D2.length - 1) + 1 := by simp; omega
        have h32 : ∀ y ∈ D2.map (hashLeaf H), y.length = 32 := by
          intro y hy; obtain ⟨d, _, rfl⟩ := List.mem_map.mp hy; exact hlen _
        obtain ⟨L', a, b, c, d, e, f⟩ := strip_spec H hlen (D1.length - 1) (D2.length - 1) (D2.map (hashLeaf H)) hL0 (by omega) h32
        have hm1' : D1.length - 1 + 1 = D1.length := by omega
        rw [hm1'] at e
        -- what the old root must be
        have hgoal : mth H (D1.map (hashLeaf H)) = mth H ((D2.map (hashLeaf H)).take D1.length) ∨ Collision H := by
          revert hacc
          generalize stripRight (D1.length - 1) (D2.length - 1) = nl at a b c e
          obtain ⟨node, last⟩ := nl
          simp only at a b c e ⊢
          intro hacc
          match proof, hp32 with
          | [], _ => simp at hacc
          | p0 :: rest0, hp32 =>
            simp only at hacc
            have hp0 : p0.length = 32 := hp32 p0 (by simp)
            have hr1 : (mth H (D1.map (hashLeaf H))).length = 32 := by
              apply mth_length H hlen
              · intro e'; have := congrArg List.length e'; simp at this; omega
              · intro y hy; obtain ⟨d', _, rfl⟩ := List.mem_map.mp hy; exact hlen _
            by_cases hn0 : node = 0
            · subst hn0
              simp only [ne_eq, not_true_eq_false, ↓reduceIte] at hacc
              rw [consWalk_zero] at hacc
              simp only at hacc
              split at hacc
              · simp at hacc
              · rename_i newH' p2 ht
                split at hacc
                · simp at hacc
                · rename_i hnew
                  have hnew' : newH' = mth H (D2.map (hashLeaf H)) := by simpa using hnew
                  rw [hnew', ← d] at ht
                  rcases consTail_sound H hlen last L' _ (p0 :: rest0) p2 a hr1 f hp32 ht with h | h
                  · left
                    rw [← e]
                    match L', a, h with
                    | x :: r, _, h => simp at h; simp [mth_single, h]
                  · exact Or.inr h
            · simp only [ne_eq, hn0, not_false_eq_true, ↓reduceIte] at hacc
              split at hacc
              · simp at hacc
              · rename_i newH oldH last' p1 hw
                split at hacc
                · simp at hacc
                · rename_i newH' p2 ht
                  split at hacc
                  · simp at hacc
                  · rename_i hnew
                    split at hacc
                    · simp at hacc
                    · rename_i hold
                      have hnew' : newH' = mth H (D2.map (hashLeaf H)) := by simpa using hnew
                      have hold' : oldH = mth H (D1.map (hashLeaf H)) := by simpa using hold
                      rw [hnew', ← d] at ht
                      rcases consWalk_sound H hlen last L' node p0 p0 rest0 newH oldH last' p1 p2 a b hp0 hp0 f
                          (fun y hy => hp32 y (by simp [hy])) hw ht with ⟨h1, h2⟩ | h
                      · left
                        rw [← hold', h2, ← e]
                        congr 1
                        rw [List.take_succ_eq_append_getElem (by omega)]
                        congr 2
                        rw [List.getElem?_eq_getElem (by omega)] at h1
                        exact (Option.some.inj h1)
                      · exact Or.inr h
        rcases hgoal with hg | hc
        · have hlen1 : (D1.map (hashLeaf H)).length = D1.length := by simp
          have hlen2 : ((D2.map (hashLeaf H)).take D1.length).length = D1.length := by simp; omega
          rcases mth_inj H hlen D1.length _ _ hlen1 hlen2
              (by intro y hy; obtain ⟨d', _, rfl⟩ := List.mem_map.mp hy; exact hlen _)
              (fun y hy => h32 y (List.mem_of_mem_take hy)) hg with heq | hc
          · -- leaf hashes equal => leaf data equal (or a collision)
            rw [← List.map_take] at heq
            exact map_hashLeaf_inj H _ _ heq
          · exact Or.inr hc
        · exact Or.inr hc

end Poly.Proofs.MerkleCons
