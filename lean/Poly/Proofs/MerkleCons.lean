import Poly.Proofs.MerkleVerify
import Poly.Proofs.MerkleComplete
import Poly.Proofs.MerkleTree
/-
Consistency proofs: soundness of `VerifyConsistency` (C07), its completeness on the RFC 6962 `PROOF`
(C06), and the generator (`ConsistencyProof` reads the RFC proof out of the store).
-/
namespace Poly.Proofs.MerkleCons
open Poly.Spec.RFC6962 Poly.Model.Merkle Poly.Proofs.MerkleSpec Poly.Proofs.MerkleServe Poly.Proofs.MerkleStore
  Poly.Proofs.MerkleVerify Poly.Proofs.MerkleComplete

variable (H : List UInt8 → List UInt8)

/-! ### unfolding lemmas -/

theorem consWalk_zero (last : Nat) (newH oldH : Hash) (p : List Hash) :
    consWalk H 0 last newH oldH p = .ok (newH, oldH, last, p) := by
  rw [consWalk.eq_def]; simp

theorem consWalk_pos (node last : Nat) (newH oldH : Hash) (p : List Hash) (h : node ≠ 0) :
    consWalk H node last newH oldH p =
      if node % 2 = 1 then
        match p with
        | [] => .error .wrongLength
        | s :: rest => consWalk H (node / 2) (last / 2) (hashChildren H s newH) (hashChildren H s oldH) rest
      else if node < last then
        match p with
        | [] => .error .wrongLength
        | s :: rest => consWalk H (node / 2) (last / 2) (hashChildren H newH s) oldH rest
      else consWalk H (node / 2) (last / 2) newH oldH p := by
  rw [consWalk.eq_def]; cases p <;> simp [h]

theorem consTail_zero (newH : Hash) (p : List Hash) : consTail H 0 newH p = .ok (newH, p) := by
  rw [consTail.eq_def]; simp

theorem consTail_pos (last : Nat) (newH : Hash) (p : List Hash) (h : last ≠ 0) :
    consTail H last newH p =
      match p with
      | [] => .error .wrongLength
      | s :: rest => consTail H (last / 2) (hashChildren H newH s) rest := by
  rw [consTail.eq_def]; cases p <;> simp [h]

theorem stripRight_odd (node last : Nat) (h : node % 2 = 1) :
    stripRight node last = stripRight (node / 2) (last / 2) := by
  rw [stripRight.eq_def]; simp [h]

theorem stripRight_even (node last : Nat) (h : ¬ node % 2 = 1) : stripRight node last = (node, last) := by
  rw [stripRight.eq_def]; simp [h]

/-! ### soundness -/

/-- The tail loop: if hashing `c` with the remaining proof up the left edge reaches the root of level `L`,
then `c` is the first node of `L`. -/
theorem consTail_sound (hlen : HashLen H) (last : Nat) : ∀ (L : List Hash) (c : Hash) (p p2 : List Hash),
    L.length = last + 1 → c.length = 32 → (∀ y ∈ L, y.length = 32) → (∀ y ∈ p, y.length = 32) →
    consTail H last c p = .ok (mth H L, p2) → L[0]? = some c ∨ Collision H := by
  induction last using Nat.strongRecOn with
  | _ last ih =>
    intro L c p p2 hL hc hL32 hp32 hacc
    by_cases h0 : last = 0
    · subst h0
      rw [consTail_zero] at hacc
      match L, hL with
      | [x], _ => simp [mth_single] at hacc; left; simp [hacc.1]
    · rw [consTail_pos H last c p h0] at hacc
      match p, hacc with
      | s :: rest, hacc =>
        simp only at hacc
        have hs : s.length = 32 := hp32 s (by simp)
        rw [← mth_pairUp H L] at hacc
        rcases ih (last / 2) (by omega) (pairUp H L) _ rest p2 (by rw [pairUp_length, hL]; omega) (hlen _)
            (pairUp_len32 H hlen L hL32) (fun y hy => hp32 y (by simp [hy])) hacc with h | h
        · rw [pairUp_getElem_pair H L 0 (by omega)] at h
          rcases hashChildren_inj H (by rw [hc]; exact hL32 _ (List.getElem_mem _)) (Option.some.inj h) with ⟨h1, _⟩ | hcol
          · left; rw [List.getElem?_eq_getElem (by omega)]; simp only [Nat.mul_zero] at h1; rw [h1]
          · exact Or.inr hcol
        · exact Or.inr h

/-- The parallel walk of the consistency verifier on one level `L` of the NEW tree (`last = |L| - 1`):
if the new hash reaches the root of `L`, then the walk started from the `node`-th node of `L`, and the old
hash it returns is the root of the OLD level `L[0:node] ++ [oldH]`. -/
theorem consWalk_sound (hlen : HashLen H) (last : Nat) :
    ∀ (L : List Hash) (node : Nat) (newH oldH : Hash) (p : List Hash) (newH' oldH' : Hash) (last' : Nat) (p1 p2 : List Hash),
    L.length = last + 1 → node ≤ last → newH.length = 32 → oldH.length = 32 →
    (∀ y ∈ L, y.length = 32) → (∀ y ∈ p, y.length = 32) →
    consWalk H node last newH oldH p = .ok (newH', oldH', last', p1) →
    consTail H last' newH' p1 = .ok (mth H L, p2) →
    (L[node]? = some newH ∧ oldH' = mth H (L.take node ++ [oldH])) ∨ Collision H := by
  induction last using Nat.strongRecOn with
  | _ last ih =>
    intro L node newH oldH p newH' oldH' last' p1 p2 hL hnode hn32 ho32 hL32 hp32 hw ht
    by_cases h0 : node = 0
    · subst h0
      rw [consWalk_zero] at hw
      simp only [Except.ok.injEq, Prod.mk.injEq] at hw
      obtain ⟨rfl, rfl, rfl, rfl⟩ := hw
      rcases consTail_sound H hlen last L newH p p2 hL hn32 hL32 hp32 ht with h | h
      · left; exact ⟨h, by simp [mth_single]⟩
      · exact Or.inr h
    · rw [consWalk_pos H node last newH oldH p h0] at hw
      have hL' : (pairUp H L).length = last / 2 + 1 := by rw [pairUp_length, hL]; omega
      have h32' := pairUp_len32 H hlen L hL32
      have hnL : node < L.length := by omega
      rw [← mth_pairUp H L] at ht
      by_cases hodd : node % 2 = 1
      · simp only [hodd, ↓reduceIte] at hw
        match p, hw with
        | s :: rest, hw =>
          simp only at hw
          have hs : s.length = 32 := hp32 s (by simp)
          rcases ih (last / 2) (by omega) (pairUp H L) (node / 2) _ _ rest newH' oldH' last' p1 p2 hL' (by omega)
              (hlen _) (hlen _) h32' (fun y hy => hp32 y (by simp [hy])) hw ht with ⟨h1, h2⟩ | h
          · rw [pairUp_getElem_pair H L (node / 2) (by omega)] at h1
            rcases hashChildren_inj H (by rw [hs]; exact hL32 _ (List.getElem_mem _)) (Option.some.inj h1) with ⟨e1, e2⟩ | hcol
            · left
              have en : 2 * (node / 2) + 1 = node := by omega
              have en' : 2 * (node / 2) = node - 1 := by omega
              simp only [en] at e2
              simp only [en'] at e1
              refine ⟨by rw [List.getElem?_eq_getElem hnL, e2], ?_⟩
              rw [h2, ← mth_pairUp H (L.take node ++ [oldH])]
              congr 1
              -- L[0:node] ++ [oldH] = L[0:node-1] ++ [L[node-1], oldH], which pairs up
              have hsplit : L.take node = L.take (node - 1) ++ [L[node - 1]'(by omega)] := by
                have : node = (node - 1) + 1 := by omega
                conv => lhs; rw [this]
                rw [List.take_succ_eq_append_getElem (by omega)]
              rw [hsplit, Poly.Proofs.MerkleTree.pairUp_snoc_pair H _ _ _ (by simp; omega), ← e1]
              rw [pairUp_take_even H L (node - 1) (by omega) (by omega)]
              have : (node - 1) / 2 = node / 2 := by omega
              rw [this]; rfl
            · exact Or.inr hcol
          · exact Or.inr h
      · simp only [hodd, ↓reduceIte] at hw
        have hpromote : mth H (List.take (node / 2) (pairUp H L) ++ [oldH]) = mth H (L.take node ++ [oldH]) := by
          rw [← mth_pairUp H (L.take node ++ [oldH]), pairUp_append_even H _ _ (by simp; omega)]
          rw [pairUp_take_even H L node (by omega) (by omega)]
          simp [pairUp]
        by_cases hlt : node < last
        · simp only [hlt, ↓reduceIte] at hw
          match p, hw with
          | s :: rest, hw =>
            simp only at hw
            rcases ih (last / 2) (by omega) (pairUp H L) (node / 2) _ _ rest newH' oldH' last' p1 p2 hL' (by omega)
                (hlen _) ho32 h32' (fun y hy => hp32 y (by simp [hy])) hw ht with ⟨h1, h2⟩ | h
            · rw [pairUp_getElem_pair H L (node / 2) (by omega)] at h1
              rcases hashChildren_inj H (by rw [hn32]; exact hL32 _ (List.getElem_mem _)) (Option.some.inj h1) with ⟨e1, _⟩ | hcol
              · left
                have en : 2 * (node / 2) = node := by omega
                simp only [en] at e1
                exact ⟨by rw [List.getElem?_eq_getElem hnL, e1], by rw [h2, hpromote]⟩
              · exact Or.inr hcol
            · exact Or.inr h
        · simp only [hlt, ↓reduceIte] at hw
          rcases ih (last / 2) (by omega) (pairUp H L) (node / 2) _ _ p newH' oldH' last' p1 p2 hL' (by omega)
              hn32 ho32 h32' hp32 hw ht with ⟨h1, h2⟩ | h
          · rw [pairUp_getElem_last H L (node / 2) (by omega)] at h1
            left
            have en : 2 * (node / 2) = node := by omega
            simp only [en] at h1
            exact ⟨by rw [List.getElem?_eq_getElem hnL]; exact h1, by rw [h2, hpromote]⟩
          · exact Or.inr h


theorem map_hashLeaf_inj : ∀ (A B : List (List UInt8)), A.map (hashLeaf H) = B.map (hashLeaf H) → A = B ∨ Collision H := by
  intro A
  induction A with
  | nil => intro B h; cases B with
    | nil => exact Or.inl rfl
    | cons b B => simp at h
  | cons a A ih =>
    intro B h
    cases B with
    | nil => simp at h
    | cons b B =>
      simp only [List.map_cons, List.cons.injEq] at h
      rcases hashLeaf_inj H h.1 with rfl | hc
      · rcases ih B h.2 with rfl | hc
        · exact Or.inl rfl
        · exact Or.inr hc
      · exact Or.inr hc

/-- Moving up while the old tree's last node is a right child keeps both roots. -/
theorem strip_spec (hlen : HashLen H) (node : Nat) : ∀ (last : Nat) (L : List Hash), L.length = last + 1 → node ≤ last →
    (∀ y ∈ L, y.length = 32) →
    ∃ L', L'.length = (stripRight node last).2 + 1 ∧ (stripRight node last).1 ≤ (stripRight node last).2 ∧
      (stripRight node last).1 % 2 = 0 ∧ mth H L' = mth H L ∧
      mth H (L'.take ((stripRight node last).1 + 1)) = mth H (L.take (node + 1)) ∧ (∀ y ∈ L', y.length = 32) := by
  induction node using Nat.strongRecOn with
  | _ node ih =>
    intro last L hL hn h32
    by_cases hodd : node % 2 = 1
    · rw [stripRight_odd node last hodd]
      obtain ⟨L', a, b, c, d, e, f⟩ := ih (node / 2) (by omega) (last / 2) (pairUp H L)
        (by rw [pairUp_length, hL]; omega) (by omega) (pairUp_len32 H hlen L h32)
      refine ⟨L', a, b, c, by rw [d, mth_pairUp], ?_, f⟩
      have hh : node / 2 + 1 = (node + 1) / 2 := by omega
      rw [e, hh, ← pairUp_take_even H L (node + 1) (by omega) (by omega), mth_pairUp]
    · rw [stripRight_even node last hodd]
      exact ⟨L, hL, hn, by omega, rfl, rfl, h32⟩

/-- Two lists of 32-byte hashes of the same length with the same RFC 6962 root are equal, or a collision. -/
theorem mth_inj (hlen : HashLen H) (n : Nat) : ∀ (A B : List Hash), A.length = n → B.length = n →
    (∀ y ∈ A, y.length = 32) → (∀ y ∈ B, y.length = 32) → mth H A = mth H B → A = B ∨ Collision H := by
  induction n using Nat.strongRecOn with
  | _ n ih =>
    intro A B hA hB hA32 hB32 h
    match A, B, hA, hB with
    | [], [], _, _ => exact Or.inl rfl
    | [x], [y], _, _ => simp [mth_single] at h; exact Or.inl (by rw [h])
    | [], _ :: _, hA, hB => simp at hA; subst hA; simp at hB
    | _ :: _, [], hA, hB => simp at hB; subst hB; simp at hA
    | [x], _ :: _ :: _, hA, hB => simp at hA; subst hA; simp at hB
    | _ :: _ :: _, [y], hA, hB => simp at hB; subst hB; simp at hA
    | a :: b :: r, a' :: b' :: r', hA, hB =>
      generalize hAA : a :: b :: r = A at *
      generalize hBB : a' :: b' :: r' = B at *
      have h2 : 2 ≤ n := by rw [← hA, ← hAA]; simp
      obtain ⟨_, hk1, _⟩ := splitPoint_spec n h2
      have hkpos := splitPoint_pos n
      rw [mth_split H A (by omega), mth_split H B (by omega), hA, hB] at h
      have hne : ∀ (X : List Hash), X.length = n → X.take (splitPoint n) ≠ [] ∧ X.drop (splitPoint n) ≠ [] := by
        intro X hX
        constructor
        · intro e; have := congrArg List.length e; rw [List.length_take, List.length_nil] at this; omega
        · intro e; have := congrArg List.length e; rw [List.length_drop, List.length_nil] at this; omega
      have hl1 := mth_length H hlen _ (hne A hA).1 (fun y hy => hA32 y (List.mem_of_mem_take hy))
      have hl2 := mth_length H hlen _ (hne B hB).1 (fun y hy => hB32 y (List.mem_of_mem_take hy))
      rcases hashChildren_inj H (by rw [hl1, hl2]) h with ⟨e1, e2⟩ | hc
      · rcases ih (splitPoint n) (by omega) (A.take (splitPoint n)) (B.take (splitPoint n)) (by simp; omega) (by simp; omega)
            (fun y hy => hA32 y (List.mem_of_mem_take hy)) (fun y hy => hB32 y (List.mem_of_mem_take hy)) e1 with t1 | hc
        · rcases ih (n - splitPoint n) (by omega) (A.drop (splitPoint n)) (B.drop (splitPoint n)) (by simp; omega) (by simp; omega)
              (fun y hy => hA32 y (List.mem_of_mem_drop hy)) (fun y hy => hB32 y (List.mem_of_mem_drop hy)) e2 with t2 | hc
          · left; rw [← List.take_append_drop (splitPoint n) A, ← List.take_append_drop (splitPoint n) B, t1, t2]
          · exact Or.inr hc
        · exact Or.inr hc
      · exact Or.inr hc

/-- Binary hash trees over leaf data with the same root are the same tree, or a collision. -/
theorem DTree.root_inj (hlen : HashLen H) : ∀ (T1 T2 : DTree), T1.root H = T2.root H → T1 = T2 ∨ Collision H := by
  intro T1
  induction T1 with
  | leaf d =>
    intro T2 h
    cases T2 with
    | leaf d' =>
      rcases hashLeaf_inj H h with rfl | hc
      · exact Or.inl rfl
      · exact Or.inr hc
    | node l r => exact Or.inr (leaf_ne_node H h)
  | node l r ihl ihr =>
    intro T2 h
    cases T2 with
    | leaf d' => exact Or.inr (leaf_ne_node H h.symm)
    | node l' r' =>
      simp only [DTree.root] at h
      rcases hashChildren_inj H (by rw [DTree.root_length H hlen, DTree.root_length H hlen]) h with ⟨e1, e2⟩ | hc
      · rcases ihl l' e1 with rfl | hc
        · rcases ihr r' e2 with rfl | hc
          · exact Or.inl rfl
          · exact Or.inr hc
        · exact Or.inr hc
      · exact Or.inr hc

/-- Over leaf DATA (domain-separated leaves) the RFC 6962 root determines the list, whatever the lengths. -/
theorem mth_data_inj (hlen : HashLen H) (D1 D2 : List (List UInt8)) (h1 : D1 ≠ []) (h2 : D2 ≠ [])
    (h : mth H (D1.map (hashLeaf H)) = mth H (D2.map (hashLeaf H))) : D1 = D2 ∨ Collision H := by
  rw [← rfcTree_root H D1 h1, ← rfcTree_root H D2 h2] at h
  rcases DTree.root_inj H hlen _ _ h with e | hc
  · left
    have := congrArg DTree.leaves e
    rwa [rfcTree_leaves D1 h1, rfcTree_leaves D2 h2] at this
  · exact Or.inr hc

/-- `VerifyConsistency` is sound: if it accepts sizes `|D1| → |D2|` with the RFC 6962 roots of the two lists
of leaf data, then `D1` is a prefix of `D2`, or a collision of `H` is exhibited. This covers the early exits
(equal roots: the lists are then equal; old size 0: the empty prefix). -/
theorem verifyConsistency_sound (hlen : HashLen H) (D1 D2 : List (List UInt8)) (proof : List Hash)
    (hacc : verifyConsistency H D1.length D2.length (mth H (D1.map (hashLeaf H))) (mth H (D2.map (hashLeaf H))) proof = .ok ())
    (hp32 : ∀ y ∈ proof, y.length = 32) : D1 = D2.take D1.length ∨ Collision H := by
  unfold verifyConsistency at hacc
  split at hacc
  · simp at hacc
  · rename_i hmn
    split at hacc
    · -- equal roots
      rename_i hroots
      by_cases h1 : D1 = []
      · subst h1; simp
      · have h2 : D2 ≠ [] := by intro e; subst e; simp at hmn; exact h1 hmn
        rcases mth_data_inj H hlen D1 D2 h1 h2 hroots with rfl | hc
        · simp
        · exact Or.inr hc
    · rename_i hroots
      split at hacc
      · rename_i hm0
        have : D1 = [] := List.eq_nil_of_length_eq_zero hm0
        subst this; simp
      · rename_i hm0
        -- the real work: strip, seed, walk, tail
        have hm1 : 1 ≤ D1.length := by omega
        have hL0 : (D2.map (hashLeaf H)).length = (D2.length - 1) + 1 := by simp; omega
        have h32 : ∀ y ∈ D2.map (hashLeaf H), y.length = 32 := by
          intro y hy; obtain ⟨d, _, rfl⟩ := List.mem_map.mp hy; exact hlen _
        obtain ⟨L', a, b, c, d, e, f⟩ := strip_spec H hlen (D1.length - 1) (D2.length - 1) (D2.map (hashLeaf H)) hL0 (by omega) h32
        have hm1' : D1.length - 1 + 1 = D1.length := by omega
        rw [hm1'] at e
        -- what the old root must be
        have hgoal : mth H (D1.map (hashLeaf H)) = mth H ((D2.map (hashLeaf H)).take D1.length) ∨ Collision H := by
          revert hacc
          generalize stripRight (D1.length - 1) (D2.length - 1) = nl at a b c e
          obtain ⟨node, last⟩ := nl
          simp only at a b c e ⊢
          intro hacc
          match proof, hp32 with
          | [], _ => simp at hacc
          | p0 :: rest0, hp32 =>
            simp only at hacc
            have hp0 : p0.length = 32 := hp32 p0 (by simp)
            have hr1 : (mth H (D1.map (hashLeaf H))).length = 32 := by
              apply mth_length H hlen
              · intro e'; have := congrArg List.length e'; rw [List.length_map, List.length_nil] at this; omega
              · intro y hy; obtain ⟨d', _, rfl⟩ := List.mem_map.mp hy; exact hlen _
            by_cases hn0 : node = 0
            · subst hn0
              simp only [ne_eq, not_true_eq_false, ↓reduceIte] at hacc
              rw [consWalk_zero] at hacc
              simp only at hacc
              split at hacc
              · simp at hacc
              · rename_i newH' p2 ht
                split at hacc
                · simp at hacc
                · rename_i hnew
                  have hnew' : newH' = mth H (D2.map (hashLeaf H)) := by simpa using hnew
                  rw [hnew', ← d] at ht
                  rcases consTail_sound H hlen last L' _ (p0 :: rest0) p2 a hr1 f hp32 ht with h | h
                  · left
                    rw [← e]
                    match L', a, h with
                    | x :: r, _, h => simp at h; simp [mth_single, h]
                  · exact Or.inr h
            · simp only [ne_eq, hn0, not_false_eq_true, ↓reduceIte] at hacc
              split at hacc
              · simp at hacc
              · rename_i newH oldH last' p1 hw
                split at hacc
                · simp at hacc
                · rename_i newH' p2 ht
                  split at hacc
                  · simp at hacc
                  · rename_i hnew
                    split at hacc
                    · simp at hacc
                    · rename_i hold
                      have hnew' : newH' = mth H (D2.map (hashLeaf H)) := by simpa using hnew
                      have hold' : oldH = mth H (D1.map (hashLeaf H)) := by simpa using hold
                      rw [hnew', ← d] at ht
                      rcases consWalk_sound H hlen last L' node p0 p0 rest0 newH oldH last' p1 p2 a b hp0 hp0 f
                          (fun y hy => hp32 y (by simp [hy])) hw ht with ⟨h1, h2⟩ | h
                      · left
                        rw [← hold', h2, ← e]
                        congr 1
                        rw [List.take_succ_eq_append_getElem (by omega)]
                        congr 2
                        rw [List.getElem?_eq_getElem (by omega)] at h1
                        exact (Option.some.inj h1).symm
                      · exact Or.inr h
        rcases hgoal with hg | hc
        · have hlen1 : (D1.map (hashLeaf H)).length = D1.length := by simp
          have hlen2 : ((D2.map (hashLeaf H)).take D1.length).length = D1.length := by simp; omega
          rcases mth_inj H hlen D1.length _ _ hlen1 hlen2
              (by intro y hy; obtain ⟨d', _, rfl⟩ := List.mem_map.mp hy; exact hlen _)
              (fun y hy => h32 y (List.mem_of_mem_take hy)) hg with heq | hc
          · -- leaf hashes equal => leaf data equal (or a collision)
            rw [← List.map_take] at heq
            exact map_hashLeaf_inj H _ _ heq
          · exact Or.inr hc
        · exact Or.inr hc


/-! ### The RFC 6962 consistency proof, level by level -/

theorem subproof_step (m : Nat) (l : List Hash) (b : Bool) (h : m < l.length ∧ 2 ≤ l.length) :
    subproof H m l b =
      if m ≤ splitPoint l.length then subproof H m (l.take (splitPoint l.length)) b ++ [mth H (l.drop (splitPoint l.length))]
      else subproof H (m - splitPoint l.length) (l.drop (splitPoint l.length)) false ++ [mth H (l.take (splitPoint l.length))] := by
  rw [subproof]; simp [h]

theorem subproof_end (m : Nat) (l : List Hash) (b : Bool) (h : ¬ (m < l.length ∧ 2 ≤ l.length)) :
    subproof H m l b = if b then [] else [mth H l] := by
  rw [subproof]; simp [h]

/-- Even old size: the proof is the proof one level up. -/
theorem subproof_even (n : Nat) : ∀ (D : List Hash) (m : Nat) (b : Bool), D.length = n → m % 2 = 0 → 2 ≤ m → m ≤ n →
    subproof H m D b = subproof H (m / 2) (pairUp H D) b := by
  induction n using Nat.strongRecOn with
  | _ n ih =>
    intro D m b hD hm h2 hmn
    have hP : (pairUp H D).length = (n + 1) / 2 := by rw [pairUp_length, hD]
    by_cases hlt : m < n
    · have hn3 : 3 ≤ n := by omega
      obtain ⟨hk2, hkh⟩ := splitPoint_half n hn3
      obtain ⟨_, hk1, hk3⟩ := splitPoint_spec n (by omega)
      have hkpos := splitPoint_pos n
      rw [subproof_step H m D b (by omega), subproof_step H (m / 2) (pairUp H D) b (by omega), hP, hkh, hD]
      generalize hk : splitPoint n = k at *
      rw [← pairUp_take_even H D k hk2 (by omega), ← pairUp_drop_even H D k hk2 (by omega), mth_pairUp, mth_pairUp]
      by_cases hmk : m ≤ k
      · have : m / 2 ≤ k / 2 := by omega
        simp only [hmk, this, ↓reduceIte]
        rw [ih k (by omega) (D.take k) m b (by simp; omega) hm h2 hmk]
      · have : ¬ m / 2 ≤ k / 2 := by omega
        simp only [hmk, this, ↓reduceIte]
        have e : m / 2 - k / 2 = (m - k) / 2 := by omega
        rw [e, ih (n - k) (by omega) (D.drop k) (m - k) false (by simp; omega) (by omega) (by omega) (by omega)]
    · have : m = n := by omega
      subst this
      rw [subproof_end H m D b (by omega), subproof_end H (m / 2) (pairUp H D) b (by rw [hP]; omega), mth_pairUp]

/-- Odd old size: the proof is the old tree's last leaf (unless it is the very first leaf and `b`) followed
by that leaf's audit path. -/
theorem subproof_odd (n : Nat) : ∀ (D : List Hash) (m : Nat) (b : Bool), D.length = n → m % 2 = 1 → m ≤ n →
    (m = n → n = 1) →
    subproof H m D b = (if b = true ∧ m = 1 then [] else (D[m - 1]?).toList) ++ path H (m - 1) D := by
  induction n using Nat.strongRecOn with
  | _ n ih =>
    intro D m b hD hm hmn hend
    by_cases hlt : m < n
    · have h2 : 2 ≤ n := by omega
      obtain ⟨hp2, hk1, hk3⟩ := splitPoint_spec n h2
      have hkpos := splitPoint_pos n
      rw [subproof_step H m D b (by omega), path_split H (m - 1) D (by omega), hD]
      generalize hk : splitPoint n = k at *
      by_cases hmk : m ≤ k
      · have hlt' : m - 1 < k := by omega
        simp only [hmk, hlt', ↓reduceIte]
        have hmk1 : m = k → k = 1 := by
          intro e; subst e
          obtain ⟨j, hj⟩ := hp2
          cases j with
          | zero => simpa using hj
          | succ j => rw [Nat.pow_succ] at hj; omega
        rw [ih k (by omega) (D.take k) m b (by simp; omega) hm hmk hmk1, List.getElem?_take_of_lt (by omega)]
        simp
      · have hge : ¬ m - 1 < k := by omega
        simp only [hmk, hge, ↓reduceIte]
        have hkeven : k % 2 = 0 := by
          obtain ⟨j, hj⟩ := hp2
          cases j with
          | zero => omega
          | succ j => rw [Nat.pow_succ] at hj; omega
        rw [ih (n - k) (by omega) (D.drop k) (m - k) false (by simp; omega) (by omega) (by omega) (by omega)]
        have hm1 : ¬ (b = true ∧ m = 1) := by omega
        simp only [hm1, Bool.false_eq_true, false_and, ↓reduceIte, List.getElem?_drop]
        have e1 : k + (m - k - 1) = m - 1 := by omega
        have e2 : m - k - 1 = m - 1 - k := by omega
        rw [e1, e2]; simp
    · have : m = n := by omega
      have hn1 := hend this
      subst this; subst hn1
      match D, hD with
      | [x], _ =>
        rw [subproof_end H 1 [x] b (by simp), path_single]
        cases b <;> simp [mth_single]

/-! ### completeness of the verifier on the RFC proof -/

theorem consTail_lpath (last : Nat) : ∀ (L : List Hash) (c : Hash), L.length = last + 1 → L[0]? = some c →
    consTail H last c (lpath H L 0) = .ok (mth H L, []) := by
  induction last using Nat.strongRecOn with
  | _ last ih =>
    intro L c hL hc
    by_cases h0 : last = 0
    · subst h0
      match L, hL with
      | [x], _ => simp at hc; subst hc; rw [lpath_small H _ _ (by simp), consTail_zero]; simp [mth_single]
    · rw [lpath_step H L 0 (by omega)]
      have hs : sib L 0 = [L[1]'(by omega)] := by
        unfold sib; simp [List.getElem?_eq_getElem (show 1 < L.length by omega)]
      have hce : L[0]'(by omega) = c := by rw [List.getElem?_eq_getElem (by omega)] at hc; exact Option.some.inj hc
      rw [hs, List.singleton_append, consTail_pos H last c _ h0]
      simp only [Nat.zero_div]
      rw [← mth_pairUp]
      apply ih (last / 2) (by omega) (pairUp H L) _ (by rw [pairUp_length, hL]; omega)
      rw [pairUp_getElem_pair H L 0 (by omega)]; simp only [Nat.mul_zero]; rw [hce]

/-- Walk and tail of the consistency verifier on the level-by-level path of node `node`. -/
theorem consRun_lpath (last : Nat) : ∀ (L : List Hash) (node : Nat) (c oldH : Hash), L.length = last + 1 → node ≤ last →
    L[node]? = some c →
    ∃ newH' oldH' last' p1, consWalk H node last c oldH (lpath H L node) = .ok (newH', oldH', last', p1) ∧
      consTail H last' newH' p1 = .ok (mth H L, []) ∧ oldH' = mth H (L.take node ++ [oldH]) := by
  induction last using Nat.strongRecOn with
  | _ last ih =>
    intro L node c oldH hL hnode hc
    by_cases h0 : node = 0
    · subst h0
      exact ⟨c, oldH, last, lpath H L 0, consWalk_zero H _ _ _ _, consTail_lpath H last L c hL hc, by simp [mth_single]⟩
    · have hnL : node < L.length := by omega
      have hce : L[node] = c := by rw [List.getElem?_eq_getElem hnL] at hc; exact Option.some.inj hc
      have hL' : (pairUp H L).length = last / 2 + 1 := by rw [pairUp_length, hL]; omega
      rw [lpath_step H L node (by omega), consWalk_pos H node last c oldH _ h0, ← mth_pairUp H L]
      by_cases hodd : node % 2 = 1
      · have hs : sib L node = [L[node - 1]'(by omega)] := by
          unfold sib; simp [hodd, List.getElem?_eq_getElem (show node - 1 < L.length by omega)]
        simp only [hodd, ↓reduceIte, hs, List.singleton_append]
        have hp : (pairUp H L)[node / 2]? = some (hashChildren H (L[node - 1]'(by omega)) c) := by
          rw [pairUp_getElem_pair H L (node / 2) (by omega)]; congr 2
          · have e : 2 * (node / 2) = node - 1 := by omega
            simp only [e]
          · have e : 2 * (node / 2) + 1 = node := by omega
            simp only [e]; exact hce
        obtain ⟨a, b, c', d, h1, h2, h3⟩ := ih (last / 2) (by omega) (pairUp H L) (node / 2) _
          (hashChildren H (L[node - 1]'(by omega)) oldH) hL' (by omega) hp
        refine ⟨a, b, c', d, h1, h2, ?_⟩
        rw [h3, ← mth_pairUp H (L.take node ++ [oldH])]
        congr 1
        have hsplit : L.take node = L.take (node - 1) ++ [L[node - 1]'(by omega)] := by
          have : node = (node - 1) + 1 := by omega
          conv => lhs; rw [this]
          rw [List.take_succ_eq_append_getElem (by omega)]
        rw [hsplit, Poly.Proofs.MerkleTree.pairUp_snoc_pair H _ _ _ (by simp; omega)]
        rw [pairUp_take_even H L (node - 1) (by omega) (by omega)]
        have : (node - 1) / 2 = node / 2 := by omega
        rw [this]
      · simp only [hodd, ↓reduceIte]
        have hpromote : mth H (List.take (node / 2) (pairUp H L) ++ [oldH]) = mth H (L.take node ++ [oldH]) := by
          rw [← mth_pairUp H (L.take node ++ [oldH]), pairUp_append_even H _ _ (by simp; omega)]
          rw [pairUp_take_even H L node (by omega) (by omega)]
          simp [pairUp]
        by_cases hlt : node < last
        · have hs : sib L node = [L[node + 1]'(by omega)] := by
            unfold sib; simp [hodd, List.getElem?_eq_getElem (show node + 1 < L.length by omega)]
          simp only [hlt, ↓reduceIte, hs, List.singleton_append]
          have hp : (pairUp H L)[node / 2]? = some (hashChildren H c (L[node + 1]'(by omega))) := by
            rw [pairUp_getElem_pair H L (node / 2) (by omega)]; congr 2
            · have e : 2 * (node / 2) = node := by omega
              simp only [e]; exact hce
            · have e : 2 * (node / 2) + 1 = node + 1 := by omega
              simp only [e]
          obtain ⟨a, b, c', d, h1, h2, h3⟩ := ih (last / 2) (by omega) (pairUp H L) (node / 2) _ oldH hL' (by omega) hp
          exact ⟨a, b, c', d, h1, h2, by rw [h3, hpromote]⟩
        · have hs : sib L node = [] := by
            unfold sib; simp [hodd, List.getElem?_eq_none (show L.length ≤ node + 1 by omega)]
          simp only [hlt, ↓reduceIte, hs, List.nil_append]
          have hp : (pairUp H L)[node / 2]? = some c := by
            rw [pairUp_getElem_last H L (node / 2) (by omega)]; congr 1
            have e : 2 * (node / 2) = node := by omega
            simp only [e]; exact hce
          obtain ⟨a, b, c', d, h1, h2, h3⟩ := ih (last / 2) (by omega) (pairUp H L) (node / 2) c oldH hL' (by omega) hp
          exact ⟨a, b, c', d, h1, h2, by rw [h3, hpromote]⟩

/-- The RFC proof `PROOF(m, D)` in the verifier's coordinates: after moving up over the levels where the
old tree's last node is a right child, it is the node reached (unless it is the leftmost node of its
level) followed by that node's level-by-level path. -/
theorem subproof_levels (m : Nat) : ∀ (D : List Hash), 1 ≤ m → m < D.length →
    ∃ L', L'.length = (stripRight (m - 1) (D.length - 1)).2 + 1 ∧
      (stripRight (m - 1) (D.length - 1)).1 ≤ (stripRight (m - 1) (D.length - 1)).2 ∧
      mth H L' = mth H D ∧ mth H (L'.take ((stripRight (m - 1) (D.length - 1)).1 + 1)) = mth H (D.take m) ∧
      subproof H m D true =
        (if (stripRight (m - 1) (D.length - 1)).1 = 0 then [] else (L'[(stripRight (m - 1) (D.length - 1)).1]?).toList)
          ++ lpath H L' (stripRight (m - 1) (D.length - 1)).1 := by
  induction m using Nat.strongRecOn with
  | _ m ih =>
    intro D hm1 hmn
    by_cases hev : m % 2 = 0
    · have hodd : (m - 1) % 2 = 1 := by omega
      rw [stripRight_odd _ _ hodd]
      have hP : (pairUp H D).length = (D.length + 1) / 2 := pairUp_length H D
      have e1 : (m - 1) / 2 = m / 2 - 1 := by omega
      have e2 : (D.length - 1) / 2 = (pairUp H D).length - 1 := by rw [hP]; omega
      rw [e1, e2]
      obtain ⟨L', a, b, c, d, e⟩ := ih (m / 2) (by omega) (pairUp H D) (by omega) (by rw [hP]; omega)
      refine ⟨L', a, b, by rw [c, mth_pairUp], ?_, ?_⟩
      · rw [d, ← pairUp_take_even H D m hev (by omega), mth_pairUp]
      · rw [subproof_even H D.length D m true rfl hev (by omega) (by omega), e]
    · have hnodd : ¬ (m - 1) % 2 = 1 := by omega
      rw [stripRight_even _ _ hnodd]
      refine ⟨D, by simp only; omega, by simp only; omega, rfl, by simp only; rw [show m - 1 + 1 = m by omega], ?_⟩
      simp only
      rw [subproof_odd H D.length D m true rfl (by omega) (by omega) (by omega)]
      rw [lpath_eq_path H D.length D (m - 1) rfl (by omega)]
      by_cases h1 : m = 1
      · subst h1; simp
      · have : ¬ m - 1 = 0 := by omega
        simp [h1, this]

/-- The node's own verifier accepts the RFC 6962 consistency proof between any two sizes `1 ≤ m ≤ n`. -/
theorem verifyConsistency_complete (D : List Hash) (m : Nat) (hm1 : 1 ≤ m) (hmn : m ≤ D.length) :
    verifyConsistency H m D.length (mth H (D.take m)) (mth H D) (subproof H m D true) = .ok () := by
  unfold verifyConsistency
  have h1 : ¬ m > D.length := by omega
  simp only [h1, ↓reduceIte]
  by_cases hroots : mth H (D.take m) = mth H D
  · simp [hroots]
  · simp only [hroots, ↓reduceIte]
    have h0 : ¬ m = 0 := by omega
    simp only [h0, ↓reduceIte]
    have hlt : m < D.length := by
      rcases Nat.lt_or_ge m D.length with h | h
      · exact h
      · exfalso; apply hroots; rw [List.take_of_length_le h]
    obtain ⟨L', a, b, c, d, e⟩ := subproof_levels H m D hm1 hlt
    rw [e]
    generalize stripRight (m - 1) (D.length - 1) = nl at a b d e ⊢
    obtain ⟨node, last⟩ := nl
    simp only at a b d e ⊢
    by_cases hn0 : node = 0
    · subst hn0
      simp only [↓reduceIte, List.nil_append, ne_eq, not_true_eq_false]
      -- the old tree is one perfect subtree: its root is the leftmost node of the level
      have hlast : last ≠ 0 := by
        intro e0; subst e0
        apply hroots
        rw [← d, ← c]
        match L', a with
        | [x], _ => simp
      have hne := lpath_ne_nil H (last + 1) L' 0 a (by omega) (by omega)
      have hr1 : L'[0]? = some (mth H (D.take m)) := by
        rw [← d]
        match L', a with
        | x :: r, _ => simp [mth_single]
      match hq : lpath H L' 0, hne with
      | p0 :: rest0, _ =>
        simp only
        rw [consWalk_zero, ← hq]
        simp only
        rw [consTail_lpath H last L' _ a hr1]
        simp [c]
    · have hnl : node < L'.length := by omega
      simp only [hn0, ↓reduceIte, List.getElem?_eq_getElem hnl, Option.toList_some, List.singleton_append, ne_eq,
        not_false_eq_true]
      obtain ⟨n', o', l', p1, h1', h2', h3'⟩ := consRun_lpath H last L' node (L'[node]) (L'[node]) a b
        (List.getElem?_eq_getElem hnl)
      rw [h1']
      simp only
      rw [h2']
      simp only
      have ho : o' = mth H (D.take m) := by
        rw [h3', ← d, List.take_succ_eq_append_getElem hnl]
      simp [c, ho]


/-! ### the generator: `ConsistencyProof` reads the RFC proof out of the store -/

/-- The part of `subproof` after the loop. -/
def finish (st : HashStore) : List Hash × Nat × Nat × Bool → Except Err (List Hash)
  | (hs, n', offset, b') =>
    if b' = false then
      match getSubTreePos n' with
      | [p] => match getHash1 st (p + offset) with
        | .error e => .error e
        | .ok h => .ok (hs ++ [h]).reverse
      | _ => .error .panic
    else .ok hs.reverse

theorem subproofGen_eq (st : HashStore) (m n : Nat) (b : Bool) :
    subproofGen H (getHash1 st) m n b = match consLoop H (getHash1 st) (n + 1) m n 0 b with
      | .error e => .error e
      | .ok x => finish st x := by
  unfold subproofGen
  cases consLoop H (getHash1 st) (n + 1) m n 0 b with
  | error e => rfl
  | ok x => obtain ⟨hs, n', off, b'⟩ := x; rfl

theorem finish_cons (st : HashStore) (h : Hash) (r : List Hash) (x : Nat × Nat × Bool) (l : List Hash)
    (hf : finish st (r, x) = .ok l) : finish st (h :: r, x) = .ok (l ++ [h]) := by
  obtain ⟨n', off, b'⟩ := x
  unfold finish at hf ⊢
  cases b' with
  | true => simp at hf ⊢; rw [← hf]
  | false =>
    simp only [↓reduceIte] at hf ⊢
    split at hf
    · rename_i p hp
      split at hf
      · simp at hf
      · rename_i hh hg
        simp only [Except.ok.injEq] at hf
        simp only [List.cons_append, List.reverse_cons]
        rw [← hf]
    · simp at hf

theorem getSubTreePos_pow2 (j : Nat) : getSubTreePos (2 ^ j) = [2 * 2 ^ j - 1] := by
  unfold getSubTreePos
  rw [getSubTreeSize_top (2 ^ j) (Nat.two_pow_pos j), topBit_pow2]
  simp [getSubTreeSize, subTreeSizesLow, prefixSums]

theorem consLoop_ok (st : HashStore) (fuel : Nat) : ∀ (S : List Hash) (m : Nat) (pre suf : List Hash) (b : Bool),
    st.hashes = pre ++ postorder H S ++ suf → 1 ≤ m → m ≤ S.length → S.length < fuel →
    (b = false → m < S.length ∨ IsPow2 S.length) →
    ∃ x, consLoop H (getHash1 st) fuel m S.length pre.length b = .ok x ∧ finish st x = .ok (subproof H m S b) := by
  induction fuel with
  | zero => intro S m pre suf b _ _ _ hf; omega
  | succ fuel ih =>
    intro S m pre suf b hst hm1 hmS hf hb
    rw [consLoop]
    by_cases hlt : m < S.length
    · have h2 : 2 ≤ S.length := by omega
      simp only [hlt, ↓reduceIte]
      rw [splitK_eq _ h2, subproof_step H m S b ⟨hlt, h2⟩]
      obtain ⟨hp2, hk1, hk2⟩ := splitPoint_spec S.length h2
      have hkpos := splitPoint_pos S.length
      obtain ⟨init, tail, e1, l1, e2⟩ := postorder_split H S h2
      generalize hk : splitPoint S.length = k at *
      by_cases hmk : m ≤ k
      · simp only [hmk, ↓reduceIte]
        have hbase : pre.length + k * 2 = (pre ++ postorder H (S.take k)).length + 1 := by
          rw [e1]; simp [l1]; omega
        have hcnt : S.length - k = (S.drop k).length := by simp
        rw [hbase, hcnt, rangeRoot_ok H st (S.drop k) (pre ++ postorder H (S.take k)) (tail ++ suf)
          (by intro e; have := congrArg List.length e; rw [List.length_drop, List.length_nil] at this; omega)
          (by rw [hst, e2]; simp)]
        simp only
        have hlt' : (S.take k).length = k := by simp; omega
        obtain ⟨x, hx, hfx⟩ := ih (S.take k) m pre (postorder H (S.drop k) ++ tail ++ suf) b
          (by rw [hst, e2]; simp) hm1 (by omega) (by omega) (fun _ => Or.inr (by rw [hlt']; exact hp2))
        rw [hlt'] at hx
        rw [hx]
        obtain ⟨r, y⟩ := x
        exact ⟨_, rfl, finish_cons st _ r y _ hfx⟩
      · simp only [hmk, ↓reduceIte]
        have hpos : pre.length + (k * 2 - 1) = (pre ++ init).length + 1 := by simp [l1]; omega
        rw [hpos, getHash1_at st (pre ++ init) (postorder H (S.drop k) ++ tail ++ suf) (mth H (S.take k))
          (by rw [hst, e2, e1]; simp)]
        simp only
        have hoff : (pre ++ init).length + 1 = (pre ++ postorder H (S.take k)).length := by rw [e1]; simp; omega
        have hld : (S.drop k).length = S.length - k := by simp
        obtain ⟨x, hx, hfx⟩ := ih (S.drop k) (m - k) (pre ++ postorder H (S.take k)) (tail ++ suf) false
          (by rw [hst, e2]; simp) (by omega) (by omega) (by omega) (fun _ => Or.inl (by omega))
        rw [hld, ← hoff] at hx
        rw [hx]
        obtain ⟨r, y⟩ := x
        exact ⟨_, rfl, finish_cons st _ r y _ hfx⟩
    · have hmeq : m = S.length := by omega
      simp only [hlt, ↓reduceIte]
      refine ⟨_, rfl, ?_⟩
      rw [subproof_end H m S b (by omega)]
      unfold finish
      cases b with
      | true => simp
      | false =>
        simp only [↓reduceIte, Bool.false_eq_true]
        obtain ⟨j, hj⟩ : IsPow2 S.length := by
          rcases hb rfl with h | h
          · omega
          · exact h
        have hSne : S ≠ [] := by intro e; rw [e] at hj; simp at hj; have := Nat.two_pow_pos j; omega
        rw [hj, getSubTreePos_pow2]
        simp only
        have hpo : postorder H S = perfectPost H S := postorder_full H S hSne (by rw [hj, topBit_pow2])
        obtain ⟨init, e1, l1⟩ := perfectPost_spec H j S hj
        have hpos : 2 * 2 ^ j - 1 + pre.length = (pre ++ init).length + 1 := by
          simp [l1]; have := Nat.two_pow_pos j; omega
        rw [hpos, getHash1_at st (pre ++ init) suf (mth H S) (by rw [hst, hpo, e1]; simp)]
        simp

/-- `ConsistencyProof(m, n)` on the tree of `L` is the RFC 6962 consistency proof `PROOF(m, L[0:n])`. -/
theorem consistencyProof_eq_proof (L : List Hash) (s : State) (st : HashStore) (m n : Nat)
    (hinv : SInv H L s) (hst : s.store = some st) (hm1 : 1 ≤ m) (hmn : m ≤ n) (hn : n ≤ L.length) :
    consistencyProof H s m n = .ok (some (proof H m (L.take n))) := by
  obtain ⟨h1, _, h3⟩ := hinv
  obtain ⟨rest, hrest⟩ := postorder_prefix H (L.take n) (L.drop n)
  rw [List.take_append_drop] at hrest
  have hlen : (L.take n).length = n := by simp; omega
  obtain ⟨x, hx, hfx⟩ := consLoop_ok H st (n + 1) (L.take n) m [] rest true (by rw [h3 st hst, hrest]; simp)
    hm1 (by omega) (by omega) (by simp)
  rw [hlen] at hx
  simp only [List.length_nil] at hx
  unfold consistencyProof consistencyProofR
  have h' : ¬ (m > n ∨ s.tree.size < n) := by omega
  simp only [hst, Option.map_some, h', ↓reduceIte]
  rw [subproofGen_eq, hx]
  simp only [hfx, proof]


/-! ### uniqueness of accepted consistency proofs -/

theorem consTail_unique (hlen : HashLen H) (last : Nat) : ∀ (c c' : Hash) (p p' : List Hash) (r : Hash),
    c.length = 32 → c'.length = 32 → (∀ y ∈ p, y.length = 32) → (∀ y ∈ p', y.length = 32) →
    consTail H last c p = .ok (r, []) → consTail H last c' p' = .ok (r, []) → (c = c' ∧ p = p') ∨ Collision H := by
  induction last using Nat.strongRecOn with
  | _ last ih =>
    intro c c' p p' r hc hc' hp hp' h1 h2
    by_cases h0 : last = 0
    · subst h0
      rw [consTail_zero] at h1 h2
      simp only [Except.ok.injEq, Prod.mk.injEq] at h1 h2
      left; exact ⟨by rw [h1.1, h2.1], by rw [h1.2, h2.2]⟩
    · rw [consTail_pos H last c p h0] at h1
      rw [consTail_pos H last c' p' h0] at h2
      match p, p', h1, h2 with
      | s :: rest, s' :: rest', h1, h2 =>
        simp only at h1 h2
        have hs : s.length = 32 := hp s (by simp)
        have hs' : s'.length = 32 := hp' s' (by simp)
        rcases ih (last / 2) (by omega) _ _ _ _ r (hlen _) (hlen _) (fun y hy => hp y (by simp [hy]))
            (fun y hy => hp' y (by simp [hy])) h1 h2 with ⟨e1, e2⟩ | hcol
        · rcases hashChildren_inj H (by rw [hc, hc']) e1 with ⟨a, b⟩ | hcol
          · left; exact ⟨a, by rw [b, e2]⟩
          · exact Or.inr hcol
        · exact Or.inr hcol

/-- The new-root computation of the consistency verifier is injective in (start node, proof). -/
theorem consRun_unique (hlen : HashLen H) (node : Nat) :
    ∀ (last : Nat) (c o c' o' : Hash) (p p' : List Hash) (a b a' b' : Hash) (l l' : Nat) (p1 p1' : List Hash) (r : Hash),
    c.length = 32 → c'.length = 32 → (∀ y ∈ p, y.length = 32) → (∀ y ∈ p', y.length = 32) →
    consWalk H node last c o p = .ok (a, b, l, p1) → consTail H l a p1 = .ok (r, []) →
    consWalk H node last c' o' p' = .ok (a', b', l', p1') → consTail H l' a' p1' = .ok (r, []) →
    (c = c' ∧ p = p') ∨ Collision H := by
  induction node using Nat.strongRecOn with
  | _ node ih =>
    intro last c o c' o' p p' a b a' b' l l' p1 p1' r hc hc' hp hp' hw ht hw' ht'
    by_cases h0 : node = 0
    · subst h0
      rw [consWalk_zero] at hw hw'
      simp only [Except.ok.injEq, Prod.mk.injEq] at hw hw'
      obtain ⟨rfl, _, rfl, rfl⟩ := hw
      obtain ⟨rfl, _, rfl, rfl⟩ := hw'
      exact consTail_unique H hlen last c c' p p' r hc hc' hp hp' ht ht'
    · rw [consWalk_pos H node last c o p h0] at hw
      rw [consWalk_pos H node last c' o' p' h0] at hw'
      by_cases hodd : node % 2 = 1
      · simp only [hodd, ↓reduceIte] at hw hw'
        match p, p', hw, hw' with
        | s :: rest, s' :: rest', hw, hw' =>
          simp only at hw hw'
          have hs : s.length = 32 := hp s (by simp)
          have hs' : s'.length = 32 := hp' s' (by simp)
          rcases ih (node / 2) (by omega) (last / 2) _ _ _ _ rest rest' a b a' b' l l' p1 p1' r (hlen _) (hlen _)
              (fun y hy => hp y (by simp [hy])) (fun y hy => hp' y (by simp [hy])) hw ht hw' ht' with ⟨e1, e2⟩ | hcol
          · rcases hashChildren_inj H (by rw [hs, hs']) e1 with ⟨x, y⟩ | hcol
            · left; exact ⟨y, by rw [x, e2]⟩
            · exact Or.inr hcol
          · exact Or.inr hcol
      · simp only [hodd, ↓reduceIte] at hw hw'
        by_cases hlt : node < last
        · simp only [hlt, ↓reduceIte] at hw hw'
          match p, p', hw, hw' with
          | s :: rest, s' :: rest', hw, hw' =>
            simp only at hw hw'
            rcases ih (node / 2) (by omega) (last / 2) _ _ _ _ rest rest' a b a' b' l l' p1 p1' r (hlen _) (hlen _)
                (fun y hy => hp y (by simp [hy])) (fun y hy => hp' y (by simp [hy])) hw ht hw' ht' with ⟨e1, e2⟩ | hcol
            · rcases hashChildren_inj H (by rw [hc, hc']) e1 with ⟨x, y⟩ | hcol
              · left; exact ⟨x, by rw [y, e2]⟩
              · exact Or.inr hcol
            · exact Or.inr hcol
        · simp only [hlt, ↓reduceIte] at hw hw'
          exact ih (node / 2) (by omega) (last / 2) c o c' o' p p' a b a' b' l l' p1 p1' r hc hc' hp hp' hw ht hw' ht'

/-- What an accepting non-trivial run of `VerifyConsistency` means for the walk and the tail. -/
theorem verifyConsistency_run (m n : Nat) (r1 r2 : Hash) (proof : List Hash) (hne : r1 ≠ r2) (hm : m ≠ 0)
    (hacc : verifyConsistency H m n r1 r2 proof = .ok ()) :
    ∃ p0 rest0 a b l p1, proof = p0 :: rest0 ∧
      consWalk H (stripRight (m - 1) (n - 1)).1 (stripRight (m - 1) (n - 1)).2
        (if (stripRight (m - 1) (n - 1)).1 ≠ 0 then p0 else r1) (if (stripRight (m - 1) (n - 1)).1 ≠ 0 then p0 else r1)
        (if (stripRight (m - 1) (n - 1)).1 ≠ 0 then rest0 else proof) = .ok (a, b, l, p1) ∧
      consTail H l a p1 = .ok (r2, []) := by
  unfold verifyConsistency at hacc
  split at hacc
  · simp at hacc
  · simp only [hne, ↓reduceIte, hm] at hacc
    match proof, hacc with
    | p0 :: rest0, hacc =>
      simp only at hacc
      refine ⟨p0, rest0, ?_⟩
      generalize stripRight (m - 1) (n - 1) = nl at hacc ⊢
      obtain ⟨node, last⟩ := nl
      simp only at hacc ⊢
      by_cases hn0 : node = 0
      · subst hn0
        simp only [ne_eq, not_true_eq_false, ↓reduceIte] at hacc ⊢
        cases hw : consWalk H 0 last r1 r1 (p0 :: rest0) with
        | error e => simp [hw] at hacc
        | ok x =>
          obtain ⟨a, b, l, p1⟩ := x
          simp only [hw] at hacc
          cases ht : consTail H l a p1 with
          | error e => simp [ht] at hacc
          | ok y =>
            obtain ⟨a', p2⟩ := y
            simp only [ht] at hacc
            split at hacc
            · simp at hacc
            · rename_i h1
              split at hacc
              · simp at hacc
              · split at hacc
                · simp at hacc
                · rename_i h3
                  have e1 : a' = r2 := by simpa using h1
                  have e3 : p2 = [] := by simpa using h3
                  exact ⟨a, b, l, p1, by simp, by simp, by rw [ht, e1, e3]⟩
      · simp only [ne_eq, hn0, not_false_eq_true, ↓reduceIte] at hacc ⊢
        cases hw : consWalk H node last p0 p0 rest0 with
        | error e => simp [hw] at hacc
        | ok x =>
          obtain ⟨a, b, l, p1⟩ := x
          simp only [hw] at hacc
          cases ht : consTail H l a p1 with
          | error e => simp [ht] at hacc
          | ok y =>
            obtain ⟨a', p2⟩ := y
            simp only [ht] at hacc
            split at hacc
            · simp at hacc
            · rename_i h1
              split at hacc
              · simp at hacc
              · split at hacc
                · simp at hacc
                · rename_i h3
                  have e1 : a' = r2 := by simpa using h1
                  have e3 : p2 = [] := by simpa using h3
                  exact ⟨a, b, l, p1, by simp, by simp, by rw [ht, e1, e3]⟩

/-- For fixed sizes and two different roots at most one consistency proof is accepted (or a collision). -/
theorem verifyConsistency_unique (hlen : HashLen H) (m n : Nat) (r1 r2 : Hash) (p p' : List Hash)
    (hne : r1 ≠ r2) (hm : m ≠ 0) (hr1 : r1.length = 32)
    (hp : ∀ y ∈ p, y.length = 32) (hp' : ∀ y ∈ p', y.length = 32)
    (h1 : verifyConsistency H m n r1 r2 p = .ok ()) (h2 : verifyConsistency H m n r1 r2 p' = .ok ()) :
    p = p' ∨ Collision H := by
  obtain ⟨p0, rest0, a, b, l, p1, e, hw, ht⟩ := verifyConsistency_run H m n r1 r2 p hne hm h1
  obtain ⟨p0', rest0', a', b', l', p1', e', hw', ht'⟩ := verifyConsistency_run H m n r1 r2 p' hne hm h2
  subst e; subst e'
  generalize stripRight (m - 1) (n - 1) = nl at hw ht hw' ht'
  obtain ⟨node, last⟩ := nl
  simp only at hw hw'
  by_cases hn0 : node = 0
  · subst hn0
    simp only [ne_eq, not_true_eq_false, ↓reduceIte] at hw hw'
    rcases consRun_unique H hlen 0 last r1 r1 r1 r1 _ _ a b a' b' l l' p1 p1' r2 hr1 hr1 hp hp' hw ht hw' ht' with ⟨_, e⟩ | hc
    · exact Or.inl e
    · exact Or.inr hc
  · simp only [ne_eq, hn0, not_false_eq_true, ↓reduceIte] at hw hw'
    rcases consRun_unique H hlen node last p0 p0 p0' p0' rest0 rest0' a b a' b' l l' p1 p1' r2 (hp p0 (by simp)) (hp' p0' (by simp))
        (fun y hy => hp y (by simp [hy])) (fun y hy => hp' y (by simp [hy])) hw ht hw' ht' with ⟨e1, e2⟩ | hc
    · left; rw [e1, e2]
    · exact Or.inr hc

end Poly.Proofs.MerkleCons
