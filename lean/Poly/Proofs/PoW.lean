import Poly.Model.PoW
/-!
# Proofs for C27: the PoW light client keeps a consistent store with a heaviest head

`Inv0` is the structural invariant (stored headers are parent-closed with height +1 and summed total difficulty; the
main-chain index is gap-free and parent-linked from the trust root to the head), `Heaviest` says the head's total
difficulty is maximal among stored headers. `restruct_spec` shows that `RestructChain`, exactly as written, never
takes an error exit on a consistent store and re-establishes the invariant; `syncHeader_inv` lifts this to one
header, `run_inv` to every history of calls (each call all-or-nothing).
-/
set_option linter.unusedSectionVars false
set_option linter.unusedSimpArgs false
open Poly.Model.PoW

namespace Poly.Proofs.PoW
variable {H R : Type} [DecidableEq H]

structure Inv0 (g : Hdr H R) (s : Store H R) : Prop where
  gen : ∃ e, s.index g.hash = some e ∧ e.hdr.number = g.number ∧ e.td = g.difficulty
  key : ∀ k e, s.index k = some e → e.hdr.hash = k
  low : ∀ k e, s.index k = some e → g.number ≤ e.hdr.number ∧ (e.hdr.number = g.number → k = g.hash)
  par : ∀ k e, s.index k = some e → k ≠ g.hash →
    ∃ pe, s.index e.hdr.parent = some pe ∧ e.hdr.number = pe.hdr.number + 1 ∧ e.td = pe.td + e.hdr.difficulty
  cur_ge : g.number ≤ s.cur
  main_g : s.main g.number = some g.hash
  main_ok : ∀ n, g.number ≤ n → n ≤ s.cur → ∃ e, s.main n = some e.hdr.hash ∧ s.index e.hdr.hash = some e ∧ e.hdr.number = n
  main_link : ∀ n k e, g.number ≤ n → n + 1 ≤ s.cur → s.main (n + 1) = some k → s.index k = some e →
    s.main n = some e.hdr.parent
  main_low : ∀ n, n < g.number → s.main n = none

/-- `x` is (the relevant part of) a stored header. -/
def StoredHdr (s : Store H R) (x : Hdr H R) : Prop :=
  ∃ e, s.index x.hash = some e ∧ e.hdr.parent = x.parent ∧ e.hdr.number = x.number

/-- `l` is a parent-linked run of stored headers at heights `ti, ti+1, …`. -/
def PathFrom (s : Store H R) (ti : Nat) (l : List H) : Prop :=
  ∀ i k, l[i]? = some k → ∃ e, s.index k = some e ∧ e.hdr.number = ti + i ∧
    ∀ j k', i = j + 1 → l[j]? = some k' → e.hdr.parent = k'

/-- The run ends with hash `toph` at height `topn`. -/
def Top (ti : Nat) (l : List H) (topn : Nat) (toph : H) : Prop :=
  ti ≤ topn ∧ l.length = topn + 1 - ti ∧ l[topn - ti]? = some toph

theorem gen_number {g : Hdr H R} {s : Store H R} (inv : Inv0 g s) {e : Entry H R} (h : s.index g.hash = some e) :
    e.hdr.number = g.number := by
  obtain ⟨ge, h1, h2, _⟩ := inv.gen
  rw [h] at h1; cases h1; exact h2

/-- One parent step of either loop: a stored header above the trust root has a stored parent one height below, and
the run extends downwards. -/
theorem step_down {g : Hdr H R} {s : Store H R} (inv : Inv0 g s) (new : Hdr H R) (acc : List H) (topn : Nat) (toph : H)
    (hst : StoredHdr s new) (hgt : g.number < new.number)
    (hp : PathFrom s new.number (new.hash :: acc)) (ht : Top new.number (new.hash :: acc) topn toph) :
    ∃ pe, s.index new.parent = some pe ∧ pe.hdr.number + 1 = new.number ∧ StoredHdr s pe.hdr ∧
      PathFrom s pe.hdr.number (pe.hdr.hash :: new.hash :: acc) ∧
      Top pe.hdr.number (pe.hdr.hash :: new.hash :: acc) topn toph := by
  obtain ⟨e, he, hepar, henum⟩ := hst
  have hne : new.hash ≠ g.hash := by
    intro hh; rw [hh] at he; have := gen_number inv he; omega
  obtain ⟨pe, hpe, hnum, _⟩ := inv.par _ _ he hne
  rw [hepar] at hpe
  have hkey := inv.key _ _ hpe
  refine ⟨pe, hpe, by omega, ⟨pe, by rw [hkey]; exact hpe, rfl, rfl⟩, ?_, ?_⟩
  · intro i k hk
    cases i with
    | zero =>
      simp at hk; subst hk
      exact ⟨pe, by rw [hkey]; exact hpe, by omega, fun j k' hj _ => by omega⟩
    | succ i' =>
      simp only [List.getElem?_cons_succ] at hk
      obtain ⟨e', h1, h2, h3⟩ := hp i' k hk
      refine ⟨e', h1, by omega, ?_⟩
      intro j k' hj hk'
      have hj' : j = i' := by omega
      subst hj'
      cases j with
      | zero =>
        simp at hk'; subst hk'
        simp at hk; subst hk
        rw [he] at h1; cases h1
        rw [hepar, hkey]
      | succ j' =>
        simp only [List.getElem?_cons_succ] at hk'
        exact h3 j' k' rfl hk'
  · obtain ⟨t1, t2, t3⟩ := ht
    refine ⟨by omega, by simp only [List.length_cons] at t2 ⊢; omega, ?_⟩
    have : topn - pe.hdr.number = (topn - new.number) + 1 := by omega
    rw [this, List.getElem?_cons_succ]; exact t3

theorem walkDown_spec {g : Hdr H R} {s : Store H R} (inv : Inv0 g s) (topn : Nat) (toph : H) :
    ∀ (k : Nat) (new : Hdr H R) (acc : List H), StoredHdr s new → g.number + k ≤ new.number →
      PathFrom s new.number (new.hash :: acc) → Top new.number (new.hash :: acc) topn toph →
      ∃ new' acc', walkDown s k new acc = some (new', acc') ∧ StoredHdr s new' ∧ new'.number + k = new.number ∧
        PathFrom s new'.number (new'.hash :: acc') ∧ Top new'.number (new'.hash :: acc') topn toph := by
  intro k
  induction k with
  | zero =>
    intro new acc hst _ hp ht
    exact ⟨new, acc, rfl, hst, rfl, hp, ht⟩
  | succ k ih =>
    intro new acc hst hk hp ht
    obtain ⟨pe, hpe, hnum, hst', hp', ht'⟩ := step_down inv new acc topn toph hst (by omega) hp ht
    obtain ⟨new', acc', h1, h2, h3, h4, h5⟩ := ih pe.hdr (new.hash :: acc) hst' (by omega) hp' ht'
    refine ⟨new', acc', ?_, h2, by omega, h4, h5⟩
    simp only [walkDown, hpe]; exact h1

/-- `current` is the main-chain header at height `si`. -/
def OnMain (s : Store H R) (si : Nat) (current : Hdr H R) : Prop :=
  ∃ ce, s.main si = some current.hash ∧ s.index current.hash = some ce ∧ ce.hdr.parent = current.parent ∧ ce.hdr.number = si

theorem commonAncestor_spec {g : Hdr H R} {s : Store H R} (inv : Inv0 g s) (topn : Nat) (toph : H) :
    ∀ (si : Nat) (current new : Hdr H R) (acc : List H), OnMain s si current → g.number ≤ si → si ≤ s.cur →
      StoredHdr s new → new.number = si →
      PathFrom s si (new.hash :: acc) → Top si (new.hash :: acc) topn toph →
      ∃ si' new' acc', commonAncestor s si current new acc = some (si', new', acc') ∧
        g.number ≤ si' ∧ si' ≤ si ∧ StoredHdr s new' ∧ new'.number = si' ∧
        PathFrom s si' (new'.hash :: acc') ∧ Top si' (new'.hash :: acc') topn toph ∧
        (si' = g.number → new'.hash = g.hash) ∧ (g.number < si' → s.main (si' - 1) = some new'.parent) := by
  intro si
  induction si with
  | zero =>
    intro current new acc hon hg hc hst hn hp ht
    have hg0 : g.number = 0 := by omega
    obtain ⟨ce, m1, m2, m3, m4⟩ := hon
    obtain ⟨e, e1, e2, e3⟩ := hst
    have hnewg : new.hash = g.hash := (inv.low _ _ e1).2 (by omega)
    have hcurg : current.hash = g.hash := by
      have := inv.main_g; rw [hg0, m1] at this; exact Option.some.inj this
    have hpar : current.parent = new.parent := by
      rw [hcurg] at m2; rw [hnewg] at e1; rw [m2] at e1; cases e1; rw [← m3, ← e2]
    refine ⟨0, new, acc, by simp [commonAncestor, hpar], by omega, by omega, ⟨e, e1, e2, e3⟩, hn, hp, ht, fun _ => hnewg, fun h => by omega⟩
  | succ si ih =>
    intro current new acc hon hg hc hst hn hp ht
    by_cases hpar : current.parent = new.parent
    · refine ⟨si + 1, new, acc, by simp [commonAncestor, hpar], hg, Nat.le_refl _, hst, hn, hp, ht, ?_, ?_⟩
      · intro hh
        obtain ⟨e, e1, _, e3⟩ := hst
        exact (inv.low _ _ e1).2 (by omega)
      · intro _
        obtain ⟨ce, m1, m2, m3, _⟩ := hon
        have := inv.main_link si _ _ (by omega) hc m1 m2
        simp only [Nat.add_sub_cancel]
        rw [this, m3, hpar]
    · have hgt : g.number < si + 1 := by
        rcases Nat.lt_or_ge g.number (si + 1) with h | h
        · exact h
        · exfalso
          have hgeq : g.number = si + 1 := by omega
          obtain ⟨ce, m1, m2, m3, m4⟩ := hon
          obtain ⟨e, e1, e2, e3⟩ := hst
          have hnewg : new.hash = g.hash := (inv.low _ _ e1).2 (by omega)
          have hcurg : current.hash = g.hash := by
            have := inv.main_g; rw [hgeq, m1] at this; exact Option.some.inj this
          apply hpar
          rw [hcurg] at m2; rw [hnewg] at e1; rw [m2] at e1; cases e1; rw [← m3, ← e2]
      have hp' : PathFrom s new.number (new.hash :: acc) := by rw [hn]; exact hp
      have ht' : Top new.number (new.hash :: acc) topn toph := by rw [hn]; exact ht
      obtain ⟨pe, hpe, hnum, hst', hp2, ht2⟩ := step_down inv new acc topn toph hst (by omega) hp' ht'
      obtain ⟨c, c1, c2, c3⟩ := inv.main_ok si (by omega) (by omega)
      have hpn : pe.hdr.number = si := by omega
      have hbh : headerByHeight s si = some c := by
        have : ¬ si > s.cur := by omega
        simp [headerByHeight, this, c1, c2]
      rw [hpn] at hp2 ht2
      obtain ⟨si', new', acc', r1, r2, r3, r4, r5, r6, r7, r8, r9⟩ :=
        ih c.hdr pe.hdr (new.hash :: acc) ⟨c, c1, c2, rfl, c3⟩ (by omega) (by omega) hst' hpn hp2 ht2
      refine ⟨si', new', acc', ?_, r2, by omega, r4, r5, r6, r7, r8, r9⟩
      simp only [commonAncestor, hpar, if_false, hpe, hbh]; exact r1

theorem writeMain_index : ∀ (l : List H) (s : Store H R) (ti : Nat), (writeMain s ti l).index = s.index := by
  intro l
  induction l with
  | nil => intro s ti; rfl
  | cons h rest ih => intro s ti; simp only [writeMain]; rw [ih]; rfl

theorem writeMain_main : ∀ (l : List H) (s : Store H R) (ti n : Nat),
    (writeMain s ti l).main n = if ti ≤ n ∧ n < ti + l.length then l[n - ti]? else s.main n := by
  intro l
  induction l with
  | nil =>
    intro s ti n
    have : ¬ (ti ≤ n ∧ n < ti + ([] : List H).length) := by simp only [List.length_nil]; omega
    rw [if_neg this]; rfl
  | cons h rest ih =>
    intro s ti n
    simp only [writeMain]
    rw [ih]
    by_cases h1 : n = ti
    · subst h1
      have : ¬ (n + 1 ≤ n ∧ n < n + 1 + rest.length) := by omega
      simp [this, appendMain]
    · by_cases h2 : ti + 1 ≤ n ∧ n < ti + 1 + rest.length
      · have h3 : ti ≤ n ∧ n < ti + (h :: rest).length := by simp only [List.length_cons]; omega
        have h4 : n - ti = (n - (ti + 1)) + 1 := by omega
        rw [if_pos h2, if_pos h3, h4, List.getElem?_cons_succ]
      · have h3 : ¬ (ti ≤ n ∧ n < ti + (h :: rest).length) := by simp only [List.length_cons]; omega
        rw [if_neg h2, if_neg h3]
        simp [appendMain, h1]

theorem writeMain_cur : ∀ (l : List H) (s : Store H R) (ti : Nat), l ≠ [] → (writeMain s ti l).cur = ti + l.length - 1 := by
  intro l
  induction l with
  | nil => intro s ti h; exact absurd rfl h
  | cons h rest ih =>
    intro s ti _
    simp only [writeMain]
    cases rest with
    | nil => simp [writeMain, appendMain]
    | cons h2 rest2 =>
      rw [ih _ _ (by simp)]
      simp only [List.length_cons]; omega

/-- Writing a parent-linked run that joins the main chain at `si'` keeps the structural invariant and makes the top
of the run the head. -/
theorem writeMain_inv0 {g : Hdr H R} {s : Store H R} (inv : Inv0 g s) (si' : Nat) (new' : Hdr H R) (acc' : List H)
    (topn : Nat) (toph : H)
    (h1 : g.number ≤ si') (h2 : si' ≤ s.cur) (hst : StoredHdr s new')
    (hp : PathFrom s si' (new'.hash :: acc')) (ht : Top si' (new'.hash :: acc') topn toph)
    (hj1 : si' = g.number → new'.hash = g.hash) (hj2 : g.number < si' → s.main (si' - 1) = some new'.parent) :
    Inv0 g (writeMain s si' (new'.hash :: acc')) ∧ (writeMain s si' (new'.hash :: acc')).cur = topn ∧
      (writeMain s si' (new'.hash :: acc')).main topn = some toph := by
  obtain ⟨t1, t2, t3⟩ := ht
  have hcur : (writeMain s si' (new'.hash :: acc')).cur = topn := by
    rw [writeMain_cur _ _ _ (by simp), t2]; omega
  have hidx := writeMain_index (new'.hash :: acc') s si'
  have hmain := writeMain_main (new'.hash :: acc') s si'
  have inrange : ∀ n, si' ≤ n → n ≤ topn → (si' ≤ n ∧ n < si' + (new'.hash :: acc').length) := by
    intro n a b; rw [t2]; omega
  have outrange : ∀ n, n < si' → ¬ (si' ≤ n ∧ n < si' + (new'.hash :: acc').length) := by
    intro n a; omega
  refine ⟨⟨?_, ?_, ?_, ?_, ?_, ?_, ?_, ?_, ?_⟩, hcur, ?_⟩
  · rw [hidx]; exact inv.gen
  · rw [hidx]; exact inv.key
  · rw [hidx]; exact inv.low
  · rw [hidx]; exact inv.par
  · rw [hcur]; omega
  · rw [hmain]
    by_cases hc : si' = g.number
    · rw [if_pos (inrange _ (by omega) (by omega))]
      have : g.number - si' = 0 := by omega
      rw [this]; simp [hj1 hc]
    · rw [if_neg (outrange _ (by omega))]; exact inv.main_g
  · intro n a b
    rw [hcur] at b
    rw [hmain, hidx]
    by_cases hc : si' ≤ n
    · rw [if_pos (inrange n hc b)]
      have hlt : n - si' < (new'.hash :: acc').length := by rw [t2]; omega
      obtain ⟨k, hk⟩ : ∃ k, (new'.hash :: acc')[n - si']? = some k := ⟨_, List.getElem?_eq_getElem hlt⟩
      obtain ⟨e, e1, e2, _⟩ := hp _ _ hk
      refine ⟨e, ?_, ?_, by omega⟩
      · rw [hk, inv.key _ _ e1]
      · rw [inv.key _ _ e1]; exact e1
    · rw [if_neg (outrange n (by omega))]
      exact inv.main_ok n a (by omega)
  · intro n k e a b c d
    rw [hcur] at b
    rw [hmain] at c ⊢
    rw [hidx] at d
    by_cases hc1 : n + 1 < si'
    · rw [if_neg (outrange _ hc1)] at c
      rw [if_neg (outrange _ (by omega))]
      exact inv.main_link n k e a (by omega) c d
    · by_cases hc2 : n + 1 = si'
      · rw [if_pos (inrange _ (by omega) (by omega))] at c
        rw [if_neg (outrange _ (by omega))]
        have : n + 1 - si' = 0 := by omega
        rw [this] at c; simp at c; subst c
        obtain ⟨e', e1, e2, _⟩ := hst
        rw [e1] at d; cases d
        have := hj2 (by omega)
        have hn : si' - 1 = n := by omega
        rw [hn] at this; rw [this, e2]
      · rw [if_pos (inrange _ (by omega) (by omega))] at c
        rw [if_pos (inrange _ (by omega) (by omega))]
        have hlt : n - si' < (new'.hash :: acc').length := by rw [t2]; omega
        obtain ⟨k', hk'⟩ : ∃ k', (new'.hash :: acc')[n - si']? = some k' := ⟨_, List.getElem?_eq_getElem hlt⟩
        obtain ⟨e', e1, _, e3⟩ := hp _ _ c
        rw [e1] at d; cases d
        rw [hk', e3 (n - si') k' (by omega) hk']
  · intro n hn
    rw [hmain, if_neg (outrange n (by omega))]; exact inv.main_low n hn
  · rw [hmain, if_pos (inrange _ t1 (Nat.le_refl _))]; exact t3

theorem head_onMain {g : Hdr H R} {s : Store H R} (inv : Inv0 g s) {ce : Entry H R} (hc : currentHeader s = some ce) :
    OnMain s s.cur ce.hdr ∧ ce.hdr.number = s.cur ∧ s.index ce.hdr.hash = some ce := by
  obtain ⟨e, e1, e2, e3⟩ := inv.main_ok s.cur inv.cur_ge (Nat.le_refl _)
  have : currentHeader s = some e := by simp [currentHeader, headerByHeight, e1, e2]
  have hh : e = ce := by rw [this] at hc; exact Option.some.inj hc
  subst hh
  exact ⟨⟨e, e1, e2, rfl, e3⟩, e3, e2⟩

/-- `RestructChain` never takes an error exit on a consistent store: the new header becomes the head of a gap-free,
parent-linked main chain; the header index is untouched. -/
theorem restruct_spec {g : Hdr H R} {s : Store H R} (inv : Inv0 g s) (ce : Entry H R) (hcur : currentHeader s = some ce)
    (new : Hdr H R) (hst : StoredHdr s new) (hgt : g.number < new.number) :
    Inv0 g (restructChain s ce.hdr new) ∧ (restructChain s ce.hdr new).index = s.index ∧
      (restructChain s ce.hdr new).cur = new.number ∧ (restructChain s ce.hdr new).main new.number = some new.hash := by
  obtain ⟨hon, hcn, _⟩ := head_onMain inv hcur
  have hp0 : PathFrom s new.number (new.hash :: []) := by
    intro i k hk
    obtain ⟨e, e1, e2, e3⟩ := hst
    cases i with
    | zero => simp at hk; subst hk; exact ⟨e, e1, by omega, fun j k' hj _ => by omega⟩
    | succ i => simp at hk
  have ht0 : Top new.number (new.hash :: []) new.number new.hash := ⟨Nat.le_refl _, by simp, by simp⟩
  -- phase A
  obtain ⟨cur, si, hstart, honm, hsi1, hsi2, hsi3⟩ : ∃ cur si,
      (if ce.hdr.number > new.number then (headerByHeight s new.number).map (fun e => (e.hdr, new.number))
        else some (ce.hdr, ce.hdr.number)) = some (cur, si) ∧ OnMain s si cur ∧ g.number ≤ si ∧ si ≤ s.cur ∧ si ≤ new.number := by
    by_cases hc : ce.hdr.number > new.number
    · obtain ⟨c, c1, c2, c3⟩ := inv.main_ok new.number (by omega) (by omega)
      have hbh : headerByHeight s new.number = some c := by
        have : ¬ new.number > s.cur := by omega
        simp [headerByHeight, this, c1, c2]
      exact ⟨c.hdr, new.number, by simp [hc, hbh], ⟨c, c1, c2, rfl, c3⟩, by omega, by omega, Nat.le_refl _⟩
    · exact ⟨ce.hdr, ce.hdr.number, by simp [hc], by rw [hcn]; exact hon, by rw [hcn]; exact inv.cur_ge, by omega, by omega⟩
  -- phase B
  obtain ⟨new', acc, hw, hst', hn', hp', ht'⟩ :=
    walkDown_spec inv new.number new.hash (new.number - si) new [] hst (by omega) hp0 ht0
  have hn'' : new'.number = si := by omega
  rw [hn''] at hp' ht'
  -- phase C
  obtain ⟨si', new'', acc', hca, r2, r3, r4, r5, r6, r7, r8, r9⟩ :=
    commonAncestor_spec inv new.number new.hash si cur new' acc honm hsi1 hsi2 hst' hn'' hp' ht'
  -- phase D
  have hres : restructChain s ce.hdr new = writeMain s si' (new''.hash :: acc') := by
    simp only [restructChain, hstart, hw, hca]
  rw [hres]
  obtain ⟨i1, i2, i3⟩ := writeMain_inv0 inv si' new'' acc' new.number new.hash r2 (by omega) r4 r6 r7 r8 r9
  exact ⟨i1, writeMain_index _ _ _, i2, i3⟩

def Heaviest (s : Store H R) : Prop :=
  ∃ h, currentHeader s = some h ∧ ∀ k e, s.index k = some e → e.td ≤ h.td

theorem setIndex_index_ne (s : Store H R) (k x : H) (e : Entry H R) (h : x ≠ k) : (setIndex s k e).index x = s.index x := by
  simp [setIndex, h]

theorem setIndex_index_eq (s : Store H R) (k : H) (e : Entry H R) : (setIndex s k e).index k = some e := by
  simp [setIndex]

/-- A stored key differs from a key that is not stored. -/
theorem ne_of_stored {s : Store H R} {a b : H} {e : Entry H R} (ha : s.index a = some e) (hb : s.index b = none) : a ≠ b := by
  intro h; subst h; rw [ha] at hb; cases hb

/-- Storing a new valid child keeps the structural invariant. -/
theorem setIndex_inv0 {g : Hdr H R} {s : Store H R} (inv : Inv0 g s) (h : Hdr H R) (pe : Entry H R)
    (hnew : s.index h.hash = none) (hpar : s.index h.parent = some pe) (hnum : h.number = pe.hdr.number + 1) :
    Inv0 g (setIndex s h.hash ⟨h, pe.td + h.difficulty⟩) := by
  have old : ∀ k e, s.index k = some e → (setIndex s h.hash ⟨h, pe.td + h.difficulty⟩).index k = some e := by
    intro k e hk
    rw [setIndex_index_ne _ _ _ _ (ne_of_stored hk hnew)]; exact hk
  have cases : ∀ k e, (setIndex s h.hash ⟨h, pe.td + h.difficulty⟩).index k = some e →
      (k = h.hash ∧ e = ⟨h, pe.td + h.difficulty⟩) ∨ (k ≠ h.hash ∧ s.index k = some e) := by
    intro k e hk
    by_cases hkk : k = h.hash
    · subst hkk; rw [setIndex_index_eq] at hk; cases hk; exact Or.inl ⟨rfl, rfl⟩
    · rw [setIndex_index_ne _ _ _ _ hkk] at hk; exact Or.inr ⟨hkk, hk⟩
  obtain ⟨ge, hge, hgn, hgt⟩ := inv.gen
  refine ⟨⟨ge, old _ _ hge, hgn, hgt⟩, ?_, ?_, ?_, inv.cur_ge, inv.main_g, ?_, ?_, inv.main_low⟩
  · intro k e hk
    rcases cases k e hk with ⟨rfl, rfl⟩ | ⟨_, ho⟩
    · rfl
    · exact inv.key k e ho
  · intro k e hk
    rcases cases k e hk with ⟨rfl, rfl⟩ | ⟨_, ho⟩
    · have := (inv.low _ _ hpar).1
      exact ⟨by simp only; omega, fun hh => by simp only at hh; omega⟩
    · exact inv.low k e ho
  · intro k e hk hne
    rcases cases k e hk with ⟨rfl, rfl⟩ | ⟨_, ho⟩
    · exact ⟨pe, old _ _ hpar, hnum, rfl⟩
    · obtain ⟨pe', h1, h2, h3⟩ := inv.par k e ho hne
      exact ⟨pe', old _ _ h1, h2, h3⟩
  · intro n h1 h2
    obtain ⟨e, a, b, c⟩ := inv.main_ok n h1 h2
    exact ⟨e, a, old _ _ b, c⟩
  · intro n k e h1 h2 h3 h4
    obtain ⟨e', a, b, c⟩ := inv.main_ok (n+1) (by omega) h2
    have hk : k = e'.hdr.hash := by
      have : (setIndex s h.hash ⟨h, pe.td + h.difficulty⟩).main (n+1) = s.main (n+1) := rfl
      rw [this, a] at h3; cases h3; rfl
    subst hk
    rw [old _ _ b] at h4; cases h4
    exact inv.main_link n _ _ h1 h2 a b


theorem appendMain_inv0 {g : Hdr H R} {s : Store H R} (inv : Inv0 g s) (ce he : Entry H R)
    (hcur : currentHeader s = some ce) (hst : s.index he.hdr.hash = some he)
    (hpar : he.hdr.parent = ce.hdr.hash) (hnum : he.hdr.number = ce.hdr.number + 1) :
    Inv0 g (appendMain s he.hdr.number he.hdr.hash) ∧
      currentHeader (appendMain s he.hdr.number he.hdr.hash) = some he := by
  obtain ⟨_, hcn, hcs⟩ := head_onMain inv hcur
  have hn : he.hdr.number = s.cur + 1 := by omega
  have hmain : ∀ n, (appendMain s he.hdr.number he.hdr.hash).main n = if n = s.cur + 1 then some he.hdr.hash else s.main n := by
    intro n; simp [appendMain, hn]
  have hc : (appendMain s he.hdr.number he.hdr.hash).cur = s.cur + 1 := by simp [appendMain, hn]
  have hi : (appendMain s he.hdr.number he.hdr.hash).index = s.index := rfl
  have hg := inv.cur_ge
  refine ⟨⟨?_, ?_, ?_, ?_, ?_, ?_, ?_, ?_, ?_⟩, ?_⟩
  · rw [hi]; exact inv.gen
  · rw [hi]; exact inv.key
  · rw [hi]; exact inv.low
  · rw [hi]; exact inv.par
  · rw [hc]; omega
  · rw [hmain, if_neg (by omega)]; exact inv.main_g
  · intro n a b
    rw [hc] at b; rw [hmain, hi]
    by_cases hh : n = s.cur + 1
    · rw [if_pos hh]; exact ⟨he, rfl, hst, by omega⟩
    · rw [if_neg hh]; exact inv.main_ok n a (by omega)
  · intro n k e a b c d
    rw [hc] at b; rw [hmain] at c ⊢; rw [hi] at d
    by_cases hh : n + 1 = s.cur + 1
    · rw [if_pos hh] at c; rw [if_neg (by omega)]
      have hk : he.hdr.hash = k := Option.some.inj c
      subst hk
      rw [hst] at d
      have : he = e := Option.some.inj d
      subst this
      have hn' : n = s.cur := by omega
      subst hn'
      obtain ⟨e', e1, e2, e3⟩ := inv.main_ok s.cur hg (Nat.le_refl _)
      have : currentHeader s = some e' := by simp [currentHeader, headerByHeight, e1, e2]
      rw [this] at hcur
      have : e' = ce := Option.some.inj hcur
      subst this
      rw [e1, hpar]
    · rw [if_neg hh] at c; rw [if_neg (by omega)]
      exact inv.main_link n k e a (by omega) c d
  · intro n hn
    rw [hmain, if_neg (by omega)]; exact inv.main_low n hn
  · have : ¬ (s.cur + 1 > (appendMain s he.hdr.number he.hdr.hash).cur) := by rw [hc]; omega
    simp [currentHeader, headerByHeight, hc, hmain, hi, hst]

/-- The head of the store is not affected by storing a header under a fresh key. -/
theorem currentHeader_setIndex {g : Hdr H R} {s : Store H R} (inv : Inv0 g s) (k : H) (e : Entry H R) (hk : s.index k = none) :
    currentHeader (setIndex s k e) = currentHeader s := by
  obtain ⟨e', e1, e2, e3⟩ := inv.main_ok s.cur inv.cur_ge (Nat.le_refl _)
  have hne : e'.hdr.hash ≠ k := ne_of_stored e2 hk
  have h1 : currentHeader s = some e' := by simp [currentHeader, headerByHeight, e1, e2]
  have h2 : currentHeader (setIndex s k e) = some e' := by
    have hm : (setIndex s k e).main = s.main := rfl
    have hc : (setIndex s k e).cur = s.cur := rfl
    simp only [currentHeader, headerByHeight, hc, hm, e1, Nat.lt_irrefl, if_false, Option.bind_some, gt_iff_lt]
    rw [setIndex_index_ne _ _ _ _ hne]; exact e2
  rw [h1, h2]

theorem init_inv0 (g : Hdr H R) : Inv0 g (init g) := by
  refine ⟨⟨⟨g, g.difficulty⟩, by simp [init], rfl, rfl⟩, ?_, ?_, ?_, ?_, ?_, ?_, ?_, ?_⟩
  · intro k e h; simp only [init] at h; split at h
    · rename_i hk; cases h; exact hk.symm
    · cases h
  · intro k e h; simp only [init] at h; split at h
    · rename_i hk; cases h; exact ⟨Nat.le_refl _, fun _ => hk⟩
    · cases h
  · intro k e h hne; simp only [init] at h; split at h
    · rename_i hk; exact absurd hk hne
    · cases h
  · exact Nat.le_refl _
  · simp [init]
  · intro n h1 h2
    have : n = g.number := by simp only [init] at h2; omega
    subst this
    exact ⟨⟨g, g.difficulty⟩, by simp [init], by simp [init], rfl⟩
  · intro n k e h1 h2; simp only [init] at h2; omega
  · intro n hn
    have : ¬ n = g.number := by omega
    simp [init, this]

theorem init_heaviest (g : Hdr H R) : Heaviest (init g) := by
  refine ⟨⟨g, g.difficulty⟩, by simp [currentHeader, headerByHeight, init], ?_⟩
  intro k e h; simp only [init] at h; split at h
  · cases h; exact Nat.le_refl _
  · cases h


/-- The full invariant: structure + heaviest head. -/
def Inv (g : Hdr H R) (s : Store H R) : Prop := Inv0 g s ∧ Heaviest s

theorem syncHeader_inv (valid : Hdr H R → Hdr H R → Bool) {g : Hdr H R} {s : Store H R} (inv : Inv g s) (h : Hdr H R) :
    Inv g (syncHeader valid s h).1 := by
  obtain ⟨inv0, hd, hhd, hmax⟩ := inv
  unfold syncHeader
  cases hk : s.index h.hash with
  | some _ => exact ⟨inv0, hd, hhd, hmax⟩
  | none =>
    cases hp : s.index h.parent with
    | none => exact ⟨inv0, hd, hhd, hmax⟩
    | some pe =>
      simp only []
      by_cases hnum : h.number ≠ pe.hdr.number + 1
      · rw [if_pos hnum]; exact ⟨inv0, hd, hhd, hmax⟩
      · have hnum' : h.number = pe.hdr.number + 1 := by omega
        rw [if_neg hnum]
        cases hv : valid h pe.hdr with
        | false => simp only [Bool.not_false, if_true]; exact ⟨inv0, hd, hhd, hmax⟩
        | true =>
          simp only [Bool.not_true, Bool.false_eq_true, if_false]
          have inv1 := setIndex_inv0 inv0 h pe hk hp hnum'
          have hcur1 : currentHeader (setIndex s h.hash ⟨h, pe.td + h.difficulty⟩) = some hd := by
            rw [currentHeader_setIndex inv0 _ _ hk]; exact hhd
          rw [hcur1]
          have hnew : (setIndex s h.hash ⟨h, pe.td + h.difficulty⟩).index h.hash = some ⟨h, pe.td + h.difficulty⟩ :=
            setIndex_index_eq _ _ _
          have hall : ∀ k e, (setIndex s h.hash ⟨h, pe.td + h.difficulty⟩).index k = some e →
              e.td ≤ hd.td ∨ e.td = pe.td + h.difficulty := by
            intro k e hke
            by_cases hkk : k = h.hash
            · subst hkk; rw [hnew] at hke; right; rw [← Option.some.inj hke]
            · rw [setIndex_index_ne _ _ _ _ hkk] at hke; left; exact hmax k e hke
          have hpe_le : pe.td ≤ hd.td := hmax _ _ hp
          by_cases happ : hd.hdr.hash = h.parent
          · simp only [happ, if_true]
            have hpe : pe = hd := by
              obtain ⟨_, _, hs⟩ := head_onMain inv0 hhd
              rw [happ, hp] at hs; exact Option.some.inj hs
            subst hpe
            obtain ⟨i1, i2⟩ := appendMain_inv0 inv1 pe ⟨h, pe.td + h.difficulty⟩ hcur1 hnew happ.symm hnum'
            refine ⟨i1, ⟨h, pe.td + h.difficulty⟩, i2, ?_⟩
            intro k e hke
            rcases hall k e hke with h1 | h1
            · simp only; omega
            · simp only; omega
          · simp only [happ, if_false]
            by_cases hgt : pe.td + h.difficulty > hd.td
            · simp only [hgt, if_true]
              have hlow := (inv0.low _ _ hp).1
              obtain ⟨r1, r2, r3, r4⟩ := restruct_spec inv1 hd hcur1 h ⟨⟨h, pe.td + h.difficulty⟩, hnew, rfl, rfl⟩ (by omega)
              refine ⟨r1, ⟨h, pe.td + h.difficulty⟩, ?_, ?_⟩
              · have : ¬ (h.number > (restructChain (setIndex s h.hash ⟨h, pe.td + h.difficulty⟩) hd.hdr h).cur) := by
                  rw [r3]; omega
                simp [currentHeader, headerByHeight, r3, r4, r2, hnew]
              · intro k e hke
                rw [r2] at hke
                rcases hall k e hke with h1 | h1
                · simp only; omega
                · simp only; omega
            · simp only [hgt, if_false]
              refine ⟨inv1, hd, hcur1, ?_⟩
              intro k e hke
              rcases hall k e hke with h1 | h1
              · exact h1
              · omega

/-! ## What a call can do to the header index; calls and histories -/

theorem restruct_index (s : Store H R) (current new : Hdr H R) : (restructChain s current new).index = s.index := by
  unfold restructChain
  simp only []
  split
  · rfl
  · split
    · rfl
    · split
      · rfl
      · exact writeMain_index _ _ _

/-- A header either leaves the index alone or adds exactly itself, as a valid child of a stored parent. -/
theorem syncHeader_index (valid : Hdr H R → Hdr H R → Bool) (s : Store H R) (h : Hdr H R) :
    (syncHeader valid s h).1.index = s.index ∨
    (∃ pe, s.index h.hash = none ∧ s.index h.parent = some pe ∧ h.number = pe.hdr.number + 1 ∧ valid h pe.hdr = true ∧
      (syncHeader valid s h).1.index = (setIndex s h.hash ⟨h, pe.td + h.difficulty⟩).index) := by
  unfold syncHeader
  cases hk : s.index h.hash with
  | some _ => exact Or.inl rfl
  | none =>
    cases hp : s.index h.parent with
    | none => exact Or.inl rfl
    | some pe =>
      simp only []
      by_cases hnum : h.number ≠ pe.hdr.number + 1
      · rw [if_pos hnum]; exact Or.inl rfl
      · rw [if_neg hnum]
        cases hv : valid h pe.hdr with
        | false => left; simp only [Bool.not_false, if_true]
        | true =>
          cases hc : currentHeader (setIndex s h.hash ⟨h, pe.td + h.difficulty⟩) with
          | none => left; simp only [Bool.not_true, Bool.false_eq_true, if_false, hc]
          | some ce =>
            right
            refine ⟨pe, trivial, rfl, by omega, hv, ?_⟩
            simp only [Bool.not_true, Bool.false_eq_true, if_false]
            split
            · rfl
            · split
              · exact restruct_index _ _ _
              · rfl

/-- Every stored header other than the trust root passed the validity predicate against its stored parent. -/
def AllValid (valid : Hdr H R → Hdr H R → Bool) (g : Hdr H R) (s : Store H R) : Prop :=
  ∀ k e, s.index k = some e → k ≠ g.hash → ∃ pe, s.index e.hdr.parent = some pe ∧ valid e.hdr pe.hdr = true

theorem syncHeader_allValid (valid : Hdr H R → Hdr H R → Bool) {g : Hdr H R} {s : Store H R}
    (hv : AllValid valid g s) (h : Hdr H R) : AllValid valid g (syncHeader valid s h).1 := by
  rcases syncHeader_index valid s h with hi | ⟨pe, h1, h2, h3, h4, h5⟩
  · intro k e; rw [hi]; intro a b; obtain ⟨pe, c, d⟩ := hv k e a b; exact ⟨pe, c, d⟩
  · intro k e; rw [h5]; intro a b
    have old : ∀ k e, s.index k = some e → (setIndex s h.hash ⟨h, pe.td + h.difficulty⟩).index k = some e := by
      intro k e hk
      rw [setIndex_index_ne _ _ _ _ (ne_of_stored hk h1)]; exact hk
    by_cases hk : k = h.hash
    · subst hk
      rw [setIndex_index_eq] at a
      have : e = ⟨h, pe.td + h.difficulty⟩ := (Option.some.inj a).symm
      subst this
      exact ⟨pe, old _ _ h2, h4⟩
    · rw [setIndex_index_ne _ _ _ _ hk] at a
      obtain ⟨pe', c, d⟩ := hv k e a b
      exact ⟨pe', old _ _ c, d⟩

theorem syncCall_go_inv (valid : Hdr H R → Hdr H R → Bool) {g : Hdr H R} (s0 : Store H R) (P : Store H R → Prop)
    (hstep : ∀ s h, P s → P (syncHeader valid s h).1) (h0 : P s0) :
    ∀ (hs : List (Hdr H R)) (cur : Store H R) (outs : List Outcome), P cur → P (syncCall.go valid s0 cur outs hs).1 := by
  intro hs
  induction hs with
  | nil => intro cur outs hc; exact hc
  | cons h rest ih =>
    intro cur outs hc
    simp only [syncCall.go]
    split
    · exact h0
    · exact ih _ _ (hstep _ _ hc)

theorem syncCall_preserves (valid : Hdr H R → Hdr H R → Bool) {g : Hdr H R} (P : Store H R → Prop)
    (hstep : ∀ s h, P s → P (syncHeader valid s h).1) (s : Store H R) (hs : List (Hdr H R)) (h0 : P s) :
    P (syncCall valid s hs).1 :=
  syncCall_go_inv (g := g) valid s P hstep h0 hs s [] h0

theorem run_preserves (valid : Hdr H R → Hdr H R → Bool) (g : Hdr H R) (P : Store H R → Prop)
    (hstep : ∀ s h, P s → P (syncHeader valid s h).1) (h0 : P (init g)) (calls : List (List (Hdr H R))) :
    P (run valid g calls) := by
  unfold run
  have : ∀ (cs : List (List (Hdr H R))) (s : Store H R), P s → P (cs.foldl (fun s hs => (syncCall valid s hs).1) s) := by
    intro cs
    induction cs with
    | nil => intro s hs; exact hs
    | cons c rest ih => intro s hs; exact ih _ (syncCall_preserves (g := g) valid P hstep s c hs)
  exact this calls _ h0

theorem run_inv (valid : Hdr H R → Hdr H R → Bool) (g : Hdr H R) (calls : List (List (Hdr H R))) :
    Inv g (run valid g calls) :=
  run_preserves valid g (Inv g) (fun _ h inv => syncHeader_inv valid inv h) ⟨init_inv0 g, init_heaviest g⟩ calls

theorem run_allValid (valid : Hdr H R → Hdr H R → Bool) (g : Hdr H R) (calls : List (List (Hdr H R))) :
    AllValid valid g (run valid g calls) :=
  run_preserves valid g (AllValid valid g) (fun _ h hv => syncHeader_allValid valid hv h)
    (by intro k e hk hne; simp only [init] at hk; split at hk
        · rename_i hh; exact absurd hh hne
        · cases hk) calls

end Poly.Proofs.PoW
