import Poly.Proofs.GovPool
/-! `InitConfig` establishes the pool invariants (C34). -/
namespace Poly.Model.Gov

abbrev Peer := Nat × String × Addr

def peerKey (p : Peer) : Option Bytes := decodePk p.2.1

theorem pidxFold_spec : ∀ (peers : List Peer) (acc : List (Bytes × Nat)),
    (∀ p ∈ peers, (peerKey p).isSome) → (peers.map peerKey).Nodup →
    (∀ p ∈ peers, ∀ kb, peerKey p = some kb → alGet (pidxFold acc peers) kb = some p.1) ∧
    (∀ k, (∀ p ∈ peers, peerKey p ≠ some k) → alGet (pidxFold acc peers) k = alGet acc k)
  | [], acc, _, _ => ⟨fun p hp => (by cases hp), fun _ _ => rfl⟩
  | q :: t, acc, hv, hn => by
    have hnd := List.nodup_cons.1 (show (peerKey q :: t.map peerKey).Nodup from hn)
    obtain ⟨kq, hkq⟩ := Option.isSome_iff_exists.1 (hv q List.mem_cons_self)
    have hstep : pidxFold acc (q :: t) = pidxFold (alPut acc kq q.1) t := by
      simp only [pidxFold, List.foldl_cons]
      simp only [peerKey] at hkq
      rw [hkq]
    obtain ⟨iha, ihb⟩ := pidxFold_spec t (alPut acc kq q.1) (fun p hp => hv p (List.mem_cons_of_mem _ hp)) hnd.2
    rw [hstep]
    constructor
    · intro p hp kb hkb
      rcases List.mem_cons.1 hp with rfl | hp'
      · rw [hkq] at hkb; injection hkb with hkb; subst hkb
        rw [ihb kq (fun p' hp' e => hnd.1 (by rw [hkq, ← e]; exact List.mem_map_of_mem hp'))]
        exact alGet_put_self _ _ _
      · exact iha p hp' kb hkb
    · intro k hk
      rw [ihb k (fun p hp => hk p (List.mem_cons_of_mem _ hp))]
      apply alGet_put_ne
      intro e; subst e; exact hk q List.mem_cons_self hkq

theorem maxFold_ge : ∀ (peers : List Peer) (m : Nat), m ≤ peers.foldl (fun m p => if p.1 > m then p.1 else m) m ∧
    ∀ p ∈ peers, p.1 ≤ peers.foldl (fun m p => if p.1 > m then p.1 else m) m
  | [], m => ⟨Nat.le_refl _, fun p hp => by cases hp⟩
  | q :: t, m => by
    simp only [List.foldl_cons]
    obtain ⟨h1, h2⟩ := maxFold_ge t (if q.1 > m then q.1 else m)
    by_cases hq : q.1 > m
    · simp only [hq, if_true] at h1 h2 ⊢
      refine ⟨by omega, ?_⟩
      intro p hp
      rcases List.mem_cons.1 hp with rfl | hp'
      · exact h1
      · exact h2 p hp'
    · simp only [hq, if_false] at h1 h2 ⊢
      refine ⟨h1, ?_⟩
      intro p hp
      rcases List.mem_cons.1 hp with rfl | hp'
      · omega
      · exact h2 p hp'

theorem dupIdx_false_nodup : ∀ (peers : List Peer), dupIdx peers = false → (peers.map (·.1)).Nodup
  | [], _ => List.nodup_nil
  | p :: t, h => by
    simp only [dupIdx, Bool.or_eq_false_iff, List.any_eq_false, decide_eq_true_eq] at h
    refine List.nodup_cons.2 ⟨?_, dupIdx_false_nodup t h.2⟩
    intro hm
    obtain ⟨q, hq, e⟩ := List.mem_map.1 hm
    exact h.1 q hq e

theorem eq_of_nodup_map {α β : Type} (f : α → β) : ∀ (l : List α), (l.map f).Nodup → ∀ a ∈ l, ∀ b ∈ l, f a = f b → a = b
  | [], _, a, ha, _, _, _ => by cases ha
  | x :: t, h, a, ha, b, hb, e => by
    have hc := List.nodup_cons.1 (show (f x :: t.map f).Nodup from h)
    rcases List.mem_cons.1 ha with rfl | ha'
    · rcases List.mem_cons.1 hb with rfl | hb'
      · rfl
      · exact absurd (e ▸ List.mem_map_of_mem hb') hc.1
    · rcases List.mem_cons.1 hb with rfl | hb'
      · exact absurd (e ▸ List.mem_map_of_mem ha') hc.1
      · exact eq_of_nodup_map f t hc.2 a ha' b hb' e

theorem activeCount_all_cons (peers : List Peer) :
    activeCount (peers.map (fun p => ({ index := p.1, pk := p.2.1, addr := p.2.2, status := Status.cons } : PeerItem))) = peers.length := by
  unfold activeCount
  rw [List.filter_map, List.length_map]
  have : ((fun it : PeerItem => it.status.active) ∘ fun (p : Peer) => ({ index := p.1, pk := p.2.1, addr := p.2.2, status := Status.cons } : PeerItem)) = fun _ => true := by
    funext p; rfl
  rw [this]; simp

/-- `InitConfig` on a node manager without index and request records, with at least four peers whose keys are
pairwise different public keys, establishes the pool invariants. -/
theorem init_establishes (s : State) (mbcv : Nat) (peers : List Peer) (o : Out)
    (h : initConfig s mbcv peers = .ok (.done o)) (hp : s.pidx = []) (ha : s.apply = [])
    (h4 : 4 ≤ peers.length) (hkeys : (peers.map peerKey).Nodup) : PoolInv o.st ∧ ApplyCanon o.st := by
  simp only [initConfig] at h
  split at h
  · cases h
  · split at h
    · cases h
    · rename_i hdup
      split at h
      · cases h
      · rename_i hany
        injection h with h; injection h with h; subst h
        have hdi : dupIdx peers = false := by
          cases hd : dupIdx peers with
          | false => rfl
          | true => simp [hd] at hdup
        have hvalid : ∀ p ∈ peers, (peerKey p).isSome := by
          intro p hpm
          simp only [List.any_eq_true, not_exists, not_and, Bool.or_eq_true, decide_eq_true_eq, not_or] at hany
          have := (hany p hpm).2
          simp only [addrOfPk] at this
          unfold peerKey
          cases hd : decodePk p.2.1 with
          | none => simp [hd] at this
          | some b => rfl
        obtain ⟨hget, hother⟩ := pidxFold_spec peers [] hvalid hkeys
        have hfold : pidxFold s.pidx peers = pidxFold [] peers := by rw [hp]
        refine ⟨⟨{ view := 1, height := s.height }, peers.map (fun p => ({ index := p.1, pk := p.2.1, addr := p.2.2, status := Status.cons } : PeerItem)), ?_, ?_, ?_⟩, ?_⟩
        · simp only [curPool, alGet_put_self]
        · refine ⟨by rw [activeCount_all_cons]; exact h4, ?_, ?_, ?_⟩
          · rw [List.map_map]; exact hkeys
          · intro it hit
            obtain ⟨p, hpm, rfl⟩ := List.mem_map.1 hit
            obtain ⟨kb, hkb⟩ := Option.isSome_iff_exists.1 (hvalid p hpm)
            exact ⟨kb, hkb, by simp only; rw [hfold]; exact hget p hpm kb hkb⟩
          · intro kb r hr; simp only [ha] at hr; cases hr
        · simp only; rw [hfold]
          have hmem : ∀ (k : Bytes) (i : Nat), alGet (pidxFold [] peers) k = some i → ∃ p : Peer, p ∈ peers ∧ peerKey p = some k ∧ p.1 = i := by
            intro k i hk
            by_cases hex : ∃ p : Peer, p ∈ peers ∧ peerKey p = some k
            · obtain ⟨p, hpm, hpk⟩ := hex
              rw [hget p hpm k hpk] at hk; injection hk with hk
              exact ⟨p, hpm, hpk, hk⟩
            · rw [hother k (fun p hpm e => hex ⟨p, hpm, e⟩)] at hk; cases hk
          constructor
          · intro k1 k2 i h1 h2
            obtain ⟨p1, hp1, hk1, hi1⟩ := hmem k1 i h1
            obtain ⟨p2, hp2, hk2, hi2⟩ := hmem k2 i h2
            have : p1 = p2 := eq_of_nodup_map (·.1) peers (dupIdx_false_nodup peers hdi) p1 hp1 p2 hp2 (by rw [hi1, hi2])
            subst this
            rw [hk1] at hk2; injection hk2
          · intro k i hk
            obtain ⟨p, hpm, _, hi⟩ := hmem k i hk
            refine ⟨_, rfl, ?_⟩
            have := (maxFold_ge peers 0).2 p hpm
            exact Nat.lt_succ_of_le (hi ▸ this)
        · intro kb pk hg; simp only [ha] at hg; cases hg

end Poly.Model.Gov
