import Poly.Generated.EthSizeCerts7
/-! Kernel evaluation of the certificate checker on the 64-epoch chunks 28..31 of both ethash size tables (C28).
    Depends only on the generated certificate module (table values + certificates), not on the rule constants. -/
namespace Poly.Proofs.EthSizeChk
open Poly.Model.EthSizeCert Poly.Generated

theorem dataset_28 : checkTable 1073741824 8388608 128 1792 EthSizeCerts.datasetVals_28 EthSizeCerts.datasetCerts_28 = true := by
  decide +kernel

theorem cache_28 : checkTable 16777216 131072 64 1792 EthSizeCerts.cacheVals_28 EthSizeCerts.cacheCerts_28 = true := by
  decide +kernel

theorem dataset_29 : checkTable 1073741824 8388608 128 1856 EthSizeCerts.datasetVals_29 EthSizeCerts.datasetCerts_29 = true := by
  decide +kernel

theorem cache_29 : checkTable 16777216 131072 64 1856 EthSizeCerts.cacheVals_29 EthSizeCerts.cacheCerts_29 = true := by
  decide +kernel

theorem dataset_30 : checkTable 1073741824 8388608 128 1920 EthSizeCerts.datasetVals_30 EthSizeCerts.datasetCerts_30 = true := by
  decide +kernel

theorem cache_30 : checkTable 16777216 131072 64 1920 EthSizeCerts.cacheVals_30 EthSizeCerts.cacheCerts_30 = true := by
  decide +kernel

theorem dataset_31 : checkTable 1073741824 8388608 128 1984 EthSizeCerts.datasetVals_31 EthSizeCerts.datasetCerts_31 = true := by
  decide +kernel

theorem cache_31 : checkTable 16777216 131072 64 1984 EthSizeCerts.cacheVals_31 EthSizeCerts.cacheCerts_31 = true := by
  decide +kernel

end Poly.Proofs.EthSizeChk
