import Poly.Proofs.MerkleStore
/-
Bit helpers as coded (`countBit` loop) and the range in which the `Nat` model of the `uint32` arithmetic is exact.
-/
namespace Poly.Proofs.MerkleBits
open Poly.Spec.RFC6962 Poly.Model.Merkle Poly.Proofs.MerkleSpec Poly.Proofs.MerkleServe Poly.Proofs.MerkleStore

/-- Clearing the lowest set bit removes exactly one one-bit. -/
theorem countBit_clear (n : Nat) (h : n ≠ 0) : countBit (n &&& (n - 1)) + 1 = countBit n := by
  induction n using Nat.strongRecOn with
  | _ n ih =>
    rw [countBit_eq (n &&& (n - 1)), countBit_eq n, Nat.and_div_two]
    have hm : (n &&& (n - 1)) % 2 = n % 2 &&& (n - 1) % 2 := by
      have := @Nat.and_mod_two_pow n (n - 1) 1
      simpa using this
    rw [hm]
    by_cases hodd : n % 2 = 1
    · have h1 : (n - 1) % 2 = 0 := by omega
      have h2 : (n - 1) / 2 = n / 2 := by omega
      rw [hodd, h1, h2, Nat.and_self]; simp; omega
    · have h0 : n % 2 = 0 := by omega
      have h2 : (n - 1) / 2 = n / 2 - 1 := by omega
      rw [h0, h2, Nat.zero_and]
      have := ih (n / 2) (by omega) (by omega)
      omega

theorem and_pred_lt (n : Nat) (h : n ≠ 0) : n &&& (n - 1) < n := by
  have := @Nat.and_le_right n (n - 1)
  omega

theorem countBitLoop_eq (f : Nat) : ∀ n, n ≤ f → countBitLoop f n = countBit n := by
  induction f with
  | zero => intro n h; have : n = 0 := by omega
            subst this; simp [countBitLoop, countBit]
  | succ f ih =>
    intro n h
    rw [countBitLoop]
    by_cases h0 : n = 0
    · subst h0; simp [countBit]
    · simp only [h0, ↓reduceIte]
      have hlt := and_pred_lt n h0
      rw [ih _ (by omega)]
      have := countBit_clear n h0
      omega

/-- The Go loop computes the digit sum used everywhere else in the model. -/
theorem countBitGo_eq (n : Nat) : countBitGo n = countBit n := countBitLoop_eq n n (Nat.le_refl n)

/-! ### ranges -/

theorem storedHashNum_zero : storedHashNum 0 = 0 := by
  simp [storedHashNum, getSubTreeSize, subTreeSizesLow]

theorem storedHashNum_top (n : Nat) (h : 1 ≤ n) :
    storedHashNum n = (2 * topBit n - 1) + storedHashNum (n - topBit n) := by
  unfold storedHashNum
  rw [getSubTreeSize_top n h, List.foldl_cons, foldl_add_shift]; omega

/-- The store of an `n`-leaf tree holds `2n - popcount(n)` hashes. -/
theorem storedHashNum_add_countBit (n : Nat) : storedHashNum n + countBit n = 2 * n := by
  induction n using Nat.strongRecOn with
  | _ n ih =>
    by_cases h0 : n = 0
    · subst h0; simp [storedHashNum_zero, countBit]
    · obtain ⟨⟨j, hj⟩, b, c⟩ := topBit_spec n (by omega)
      have hkpos := topBit_pos n
      rw [storedHashNum_top n (by omega)]
      have h1 := ih (n - topBit n) (by omega)
      have h2 := countBit_pow2_add j (n - topBit n) (by omega)
      have e : 2 ^ j + (n - topBit n) = n := by omega
      rw [e] at h2
      omega

theorem prefixSums_le (l : List Nat) : ∀ acc, ∀ p ∈ prefixSums acc l, p ≤ acc + l.foldl (· + ·) 0 := by
  induction l with
  | nil => intro acc p hp; simp [prefixSums] at hp
  | cons x l ih =>
    intro acc p hp
    simp only [prefixSums, List.mem_cons] at hp
    rw [List.foldl_cons, foldl_add_shift]
    rcases hp with rfl | hp
    · omega
    · have := ih (acc + x) p hp; omega

theorem getSubTreePos_le (n : Nat) : ∀ p ∈ getSubTreePos n, p ≤ storedHashNum n := by
  intro p hp
  have := prefixSums_le (getSubTreeSize n) 0 p hp
  unfold storedHashNum; omega

theorem mem_le_foldl (l : List Nat) : ∀ x ∈ l, x ≤ l.foldl (· + ·) 0 := by
  induction l with
  | nil => intro x hx; simp at hx
  | cons y l ih =>
    intro x hx
    rw [List.foldl_cons, foldl_add_shift]
    simp only [List.mem_cons] at hx
    rcases hx with rfl | hx
    · omega
    · have := ih x hx; omega

theorem getSubTreeSize_le (n : Nat) : ∀ s ∈ getSubTreeSize n, s ≤ storedHashNum n :=
  fun s hs => mem_le_foldl _ s hs

/-- Range in which the `Nat` model of the `uint32` arithmetic is exact: for trees below 2^31 leaves every
subtree size, every store position and the store length itself stay below 2^32 (so `id * 2`, the prefix sums
of `getSubTreePos`, `offset += k*2 - 1` and `pos[p] + offset + k*2 - 1` never wrap), and `treeSize + 1` does
not wrap either. -/
theorem uint32_range (n : Nat) (h : n < 2 ^ 31) :
    n + 1 < 2 ^ 32 ∧ storedHashNum n ≤ 2 * n ∧ storedHashNum n < 2 ^ 32 ∧
    (∀ s ∈ getSubTreeSize n, s < 2 ^ 32) ∧ (∀ p ∈ getSubTreePos n, p < 2 ^ 32) := by
  have h1 := storedHashNum_add_countBit n
  have h2 : (2 : Nat) ^ 32 = 2 * 2 ^ 31 := by rw [← Nat.pow_succ']
  refine ⟨by omega, by omega, by omega, ?_, ?_⟩
  · intro s hs; have := getSubTreeSize_le n s hs; omega
  · intro p hp; have := getSubTreePos_le n p hp; omega

/-- `merkleRoot(n)`: the root of the first `n` leaves recomputed from the store. -/
theorem merkleRoot_ok (H : List UInt8 → List UInt8) (L : List Hash) (s : State) (st : HashStore) (n : Nat)
    (hinv : SInv H L s) (hst : s.store = some st) (hn1 : 1 ≤ n) (hn : n ≤ L.length) :
    merkleRoot H (getHash1 st) n = .ok (mth H (L.take n)) := by
  obtain ⟨_, _, h3⟩ := hinv
  obtain ⟨rest, hrest⟩ := postorder_prefix H (L.take n) (L.drop n)
  rw [List.take_append_drop] at hrest
  have hlen : (L.take n).length = n := by simp; omega
  have := rangeRoot_ok H st (L.take n) [] rest (by intro e; rw [e] at hlen; simp at hlen; omega)
    (by rw [h3 st hst, hrest]; simp)
  rw [hlen] at this
  exact this

end Poly.Proofs.MerkleBits
