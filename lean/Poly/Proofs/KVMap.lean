import Poly.Proofs.KVOrder
/- The ordered association list: invariant, lookup/insert laws, extensionality. -/
namespace Poly.Model.KV

/-- Strictly increasing keys (hence no duplicate key). -/
def Sorted (m : Entries) : Prop := m.Pairwise (fun a b => ltB a.1 b.1 = true)

theorem Sorted.nil : Sorted [] := List.Pairwise.nil

theorem sorted_cons {e : Key × Val} {m : Entries} :
    Sorted (e :: m) ↔ (∀ x ∈ m, ltB e.1 x.1 = true) ∧ Sorted m := by
  simp [Sorted, List.pairwise_cons]

theorem Sorted.tail {e : Key × Val} {m : Entries} (h : Sorted (e :: m)) : Sorted m := (sorted_cons.mp h).2

theorem mem_insert {k : Key} {v : Val} {m : Entries} {x : Key × Val} (hx : x ∈ insert k v m) :
    x = (k, v) ∨ x ∈ m ∨ (x.1 = k ∧ x.2 = v) := by
  induction m with
  | nil => simp [insert] at hx; exact .inl hx
  | cons e r ih =>
    obtain ⟨k', v'⟩ := e
    simp only [insert] at hx
    split at hx
    · simp at hx; rcases hx with h | h | h
      · exact .inl h
      · exact .inr (.inl (by simp [h]))
      · exact .inr (.inl (by simp [h]))
    · rename_i heq
      have := cmpB_eq_iff.mp heq
      simp at hx; rcases hx with h | h
      · subst this; exact .inl h
      · exact .inr (.inl (by simp [h]))
    · simp at hx; rcases hx with h | h
      · exact .inr (.inl (by simp [h]))
      · rcases ih h with h | h | h
        · exact .inl h
        · exact .inr (.inl (by simp [h]))
        · exact .inr (.inr h)

theorem key_of_mem_insert {k : Key} {v : Val} {m : Entries} {x : Key × Val} (hx : x ∈ insert k v m) :
    x.1 = k ∨ x ∈ m := by
  rcases mem_insert hx with h | h | h
  · exact .inl (by simp [h])
  · exact .inr h
  · exact .inl h.1

theorem insert_sorted {k : Key} {v : Val} {m : Entries} (h : Sorted m) : Sorted (insert k v m) := by
  induction m with
  | nil => simp [insert, Sorted]
  | cons e r ih =>
    obtain ⟨k', v'⟩ := e
    have ⟨h1, h2⟩ := sorted_cons.mp h
    simp only [insert]
    split
    · rename_i hlt
      refine sorted_cons.mpr ⟨?_, h⟩
      intro x hx
      simp at hx; rcases hx with hx | hx
      · subst hx; exact ltB_iff.mpr hlt
      · exact ltB_trans (ltB_iff.mpr hlt) (h1 x hx)
    · exact sorted_cons.mpr ⟨h1, h2⟩
    · rename_i hgt
      refine sorted_cons.mpr ⟨?_, ih h2⟩
      intro x hx
      rcases key_of_mem_insert hx with hk | hm
      · simp only [hk]; exact ltB_iff.mpr (cmpB_gt_iff_lt.mp hgt)
      · exact h1 x hm

theorem lookup_insert_self (k : Key) (v : Val) (m : Entries) : lookup k (insert k v m) = some v := by
  induction m with
  | nil => simp [insert, lookup, cmpB_refl]
  | cons e r ih =>
    obtain ⟨k', v'⟩ := e
    simp only [insert]
    split
    · simp [lookup, cmpB_refl]
    · rename_i heq; simp [lookup, heq]
    · rename_i hgt; simp [lookup, hgt, ih]

theorem lookup_insert_ne {k k' : Key} (v : Val) (m : Entries) (hne : k ≠ k') :
    lookup k' (insert k v m) = lookup k' m := by
  induction m with
  | nil =>
    simp only [insert, lookup]
    cases h : cmpB k' k with
    | lt => rfl
    | eq => exact absurd (cmpB_eq_iff.mp h).symm hne
    | gt => rfl
  | cons e r ih =>
    obtain ⟨k1, v1⟩ := e
    simp only [insert]
    split
    · rename_i hlt     -- k < k1
      simp only [lookup]
      cases h : cmpB k' k with
      | lt => simp [cmpB_lt_trans h hlt]
      | eq => exact absurd (cmpB_eq_iff.mp h).symm hne
      | gt => rfl
    · rename_i heq
      have hk := cmpB_eq_iff.mp heq; subst hk
      simp only [lookup]
      cases h : cmpB k' k with
      | lt => rfl
      | eq => exact absurd (cmpB_eq_iff.mp h).symm hne
      | gt => rfl
    · simp only [lookup]
      cases h : cmpB k' k1 with
      | lt => rfl
      | eq => rfl
      | gt => exact ih

theorem lookup_insert (k k' : Key) (v : Val) (m : Entries) :
    lookup k' (insert k v m) = if k = k' then some v else lookup k' m := by
  by_cases h : k = k'
  · subst h; simp [lookup_insert_self]
  · simp [h, lookup_insert_ne v m h]

theorem lookup_none_of_lt {k : Key} {m : Entries} (h : ∀ x ∈ m, ltB k x.1 = true) : lookup k m = none := by
  cases m with
  | nil => rfl
  | cons e r =>
    obtain ⟨k', v'⟩ := e
    have := ltB_iff.mp (h (k', v') (by simp))
    simp [lookup, this]

theorem lookup_none_of_le {k k0 : Key} {m : Entries} (h : ∀ x ∈ m, ltB k0 x.1 = true) (hk : ltB k0 k = false) :
    lookup k m = none :=
  lookup_none_of_lt (fun x hx => ltB_of_not_lt_of_lt hk (h x hx))

/-- Extensionality: a sorted list is determined by its lookup function. -/
theorem sorted_ext {a b : Entries} (ha : Sorted a) (hb : Sorted b) (h : ∀ k, lookup k a = lookup k b) : a = b := by
  induction a generalizing b with
  | nil =>
    cases b with
    | nil => rfl
    | cons e r => have := h e.1; simp [lookup, cmpB_refl] at this
  | cons e r ih =>
    obtain ⟨k, v⟩ := e
    cases b with
    | nil => have := h k; simp [lookup, cmpB_refl] at this
    | cons e2 r2 =>
      obtain ⟨k2, v2⟩ := e2
      have ⟨ha1, ha2⟩ := sorted_cons.mp ha
      have ⟨hb1, hb2⟩ := sorted_cons.mp hb
      have hkk : k = k2 := by
        rcases cmpB_cases k k2 with hc | hc | hc
        · have := h k; simp [lookup, cmpB_refl, hc] at this
        · exact hc
        · have := h k2; simp [lookup, cmpB_refl, hc] at this
      subst hkk
      have hv : v = v2 := by have := h k; simpa [lookup, cmpB_refl] using this
      subst hv
      congr 1
      apply ih ha2 hb2
      intro k'
      cases hc : cmpB k' k with
      | gt => have := h k'; simpa [lookup, hc] using this
      | lt =>
        have hf : ltB k k' = false := ltB_asymm (ltB_iff.mpr hc)
        rw [lookup_none_of_le ha1 hf, lookup_none_of_le hb1 hf]
      | eq =>
        have := cmpB_eq_iff.mp hc; subst this
        rw [lookup_none_of_le ha1 (ltB_irrefl _), lookup_none_of_le hb1 (ltB_irrefl _)]

theorem lookup_eq_some_iff {k : Key} {v : Val} {m : Entries} (hs : Sorted m) : lookup k m = some v ↔ (k, v) ∈ m := by
  induction m with
  | nil => simp [lookup]
  | cons e r ih =>
    obtain ⟨k', v'⟩ := e
    have ⟨h1, h2⟩ := sorted_cons.mp hs
    simp only [lookup, List.mem_cons, Prod.mk.injEq]
    cases hc : cmpB k k' with
    | lt =>
      simp only [reduceCtorEq, false_iff, not_or, not_and]
      refine ⟨fun hk => ?_, fun hm => ?_⟩
      · subst hk; simp [cmpB_refl] at hc
      · have := h1 _ hm; simp only at this
        exact absurd (ltB_trans (ltB_iff.mpr hc) this) (by simp [ltB_irrefl])
    | eq =>
      have := cmpB_eq_iff.mp hc; subst this
      simp only [Option.some.injEq, true_and]
      refine ⟨fun h => .inl h.symm, fun h => ?_⟩
      rcases h with h | h
      · exact h.symm
      · have := h1 _ h; simp [ltB_irrefl] at this
    | gt =>
      rw [ih h2]
      refine ⟨fun h => .inr h, fun h => ?_⟩
      rcases h with h | h
      · rw [h.1, cmpB_refl] at hc; cases hc
      · exact h

/-! ### Sequences of writes -/

/-- Apply a sequence of writes (delete = write of the empty value) to a buffer. -/
def applyOps (m : Entries) (ops : List (Key × Val)) : Entries := ops.foldl (fun m o => insert o.1 o.2 m) m

/-- The net effect of a write sequence: the last value written to each key. -/
def lastWrite : List (Key × Val) → Key → Option Val
  | [], _ => none
  | (k', v) :: r, k =>
    match lastWrite r k with
    | some x => some x
    | none => if k' = k then some v else none

theorem applyOps_sorted {m : Entries} (ops : List (Key × Val)) (h : Sorted m) : Sorted (applyOps m ops) := by
  induction ops generalizing m with
  | nil => exact h
  | cons o r ih => exact ih (insert_sorted h)

theorem lookup_applyOps (m : Entries) (ops : List (Key × Val)) (k : Key) :
    lookup k (applyOps m ops) = match lastWrite ops k with | some x => some x | none => lookup k m := by
  induction ops generalizing m with
  | nil => simp [applyOps, lastWrite]
  | cons o r ih =>
    obtain ⟨k', v⟩ := o
    simp only [applyOps, List.foldl_cons] at ih ⊢
    rw [ih]
    simp only [lastWrite]
    cases lastWrite r k with
    | some x => rfl
    | none => simp only [lookup_insert]; split <;> rfl

end Poly.Model.KV
